import RecipeGrid.Lemmas.BraceErr
import RecipeGrid.Props.C03
/-! C13 (with C03 / C07 flavoured statements) for the `{…}` scaled-value expressions of Markdown prose
    (`recipe_grid.markdown.ScaledValueExpression`, model `Model/BraceExpr.lean`).

    * `braceMatch` is `pattern.match`: a backtracking search through an ordered-choice / greedy regular expression.
      `braceMatch_search` proves it equal to a search that only looks at backslashes and braces (`Brace.closeAt`),
      `braceMatch_sound`, `braceMatch_source_escaped`, `braceMatch_greedy` are consequences.
    * `braceTokens` is `any_part_pattern.finditer` with the values of `__init__`; `brace_step_groups` /
      `braceTokens_deterministic` prove it equal to a deterministic lexer on maximal runs (`Brace.lexCaps`, `Brace.lexTok`).
    * `print_parse_roundtrip`: what an author writes in braces (`Brace.printBrace`) is what gets scaled.
    * `brace_scale`: scaling multiplies exactly the numbers found and leaves the characters alone.
    Helper lemmas are in `Lemmas/BraceRe.lean`, `BraceMatch.lean`, `BraceLex.lean`, `BraceRound.lean`,
    `BracePrint.lean`, `BraceTotal.lean`, `BraceDecl.lean`. -/
namespace RG.C13
open Brace Parser

deriving instance DecidableEq for Num
deriving instance DecidableEq for Part

/-! ## the match -/

/-- **characterisation of the match**: `pattern.match` on `{t` finds what the search `closeAt` finds in `t` -
    a search in which only backslashes and braces matter: a `}` closes, a `{` cannot be passed, a backslash is first
    an escape of the next character (not of a line feed) and, if that leads nowhere, an ordinary character.
    The numbers play no role in where the expression ends. -/
theorem braceMatch_search (t : Str) :
    braceMatch ('{' :: t) = (closeAt t).map (fun r => (t.take (t.length - (r.length + 1)), r)) :=
  braceMatch_eq_closeAt t

/-- the match is anchored at an opening brace -/
theorem braceMatch_anchored : braceMatch [] = none ∧ ∀ ch t, ch ≠ '{' → braceMatch (ch :: t) = none :=
  ⟨braceMatch_nil, braceMatch_not_open⟩

/-- **soundness of the match**: the text is `{`, the source, `}`, the rest -/
theorem braceMatch_sound (text src rest : Str) (h : braceMatch text = some (src, rest)) :
    text = '{' :: (src ++ '}' :: rest) := by
  cases text with
  | nil => simp [braceMatch_nil] at h
  | cons ch t =>
    by_cases hc : ch = '{'
    · subst hc
      rw [braceMatch_eq_closeAt] at h
      cases hr : closeAt t with
      | none => rw [hr] at h; cases h
      | some r =>
        rw [hr] at h
        simp only [Option.map_some, Option.some.injEq, Prod.mk.injEq] at h
        obtain ⟨hsrc, rfl⟩ := h
        obtain ⟨src', hs⟩ := closeAt_suffix _ t r (Nat.le_refl _) hr
        subst hs
        simp at hsrc
        rw [← hsrc]
    · rw [braceMatch_not_open ch t hc] at h
      cases h

example : braceMatch "{a\\}".toList = some ("a\\".toList, []) := by decide +kernel
example : braceMatch "{1/0} x".toList = some ("1/0".toList, " x".toList) := by decide +kernel

/-- inside the matched source every brace stands directly after a backslash -/
theorem braceMatch_source_escaped (text src rest : Str) (h : braceMatch text = some (src, rest)) :
    bracesEscaped false src = true := by
  cases text with
  | nil => simp [braceMatch_nil] at h
  | cons ch t =>
    by_cases hc : ch = '{'
    · subst hc
      rw [braceMatch_eq_closeAt] at h
      cases hr : closeAt t with
      | none => rw [hr] at h; cases h
      | some r =>
        rw [hr] at h
        simp only [Option.map_some, Option.some.injEq, Prod.mk.injEq] at h
        obtain ⟨hsrc, rfl⟩ := h
        obtain ⟨src', hs, he⟩ := closeAt_escaped _ t r (Nat.le_refl _) hr
        subst hs
        simp at hsrc
        rw [← hsrc]
        exact he
    · rw [braceMatch_not_open ch t hc] at h
      cases h

/-- **when there is a match** (declaratively): `{t` matches exactly when `t` starts with a stretch in which every brace
    stands directly after a backslash, followed by a `}`.  (Which such `}` is taken is what `braceMatch_search` says.) -/
theorem braceMatch_iff (t : Str) :
    (braceMatch ('{' :: t)).isSome = true ↔ ∃ src r, t = src ++ '}' :: r ∧ bracesEscaped false src = true := by
  rw [braceMatch_eq_closeAt]
  constructor
  · intro h
    cases hr : closeAt t with
    | none => rw [hr] at h; cases h
    | some r =>
      obtain ⟨src, hs, he⟩ := closeAt_escaped _ t r (Nat.le_refl _) hr
      exact ⟨src, r, hs, he⟩
  · rintro ⟨src, r, rfl, he⟩
    have := closeAt_isSome_of_escaped _ src r (Nat.le_refl _) he
    cases hq : closeAt (src ++ '}' :: r) with
    | none => rw [hq] at this; cases this
    | some _ => rfl

/-- **the search is needed only where the greedy reading of escapes fails**: if reading every backslash as an
    escape (of anything but a line feed) reaches a closing brace, that is the match -/
theorem braceMatch_greedy (t r : Str) (h : closeGreedy t = some r) :
    braceMatch ('{' :: t) = some (t.take (t.length - (r.length + 1)), r) := by
  rw [braceMatch_eq_closeAt, closeAt_of_greedy _ t r (Nat.le_refl _) h]
  rfl

/-- **when the search was needed**: if the greedy reading finds no end but there is a match, then the greedy reading of
    the matched source is not clean - it ends on a backslash (the trailing-backslash case: `\}` was first taken for an
    escape) or it meets a brace that it does not escape (a brace after an even number of backslashes, as in `{\\{}`) -/
theorem braceMatch_search_needed (t src r : Str) (hg : closeGreedy t = none)
    (hm : braceMatch ('{' :: t) = some (src, r)) : greedyClean src = false := by
  have hs := braceMatch_sound _ _ _ hm
  simp only [List.cons.injEq, true_and] at hs
  cases hc : greedyClean src with
  | false => rfl
  | true =>
    rw [hs, closeGreedy_of_clean _ src r (Nat.le_refl _) hc] at hg
    cases hg

/-- the trailing backslash: the greedy reading takes `\}` for an escape and finds no end; the search re-reads the
    backslash as a character -/
example : closeGreedy "a\\}".toList = none ∧ braceMatch "{a\\}".toList = some ("a\\".toList, []) := by decide +kernel
/-- the search can also pass a brace that the greedy reading cannot: `{\\{}` has the source `\\{`
    (and `finditer` then silently drops the `{`: the expression renders as a single backslash) -/
example : closeGreedy "\\\\{}".toList = none ∧ braceMatch "{\\\\{}".toList = some ("\\\\{".toList, []) ∧
    braceParts "\\\\{".toList = [.text ['\\']] := by decide +kernel
/-- and it can stop before a later closing brace that a different reading would reach -/
example : braceMatch "{\\\\}x}".toList = some ("\\\\".toList, "x}".toList) := by decide +kernel

/-! ## the parts -/

/-- **one step of `finditer`, groups included, is a deterministic lexer**: maximal runs of digits and blanks; a
    mixed fraction if there is one, else a fraction, else a decimal; a backslash escapes anything but a line feed -/
theorem brace_step_groups (s : Str) : Brace.partAt s = lexCaps s := partAt_eq_lexCaps s

/-- **the tokenisation is the deterministic lexer** -/
theorem braceTokens_deterministic (src : Str) : braceTokens src = lexTokens src := braceTokens_eq_lexTokens src

/-- **C07 for prose: no `ZeroDivisionError`** - whenever `__init__` calls `Fraction(numerator, denominator)` the
    denominator text is there and its value is not zero; and the result is a normal scaled value string -/
theorem braceParts_total (src : Str) :
    (∀ c ∈ Brace.matches src, ∀ numer, c.get gNumerator = some numer →
        ∃ d, c.get gDenominator = some d ∧ natOfDigits d ≠ 0) ∧
    C03.SvsNormal (braceParts src) :=
  ⟨fun c hc numer hn => matches_denominator src c hc numer hn, C03.normalise_normal _⟩

/-- **C07 for prose: no exception at all on sources of sane size** - with at most 300 characters between the braces,
    `ScaledValueExpression(match)` returns (no `ValueError` from `int()`, no `OverflowError` from rendering `inf`) -/
theorem braceExpr_total (src : Str) (h : src.length ≤ 300) : braceExpr src = .ok (braceParts src) :=
  braceExpr_ok_of_short src h

/-- the `ValueError` of `int()` needs more than 4300 characters -/
theorem braceExpr_int_limit (src : Str) (h : src.length ≤ 4300) : (Brace.matches src).any capsIntTooLong = false :=
  matches_no_intTooLong src h

def isValueError : Except BraceErr SVS → Bool | .error .valueError => true | _ => false
def isOverflowError : Except BraceErr SVS → Bool | .error .overflowError => true | _ => false
def isInfiniteFloat : Except BraceErr SVS → Bool | .error .infiniteFloat => true | _ => false

set_option maxRecDepth 100000 in
/-- the real constructor does raise on long numbers (both observed on the real code, see NOTES.md):
    4301 digits - `ValueError` (CPython's limit on `int(str)`) -/
theorem braceExpr_valueError_witness : isValueError (braceExpr (List.replicate 4301 '1')) = true := by
  decide +kernel
/-- 309 digits and a point - `float()` gives `inf`; `str(self.string)` used to raise `OverflowError` there (a defect this model
    exhibited; repaired in /repo: `format_float` now shows `inf`), so today the outcome is a string holding an infinity -/
theorem braceExpr_infinite_witness : isInfiniteFloat (braceExpr (List.replicate 309 '9' ++ ['.'])) = true := by
  decide +kernel
set_option maxRecDepth 100000 in
/-- 309 digits and `1/9` - a `Fraction` whose denominator is not shown as a fraction goes through `float()`, which raises `OverflowError` -/
theorem braceExpr_overflow_witness : isOverflowError (braceExpr (List.replicate 309 '9' ++ " 1/9".toList)) = true := by
  decide +kernel

/-- `1/0` is not read as a fraction: three parts, none of them a `Fraction` -/
example : braceParts "1/0".toList = [.num ⟨1, .int⟩, .text ['/'], .num ⟨0, .int⟩] := by decide +kernel
example : (Brace.matches "1 2/03".toList).map (fun c => (c.get gInteger, c.get gNumerator, c.get gDenominator))
    = [(some ['1'], some ['2'], some ['0', '3'])] := by decide +kernel

/-! ## every spelling of a number is read as its value

    (odd spacing, leading zeros and all; `r` is what follows in the source) -/

/-- `integer blanks+ numerator blanks* / blanks* denominator` is `int(integer) + Fraction(numerator, denominator)` -/
theorem spelling_mixed (i h1 n h2 h3 d r : Str)
    (hine : i ≠ []) (hi : ∀ ch ∈ i, isDigit ch = true) (h1ne : h1 ≠ []) (hh1 : ∀ ch ∈ h1, isHsp ch = true)
    (hne : n ≠ []) (hn : ∀ ch ∈ n, isDigit ch = true) (hh2 : ∀ ch ∈ h2, isHsp ch = true)
    (hh3 : ∀ ch ∈ h3, isHsp ch = true) (hdne : d ≠ []) (hd : ∀ ch ∈ d, isDigit ch = true) (hnz : natOfDigits d ≠ 0)
    (hr : ∀ ch, r.head? = some ch → isDigit ch = false) :
    lexTok (i ++ (h1 ++ (n ++ (h2 ++ '/' :: (h3 ++ (d ++ r)))))) = some (.num (fracValue (some i) n d), r) := by
  have hz : hasNonZero d = true := by
    cases h : hasNonZero d with
    | true => rfl
    | false => exact absurd (digitsVal_of_no_nonZero d hd h) hnz
  rw [lexTok_of_digit_head i _ hine hi, lexNumber_mixed i h1 n h2 h3 d r hine hi h1ne hh1 hne hn hh2 hh3 hdne hd hz hr]

/-- `numerator blanks* / blanks* denominator` is `0 + Fraction(numerator, denominator)` -/
theorem spelling_fraction (n h2 h3 d r : Str)
    (hne : n ≠ []) (hn : ∀ ch ∈ n, isDigit ch = true) (hh2 : ∀ ch ∈ h2, isHsp ch = true)
    (hh3 : ∀ ch ∈ h3, isHsp ch = true) (hdne : d ≠ []) (hd : ∀ ch ∈ d, isDigit ch = true) (hnz : natOfDigits d ≠ 0)
    (hr : ∀ ch, r.head? = some ch → isDigit ch = false) :
    lexTok (n ++ (h2 ++ '/' :: (h3 ++ (d ++ r)))) = some (.num (fracValue none n d), r) := by
  have hz : hasNonZero d = true := by
    cases h : hasNonZero d with
    | true => rfl
    | false => exact absurd (digitsVal_of_no_nonZero d hd h) hnz
  rw [lexTok_of_digit_head n _ hne hn, lexNumber_frac n h2 h3 d r hne hn hh2 hh3 hdne hd hz hr]

/-- `whole . digits*` is `float(…)` -/
theorem spelling_float (w f r : Str) (hne : w ≠ []) (hw : ∀ ch ∈ w, isDigit ch = true)
    (hf : ∀ ch ∈ f, isDigit ch = true) (hr : ∀ ch, r.head? = some ch → isDigit ch = false) :
    lexTok (w ++ '.' :: (f ++ r)) = some (.num (floatValue w f), r) := by
  rw [lexTok_of_digit_head w _ hne hw, lexNumber_float w f r hne hw hf hr]

/-- digits alone are `int(…)` - if what follows is no ".", and after optional blanks neither a digit nor a "/" -/
theorem spelling_int (w r : Str) (hne : w ≠ []) (hw : ∀ ch ∈ w, isDigit ch = true) (hr : IntFollow r) :
    lexTok (w ++ r) = some (.num (intValue w), r) := by
  rw [lexTok_of_digit_head w _ hne hw, lexNumber_int w r hne hw hr]

/-- a zero denominator is no fraction: the numerator is read on its own -/
example : lexTok "1 / 00 x".toList = some (.num ⟨1, .int⟩, " / 00 x".toList) := by decide +kernel
example : lexTok "01 \t 02 /\t003}".toList = some (.num ⟨5 / 3, .frac⟩, "}".toList) := by decide +kernel

/-! ## writing and reading back -/

/-- **what an author writes in braces is what gets scaled.**  For a normal scaled value string `s` whose numbers are
    expressible (`NumOK`: not negative, an `int` whole, a `float` a double) and each followed by something that
    cannot be taken for a continuation of it (`Printable`, see `printable_of_sepOK` for a criterion on the parts):
    the written expression is matched as a whole, wherever it stands, and is read back as `s`.
    The match needs no side condition at all. -/
theorem print_parse_roundtrip (s : SVS) (rest : Str) (hn : C03.SvsNormal s) (hp : Printable s) :
    braceMatch ('{' :: (printBrace s ++ '}' :: rest)) = some (printBrace s, rest) ∧
    braceParts (printBrace s) = s :=
  ⟨braceMatch_printBrace s rest, braceParts_printBrace s ((Svs.normal_iff s).2 hn) hp⟩

/-- the side conditions in terms of the parts: numbers are separated by text; the text after an `int` does not
    start with "." and its first character other than a blank exists and is not "/" -/
theorem print_parse_roundtrip_parts (s : SVS) (rest : Str) (hn : C03.SvsNormal s)
    (hok : ∀ n ∈ C03.svsNums s, NumOK n) (hsep : sepOK s = true) :
    braceMatch ('{' :: (printBrace s ++ '}' :: rest)) = some (printBrace s, rest) ∧
    braceParts (printBrace s) = s := by
  have hnorm := (Svs.normal_iff s).2 hn
  refine print_parse_roundtrip s rest hn (printable_of_sepOK s hnorm ?_ hsep)
  intro p hp n hpn
  subst hpn
  apply hok
  simp only [C03.svsNums, List.mem_filterMap]
  exact ⟨_, hp, rfl⟩

/-- the image alt text of a written expression is the plain rendering of the string -/
theorem braceChildren_printBrace (s : SVS) (hn : C03.SvsNormal s) (hp : Printable s) :
    braceChildren (printBrace s) = Svs.render s := by
  unfold braceChildren
  rw [braceParts_printBrace s ((Svs.normal_iff s).2 hn) hp]

/-- an example with every kind of number and text that needs escapes -/
def exSvs : SVS :=
  [.text "Serves ".toList, .num ⟨4, .int⟩, .text ": ".toList, .num ⟨3 / 2, .frac⟩, .text " cups {2%}, ".toList,
   .num ⟨5 / 2, .flt⟩, .text "kg \\ ".toList, .num ⟨2 / 3, .frac⟩]

example : printBrace exSvs = "Serves 4: 1 1/2 cups \\{\\2%\\}, 2.5kg \\\\ 2/3".toList := by decide +kernel
example : sepOK exSvs = true := by decide +kernel
example : braceParts (printBrace exSvs) = exSvs := by decide +kernel

theorem exSvs_numOK : ∀ n ∈ C03.svsNums exSvs, NumOK n := by
  intro n hn
  simp only [C03.svsNums, exSvs, List.filterMap_cons, List.filterMap_nil, List.mem_cons, List.not_mem_nil,
    or_false] at hn
  rcases hn with rfl | rfl | rfl | rfl
  · refine ⟨?_, ?_, ?_⟩
    · decide +kernel
    · intro _; rfl
    · intro h; cases h
  · refine ⟨?_, ?_, ?_⟩
    · decide +kernel
    · intro h; cases h
    · intro h; cases h
  · refine ⟨?_, ?_, ?_⟩
    · decide +kernel
    · intro h; cases h
    · intro _; exact ⟨by decide +kernel, 1, by decide +kernel⟩
  · refine ⟨?_, ?_, ?_⟩
    · decide +kernel
    · intro h; cases h
    · intro h; cases h

theorem exSvs_normal : C03.SvsNormal exSvs := by
  exact (Svs.normal_iff _).1 (by simp [exSvs, Svs.Normal, Svs.startsText, Svs.isText])

/-- the hypotheses of the round trip are satisfiable -/
example : braceParts (printBrace exSvs) = exSvs :=
  (print_parse_roundtrip_parts exSvs [] exSvs_normal exSvs_numOK (by decide +kernel)).2

/-! ### each side condition is needed -/

/-- two numbers with nothing between them are read as one -/
example : braceParts (printBrace [.num ⟨1, .int⟩, .num ⟨2, .int⟩]) = [.num ⟨12, .int⟩] := by decide +kernel
example : braceParts (printBrace [.num ⟨1 / 2, .frac⟩, .num ⟨3, .int⟩]) = [.num ⟨1 / 23, .frac⟩] := by decide +kernel
/-- an `int` followed by text that starts with "." is read as a `float` -/
example : braceParts (printBrace [.num ⟨1, .int⟩, .text ['.']]) = [.num ⟨1, .flt⟩] := by decide +kernel
/-- an `int`, "/" (blanks around it or not), an `int`: read as a fraction -/
example : braceParts (printBrace [.num ⟨1, .int⟩, .text " / ".toList, .num ⟨2, .int⟩]) = [.num ⟨1 / 2, .frac⟩] := by decide +kernel
/-- an `int`, blanks, and then something that starts like a fraction: read as a mixed fraction -/
example : braceParts (printBrace [.num ⟨1, .int⟩, .text [' '], .num ⟨2, .int⟩, .text ['/'], .num ⟨3, .int⟩])
    = [.num ⟨5 / 3, .frac⟩] := by decide +kernel
example : braceParts (printBrace [.num ⟨1, .int⟩, .text [' '], .num ⟨2 / 3, .frac⟩]) = [.num ⟨5 / 3, .frac⟩] := by decide +kernel
/-- the criterion `sepOK` is sufficient, not necessary: the zero denominator is not a fraction -/
example : sepOK [.num ⟨1, .int⟩, .text ['/'], .num ⟨0, .int⟩] = false ∧
    braceParts (printBrace [.num ⟨1, .int⟩, .text ['/'], .num ⟨0, .int⟩]) = [.num ⟨1, .int⟩, .text ['/'], .num ⟨0, .int⟩] := by
  decide +kernel
/-- text is read back only in normal form: adjacent text parts come back merged -/
example : braceParts (printBrace [.text ['a'], .text ['b']]) = [.text ['a', 'b']] := by decide +kernel
/-- without the backslash a digit of the text would be scaled -/
example : braceParts "2%".toList = [.num ⟨2, .int⟩, .text ['%']] ∧
    braceParts (printBrace [.text "2%".toList]) = [.text "2%".toList] := by decide +kernel

/-! ## scaling -/

/-- **C03 for prose**: scaling a parsed expression multiplies exactly the numbers that `braceParts` found
    (Python's `*`, in order, none added or dropped) and leaves every character where it was -/
theorem brace_scale (k : Num) (src : Str) :
    C03.svsNums (Svs.scale k (braceParts src)) = (C03.svsNums (braceParts src)).map (·.mul k) ∧
    C03.eraseSvs (Svs.scale k (braceParts src)) = C03.eraseSvs (braceParts src) :=
  ⟨C03.svsNums_scale k _, C03.svs_scale_frame k _ (C03.normalise_normal _)⟩

/-- scaling what the author wrote: the numbers of `s` times `k`, the text of `s` -/
theorem brace_scale_written (k : Num) (s : SVS) (hn : C03.SvsNormal s) (hp : Printable s) :
    Svs.scale k (braceParts (printBrace s)) = s.map (Svs.scalePart k) := by
  rw [braceParts_printBrace s ((Svs.normal_iff s).2 hn) hp, Svs.scale_of_normal k s ((Svs.normal_iff s).2 hn)]

example : C03.svsNums (Svs.scale ⟨2, .int⟩ (braceParts "add {1 1/2} cups".toList))
    = [⟨3, .frac⟩] := by decide +kernel

end RG.C13
