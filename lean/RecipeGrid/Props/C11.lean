import RecipeGrid.Model.Fmt
/-! C11 — displayed numbers are correctly rounded, exact when they can be. -/
namespace RG.C11

/-- rounding half-to-even is within half a unit of the exact value, for every rational -/
theorem roundHalfEven_err (q : Rat) :
    2 * (((roundHalfEven q : Int) : Rat) - q) ≤ 1 ∧ 2 * (q - ((roundHalfEven q : Int) : Rat)) ≤ 1 := by
  have h1 := Rat.floor_le q
  have h2 := Rat.lt_floor_add_one q
  simp only [roundHalfEven]
  split
  · rename_i h
    have : ((q.floor + 1 : Int) : Rat) = (q.floor : Rat) + 1 := by simp [Rat.intCast_add]
    constructor <;> grind
  · split
    · rename_i h h'
      have : ((q.floor + 1 : Int) : Rat) = (q.floor : Rat) + 1 := by simp [Rat.intCast_add]
      constructor <;> grind
    · rename_i h h'
      constructor <;> grind

end RG.C11
