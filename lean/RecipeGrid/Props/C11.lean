import RecipeGrid.Model.Fmt
import RecipeGrid.Lemmas.Fmt
/-! C11 — displayed numbers are correctly rounded, exact when they can be. -/
namespace RG.C11

/-- rounding half-to-even is within half a unit of the exact value, for every rational -/
theorem roundHalfEven_err (q : Rat) :
    2 * (((roundHalfEven q : Int) : Rat) - q) ≤ 1 ∧ 2 * (q - ((roundHalfEven q : Int) : Rat)) ≤ 1 := by
  have h1 := Rat.floor_le q
  have h2 := Rat.lt_floor_add_one q
  simp only [roundHalfEven]
  split
  · rename_i h
    have : ((q.floor + 1 : Int) : Rat) = (q.floor : Rat) + 1 := by simp [Rat.intCast_add]
    constructor <;> grind
  · split
    · rename_i h h'
      have : ((q.floor + 1 : Int) : Rat) = (q.floor : Rat) + 1 := by simp [Rat.intCast_add]
      constructor <;> grind
    · rename_i h h'
      constructor <;> grind

/-! ## reading decimal text (specification side, independent of the formatter) -/

/-- a non-empty run of ASCII digits read as a natural number, most significant digit first -/
def readDigits (s : Str) : Option Nat :=
  if s ≠ [] ∧ s.all Char.isDigit then some (s.foldl (fun a c => 10 * a + (c.toNat - '0'.toNat)) 0) else none

/-- read plain decimal text: digits, optionally a '.' followed by digits; the tool's own number
    syntax for decimals.  `"12.50"` denotes `12 + 50/10^2`. -/
def readDecimal (s : Str) : Option Rat :=
  let ip := s.takeWhile (· != '.')
  match s.dropWhile (· != '.') with
  | [] =>
    match readDigits ip with
    | some a => some (a : Rat)
    | none => none
  | _ :: fp =>
    match readDigits ip, readDigits fp with
    | some a, some b => some ((a : Rat) + (b : Rat) / ((10 ^ fp.length : Nat) : Rat))
    | _, _ => none

example : readDecimal "12.50".toList = some (25 / 2) := by decide +kernel
example : readDecimal "12.".toList = none := by decide +kernel
example : readDecimal ".5".toList = none := by decide +kernel
example : readDecimal "1e3".toList = none := by decide +kernel
example : readDecimal "1.2.3".toList = none := by decide +kernel
example : readDecimal "007".toList = some 7 := by decide +kernel

theorem readDigits_of_isDigit {s : Str} (hs : s ≠ []) (hd : ∀ c ∈ s, c.isDigit = true) :
    readDigits s = some (digitsVal s) := by
  have : s.all Char.isDigit = true := List.all_eq_true.mpr hd
  simp [readDigits, hs, this, digitsVal]

theorem readDecimal_digits {s : Str} (hs : s ≠ []) (hd : ∀ c ∈ s, c.isDigit = true) :
    readDecimal s = some ((digitsVal s : Nat) : Rat) := by
  simp only [readDecimal, takeWhile_digits hd, dropWhile_digits hd, readDigits_of_isDigit hs hd]

theorem readDecimal_digits_dot {a b : Str} (ha0 : a ≠ []) (ha : ∀ c ∈ a, c.isDigit = true)
    (hb0 : b ≠ []) (hb : ∀ c ∈ b, c.isDigit = true) :
    readDecimal (a ++ '.' :: b) =
      some (((digitsVal a : Nat) : Rat) + ((digitsVal b : Nat) : Rat) / ((10 ^ b.length : Nat) : Rat)) := by
  simp only [readDecimal, takeWhile_digits_dot ha, dropWhile_digits_dot ha,
    readDigits_of_isDigit ha0 ha, readDigits_of_isDigit hb0 hb]

/-- C11.2 the digits of a natural number read back as that number -/
theorem natDigits_readback (n : Nat) : readDecimal (natDigits n) = some (n : Rat) := by
  rw [readDecimal_digits (natDigits_ne_nil n) (natDigits_isDigit n), digitsVal_natDigits]

/-! ## C11.1 `format_float` -/

/-- C11.1 value: the shown text denotes x rounded half-to-even to d decimals, d = fracDigits sig x -/
theorem formatFloat_value (sig : Nat) (x : Rat) (hx : 0 ≤ x) :
    readDecimal (formatFloatSig sig x) =
      some (((roundHalfEven (x * ((10 ^ fracDigits sig x : Nat) : Rat)) : Int) : Rat)
              / ((10 ^ fracDigits sig x : Nat) : Rat)) := by
  have hP := pow10_cast_pos (fracDigits sig x)
  rcases formatFloatSig_cases sig x hx with ⟨n, hfmt, hval⟩ | ⟨s, k, hfmt, hs, hdig, -, hlen, hval⟩
  · rw [hfmt, hval, natDigits_readback, Rat.intCast_natCast, Rat.natCast_mul,
      Rat.mul_div_cancel (Rat.ne_of_gt hP)]
  · rw [hfmt, hval, readDecimal_digits_dot (natDigits_ne_nil _) (natDigits_isDigit _) hs hdig,
      digitsVal_natDigits, Rat.intCast_natCast]
    have hk := pow10_cast_pos k
    have hsl := pow10_cast_pos s.length
    have hpow : ((10 ^ fracDigits sig x : Nat) : Rat) = ((10 ^ s.length : Nat) : Rat) * ((10 ^ k : Nat) : Rat) := by
      rw [← hlen, Nat.pow_add, Rat.natCast_mul]
    rw [hpow] at hP ⊢
    rw [Rat.natCast_add, Rat.natCast_mul, Rat.natCast_mul, ← hlen, Nat.pow_add, Rat.natCast_mul]
    congr 1
    grind

/-- hence within half a unit of the last digit of the budget -/
theorem formatFloat_err (sig : Nat) (x : Rat) (hx : 0 ≤ x) :
    ∃ v, readDecimal (formatFloatSig sig x) = some v ∧
      2 * ((10 ^ fracDigits sig x : Nat) : Rat) * (v - x) ≤ 1 ∧
      2 * ((10 ^ fracDigits sig x : Nat) : Rat) * (x - v) ≤ 1 := by
  refine ⟨_, formatFloat_value sig x hx, ?_⟩
  have hP := pow10_cast_pos (fracDigits sig x)
  have hb := roundHalfEven_err (x * ((10 ^ fracDigits sig x : Nat) : Rat))
  generalize ((10 ^ fracDigits sig x : Nat) : Rat) = P at *
  generalize ((roundHalfEven (x * P) : Int) : Rat) = R at *
  have h1 : P * (R / P) = R := by
    rw [Rat.mul_comm, Rat.div_mul_cancel (Rat.ne_of_gt hP)]
  constructor <;> grind

/-- C11.1 shape: plain decimal notation, never exponent form, no trailing zero after the point,
    no trailing point, at most `fracDigits` decimals -/
theorem formatFloat_shape (sig : Nat) (x : Rat) (hx : 0 ≤ x) :
    ∃ (ip fp : Str), formatFloatSig sig x = (if fp.isEmpty then ip else ip ++ '.' :: fp) ∧
      ip ≠ [] ∧ ip.all Char.isDigit ∧ fp.all Char.isDigit ∧ fp.getLast? ≠ some '0' ∧
      fp.length ≤ fracDigits sig x := by
  rcases formatFloatSig_cases sig x hx with ⟨n, hfmt, -⟩ | ⟨s, k, hfmt, hs, hdig, hlast, hlen, -⟩
  · exact ⟨natDigits n, [], by simpa using hfmt, natDigits_ne_nil n, natDigits_all_isDigit n,
      by simp, by simp, by simp⟩
  · refine ⟨natDigits x.floor.toNat, s, ?_, natDigits_ne_nil _, natDigits_all_isDigit _,
      List.all_eq_true.mpr hdig, hlast, by omega⟩
    have : s.isEmpty = false := by simpa using hs
    simpa [this] using hfmt

/-- C11.1 as used: `format_number` of a non-negative float, with the generated digit budget -/
theorem formatNumber_flt_value (x : Rat) (hx : 0 ≤ x) :
    readDecimal (formatNumber ⟨x, .flt⟩) =
      some (((roundHalfEven (x * ((10 ^ fracDigits Gen.significantFigures x : Nat) : Rat)) : Int) : Rat)
              / ((10 ^ fracDigits Gen.significantFigures x : Nat) : Rat)) :=
  formatFloat_value Gen.significantFigures x hx

/-- non-vacuity: 1.205 with a 3-digit budget has 2 decimals, 120.5 rounds half-to-even to 120,
    and the trailing zero is dropped -/
example : formatFloatSig 3 (mkRat 1205 1000) = "1.2".toList ∧ fracDigits 3 (mkRat 1205 1000) = 2 ∧
    readDecimal "1.2".toList = some (((120 : Int) : Rat) / ((10 ^ 2 : Nat) : Rat)) := by decide +kernel
/-- non-vacuity, carry: 9.995 has 2 decimals, 999.5 rounds half-to-even to 1000, shown as "10" -/
example : formatFloatSig 3 (mkRat 1999 200) = "10".toList := by decide +kernel
/-- non-vacuity: small values keep the whole budget as decimals -/
example : formatFloatSig 3 (mkRat 15 10000) = "0.002".toList := by decide +kernel

/-! ## C11.2 exact numbers -/

/-- C11.2 integers are shown exactly -/
theorem format_int_exact (n : Nat) : formatNumber ⟨(n : Rat), .int⟩ = natDigits n := by
  have h : intStr ((n : Rat).num) = natDigits n := by
    rw [Rat.num_natCast]; exact intStr_natCast n
  simpa [formatNumber, Num.isFlt, formatFraction] using h

/-- C11.2 rationals with an allowed denominator are shown exactly as a proper or mixed fraction in
    lowest terms -/
theorem format_fraction_exact (q : Rat) (hq : 0 ≤ q) (hd : q.den ≠ 1)
    (ha : q.den ∈ Gen.allowedDenominators) :
    let n := q.num.natAbs
    formatFraction q =
      (if n > q.den then natDigits (n / q.den) ++ ' ' :: natDigits (n % q.den) ++ '/' :: natDigits q.den
       else natDigits n ++ '/' :: natDigits q.den)
    ∧ 0 < n % q.den ∧ n % q.den < q.den ∧ Nat.Coprime (n % q.den) q.den
    ∧ ((n / q.den : Nat) : Rat) + ((n % q.den : Nat) : Rat) / (q.den : Rat) = q := by
  intro n
  have hnum : 0 ≤ q.num := Rat.num_nonneg.mpr hq
  have hnn : (n : Int) = q.num := by simp only [n]; omega
  have hden := q.den_pos
  have hcop : Nat.Coprime (n % q.den) q.den := by
    have := q.reduced
    rw [Nat.Coprime, ← Nat.gcd_rec, Nat.gcd_comm]; exact this
  refine ⟨?_, ?_, Nat.mod_lt _ hden, hcop, ?_⟩
  · have h1 : (q.den == 1) = false := by simpa using hd
    have h2 : Gen.allowedDenominators.contains q.den = true := by simpa using ha
    have h3 : intStr q.num = natDigits n := by rw [← hnn]; exact intStr_natCast n
    simp only [formatFraction, h1, h2, h3]
    simp [n]
  · apply Nat.pos_of_ne_zero
    intro h0
    rw [h0, Nat.Coprime, Nat.gcd_zero_left] at hcop
    exact hd hcop
  · have hq' : ((n : Nat) : Rat) / (q.den : Rat) = q := by
      rw [← Rat.intCast_natCast n, hnn, ← Rat.intCast_natCast q.den, ← Rat.divInt_eq_div]
      exact Rat.num_divInt_den q
    rw [natCast_div_add_mod n hden, hq']

example : formatFraction (mkRat 7 4) = "1 3/4".toList ∧ formatFraction (mkRat 3 4) = "3/4".toList := by
  decide +kernel

/-! ## C11.4 decimal fallback -/

/-- C11.4 other Fractions go through the nearest double: the shown value is the correctly rounded
    *double* (this is what the code does; the double rounding is a recorded finding) -/
theorem formatFraction_fallback (q : Rat) (hd : q.den ≠ 1) (ha : q.den ∉ Gen.allowedDenominators) :
    formatFraction q = formatFloat (toDouble q) := by
  have h1 : (q.den == 1) = false := by simpa using hd
  have h2 : Gen.allowedDenominators.contains q.den = false := by simpa using ha
  simp only [formatFraction, h1, h2]
  simp

/-- Recorded finding (double rounding): `q = 1.2550000000000000001` is strictly above the tie, so
    its correctly rounded 3-digit value is 1.26 (`roundHalfEven (q * 100) = 126`), but the nearest
    double of `q` is below 1.255, and `format_fraction` shows 1.25. -/
theorem formatFraction_double_rounding_witness :
    let q := mkRat 12550000000000000001 10000000000000000000
    q.den ∉ Gen.allowedDenominators ∧ q.den ≠ 1 ∧
    formatFraction q = "1.25".toList ∧ roundHalfEven (q * 100) = 126 ∧ fracDigits 3 q = 2 := by
  decide +kernel

end RG.C11
