import RecipeGrid.Model.Text
import RecipeGrid.Lemmas.Text
/-! C19.1 — padding a block's text with `k` newlines shifts line numbers by `k` and changes nothing else. -/
namespace RG.C19

/-- the Markdown front end prepends `k` newlines to a block's text so that line numbers match the document -/
def pad (k : Nat) (s : Str) : Str := List.replicate k '\n' ++ s

/-- sample text for the non-vacuity checks: `"ab\r\ncd\nef"` -/
def sample : Str := ['a', 'b', '\r', '\n', 'c', 'd', '\n', 'e', 'f']

/-- the padding becomes `k` empty lines in front of the unchanged lines of the text -/
theorem splitLinesKeep_pad (k : Nat) (s : Str) :
    splitLinesKeep (pad k s) = List.replicate k ['\n'] ++ splitLinesKeep s := by
  induction k with
  | zero => simp [pad]
  | succ k ih =>
    simp only [pad, splitLinesKeep, List.replicate_succ, List.cons_append] at ih ⊢
    rw [splitLinesKeepAux_lf, ih]
    simp

example : splitLinesKeep (pad 2 sample) =
    [['\n'], ['\n'], ['a', 'b', '\r', '\n'], ['c', 'd', '\n'], ['e', 'f']] := by decide +kernel

/-- C19.1 for any offset (inside, at the end, or beyond) of a non-empty text -/
theorem pad_line_of_ne_nil (k : Nat) (s : Str) (o : Nat) (hs : s ≠ []) :
    offsetToLineCol (pad k s) (k + o) = ((offsetToLineCol s o).1 + k, (offsetToLineCol s o).2) := by
  have hne : splitLinesKeep s ≠ [] := by rwa [Ne, splitLinesKeep_eq_nil]
  have hp : pad k s ≠ [] := by simp [pad, hs]
  rw [offsetToLineCol_of_ne_nil _ _ hp, offsetToLineCol_of_ne_nil _ _ hs, splitLinesKeep_pad,
    offsetToLineColAux_replicate k ['\n'] rfl, offsetToLineColAux_shift _ hne o 0 k _ 0]

/-- C19.1 the line of a token moves down by exactly k, its column is unchanged -/
theorem pad_line (k : Nat) (s : Str) (o : Nat) (h : o < s.length) :
    offsetToLineCol (pad k s) (k + o) = ((offsetToLineCol s o).1 + k, (offsetToLineCol s o).2) :=
  pad_line_of_ne_nil k s o (by intro e; subst e; simp at h)

example : offsetToLineCol sample 5 = (2, 2) ∧ offsetToLineCol (pad 3 sample) (3 + 5) = (5, 2) := by
  decide +kernel

/-- also for the position just past the end of a non-empty text -/
theorem pad_line_end (k : Nat) (s : Str) (hs : s ≠ []) :
    offsetToLineCol (pad k s) (k + s.length) =
      ((offsetToLineCol s s.length).1 + k, (offsetToLineCol s s.length).2) :=
  pad_line_of_ne_nil k s s.length hs

example : offsetToLineCol sample sample.length = (3, 3) ∧
    offsetToLineCol (pad 3 sample) (3 + sample.length) = (6, 3) := by decide +kernel

/-- the hypothesis `s ≠ []` is needed: for the empty text the end position is reported on the last padding
    line, not one line below it -/
example : offsetToLineCol (pad 2 []) (2 + 0) = (2, 2) ∧ offsetToLineCol [] 0 = (1, 1) := by decide +kernel

/-- and the quoted line is the same text -/
theorem pad_extract (k : Nat) (s : Str) (l : Nat) (hl : 1 ≤ l) (hs : s ≠ []) :
    extractLine (pad k s) (l + k) = extractLine s l := by
  have hp : pad k s ≠ [] := by simp [pad, hs]
  simp only [extractLine, splitLines, splitLinesKeep_pad]
  rw [if_neg (by simpa using hp), if_neg (by omega), if_neg (by simpa using hs), if_neg (by omega)]
  simp only [List.map_append, List.map_replicate]
  rw [List.getElem?_append_right (by simp; omega)]
  simp only [List.length_replicate]
  rw [show l + k - 1 - k = l - 1 by omega]

example : extractLine (pad 3 sample) (2 + 3) = some ['c', 'd'] ∧ extractLine sample 2 = some ['c', 'd'] := by
  decide +kernel

/-- both hypotheses are needed: for the empty text the padded text has no line `l + k`, and line `0` (Python's
    index `-1`, the last line) of the padded text `k` is a padding line -/
example : extractLine (pad 2 []) (1 + 2) = none ∧ extractLine [] 1 = some [] ∧
    extractLine (pad 2 sample) (0 + 2) = some [] ∧ extractLine sample 0 = some ['e', 'f'] := by
  decide +kernel

end RG.C19
