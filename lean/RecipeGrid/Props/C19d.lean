import RecipeGrid.Lemmas.MdMain
import RecipeGrid.Props.C19b
/-! C19.3 — from the document text to the lines the compiler sees.

    `Props/C19b.lean` (`markdown_error_line`) takes `pos` and the captured `source` of every code block as
    observed from marko.  Here they are computed by a model of marko's block scanner (`Model/MdBlocks.lean`:
    `scanBlocks`, compared exactly with marko by `corr_L3.py`), and for every document of the sub-language **D**
    (`inDoc`) every line of the text handed to the compiler is shown to be the document line with the same number,
    less the block's indentation. -/
namespace RG.C19

/-- the lines of the padded text of a fenced block -/
theorem fenced_block_lines (doc : Str) (hD : inDoc doc = true) (pre : List TLine) (t : TLine) (rest : List TLine)
    (f : FenceInfo) (hts : tagDoc doc = pre ++ t :: rest) (ht : t.tag = .fenceOpen f) :
    let k := lineSum pre + pyLineCount t.text
    pyLineCount t.text = 1 ∧
    ∀ (j : Nat) (s : Str),
      (plines (List.replicate k '\n' ++ crToLf (fencedSource f.indent (rest.takeWhile (·.tag.isFenceBody)))))[k + j]? = some s →
      ∃ d, (plines (crToLf (normaliseCrLf doc)))[k + j]? = some d ∧ KRel f.indent s d := by
  intro k
  have hok := tagDoc_linesOk doc pre t rest hts
  have hall := inDoc_ok doc hD
  have htm : t ∈ tagDoc doc := by rw [hts]; simp
  have hsound : TagSound t := tagLines_sound _ _ t htm
  have hfo : fenceOpen? t.text = some f := by
    simp only [TagSound, ht] at hsound; exact hsound
  -- the lines before the block, and the fence line, end with a newline
  have hpre : ∀ x ∈ pre, NlEnded x.text := fun x hx =>
    hok.nlEnded_left (by simp) _ (List.mem_map_of_mem hx)
  have htl : MdLine t.text := (hok.append_right).1
  have htok : hasInnerBreak t.text = false := by
    have := hall t htm
    simp only [TLine.ok, ht, Bool.not_eq_true'] at this
    exact this
  have h1 : pyLineCount t.text = 1 := pyLineCount_fence_line' _ htl htok
  refine ⟨h1, ?_⟩
  by_cases hrest : rest = []
  · -- the fence line is the last line of the document: the block is empty
    subst hrest
    intro j s hs
    simp only [List.takeWhile_nil, fencedSource, List.map_nil, List.flatten_nil] at hs
    rw [show crToLf [] = [] from rfl, List.append_nil] at hs
    have := plines_replicate_nl k []
    rw [List.append_nil] at this
    rw [this] at hs
    simp [plines] at hs
  have htnl : NlEnded t.text := (hok.append_right).2.1 (by simpa using hrest)
  -- the body
  obtain ⟨body, rest', hbr, hbody⟩ : ∃ body rest', rest = body ++ rest' ∧ body = rest.takeWhile (·.tag.isFenceBody) :=
    ⟨_, _, (List.takeWhile_append_dropWhile (p := fun x : TLine => x.tag.isFenceBody) (l := rest)).symm, rfl⟩
  rw [← hbody]
  have hbtag : ∀ x ∈ body, x.tag = .fenceBody f.indent := by
    rw [hbody]; exact tagLines_body_indent _ _ pre t rest f hts ht
  have hbok : LinesOk (body.map (·.text)) := by
    have := (hok.append_right).2.2
    rw [hbr, List.map_append] at this
    exact this.append_left
  have hbmd : ∀ x ∈ body, MdLine x.text := fun x hx => hbok.mdLine _ (List.mem_map_of_mem hx)
  have hdrop : Forall2 (Dropped f.indent) (body.map fun x => stripFence f.indent x.text) (body.map (·.text)) := by
    have : ∀ (l : List TLine), (∀ x ∈ l, x ∈ body) →
        Forall2 (Dropped f.indent) (l.map fun x => stripFence f.indent x.text) (l.map (·.text)) := by
      intro l
      induction l with
      | nil => intro _; exact .nil
      | cons x l ih =>
        intro hl
        have hx : x ∈ body := hl x (by simp)
        have hxok := hall x (by rw [hts, hbr]; simp [hx])
        simp only [TLine.ok, hbtag x hx] at hxok
        exact .cons (stripFence_dropped f.indent x.text (hbmd x hx) hxok)
          (ih fun y hy => hl y (List.mem_cons_of_mem _ hy))
    exact this body (fun _ h => h)
  have hrel := lines_drop_rel f.indent _ _ hdrop hbok
  -- the text of the document around the body
  have hN := tagDoc_norm doc pre t rest hts
  have hA : ∀ l ∈ pre.map (·.text) ++ [t.text], NlEnded l := by
    intro l hl
    rcases List.mem_append.1 hl with hl | hl
    · obtain ⟨x, hx, rfl⟩ := List.mem_map.1 hl; exact hpre x hx
    · simp at hl; subst hl; exact htnl
  have hk : k = (plines (crToLf (pre.map (·.text) ++ [t.text]).flatten)).length := by
    have := lineSum_eq (pre ++ [t]) (by
      intro x hx
      rcases List.mem_append.1 hx with hx | hx
      · exact hpre x hx
      · simp at hx; subst hx; exact htnl)
    simp only [List.map_append, List.map_cons, List.map_nil] at this
    rw [← this]
    simp [lineSum, k]
  have hC : plines (crToLf ((body.map (·.text)).flatten ++ (rest'.map (·.text)).flatten)) =
      plines (crToLf (body.map (·.text)).flatten) ++ plines (crToLf (rest'.map (·.text)).flatten) := by
    by_cases hr' : rest' = []
    · subst hr'; simp [crToLf, plines]
    · apply plines_flatten_nl
      have := (hok.append_right).2.2
      rw [hbr, List.map_append] at this
      exact this.nlEnded_left (by simpa using hr')
  intro j s hs
  have hcore := block_lines_core (crToLf (normaliseCrLf doc)) (crToLf (pre.map (·.text) ++ [t.text]).flatten)
    (crToLf (body.map (·.text)).flatten) (crToLf (rest'.map (·.text)).flatten)
    (crToLf (fencedSource f.indent body)) f.indent k (fun _ _ => False)
    (by rw [hN, hbr]; simp [crToLf_append])
    (by rw [← crToLf_append, ← crToLf_append]; exact plines_flatten_nl _ hA _)
    hk
    (by rw [← crToLf_append]; exact hC)
    (fun j s h => Or.inl (hrel j s h)) j s hs
  rcases hcore with h | h
  · exact h
  · exact absurd h id

/-- the lines of the padded text of an indented block -/
theorem code_block_lines (doc : Str) (hD : inDoc doc = true) (pre : List TLine) (t : TLine) (rest : List TLine)
    (hts : tagDoc doc = pre ++ t :: rest) (ht : t.tag = .codeStart) :
    let k := lineSum pre
    let S := crToLf (codeSource (t :: rest.takeWhile (·.tag.isCodeMore)))
    ∀ (j : Nat) (s : Str), (plines (List.replicate k '\n' ++ S))[k + j]? = some s →
      (∃ d, (plines (crToLf (normaliseCrLf doc)))[k + j]? = some d ∧ KRel 4 s d) ∨
        (s = [] ∧ j + 1 = (plines S).length ∧ (plines (crToLf (normaliseCrLf doc)))[k + j]? = none) := by
  intro k S
  have hok := tagDoc_linesOk doc pre t rest hts
  have hall := inDoc_ok doc hD
  have hsnd : ∀ x ∈ tagDoc doc, TagSound x := tagLines_sound _ _
  have hpre : ∀ x ∈ pre, NlEnded x.text := fun x hx =>
    hok.nlEnded_left (by simp) _ (List.mem_map_of_mem hx)
  obtain ⟨more, rest', hbr, hmore⟩ : ∃ more rest', rest = more ++ rest' ∧ more = rest.takeWhile (·.tag.isCodeMore) :=
    ⟨_, _, (List.takeWhile_append_dropWhile (p := fun x : TLine => x.tag.isCodeMore) (l := rest)).symm, rfl⟩
  have hS : S = crToLf (codeSource (t :: more)) := by rw [hmore]
  have htm : t ∈ tagDoc doc := by rw [hts]; simp
  have hlines : ∀ x ∈ t :: more, CodeLine x ∧ TagSound x ∧ x.ok = true := by
    intro x hx
    have hxm : x ∈ tagDoc doc := by
      rw [hts, hbr]
      rcases List.mem_cons.1 hx with rfl | hx
      · simp
      · simp [hx]
    refine ⟨?_, hsnd x hxm, hall x hxm⟩
    rcases List.mem_cons.1 hx with rfl | hx
    · exact Or.inl ht
    · rw [hmore] at hx
      have := mem_takeWhile_imp _ _ _ hx
      cases hxt : x.tag <;> simp [hxt, LineTag.isCodeMore] at this
      · exact Or.inr (Or.inl hxt)
      · exact Or.inr (Or.inr hxt)
  have hlok : LinesOk ((t :: more).map (·.text)) := by
    have := hok.append_right
    rw [hbr, List.map_append, ← List.cons_append] at this
    exact this.append_left
  obtain ⟨e, he, hflat⟩ := codeSource_flatten (t :: more) hlok hlines
  have hsrc : codeSource (t :: more) = rstripNl ((t :: more).map dropCode).flatten ++ ['\n'] := by
    rw [codeSource, hflat]
    rcases he with rfl | rfl
    · simp
    · rw [rstripNl_snoc_nl]
  have hdrop := forall2_dropCode (t :: more)
  have hrel := lines_drop_rel 4 _ _ hdrop hlok
  have hN : crToLf (normaliseCrLf doc) = crToLf (pre.map (·.text)).flatten ++
      (crToLf ((t :: more).map (·.text)).flatten ++ crToLf (rest'.map (·.text)).flatten) := by
    rw [tagDoc_norm doc pre t rest hts, hbr]; simp [crToLf_append]
  have hk : k = (plines (crToLf (pre.map (·.text)).flatten)).length := lineSum_eq pre hpre
  have hA : plines (crToLf (pre.map (·.text)).flatten ++
      (crToLf ((t :: more).map (·.text)).flatten ++ crToLf (rest'.map (·.text)).flatten)) =
      plines (crToLf (pre.map (·.text)).flatten) ++
        plines (crToLf ((t :: more).map (·.text)).flatten ++ crToLf (rest'.map (·.text)).flatten) := by
    rw [← crToLf_append, ← crToLf_append]
    exact plines_flatten_nl _ (fun l hl => by
      obtain ⟨x, hx, rfl⟩ := List.mem_map.1 hl; exact hpre x hx) _
  have hC : plines (crToLf ((t :: more).map (·.text)).flatten ++ crToLf (rest'.map (·.text)).flatten) =
      plines (crToLf ((t :: more).map (·.text)).flatten) ++ plines (crToLf (rest'.map (·.text)).flatten) := by
    rw [← crToLf_append]
    by_cases hr' : rest' = []
    · subst hr'; simp [crToLf, plines]
    · apply plines_flatten_nl
      have := hok.append_right
      rw [hbr, List.map_append, ← List.cons_append] at this
      exact this.nlEnded_left (by simpa using hr')
  intro j s hs
  rw [hS] at hs ⊢
  have hcore := block_lines_core (crToLf (normaliseCrLf doc)) (crToLf (pre.map (·.text)).flatten)
    (crToLf ((t :: more).map (·.text)).flatten) (crToLf (rest'.map (·.text)).flatten)
    (crToLf (codeSource (t :: more))) 4 k
    (fun j s => s = [] ∧ j + 1 = (plines (crToLf (codeSource (t :: more)))).length ∧
      j = (plines (crToLf ((t :: more).map dropCode).flatten)).length ∧
      ((t :: more).map dropCode).flatten = rstripNl ((t :: more).map dropCode).flatten)
    hN hA hk hC
    (by
      intro j s h
      rw [hsrc] at h ⊢
      rcases plines_code_tail _ j s h with h' | h'
      · exact Or.inl (hrel j s h')
      · exact Or.inr h') j s hs
  rcases hcore with h | ⟨hse, hlast, hj, hT⟩
  · exact Or.inl h
  · -- the extra empty line: the document ends inside the block, without a newline, and has no such line
    right
    refine ⟨hse, hlast, ?_⟩
    have hnn : ¬ NlEnded ((t :: more).map dropCode).flatten := by rw [hT]; exact rstripNl_not_nlEnded _
    have hts' := hsnd t htm
    simp only [TagSound, ht] at hts'
    have hTne : ((t :: more).map dropCode).flatten ≠ [] := by
      have : dropCode t ≠ [] := by
        simp only [dropCode, hts'.1, if_true]
        exact drop4_ne_nil _ hts'.1 hts'.2
      simp [this]
    have hallne := dropped_all_ne_nil 4 _ _ hdrop hlok hTne hnn
    have hlen := (lines_drop_forall2 4 _ _ hdrop hlok hallne).length_eq
    have hr' : rest' = [] := by
      apply Classical.byContradiction
      intro hr'
      have hnl : ∀ l ∈ (t :: more).map (·.text), NlEnded l := by
        have := hok.append_right
        rw [hbr, List.map_append, ← List.cons_append] at this
        exact this.nlEnded_left (by simpa using hr')
      exact hnn (flatten_nlEnded 4 _ _ hdrop hnl (by simp))
    subst hr'
    rw [hN, hA, hC]
    apply List.getElem?_eq_none
    simp only [List.length_append, List.map_nil, List.flatten_nil]
    rw [show crToLf [] = [] from rfl]
    simp only [plines, List.length_nil]
    omega

/-! ## the blocks of `scanBlocks` -/

/-- where a block of `scanBlocks doc` comes from: the tagged line that opens it -/
theorem scan_origin (doc : Str) (b : MdBlock) (hb : b ∈ scanBlocks doc) :
    ∃ pre t rest, tagDoc doc = pre ++ t :: rest ∧
      ((∃ f, t.tag = .fenceOpen f ∧
          b = ⟨.fenced f.lang, lenSum pre, fencedSource f.indent (rest.takeWhile (·.tag.isFenceBody)),
                1 + lineSum pre + pyLineCount t.text⟩) ∨
       (t.tag = .codeStart ∧
          b = ⟨.indented, lenSum pre, codeSource (t :: rest.takeWhile (·.tag.isCodeMore)), 1 + lineSum pre⟩)) := by
  obtain ⟨pre, t, rest, hts, h⟩ := mem_assemble hb
  refine ⟨pre, t, rest, hts, ?_⟩
  rcases h with ⟨f, hf, h⟩ | ⟨hc, h⟩
  · exact Or.inl ⟨f, hf, by rw [h]; simp⟩
  · exact Or.inr ⟨hc, by rw [h]; simp⟩

/-- **the padding is the number of document lines before the block's first content line**: the newlines
    `get_line_number_corrected_source` puts in front (`mdPadding`) are `startLine - 1`, where `startLine` is counted by
    the scanner itself, line by line -/
theorem scan_padding (doc : Str) (hD : inDoc doc = true) (b : MdBlock) (hb : b ∈ scanBlocks doc) :
    mdPadding doc b.pos b.kind.isFenced + 1 = b.startLine := by
  obtain ⟨pre, t, rest, hts, h⟩ := scan_origin doc b hb
  have hline := line_of_block_start doc pre t rest hts
  rcases h with ⟨f, hf, rfl⟩ | ⟨hc, rfl⟩
  · have h1 := (fenced_block_lines doc hD pre t rest f hts hf).1
    simp only [mdPadding, CodeBlockKind.isFenced, hline, if_true, h1]
    omega
  · simp only [mdPadding, CodeBlockKind.isFenced, hline]
    simp; omega

theorem paddedSource_eq (doc : Str) (pos : Nat) (fenced : Bool) (src : Str) :
    paddedSource doc pos fenced src = List.replicate (mdPadding doc pos fenced) '\n' ++ crToLf src := rfl

theorem not_cr_mem_padded (k : Nat) (src : Str) : '\r' ∉ List.replicate k '\n' ++ crToLf src := by
  intro h
  rcases List.mem_append.1 h with h | h
  · have := (List.mem_replicate.mp h).2; cases this
  · exact not_cr_mem_crToLf _ h

/-- the indentation `FencedCode.parse` / `CodeBlock.parse` may remove from the lines of a block: the number of spaces in
    front of its opening fence (read off the document at `pos`), resp. 4 -/
def blockIndent (doc : Str) (b : MdBlock) : Nat :=
  if b.kind.isFenced then leadSpaces ((normaliseCrLf doc).drop b.pos) else 4

theorem blockIndent_le (doc : Str) (b : MdBlock) (hb : b ∈ scanBlocks doc) :
    blockIndent doc b ≤ (if b.kind.isFenced then 3 else 4) := by
  obtain ⟨pre, t, rest, hts, h⟩ := scan_origin doc b hb
  rcases h with ⟨f, hf, rfl⟩ | ⟨_, rfl⟩
  · have hsound : TagSound t := tagLines_sound _ _ t (by
      rw [show tagLines ScanSt.top (mdLines (normaliseCrLf doc)) = tagDoc doc from rfl, hts]; simp)
    simp only [TagSound, hf] at hsound
    obtain ⟨h1, h2⟩ := fenceOpen?_indent _ _ hsound
    simp only [blockIndent, CodeBlockKind.isFenced, if_true]
    rw [tagDoc_norm doc pre t rest hts, lenSum_eq, List.drop_left' rfl, leadSpaces_append _ _ h2, ← h1]
    exact fenceOpen?_indent_le _ _ hsound
  · simp [blockIndent, CodeBlockKind.isFenced]

/-- **`scan_block_lines`** (main): for every document of **D** and every code block `b` the scanner finds in it, every
    line of the text the compiler is given for `b` — `paddedSource doc b.pos … b.source`, as
    `get_line_number_corrected_source` builds it — from line `b.startLine` on is the document's own line of the same
    number with at most `blockIndent doc b` leading spaces removed: at most the indentation of its opening fence (which
    is at most 3, `blockIndent_le`) for a fenced block, at most 4 for an indented block.  So a token at line `l`, column `c` of what the compiler sees sits on line `l` of the
    document, at column `c + p`.

    The only exception is harmless: the text of an indented block always ends with `"\n"` (`CodeBlock.parse`), which
    can add one empty last line when the document ends, without a newline, in another line-break character; that line
    is the last of the compiler's text and lies just past the last line of the document. -/
theorem scan_block_lines (doc : Str) (hD : inDoc doc = true) (b : MdBlock) (hb : b ∈ scanBlocks doc) (j : Nat) (s : Str)
    (hs : extractLine (paddedSource doc b.pos b.kind.isFenced b.source) (b.startLine + j) = some s) :
    (∃ d p, extractLine (crToLf (normaliseCrLf doc)) (b.startLine + j) = some d ∧
        p ≤ blockIndent doc b ∧ (∀ c ∈ d.take p, c = ' ') ∧ s = d.drop p) ∨
      (b.kind.isFenced = false ∧ s = [] ∧
        b.startLine + j = (splitLines (paddedSource doc b.pos b.kind.isFenced b.source)).length ∧
        extractLine (crToLf (normaliseCrLf doc)) (b.startLine + j) = none) := by
  have hpad := scan_padding doc hD b hb
  obtain ⟨pre, t, rest, hts, h⟩ := scan_origin doc b hb
  have hN := tagDoc_norm doc pre t rest hts
  have htne : t.text ≠ [] := ((tagDoc_linesOk doc pre t rest hts).append_right).1.1
  have hNne : crToLf (normaliseCrLf doc) ≠ [] := by
    rw [Ne, crToLf_eq_nil, hN]; simp [htne]
  rw [extractLine_eq_plines _ hNne (not_cr_mem_crToLf _) _ (by omega)]
  rw [paddedSource_eq] at hs ⊢
  rcases h with ⟨f, hf, hbe⟩ | ⟨hc, hbe⟩
  · -- fenced
    have hk : mdPadding doc b.pos b.kind.isFenced = lineSum pre + pyLineCount t.text := by
      rw [hbe] at hpad ⊢; simp only at hpad ⊢; omega
    have hst : b.startLine + j - 1 = lineSum pre + pyLineCount t.text + j := by rw [hbe]; simp only; omega
    have h1 := (fenced_block_lines doc hD pre t rest f hts hf).1
    have hpne : List.replicate (mdPadding doc b.pos b.kind.isFenced) '\n' ++ crToLf b.source ≠ [] := by
      rw [hk, h1]; simp [List.replicate_succ]
    rw [extractLine_eq_plines _ hpne (not_cr_mem_padded _ _) _ (by omega), hk, hst] at hs
    rw [hst]
    have hsrc : b.source = fencedSource f.indent (rest.takeWhile (·.tag.isFenceBody)) := by rw [hbe]
    rw [hsrc] at hs
    obtain ⟨d, hd, p, hp3, hsp, hsd⟩ := (fenced_block_lines doc hD pre t rest f hts hf).2 j s hs
    left
    refine ⟨d, p, hd, ?_, hsp, hsd⟩
    have hsound : TagSound t := tagLines_sound _ _ t (by
      rw [show tagLines ScanSt.top (mdLines (normaliseCrLf doc)) = tagDoc doc from rfl, hts]; simp)
    simp only [TagSound, hf] at hsound
    obtain ⟨hi1, hi2⟩ := fenceOpen?_indent _ _ hsound
    rw [hbe]
    simp only [blockIndent, CodeBlockKind.isFenced, if_true]
    rw [hN, lenSum_eq, List.drop_left' rfl, leadSpaces_append _ _ hi2, ← hi1]
    exact hp3
  · -- indented
    have hk : mdPadding doc b.pos b.kind.isFenced = lineSum pre := by
      rw [hbe] at hpad ⊢; simp only at hpad ⊢; omega
    have hst : b.startLine + j - 1 = lineSum pre + j := by rw [hbe]; simp only; omega
    have hsrc : b.source = codeSource (t :: rest.takeWhile (·.tag.isCodeMore)) := by rw [hbe]
    have hpne : List.replicate (mdPadding doc b.pos b.kind.isFenced) '\n' ++ crToLf b.source ≠ [] := by
      rw [hsrc]; simp [codeSource, crToLf]
    rw [extractLine_eq_plines _ hpne (not_cr_mem_padded _ _) _ (by omega), hk, hst] at hs
    rw [hst]
    rw [hsrc] at hs
    rcases code_block_lines doc hD pre t rest hts hc j s hs with ⟨d, hd, p, hp4, hsp, hsd⟩ | ⟨hse, hlast, hnone⟩
    · left
      refine ⟨d, p, hd, ?_, hsp, hsd⟩
      rw [hbe]; simp only [blockIndent, CodeBlockKind.isFenced]; exact hp4
    · right
      refine ⟨by rw [hbe]; rfl, hse, ?_, hnone⟩
      rw [splitLines_eq_plines _ (not_cr_mem_padded _ _), hk, plines_replicate_nl, hsrc]
      simp only [List.length_append, List.length_replicate]
      rw [← hlast, hbe]; simp only; omega

/-! ## errors are reported at their document line — no observed hypothesis left -/

theorem extractLine_located (X : Str) (o : Nat) : ∃ q, extractLine X (offsetToLineCol X o).1 = some q := by
  obtain ⟨h1, h2, _, _⟩ := C07.offset_located X o
  unfold extractLine
  by_cases hX : X = []
  · subst hX; exact ⟨[], rfl⟩
  · rw [if_neg (by simpa using hX), if_neg (by omega)]
    have hne : splitLinesKeep X ≠ [] := by rwa [Ne, splitLinesKeep_eq_nil]
    have hlen : 0 < (splitLinesKeep X).length := List.length_pos_iff.2 hne
    have : (offsetToLineCol X o).1 - 1 < (splitLines X).length := by
      simp only [splitLines, List.length_map]; omega
    exact ⟨_, List.getElem?_eq_getElem this⟩

/-- **`doc_error_line`** (C19, end to end for **D**): take any list `grp` of code blocks found by the scanner in a
    document of **D** (for instance the blocks of one independent recipe, which is what `render_document` compiles
    together).  If compiling their texts reports a located error in block `i` at line `l`, column `c` of that block's
    text, then compiling what `markdown.py` actually passes to the compiler (`mdSources`: the texts padded by
    `get_line_number_corrected_source`) reports the same error in the same block at line `b.startLine + (l - 1)`,
    column `c`, quoting the same line `q` — and line `b.startLine + (l - 1)` **of the document** is `q` behind at most
    `blockIndent doc b` (≤ 3 resp. 4) spaces of indentation.  Nothing about marko is assumed: `pos`, `source` and `startLine` are computed
    from the document text by `scanBlocks`. -/
theorem doc_error_line (doc : Str) (hD : inDoc doc = true) (grp : List MdBlock) (hg : ∀ b ∈ grp, b ∈ scanBlocks doc)
    (i off : Nat)
    (hc : compile (grp.map fun b => crToLf b.source) = .redefined i off ∨
          compile (grp.map fun b => crToLf b.source) = .proportion i off) :
    ∃ b, grp[i]? = some b ∧ b ∈ scanBlocks doc ∧
      (compile (grp.map fun b => crToLf b.source) = .redefined i off →
        compile (mdSources doc (grp.map fun b => (b.pos, b.kind.isFenced, b.source))) =
          .redefined i (off + (b.startLine - 1))) ∧
      (compile (grp.map fun b => crToLf b.source) = .proportion i off →
        compile (mdSources doc (grp.map fun b => (b.pos, b.kind.isFenced, b.source))) =
          .proportion i (off + (b.startLine - 1))) ∧
      offsetToLineCol (paddedSource doc b.pos b.kind.isFenced b.source) (off + (b.startLine - 1)) =
        (b.startLine + ((offsetToLineCol (crToLf b.source) off).1 - 1), (offsetToLineCol (crToLf b.source) off).2) ∧
      ∃ q, extractLine (crToLf b.source) (offsetToLineCol (crToLf b.source) off).1 = some q ∧
        extractLine (paddedSource doc b.pos b.kind.isFenced b.source)
          (b.startLine + ((offsetToLineCol (crToLf b.source) off).1 - 1)) = some q ∧
        ((∃ d p, extractLine (crToLf (normaliseCrLf doc))
              (b.startLine + ((offsetToLineCol (crToLf b.source) off).1 - 1)) = some d ∧
            p ≤ blockIndent doc b ∧ (∀ c ∈ d.take p, c = ' ') ∧ q = d.drop p) ∨
          (b.kind.isFenced = false ∧ q = [] ∧
            b.startLine + ((offsetToLineCol (crToLf b.source) off).1 - 1) =
              (splitLines (paddedSource doc b.pos b.kind.isFenced b.source)).length ∧
            extractLine (crToLf (normaliseCrLf doc))
              (b.startLine + ((offsetToLineCol (crToLf b.source) off).1 - 1)) = none)) := by
  have hmap : ((grp.map fun b => (b.pos, b.kind.isFenced, b.source)).map fun x => crToLf x.2.2) =
      grp.map fun b => crToLf b.source := by
    rw [List.map_map]; rfl
  obtain ⟨pos, fenced, src, hbi, _, h1, h2, h3, h4⟩ :=
    markdown_error_line doc (grp.map fun b => (b.pos, b.kind.isFenced, b.source)) i off (by rw [hmap]; exact hc)
  rw [hmap] at h1 h2
  rw [List.getElem?_map] at hbi
  cases hgi : grp[i]? with
  | none => rw [hgi] at hbi; cases hbi
  | some b =>
    rw [hgi] at hbi
    simp only [Option.map_some, Option.some.injEq, Prod.mk.injEq] at hbi
    obtain ⟨rfl, rfl, rfl⟩ := hbi
    have hb : b ∈ scanBlocks doc := hg b (List.mem_of_getElem? hgi)
    have hpad := scan_padding doc hD b hb
    have hpad' : mdPadding doc b.pos b.kind.isFenced = b.startLine - 1 := by omega
    have hl1 := (C07.offset_located (crToLf b.source) off).1
    rw [hpad'] at h1 h2 h3 h4
    have hline : (offsetToLineCol (crToLf b.source) off).1 + (b.startLine - 1) =
        b.startLine + ((offsetToLineCol (crToLf b.source) off).1 - 1) := by omega
    rw [hline] at h3 h4
    obtain ⟨q, hq⟩ := extractLine_located (crToLf b.source) off
    refine ⟨b, rfl, hb, h1, h2, h3, q, hq, by rw [h4, hq], ?_⟩
    exact scan_block_lines doc hD b hb _ q (by rw [h4, hq])

/-! ## positions -/

/-- every block starts inside the (CRLF-normalised) document -/
theorem scanBlocks_pos_lt (doc : Str) (b : MdBlock) (hb : b ∈ scanBlocks doc) :
    b.pos < (normaliseCrLf doc).length := by
  obtain ⟨pre, t, rest, hts, h⟩ := scan_origin doc b hb
  have hN := tagDoc_norm doc pre t rest hts
  have htne : t.text ≠ [] := ((tagDoc_linesOk doc pre t rest hts).append_right).1.1
  have htl : 0 < t.text.length := List.length_pos_iff.2 htne
  have : b.pos = lenSum pre := by rcases h with ⟨f, _, rfl⟩ | ⟨_, rfl⟩ <;> rfl
  rw [this, hN, lenSum_eq]
  simp only [List.length_append]
  omega

/-- the blocks are listed in document order: positions strictly increase (and first-content-line numbers do not
    decrease) -/
theorem scanBlocks_ordered (doc : Str) :
    (scanBlocks doc).Pairwise fun b1 b2 => b1.pos < b2.pos ∧ b1.startLine ≤ b2.startLine := by
  apply assemble_ordered
  intro t ht
  have := (mdLines_ok (normaliseCrLf doc)).mdLine t.text (by rw [← tagDoc_text]; exact List.mem_map_of_mem ht)
  exact this.1

/-- `pos` is the offset of an opening fence line, and the language marko reports is the first word of that line's
    info string, with backslash escapes of punctuation removed (`FencedCode.__init__`) -/
theorem scan_fenced_lang (doc : Str) (b : MdBlock) (hb : b ∈ scanBlocks doc) (lang : Str) (hk : b.kind = .fenced lang) :
    ∃ line tail f, (normaliseCrLf doc).drop b.pos = line ++ tail ∧ line ∈ mdLines (normaliseCrLf doc) ∧
      fenceOpen? line = some f ∧ lang = stripBackslash (firstWord f.info) := by
  obtain ⟨pre, t, rest, hts, h⟩ := scan_origin doc b hb
  rcases h with ⟨f, hf, rfl⟩ | ⟨_, rfl⟩
  · have hsound : TagSound t := tagLines_sound _ _ t (by rw [show tagLines ScanSt.top (mdLines (normaliseCrLf doc)) = tagDoc doc from rfl, hts]; simp)
    simp only [TagSound, hf] at hsound
    refine ⟨t.text, (rest.map (·.text)).flatten, f, ?_, ?_, hsound, ?_⟩
    · rw [tagDoc_norm doc pre t rest hts, lenSum_eq, List.drop_left' rfl]
    · rw [← tagDoc_text, hts]; simp
    · simp only [CodeBlockKind.fenced.injEq] at hk; rw [← hk]; rfl
  · cases hk

/-- an indented block starts at a line indented by at least four spaces -/
theorem scan_indented_start (doc : Str) (b : MdBlock) (hb : b ∈ scanBlocks doc) (hk : b.kind = .indented) :
    ∃ line tail, (normaliseCrLf doc).drop b.pos = line ++ tail ∧ line ∈ mdLines (normaliseCrLf doc) ∧
      4 ≤ leadSpaces line := by
  obtain ⟨pre, t, rest, hts, h⟩ := scan_origin doc b hb
  rcases h with ⟨f, hf, rfl⟩ | ⟨hc, rfl⟩
  · cases hk
  · have hsound : TagSound t := tagLines_sound _ _ t (by rw [show tagLines ScanSt.top (mdLines (normaliseCrLf doc)) = tagDoc doc from rfl, hts]; simp)
    simp only [TagSound, hc] at hsound
    refine ⟨t.text, (rest.map (·.text)).flatten, ?_, ?_, hsound.1⟩
    · rw [tagDoc_norm doc pre t rest hts, lenSum_eq, List.drop_left' rfl]
    · rw [← tagDoc_text, hts]; simp

/-! ## disjointness: the text a block captures lies before the next block -/

/-- there is exactly one block per opening-fence line and per first line of an indented block -/
theorem scanBlocks_length (doc : Str) :
    (scanBlocks doc).length =
      ((tagDoc doc).filter fun t => t.tag.startsBlock).length := assemble_length _ _ _

/-- **blocks are disjoint**: the text captured by a block (which is at most as long as the document lines it was taken
    from) ends before the next block starts -/
theorem scanBlocks_disjoint (doc : Str) :
    (scanBlocks doc).Pairwise fun b1 b2 => b1.pos + b1.source.length ≤ b2.pos := by
  apply assemble_disjoint
  · intro t ht
    exact ((mdLines_ok (normaliseCrLf doc)).mdLine t.text (by rw [← tagDoc_text]; exact List.mem_map_of_mem ht)).1
  · exact tagLines_sound _ _

/-! ## non-vacuity: a concrete document of **D** with three blocks

    heading, paragraph with a lazy continuation line, a ```` ```recipe ```` fence indented by 2 (body lines indented by 2, 4
    and 1), an indented block with an interior blank line, a `~~~~new-recipe extra` fence containing a shorter `~~~`,
    CRLF line endings. -/

def exDoc : Str :=
  "# Stew for 2\r\n\r\nMix {4} eggs,\r\n    then rest.\r\n\r\n  ```recipe\r\n  x = 1 egg\r\n    y = fry(x)\r\n \r\n  ```\r\n\r\n    z = 2 eggs\r\n\r\n      w = boil(z)\r\n\r\n~~~~new-recipe extra\r\nv = 3 eggs\r\n~~~\r\n~~~~\r\nDone.\r\n".toList

example : inDoc exDoc = true := by decide +kernel

example : scanBlocks exDoc =
    [⟨.fenced "recipe".toList, 44, "x = 1 egg\n  y = fry(x)\n\n".toList, 7⟩,
     ⟨.indented, 92, "z = 2 eggs\n\n  w = boil(z)\n".toList, 12⟩,
     ⟨.fenced "new-recipe".toList, 127, "v = 3 eggs\n~~~\n".toList, 17⟩] := by decide +kernel

/-- the hypotheses of `scan_block_lines` are met, e.g. by the second body line of the first block (document line 8,
    indented by 4, of which the fence's 2 are removed) and by the third line of the indented block (line 14) -/
example :
    extractLine (paddedSource exDoc 44 true "x = 1 egg\n  y = fry(x)\n\n".toList) (7 + 1) = some "  y = fry(x)".toList ∧
    extractLine (crToLf (normaliseCrLf exDoc)) (7 + 1) = some "    y = fry(x)".toList ∧
    extractLine (paddedSource exDoc 92 false "z = 2 eggs\n\n  w = boil(z)\n".toList) (12 + 2) = some "  w = boil(z)".toList ∧
    extractLine (crToLf (normaliseCrLf exDoc)) (12 + 2) = some "      w = boil(z)".toList := by decide +kernel

/-- the hypotheses of `doc_error_line` are met: the redefinition of `x` on document line 12 (first line of the indented
    block, which belongs to the recipe started by the first fence) is reported on line 12, column 1 -/
example :
    let grp : List MdBlock := [⟨.fenced "recipe".toList, 44, "x = 1 egg\n  y = fry(x)\n\n".toList, 7⟩,
                               ⟨.indented, 92, "x = 2 eggs\n\n  w = boil(z)\n".toList, 12⟩]
    compile (grp.map fun b => crToLf b.source) = .redefined 1 0 ∧
    offsetToLineCol (crToLf "x = 2 eggs\n\n  w = boil(z)\n".toList) 0 = (1, 1) := by decide +kernel

/-- the exceptional last line of `scan_block_lines` exists: a document ending, without a newline, in a lone carriage
    return inside an indented block — the block's text gets one more (empty) line than the document has -/
example : inDoc "    x\r".toList = true ∧
    scanBlocks "    x\r".toList = [⟨.indented, 0, "x\r\n".toList, 1⟩] ∧
    extractLine (paddedSource "    x\r".toList 0 false "x\r\n".toList) (1 + 1) = some [] ∧
    extractLine (crToLf (normaliseCrLf "    x\r".toList)) (1 + 1) = none ∧
    (splitLines (paddedSource "    x\r".toList 0 false "x\r\n".toList)).length = 2 := by decide +kernel

/-- outside **D** the statement fails, which is why `inDoc` excludes these (real defects of the line numbering, see
    NOTES.md): a lone carriage return after the info string counts as a document line for `markdown.py` but the
    padding does not account for it — the statement on document line 4 is handed to the compiler on line 3 -/
example :
    let doc := "```recipe\r\r\nx = 1 egg\nx = 2 eggs\n```\n".toList
    inDoc doc = false ∧
    scanBlocks doc = [⟨.fenced "recipe".toList, 0, "x = 1 egg\nx = 2 eggs\n".toList, 3⟩] ∧
    extractLine (paddedSource doc 0 true "x = 1 egg\nx = 2 eggs\n".toList) 3 = some "x = 2 eggs".toList ∧
    extractLine (crToLf (normaliseCrLf doc)) 4 = some "x = 2 eggs".toList := by decide +kernel

/-- documents just outside **D** are rejected by `inDoc`: a block quote, list items, a tab, an HTML line, a thematic break,
    a setext heading, a link reference definition, interruptions of a paragraph — no claim is made about them -/
example : inDoc "> quoted\n".toList = false ∧ inDoc "- item\n\n      code\n".toList = false ∧
    inDoc "1. item\n".toList = false ∧ inDoc "\tcode\n".toList = false ∧ inDoc "```recipe\n\tx\n```\n".toList = false ∧
    inDoc "<div>\n".toList = false ∧ inDoc "***\n".toList = false ∧ inDoc "Title\n=====\n".toList = false ∧
    inDoc "[x]: /url\n".toList = false ∧ inDoc "text\n> q\n".toList = false ∧ inDoc "text\n- item\n".toList = false := by
  decide +kernel

/-- … while these are members: a `#hashtag` paragraph, seven hashes, a backtick "fence" with a backtick in its info
    string (a paragraph for marko), a line starting with a link, an indented line after a paragraph line (lazy
    continuation — no code block), a byte-order mark in front of a fence (a paragraph, so the closing fence opens a block) -/
example : inDoc "#hashtag\n####### seven\n``` a`b\n[link](u) text\n    lazy\n".toList = true ∧
    scanBlocks "#hashtag\n####### seven\n``` a`b\n[link](u) text\n    lazy\n".toList = [] ∧
    inDoc "\uFEFF```recipe\nx\n```\n".toList = true ∧
    scanBlocks "\uFEFF```recipe\nx\n```\n".toList = [⟨.fenced [], 13, [], 4⟩] := by decide +kernel

end RG.C19
