import RecipeGrid.Model.Cache
/-! C17 ("site output is a pure function of the source tree"), the compile cache: `_cached_compile_markdown` is keyed by the document's
    text, so whatever the process has compiled before - and however many entries have been evicted - compiling a file gives exactly what
    compiling its current text gives.  The same cache keyed by the path does not have this property (witness). -/
namespace RG.C17
open RG

variable {κ ν ε : Type} [DecidableEq κ]

/-- every stored entry is what the function returns for its key -/
def CacheSound (f : κ → Except ε ν) (c : Lru κ ν) : Prop := ∀ k v, (k, v) ∈ c.entries → f k = .ok v

theorem empty_sound (f : κ → Except ε ν) (cap : Nat) : CacheSound f (Lru.empty cap) := by
  intro k v h; simp [Lru.empty] at h

theorem find_sound (f : κ → Except ε ν) (c : Lru κ ν) (h : CacheSound f c) (k : κ) (v : ν) (hf : c.find k = some v) : f k = .ok v := by
  unfold Lru.find at hf
  cases hfind : c.entries.find? (·.1 = k) with
  | none => simp [hfind] at hf
  | some kv =>
    rw [hfind] at hf
    have hv : kv.2 = v := by simpa using hf
    have hmem := List.mem_of_find?_eq_some hfind
    have hk : kv.1 = k := by simpa using List.find?_some hfind
    have := h kv.1 kv.2 hmem
    rw [hk, hv] at this
    exact this

/-- **never a stale result**: a call through a sound cache returns exactly what the function returns -/
theorem call_result (f : κ → Except ε ν) (c : Lru κ ν) (h : CacheSound f c) (k : κ) : (Lru.call f c k).1 = f k := by
  unfold Lru.call
  cases hf : c.find k with
  | some v => simp [find_sound f c h k v hf]
  | none =>
    cases hfk : f k with
    | ok v => simp
    | error e => simp

/-- a call keeps the cache sound (hit: the entry moves to the front; miss: the new entry is the function's result; error: nothing stored) -/
theorem call_sound (f : κ → Except ε ν) (c : Lru κ ν) (h : CacheSound f c) (k : κ) : CacheSound f (Lru.call f c k).2.2 := by
  unfold Lru.call
  cases hf : c.find k with
  | some v =>
    intro k' v' hm
    simp only [List.mem_cons, Prod.mk.injEq] at hm
    rcases hm with ⟨rfl, rfl⟩ | hm
    · exact find_sound f c h _ _ hf
    · exact h k' v' (List.mem_filter.1 hm).1
  | none =>
    cases hfk : f k with
    | error e => simpa using h
    | ok v =>
      intro k' v' hm
      have hm' := List.mem_of_mem_take hm
      simp only [List.mem_cons, Prod.mk.injEq] at hm'
      rcases hm' with ⟨rfl, rfl⟩ | hm'
      · exact hfk
      · exact h k' v' hm'

/-- the cache never holds more than its capacity once it has been within it -/
theorem call_size (f : κ → Except ε ν) (c : Lru κ ν) (k : κ) (h : c.entries.length ≤ c.cap) :
    (Lru.call f c k).2.2.entries.length ≤ (Lru.call f c k).2.2.cap ∧ (Lru.call f c k).2.2.cap = c.cap := by
  unfold Lru.call
  cases hf : c.find k with
  | some v =>
    refine ⟨?_, rfl⟩
    -- the entry found is removed by the filter, so the length does not grow
    have hfind : ∃ kv, kv ∈ c.entries ∧ kv.1 = k := by
      unfold Lru.find at hf
      cases hq : c.entries.find? (·.1 = k) with
      | none => simp [hq] at hf
      | some kv => exact ⟨kv, List.mem_of_find?_eq_some hq, by simpa using List.find?_some hq⟩
    obtain ⟨kv, hmem, hk⟩ := hfind
    have hlt : (c.entries.filter (·.1 ≠ k)).length < c.entries.length := by
      apply List.length_filter_lt_length_iff_exists.2
      exact ⟨kv, hmem, by simp [hk]⟩
    simp only [List.length_cons]
    omega
  | none =>
    cases hfk : f k with
    | error e => exact ⟨h, rfl⟩
    | ok v => exact ⟨by simp [List.length_take]; omega, rfl⟩

/-- **history independence of the compile step**: over any history of file writes and compilations, started from any sound cache of any
    capacity, every compilation returns what compiling the file's current text returns - the results with the cache are the results
    without it -/
theorem runCompiles_eq_plain {π τ : Type} [DecidableEq π] [DecidableEq τ] (f : τ → Except ε ν)
    (ops : List (CacheOp π τ)) : ∀ (fs : π → Option τ) (c : Lru τ ν), CacheSound f c →
    runCompiles f fs c ops = runCompilesPlain f fs ops := by
  induction ops with
  | nil => intro fs c _; rfl
  | cons op ops ih =>
    intro fs c hc
    cases op with
    | write p t => simpa [runCompiles, runCompilesPlain] using ih _ c hc
    | compile p =>
      simp only [runCompiles, runCompilesPlain]
      cases hp : fs p with
      | none => simpa using ih fs c hc
      | some t =>
        simp only
        rw [call_result f c hc t, ih fs _ (call_sound f c hc t)]

/-- in particular from the empty cache of a fresh process, and so two processes with different pasts agree on every later compilation -/
theorem runCompiles_fresh {π τ : Type} [DecidableEq π] [DecidableEq τ] (f : τ → Except ε ν) (cap : Nat)
    (fs : π → Option τ) (past ops : List (CacheOp π τ)) :
    (runCompiles f fs (Lru.empty cap) (past ++ ops)).drop (runCompiles f fs (Lru.empty cap) past).length
      = (runCompilesPlain f fs (past ++ ops)).drop (runCompilesPlain f fs past).length := by
  rw [runCompiles_eq_plain f (past ++ ops) fs _ (empty_sound f cap), runCompiles_eq_plain f past fs _ (empty_sound f cap)]

/-- the same cache asked with the path as its key returns a stale result after an edit: write, compile, edit, compile gives the OLD
    text's result the second time (this is the shape of several seeded defects; the pinned code keys by content) -/
theorem byPath_stale_witness :
    let f : Nat → Except Unit Nat := fun t => .ok (t * 10)
    let ops : List (CacheOp Nat Nat) := [.write 0 1, .compile 0, .write 0 2, .compile 0]
    (runCompilesByPath f (fun _ => none) (Lru.empty 8) ops).map Except.toOption = [some 10, some 10] ∧
    (runCompilesPlain f (fun _ => none) ops).map Except.toOption = [some 10, some 20] ∧
    (runCompiles f (fun _ => none) (Lru.empty 8) ops).map Except.toOption = [some 10, some 20] := by decide

-- non-vacuity: eviction at capacity 2 and an error that is not stored
example :
    let f : Nat → Except Unit Nat := fun t => if t = 7 then .error () else .ok (t + 100)
    let ops : List (CacheOp Nat Nat) := [.write 0 1, .write 1 2, .write 2 3, .write 3 7, .compile 0, .compile 1, .compile 2, .compile 0, .compile 3, .compile 3]
    (runCompiles f (fun _ => none) (Lru.empty 2) ops).map Except.toOption = [some 101, some 102, some 103, some 101, none, none] := by decide

end RG.C17
