import RecipeGrid.Model.Html
namespace RG.C04
theorem placeholder_trivial : htmlEscape [] = [] := by decide
end RG.C04
