import RecipeGrid.Props.C02
import RecipeGrid.Lemmas.Html
/-! C04 — the HTML table realises the abstract table: fed to the HTML table-forming algorithm, the emitted rows put
    every cell back at its own position with its own extent (C04.1, C04.3), no row is empty (C04.2), and the classes
    and span attributes of a cell are as specified (C04.4). Helper lemmas are in `Lemmas/Html.lean`. -/
namespace RG.C04

-- ---------------------------------------------------------------- the specification: HTML's table model
/-! The WHATWG "forming a table" algorithm restricted to `<td>` cells with `rowspan`/`colspan` ≥ 1.
    A placed cell is `(row, col, rows, cols)`. -/

/-- the placed cell `p` occupies the slot in row `r`, column `c` -/
def occupies (p : Nat × Nat × Nat × Nat) (r c : Nat) : Bool :=
  p.1 ≤ r && r < p.1 + p.2.2.1 && p.2.1 ≤ c && c < p.2.1 + p.2.2.2
/-- the slot already has a cell assigned to it (possibly one hanging down from an earlier row) -/
def occupied (ps : List (Nat × Nat × Nat × Nat)) (r c : Nat) : Bool := ps.any (occupies · r c)
/-- the width of the table so far: the right-most occupied column + 1 -/
def width (ps : List (Nat × Nat × Nat × Nat)) : Nat := ps.foldr (fun p w => max (p.2.1 + p.2.2.2) w) 0
/-- "while x < width and the slot (x, y) already has a cell assigned to it, increase x by 1";
    the first argument bounds the number of iterations (`width - x`) -/
def skip (ps : List (Nat × Nat × Nat × Nat)) (r : Nat) : Nat → Nat → Nat
  | 0, c => c
  | n + 1, c => if occupied ps r c then skip ps r n (c + 1) else c
/-- process the cells `(rowspan, colspan)` of one `<tr>`, in source order, starting with the cursor at `cur`:
    advance to the first free slot, put the cell there, move the cursor right by its colspan -/
def placeRow (r : Nat) : List (Nat × Nat) → Nat → List (Nat × Nat × Nat × Nat) → List (Nat × Nat × Nat × Nat)
  | [], _, ps => ps
  | (rs, cs) :: rest, cur, ps =>
    let c := skip ps r (width ps - cur) cur
    placeRow r rest (c + cs) (ps ++ [(r, c, rs, cs)])
/-- process the `<tr>`s top to bottom, the cursor starting at column 0 in each -/
def placeRows : Nat → List (List (Nat × Nat)) → List (Nat × Nat × Nat × Nat) → List (Nat × Nat × Nat × Nat)
  | _, [], ps => ps
  | r, row :: rows, ps => placeRows (r + 1) rows (placeRow r row 0 ps)
/-- per row the (rowspan, colspan) of its cells in source order ↦ per cell (row, col, rows, cols), in source order -/
def place (rows : List (List (Nat × Nat))) : List (Nat × Nat × Nat × Nat) := placeRows 0 rows []

example : place [[(2, 1), (1, 1)], [(1, 1)]] = [(0, 0, 2, 1), (0, 1, 1, 1), (1, 1, 1, 1)] := by decide
example : place [[(1, 1), (3, 1)], [(1, 1)], [(1, 1)]] = [(0, 0, 1, 1), (0, 1, 3, 1), (1, 0, 1, 1), (2, 0, 1, 1)] := by
  decide
/-- a cell hanging down in the middle of a row is skipped over -/
example : place [[(1, 1), (2, 1), (1, 1)], [(1, 1), (1, 1)]] =
    [(0, 0, 1, 1), (0, 1, 2, 1), (0, 2, 1, 1), (1, 0, 1, 1), (1, 2, 1, 1)] := by decide
/-- rows that do not tile: HTML leaves holes / lets rows stick out, it never overlaps on its own -/
example : place [[(1, 2)], [(1, 1), (1, 1), (1, 1)]] = [(0, 0, 1, 2), (1, 0, 1, 1), (1, 1, 1, 1), (1, 2, 1, 1)] := by
  decide

private theorem occupied_eq : @occupied = @Place.occupied := rfl
private theorem width_eq : @width = @Place.width := rfl
private theorem skip_eq (ps : List (Nat × Nat × Nat × Nat)) (r n c : Nat) : skip ps r n c = Place.skip ps r n c := by
  induction n generalizing c with
  | zero => rfl
  | succ n ih => simp only [skip, Place.skip, ih, occupied_eq]
private theorem placeRow_eq (r : Nat) (row : List (Nat × Nat)) (cur : Nat) (ps : List (Nat × Nat × Nat × Nat)) :
    placeRow r row cur ps = Place.placeRow r row cur ps := by
  induction row generalizing cur ps with
  | nil => rfl
  | cons x rest ih => obtain ⟨rs, cs⟩ := x; simp only [placeRow, Place.placeRow, ih, skip_eq, width_eq]
private theorem placeRows_eq (r : Nat) (rows : List (List (Nat × Nat))) (ps : List (Nat × Nat × Nat × Nat)) :
    placeRows r rows ps = Place.placeRows r rows ps := by
  induction rows generalizing r ps with
  | nil => rfl
  | cons x rest ih => simp only [placeRows, Place.placeRows, ih, placeRow_eq]
private theorem place_eq (rows : List (List (Nat × Nat))) : place rows = Place.place rows := placeRows_eq 0 rows []

private theorem rasterTiled {T : Tbl} (h : C02.Tiles T) : Place.RasterTiled (rasterSort T.cells) T.h T.w :=
  ⟨rasterSort_sorted _, fun x hx => h.ok x ((rasterSort_perm _).mem_iff.1 hx),
   fun r c hr hc => ((rasterSort_perm T.cells).countP_eq _).trans (h.one r c hr hc)⟩

private theorem flatten_emitRows {T : Tbl} (h : C02.Tiles T) : (emitRows T).flatten = rasterSort T.cells :=
  Place.flatten_rows_eq (rasterTiled h)

-- ---------------------------------------------------------------- C04.4 classes and attributes

/-- the class for one side of a cell: none for a normal border -/
def borderClass (side : String) (b : Border) : Option String :=
  if b = .normal then none else some ("rg-border-" ++ side ++ "-" ++ b.cls)

/-- C04.4 classes: the kind class first, then one class per non-normal border in the order left, right, top, bottom -/
theorem cell_classes (c : PCell) :
    cellClasses c = c.kind.cls ::
      [borderClass "left" c.bl, borderClass "right" c.br, borderClass "top" c.bt, borderClass "bottom" c.bb].filterMap id :=
  rfl

example : cellClasses { row := 0, col := 0, rows := 1, cols := 1, path := [], kind := .step, bl := .subRecipe, bb := .none }
    = ["rg-step", "rg-border-left-sub-recipe", "rg-border-bottom-none"] := by decide

/-- C04.4 span attributes are emitted iff the span differs from 1, colspan before rowspan, after class -/
theorem cell_attrs_spans (c : PCell) :
    (cellAttrs c).map (·.1) = ["class"] ++ (if c.cols ≠ 1 then ["colspan"] else []) ++ (if c.rows ≠ 1 then ["rowspan"] else []) ∧
    (c.cols ≠ 1 → ("colspan", natDigits c.cols) ∈ cellAttrs c) ∧ (c.rows ≠ 1 → ("rowspan", natDigits c.rows) ∈ cellAttrs c) := by
  by_cases h1 : c.cols = 1 <;> by_cases h2 : c.rows = 1 <;> simp [cellAttrs, h1, h2]

/-- and the class attribute is the classes joined by single spaces -/
theorem cell_attrs_class (c : PCell) : (cellAttrs c).head? = some ("class", S (" ".intercalate (cellClasses c))) := rfl

example : cellAttrs { row := 0, col := 0, rows := 3, cols := 12, path := [], kind := .step }
    = [("class", S "rg-step"), ("colspan", S "12"), ("rowspan", S "3")] := by decide +kernel

-- ---------------------------------------------------------------- C04.2 no empty row

/-- every row of every layout starts at least one cell (well-formedness is not even needed) -/
theorem rows_nonempty_any (t : Tree) : ∀ r ∈ emitRows (layout t), r ≠ [] := by
  intro row hrow
  obtain ⟨k, hk, rfl⟩ := List.mem_map.1 hrow
  obtain ⟨x, hx, hxr⟩ := layoutAt_rowStarts t [] true k (List.mem_range.1 hk)
  have : x ∈ (rasterSort (layout t).cells).filter (·.row == k) :=
    List.mem_filter.2 ⟨(rasterSort_perm _).mem_iff.2 hx, by simpa using hxr⟩
  exact List.ne_nil_of_mem this

set_option linter.unusedVariables false in
/-- C04.2 every row of the layout of a well-formed tree starts at least one cell (so no empty <tr>) -/
theorem rows_nonempty (t : Tree) (h : C02.wf t = true) : ∀ r ∈ emitRows (layout t), r ≠ [] :=
  rows_nonempty_any t

/-- and there is at least one row -/
theorem rows_exist (t : Tree) (h : C02.wf t = true) : emitRows (layout t) ≠ [] := by
  have := (C02.layout_nonempty t h).1
  intro e
  have := congrArg List.length e
  simp [emitRows] at this
  omega

example : (emitRows (layout C02.exTree)).map (·.map fun c => (c.row, c.col)) = [[(0, 0), (0, 1)], [(1, 0)], [(2, 0)]] := by
  decide

-- ---------------------------------------------------------------- C04.1, C04.3 the HTML table is the abstract table

/-- the emitted rows contain every cell exactly once (a permutation of the cells) -/
theorem emitRows_perm (T : Tbl) (h : C02.Tiles T) : (emitRows T).flatten.Perm T.cells := by
  rw [flatten_emitRows h]; exact rasterSort_perm _

/-- C04.1 for every table that tiles its rectangle, placing the emitted rows with the HTML algorithm puts every cell
    back at its own position with its own extent -/
theorem place_emit (T : Tbl) (h : C02.Tiles T) :
    place ((emitRows T).map (·.map fun c => (c.rows, c.cols))) =
      (emitRows T).flatten.map fun c => (c.row, c.col, c.rows, c.cols) := by
  rw [flatten_emitRows h, place_eq]
  exact Place.place_rows_eq (rasterTiled h)

/-- C04.3 hence for every well-formed recipe tree -/
theorem place_emit_layout (t : Tree) (h : C02.wf t = true) :
    place ((emitRows (layout t)).map (·.map fun c => (c.rows, c.cols))) =
      (emitRows (layout t)).flatten.map fun c => (c.row, c.col, c.rows, c.cols) :=
  place_emit _ (C02.layout_tiles t h)

/-- non-vacuity: the step with two inputs, the second a titled sub recipe (3 rows, the step cell spans all) -/
example : (emitRows (layout C02.exTree)).map (·.map fun c => (c.rows, c.cols)) = [[(1, 1), (3, 1)], [(1, 1)], [(1, 1)]] := by
  decide
example : place ((emitRows (layout C02.exTree)).map (·.map fun c => (c.rows, c.cols))) =
    [(0, 0, 1, 1), (0, 1, 3, 1), (1, 0, 1, 1), (2, 0, 1, 1)] := by decide
example := place_emit_layout C02.exTree (by decide)
example := emitRows_perm _ (C02.layout_tiles C02.exTree (by decide))
/-- the hypothesis matters: a table with a gap is not reproduced -/
example : let T : Tbl := ⟨1, 2, [{ row := 0, col := 1, rows := 1, cols := 1, path := [], kind := .step }]⟩
    place ((emitRows T).map (·.map fun c => (c.rows, c.cols))) ≠
      (emitRows T).flatten.map fun c => (c.row, c.col, c.rows, c.cols) := by decide

end RG.C04
