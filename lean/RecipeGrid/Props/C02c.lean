import RecipeGrid.Props.C02b
import RecipeGrid.Lemmas.EndToEnd
/-! C02 (continued) — the layout theorems hold for everything the compiler can produce, with no hypothesis left.

    `Props/C02.lean` and `Props/C02b.lean` assume a well-formed tree (`wf`: every step has at least one input) and,
    for the borders by cases and for the read-back, Python's invariant `multiOnlyAtRoot`.  Both are facts about what
    `compile` returns:

    * `parse_steps_have_inputs`: the grammar — every step of every statement `parse` returns has an input;
    * `compile_wf`: every tree in every block `compile` returns satisfies `wf` and `multiOnlyAtRoot`
      (elaboration keeps the arities, the inlining pass substitutes well-formed trees into well-formed trees, and
      the constructors refuse a multi-output sub recipe anywhere but at the root);
    * `compile_layout_tiles`, `compile_region_tiles`, `compile_layout_borders_cases`, `compile_readback`: C02.1, C02.4,
      C02.5 and C02.6 instantiated.
    Helper lemmas are in `Lemmas/EndToEnd.lean`. -/
namespace RG.C02

mutual
private theorem wf_eq' : ∀ t : Tree, wf t = RG.wf t
  | .ingredient .. => rfl
  | .reference .. => rfl
  | .step _ inputs => by simp only [wf, RG.wf, wfList_eq' inputs]
  | .sub body _ _ => by simp only [wf, RG.wf, wf_eq' body]
private theorem wfList_eq' : ∀ ts : List Tree, wfList ts = RG.wfList ts
  | [] => rfl
  | t :: ts => by simp only [wfList, RG.wfList, wf_eq' t, wfList_eq' ts]
end

/-- the grammar: the `step` rule has a mandatory first argument and the left-to-right shorthand builds one-input
    steps, so every step of every parsed statement has at least one input -/
theorem parse_steps_have_inputs (src : Str) (stmts : List AStmt) (h : parse src = .ok stmts) :
    ∀ s ∈ stmts, s.expr.stepsNonempty = true :=
  parse_stepsNonempty src stmts h

/-- **every tree `compile` returns is well-formed** (every step has at least one input) **and has multi-output
    sub recipes only at the root** -/
theorem compile_wf (srcs : List Str) (bs : List Block) (h : compile srcs = .ok bs) :
    ∀ b ∈ bs, ∀ t ∈ b, wf t = true ∧ multiOnlyAtRoot t := by
  intro b hb t ht
  exact ⟨by rw [wf_eq']; exact compile_ok_wf srcs bs h b hb t ht,
    (multiOnlyAtRoot_iff t).2 (compile_ok_singleRoot srcs bs h b hb t ht)⟩

/-- **C02.1 for everything the compiler can produce**: the table of every compiled tree tiles its rectangle -/
theorem compile_layout_tiles (srcs : List Str) (bs : List Block) (h : compile srcs = .ok bs) :
    ∀ b ∈ bs, ∀ t ∈ b, Tiles (layout t) :=
  fun b hb t ht => layout_tiles t (compile_wf srcs bs h b hb t ht).1

/-- the table of a compiled tree is never empty -/
theorem compile_layout_nonempty (srcs : List Str) (bs : List Block) (h : compile srcs = .ok bs) :
    ∀ b ∈ bs, ∀ t ∈ b, 0 < (layout t).h ∧ 0 < (layout t).w :=
  fun b hb t ht => layout_nonempty t (compile_wf srcs bs h b hb t ht).1

/-- C02.4 for compiled trees: the cells of every subtree tile a rectangle inside the table -/
theorem compile_region_tiles (srcs : List Str) (bs : List Block) (h : compile srcs = .ok bs) :
    ∀ b ∈ bs, ∀ t ∈ b, ∀ (q : List Nat) (n : Tree), t.at? q = some n →
      TilesBox (cellsUnder (layout t) q) (region (layout t) q) ∧
      (region (layout t) q).bottom ≤ (layout t).h ∧ (region (layout t) q).right ≤ (layout t).w :=
  fun b hb t ht q n hq => region_tiles t (compile_wf srcs bs h b hb t ht).1 q n hq

/-- C02.5 for compiled trees: the borders by cases, with no hypothesis left -/
theorem compile_layout_borders_cases (srcs : List Str) (bs : List Block) (h : compile srcs = .ok bs) :
    ∀ b ∈ bs, ∀ t ∈ b, ∀ x ∈ (layout t).cells, ∀ s,
      (border x s = .none ↔ (x.kind = .outputs ∧ s ≠ .left)) ∧
      (border x s = .subRecipe ↔ (¬ (x.kind = .outputs ∧ s ≠ .left) ∧ onOutline t x s)) ∧
      (border x s = .normal ↔ (¬ (x.kind = .outputs ∧ s ≠ .left) ∧ ¬ onOutline t x s)) :=
  fun b hb t ht =>
    layout_borders_cases t (compile_wf srcs bs h b hb t ht).1 (compile_wf srcs bs h b hb t ht).2

/-- C02.6 for compiled trees: the drawing can be read back from the visible table -/
theorem compile_readback (srcs : List Str) (bs : List Block) (h : compile srcs = .ok bs) :
    ∀ b ∈ bs, ∀ t ∈ b, readback (vis (layout t)) = some (drawing t) :=
  fun b hb t ht => readback_layout t (compile_wf srcs bs h b hb t ht).1 (compile_wf srcs bs h b hb t ht).2

-- ---------------------------------------------------------------- examples
/-- the hypotheses matter for hand-built trees: a step without inputs is not well-formed and its table has no cell
    to the left of the step … -/
example : wf (.step [] []) = false := by decide
example : (layout (.step [] [])).h = 0 := by decide
/-- … and a multi-output sub recipe below a step breaks Python's invariant (the constructors refuse it) -/
example : ¬ multiOnlyAtRoot (.step [] [.sub (.ingredient [] none) [[], []] false]) := by decide

/-- a concrete description: two nested definitions are folded into the third, the second block refers to it -/
def exSource : List Str := ["A := MIX(FIG)\nB := HEAT(A)\nC = SERVE(B, RYE)".toList, "EAT(C)".toList]

/-- evaluated: `compile` accepts it and every tree is well-formed with multi-output sub recipes only at the root -/
example : (match compile exSource with
    | .ok bs => bs.map List.length == [1, 1] && bs.flatten.all (fun t => wf t && singleRoot t)
    | _ => false) = true := by decide +kernel

/-- a statement with two outputs: the multi-output sub recipe is the root -/
example : (match compile ["YOLK, WHITE = SPLIT(EGG)\nMIX(YOLK, 2 tbsp SUGAR)".toList] with
    | .ok [[.sub _ ns _, t]] => ns.length == 2 && wf t && singleRoot t
    | _ => false) = true := by decide +kernel

/-- the parser on the left-to-right shorthand and a trailing comma -/
example : (match parse "(FLOUR, SIFT, FOLD)\nMIX(A, B,)".toList with
    | .ok ss => ss.all (·.expr.stepsNonempty)
    | _ => false) = true := by decide +kernel
/-- `MIX()` is a syntax error: a step needs an argument -/
example : (match parse "MIX()".toList with | .syntaxError => true | _ => false) = true := by decide +kernel

end RG.C02
