import RecipeGrid.Model.Units
/-! C12 — units: every conversion is physically right.
    The unit table is regenerated from /repo on every run; the quantifiers below range over that finite
    table and are decided by kernel evaluation (`decide +kernel`, no axioms beyond the standard three),
    so a change of the table that breaks a law breaks this file. -/
namespace RG.C12

def allNames : List Str := Gen.unitNames.map (·.toList)

/-- reference physical values, hand-written (independent of the repo): mass in grams, volume in litres;
    the non-convertible kinds are counted in themselves -/
def reference : List (String × Rat) := [
  ("g", 1), ("gram", 1), ("grams", 1),
  ("kg", 1000), ("kilo", 1000), ("kilos", 1000), ("kilogram", 1000), ("kilograms", 1000),
  ("lb", mkRat 45359237 100000), ("lbs", mkRat 45359237 100000), ("pound", mkRat 45359237 100000), ("pounds", mkRat 45359237 100000),
  ("oz", mkRat 45359237 1600000), ("ozs", mkRat 45359237 1600000), ("ounce", mkRat 45359237 1600000), ("ounces", mkRat 45359237 1600000),
  ("l", 1), ("litre", 1),
  ("ml", mkRat 1 1000), ("mill", mkRat 1 1000), ("mills", mkRat 1 1000), ("milliliter", mkRat 1 1000), ("milliliters", mkRat 1 1000),
  ("tsp", mkRat 5 1000), ("tsps", mkRat 5 1000), ("teaspoons", mkRat 5 1000), ("teaspoon", mkRat 5 1000), ("tea spoon", mkRat 5 1000), ("tea spoons", mkRat 5 1000),
  ("tbsp", mkRat 15 1000), ("tbsps", mkRat 15 1000), ("tablespoon", mkRat 15 1000), ("tablespoons", mkRat 15 1000), ("table spoon", mkRat 15 1000), ("table spoons", mkRat 15 1000),
  -- US customary cup 236.5882365 ml, imperial pint 568.26125 ml
  ("cup", mkRat 2365882365 10000000000), ("cups", mkRat 2365882365 10000000000),
  ("pint", mkRat 56826125 100000000), ("pints", mkRat 56826125 100000000),
  ("clove", 1), ("cloves", 1), ("bulb", 1), ("bulbs", 1), ("can", 1), ("cans", 1), ("tin", 1), ("tins", 1),
  ("pinch", 1), ("pinches", 1), ("knob", 1), ("knobs", 1), ("packet", 1), ("packets", 1), ("pack", 1), ("packs", 1),
  ("box", 1), ("boxes", 1), ("boxen", 1), ("bag", 1), ("bags", 1), ("sack", 1), ("sacks", 1),
  ("sachet", 1), ("sachets", 1), ("rasher", 1), ("rashers", 1), ("strip", 1), ("strips", 1)]

def refValue (n : Str) : Option Rat := (reference.find? (·.1.toList == n)).map (·.2)

def sameKind (a b : Str) : Bool :=
  match findUnitSet a with
  | some set => (unitIndex set b).isSome
  | none => false

def absR (x : Rat) : Rat := if x < 0 then -x else x
/-- |x − y| ≤ tol·|y| -/
def closeTo (tol x y : Rat) : Bool := absR (x - y) ≤ tol * absR y

/-- every documented unit name is in the table and every table name is documented -/
theorem names_are_the_documented_ones :
    (∀ r ∈ reference, allNames.contains r.1.toList = true) ∧ (∀ n ∈ allNames, (refValue n).isSome = true) := by
  decide +kernel

/-- the table is a forest: in each set the first unit is the base, every other unit is defined in terms of an earlier one -/
theorem table_is_forest :
    ∀ ks ∈ Gen.unitSets, ∀ iu ∈ ks.2.zipIdx,
      (match iu.1.defn with
       | none => iu.2 == 0
       | some (_, parent) => iu.2 != 0 && (match unitIndex ks.2 parent.toList with | some p => decide (p < iu.2) | none => false)) = true := by
  decide +kernel

/-- no two units share a name -/
theorem names_nodup : allNames.Nodup := by decide +kernel

/-- spec layer (constants as written): conversion factors are reciprocal -/
theorem convert_recip_spec : ∀ a ∈ allNames, ∀ b ∈ allNames, sameKind a b = true →
    (match convertBetween true a b, convertBetween true b a with
     | some x, some y => x.val * y.val == 1
     | _, _ => false) = true := by decide +kernel

def setNames (ks : String × List Gen.UnitDef) : List Str := ks.2.flatMap (·.names.map (·.toList))
def primaries (ks : String × List Gen.UnitDef) : List Str := ks.2.map unitPrimaryName
def primaryOf (n : Str) : Str :=
  match findUnitSet n with
  | some set => (unitIndex set n).bind (set[·]?) |>.map unitPrimaryName |>.getD n
  | none => n

/-- an alias converts exactly like the primary name of its unit (both layers) -/
theorem convert_alias : ∀ ks ∈ Gen.unitSets, ∀ a ∈ setNames ks, ∀ b ∈ setNames ks,
    ((convertBetween true a b).map (·.val) == (convertBetween true (primaryOf a) (primaryOf b)).map (·.val) &&
     (convertBetween false a b).map (·.val) == (convertBetween false (primaryOf a) (primaryOf b)).map (·.val)) = true := by
  decide +kernel

/-- spec layer: conversion factors are transitive (over units; aliases by `convert_alias`) -/
theorem convert_trans_spec : ∀ ks ∈ Gen.unitSets, ∀ a ∈ primaries ks, ∀ b ∈ primaries ks, ∀ c ∈ primaries ks,
    (match convertBetween true a b, convertBetween true b c, convertBetween true a c with
     | some x, some y, some z => x.val * y.val == z.val
     | _, _, _ => false) = true := by decide +kernel

/-- conversion is refused exactly between different kinds (`KeyError`) -/
theorem convert_refuses_iff_kinds_differ : ∀ a ∈ allNames, ∀ b ∈ allNames,
    ((convertBetween false a b).isNone = !sameKind a b) ∧ ((convertBetween true a b).isNone = !sameKind a b) := by
  decide +kernel

/-- every factor agrees with the defining physical constants to 10⁻⁶ relative (both layers) -/
theorem physical_constants : ∀ a ∈ allNames, ∀ b ∈ allNames, sameKind a b = true →
    (match convertBetween true a b, convertBetween false a b, refValue a, refValue b with
     | some s, some f, some ra, some rb =>
        closeTo (mkRat 1 1000000) s.val (ra / rb) && closeTo (mkRat 1 1000000) f.val (ra / rb)
     | _, _, _, _ => false) = true := by decide +kernel

/-- the code-shaped (binary64) factors equal the spec factors to within 4 ulp relative -/
theorem convert_float_refines : ∀ a ∈ allNames, ∀ b ∈ allNames, sameKind a b = true →
    (match convertBetween true a b, convertBetween false a b with
     | some s, some f => closeTo (mkRat 4 9007199254740992) f.val s.val
     | _, _ => false) = true := by decide +kernel

/-- the alternative-unit list: the written unit first with factor 1, then every other unit of the kind exactly once,
    each with the conversion factor -/
theorem altUnits_complete : ∀ a ∈ allNames,
    (match altUnits a, findUnitSet a with
     | some l, some set =>
        decide ((l.map (·.2)).Perm (set.map unitPrimaryName)) &&
        (l.head?.map (fun c => c.1.val == 1 && c.2 == primaryOf a)) == some true &&
        l.all (fun c => convertBetween false a c.2 |>.map (·.val == c.1.val) |>.getD false)
     | _, _ => false) = true := by decide +kernel

example : (convertBetween false "kg".toList "lb".toList).isSome = true := by decide +kernel
example : sameKind "kg".toList "cup".toList = false := by decide +kernel

end RG.C12
