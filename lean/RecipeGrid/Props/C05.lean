import RecipeGrid.Lemmas.Fold
/-! C05 — nothing written is lost, duplicated or reordered by compilation.

    `compile` = elaboration (`elabBlocks`, characterised in `Props/C01.lean`), then the inlining loop, then the validity
    check (`Props/C08b.lean`).  Here: the inlining loop keeps every written ingredient and step node exactly once
    (C05.1), keeps the remaining roots of every block in statement order, each being the original root rewritten by
    the inlining substitutions (C05.3), and keeps the expansion of every remaining root (C05.2).
    Helper lemmas and the loop invariants are in `Lemmas/Fold.lean`. -/
namespace RG.C05

/-- `list.remove` drops exactly one element and keeps the order of the others -/
theorem removeFirst_length (x : Tree) (ts ts' : List Tree) (h : removeFirst x ts = some ts') : ts'.length + 1 = ts.length := by
  induction ts generalizing ts' with
  | nil => simp [removeFirst] at h
  | cons t rest ih =>
    simp only [removeFirst] at h
    split at h
    · cases h; simp
    · cases hr : removeFirst x rest with
      | none => simp [hr] at h
      | some r => simp [hr] at h; subst h; simp [ih r hr]

/-- the remaining trees are a sublist (same relative order) of the block -/
theorem removeFirst_sublist (x : Tree) (ts ts' : List Tree) (h : removeFirst x ts = some ts') : ts'.Sublist ts := by
  induction ts generalizing ts' with
  | nil => simp [removeFirst] at h
  | cons t rest ih =>
    simp only [removeFirst] at h
    split at h
    · cases h; exact List.sublist_cons_self t rest
    · cases hr : removeFirst x rest with
      | none => simp [hr] at h
      | some r => simp [hr] at h; subst h; exact (ih r hr).cons_cons t

-- ================================================================ specification

/-- what is written: an ingredient (description, quantity) or a step (description, number of inputs) -/
inductive Node where
  | ingredient (d : SVS) (q : Option Quantity)
  | step (d : SVS) (arity : Nat)
deriving DecidableEq

mutual
/-- the ingredient and step nodes of a tree OUTSIDE embedded copies (a reference contributes nothing: the copy it
    holds repeats a definition that stands elsewhere), in written order -/
def nodesOf : Tree → List Node
  | .ingredient d q => [.ingredient d q]
  | .step d inputs => .step d inputs.length :: nodesOfList inputs
  | .reference .. => []
  | .sub body _ _ => nodesOf body
def nodesOfList : List Tree → List Node
  | [] => []
  | t :: ts => nodesOf t ++ nodesOfList ts
end

/-- the written nodes of a whole recipe -/
def nodesOfBlocks (bs : List Block) : List Node := bs.flatten.flatMap nodesOf

mutual
/-- the pure step/ingredient tree a recipe tree stands for: every reference is replaced by the expansion of the sub
    recipe copy it holds; sub recipe wrappers and amounts are dropped -/
def expand : Tree → Tree
  | .ingredient d q => .ingredient d q
  | .step d inputs => .step d (expandList inputs)
  | .reference sub _ _ => expand sub
  | .sub body _ _ => expand body
def expandList : List Tree → List Tree
  | [] => []
  | t :: ts => expand t :: expandList ts
end

/-- a composition of inlining substitutions: each one replaces the references to a sub recipe `.sub body ns sh` by
    that sub recipe (`:=` definitions) or by its body -/
inductive InlineChain : (Tree → Tree) → Prop
  | nil : InlineChain id
  | step {σ : Tree → Tree} (body : Tree) (ns : List SVS) (sh : Bool) (idx : Nat) (a : Amount) (unwrap : Bool) :
      InlineChain σ →
      InlineChain (fun t => Tree.subst (.reference (.sub body ns sh) idx a)
        (if unwrap then body else .sub body ns sh) (σ t))

/-- the roots of `bs'` descend from the roots of `bs`: same number of blocks; block by block the roots of `bs'` are
    the images under ONE composition `σ` of inlining substitutions of a sublist `kept` (same relative order) of the
    roots of `bs`, and each image has the expansion of its original -/
def Descends (bs bs' : List Block) : Prop :=
  ∃ σ : Tree → Tree, InlineChain σ ∧ bs'.length = bs.length ∧
    ∀ (b : Nat) (ts' : List Tree), bs'[b]? = some ts' →
      ∃ ts kept, bs[b]? = some ts ∧ List.Sublist kept ts ∧ ts' = kept.map σ ∧
        ∀ t ∈ kept, expand (σ t) = expand t

-- ================================================================ the specification functions are the helpers'

mutual
theorem nodesOf_eq : ∀ t : Tree, nodesOf t = Tree.collect Node.ingredient Node.step t
  | .ingredient .. => rfl
  | .step d i => by simp only [nodesOf, Tree.collect, nodesOfList_eq i]
  | .reference .. => rfl
  | .sub b _ _ => by simp only [nodesOf, Tree.collect, nodesOf_eq b]
theorem nodesOfList_eq : ∀ ts : List Tree, nodesOfList ts = Tree.collectList Node.ingredient Node.step ts
  | [] => rfl
  | t :: ts => by simp only [nodesOfList, Tree.collectList, nodesOf_eq t, nodesOfList_eq ts]
end

mutual
theorem expand_eq : ∀ t : Tree, expand t = t.expandH
  | .ingredient .. => rfl
  | .step d i => by simp only [expand, Tree.expandH, expandList_eq i]
  | .reference s _ _ => by simp only [expand, Tree.expandH, expand_eq s]
  | .sub b _ _ => by simp only [expand, Tree.expandH, expand_eq b]
theorem expandList_eq : ∀ ts : List Tree, expandList ts = Tree.expandHList ts
  | [] => rfl
  | t :: ts => by simp only [expandList, Tree.expandHList, expand_eq t, expandList_eq ts]
end

theorem inlineChain_of {σ : Tree → Tree} (h : InlineChainH σ) : InlineChain σ := by
  induction h with
  | nil => exact .nil
  | step body ns sh idx a unwrap _ ih => exact .step body ns sh idx a unwrap ih

theorem descends_of {bs bs' : List Block} (h : DescendsH bs bs') : Descends bs bs' := by
  obtain ⟨σ, hσ, hl, hrel⟩ := h
  refine ⟨σ, inlineChain_of hσ, hl, ?_⟩
  intro b ts' hts'
  obtain ⟨ts, kept, h1, h2, h3, h4⟩ := hrel b ts' hts'
  exact ⟨ts, kept, h1, h2, h3, fun t ht => by rw [expand_eq, expand_eq]; exact h4 t ht⟩

theorem nodesOfBlocks_perm_of_count {bs bs' : List Block}
    (h : ∀ p : Node → Bool, (bs'.flatten.flatMap (Tree.collect Node.ingredient Node.step)).countP p =
      (bs.flatten.flatMap (Tree.collect Node.ingredient Node.step)).countP p) :
    (nodesOfBlocks bs').Perm (nodesOfBlocks bs) := by
  have e : ∀ bs : List Block, nodesOfBlocks bs = bs.flatten.flatMap (Tree.collect Node.ingredient Node.step) := by
    intro bs
    unfold nodesOfBlocks
    congr 1
    funext t
    exact nodesOf_eq t
  rw [e, e, List.perm_iff_count]
  intro a
  exact h (· == a)

-- ================================================================ C05.1 conservation

/-- **C05.1, one iteration**: in every state the loop reaches, one successful `foldStep` keeps the written nodes up to
    permutation — the nodes of the removed definition reappear exactly once, where its only reference stood -/
theorem foldStep_nodes_perm (asts : List (List AStmt)) (bs : List Block) (st : CState)
    (h : compileBlocks 0 {} asts = .ok (bs, st)) (n : Nat) (b1 b2 : List Block) (o1 o2 : List NamedOutput)
    (h1 : foldAll n 0 bs st.outputs = .ok (b1, o1)) (h2 : foldStep n b1 o1 = .ok (b2, o2)) :
    (nodesOfBlocks b2).Perm (nodesOfBlocks b1) := by
  obtain ⟨b1', o1', hf, hinv, hcnt, _, _⟩ := fold_reachable asts bs st h n
  rw [h1] at hf
  cases hf
  rcases foldStep_shape hinv with hs | ⟨d, hd⟩
  · rw [hs] at h2; cases h2; exact List.Perm.refl _
  · rw [hd.hstep] at h2
    cases h2
    exact nodesOfBlocks_perm_of_count (fun p => hd.collect_count Node.ingredient Node.step hinv hcnt p)

/-- **C05.1, the whole loop** -/
theorem foldAll_nodes_perm (asts : List (List AStmt)) (bs : List Block) (st : CState)
    (h : compileBlocks 0 {} asts = .ok (bs, st)) (n : Nat) (b1 : List Block) (o1 : List NamedOutput)
    (h1 : foldAll n 0 bs st.outputs = .ok (b1, o1)) : (nodesOfBlocks b1).Perm (nodesOfBlocks bs) := by
  obtain ⟨b1', o1', hf, _, _, hc, _⟩ := fold_reachable asts bs st h n
  rw [h1] at hf
  cases hf
  exact nodesOfBlocks_perm_of_count (fun p => hc Node.ingredient Node.step p)

/-- **C05.1** the compiled recipe holds exactly the ingredient and step nodes of the elaborated description (which by
    C01 are the written ones): nothing is lost, nothing is duplicated -/
theorem compile_nodes_perm (srcs : List Str) (bs bs' : List Block) (st : CState)
    (he : elabBlocks srcs = .ok (bs, st)) (hc : compile srcs = .ok bs') :
    (nodesOfBlocks bs').Perm (nodesOfBlocks bs) := by
  obtain ⟨asts, _, hcb⟩ := elabBlocks_ok he
  obtain ⟨outs', hf⟩ := compile_ok_fold he hc
  exact foldAll_nodes_perm asts bs st hcb _ bs' outs' hf

-- ================================================================ C05.3 order, C05.2 expansion

/-- **C05.3 / C05.2, the loop**: the remaining roots descend from the elaborated ones -/
theorem foldAll_descends (asts : List (List AStmt)) (bs : List Block) (st : CState)
    (h : compileBlocks 0 {} asts = .ok (bs, st)) (n : Nat) (b1 : List Block) (o1 : List NamedOutput)
    (h1 : foldAll n 0 bs st.outputs = .ok (b1, o1)) : Descends bs b1 := by
  obtain ⟨b1', o1', hf, _, _, _, hd⟩ := fold_reachable asts bs st h n
  rw [h1] at hf
  cases hf
  exact descends_of hd

/-- **C05.3 / C05.2** the roots of the compiled recipe descend from the elaborated roots -/
theorem compile_descends (srcs : List Str) (bs bs' : List Block) (st : CState)
    (he : elabBlocks srcs = .ok (bs, st)) (hc : compile srcs = .ok bs') : Descends bs bs' := by
  obtain ⟨asts, _, hcb⟩ := elabBlocks_ok he
  obtain ⟨outs', hf⟩ := compile_ok_fold he hc
  exact foldAll_descends asts bs st hcb _ bs' outs' hf

/-- **C05.3, by positions**: in every block no root is added, and there is an order-preserving injection `f` from the
    positions of the remaining roots to the positions of the elaborated roots such that each remaining root is the
    image of the original root under the composed inlining substitutions `σ` (the same `σ` for all blocks) -/
theorem compile_roots_order (srcs : List Str) (bs bs' : List Block) (st : CState)
    (he : elabBlocks srcs = .ok (bs, st)) (hc : compile srcs = .ok bs') :
    bs'.length = bs.length ∧ ∃ σ : Tree → Tree, InlineChain σ ∧
      ∀ (b : Nat) (ts' : List Tree), bs'[b]? = some ts' → ∃ ts, bs[b]? = some ts ∧ ts'.length ≤ ts.length ∧
        ∃ f : Nat → Nat, (∀ i j, i < j → j < ts'.length → f i < f j) ∧
          ∀ j t', ts'[j]? = some t' → ∃ t, ts[f j]? = some t ∧ t' = σ t ∧ expand t' = expand t := by
  obtain ⟨σ, hσ, hl, hrel⟩ := compile_descends srcs bs bs' st he hc
  refine ⟨hl, σ, hσ, ?_⟩
  intro b ts' hts'
  obtain ⟨ts, kept, hts, hsub, hmap, hexp⟩ := hrel b ts' hts'
  obtain ⟨f, hmono, hget⟩ := sublist_index_map hsub
  have hlen : ts'.length = kept.length := by rw [hmap, List.length_map]
  refine ⟨ts, hts, by rw [hlen]; exact hsub.length_le, f, fun i j hij hj => hmono i j hij (by omega), ?_⟩
  intro j t' hj
  rw [hmap, List.getElem?_map] at hj
  cases hk : kept[j]? with
  | none => rw [hk] at hj; cases hj
  | some t =>
    rw [hk] at hj
    simp only [Option.map_some, Option.some.injEq] at hj
    have hjl : j < kept.length := (List.getElem?_eq_some_iff.mp hk).1
    refine ⟨t, by rw [hget j hjl, hk], hj.symm, ?_⟩
    rw [← hj]
    exact hexp t (List.mem_of_getElem? hk)

/-- **C05.2** every root of the compiled recipe has the expansion of an elaborated root of the same block -/
theorem compile_expand (srcs : List Str) (bs bs' : List Block) (st : CState)
    (he : elabBlocks srcs = .ok (bs, st)) (hc : compile srcs = .ok bs') (b : Nat) (ts' : List Tree)
    (hb : bs'[b]? = some ts') : ∃ ts, bs[b]? = some ts ∧ ∀ t' ∈ ts', ∃ t ∈ ts, expand t' = expand t := by
  obtain ⟨σ, _, _, hrel⟩ := compile_descends srcs bs bs' st he hc
  obtain ⟨ts, kept, hts, hsub, hmap, hexp⟩ := hrel b ts' hb
  refine ⟨ts, hts, ?_⟩
  intro t' ht'
  rw [hmap, List.mem_map] at ht'
  obtain ⟨t, ht, rfl⟩ := ht'
  exact ⟨t, hsub.subset ht, hexp t ht⟩

-- ================================================================ non-vacuity: a concrete two-block program
section Examples
private def str (s : Str) : AString := [.sub 0 s]
/-- block 0: `A := mix(FIG)`, `B := heat(A)`, `C = serve(B, RYE)`; block 1: `eat(C)`.
    `A` is folded into `B` and `B` into `C` (nested definitions, kept as sub recipes because of `:=`);
    `C` is referenced from the other block and stays a root. -/
private def prog : List (List AStmt) :=
  [[ ⟨.step (str ['m','i','x']) [.ref (str ['F','I','G']) none], some [str ['A']], true⟩,
     ⟨.step (str ['h','e','a','t']) [.ref (str ['A']) none], some [str ['B']], true⟩,
     ⟨.step (str ['s','e','r','v','e']) [.ref (str ['B']) none, .ref (str ['R','Y','E']) none], some [str ['C']], false⟩ ],
   [ ⟨.step (str ['e','a','t']) [.ref (str ['C']) none], none, false⟩ ]]

/-- the loop on `prog`: three roots + one become one + one; the two nested definitions are inlinable, the one
    referenced from the other block is not; the written nodes are permuted (not lost, not duplicated) -/
example : (match compileBlocks 0 {} prog with
    | .ok (bs, st) =>
      match foldAll st.outputs.length 0 bs st.outputs with
      | .ok (bs', _) =>
        decide (bs.map List.length = [3, 1] ∧ bs'.map List.length = [1, 1] ∧
          st.outputs.map NamedOutput.canBeInlined = [true, true, false] ∧
          nodesOfBlocks bs = [.step [.text ['m','i','x']] 1, .ingredient [.text ['F','I','G']] none,
            .step [.text ['h','e','a','t']] 1, .step [.text ['s','e','r','v','e']] 2,
            .ingredient [.text ['R','Y','E']] none, .step [.text ['e','a','t']] 1] ∧
          nodesOfBlocks bs' = [.step [.text ['s','e','r','v','e']] 2, .step [.text ['h','e','a','t']] 1,
            .step [.text ['m','i','x']] 1, .ingredient [.text ['F','I','G']] none,
            .ingredient [.text ['R','Y','E']] none, .step [.text ['e','a','t']] 1])
      | .error _ => false
    | .error _ => false) = true := by decide +kernel

private theorem prog_elab : ∃ bs st, compileBlocks 0 {} prog = .ok (bs, st) := by
  cases h : compileBlocks 0 {} prog with
  | ok p => exact ⟨p.1, p.2, rfl⟩
  | error e =>
    have : (compileBlocks 0 {} prog).toBool = true := by decide +kernel
    rw [h] at this; cases this

/-- the hypotheses of the theorems are satisfiable: they apply to `prog` -/
example : ∃ bs st bs' outs', compileBlocks 0 {} prog = .ok (bs, st) ∧
    foldAll st.outputs.length 0 bs st.outputs = .ok (bs', outs') ∧
    (nodesOfBlocks bs').Perm (nodesOfBlocks bs) ∧ Descends bs bs' := by
  obtain ⟨bs, st, h⟩ := prog_elab
  obtain ⟨bs', outs', hf, _⟩ := fold_reachable prog bs st h st.outputs.length
  exact ⟨bs, st, bs', outs', h, hf, foldAll_nodes_perm prog bs st h _ bs' outs' hf,
    foldAll_descends prog bs st h _ bs' outs' hf⟩
end Examples

end RG.C05
