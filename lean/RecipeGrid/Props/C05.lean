import RecipeGrid.Model.Compiler
/-! C05 — nothing written is lost, duplicated or reordered by compilation. -/
namespace RG.C05

/-- `list.remove` drops exactly one element and keeps the order of the others -/
theorem removeFirst_length (x : Tree) (ts ts' : List Tree) (h : removeFirst x ts = some ts') : ts'.length + 1 = ts.length := by
  induction ts generalizing ts' with
  | nil => simp [removeFirst] at h
  | cons t rest ih =>
    simp only [removeFirst] at h
    split at h
    · cases h; simp
    · cases hr : removeFirst x rest with
      | none => simp [hr] at h
      | some r => simp [hr] at h; subst h; simp [ih r hr]

/-- the remaining trees are a sublist (same relative order) of the block -/
theorem removeFirst_sublist (x : Tree) (ts ts' : List Tree) (h : removeFirst x ts = some ts') : ts'.Sublist ts := by
  induction ts generalizing ts' with
  | nil => simp [removeFirst] at h
  | cons t rest ih =>
    simp only [removeFirst] at h
    split at h
    · cases h; exact List.sublist_cons_self t rest
    · cases hr : removeFirst x rest with
      | none => simp [hr] at h
      | some r => simp [hr] at h; subst h; exact (ih r hr).cons₂ t

end RG.C05
