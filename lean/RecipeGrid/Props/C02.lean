import RecipeGrid.Lemmas.Table
/-! C02 — the table layout: cells tile the grid (C02.1), every node is drawn exactly once (C02.2), steps, titles and
    outputs sit where they should (C02.3), every subtree fills a rectangle (C02.4), borders follow the outlines (C02.5).
    Helper lemmas are in `Lemmas/Table.lean`. -/
namespace RG.C02

mutual
/-- a well-formed tree: every step has at least one input (Python's grammar guarantees it) -/
def wf : Tree → Bool
  | .ingredient .. => true
  | .reference .. => true
  | .step _ inputs => !inputs.isEmpty && wfList inputs
  | .sub body _ _ => wf body
def wfList : List Tree → Bool
  | [] => true
  | t :: ts => wf t && wfList ts
end

def covers (x : PCell) (r c : Nat) : Bool :=
  x.row ≤ r && r < x.row + x.rows && x.col ≤ c && c < x.col + x.cols
def cover (cs : List PCell) (r c : Nat) : Nat := cs.countP (covers · r c)

structure Tiles (t : Tbl) : Prop where
  ok : ∀ x ∈ t.cells, 0 < x.rows ∧ 0 < x.cols ∧ x.row + x.rows ≤ t.h ∧ x.col + x.cols ≤ t.w
  one : ∀ r c, r < t.h → c < t.w → cover t.cells r c = 1

mutual
private theorem wf_eq : ∀ t : Tree, wf t = RG.wf t
  | .ingredient .. => rfl
  | .reference .. => rfl
  | .step _ inputs => by simp only [wf, RG.wf, wfList_eq inputs]
  | .sub body _ _ => by simp only [wf, RG.wf, wf_eq body]
private theorem wfList_eq : ∀ ts : List Tree, wfList ts = RG.wfList ts
  | [] => rfl
  | t :: ts => by simp only [wfList, RG.wfList, wf_eq t, wfList_eq ts]
end

/-- C02.1: for every well-formed tree the cells tile the h × w rectangle: no gaps, no overlaps -/
theorem layout_tiles (t : Tree) (h : wf t = true) : Tiles (layout t) := by
  have hg := layoutAt_good t [] true (wf_eq t ▸ h)
  exact ⟨fun x hx => by have := hg.ok x hx; exact ⟨this.1, this.2.1, this.2.2.2.1, this.2.2.2.2.2⟩,
    fun r c hr hc => hg.one r c (Nat.zero_le _) hr (Nat.zero_le _) hc⟩

/-- the table is never empty -/
theorem layout_nonempty (t : Tree) (h : wf t = true) : 0 < (layout t).h ∧ 0 < (layout t).w :=
  (layoutAt_good t [] true (wf_eq t ▸ h)).ne

mutual
/-- the nodes that must get a cell, with the kind of cell, in the order the layout emits them -/
def drawn (p : List Nat) : Tree → List (List Nat × CellKind)
  | .ingredient .. => [(p, .ingredient)]
  | .reference .. => [(p, .reference)]
  | .step _ inputs => drawnInputs p 0 inputs ++ [(p, .step)]
  | .sub body names showNames =>
    if names.length = 1 then (if showNames then [(p, .header)] else []) ++ drawn (p ++ [0]) body
    else drawn (p ++ [0]) body ++ [(p, .outputs)]
def drawnInputs (p : List Nat) (i : Nat) : List Tree → List (List Nat × CellKind)
  | [] => []
  | t :: ts => drawn (p ++ [i]) t ++ drawnInputs p (i + 1) ts
end

mutual
private theorem drawn_eq : ∀ (t : Tree) (p : List Nat), drawn p t = RG.drawn p t
  | .ingredient .., _ => rfl
  | .reference .., _ => rfl
  | .step _ inputs, p => by simp only [drawn, RG.drawn, drawnInputs_eq inputs p 0]
  | .sub body _ _, p => by simp only [drawn, RG.drawn, drawn_eq body (p ++ [0])]
private theorem drawnInputs_eq : ∀ (ts : List Tree) (p : List Nat) (i : Nat),
    drawnInputs p i ts = RG.drawnInputs p i ts
  | [], _, _ => rfl
  | t :: ts, p, i => by simp only [drawnInputs, RG.drawnInputs, drawn_eq t (p ++ [i]), drawnInputs_eq ts p (i + 1)]
end

/-- C02.2: every ingredient, reference, step, titled sub recipe and multi-output list gets exactly one cell of the right kind, nothing else does -/
theorem layout_nodes_once (t : Tree) :
    ((layout t).cells.map fun c => (c.path, c.kind)) = drawn [] t := by
  rw [drawn_eq]; exact layoutAt_pk t [] true

/-- distinct drawn nodes have distinct paths, so "exactly once" is meaningful -/
theorem drawn_nodup (t : Tree) : ((drawn [] t).map (·.1)).Nodup := by
  rw [drawn_eq]; exact drawn_nodup' t []


-- ---------------------------------------------------------------- C02.4 regions

/-- the cell belongs to the node at path `q` or to one of its descendants -/
def under (q : List Nat) (x : PCell) : Bool := q.isPrefixOf x.path
/-- the cells drawn for the subtree at `q` -/
def cellsUnder (t : Tbl) (q : List Nat) : List PCell := t.cells.filter (under q)

/-- a rectangle of grid slots: rows `top ≤ r < bottom`, columns `left ≤ c < right` -/
structure Box where
  top : Nat
  left : Nat
  bottom : Nat
  right : Nat
deriving DecidableEq, Repr

/-- the region of the node at `q`: the bounding box of the cells of its subtree -/
def region (t : Tbl) (q : List Nat) : Box :=
  ⟨((cellsUnder t q).map (·.row)).min?.getD 0, ((cellsUnder t q).map (·.col)).min?.getD 0,
   ((cellsUnder t q).map fun x => x.row + x.rows).max?.getD 0,
   ((cellsUnder t q).map fun x => x.col + x.cols).max?.getD 0⟩

/-- the cells fill the box exactly: none is empty or reaches outside, every slot inside is covered once -/
structure TilesBox (cs : List PCell) (b : Box) : Prop where
  nonempty : b.top < b.bottom ∧ b.left < b.right
  inside : ∀ x ∈ cs, 0 < x.rows ∧ 0 < x.cols ∧ b.top ≤ x.row ∧ x.row + x.rows ≤ b.bottom ∧
            b.left ≤ x.col ∧ x.col + x.cols ≤ b.right
  one : ∀ r c, b.top ≤ r → r < b.bottom → b.left ≤ c → c < b.right → cover cs r c = 1

private theorem region_eq (t : Tbl) (q : List Nat) :
    region t q = ⟨(reg t.cells q).top, (reg t.cells q).left, (reg t.cells q).bottom, (reg t.cells q).right⟩ := rfl

/-- C02.4: the cells of every subtree tile a rectangle (their bounding box), which lies inside the table -/
theorem region_tiles (t : Tree) (h : wf t = true) (q : List Nat) (n : Tree) (hq : t.at? q = some n) :
    TilesBox (cellsUnder (layout t) q) (region (layout t) q) ∧
    (region (layout t) q).bottom ≤ (layout t).h ∧ (region (layout t) q).right ≤ (layout t).w := by
  obtain ⟨h1, h2, h3⟩ := region_tiles' t (wf_eq t ▸ h) q n hq
  exact ⟨⟨h1.ne, h1.ok, h1.one⟩, h2, h3⟩

/-- the root's region is the whole table -/
theorem region_root (t : Tree) (h : wf t = true) : region (layout t) [] = ⟨0, 0, (layout t).h, (layout t).w⟩ := by
  rw [region_eq, reg_root t (wf_eq t ▸ h)]

-- ---------------------------------------------------------------- C02.3 geometry of steps, titles and outputs

/-- C02.3 (steps): the cell of the step at `q` exists, spans exactly the rows of the region of `q` and reaches its
    right edge; its left edge is the common right edge of the inputs' regions, which start at the region's left edge
    and are stacked without gaps from the region's top to its bottom; at the root the step is one column wide -/
theorem step_geometry (t : Tree) (h : wf t = true) (q : List Nat) (d : SVS) (ins : List Tree)
    (hq : t.at? q = some (.step d ins)) :
    (∃ x ∈ (layout t).cells, x.path = q) ∧
    ∀ x ∈ (layout t).cells, x.path = q →
      x.kind = .step ∧
      x.row = (region (layout t) q).top ∧ x.row + x.rows = (region (layout t) q).bottom ∧
      x.col + x.cols = (region (layout t) q).right ∧
      (∀ i, i < ins.length → (region (layout t) (q ++ [i])).left = (region (layout t) q).left ∧
        (region (layout t) (q ++ [i])).right = x.col) ∧
      (region (layout t) (q ++ [0])).top = (region (layout t) q).top ∧
      (∀ i, i + 1 < ins.length →
        (region (layout t) (q ++ [i + 1])).top = (region (layout t) (q ++ [i])).bottom) ∧
      (region (layout t) (q ++ [ins.length - 1])).bottom = (region (layout t) q).bottom ∧
      (q = [] → x.cols = 1) :=
  step_geometry' t (wf_eq t ▸ h) q d ins hq

/-- C02.3 (titles): the header cell of the titled sub recipe at `q` exists, is one row high, spans the full width
    of the region of `q` in its first row, and the body's region is the rest of the region, directly below -/
theorem header_geometry (t : Tree) (h : wf t = true) (q : List Nat) (b : Tree) (ns : List SVS)
    (hq : t.at? q = some (.sub b ns true)) (h1 : ns.length = 1) :
    (∃ x ∈ (layout t).cells, x.path = q) ∧
    ∀ x ∈ (layout t).cells, x.path = q →
      x.kind = .header ∧
      x.row = (region (layout t) q).top ∧ x.rows = 1 ∧
      x.col = (region (layout t) q).left ∧ x.col + x.cols = (region (layout t) q).right ∧
      region (layout t) (q ++ [0]) =
        ⟨(region (layout t) q).top + 1, (region (layout t) q).left,
         (region (layout t) q).bottom, (region (layout t) q).right⟩ := by
  obtain ⟨h2, h3⟩ := header_geometry' t (wf_eq t ▸ h) q b ns hq h1
  refine ⟨h2, fun x hx hp => ?_⟩
  obtain ⟨a1, a2, a3, a4, a5, a6⟩ := h3 x hx hp
  refine ⟨a1, a2, a3, a4, a5, ?_⟩
  rw [region_eq, a6]; rfl

/-- an untitled single-output sub recipe has no cell of its own; its region is its body's region -/
theorem untitled_geometry (t : Tree) (h : wf t = true) (q : List Nat) (b : Tree) (ns : List SVS)
    (hq : t.at? q = some (.sub b ns false)) (h1 : ns.length = 1) :
    region (layout t) (q ++ [0]) = region (layout t) q ∧ ∀ x ∈ (layout t).cells, x.path ≠ q := by
  obtain ⟨h2, h3⟩ := untitled_geometry' t (wf_eq t ▸ h) q b ns hq h1
  exact ⟨by rw [region_eq, region_eq, h2], h3⟩

/-- C02.3 (outputs): the outputs cell of the sub recipe at `q` exists, spans all rows of the region of `q` at its
    right edge, and the body's region is the rest of the region, to its left; at the root it is one column wide -/
theorem outputs_geometry (t : Tree) (h : wf t = true) (q : List Nat) (b : Tree) (ns : List SVS) (sh : Bool)
    (hq : t.at? q = some (.sub b ns sh)) (h1 : ns.length ≠ 1) :
    (∃ x ∈ (layout t).cells, x.path = q) ∧
    ∀ x ∈ (layout t).cells, x.path = q →
      x.kind = .outputs ∧
      x.row = (region (layout t) q).top ∧ x.row + x.rows = (region (layout t) q).bottom ∧
      x.col + x.cols = (region (layout t) q).right ∧
      region (layout t) (q ++ [0]) =
        ⟨(region (layout t) q).top, (region (layout t) q).left, (region (layout t) q).bottom, x.col⟩ ∧
      (q = [] → x.cols = 1) := by
  obtain ⟨h2, h3⟩ := outputs_geometry' t (wf_eq t ▸ h) q b ns sh hq h1
  refine ⟨h2, fun x hx hp => ?_⟩
  obtain ⟨a1, a2, a3, a4, a5, a6⟩ := h3 x hx hp
  refine ⟨a1, a2, a3, a4, ?_, a6⟩
  rw [region_eq, a5]; rfl

-- ---------------------------------------------------------------- C02.5 borders

inductive Side | left | right | top | bottom
deriving DecidableEq, Repr

/-- the border drawn on one side of a cell -/
def border (x : PCell) : Side → Border
  | .left => x.bl | .right => x.br | .top => x.bt | .bottom => x.bb
/-- the grid line on which one side of a cell lies -/
def cellEdge (x : PCell) : Side → Nat
  | .left => x.col | .right => x.col + x.cols | .top => x.row | .bottom => x.row + x.rows
/-- the grid line on which one side of a box lies -/
def Box.edge (b : Box) : Side → Nat
  | .left => b.left | .right => b.right | .top => b.top | .bottom => b.bottom

/-- the nodes that get an outline: the root (unless it has an outputs column), every single-output
    sub recipe, and the body of every sub recipe with an outputs column -/
def outlined (t : Tree) (q : List Nat) : Prop :=
  (q = [] ∧ ∀ b ns sh, t = .sub b ns sh → ns.length = 1) ∨
  (∃ b ns sh, t.at? q = some (.sub b ns sh) ∧ ns.length = 1) ∨
  (∃ q' b ns sh, q = q' ++ [0] ∧ t.at? q' = some (.sub b ns sh) ∧ ns.length ≠ 1)

/-- side `s` of cell `x` lies on side `s` of the region of an outlined node whose subtree contains `x` -/
def onOutline (t : Tree) (x : PCell) (s : Side) : Prop :=
  ∃ q, outlined t q ∧ under q x = true ∧ cellEdge x s = (region (layout t) q).edge s

/-- the border a side has when it is not on an outline: nothing around the outputs column except on its left -/
def plainBorder (x : PCell) (s : Side) : Border :=
  if x.kind = .outputs ∧ s ≠ .left then .none else .normal

private def toRG : Side → RG.Side
  | .left => .left | .right => .right | .top => .top | .bottom => .bottom

private theorem outlined_iff (t : Tree) (q : List Nat) : outlined t q ↔ outl true t q := by
  simp [outlined, outl]

private theorem onOutline_iff (t : Tree) (x : PCell) (s : Side) :
    onOutline t x s ↔ Al (layout t).cells (outl true t) x (toRG s) := by
  constructor
  · rintro ⟨q, h1, h2, h3⟩
    exact ⟨q, (outlined_iff t q).1 h1, under_iff.1 h2, by cases s <;> exact h3⟩
  · rintro ⟨q, h1, h2, h3⟩
    exact ⟨q, (outlined_iff t q).2 h1, under_iff.2 h2, by cases s <;> exact h3⟩

/-- C02.5: a side of a cell has the sub-recipe border exactly when it lies on the same side of the region of an
    outlined node containing the cell; every other side is plain (no border around the outputs column except on
    its left, a normal border elsewhere) -/
theorem layout_borders (t : Tree) (h : wf t = true) : ∀ x ∈ (layout t).cells, ∀ s,
    (onOutline t x s → border x s = .subRecipe) ∧ (¬ onOutline t x s → border x s = plainBorder x s) := by
  have H := layout_borders' t (wf_eq t ▸ h)
  intro x hx s
  have e1 : border x s = x.border (toRG s) := by cases s <;> rfl
  have e2 : plainBorder x s = initBorder x.kind (toRG s) := by
    cases s <;> simp [plainBorder, initBorder, toRG]
  rw [onOutline_iff, e1, e2]
  exact ⟨H.sub x hx _, H.ini x hx _⟩

/-- Python's invariant: only the root can be a sub recipe with several outputs -/
def multiOnlyAtRoot (t : Tree) : Prop :=
  ∀ q b ns sh, t.at? q = some (.sub b ns sh) → ns.length ≠ 1 → q = []

/-- C02.5 by cases, for trees satisfying Python's invariant: no border exactly on the top, right and bottom of the
    outputs cell; otherwise the sub-recipe border exactly on the outlines; otherwise the normal border -/
theorem layout_borders_cases (t : Tree) (h : wf t = true) (hm : multiOnlyAtRoot t) :
    ∀ x ∈ (layout t).cells, ∀ s,
      (border x s = .none ↔ (x.kind = .outputs ∧ s ≠ .left)) ∧
      (border x s = .subRecipe ↔ (¬ (x.kind = .outputs ∧ s ≠ .left) ∧ onOutline t x s)) ∧
      (border x s = .normal ↔ (¬ (x.kind = .outputs ∧ s ≠ .left) ∧ ¬ onOutline t x s)) := by
  intro x hx s
  obtain ⟨h1, h2⟩ := layout_borders t h x hx s
  have hout : x.kind = .outputs → ¬ onOutline t x s := by
    intro hk
    obtain ⟨b, ns, sh, hq, hn⟩ := outputs_cell_at t x hx hk
    have hp : x.path = [] := hm _ _ _ _ hq hn
    rw [hp, at?_nil] at hq
    simp only [Option.some.injEq] at hq
    rintro ⟨q, ho, hu, _⟩
    have hq0 : q = [] := by
      have := under_iff.1 hu
      rw [hp] at this
      exact List.prefix_nil.1 this
    subst hq0
    rcases ho with ⟨_, ho⟩ | ⟨b', ns', sh', ho, hn'⟩ | ⟨q', _, _, _, ho, _⟩
    · exact hn (ho b ns sh hq)
    · rw [at?_nil, hq] at ho; cases ho; exact hn hn'
    · simp at ho
  by_cases hc : x.kind = .outputs ∧ s ≠ .left
  · have hb := h2 (hout hc.1)
    simp only [plainBorder, hc] at hb
    simp [hb, hc]
  · by_cases ha : onOutline t x s
    · simp [h1 ha, hc, ha]
    · have hb := h2 ha
      simp only [plainBorder, hc, if_false] at hb
      simp [hb, hc, ha]

/-- non-vacuity: a step with two inputs, the second a titled sub recipe -/
def exTree : Tree := .step [] [.ingredient [] none, .sub (.ingredient [] none) [[]] true]
example : wf exTree = true := by decide
example : Tiles (layout exTree) := layout_tiles exTree (by decide)
example : (layout exTree).h = 3 ∧ (layout exTree).w = 2 := by decide
example : ((layout exTree).cells.map fun c => (c.path, c.kind, c.row, c.col, c.rows, c.cols)) =
    [([0], .ingredient, 0, 0, 1, 1), ([1], .header, 1, 0, 1, 1), ([1, 0], .ingredient, 2, 0, 1, 1),
     ([], .step, 0, 1, 3, 1)] := by decide
example : drawn [] exTree = [([0], .ingredient), ([1], .header), ([1, 0], .ingredient), ([], .step)] := by decide
example : region (layout exTree) [] = ⟨0, 0, 3, 2⟩ ∧ region (layout exTree) [0] = ⟨0, 0, 1, 1⟩ ∧
    region (layout exTree) [1] = ⟨1, 0, 3, 1⟩ ∧ region (layout exTree) [1, 0] = ⟨2, 0, 3, 1⟩ := by decide
example := region_tiles exTree (by decide) [1] _ rfl
example := step_geometry exTree (by decide) [] _ _ rfl
example := header_geometry exTree (by decide) [1] _ _ rfl rfl
example := layout_borders exTree (by decide)
example : ((layout exTree).cells.map fun c => (c.path, c.bl, c.br, c.bt, c.bb)) =
    [([0], .subRecipe, .normal, .subRecipe, .normal), ([1], .subRecipe, .subRecipe, .subRecipe, .normal),
     ([1, 0], .subRecipe, .subRecipe, .normal, .subRecipe), ([], .normal, .subRecipe, .subRecipe, .subRecipe)] := by
  decide

/-- non-vacuity with an outputs column: a root with two outputs around the same step -/
def exTree2 : Tree := .sub (.step [] [.ingredient [] none, .sub (.ingredient [] none) [[]] true]) [[], []] false
example : multiOnlyAtRoot exTree2 := by
  intro q b ns sh h hn
  rcases q with _ | ⟨i, r⟩
  · rfl
  · exfalso
    rcases i with _ | i
    · rcases r with _ | ⟨i, r⟩
      · simp [exTree2, Tree.at?] at h
      · rcases i with _ | _ | i
        · rcases r with _ | ⟨i, r⟩ <;> simp [exTree2, Tree.at?] at h
        · rcases r with _ | ⟨i, r⟩
          · simp [exTree2, Tree.at?] at h
            exact hn (by rw [← h.2.1]; rfl)
          · rcases i with _ | i
            · rcases r with _ | ⟨i, r⟩ <;> simp [exTree2, Tree.at?] at h
            · simp [exTree2, Tree.at?] at h
        · simp [exTree2, Tree.at?] at h
    · simp [exTree2, Tree.at?] at h
example : wf exTree2 = true := by decide
example := outputs_geometry exTree2 (by decide) [] _ _ _ rfl (by decide)
example : ((layout exTree2).cells.map fun c => (c.path, c.kind, c.bl, c.br, c.bt, c.bb)) =
    [([0, 0], .ingredient, .subRecipe, .normal, .subRecipe, .normal),
     ([0, 1], .header, .subRecipe, .subRecipe, .subRecipe, .normal),
     ([0, 1, 0], .ingredient, .subRecipe, .subRecipe, .normal, .subRecipe),
     ([0], .step, .normal, .subRecipe, .subRecipe, .subRecipe),
     ([], .outputs, .normal, .none, .none, .none)] := by decide

end RG.C02
