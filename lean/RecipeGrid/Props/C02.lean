import RecipeGrid.Model.Table
namespace RG.C02
theorem placeholder_trivial : (layout (.ingredient [] none)).h = 1 := by decide
end RG.C02
