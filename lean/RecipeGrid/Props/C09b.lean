import RecipeGrid.Lemmas.Anchors
import RecipeGrid.Props.C09
import RecipeGrid.Props.C08b
import RecipeGrid.Props.C04b
/-! C09 (continued) — on a rendered page every sub-recipe link lands on exactly the definition it refers to, and
    anchor ids are unique exactly when the sanitised output names are.

    Level of the statements: the *emitted ids and hrefs*.  `idsOf ts pre` are the ids the renderer emits for the root
    trees `ts` of one recipe under the id prefix `pre`, `hrefsOf ts pre` the hrefs of its reference cells
    (`Lemmas/Anchors.lean`; structurally: the table id, then cell by cell in the order the layout builds the cells).
    Section 0 ties them to the text `renderRecipeTree` writes: the table carries `rootId` as its `id`, the cells
    written are those of `writtenNodes` (a permutation of `cellNodes`, C04.1), a reference cell is
    `<a href=h>` with `cellHrefs = [h]`, an output list is `<ul>` of `<li id=i>` with `cellIds` the `i`s, other cells
    have neither.  String-level extraction through the tokenizer of `Props/C10b.lean` is done on the examples only.

    1. `href_is_id_of_definition`  2. `ids_unique_iff`, `page_ids_unique_iff`  3. `link_lands_on_definition`,
    `link_ambiguous_iff` (the recorded finding: 'a b' and 'a-b')  4. `scale_ids_consistent`; for what `compile`
    returns: `compile_links_land`.  The two attributes read by the tokenizer: `reference_cell_tokens`,
    `list_item_tokens`.

    Findings (evaluated, and reproduced on the Python code): `collision_link_ambiguous` / `collision_from_source`
    (output names 'a b' and 'a-b': both tables get `id="recipe-a-b"`, both links are `#recipe-a-b`);
    `scale_breaks_uniqueness` (new: `sauce {1}` and `sauce 2` have distinct ids at scale 1 and the same id
    `recipe-sauce-2` at scale 2 — uniqueness of ids is not stable under scaling, though link and definition always
    change together). -/
namespace RG.C09

theorem idPrefix_eq (i : Nat) : idPrefix i = recipePrefix i := by
  by_cases h : i ≤ 1
  · have : ¬ i > 1 := by omega
    simp [idPrefix, recipePrefix, h, this]
  · have : i > 1 := by omega
    simp [idPrefix, recipePrefix, h, this]

-- ================================================================ 0. what the renderer writes
/-- the text of a rendered root tree: a `<table>` whose `id` attribute is `rootId` (none for a tree that is not a
    single-output sub recipe), with one `<td>` per emitted cell holding the body of the node the cell shows -/
theorem rendered_table (pre : Str) (t : Tree) :
    renderRecipeTree pre t =
      tagBody "table" (("class", S "rg-table") :: (rootId pre t).toList.map fun i => ("id", i))
        (joinNl ((emitRows (layout t)).map fun row => tagBody "tr" []
          (joinNl (row.map fun c => tagBody "td" (cellAttrs c) (renderCellBody pre (nodeAt t c.path)))))) := by
  rw [renderRecipeTree_eq, renderTable_eq]

/-- the cell bodies, in the order they are written, are those of `writtenNodes` -/
theorem rendered_cells (pre : Str) (t : Tree) :
    (emitRows (layout t)).flatten.map (fun c => renderCellBody pre (nodeAt t c.path)) =
      (writtenNodes t).map (renderCellBody pre) := by
  simp [writtenNodes, List.map_map, Function.comp_def]

/-- which, for a well-formed tree, are the nodes `cellNodes` (each once): so the ids and hrefs written are
    `idsOfTree` / `hrefsOfTree` up to the order of the cells -/
theorem written_perm (pre : Str) (t : Tree) (h : C02.wf t = true) :
    (writtenNodes t).Perm (cellNodes t) ∧ (writtenIds pre t).Perm (idsOfTree pre t) ∧
      (writtenHrefs pre t).Perm (hrefsOfTree pre t) :=
  ⟨writtenNodes_perm t h, writtenIds_perm pre t h, writtenHrefs_perm pre t h⟩

/-- with multi-output sub recipes only at the root (what the constructors ensure), `idsOfTree` lists the ids in the
    very order of the page -/
theorem written_ids_in_order (pre : Str) (t : Tree) (h : C02.wf t = true) (hm : t.multiAtRootOnly = true) :
    writtenIds pre t = idsOfTree pre t ∧ idsOfTree pre t = (subNames t).map (anchorId pre) :=
  ⟨writtenIds_eq pre t h hm, idsOfTree_of_multiAtRootOnly pre t hm⟩

/-- a reference cell is one `<a>` whose `href` is the element of `cellHrefs`; it has no id -/
theorem cell_body_reference (pre : Str) (sub : Tree) (idx : Nat) (a : Amount) :
    ∃ h, cellHrefs pre (.reference sub idx a) = [h] ∧ cellIds pre (.reference sub idx a) = [] ∧
      renderCellBody pre (.reference sub idx a) =
        tagBody "a" [("href", h)] (renderAmount a ++ renderSvs ((subNames sub)[idx]?.getD [])) :=
  ⟨_, rfl, rfl, rfl⟩

/-- an output list is a `<ul>` of one `<li>` per output name, in order, whose `id`s are `cellIds`; it has no href -/
theorem cell_body_outputs (pre : Str) (b : Tree) (ns : List SVS) (sh : Bool) (h : ns.length ≠ 1) :
    cellIds pre (.sub b ns sh) = ns.map (anchorId pre) ∧ cellHrefs pre (.sub b ns sh) = [] ∧
      renderCellBody pre (.sub b ns sh) =
        tagBody "ul" [("class", S "rg-sub-recipe-output-list")]
          (joinNl (ns.map fun n => tagBody "li" [("id", anchorId pre n)] (renderSvs n))) :=
  ⟨by simp [cellIds, h], rfl, list_item_id pre b ns sh h⟩

/-- the other cells (ingredient, step, header of a single-output sub recipe) consist of quantity and scaled-value
    strings only; `cellIds` and `cellHrefs` are empty for them -/
theorem cell_body_plain (pre : Str) :
    (∀ d q, renderCellBody pre (.ingredient d q) =
        (match q with | some q => renderQuantity q ++ [' '] | none => []) ++ renderSvs d ∧
      cellIds pre (.ingredient d q) = [] ∧ cellHrefs pre (.ingredient d q) = []) ∧
    (∀ d i, renderCellBody pre (.step d i) = renderSvs d ∧
      cellIds pre (.step d i) = [] ∧ cellHrefs pre (.step d i) = []) ∧
    (∀ b n sh, renderCellBody pre (.sub b [n] sh) = renderSvs n ∧
      cellIds pre (.sub b [n] sh) = [] ∧ cellHrefs pre (.sub b [n] sh) = []) :=
  ⟨fun _ _ => ⟨rfl, rfl, rfl⟩, fun _ _ => ⟨rfl, rfl, rfl⟩, fun _ _ _ => ⟨rfl, rfl, rfl⟩⟩

/-- a page: `renderRecipesAux` replaces the placeholder of block number `j` by the rendering of its (scaled) root
    trees under the prefix of the block's recipe number (`blockIndices`) -/
theorem rendered_page (k : Num) (rs : List (Str × Bool × Block)) (html : Str) :
    renderRecipesAux k 0 rs html =
      ((rs.map (·.1)).zip (blockIndices 0 rs)).foldl (fun h x => replaceAll x.1
        (tagBody "div" [("class", "rg-recipe-block".toList)]
          (joinNl ((Tree.scaleList k x.2.2).map (renderRecipeTree (idPrefix x.2.1))))) h) html :=
  renderRecipesAux_eq k rs 0 html

-- ================================================================ 1. the href is the id of the definition
/-- the id emitted for output number `idx` of the root sub recipe `root` -/
def defId (pre : Str) (root : Tree) (idx : Nat) : Option Str := ((subNames root)[idx]?).map (anchorId pre)

/-- for a single-output sub recipe it is the id of the `<table>` -/
theorem defId_single (pre : Str) (b : Tree) (n : SVS) (sh : Bool) :
    defId pre (.sub b [n] sh) 0 = rootId pre (.sub b [n] sh) := rfl

/-- for a multi-output sub recipe it is the id of `<li>` number `idx` of the output list, which is a cell of the
    tree's own table -/
theorem defId_multi (pre : Str) (b : Tree) (ns : List SVS) (sh : Bool) (idx : Nat) (h : ns.length ≠ 1) :
    Tree.sub b ns sh ∈ cellNodes (.sub b ns sh) ∧ rootId pre (.sub b ns sh) = none ∧
      defId pre (.sub b ns sh) idx = (cellIds pre (.sub b ns sh))[idx]? := by
  refine ⟨by simp [cellNodes, h], ?_, by simp [defId, subNames, cellIds, h]⟩
  have := rootId_eq pre (.sub b ns sh)
  rw [rootName_of_length h] at this
  cases hr : rootId pre (.sub b ns sh) with
  | none => rfl
  | some i => rw [hr] at this; simp at this

theorem defId_mem (pre : Str) (root : Tree) (idx : Nat) (i : Str) (h : defId pre root idx = some i) :
    i ∈ idsOfTree pre root := by
  simp only [defId, Option.map_eq_some_iff] at h
  obtain ⟨n, hn, rfl⟩ := h
  rw [idsOfTree_eq]
  exact List.mem_map_of_mem (subNames_sub_idNames root n (List.mem_of_getElem? hn))

/-- under Python's invariant the ids of a root tree are exactly those of its outputs, in order -/
theorem defId_pos (pre : Str) (root : Tree) (idx : Nat) (h : root.multiAtRootOnly = true) :
    (idsOfTree pre root)[idx]? = defId pre root idx := by
  rw [idsOfTree_of_multiAtRootOnly pre root h, List.getElem?_map]; rfl

/-- **1.** in a structurally valid recipe (`ValidS`: `C08.compile_validS`) every reference cell holds an earlier root
    tree `sub` of the same recipe (the embedded copy IS that root), and its href is `#` followed by the id emitted
    for output `idx` of that root, under the same prefix; that id is among the ids of the recipe -/
theorem href_is_id_of_definition (pre : Str) (bs : List Block) (hv : C03.ValidS [] bs)
    (hr : ∀ t ∈ bs.flatten, RefsInRange t) (p : Nat) (T : Tree) (hp : bs.flatten[p]? = some T)
    (sub : Tree) (idx : Nat) (a : Amount) (hc : Tree.reference sub idx a ∈ cellNodes T) :
    ∃ k i, k < p ∧ bs.flatten[k]? = some sub ∧ sub.isSub = true ∧ defId pre sub idx = some i ∧
      cellHrefs pre (.reference sub idx a) = ['#' :: i] ∧ i ∈ idsOfTree pre sub ∧ i ∈ idsOf bs.flatten pre := by
  obtain ⟨k, hk, hks, hsub⟩ := ref_cell_resolves bs hv p T hp sub idx a hc
  have hlt := hr T (List.mem_of_getElem? hp) sub idx a hc
  have hn : (subNames sub)[idx]? = some (subNames sub)[idx] := List.getElem?_eq_getElem hlt
  have hd : defId pre sub idx = some (anchorId pre (subNames sub)[idx]) := by simp [defId, hn]
  refine ⟨k, _, hk, hks, hsub, hd, by simp [cellHrefs, hn], defId_mem pre sub idx _ hd, ?_⟩
  exact List.mem_flatMap.2 ⟨sub, List.mem_of_getElem? hks, defId_mem pre sub idx _ hd⟩

theorem mem_hrefsOf {ts : List Tree} {pre h : Str} (hh : h ∈ hrefsOf ts pre) :
    ∃ T ∈ ts, ∃ s i a, Tree.reference s i a ∈ cellNodes T ∧ cellHrefs pre (.reference s i a) = [h] := by
  simp only [hrefsOf, hrefsOfTree, List.mem_flatMap] at hh
  obtain ⟨T, hT, n, hn, hh⟩ := hh
  cases n with
  | reference s i a =>
    simp only [cellHrefs, List.mem_singleton] at hh
    exact ⟨T, hT, s, i, a, hn, by simp [cellHrefs, hh]⟩
  | _ => simp [cellHrefs] at hh

/-- no dangling links: every href of the recipe is `#` + one of its ids -/
theorem hrefs_resolve (pre : Str) (bs : List Block) (hv : C03.ValidS [] bs) (hr : ∀ t ∈ bs.flatten, RefsInRange t) :
    ∀ h ∈ hrefsOf bs.flatten pre, ∃ i ∈ idsOf bs.flatten pre, h = '#' :: i := by
  intro h hh
  obtain ⟨T, hT, s, i, a, hc, he⟩ := mem_hrefsOf hh
  obtain ⟨p, hp⟩ := List.getElem?_of_mem hT
  obtain ⟨k, j, _, _, _, _, hj, _, hm⟩ := href_is_id_of_definition pre bs hv hr p T hp s i a hc
  rw [hj] at he
  exact ⟨j, hm, by simpa using he.symm⟩

-- ================================================================ 2. when ids are unique
/-- **2.** (general form) the ids of one recipe are pairwise distinct iff the sanitised names that get an id are -/
theorem ids_unique_iff_general (pre : Str) (ts : List Tree) :
    (idsOf ts pre).Nodup ↔ ((ts.flatMap idNames).map sanitise).Nodup := by
  rw [idsOf_eq]; exact nodup_anchorIds_iff pre _

/-- **2.** within one recipe the emitted ids are pairwise distinct iff the sanitised output names — all outputs of all
    root sub recipes — are pairwise distinct (multi-output sub recipes only at roots, as the constructors ensure) -/
theorem ids_unique_iff (pre : Str) (ts : List Tree) (hm : ∀ t ∈ ts, t.multiAtRootOnly = true) :
    (idsOf ts pre).Nodup ↔ ((ts.flatMap subNames).map sanitise).Nodup := by
  rw [ids_unique_iff_general, idNames_flat_of_multiAtRootOnly ts hm]

/-- across the recipes of one page ids never coincide (`prefix_disjoint`) -/
theorem ids_disjoint_across_recipes (ibs : List (Nat × Block)) (hpos : ∀ x ∈ ibs, 1 ≤ x.1)
    (x y : Nat × Block) (hx : x ∈ ibs) (hy : y ∈ ibs) (s : Str) (h1 : s ∈ idsOf x.2 (idPrefix x.1))
    (h2 : s ∈ idsOf y.2 (idPrefix y.1)) : x.1 = y.1 := by
  rw [idsOf_eq] at h1 h2
  obtain ⟨n, _, e1⟩ := List.mem_map.1 h1
  obtain ⟨m, _, e2⟩ := List.mem_map.1 h2
  rw [idPrefix_eq] at e1 e2
  exact anchorId_recipe_disjoint x.1 y.1 (hpos x hx) (hpos y hy) n m (e1.trans e2.symm)

/-- **2.** for a whole page: all ids are pairwise distinct iff within every recipe the sanitised names that get an id
    are pairwise distinct -/
theorem page_ids_unique_iff (ibs : List (Nat × Block)) (hpos : ∀ x ∈ ibs, 1 ≤ x.1) :
    (pageIds ibs).Nodup ↔ ∀ i, (((recipeTrees ibs i).flatMap idNames).map sanitise).Nodup := by
  rw [← pageIdsTagged_snd, nodup_groups]
  · constructor
    · intro h i
      have := h i
      rwa [pageIdsTagged_filter, ids_unique_iff_general] at this
    · intro h i
      rw [pageIdsTagged_filter, ids_unique_iff_general]
      exact h i
  · intro a ha b hb e
    obtain ⟨⟨ba, hba⟩, ta, hta⟩ := mem_pageIdsTagged ha
    obtain ⟨⟨bb, hbb⟩, tb, htb⟩ := mem_pageIdsTagged hb
    rw [hta, htb, idPrefix_eq, idPrefix_eq] at e
    exact prefix_disjoint_pos a.1 b.1 (hpos _ hba) (hpos _ hbb) ta tb e

/-- with Python's invariant: iff within every recipe the sanitised output names are pairwise distinct -/
theorem page_ids_unique_iff' (ibs : List (Nat × Block)) (hpos : ∀ x ∈ ibs, 1 ≤ x.1)
    (hm : ∀ x ∈ ibs, ∀ t ∈ x.2, t.multiAtRootOnly = true) :
    (pageIds ibs).Nodup ↔ ∀ i, (((recipeTrees ibs i).flatMap subNames).map sanitise).Nodup := by
  rw [page_ids_unique_iff ibs hpos]
  have : ∀ i, (recipeTrees ibs i).flatMap idNames = (recipeTrees ibs i).flatMap subNames := by
    intro i
    apply idNames_flat_of_multiAtRootOnly
    intro t ht
    simp only [recipeTrees, List.mem_flatMap, List.mem_filter] at ht
    obtain ⟨x, ⟨hx, _⟩, htx⟩ := ht
    exact hm x hx t htx
  simp only [this]

-- ================================================================ 3. the link lands on the definition
/-- **3.** if the sanitised output names of a recipe are pairwise distinct then for every reference cell exactly one
    element of the recipe carries the target id: position `idx` among the ids of the root tree `sub` the reference
    holds (which is an earlier root of the recipe) — the `<table>` of a single-output sub recipe, `<li>` number
    `idx` of the output list of a multi-output one -/
theorem link_lands_on_definition (pre : Str) (bs : List Block) (hv : C03.ValidS [] bs)
    (hr : ∀ t ∈ bs.flatten, RefsInRange t) (hm : ∀ t ∈ bs.flatten, t.multiAtRootOnly = true)
    (hu : ((bs.flatten.flatMap subNames).map sanitise).Nodup)
    (p : Nat) (T : Tree) (hp : bs.flatten[p]? = some T)
    (sub : Tree) (idx : Nat) (a : Amount) (hc : Tree.reference sub idx a ∈ cellNodes T) :
    ∃ k i, k < p ∧ bs.flatten[k]? = some sub ∧ cellHrefs pre (.reference sub idx a) = ['#' :: i] ∧
      defId pre sub idx = some i ∧
      (idsOf bs.flatten pre)[(idsOf (bs.flatten.take k) pre).length + idx]? = some i ∧
      (∀ q, (idsOf bs.flatten pre)[q]? = some i → q = (idsOf (bs.flatten.take k) pre).length + idx) ∧
      ((∃ b n sh, sub = .sub b [n] sh ∧ idx = 0 ∧ rootId pre sub = some i) ∨
       (∃ b ns sh, sub = .sub b ns sh ∧ ns.length ≠ 1 ∧ rootId pre sub = none ∧
          sub ∈ cellNodes sub ∧ (cellIds pre sub)[idx]? = some i)) := by
  obtain ⟨k, i, hk, hks, hsub, hd, hh, _, _⟩ := href_is_id_of_definition pre bs hv hr p T hp sub idx a hc
  have hmk := hm sub (List.mem_of_getElem? hks)
  have hpos : (idsOf bs.flatten pre)[(idsOf (bs.flatten.take k) pre).length + idx]? = some i :=
    getElem?_flatMap_offset (idsOfTree pre) bs.flatten k sub hks idx i (by rw [defId_pos pre sub idx hmk, hd])
  refine ⟨k, i, hk, hks, hh, hd, hpos, fun q hq => ?_, ?_⟩
  · exact nodup_getElem?_inj ((ids_unique_iff pre bs.flatten hm).2 hu) hq hpos
  · cases sub with
    | sub b ns sh =>
      by_cases h1 : ns.length = 1
      · left
        match ns, h1 with
        | [n], _ =>
          have h0 : idx = 0 := by
            simp only [defId, subNames, Option.map_eq_some_iff] at hd
            obtain ⟨m, hm', _⟩ := hd
            have := (List.getElem?_eq_some_iff.1 hm').1
            simpa using this
          subst h0
          exact ⟨b, n, sh, rfl, rfl, by rw [← defId_single, hd]⟩
      · right
        obtain ⟨h2, h3, h4⟩ := defId_multi pre b ns sh idx h1
        exact ⟨b, ns, sh, rfl, h1, h3, h2, by rw [← h4, hd]⟩
    | _ => simp [Tree.isSub] at hsub

/-- on the whole page no other recipe carries the target id either -/
theorem link_target_only_in_own_recipe (ibs : List (Nat × Block)) (hpos : ∀ x ∈ ibs, 1 ≤ x.1) (i : Nat) (hi : 1 ≤ i)
    (name : SVS) (x : Nat × Block) (hx : x ∈ ibs) (h : anchorId (idPrefix i) name ∈ idsOf x.2 (idPrefix x.1)) :
    x.1 = i := by
  rw [idsOf_eq] at h
  obtain ⟨m, _, e⟩ := List.mem_map.1 h
  rw [idPrefix_eq, idPrefix_eq] at e
  exact anchorId_recipe_disjoint x.1 i (hpos x hx) hi m name e

/-- **3.** a link has a second target iff another output of the recipe (another position among the names that get an
    id) sanitises to the same string — the recorded finding: 'a b' and 'a-b' -/
theorem link_ambiguous_iff (pre : Str) (ts : List Tree) (q : Nat) (n : SVS) :
    (∃ q', q' ≠ q ∧ (idsOf ts pre)[q']? = some (anchorId pre n)) ↔
      (∃ q' n', q' ≠ q ∧ (ts.flatMap idNames)[q']? = some n' ∧ sanitise n' = sanitise n) := by
  rw [idsOf_eq]
  constructor
  · rintro ⟨q', hne, h⟩
    rw [List.getElem?_map, Option.map_eq_some_iff] at h
    obtain ⟨n', hn', e⟩ := h
    exact ⟨q', n', hne, hn', (anchorId_eq_iff pre n' n).1 e⟩
  · rintro ⟨q', n', hne, hn', e⟩
    refine ⟨q', hne, ?_⟩
    rw [List.getElem?_map, hn']
    exact congrArg some ((anchorId_eq_iff pre n' n).2 e)

/-- when no output name occurs twice: iff a *different* output name of the recipe sanitises equally -/
theorem link_ambiguous_iff_names (pre : Str) (ts : List Tree) (hn : (ts.flatMap idNames).Nodup) (q : Nat) (n : SVS)
    (hq : (ts.flatMap idNames)[q]? = some n) :
    (∃ q', q' ≠ q ∧ (idsOf ts pre)[q']? = some (anchorId pre n)) ↔
      (∃ n' ∈ ts.flatMap idNames, n' ≠ n ∧ sanitise n' = sanitise n) := by
  rw [link_ambiguous_iff]
  constructor
  · rintro ⟨q', n', hne, hn', e⟩
    refine ⟨n', List.mem_of_getElem? hn', ?_, e⟩
    rintro rfl
    exact hne (nodup_getElem?_inj hn hn' hq)
  · rintro ⟨n', hm, hne, e⟩
    obtain ⟨q', hq'⟩ := List.getElem?_of_mem hm
    refine ⟨q', n', ?_, hq', e⟩
    rintro rfl
    rw [hq] at hq'
    exact hne (Option.some.inj hq').symm

/-- some link target of the recipe is ambiguous iff two outputs sanitise equally -/
theorem ids_collide_iff (pre : Str) (ts : List Tree) :
    ¬ (idsOf ts pre).Nodup ↔
      ∃ (q q' : Nat) (n n' : SVS), q ≠ q' ∧ (ts.flatMap idNames)[q]? = some n ∧ (ts.flatMap idNames)[q']? = some n' ∧
        sanitise n = sanitise n' := by
  rw [ids_unique_iff_general, not_nodup_iff]
  constructor
  · rintro ⟨i, j, s, hne, hi, hj⟩
    rw [List.getElem?_map, Option.map_eq_some_iff] at hi hj
    obtain ⟨n, hn, e1⟩ := hi
    obtain ⟨n', hn', e2⟩ := hj
    exact ⟨i, j, n, n', hne, hn, hn', e1.trans e2.symm⟩
  · rintro ⟨i, j, n, n', hne, hn, hn', e⟩
    exact ⟨i, j, sanitise n, hne, by rw [List.getElem?_map, hn]; rfl, by rw [List.getElem?_map, hn', e]; rfl⟩

-- ================================================================ 4. scaling
/-- the ids of the scaled recipe are those of the scaled names -/
theorem scale_ids (k : Num) (pre : Str) (ts : List Tree) :
    idsOf (Tree.scaleList k ts) pre = ((ts.flatMap idNames).map (Svs.scale k)).map (anchorId pre) := by
  have : (fun t => idNames (Tree.scale k t)) = fun t => (idNames t).map (Svs.scale k) := funext (idNames_scale k)
  rw [idsOf_eq, scaleList_eq_map, List.flatMap_map, this]
  simp only [List.map_flatMap]

/-- **4.** on the page scaled by `k` the reference cell and its definition change consistently: the scaled reference
    holds the scaled root, which is the root at the same earlier position of the scaled recipe; its href is `#` + the
    id of the scaled output name, which is the id emitted for output `idx` of the scaled definition -/
theorem scale_ids_consistent (k : Num) (pre : Str) (bs : List Block) (hv : C03.ValidS [] bs)
    (hr : ∀ t ∈ bs.flatten, RefsInRange t) (p : Nat) (T : Tree) (hp : bs.flatten[p]? = some T)
    (sub : Tree) (idx : Nat) (a : Amount) (hc : Tree.reference sub idx a ∈ cellNodes T) :
    ∃ q name, q < p ∧ bs.flatten[q]? = some sub ∧ (subNames sub)[idx]? = some name ∧
      (scaleBlocks k bs).flatten[p]? = some (T.scale k) ∧
      Tree.reference (sub.scale k) idx (a.scale k) ∈ cellNodes (T.scale k) ∧
      (scaleBlocks k bs).flatten[q]? = some (sub.scale k) ∧
      cellHrefs pre (.reference (sub.scale k) idx (a.scale k)) = ['#' :: anchorId pre (Svs.scale k name)] ∧
      defId pre (sub.scale k) idx = some (anchorId pre (Svs.scale k name)) ∧
      anchorId pre (Svs.scale k name) ∈ idsOf (scaleBlocks k bs).flatten pre := by
  obtain ⟨q, hq, hqs, _⟩ := ref_cell_resolves bs hv p T hp sub idx a hc
  have hlt := hr T (List.mem_of_getElem? hp) sub idx a hc
  have hn : (subNames sub)[idx]? = some (subNames sub)[idx] := List.getElem?_eq_getElem hlt
  have hn' : (subNames (sub.scale k))[idx]? = some (Svs.scale k (subNames sub)[idx]) := by
    rw [subNames_scale, List.getElem?_map, hn]; rfl
  have hd : defId pre (sub.scale k) idx = some (anchorId pre (Svs.scale k (subNames sub)[idx])) := by
    simp [defId, hn']
  have hqs' : (scaleBlocks k bs).flatten[q]? = some (sub.scale k) := by
    rw [scaleBlocks_flatten, List.getElem?_map, hqs]; rfl
  refine ⟨q, _, hq, hqs, hn, ?_, ?_, hqs', by simp [cellHrefs, hn'], hd, ?_⟩
  · rw [scaleBlocks_flatten, List.getElem?_map, hp]; rfl
  · rw [cellNodes_scale]
    exact List.mem_map.2 ⟨_, hc, rfl⟩
  · exact List.mem_flatMap.2 ⟨_, List.mem_of_getElem? hqs', defId_mem pre _ idx _ hd⟩

/-- hence every statement of 1. holds on the scaled page as it stands -/
theorem scale_href_is_id_of_definition (k : Num) (pre : Str) (bs : List Block) (hv : C03.ValidS [] bs)
    (hr : ∀ t ∈ bs.flatten, RefsInRange t) (p : Nat) (T : Tree) (hp : (scaleBlocks k bs).flatten[p]? = some T)
    (sub : Tree) (idx : Nat) (a : Amount) (hc : Tree.reference sub idx a ∈ cellNodes T) :
    ∃ q i, q < p ∧ (scaleBlocks k bs).flatten[q]? = some sub ∧ sub.isSub = true ∧ defId pre sub idx = some i ∧
      cellHrefs pre (.reference sub idx a) = ['#' :: i] ∧ i ∈ idsOfTree pre sub ∧
      i ∈ idsOf (scaleBlocks k bs).flatten pre := by
  apply href_is_id_of_definition pre _ (C03.scale_valid k bs hv) _ p T hp sub idx a hc
  intro t ht
  rw [scaleBlocks_flatten] at ht
  obtain ⟨t', ht', rfl⟩ := List.mem_map.1 ht
  exact (hr t' ht').scale k

-- ================================================================ what `compile` returns
/-- everything `compile` returns satisfies the hypotheses of 1.–4. -/
theorem compile_hyps (srcs : List Str) (bs : List Block) (h : compile srcs = .ok bs) :
    C03.ValidS [] bs ∧ (∀ t ∈ bs.flatten, RefsInRange t) ∧ (∀ t ∈ bs.flatten, t.multiAtRootOnly = true) := by
  obtain ⟨asts, bs0, st, outs', _, hc, _, hf⟩ := compile_ok_phases h
  have hw := foldAll_wfAll asts bs0 st hc _ bs outs' hf
  exact ⟨C08.compile_validS srcs bs h, fun t ht => refsInRange_of_wfB t (hw t ht),
    fun t ht => multiAtRootOnly_of_wfB t (hw t ht)⟩

/-- for a compiled recipe: every link is `#` + the id of the definition it refers to, at any scale; and if the
    sanitised output names are pairwise distinct, that id occurs exactly once -/
theorem compile_links_land (srcs : List Str) (bs : List Block) (h : compile srcs = .ok bs) (k : Num) (pre : Str) :
    (∀ hr ∈ hrefsOf (scaleBlocks k bs).flatten pre, ∃ i ∈ idsOf (scaleBlocks k bs).flatten pre, hr = '#' :: i) ∧
    ((idsOf (scaleBlocks k bs).flatten pre).Nodup ↔
      (((bs.flatten.flatMap subNames).map (Svs.scale k)).map sanitise).Nodup) := by
  obtain ⟨hv, hr, hm⟩ := compile_hyps srcs bs h
  constructor
  · apply hrefs_resolve pre _ (C03.scale_valid k bs hv)
    intro t ht
    rw [scaleBlocks_flatten] at ht
    obtain ⟨t', ht', rfl⟩ := List.mem_map.1 ht
    exact (hr t' ht').scale k
  · rw [scaleBlocks_flatten, ← scaleList_eq_map, scale_ids, nodup_anchorIds_iff,
      idNames_flat_of_multiAtRootOnly _ hm]

-- ================================================================ the two attributes, read by the HTML tokenizer
section Tokens
open RG.C10

/-- read by the HTML tokenizer of `Props/C10b.lean`, a reference cell (one-line amount and name: `C04.CellOK`) is an
    `<a>` element with exactly one attribute, `href`, whose value reads back as `#` + the id — whatever characters
    the prefix holds -/
theorem reference_cell_tokens (pre : Str) (sub : Tree) (idx : Nat) (a : Amount)
    (h : C04.CellOK pre (.reference sub idx a)) :
    ∃ body, tokens (renderCellBody pre (.reference sub idx a)) =
      .open (S "a") [(S "href", '#' :: anchorId pre ((subNames sub)[idx]?.getD []))] :: body ++ [.close (S "a")] := by
  obtain ⟨ha, hn⟩ := h
  have hnl : '\n' ∉ renderAmount a ++ renderSvs ((subNames sub)[idx]?.getD []) := by
    simp only [List.mem_append, not_or]
    exact ⟨nl_not_mem_renderAmount a ha, C04.nl_not_mem_renderSvs hn⟩
  have hb : Balanced (bodyWritten (renderAmount a ++ renderSvs ((subNames sub)[idx]?.getD []))) := by
    rw [bodyWritten, if_neg hnl]
    exact ((aToks_frag a ha).append (svsToks_frag _)).balanced
  exact ⟨_, tagBody_attr_roundtrip "a" "href" _ _ C04.isName_a C04.isName_href hb⟩

/-- and an item of an output list (name without newline) is an `<li>` element with exactly one attribute, `id`,
    whose value reads back as the id -/
theorem list_item_tokens (pre : Str) (n : SVS) (h : ∀ t, Part.text t ∈ n → '\n' ∉ t) :
    ∃ body, tokens (tagBody "li" [("id", anchorId pre n)] (renderSvs n)) =
      .open (S "li") [(S "id", anchorId pre n)] :: body ++ [.close (S "li")] := by
  have hb : Balanced (bodyWritten (renderSvs n)) := by
    rw [bodyWritten, if_neg (C04.nl_not_mem_renderSvs h)]
    exact (svsToks_frag n).balanced
  exact ⟨_, tagBody_attr_roundtrip "li" "id" _ _ isName_li C04.isName_id hb⟩
end Tokens

-- ================================================================ examples (evaluated)
section Examples
open RG.C10

/-- the `id` attributes of a token stream (tokenizer of `Props/C10b.lean`), in order -/
def idAttrs (ts : List Token) : List Str :=
  ts.flatMap fun t => match t with
    | .open _ attrs => (attrs.filter (·.1 == S "id")).map (·.2)
    | _ => []
/-- the `href` attributes of a token stream, in order -/
def hrefAttrs (ts : List Token) : List Str :=
  ts.flatMap fun t => match t with
    | .open _ attrs => (attrs.filter (·.1 == S "href")).map (·.2)
    | _ => []

private def tx (s : String) : SVS := [.text s.toList]

/-- block 0: `yolk, white = split(egg)` — a sub recipe with two outputs; block 1: `mix(yolk, white)` referencing both -/
def exSplit : Tree := .sub (.step (tx "split") [.ingredient (tx "egg") none]) [tx "yolk", tx "white"] false
def exMix : Tree := .step (tx "mix") [.reference exSplit 0 .whole, .reference exSplit 1 .whole]
def exRecipe : List Block := [[exSplit], [exMix]]

theorem exRecipe_valid : C03.ValidS [] exRecipe := by
  simp [C03.ValidS, C03.ValidBlockS, exRecipe, exSplit, exMix, Tree.refTargets, Tree.refTargetsList, Tree.isSub]
theorem exRecipe_wfB : ∀ t ∈ exRecipe.flatten, t.wfB = true := by
  intro t ht
  simp only [exRecipe, List.flatten_cons, List.flatten_nil, List.cons_append, List.nil_append, List.mem_cons,
    List.not_mem_nil, or_false] at ht
  rcases ht with rfl | rfl <;> decide
theorem exRecipe_wf : ∀ t ∈ exRecipe.flatten, C02.wf t = true := by
  intro t ht
  simp only [exRecipe, List.flatten_cons, List.flatten_nil, List.cons_append, List.nil_append, List.mem_cons,
    List.not_mem_nil, or_false] at ht
  rcases ht with rfl | rfl <;> decide

/-- the ids and hrefs of the example, structurally and in the order of the page -/
example : idsOf exRecipe.flatten (S "recipe-") = [S "recipe-yolk", S "recipe-white"] ∧
    hrefsOf exRecipe.flatten (S "recipe-") = [S "#recipe-yolk", S "#recipe-white"] ∧
    writtenIds (S "recipe-") exSplit = [S "recipe-yolk", S "recipe-white"] ∧
    writtenHrefs (S "recipe-") exMix = [S "#recipe-yolk", S "#recipe-white"] := by decide +kernel

/-- the same read off the rendered text by the HTML tokenizer -/
example : idAttrs (tokens (renderRecipeTree (S "recipe-") exSplit)) = writtenIds (S "recipe-") exSplit ∧
    hrefAttrs (tokens (renderRecipeTree (S "recipe-") exSplit)) = writtenHrefs (S "recipe-") exSplit ∧
    idAttrs (tokens (renderRecipeTree (S "recipe-") exMix)) = writtenIds (S "recipe-") exMix ∧
    hrefAttrs (tokens (renderRecipeTree (S "recipe-") exMix)) = writtenHrefs (S "recipe-") exMix := by decide +kernel

example : renderRecipeTree (S "recipe-") exMix =
    S ("<table class=\"rg-table\">\n  <tr>\n    <td class=\"rg-reference rg-border-left-sub-recipe " ++
       "rg-border-top-sub-recipe\"><a href=\"#recipe-yolk\">yolk</a></td>\n    <td class=\"rg-step " ++
       "rg-border-right-sub-recipe rg-border-top-sub-recipe rg-border-bottom-sub-recipe\" rowspan=\"2\">mix</td>\n" ++
       "  </tr>\n  <tr><td class=\"rg-reference rg-border-left-sub-recipe rg-border-bottom-sub-recipe\">" ++
       "<a href=\"#recipe-white\">white</a></td></tr>\n</table>") := by decide +kernel

theorem exRecipe_unique : ((exRecipe.flatten.flatMap subNames).map sanitise).Nodup := by decide +kernel

/-- the hypotheses of the theorems are satisfiable: the link to output 1 (`white`) lands on `<li>` number 1 of the
    definition in block 0, and nowhere else -/
example := link_lands_on_definition (S "recipe-") exRecipe exRecipe_valid
  (fun t ht => refsInRange_of_wfB t (exRecipe_wfB t ht)) (fun t ht => multiAtRootOnly_of_wfB t (exRecipe_wfB t ht))
  exRecipe_unique 1 exMix rfl exSplit 1 .whole (by simp [exMix, cellNodes, cellNodesList])
example := scale_ids_consistent ⟨3, .int⟩ (S "recipe-") exRecipe exRecipe_valid
  (fun t ht => refsInRange_of_wfB t (exRecipe_wfB t ht)) 1 exMix rfl exSplit 0 .whole
  (by simp [exMix, cellNodes, cellNodesList])
example := written_perm (S "recipe-") exMix (exRecipe_wf exMix (by simp [exRecipe]))
example := written_ids_in_order (S "recipe-") exSplit (exRecipe_wf exSplit (by simp [exRecipe]))
  (multiAtRootOnly_of_wfB _ (exRecipe_wfB exSplit (by simp [exRecipe])))

/-- the same recipe from source text, through `compile` -/
example : (match compile ["yolk, white = split(egg)".toList, "mix(yolk, white)".toList] with
    | .ok bs => idsOf bs.flatten (S "recipe-") == [S "recipe-yolk", S "recipe-white"] &&
        hrefsOf bs.flatten (S "recipe-") == [S "#recipe-yolk", S "#recipe-white"]
    | _ => false) = true := by decide +kernel

-- ---------------------------------------------------------------- the recorded finding: 'a b' and 'a-b'
def colA : Tree := .sub (.step (tx "mix") [.ingredient (tx "x") none]) [tx "a b"] false
def colB : Tree := .sub (.step (tx "mix") [.ingredient (tx "y") none]) [tx "a-b"] false
def colUse : Tree := .step (tx "serve") [.reference colA 0 .whole, .reference colB 0 .whole]
def colRecipe : List Block := [[colA, colB], [colUse]]

theorem colRecipe_valid : C03.ValidS [] colRecipe := by
  simp [C03.ValidS, C03.ValidBlockS, colRecipe, colA, colB, colUse, Tree.refTargets, Tree.refTargetsList, Tree.isSub]

/-- **finding (C09.3, now on a whole recipe)**: two different output names, one id: both tables carry
    `id="recipe-a-b"`, both links are `#recipe-a-b` — the link to `a-b` has two targets (and a browser takes the
    first, the table of `a b`) -/
theorem collision_link_ambiguous :
    idsOf colRecipe.flatten (S "recipe-") = [S "recipe-a-b", S "recipe-a-b"] ∧
    hrefsOf colRecipe.flatten (S "recipe-") = [S "#recipe-a-b", S "#recipe-a-b"] ∧
    colRecipe.flatten.flatMap subNames = [tx "a b", tx "a-b"] ∧
    ¬ (idsOf colRecipe.flatten (S "recipe-")).Nodup ∧
    idAttrs (tokens (renderRecipeTree (S "recipe-") colA)) = [S "recipe-a-b"] ∧
    idAttrs (tokens (renderRecipeTree (S "recipe-") colB)) = [S "recipe-a-b"] := by decide +kernel

/-- in the words of `link_ambiguous_iff`: position 1 (`a-b`) has the second target at position 0 -/
example : ∃ q', q' ≠ 1 ∧ (idsOf colRecipe.flatten (S "recipe-"))[q']? = some (anchorId (S "recipe-") (tx "a-b")) :=
  (link_ambiguous_iff (S "recipe-") colRecipe.flatten 1 (tx "a-b")).2
    ⟨0, tx "a b", by decide, by decide +kernel, by decide +kernel⟩

/-- the compiler accepts such a recipe: from source text -/
theorem collision_from_source :
    (match compile ["a b = mix(x)\na-b = mix(y)".toList, "serve(a b, a-b)".toList] with
    | .ok bs => idsOf bs.flatten (S "recipe-") == [S "recipe-a-b", S "recipe-a-b"] &&
        hrefsOf bs.flatten (S "recipe-") == [S "#recipe-a-b", S "#recipe-a-b"]
    | _ => false) = true := by decide +kernel

-- ---------------------------------------------------------------- uniqueness is not stable under scaling
/-- **observation**: output names holding a scaled number change with the scale, consistently at the link and at the
    definition (`scale_ids_consistent`), but distinct ids can become equal: `sauce {1}` and `sauce 2` have the ids
    `recipe-sauce-1`, `recipe-sauce-2`; scaled by 2 both are `recipe-sauce-2` -/
theorem scale_breaks_uniqueness :
    (match compile ["sauce {1} = mix(x)\nsauce 2 = mix(y)".toList, "serve(sauce {1}, sauce 2)".toList] with
    | .ok bs =>
      idsOf bs.flatten (S "recipe-") == [S "recipe-sauce-1", S "recipe-sauce-2"] &&
      hrefsOf bs.flatten (S "recipe-") == [S "#recipe-sauce-1", S "#recipe-sauce-2"] &&
      idsOf (scaleBlocks ⟨2, .int⟩ bs).flatten (S "recipe-") == [S "recipe-sauce-2", S "recipe-sauce-2"] &&
      hrefsOf (scaleBlocks ⟨2, .int⟩ bs).flatten (S "recipe-") == [S "#recipe-sauce-2", S "#recipe-sauce-2"]
    | _ => false) = true := by decide +kernel

/-- a page with two recipes: the second recipe's ids carry the prefix `recipe2-`; the same output name in both
    recipes gives different ids -/
example : pageIds (blockIndices 0 [([], true, [exSplit]), ([], false, [exMix]), ([], true, [exSplit])]) =
    [S "recipe-yolk", S "recipe-white", S "recipe2-yolk", S "recipe2-white"] := by decide +kernel
example := blockIndices_pos [] [exSplit] [([], false, [exMix]), ([], true, [exSplit])]
end Examples

end RG.C09
