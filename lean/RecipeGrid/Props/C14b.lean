import RecipeGrid.Model.Site
import RecipeGrid.Lemmas.Site
import RecipeGrid.Lemmas.Reach
import RecipeGrid.Props.C14
import RecipeGrid.Props.C15
/-! C14b — navigation: following generated links as a browser does (decode the percent-encoding, resolve the
    reference against the page's own path, RFC 3986 §5.2), every page of the generated site is reachable from the
    home page, and nothing but pages of the site (and the stylesheet) is reachable.

    The home page links to the root category page of every hierarchy (`/serves1/` … `/servesM/`, `/categories/`);
    a category page links to each of its sub-category pages and each recipe page of its directory in the same
    hierarchy (and, through its breadcrumbs, to its ancestors and the home page). -/
namespace RG.C14

-- ================================================================ vocabulary
/-- following the link `l` (as written in page `p`) leads to the path `t`: the in-page anchor `#` stays on the page;
    any other link is percent-decoded to a reference, which is resolved against the page's own path -/
def follows (p : Page) (l : Str) (t : Str) : Prop :=
  (l = ['#'] ∧ t = p.path) ∨ (l ≠ ['#'] ∧ ∃ ref, unquoteBytes l = utf8Bytes ref ∧ resolveRef p.path ref = t)

/-- some generated link of `p` leads to the path `t` -/
def linksToPath (p : Page) (t : Str) : Prop := ∃ l ∈ p.links, follows p l t

/-- `p` and `q` are pages of the site and some generated link of `p` leads to the path of `q` -/
def linksTo (site : List Page) (p q : Page) : Prop := p ∈ site ∧ q ∈ site ∧ linksToPath p q.path

/-- reachable from the home page (the first page of the site) by following generated links -/
inductive Reachable (site : List Page) : Page → Prop
  | home {p : Page} : site.head? = some p → Reachable site p
  | step {p q : Page} : Reachable site p → linksTo site p q → Reachable site q

/-- the same on paths, without presupposing that the target is a page: what a crawler starting at the home page finds -/
inductive ReachablePath (site : List Page) : Str → Prop
  | home {p : Page} : site.head? = some p → ReachablePath site p.path
  | step {p : Page} {t : Str} : p ∈ site → ReachablePath site p.path → linksToPath p t → ReachablePath site t

theorem Reachable.of_star {site : List Page} {p q : Page} (hp : Reachable site p) (h : Star (linksTo site) p q) :
    Reachable site q := by
  induction h with
  | refl => exact hp
  | tail _ hbc ih => exact Reachable.step ih hbc

theorem Reachable.toPath {site : List Page} {q : Page} (h : Reachable site q) : ReachablePath site q.path := by
  induction h with
  | home h0 => exact ReachablePath.home h0
  | step _ hl ih => exact ReachablePath.step hl.1 ih hl.2.2

-- ================================================================ a generated link to a page leads to that page
/-- a percent-encoded relative link is never the in-page anchor -/
theorem hrefRelative_ne_anchor (frm to : Str) : hrefRelative frm to ≠ ['#'] := by
  intro h
  have := quote_safe_chars (relativePath frm to) '#' (by unfold hrefRelative at h; rw [h]; simp)
  revert this; decide

/-- no page path is (segment-wise) a directory above another page -/
theorem page_not_prefix (root : Dir) (rootName : Str) (M : Nat) (ps : List Page)
    (h : sitePages root rootName M = .ok ps) (hn : NamesOK root) (hh : NoHtmlDirs root) (p q : Page) (hp : p ∈ ps) (hq : q ∈ ps) :
    ¬ segsOf q.path <+: (segsOf p.path).dropLast := by
  obtain ⟨D, stem, hpath, hstem, hD, hDshape⟩ := page_path_shape root rootName M ps h hn p hp
  obtain ⟨D', stem', hpath', hstem', hD', _⟩ := page_path_shape root rootName M ps h hn q hq
  have hsegs : ∀ L : List Str, L ≠ [] → (∀ s ∈ L, '/' ∉ s) → segsOf ('/' :: joinSlash L) = L := by
    intro L h1 h2
    simp [segsOf, splitSlash_abs L h1 h2]
  have hpsegs : (segsOf p.path).dropLast = D := by
    rw [hpath, hsegs _ (by simp)]
    · simp
    · intro s hs
      rcases List.mem_append.mp hs with hs | hs
      · exact (hD s hs).2.2.2
      · have : s = stem ++ ".html".toList := by simpa using hs
        rw [this]; exact (htmlSeg_ok stem hstem).2.2.2
  rw [hpsegs, hpath', hsegs _ (by simp)]
  · apply not_prefix_of_last_not_mem
    rcases hDshape with rfl | ⟨sv, dirs, d, rfl, hd⟩
    · simp
    · exact htmlSeg_not_mem_dirs sv dirs stem' (hh dirs d hd)
  · intro s hs
    rcases List.mem_append.mp hs with hs | hs
    · exact (hD' s hs).2.2.2
    · have : s = stem' ++ ".html".toList := by simpa using hs
      rw [this]; exact (htmlSeg_ok stem' hstem').2.2.2

/-- if page `p` carries `href.relative(p, q)` for a page `q`, then following that link from `p` leads to `q` -/
theorem linksTo_of_mem (root : Dir) (rootName : Str) (M : Nat) (ps : List Page)
    (h : sitePages root rootName M = .ok ps) (hn : NamesOK root) (hh : NoHtmlDirs root) (p q : Page) (hp : p ∈ ps) (hq : q ∈ ps)
    (hl : hrefRelative p.path q.path ∈ p.links) : linksTo ps p q :=
  ⟨hp, hq, _, hl, .inr ⟨hrefRelative_ne_anchor _ _,
    generated_link_resolves root rootName M ps h hn p q hp hq (page_not_prefix root rootName M ps h hn hh p q hp hq)⟩⟩

/-- a page is never (segment-wise) a directory above a page that lies at least as deep; unlike `page_not_prefix` this
    needs no assumption about directory names ending in `.html` -/
theorem page_not_prefix_down (root : Dir) (rootName : Str) (M : Nat) (ps : List Page)
    (h : sitePages root rootName M = .ok ps) (hn : NamesOK root) (p q : Page) (hp : p ∈ ps) (hq : q ∈ ps)
    (hdeep : slashes p.path ≤ slashes q.path) : ¬ segsOf q.path <+: (segsOf p.path).dropLast := by
  obtain ⟨fs, hfp, hf1, hf2⟩ := paths_are_files root rootName M ps h hn p hp
  obtain ⟨ts, htq, ht1, ht2⟩ := paths_are_files root rootName M ps h hn q hq
  have e1 : segsOf p.path = fs := by
    rw [hfp]; simp [segsOf, splitSlash_abs fs hf1 (fun s hs => (hf2 s hs).2.2.2)]
  have e2 : segsOf q.path = ts := by
    rw [htq]; simp [segsOf, splitSlash_abs ts ht1 (fun s hs => (ht2 s hs).2.2.2)]
  rw [hfp, htq, slashes_abs fs hf1 (fun s hs => (hf2 s hs).2.2.2), slashes_abs ts ht1 (fun s hs => (ht2 s hs).2.2.2)] at hdeep
  rw [e1, e2]
  intro hpre
  have hl := hpre.length_le
  rw [List.length_dropLast] at hl
  have : fs.length ≠ 0 := by simpa using hf1
  omega

/-- downward links (to a page at least as deep) lead to their target under `NamesOK` alone -/
theorem linksTo_of_mem_down (root : Dir) (rootName : Str) (M : Nat) (ps : List Page)
    (h : sitePages root rootName M = .ok ps) (hn : NamesOK root) (p q : Page) (hp : p ∈ ps) (hq : q ∈ ps)
    (hdeep : slashes p.path ≤ slashes q.path) (hl : hrefRelative p.path q.path ∈ p.links) : linksTo ps p q :=
  ⟨hp, hq, _, hl, .inr ⟨hrefRelative_ne_anchor _ _,
    generated_link_resolves root rootName M ps h hn p q hp hq (page_not_prefix_down root rootName M ps h hn p q hp hq hdeep)⟩⟩

/-- every page lies at least as deep as the home page -/
theorem home_shallowest (root : Dir) (rootName : Str) (M : Nat) (ps : List Page)
    (h : sitePages root rootName M = .ok ps) (hn : NamesOK root) (q : Page) (hq : q ∈ ps) :
    slashes "/index.html".toList ≤ slashes q.path := by
  obtain ⟨ts, htq, ht1, ht2⟩ := paths_are_files root rootName M ps h hn q hq
  rw [htq, slashes_abs ts ht1 (fun s hs => (ht2 s hs).2.2.2)]
  have : ts.length ≠ 0 := by simpa using ht1
  have e : slashes "/index.html".toList = 1 := by decide
  omega

-- ================================================================ the home page links to every hierarchy
theorem homePage_head (root : Dir) (rootName : Str) (M : Nat) (ps : List Page) (h : sitePages root rootName M = .ok ps) :
    ps.head? = some (homePage root rootName M) := by
  rw [((sitePages_ok ..).mp h).2]; rfl

theorem homePage_mem (root : Dir) (rootName : Str) (M : Nat) (ps : List Page) (h : sitePages root rootName M = .ok ps) :
    homePage root rootName M ∈ ps := (mem_sitePages h _).mpr (.inl rfl)

/-- the home page (first page of the site, at `/index.html`) links to the root category page of every hierarchy:
    `/serves<n>/index.html` for 1 ≤ n ≤ M and `/categories/index.html` — and these pages exist -/
theorem home_links_roots (root : Dir) (rootName : Str) (M : Nat) (ps : List Page)
    (h : sitePages root rootName M = .ok ps) (hn : NamesOK root) :
    ∃ hp, ps.head? = some hp ∧ hp.path = "/index.html".toList ∧
      ∀ sv, C15.Hierarchy M sv →
        (∃ q ∈ ps, q.path = catPath sv []) ∧ ∀ q ∈ ps, q.path = catPath sv [] → linksTo ps hp q := by
  refine ⟨homePage root rootName M, homePage_head root rootName M ps h, rfl, ?_⟩
  intro sv hsv
  refine ⟨List.mem_map.mp (C15.category_pages root rootName M ps h [] root (C15.DirAt.here root) sv hsv) |>.imp
    (fun q hq => hq), ?_⟩
  intro q hq hpath
  apply linksTo_of_mem_down root rootName M ps h hn _ q (homePage_mem root rootName M ps h) hq
    (home_shallowest root rootName M ps h hn q hq)
  rw [hpath, mem_homePage_links]
  cases sv with
  | none => exact .inr (.inr rfl)
  | some n =>
    obtain ⟨h1, h2⟩ := hsv
    refine .inr (.inl ⟨n - 1, by omega, ?_⟩)
    have : n - 1 + 1 = n := by omega
    rw [this]

-- ================================================================ a category page links to its children and ancestors
/-- the page a category's recipe list points to for recipe `r`: the recipe's page in the same hierarchy if it has one
    there; the unscaled page for an unscalable recipe listed in a `serves<n>` hierarchy; the native-servings page for a
    scalable recipe listed under `categories` -/
def recipeListTarget (sv : Option Nat) (dirs : List Str) (r : RecipeFile) : Str :=
  match r.servings, sv with
  | none, _ => recipePath none dirs r.file
  | some _, some n => recipePath (some n) dirs r.file
  | some native, none => recipePath (some native) dirs r.file

/-- for every directory `d` of the tree (at `dirs`) and every hierarchy `sv`, the site has a category page at
    `/<root>/<dirs>/index.html` which links to
    * the category page of each sub-directory of `d` in the same hierarchy,
    * the page of each recipe of `d` that has a page in this hierarchy (and more generally each recipe's list target),
    * (breadcrumbs) the category page of every ancestor directory in the same hierarchy, and the home page.
    The downward links need `NamesOK` only; the upward and sideways ones also need `NoHtmlDirs` (a directory called
    `index.html` makes the breadcrumb to its parent the empty reference, which resolves to the page itself).
    "Has a category page" rather than "every page at that path": the model allows sibling directories of equal name,
    whose category pages share a path. -/
theorem category_links_children (root : Dir) (rootName : Str) (M : Nat) (ps : List Page)
    (h : sitePages root rootName M = .ok ps) (hn : NamesOK root)
    (dirs : List Str) (d : Dir) (hd : C15.DirAt root dirs d) (sv : Option Nat) (hsv : C15.Hierarchy M sv) :
    ∃ p ∈ ps, p.path = catPath sv dirs ∧
      (∀ s ∈ d.subdirs, ∀ q ∈ ps, q.path = catPath sv (dirs ++ [s.name]) → linksTo ps p q) ∧
      (∀ r ∈ d.recipes, r.servings.isSome = sv.isSome → ∀ q ∈ ps, q.path = recipePath sv dirs r.file → linksTo ps p q) ∧
      (NoHtmlDirs root →
        (∀ r ∈ d.recipes, ∀ q ∈ ps, q.path = recipeListTarget sv dirs r → linksTo ps p q) ∧
        (∀ pre, pre <+: dirs → ∀ q ∈ ps, q.path = catPath sv pre → linksTo ps p q) ∧
        (∀ q ∈ ps, q.path = "/index.html".toList → linksTo ps p q)) := by
  obtain ⟨chain', title, hmem, hch, hpre⟩ :=
    catPage_at M sv ((C15.dirAt_iff ..).mp hd) (homeChain root rootName) [] true
  rw [catDirs_true, List.nil_append] at hmem
  generalize hP : catPage sv chain' dirs title (subEntries sv dirs d.subdirs) (d.recipes.map (recEntry M sv chain' dirs)) = P at hmem
  have hPpath : P.path = catPath sv dirs := by rw [← hP]; rfl
  have hp : P ∈ ps := (mem_sitePages h _).mpr (.inr ⟨sv, by cases sv <;> exact hsv, hmem⟩)
  have hrt : ∀ r, recipeListTarget sv dirs r = recTarget sv dirs r := fun r => rfl
  have hlistmem : ∀ r ∈ d.recipes, hrefRelative P.path (recipeListTarget sv dirs r) ∈ P.links := by
    intro r hr
    rw [hPpath, hrt, ← recEntry_target_eq M sv chain', ← hP]
    exact catPage_links_rec M sv _ _ _ _ _ _ r hr
  refine ⟨P, hp, hPpath, ?_, ?_, fun hh => ⟨?_, ?_, ?_⟩⟩
  · intro s hs q hq hpath
    apply linksTo_of_mem_down root rootName M ps h hn _ q hp hq
    · rw [hpath, hPpath]; exact slashes_catPath_le_sub sv _ _
    rw [hpath, hPpath, ← hP]
    exact catPage_links_sub sv _ _ _ _ _ s hs
  · intro r hr hsame q hq hpath
    apply linksTo_of_mem_down root rootName M ps h hn _ q hp hq
    · rw [hpath, hPpath]; exact slashes_catPath_le_recipe sv _ _
    rw [hpath, ← recTarget_same sv dirs r hsame, ← hrt]
    exact hlistmem r hr
  · intro r hr q hq hpath
    apply linksTo_of_mem root rootName M ps h hn hh _ q hp hq
    rw [hpath]
    exact hlistmem r hr
  · intro pre hp' q hq hpath
    apply linksTo_of_mem root rootName M ps h hn hh _ q hp hq
    have := hpre pre hp'
    rw [catDirs_true, List.nil_append] at this
    obtain ⟨c, hc, hc2⟩ := List.mem_map.mp this
    rw [hpath, hPpath, ← hc2, ← hP]
    exact catPage_links_chain sv _ _ _ _ _ c hc
  · intro q hq hpath
    apply linksTo_of_mem root rootName M ps h hn hh _ q hp hq
    rw [hpath, hPpath, ← hP]
    exact catPage_links_chain sv _ _ _ _ _ (root.title (some rootName), "/index.html".toList)
      (hch _ (by simp [homeChain]))

-- ================================================================ every page is reachable from the home page
/-- C14b: every page of the site is reachable from the home page by following generated links
    (home page → root category page of the page's hierarchy → sub-category pages → recipe page).
    Only downward links are used, so `NamesOK` suffices: neither `NoHtmlDirs` nor `ServingsPositive` (which
    `every_link_resolves` needs for the upward and serving-menu links) is required. No hierarchy is left unlinked:
    the home page links to all of `/serves1/ … /servesM/` and `/categories/`, whether or not they hold recipes. -/
theorem every_page_reachable (root : Dir) (rootName : Str) (M : Nat) (ps : List Page)
    (h : sitePages root rootName M = .ok ps) (hn : NamesOK root) :
    ∀ q ∈ ps, Reachable ps q := by
  intro q hq
  have hhome : Reachable ps (homePage root rootName M) := Reachable.home (homePage_head root rootName M ps h)
  rcases (mem_sitePages h q).mp hq with rfl | ⟨sv, hsv, hq'⟩
  · exact hhome
  · have hS : ∀ p ∈ (categoryPages M sv (homeChain root rootName) [] true root).1, p ∈ ps :=
      fun p hp => (mem_sitePages h p).mpr (.inr ⟨sv, hsv, hp⟩)
    have hstar := hierarchy_star M sv (· ∈ ps) (linksTo ps)
      (fun p q hp hq hdeep hl => linksTo_of_mem_down root rootName M ps h hn p q hp hq hdeep hl)
      root (homeChain root rootName) [] true hS q hq'
    refine Reachable.of_star (Reachable.step hhome ?_) hstar
    obtain ⟨hp0, h0, _, hroots⟩ := home_links_roots root rootName M ps h hn
    have hH : C15.Hierarchy M sv := by cases sv <;> exact hsv
    have e : hp0 = homePage root rootName M := by
      have := homePage_head root rootName M ps h
      rw [h0] at this
      exact Option.some.inj this
    rw [← e]
    exact (hroots sv hH).2 _ (hS _ (headPage_mem ..)) (by rw [headPage_path, catDirs_true])

-- ================================================================ … and nothing else
/-- everything reachable is a page of the site -/
theorem reachable_are_pages (site : List Page) (q : Page) (h : Reachable site q) : q ∈ site := by
  cases h with
  | home h0 => exact List.mem_of_mem_head? h0
  | step _ hl => exact hl.2.1

/-- a crawler that starts at the home page and follows every generated link finds only pages of the site and the
    stylesheet: no generated link leads anywhere else -/
theorem reachable_paths_are_pages (root : Dir) (rootName : Str) (M : Nat) (ps : List Page)
    (h : sitePages root rootName M = .ok ps) (hn : NamesOK root) (hh : NoHtmlDirs root) (hpos : ServingsPositive root) :
    ∀ t, ReachablePath ps t → t ∈ ps.map (·.path) ∨ t = cssPath := by
  intro t ht
  induction ht with
  | home h0 => exact .inl (List.mem_map.mpr ⟨_, List.mem_of_mem_head? h0, rfl⟩)
  | @step p t hp _ hl _ =>
    obtain ⟨l, hl, hf⟩ := hl
    rcases hf with ⟨_, rfl⟩ | ⟨hne, ref, hdec, hres⟩
    · exact .inl (List.mem_map.mpr ⟨p, hp, rfl⟩)
    · rcases every_link_resolves root rootName M ps h hn hh hpos p hp l hl with h0 | ⟨t', ht', ref', hdec', hres'⟩
      · exact absurd h0 hne
      · have : ref = ref' := utf8Bytes_injective _ _ (by rw [← hdec, ← hdec'])
        subst this
        rw [← hres, hres']
        exact ht'

/-- the reachable paths are exactly the page paths and the stylesheet -/
theorem reachable_iff_page (root : Dir) (rootName : Str) (M : Nat) (ps : List Page)
    (h : sitePages root rootName M = .ok ps) (hn : NamesOK root) (hh : NoHtmlDirs root) (hpos : ServingsPositive root) (t : Str) :
    ReachablePath ps t ↔ t ∈ ps.map (·.path) ∨ t = cssPath := by
  constructor
  · exact reachable_paths_are_pages root rootName M ps h hn hh hpos t
  · rintro (ht | rfl)
    · obtain ⟨q, hq, rfl⟩ := List.mem_map.mp ht
      exact (every_page_reachable root rootName M ps h hn q hq).toPath
    · have hhome := homePage_mem root rootName M ps h
      refine ReachablePath.step hhome (ReachablePath.home (homePage_head root rootName M ps h)) ?_
      refine ⟨hrefRelative (homePage root rootName M).path cssPath, (mem_homePage_links ..).mpr (.inl rfl),
        .inr ⟨hrefRelative_ne_anchor _ _, ?_⟩⟩
      have hcss : cssPath = '/' :: joinSlash ["css".toList, "style.css".toList] := by decide
      have hhp : (homePage root rootName M).path = '/' :: joinSlash ["index.html".toList] := by
        show "/index.html".toList = _
        decide
      apply link_resolves _ cssPath ⟨_, hhp, by decide, by decide⟩ ⟨_, hcss, by decide, by decide⟩
      rw [hhp]
      decide

-- ================================================================ non-vacuity: a concrete walk
/-- a two-level tree: `Cakes/Sponge cakes/` holds a scalable recipe and an unscalable one (names with a space and a
    non-ASCII letter, so the links are percent-encoded) -/
def walkTree : Dir :=
  .mk "book".toList none []
    [.mk "Cakes".toList none []
      [.mk "Sponge cakes".toList none
        [⟨"victoria.md".toList, "Victoria sponge".toList, some 2⟩, ⟨"crème.md".toList, "Crème".toList, none⟩] []]]

def walkSite : List Page := match sitePages walkTree "book".toList 2 with | .ok ps => ps | .error _ => []

theorem walkSite_ok : sitePages walkTree "book".toList 2 = .ok walkSite := by
  unfold walkSite
  cases h : sitePages walkTree "book".toList 2 with
  | ok ps => rfl
  | error e =>
    cases e with
    | maxServingsTooLow n =>
      have := (C15.too_many_servings_iff walkTree "book".toList 2).mp ⟨n, h⟩
      exact absurd this (by decide)

/-- executable check that page number `i` of the site carries a link which, decoded and resolved, leads to page number `j` -/
def stepCheck (site : List Page) (i j : Nat) : Bool :=
  i < site.length && j < site.length &&
  (site.getD i default).links.any fun l =>
    l != ['#'] && unquoteBytes l == utf8Bytes (relativePath (site.getD i default).path (site.getD j default).path)
      && resolveRef (site.getD i default).path (relativePath (site.getD i default).path (site.getD j default).path)
          == (site.getD j default).path

theorem getD_mem (site : List Page) (i : Nat) (h : i < site.length) : site.getD i default ∈ site := by
  have : site.getD i default = site[i] := by simp [List.getD, List.getElem?_eq_getElem h]
  rw [this]
  exact List.getElem_mem h

theorem head?_eq_getD (site : List Page) (h : 0 < site.length) : site.head? = some (site.getD 0 default) := by
  cases site with
  | nil => simp at h
  | cons a t => rfl

theorem stepCheck_sound (site : List Page) (i j : Nat) (h : stepCheck site i j = true) :
    linksTo site (site.getD i default) (site.getD j default) := by
  simp only [stepCheck, Bool.and_eq_true, decide_eq_true_eq, List.any_eq_true, bne_iff_ne, beq_iff_eq] at h
  obtain ⟨⟨hi, hj⟩, l, hl, ⟨hne, hdec⟩, hres⟩ := h
  exact ⟨getD_mem site i hi, getD_mem site j hj, l, hl, .inr ⟨hne, _, hdec, hres⟩⟩

/-- the pages of the example site, in order -/
theorem walkSite_paths : walkSite.map (·.path) =
    ["/index.html".toList,
     "/serves1/index.html".toList, "/serves1/Cakes/index.html".toList, "/serves1/Cakes/Sponge cakes/index.html".toList,
     "/serves1/Cakes/Sponge cakes/victoria.html".toList,
     "/serves2/index.html".toList, "/serves2/Cakes/index.html".toList, "/serves2/Cakes/Sponge cakes/index.html".toList,
     "/serves2/Cakes/Sponge cakes/victoria.html".toList,
     "/categories/index.html".toList, "/categories/Cakes/index.html".toList, "/categories/Cakes/Sponge cakes/index.html".toList,
     "/categories/Cakes/Sponge cakes/crème.html".toList] := by decide +kernel

/-- home → `/serves2/` → `/serves2/Cakes/` → `/serves2/Cakes/Sponge cakes/` → the recipe page, and likewise down the
    `categories` hierarchy to the unscalable recipe; the links as written are percent-encoded -/
theorem walk_steps :
    stepCheck walkSite 0 5 = true ∧ stepCheck walkSite 5 6 = true ∧ stepCheck walkSite 6 7 = true ∧ stepCheck walkSite 7 8 = true ∧
    stepCheck walkSite 0 9 = true ∧ stepCheck walkSite 9 10 = true ∧ stepCheck walkSite 10 11 = true ∧ stepCheck walkSite 11 12 = true ∧
    "Sponge%20cakes/index.html".toList ∈ (walkSite.getD 6 default).links ∧
    "cr%C3%A8me.html".toList ∈ (walkSite.getD 11 default).links := by decide +kernel

/-- … hence the recipe page `/serves2/Cakes/Sponge cakes/victoria.html` is reachable, by an explicit path -/
theorem walk_reaches : ∃ q ∈ walkSite, q.path = "/serves2/Cakes/Sponge cakes/victoria.html".toList ∧ Reachable walkSite q := by
  refine ⟨walkSite.getD 8 default, getD_mem _ _ (by decide +kernel), by decide +kernel, ?_⟩
  have h0 : Reachable walkSite (walkSite.getD 0 default) := Reachable.home (head?_eq_getD _ (by decide +kernel))
  obtain ⟨s1, s2, s3, s4, _⟩ := walk_steps
  exact (((h0.step (stepCheck_sound _ _ _ s1)).step (stepCheck_sound _ _ _ s2)).step (stepCheck_sound _ _ _ s3)).step
    (stepCheck_sound _ _ _ s4)

/-- the general theorem applies to the example (its hypothesis holds there) -/
theorem walkTree_namesOK : NamesOK walkTree := by
  have hdirs : ∀ dirs d, C15.DirAt walkTree dirs d →
      dirs = [] ∨ dirs = ["Cakes".toList] ∨ dirs = ["Cakes".toList, "Sponge cakes".toList] := by
    intro dirs d hd
    cases hd with
    | here => exact .inl rfl
    | sub hs hd =>
      simp only [walkTree, Dir.subdirs, List.mem_singleton] at hs
      subst hs
      cases hd with
      | here => exact .inr (.inl rfl)
      | sub hs hd =>
        simp only [Dir.subdirs, List.mem_singleton] at hs
        subst hs
        cases hd with
        | here => exact .inr (.inr rfl)
        | sub hs _ => simp [Dir.subdirs] at hs
  refine ⟨?_, ?_⟩
  · intro dirs d hd s hs
    rcases hdirs dirs d hd with rfl | rfl | rfl
    · cases hs
    · have : s = "Cakes".toList := by simpa using hs
      subst this; unfold SegOK; decide
    · have : s = "Cakes".toList ∨ s = "Sponge cakes".toList := by simpa using hs
      rcases this with rfl | rfl <;> (unfold SegOK; decide)
  · intro dirs r hr
    obtain ⟨d, hd, hrd⟩ := (C15.inTree_iff ..).mp hr
    cases hd with
    | here => simp [walkTree, Dir.recipes] at hrd
    | sub hs hd =>
      simp only [walkTree, Dir.subdirs, List.mem_singleton] at hs
      subst hs
      cases hd with
      | here => simp [Dir.recipes] at hrd
      | sub hs hd =>
        simp only [Dir.subdirs, List.mem_singleton] at hs
        subst hs
        cases hd with
        | here =>
          simp only [Dir.recipes, List.mem_cons, List.not_mem_nil, or_false] at hrd
          rcases hrd with rfl | rfl <;> decide
        | sub hs _ => simp [Dir.subdirs] at hs

example : ∀ q ∈ walkSite, Reachable walkSite q :=
  every_page_reachable walkTree "book".toList 2 walkSite walkSite_ok walkTree_namesOK

-- ================================================================ the hypothesis on names is needed
/-- executable check that no generated link of any page of the site leads to the path `t` (for links whose
    percent-decoding is the link itself, i.e. plain ASCII links) -/
def noLinkCheck (site : List Page) (t : Str) : Bool :=
  site.all fun p => p.links.all fun l =>
    if l == ['#'] then p.path != t else unquoteBytes l == utf8Bytes l && resolveRef p.path l != t

theorem noLinkCheck_sound (site : List Page) (t : Str) (h : noLinkCheck site t = true) : ∀ p ∈ site, ¬ linksToPath p t := by
  rintro p hp ⟨l, hl, hf⟩
  have hc := (List.all_eq_true.mp ((List.all_eq_true.mp h) p hp)) l hl
  rcases hf with ⟨rfl, rfl⟩ | ⟨hne, ref, hdec, hres⟩
  · simp at hc
  · have hne' : (l == ['#']) = false := by simpa using hne
    rw [hne'] at hc
    simp only [Bool.false_eq_true, if_false, Bool.and_eq_true, beq_iff_eq, bne_iff_ne] at hc
    have : ref = l := utf8Bytes_injective _ _ (by rw [← hdec, hc.1])
    subst this
    exact hc.2 hres

/-- a directory named `..` (which no file system allows, and `NamesOK` excludes) gets a category page whose path is not
    in normal form; every link to it resolves elsewhere, so the page is not reachable -/
def dotTree : Dir := .mk "r".toList none [] [.mk "..".toList none [] []]
def dotSite : List Page := match sitePages dotTree "r".toList 1 with | .ok ps => ps | .error _ => []

theorem namesOK_needed : sitePages dotTree "r".toList 1 = .ok dotSite ∧ ∃ q ∈ dotSite, ¬ Reachable dotSite q := by
  constructor
  · unfold dotSite
    cases h : sitePages dotTree "r".toList 1 with
    | ok ps => rfl
    | error e =>
      cases e with
      | maxServingsTooLow n =>
        have := (C15.too_many_servings_iff dotTree "r".toList 1).mp ⟨n, h⟩
        exact absurd this (by decide)
  · refine ⟨dotSite.getD 2 default, getD_mem _ _ (by decide +kernel), ?_⟩
    have hpath : (dotSite.getD 2 default).path = "/serves1/../index.html".toList := by decide +kernel
    intro hr
    cases hr with
    | home h0 =>
      rw [head?_eq_getD _ (by decide +kernel)] at h0
      have := congrArg Page.path (Option.some.inj h0)
      rw [hpath] at this
      revert this
      decide +kernel
    | step _ hl =>
      have hl2 := hl.2.2
      rw [hpath] at hl2
      exact noLinkCheck_sound dotSite _ (by decide +kernel) _ hl.1 hl2

/-- the statement without any hypothesis on names … -/
def every_page_reachable_Full : Prop :=
  ∀ (root : Dir) (rootName : Str) (M : Nat) (ps : List Page), sitePages root rootName M = .ok ps → ∀ q ∈ ps, Reachable ps q

/-- … is false in the model (only for trees no file system can hold; not a defect of the generator) -/
theorem every_page_reachable_Full_false : ¬ every_page_reachable_Full := by
  intro hfull
  obtain ⟨hok, q, hq, hnr⟩ := namesOK_needed
  exact hnr (hfull _ _ _ _ hok q hq)

end RG.C14
