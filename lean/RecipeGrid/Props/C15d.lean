import RecipeGrid.Props.C03e
import RecipeGrid.Props.C15b
import RecipeGrid.Props.C15c
import RecipeGrid.Lemmas.HtmlText
/-! C15 (what a page for n shows): "each page /servesN/<recipe>.html is the recipe scaled by n / servings".
    `website.py` / `standalone_page.py` hand `pageScale (some n) recipe.servings` to `MarkdownRecipe.render`; with
    `RG.C03.renderDoc_template` and `RG.C03.page_numbers_scaled` this says what the page for n consists of and what numbers it shows:
    the written numbers times n / s — exactly for ints and Fractions, as one rounded double product for floats — and on the page for
    n = s the written numbers themselves. -/
namespace RG.C15
open RG RG.C03

/-- the factor of the page for `n` of a recipe stating `s ≠ 0` servings, as a value -/
theorem pageScale_eq (n s : Nat) (hs : s ≠ 0) (k : Num) (hk : pageScale (some n) (some s) = some k) :
    k = ⟨mkRat n s, .frac⟩ := by
  simp [pageScale, hs] at hk
  exact hk.symm

/-- **C15d.1** the page for `n` of a document stating `s ≠ 0` servings: its factor is the Fraction n / s, the page is the document's
    template with every hole filled by its value at that factor (given the side condition of `renderDoc_canonical` for this
    document and factor), and the scaled values it shows are the written ones, every number multiplied by n / s, units unchanged -/
theorem page_for_n (d : MdDoc) (n s : Nat) (hd : d.servings = some s) (hs : s ≠ 0) :
    ∃ k, pageScale (some n) d.servings = some k ∧ k.val = (n : Rat) / (s : Rat) ∧ k.kind = .frac ∧
      shownNums d k (docTemplate d) = (writtenNums d (docTemplate d)).map (scaleShown k) ∧
      (chainOKb (docPh d) (docVals d k) (docTemplate d) = true →
        renderDoc d k = pflatten (docVal d k) (docTemplate d)) := by
  obtain ⟨k, hk, hv, hkind⟩ := pageScale_value n s hs
  exact ⟨k, by rw [hd]; exact hk, hv, hkind, page_numbers_scaled d k _, renderDoc_canonical d k⟩

/-- what multiplying by the page's factor does to a written int or Fraction: the exact product w · n / s, shown as an exact
    number (int × Fraction is a Fraction in Python: no rounding anywhere) -/
theorem page_exact_value (w : Num) (hw : w.kind ≠ .flt) (n s : Nat) (hs : s ≠ 0) (k : Num)
    (hk : pageScale (some n) (some s) = some k) :
    (w.mul k).val = w.val * (n : Rat) / (s : Rat) ∧ (w.mul k).kind = .frac := by
  obtain ⟨k', hk', hv, hkind⟩ := pageScale_value n s hs
  rw [hk] at hk'; cases hk'
  have h1 := (mul_exact w k hw (by simp [hkind])).1
  refine ⟨by rw [h1, hv, Rat.div_def, Rat.div_def, Rat.mul_assoc], ?_⟩
  rw [Num.mul_kind]
  simp [hw, hkind]

/-- … and to a written float: one rounded product of the float and the double nearest to n / s; it stays a float -/
theorem page_float_value (w : Num) (hw : w.kind = .flt) (n s : Nat) (hs : s ≠ 0) (k : Num)
    (hk : pageScale (some n) (some s) = some k) :
    (w.mul k).val = toDouble (w.val * toDouble ((n : Rat) / (s : Rat))) ∧ (w.mul k).kind = .flt := by
  obtain ⟨k', hk', hv, hkind⟩ := pageScale_value n s hs
  rw [hk] at hk'; cases hk'
  have h := mul_float w k (Or.inl hw)
  refine ⟨?_, h.2⟩
  rw [h.1]
  simp [Num.toFlt, Num.isFlt, hw, hkind, hv]

/-- **C15d.2** on the page for the stated count a number is shown exactly as written (floats: when the written float is a double,
    as every parsed float is): multiplying by the Fraction s / s = 1 changes neither the value nor whether it is a float, and the
    text of a number depends on nothing else -/
theorem native_number_shown (w : Num) (hw : w.kind = .flt → IsDouble w.val) (s : Nat) (hs : s ≠ 0) (k : Num)
    (hk : pageScale (some s) (some s) = some k) :
    (w.mul k).val = w.val ∧ (w.mul k).isFlt = w.isFlt ∧ formatNumber (w.mul k) = formatNumber w ∧
      renderNumber (w.mul k) = renderNumber w := by
  obtain ⟨k', hk', hv⟩ := pageScale_native s hs
  rw [hk] at hk'; cases hk'
  have hkind : k.kind = .frac := by rw [pageScale_eq s s hs k hk]
  have hval : (w.mul k).val = w.val := by
    by_cases hf : w.kind = .flt
    · have h := (mul_float w k (Or.inl hf)).1
      have hd : toDouble w.val = w.val := hw hf
      rw [h]
      simp [Num.toFlt, Num.isFlt, hf, hkind, hv, toDouble_one, Rat.mul_one, hd]
    · rw [(mul_exact w k hf (by simp [hkind])).1, hv, Rat.mul_one]
  have hflt : (w.mul k).isFlt = w.isFlt := by
    simp only [Num.isFlt, Num.mul_kind, hkind]
    cases w.kind <;> decide
  refine ⟨hval, hflt, ?_, ?_⟩
  · simp [formatNumber, hval, hflt]
  · simp [renderNumber, formatNumber, hval, hflt]

/-- **C15d.2 (page level)** the page for the stated count shows every written number as written, and carries no "Rescaled" note -/
theorem native_page_shows_written (d : MdDoc) (s : Nat) (hs : s ≠ 0) (k : Num) (hk : pageScale (some s) (some s) = some k)
    (t : List PTok) (hw : WrittenOK d t) :
    (shownNums d k t).map (fun x => (renderNumber x.1, x.2)) = (writtenNums d t).map (fun x => (renderNumber x.1, x.2)) ∧
    postTitleText d k = [] := by
  constructor
  · rw [page_numbers_scaled, List.map_map]
    apply List.map_congr_left
    intro x hx
    simp only [Function.comp, scaleShown]
    rw [(native_number_shown x.1 (hw x hx) s hs k hk).2.2.2]
  · obtain ⟨k', hk', hv⟩ := pageScale_native s hs
    rw [hk] at hk'; cases hk'
    exact header_note_unscaled d k hv

/-- **C15d.3** the count in the heading: the title's "for s" is the scaled value `SVS(s)`; on the page for `n` its hole shows the
    single number s · n / s, written with the plain digits of `n` (`pageScale_count_shown`) -/
theorem heading_count_shown (d : MdDoc) (n s : Nat) (hs : s ≠ 0) (k : Num) (hk : pageScale (some n) (some s) = some k)
    (i : Nat) (ph : Str) (h : d.svs[i]? = some (ph, [.num (Num.ofNat s)])) :
    holeShown d k i = [((Num.ofNat s).mul k, [])] ∧ formatNumber ((Num.ofNat s).mul k) = natDigits n ∧
      docVal d k i = tagBody "span" [("class", S "rg-scaled-value")] (natDigits n) := by
  have hsc : Svs.scale k [.num (Num.ofNat s)] = [.num ((Num.ofNat s).mul k)] := by
    simp [Svs.scale, Svs.normalise, Svs.merge]
  have hfmt := pageScale_count_shown n s hs k hk
  refine ⟨?_, hfmt, ?_⟩
  · simp [holeShown, h, hsc, Svs.shown, Svs.nums]
  · rw [docVal_svs d k i ph _ h, hsc]
    have hd : '/' ∉ natDigits n := by
      intro hc
      have := natDigits_isDigit' n _ hc
      simp [isDigit] at this
    have := renderNumberStr_plain _ hd
    simp [renderSvs, renderNumber, hfmt, this]

-- ================================================================ non-vacuity: "Pie for 4" (`RG.C03.pgDoc`) on the page for 6 and on the page for 4
theorem pg_factor : pageScale (some 6) pgDoc.servings = some pgK := by decide +kernel
example : ∃ k, pageScale (some 6) pgDoc.servings = some k ∧ k.val = 3 / 2 := ⟨pgK, pg_factor, rfl⟩
example := page_for_n pgDoc 6 4 rfl (by decide)
/-- the written 200 (g flour) is 300 on the page for 6, exactly; the written float 2.5 (kg apples) is the double 3.75 -/
example : ((⟨200, .int⟩ : Num).mul pgK).val = 200 * (6 : Rat) / 4 :=
  (page_exact_value ⟨200, .int⟩ (by decide) 6 4 (by decide) pgK pg_factor).1
example : ((⟨5 / 2, .flt⟩ : Num).mul pgK).val = 15 / 4 := by decide +kernel
/-- the page for 4 shows the written numbers and no note -/
theorem pg_native : pageScale (some 4) (some 4) = some ⟨1, .frac⟩ := by decide +kernel
example := native_page_shows_written pgDoc 4 (by decide) _ pg_native (docTemplate pgDoc) pgDoc_writtenOK
/-- the heading of the page for 6 says 6: hole 2 is the title's serving count -/
example := heading_count_shown pgDoc 6 4 (by decide) pgK pg_factor 2 "%S%".toList rfl
example : (holeShown pgDoc pgK 2).map (fun x => formatNumber x.1) = ["6".toList] := by decide +kernel

end RG.C15
