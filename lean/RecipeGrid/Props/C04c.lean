import RecipeGrid.Props.C04
import RecipeGrid.Props.C04b
import RecipeGrid.Props.C02c
import RecipeGrid.Lemmas.Anchors
/-! C04 (continued) — end to end: *the grid a browser forms from the emitted rows, with the classes on each cell, is
    exactly the visible abstract table*, hence the drawing of the recipe can be read back from the HTML rows alone.

    What the HTML says about a cell is the attribute list of its `<td>` (`Attrs`, as the tokenizer of
    `Props/C10b.lean` reads it: `C10.readAttrs`).  From it a browser takes
    * `spansOf`: the `rowspan` and `colspan` attributes, decimal, 1 when absent;
    * `classesOf`: the `class` attribute split at ASCII white space (`C10.wsWords`);
    * `cellSpecOfClasses`: what the style sheet makes of the classes — the kind (`rg-ingredient`, …) and, per side,
      the border (`rg-border-left-sub-recipe`, `rg-border-top-none`, …; the normal border when neither is present).
    `gridOfRows` is the WHATWG table-forming algorithm (`place`, `Props/C04.lean`) applied to the spans;
    `vcellsOfRows` puts position, extent, kind and borders of every cell together (`VCell`, `Lemmas/Readback.lean`).

    * `vcells_of_html`: for every table that tiles its rectangle, `vcellsOfRows (htmlRows T) = some (vis T)` — as
      lists, in the same (raster) order; `vcells_of_html_perm` is the permutation form; `html_grid_is_table` for every
      well-formed tree, `compile_html_grid_is_table` for every tree `compile` returns.
    * `html_readback`: `readback` (`Props/C02b.lean`) of these cells is the drawing of the tree;
      `compile_html_readback` with no hypothesis left; `html_rows_determine_drawing`: two trees whose emitted rows carry
      the same spans and classes have the same drawing.
    * the string level: `renderTable_lines` / `renderTable_tokens` / `renderTable_tags` — the text of a rendered table
      is `<table>`, per emitted row a `<tr>`, per cell a `<td>` with the attributes `cellAttrs` around the cell's
      body, as lines the tokenizer of `Props/C10b.lean` understands; `html_string_level`: the `<td>` tokens of
      `tokens (renderRecipeTree pre t)`, grouped by `<tr>` (`rowsOfTokens`), carry exactly the attribute lists
      `htmlRows (layout t)`; hence `html_string_grid_is_table`, `html_string_readback`,
      `compile_html_string_readback`: the drawing is read back from the rendered text alone.  Hypothesis `PageOK`:
      every cell body is one-line text in the sense of `CellOK` (`Props/C04b.lean`) without any `str.splitlines`
      line break (the table re-indents the bodies), or an output list of such names.  The unconditional statement
      is `html_string_level_Full` (a `def … : Prop`, not proved). -/
namespace RG.C04
open RG.C02 (vis Drawing drawing readback multiOnlyAtRoot)

-- ================================================================ the specification: reading a `<td>`
/-- the attributes of an element, as the tokenizer reads them -/
abbrev Attrs := List (Str × Str)

/-- the value of the attribute `n` (the first, as in HTML) -/
def attr? (n : String) (as : Attrs) : Option Str := (as.find? fun a => a.1 = S n).map (·.2)

/-- a span attribute: its decimal value, 1 when absent -/
def spanOf (n : String) (as : Attrs) : Nat := ((attr? n as).map digitsVal).getD 1

/-- (rowspan, colspan) -/
def spansOf (as : Attrs) : Nat × Nat := (spanOf "rowspan" as, spanOf "colspan" as)

/-- the classes: the `class` attribute split at ASCII white space -/
def classesOf (as : Attrs) : List Str := C10.wsWords ((attr? "class" as).getD [])

/-- the kind a class stands for -/
def kindOfClass (c : Str) : Option CellKind :=
  [CellKind.ingredient, .reference, .step, .header, .outputs].find? fun k => S k.cls = c

def sideName : C02.Side → String
  | .left => "left" | .right => "right" | .top => "top" | .bottom => "bottom"

/-- the class that gives side `s` the border `b` -/
def borderClassStr (s : C02.Side) (b : Border) : Str := S ("rg-border-" ++ sideName s ++ "-" ++ b.cls)

/-- the border of side `s` under the style sheet: sub-recipe or none when the class is present, else normal -/
def sideBorder (s : C02.Side) (cls : List Str) : Border :=
  if borderClassStr s .subRecipe ∈ cls then .subRecipe
  else if borderClassStr s .none ∈ cls then .none else .normal

/-- kind and borders (left, right, top, bottom) from the classes of a cell; `none` without a kind class -/
def cellSpecOfClasses (cls : List Str) : Option (CellKind × Border × Border × Border × Border) :=
  (cls.findSome? kindOfClass).map fun k =>
    (k, sideBorder .left cls, sideBorder .right cls, sideBorder .top cls, sideBorder .bottom cls)

/-- all or nothing -/
def allSome {α : Type} : List (Option α) → Option (List α)
  | [] => some []
  | none :: _ => none
  | some a :: rest => (allSome rest).map (a :: ·)

/-- the grid a browser forms: the table-forming algorithm on the spans; per cell (row, col, rows, cols), in
    source order -/
def gridOfRows (rows : List (List Attrs)) : List (Nat × Nat × Nat × Nat) := place (rows.map (·.map spansOf))

/-- what a browser takes from a `<td>`: its spans and its classes -/
def tdSpec (as : Attrs) : (Nat × Nat) × List Str := (spansOf as, classesOf as)

/-- the visible cell at a placed position with the given classes -/
def vcellAt (p : Nat × Nat × Nat × Nat) (cls : List Str) : Option VCell :=
  (cellSpecOfClasses cls).map fun x =>
    ⟨p.1, p.2.1, p.2.2.1, p.2.2.2, x.1, x.2.1, x.2.2.1, x.2.2.2.1, x.2.2.2.2⟩

/-- the visible cells of a `<table>` given by the attribute lists of its `<td>`s, row by row: every cell at the
    position the table-forming algorithm gives it, with the kind and borders its classes give it; `none` if some
    cell has no kind class -/
def vcellsOfRows (rows : List (List Attrs)) : Option (List VCell) :=
  allSome (((gridOfRows rows).zip (rows.flatten.map classesOf)).map fun x => vcellAt x.1 x.2)

/-- the attribute lists the renderer writes (`renderTable`: one `<tr>` per row of `emitRows`, one `<td>` with
    `cellAttrs` per cell) -/
def htmlRows (T : Tbl) : List (List Attrs) := (emitRows T).map (·.map fun c => C10.readAttrs (cellAttrs c))

-- ================================================================ one cell
theorem allSome_map_some {α β : Type} (f : α → Option β) (g : α → β) (l : List α) (h : ∀ a ∈ l, f a = some (g a)) :
    allSome (l.map f) = some (l.map g) := by
  induction l with
  | nil => rfl
  | cons a l ih =>
    simp only [List.map_cons, h a (List.mem_cons_self ..), allSome, ih fun b hb => h b (List.mem_cons_of_mem _ hb),
      Option.map_some]

private theorem attr_class (c : PCell) :
    attr? "class" (C10.readAttrs (cellAttrs c)) = some (S (" ".intercalate (cellClasses c))) := rfl

private theorem attr_rowspan (c : PCell) :
    attr? "rowspan" (C10.readAttrs (cellAttrs c)) = if c.rows ≠ 1 then some (natDigits c.rows) else none := by
  have e1 : (S "class" = S "rowspan") = False := by decide
  have e2 : (S "colspan" = S "rowspan") = False := by decide
  by_cases h1 : c.cols = 1 <;> by_cases h2 : c.rows = 1 <;>
    simp [attr?, C10.readAttrs, cellAttrs, h1, h2, e1, e2]

private theorem attr_colspan (c : PCell) :
    attr? "colspan" (C10.readAttrs (cellAttrs c)) = if c.cols ≠ 1 then some (natDigits c.cols) else none := by
  have e1 : (S "class" = S "colspan") = False := by decide
  have e2 : (S "rowspan" = S "colspan") = False := by decide
  by_cases h1 : c.cols = 1 <;> by_cases h2 : c.rows = 1 <;>
    simp [attr?, C10.readAttrs, cellAttrs, h1, h2, e1, e2]

/-- the span attributes a cell is written with read back as its extent -/
theorem spansOf_cellAttrs (c : PCell) : spansOf (C10.readAttrs (cellAttrs c)) = (c.rows, c.cols) := by
  simp only [spansOf, spanOf, attr_rowspan, attr_colspan]
  by_cases h1 : c.cols = 1 <;> by_cases h2 : c.rows = 1 <;> simp [h1, h2, digitsVal_natDigits]

-- ---------------------------------------------------------------- splitting the class attribute
private theorem wsWordsAux_word (w : Str) (hw : ∀ c ∈ w, C10.isAsciiWs c = false) :
    ∀ cur : Str, cur ≠ [] ∨ w ≠ [] → C10.wsWordsAux cur w = [cur.reverse ++ w] := by
  induction w with
  | nil =>
    intro cur h
    have : cur ≠ [] := by rcases h with h | h; exact h; exact absurd rfl h
    cases cur with
    | nil => exact absurd rfl this
    | cons a as => simp [C10.wsWordsAux]
  | cons c w ih =>
    intro cur _
    have hc : C10.isAsciiWs c = false := hw c (List.mem_cons_self ..)
    rw [C10.wsWordsAux]
    simp only [hc, Bool.false_eq_true, if_false]
    rw [ih (fun x hx => hw x (List.mem_cons_of_mem _ hx)) (c :: cur) (Or.inl (by simp))]
    simp

/-- a word: not empty, no ASCII white space -/
def IsWord (w : Str) : Prop := w ≠ [] ∧ ∀ c ∈ w, C10.isAsciiWs c = false

instance (w : Str) : Decidable (IsWord w) := by unfold IsWord; infer_instance

theorem wsWords_word (w : Str) (h : IsWord w) : C10.wsWords w = [w] := by
  have := wsWordsAux_word w h.2 [] (Or.inr h.1)
  simpa [C10.wsWords] using this

/-- words joined by single spaces split into the words -/
theorem wsWords_intercalate : ∀ ws : List Str, (∀ w ∈ ws, IsWord w) → C10.wsWords ((S " ").intercalate ws) = ws
  | [], _ => by simp [List.intercalate, C10.wsWords_nil]
  | [w], h => by
    have : (S " ").intercalate [w] = w := by simp [List.intercalate]
    rw [this]; exact wsWords_word w (h w (List.mem_cons_self ..))
  | w :: w' :: ws, h => by
    rw [List.intercalate_cons_cons]
    have ih := wsWords_intercalate (w' :: ws) fun x hx => h x (List.mem_cons_of_mem _ hx)
    have hrun : C10.IsWsRun (S " ") := ⟨by decide, by decide⟩
    have := C10.wsWords_append_run w (S " ") ((S " ").intercalate (w' :: ws)) hrun
    rw [this, ih, wsWords_word w (h w (List.mem_cons_self ..))]
    rfl

private theorem kind_isWord (k : CellKind) : IsWord (S k.cls) := by cases k <;> decide
private theorem border_isWord (s : C02.Side) (b : Border) : IsWord (borderClassStr s b) := by
  cases s <;> cases b <;> decide

/-- the classes of a cell at the level of character lists: the kind class, then one class per side whose border is
    not the normal one -/
theorem cellClasses_map_S (c : PCell) :
    (cellClasses c).map S = S c.kind.cls ::
      [(C02.Side.left, c.bl), (.right, c.br), (.top, c.bt), (.bottom, c.bb)].filterMap fun p =>
        if p.2 = .normal then none else some (borderClassStr p.1 p.2) := by
  simp only [cellClasses, List.map_cons, List.filterMap_cons, List.filterMap_nil]
  by_cases h1 : c.bl = .normal <;> by_cases h2 : c.br = .normal <;> by_cases h3 : c.bt = .normal <;>
    by_cases h4 : c.bb = .normal <;> simp [h1, h2, h3, h4, borderClassStr, sideName]

theorem cellClasses_words (c : PCell) : ∀ w ∈ (cellClasses c).map S, IsWord w := by
  rw [cellClasses_map_S]
  intro w hw
  simp only [List.mem_cons, List.mem_filterMap] at hw
  rcases hw with rfl | ⟨p, _, hp⟩
  · exact kind_isWord _
  · split at hp
    · cases hp
    · cases hp; exact border_isWord _ _

/-- the `class` attribute a cell is written with splits into its classes -/
theorem classesOf_cellAttrs (c : PCell) : classesOf (C10.readAttrs (cellAttrs c)) = (cellClasses c).map S := by
  simp only [classesOf, attr_class, Option.getD_some, S, String.toList_intercalate]
  exact wsWords_intercalate _ (cellClasses_words c)

-- ---------------------------------------------------------------- what the classes say
/-- decoding of a border class, used only to tell the classes apart -/
private def borderOfClass (c : Str) : Option (C02.Side × Border) :=
  [(C02.Side.left, Border.none), (.left, .subRecipe), (.right, .none), (.right, .subRecipe),
   (.top, .none), (.top, .subRecipe), (.bottom, .none), (.bottom, .subRecipe)].find? fun p =>
    borderClassStr p.1 p.2 = c

private theorem borderOfClass_str (s : C02.Side) (b : Border) (hb : b ≠ .normal) :
    borderOfClass (borderClassStr s b) = some (s, b) := by
  cases s <;> cases b <;> first | exact absurd rfl hb | decide

private theorem borderOfClass_kind (k : CellKind) : borderOfClass (S k.cls) = none := by cases k <;> decide

private theorem kindOfClass_kind (k : CellKind) : kindOfClass (S k.cls) = some k := by cases k <;> decide

private theorem borderClassStr_mem (c : PCell) (s : C02.Side) (b : Border) (hb : b ≠ .normal) :
    borderClassStr s b ∈ (cellClasses c).map S ↔
      (s, b) ∈ [(C02.Side.left, c.bl), (.right, c.br), (.top, c.bt), (.bottom, c.bb)] := by
  rw [cellClasses_map_S, List.mem_cons, List.mem_filterMap]
  constructor
  · rintro (h | ⟨p, hp, hq⟩)
    · have := borderOfClass_kind c.kind
      rw [← h, borderOfClass_str s b hb] at this
      cases this
    · split at hq
      · cases hq
      · rename_i hn
        simp only [Option.some.injEq] at hq
        have := borderOfClass_str p.1 p.2 hn
        rw [hq, borderOfClass_str s b hb] at this
        simp only [Option.some.injEq] at this
        rw [this]; exact hp
  · intro h
    exact Or.inr ⟨(s, b), h, by simp [hb]⟩

private theorem sideBorder_cellClasses (c : PCell) (s : C02.Side) :
    sideBorder s ((cellClasses c).map S) = C02.border c s := by
  unfold sideBorder
  simp only [borderClassStr_mem c s .subRecipe (by decide), borderClassStr_mem c s .none (by decide)]
  cases s <;> simp only [List.mem_cons, Prod.mk.injEq, List.not_mem_nil, or_false, C02.border]
  · cases c.bl <;> simp
  · cases c.br <;> simp
  · cases c.bt <;> simp
  · cases c.bb <;> simp

/-- **the classes of a cell say its kind and its four borders** (`cell_classes` read backwards) -/
theorem cellSpec_cellClasses (c : PCell) :
    cellSpecOfClasses ((cellClasses c).map S) = some (c.kind, c.bl, c.br, c.bt, c.bb) := by
  unfold cellSpecOfClasses
  simp only [sideBorder_cellClasses, C02.border]
  rw [cellClasses_map_S, List.findSome?_cons, kindOfClass_kind]
  rfl

/-- the classes a cell is written with, put at the cell's own position, give the visible cell -/
theorem vcellAt_cellClasses (c : PCell) :
    vcellAt (c.row, c.col, c.rows, c.cols) ((cellClasses c).map S) = some c.vis := by
  simp only [vcellAt, cellSpec_cellClasses, Option.map_some, PCell.vis]

-- ================================================================ the whole table
private theorem rasterTiled' {T : Tbl} (h : C02.Tiles T) : Place.RasterTiled (rasterSort T.cells) T.h T.w :=
  ⟨rasterSort_sorted _, fun x hx => h.ok x ((rasterSort_perm _).mem_iff.1 hx),
   fun r c hr hc => ((rasterSort_perm T.cells).countP_eq _).trans (h.one r c hr hc)⟩

/-- the rows, one after the other, are the cells in raster order -/
theorem flatten_emitRows_eq {T : Tbl} (h : C02.Tiles T) : (emitRows T).flatten = rasterSort T.cells :=
  Place.flatten_rows_eq (rasterTiled' h)

/-- what a browser takes from the rows as written: the extent and the classes of every cell -/
theorem htmlRows_tdSpec (T : Tbl) :
    (htmlRows T).map (·.map tdSpec) = (emitRows T).map (·.map fun c => ((c.rows, c.cols), (cellClasses c).map S)) := by
  simp [htmlRows, tdSpec, List.map_map, Function.comp_def, spansOf_cellAttrs, classesOf_cellAttrs]

theorem htmlRows_spans (T : Tbl) :
    (htmlRows T).map (·.map spansOf) = (emitRows T).map (·.map fun c => (c.rows, c.cols)) := by
  simp [htmlRows, List.map_map, Function.comp_def, spansOf_cellAttrs]

theorem htmlRows_classes (T : Tbl) :
    (htmlRows T).flatten.map classesOf = (emitRows T).flatten.map fun c => (cellClasses c).map S := by
  simp [htmlRows, List.map_flatten, List.map_map, Function.comp_def, classesOf_cellAttrs]

/-- **C04.1 on the attributes as written**: the grid a browser forms from the emitted rows puts every cell at its
    own position with its own extent -/
theorem gridOfRows_html (T : Tbl) (h : C02.Tiles T) :
    gridOfRows (htmlRows T) = (rasterSort T.cells).map fun c => (c.row, c.col, c.rows, c.cols) := by
  rw [gridOfRows, htmlRows_spans, place_emit T h, flatten_emitRows_eq h]

/-- **the grid a browser forms, with the classes on each cell, is exactly the visible abstract table** -/
theorem vcells_of_html (T : Tbl) (h : C02.Tiles T) : vcellsOfRows (htmlRows T) = some (vis T) := by
  unfold vcellsOfRows
  rw [gridOfRows_html T h, htmlRows_classes, flatten_emitRows_eq h, List.zip_map', List.map_map]
  exact allSome_map_some _ PCell.vis _ fun c _ => vcellAt_cellClasses c

/-- the same up to the order of the cells: the visible cells of the table, as the layout lists them -/
theorem vcells_of_html_perm (T : Tbl) (h : C02.Tiles T) :
    ∃ cells, vcellsOfRows (htmlRows T) = some cells ∧ cells.Perm (T.cells.map PCell.vis) :=
  ⟨_, vcells_of_html T h, (rasterSort_perm T.cells).map _⟩

/-- for every well-formed recipe tree -/
theorem html_grid_is_table (t : Tree) (h : C02.wf t = true) :
    vcellsOfRows (htmlRows (layout t)) = some (vis (layout t)) :=
  vcells_of_html _ (C02.layout_tiles t h)

/-- for every tree `compile` returns, with no hypothesis left -/
theorem compile_html_grid_is_table (srcs : List Str) (bs : List Block) (h : compile srcs = .ok bs) :
    ∀ b ∈ bs, ∀ t ∈ b, vcellsOfRows (htmlRows (layout t)) = some (vis (layout t)) :=
  fun b hb t ht => html_grid_is_table t (C02.compile_wf srcs bs h b hb t ht).1

-- ================================================================ read-back from the HTML rows
/-- the drawing read from the attribute lists of the `<td>`s of a table -/
def readbackRows (rows : List (List Attrs)) : Option Drawing := (vcellsOfRows rows).bind readback

/-- **the drawing of the recipe can be read back from the emitted HTML rows alone** -/
theorem html_readback (t : Tree) (hw : C02.wf t = true) (hm : multiOnlyAtRoot t) :
    readbackRows (htmlRows (layout t)) = some (drawing t) := by
  rw [readbackRows, html_grid_is_table t hw, Option.bind_some, C02.readback_layout t hw hm]

/-- the same from the cells in any order (`readback_cells`) -/
theorem html_readback_perm (t : Tree) (hw : C02.wf t = true) (hm : multiOnlyAtRoot t) (cells cells' : List VCell)
    (h : vcellsOfRows (htmlRows (layout t)) = some cells) (hp : cells'.Perm cells) :
    readback cells' = some (drawing t) := by
  obtain ⟨c2, h2, hp2⟩ := vcells_of_html_perm _ (C02.layout_tiles t hw)
  rw [h] at h2
  cases h2
  exact C02.readback_cells t hw hm cells' (hp.trans hp2)

/-- for every tree `compile` returns, with no hypothesis left -/
theorem compile_html_readback (srcs : List Str) (bs : List Block) (h : compile srcs = .ok bs) :
    ∀ b ∈ bs, ∀ t ∈ b, readbackRows (htmlRows (layout t)) = some (drawing t) :=
  fun b hb t ht =>
    html_readback t (C02.compile_wf srcs bs h b hb t ht).1 (C02.compile_wf srcs bs h b hb t ht).2

/-- `vcellsOfRows` looks at the spans and the classes only -/
theorem vcellsOfRows_congr (rows₁ rows₂ : List (List Attrs))
    (h : rows₁.map (·.map tdSpec) = rows₂.map (·.map tdSpec)) : vcellsOfRows rows₁ = vcellsOfRows rows₂ := by
  have h1 : rows₁.map (·.map spansOf) = rows₂.map (·.map spansOf) := by
    have := congrArg (fun l => l.map (·.map Prod.fst)) h
    simpa [List.map_map, Function.comp_def, tdSpec] using this
  have h2 : rows₁.flatten.map classesOf = rows₂.flatten.map classesOf := by
    have := congrArg (fun l => (l.map (·.map Prod.snd)).flatten) h
    simpa [List.map_map, List.map_flatten, Function.comp_def, tdSpec] using this
  unfold vcellsOfRows gridOfRows
  rw [h1, h2]

/-- **two trees whose emitted rows carry the same spans and classes have the same drawing** -/
theorem html_rows_determine_drawing (t₁ t₂ : Tree) (h₁ : C02.wf t₁ = true) (h₂ : C02.wf t₂ = true)
    (m₁ : multiOnlyAtRoot t₁) (m₂ : multiOnlyAtRoot t₂)
    (h : (htmlRows (layout t₁)).map (·.map tdSpec) = (htmlRows (layout t₂)).map (·.map tdSpec)) :
    drawing t₁ = drawing t₂ := by
  have e := vcellsOfRows_congr _ _ h
  rw [html_grid_is_table t₁ h₁, html_grid_is_table t₂ h₂] at e
  exact C02.table_determines_drawing t₁ t₂ h₁ h₂ m₁ m₂ (Option.some.inj e)

/-- the same on the abstract rows: same extents and same class lists, row by row -/
theorem emitted_rows_determine_drawing (t₁ t₂ : Tree) (h₁ : C02.wf t₁ = true) (h₂ : C02.wf t₂ = true)
    (m₁ : multiOnlyAtRoot t₁) (m₂ : multiOnlyAtRoot t₂)
    (h : (emitRows (layout t₁)).map (·.map fun c => (c.rows, c.cols, cellClasses c)) =
         (emitRows (layout t₂)).map (·.map fun c => (c.rows, c.cols, cellClasses c))) :
    drawing t₁ = drawing t₂ := by
  apply html_rows_determine_drawing t₁ t₂ h₁ h₂ m₁ m₂
  rw [htmlRows_tdSpec, htmlRows_tdSpec]
  have := congrArg (fun l : List (List (Nat × Nat × List String)) =>
    l.map (·.map fun x => ((x.1, x.2.1), x.2.2.map S))) h
  simpa [List.map_map, Function.comp_def] using this

/-- and conversely the drawing determines what is written (spans and classes) -/
theorem drawing_determines_html_rows (t₁ t₂ : Tree) (h₁ : C02.wf t₁ = true) (h₂ : C02.wf t₂ = true)
    (m₁ : multiOnlyAtRoot t₁) (m₂ : multiOnlyAtRoot t₂) (h : drawing t₁ = drawing t₂) :
    vcellsOfRows (htmlRows (layout t₁)) = vcellsOfRows (htmlRows (layout t₂)) := by
  rw [html_grid_is_table t₁ h₁, html_grid_is_table t₂ h₂, C02.drawing_determines_table t₁ t₂ h₁ h₂ m₁ m₂ h]

-- ================================================================ the string level
section StringLevel
open RG.C10

/-- the body of an element as lines the line machinery of `Props/C10b.lean` understands: at most one line that is a
    fragment without a line break, or two or more valid lines (`Line.Valid`: a fragment, no line break, ends in a
    non-space) -/
structure BodyLines (body : Str) (ls : List Line) : Prop where
  str : body = linesStr ls
  ok : (ls.length < 2 ∧ Frag (linesStr ls) (linesToks ls) ∧ NoBreak (linesStr ls)) ∨
       (2 ≤ ls.length ∧ ∀ l ∈ ls, l.Valid)

theorem BodyLines.of_valid (ls : List Line) (h : ∀ l ∈ ls, l.Valid) : BodyLines (linesStr ls) ls := by
  refine ⟨rfl, ?_⟩
  by_cases h2 : 2 ≤ ls.length
  · exact Or.inr ⟨h2, h⟩
  · exact Or.inl ⟨by omega, linesFrag ls h, linesStr_noBreak_single ls h h2⟩

theorem BodyLines.single {body : Str} {ts : List Token} (hf : Frag body ts) (hb : NoBreak body) :
    BodyLines body [(body, ts)] :=
  ⟨by simp [linesStr, joinNl_singleton], Or.inl ⟨by simp, by simpa [linesStr, joinNl_singleton, linesToks] using hf,
    by simpa [linesStr, joinNl_singleton] using hb⟩⟩

/-- `tagBody` around such a body, as lines -/
theorem tagLines_str' (tag : String) (attrs : List (String × Str)) {body : Str} {ls : List Line}
    (h : BodyLines body ls) : tagBody tag attrs body = linesStr (tagLines tag attrs ls) := by
  rw [h.str]
  unfold tagLines
  rcases h.ok with ⟨h1, _, _⟩ | ⟨h2, hv⟩
  · have : ¬ 2 ≤ ls.length := by omega
    simp [this, linesStr, joinNl_singleton, tagLine]
  · simp only [h2, if_true]; exact tagBody_lines tag attrs ls h2 hv

/-- … which are valid lines -/
theorem tagLines_valid' (tag : String) (attrs : List (String × Str)) {body : Str} {ls : List Line} (ht : IsName tag)
    (ha : ∀ x ∈ attrs, IsName x.1 ∧ NoBreak x.2) (h : BodyLines body ls) : ∀ l ∈ tagLines tag attrs ls, l.Valid := by
  unfold tagLines
  rcases h.ok with ⟨h1, hf, hb⟩ | ⟨h2, hv⟩
  · have : ¬ 2 ≤ ls.length := by omega
    simp only [this, if_false]
    intro l hl
    simp only [List.mem_singleton] at hl
    subst hl
    exact tagLine_valid tag attrs _ ht ha hf hb
  · simp only [h2, if_true]; exact wrapLines_valid tag attrs ls ht ha hv

theorem joinNl_append (a b : List Str) (ha : a ≠ []) (hb : b ≠ []) :
    joinNl (a ++ b) = joinNl a ++ '\n' :: joinNl b := by
  induction a with
  | nil => exact absurd rfl ha
  | cons x a ih =>
    cases a with
    | nil =>
      cases b with
      | nil => exact absurd rfl hb
      | cons y b => simp [joinNl_cons_cons, joinNl_singleton]
    | cons x' a =>
      have := ih (by simp)
      rw [List.cons_append, List.cons_append, joinNl_cons_cons, ← List.cons_append, this, joinNl_cons_cons]
      simp

theorem linesStr_append (a b : List Line) (ha : a ≠ []) (hb : b ≠ []) :
    linesStr (a ++ b) = linesStr a ++ '\n' :: linesStr b := by
  simp only [linesStr, List.map_append]
  exact joinNl_append _ _ (by simpa using ha) (by simpa using hb)

/-- pieces that are lines each, joined by newlines, are the lines of all of them -/
theorem joinNl_linesStr (xs : List (List Line)) (h : ∀ x ∈ xs, x ≠ []) :
    joinNl (xs.map linesStr) = linesStr xs.flatten := by
  induction xs with
  | nil => rfl
  | cons x xs ih =>
    have hx : x ≠ [] := h x (List.mem_cons_self ..)
    have ih' := ih fun y hy => h y (List.mem_cons_of_mem _ hy)
    cases xs with
    | nil => simp [joinNl_singleton]
    | cons y ys =>
      have hy : y ≠ [] := h y (List.mem_cons_of_mem _ (List.mem_cons_self ..))
      have hne : (y :: ys).flatten ≠ [] := by
        cases y with
        | nil => exact absurd rfl hy
        | cons l y' => simp
      rw [List.map_cons, List.map_cons, joinNl_cons_cons, ← List.map_cons, ih']
      have e : (x :: y :: ys).flatten = x ++ (y :: ys).flatten := List.flatten_cons
      rw [e, linesStr_append x _ hx hne]

-- ---------------------------------------------------------------- the tags of lines
/-- the tags of a token list, in order (texts dropped) -/
def tagsOf (ts : List Token) : List Token := ts.filter fun | .text _ => false | _ => true

@[simp] theorem tagsOf_nil : tagsOf [] = [] := rfl
@[simp] theorem tagsOf_text (t : Str) (ts : List Token) : tagsOf (.text t :: ts) = tagsOf ts := rfl
@[simp] theorem tagsOf_open (k : Str) (as : List (Str × Str)) (ts : List Token) :
    tagsOf (.open k as :: ts) = .open k as :: tagsOf ts := rfl
@[simp] theorem tagsOf_close (k : Str) (ts : List Token) : tagsOf (.close k :: ts) = .close k :: tagsOf ts := rfl
@[simp] theorem tagsOf_append (a b : List Token) : tagsOf (a ++ b) = tagsOf a ++ tagsOf b := by simp [tagsOf]

theorem tagsOf_flushT (t : Str) : tagsOf (flushT t) = [] := by unfold flushT; split <;> rfl

theorem tagsOf_emitted (acc : Str) (ts : List Token) : tagsOf (emitted acc ts) = tagsOf ts := by
  induction ts generalizing acc with
  | nil => rfl
  | cons k ts ih => cases k <;> simp [emitted, ih, tagsOf_flushT]

/-- merging texts keeps the tags -/
theorem tagsOf_norm (ts : List Token) : tagsOf (norm ts) = tagsOf ts := by
  simp [norm, tagsOf_emitted, tagsOf_flushT]

/-- hence all token lists a string denotes have the same tags: those of its tokens -/
theorem tagsOf_of_frag {s : Str} {ts : List Token} (h : Frag s ts) : tagsOf (tokens s) = tagsOf ts := by
  rw [tokens_of_frag h, tagsOf_norm]

theorem tagsOf_linesToks (ls : List Line) : tagsOf (linesToks ls) = ls.flatMap fun l => tagsOf l.2 := by
  induction ls with
  | nil => rfl
  | cons a ls ih =>
    cases ls with
    | nil => simp [linesToks]
    | cons b ls => simp only [linesToks, tagsOf_append, tagsOf_text, List.flatMap_cons] at ih ⊢; rw [ih]

/-- an element around lines: its open tag, the tags of the lines, its close tag -/
theorem tagsOf_tagLines (tag : String) (attrs : List (String × Str)) (ls : List Line) :
    tagsOf (linesToks (tagLines tag attrs ls)) =
      .open (S tag) (readAttrs attrs) :: tagsOf (linesToks ls) ++ [.close (S tag)] := by
  unfold tagLines
  split
  · simp [tagsOf_linesToks, wrapLines, Line.indent, List.flatMap_map]
  · simp [linesToks, tagLine]

-- ---------------------------------------------------------------- the table, as lines
private theorem intercalate_noBreak : ∀ ws : List Str, (∀ w ∈ ws, NoBreak w) → NoBreak ((S " ").intercalate ws)
  | [], _ => by simp [List.intercalate, NoBreak]
  | [w], h => by
    have : (S " ").intercalate [w] = w := by simp [List.intercalate]
    rw [this]; exact h w (List.mem_cons_self ..)
  | w :: w' :: ws, h => by
    rw [List.intercalate_cons_cons]
    exact ((h w (List.mem_cons_self ..)).append (by decide)).append
      (intercalate_noBreak (w' :: ws) fun x hx => h x (List.mem_cons_of_mem _ hx))

private theorem kind_noBreak (k : CellKind) : NoBreak (S k.cls) := by cases k <;> decide
private theorem border_noBreak (s : C02.Side) (b : Border) : NoBreak (borderClassStr s b) := by
  cases s <;> cases b <;> decide

theorem cellClasses_noBreak (c : PCell) : NoBreak (S (" ".intercalate (cellClasses c))) := by
  simp only [S, String.toList_intercalate]
  apply intercalate_noBreak
  have e : (cellClasses c).map String.toList = (cellClasses c).map S := rfl
  rw [e, cellClasses_map_S c]
  intro w hw
  simp only [List.mem_cons, List.mem_filterMap] at hw
  rcases hw with rfl | ⟨p, _, hp⟩
  · exact kind_noBreak _
  · split at hp
    · cases hp
    · cases hp; exact border_noBreak _ _

/-- the attributes of a `<td>` have proper names and one-line values -/
theorem cellAttrs_ok (c : PCell) : ∀ x ∈ cellAttrs c, IsName x.1 ∧ NoBreak x.2 := by
  intro x hx
  simp only [cellAttrs, List.mem_append, List.mem_singleton] at hx
  rcases hx with (rfl | hx) | hx
  · exact ⟨(by decide : IsName "class"), cellClasses_noBreak c⟩
  · split at hx
    · simp only [List.mem_singleton] at hx; subst hx
      exact ⟨(by decide : IsName "colspan"), noBreak_numChars (natDigits_numChars _)⟩
    · cases hx
  · split at hx
    · simp only [List.mem_singleton] at hx; subst hx
      exact ⟨(by decide : IsName "rowspan"), noBreak_numChars (natDigits_numChars _)⟩
    · cases hx

/-- the lines of a `<td>` around the lines `bl` of its body -/
noncomputable def tdLines (c : PCell) (bl : List Line) : List Line := tagLines "td" (cellAttrs c) bl
/-- the lines of a `<tr>` -/
noncomputable def trLines (bl : PCell → List Line) (row : List PCell) : List Line :=
  tagLines "tr" [] (row.flatMap fun c => tdLines c (bl c))
/-- the lines of the `<table>` -/
noncomputable def tableLines (attrs : List (String × Str)) (bl : PCell → List Line) (rows : List (List PCell)) :
    List Line :=
  tagLines "table" attrs (rows.flatMap (trLines bl))

theorem isName_td : IsName "td" := by decide
theorem isName_tr : IsName "tr" := by decide
theorem isName_table : IsName "table" := by decide

theorem joinNl_map_lines {α : Type} (xs : List α) (f : α → Str) (g : α → List Line) (hg : ∀ x ∈ xs, g x ≠ [])
    (h : ∀ x ∈ xs, f x = linesStr (g x)) : joinNl (xs.map f) = linesStr (xs.flatMap g) := by
  have e : xs.map f = (xs.map g).map linesStr := by
    rw [List.map_map]; exact List.map_congr_left h
  rw [e, joinNl_linesStr _ (by intro y hy; obtain ⟨x, hx, rfl⟩ := List.mem_map.1 hy; exact hg x hx), List.flatMap_def]

theorem valid_flatMap {α : Type} (xs : List α) (g : α → List Line) (h : ∀ x ∈ xs, ∀ l ∈ g x, l.Valid) :
    ∀ l ∈ xs.flatMap g, l.Valid := by
  intro l hl
  obtain ⟨x, hx, hl⟩ := List.mem_flatMap.1 hl
  exact h x hx l hl

/-- one row: the `<tr>` is the lines `trLines`, all valid -/
theorem tr_lines (body : PCell → Str) (bl : PCell → List Line) (row : List PCell)
    (hb : ∀ c ∈ row, BodyLines (body c) (bl c)) :
    tagBody "tr" [] (joinNl (row.map fun c => tagBody "td" (cellAttrs c) (body c))) = linesStr (trLines bl row) ∧
      ∀ l ∈ trLines bl row, l.Valid := by
  have hv : ∀ l ∈ row.flatMap fun c => tdLines c (bl c), l.Valid :=
    valid_flatMap row _ fun c hc => tagLines_valid' "td" (cellAttrs c) isName_td (cellAttrs_ok c) (hb c hc)
  have e : joinNl (row.map fun c => tagBody "td" (cellAttrs c) (body c)) =
      linesStr (row.flatMap fun c => tdLines c (bl c)) :=
    joinNl_map_lines row _ _ (fun c _ => tagLines_ne_nil _ _ _) fun c hc => tagLines_str' "td" (cellAttrs c) (hb c hc)
  have hB := BodyLines.of_valid _ hv
  rw [e]
  exact ⟨tagLines_str' "tr" [] hB, tagLines_valid' "tr" [] isName_tr (by simp) hB⟩

/-- the whole table is the lines `tableLines`, all valid -/
theorem table_lines (attrs : List (String × Str)) (ha : ∀ x ∈ attrs, IsName x.1 ∧ NoBreak x.2) (body : PCell → Str)
    (bl : PCell → List Line) (rows : List (List PCell)) (hb : ∀ c ∈ rows.flatten, BodyLines (body c) (bl c)) :
    tagBody "table" attrs (joinNl (rows.map fun row => tagBody "tr" []
        (joinNl (row.map fun c => tagBody "td" (cellAttrs c) (body c))))) = linesStr (tableLines attrs bl rows) ∧
      ∀ l ∈ tableLines attrs bl rows, l.Valid := by
  have hrow : ∀ row ∈ rows, ∀ c ∈ row, BodyLines (body c) (bl c) :=
    fun row hr c hc => hb c (List.mem_flatten.2 ⟨row, hr, hc⟩)
  have hv : ∀ l ∈ rows.flatMap (trLines bl), l.Valid :=
    valid_flatMap rows _ fun row hr => (tr_lines body bl row (hrow row hr)).2
  have e : joinNl (rows.map fun row => tagBody "tr" [] (joinNl (row.map fun c => tagBody "td" (cellAttrs c) (body c)))) =
      linesStr (rows.flatMap (trLines bl)) :=
    joinNl_map_lines rows _ _ (fun row _ => tagLines_ne_nil _ _ _) fun row hr => (tr_lines body bl row (hrow row hr)).1
  have hB := BodyLines.of_valid _ hv
  rw [e]
  exact ⟨tagLines_str' "table" attrs hB, tagLines_valid' "table" attrs isName_table ha hB⟩

theorem tagsOf_linesToks_flatMap {α : Type} (xs : List α) (g : α → List Line) :
    tagsOf (linesToks (xs.flatMap g)) = xs.flatMap fun x => tagsOf (linesToks (g x)) := by
  simp only [tagsOf_linesToks, List.flatMap_assoc]

/-- the tags of a table given as lines: `<table>`, per row `<tr>`, per cell `<td>` with the attributes of the cell
    around the tags of its body -/
def tableTags (attrs : List (String × Str)) (bt : PCell → List Token) (rows : List (List PCell)) : List Token :=
  .open (S "table") (readAttrs attrs) ::
    (rows.flatMap (fun row => .open (S "tr") [] ::
      (row.flatMap (fun c => .open (S "td") (readAttrs (cellAttrs c)) :: (bt c ++ [.close (S "td")])) ++
      [.close (S "tr")])) ++ [.close (S "table")])

theorem tagsOf_tableLines (attrs : List (String × Str)) (bl : PCell → List Line) (rows : List (List PCell)) :
    tagsOf (linesToks (tableLines attrs bl rows)) = tableTags attrs (fun c => tagsOf (linesToks (bl c))) rows := by
  simp only [tableLines, trLines, tdLines, tableTags, tagsOf_tagLines, tagsOf_linesToks_flatMap, readAttrs, List.map_nil,
    List.cons_append]

-- ---------------------------------------------------------------- the tokens of a rendered table
/-- the attributes of the `<table>` -/
def tableAttrs (id : Option Str) : List (String × Str) := ("class", S "rg-table") :: id.toList.map fun i => ("id", i)

theorem tableAttrs_ok (id : Option Str) (hid : ∀ i, id = some i → NoBreak i) :
    ∀ x ∈ tableAttrs id, IsName x.1 ∧ NoBreak x.2 := by
  intro x hx
  simp only [tableAttrs, List.mem_cons, List.mem_map, Option.mem_toList] at hx
  rcases hx with rfl | ⟨i, hi, rfl⟩
  · exact ⟨(by decide : IsName "class"), by decide⟩
  · exact ⟨(by decide : IsName "id"), hid i hi⟩

/-- **the text of a rendered table is the lines `tableLines`**, which are valid lines — provided every cell body
    is given as lines (`BodyLines`) and the id has no line break -/
theorem renderTable_lines (pre : Str) (tree : Tree) (T : Tbl) (id : Option Str) (bl : PCell → List Line)
    (hid : ∀ i, id = some i → NoBreak i)
    (hb : ∀ c ∈ (emitRows T).flatten, BodyLines (renderCellBody pre (nodeAt tree c.path)) (bl c)) :
    renderTable pre tree T id = linesStr (tableLines (tableAttrs id) bl (emitRows T)) ∧
      ∀ l ∈ tableLines (tableAttrs id) bl (emitRows T), l.Valid := by
  rw [renderTable_eq]
  exact table_lines (tableAttrs id) (tableAttrs_ok id hid) _ bl (emitRows T) hb

/-- hence its tokens are the tokens of these lines, texts merged -/
theorem renderTable_tokens (pre : Str) (tree : Tree) (T : Tbl) (id : Option Str) (bl : PCell → List Line)
    (hid : ∀ i, id = some i → NoBreak i)
    (hb : ∀ c ∈ (emitRows T).flatten, BodyLines (renderCellBody pre (nodeAt tree c.path)) (bl c)) :
    tokens (renderTable pre tree T id) = norm (linesToks (tableLines (tableAttrs id) bl (emitRows T))) := by
  obtain ⟨e, hv⟩ := renderTable_lines pre tree T id bl hid hb
  rw [e]
  exact tokens_of_frag (linesFrag _ hv)

/-- **the tags of a rendered table**: `<table>`, per emitted row a `<tr>`, per cell a `<td>` whose attributes are
    `cellAttrs` of the cell (as the tokenizer reads them), around the tags of the cell's body -/
theorem renderTable_tags (pre : Str) (tree : Tree) (T : Tbl) (id : Option Str) (bl : PCell → List Line)
    (hid : ∀ i, id = some i → NoBreak i)
    (hb : ∀ c ∈ (emitRows T).flatten, BodyLines (renderCellBody pre (nodeAt tree c.path)) (bl c)) :
    tagsOf (tokens (renderTable pre tree T id)) =
      tableTags (tableAttrs id) (fun c => tagsOf (linesToks (bl c))) (emitRows T) := by
  rw [renderTable_tokens pre tree T id bl hid hb, tagsOf_norm, tagsOf_tableLines]

-- ---------------------------------------------------------------- reading the rows off the tokens
/-- scan the tokens from the right: the `<td>`s met before the next `<tr>` to the left, and the rows completed -/
def scanRows : List Token → List Attrs × List (List Attrs)
  | [] => ([], [])
  | .open tag as :: ts =>
    if tag = S "tr" then ([], (scanRows ts).1 :: (scanRows ts).2)
    else if tag = S "td" then (as :: (scanRows ts).1, (scanRows ts).2)
    else scanRows ts
  | _ :: ts => scanRows ts

/-- the attribute lists of the `<td>`s, grouped by the `<tr>` they follow -/
def rowsOfTokens (ts : List Token) : List (List Attrs) := (scanRows ts).2

theorem scanRows_tagsOf (ts : List Token) : scanRows (tagsOf ts) = scanRows ts := by
  induction ts with
  | nil => rfl
  | cons k ts ih => cases k <;> simp [scanRows, ih]

/-- no `<tr>` and no `<td>` among the tokens -/
def NoCellTags (ts : List Token) : Prop := ∀ tag as, Token.open tag as ∈ ts → tag ≠ S "tr" ∧ tag ≠ S "td"

theorem NoCellTags.tagsOf {ts : List Token} (h : NoCellTags ts) : NoCellTags (tagsOf ts) :=
  fun tag as hm => h tag as (List.mem_filter.1 hm).1

theorem scanRows_append_noCellTags (a b : List Token) (h : NoCellTags a) : scanRows (a ++ b) = scanRows b := by
  induction a with
  | nil => rfl
  | cons k a ih =>
    have ih' := ih fun tag as hm => h tag as (List.mem_cons_of_mem _ hm)
    cases k with
    | «open» tag as =>
      have := h tag as (List.mem_cons_self ..)
      simp [scanRows, this.1, this.2, ih']
    | close tag => simpa [scanRows] using ih'
    | text t => simpa [scanRows] using ih'

theorem scanRows_open_td (as : Attrs) (ts : List Token) :
    scanRows (.open (S "td") as :: ts) = (as :: (scanRows ts).1, (scanRows ts).2) := by
  have e : (S "td" = S "tr") = False := by decide
  simp only [scanRows, e, if_false, if_true]

theorem scanRows_open_tr (as : Attrs) (ts : List Token) :
    scanRows (.open (S "tr") as :: ts) = ([], (scanRows ts).1 :: (scanRows ts).2) := by
  simp only [scanRows, if_true]

theorem scanRows_close (k : Str) (ts : List Token) : scanRows (.close k :: ts) = scanRows ts := rfl

private theorem scanRows_cells (bt : PCell → List Token) (row : List PCell) (rest : List Token)
    (h : ∀ c ∈ row, NoCellTags (bt c)) :
    scanRows (row.flatMap (fun c => .open (S "td") (readAttrs (cellAttrs c)) :: (bt c ++ [.close (S "td")])) ++ rest) =
      (row.map (fun c => readAttrs (cellAttrs c)) ++ (scanRows rest).1, (scanRows rest).2) := by
  induction row with
  | nil => rfl
  | cons c row ih =>
    have ih' := ih fun x hx => h x (List.mem_cons_of_mem _ hx)
    simp only [List.flatMap_cons, List.append_assoc, List.cons_append, List.nil_append]
    rw [scanRows_open_td, scanRows_append_noCellTags _ _ (h c (List.mem_cons_self ..)), scanRows_close, ih']
    rfl

private theorem scanRows_rows (bt : PCell → List Token) (rows : List (List PCell)) (rest : List Token)
    (h : ∀ c ∈ rows.flatten, NoCellTags (bt c)) (hr : (scanRows rest).1 = []) :
    scanRows (rows.flatMap (fun row => .open (S "tr") [] ::
      (row.flatMap (fun c => .open (S "td") (readAttrs (cellAttrs c)) :: (bt c ++ [.close (S "td")])) ++
      [.close (S "tr")])) ++ rest) =
      ([], rows.map (·.map fun c => readAttrs (cellAttrs c)) ++ (scanRows rest).2) := by
  induction rows with
  | nil => rw [List.flatMap_nil, List.nil_append, List.map_nil, List.nil_append, ← hr]
  | cons row rows ih =>
    have ih' := ih fun c hc => h c (by simp only [List.flatten_cons, List.mem_append]; exact Or.inr hc)
    have hrow : ∀ c ∈ row, NoCellTags (bt c) :=
      fun c hc => h c (by simp only [List.flatten_cons, List.mem_append]; exact Or.inl hc)
    simp only [List.flatMap_cons, List.append_assoc, List.cons_append, List.nil_append]
    rw [scanRows_open_tr, scanRows_cells bt row _ hrow, scanRows_close, ih']
    simp

/-- the rows read off the tags of a table are the attribute lists of its cells, row by row -/
theorem rowsOfTokens_tableTags (attrs : List (String × Str)) (bt : PCell → List Token) (rows : List (List PCell))
    (h : ∀ c ∈ rows.flatten, NoCellTags (bt c)) :
    rowsOfTokens (tableTags attrs bt rows) = rows.map (·.map fun c => readAttrs (cellAttrs c)) := by
  have e1 : (S "table" = S "tr") = False := by decide
  have e2 : (S "table" = S "td") = False := by decide
  simp only [rowsOfTokens, tableTags, scanRows, e1, e2, if_false]
  rw [scanRows_rows bt rows _ h (by simp [scanRows])]
  simp [scanRows]

/-- **the string level**: the rows read off the tokens of the rendered table are `htmlRows`: for each cell an
    `.open "td"` token whose attributes are those used in `vcells_of_html` — provided the bodies are given as lines
    without `<tr>` or `<td>` of their own -/
theorem rowsOfTokens_renderTable (pre : Str) (tree : Tree) (T : Tbl) (id : Option Str) (bl : PCell → List Line)
    (hid : ∀ i, id = some i → NoBreak i)
    (hb : ∀ c ∈ (emitRows T).flatten, BodyLines (renderCellBody pre (nodeAt tree c.path)) (bl c) ∧
      NoCellTags (linesToks (bl c))) :
    rowsOfTokens (tokens (renderTable pre tree T id)) = htmlRows T := by
  have h := renderTable_tags pre tree T id bl hid fun c hc => (hb c hc).1
  rw [rowsOfTokens, ← scanRows_tagsOf, h]
  exact rowsOfTokens_tableTags _ _ _ fun c hc => (hb c hc).2.tagsOf

-- ---------------------------------------------------------------- the bodies of the cells
/-- the elements a cell body is made of -/
def bodyTagNames : List Str := [S "span", S "sup", S "sub", S "a", S "ul", S "li"]

/-- every open tag is one of `bodyTagNames` -/
def BodyTagsOnly (ts : List Token) : Prop := ∀ tag as, Token.open tag as ∈ ts → tag ∈ bodyTagNames

theorem BodyTagsOnly.noCellTags {ts : List Token} (h : BodyTagsOnly ts) : NoCellTags ts := by
  intro tag as hm
  have := h tag as hm
  constructor <;> (rintro rfl; revert this; decide)

@[simp] theorem bodyTagsOnly_nil : BodyTagsOnly [] := by intro tag as hm; cases hm
@[simp] theorem bodyTagsOnly_append (a b : List Token) : BodyTagsOnly (a ++ b) ↔ BodyTagsOnly a ∧ BodyTagsOnly b := by
  constructor
  · intro h
    exact ⟨fun tag as hm => h tag as (List.mem_append_left _ hm), fun tag as hm => h tag as (List.mem_append_right _ hm)⟩
  · rintro ⟨h1, h2⟩ tag as hm
    rcases List.mem_append.1 hm with hm | hm
    · exact h1 tag as hm
    · exact h2 tag as hm
@[simp] theorem bodyTagsOnly_text (t : Str) (ts : List Token) : BodyTagsOnly (.text t :: ts) ↔ BodyTagsOnly ts := by
  constructor
  · intro h tag as hm; exact h tag as (List.mem_cons_of_mem _ hm)
  · intro h tag as hm
    rcases List.mem_cons.1 hm with hm | hm
    · cases hm
    · exact h tag as hm
@[simp] theorem bodyTagsOnly_close (k : Str) (ts : List Token) : BodyTagsOnly (.close k :: ts) ↔ BodyTagsOnly ts := by
  constructor
  · intro h tag as hm; exact h tag as (List.mem_cons_of_mem _ hm)
  · intro h tag as hm
    rcases List.mem_cons.1 hm with hm | hm
    · cases hm
    · exact h tag as hm
@[simp] theorem bodyTagsOnly_open (k : Str) (as : List (Str × Str)) (ts : List Token) :
    BodyTagsOnly (.open k as :: ts) ↔ k ∈ bodyTagNames ∧ BodyTagsOnly ts := by
  constructor
  · intro h
    exact ⟨h k as (List.mem_cons_self ..), fun tag as' hm => h tag as' (List.mem_cons_of_mem _ hm)⟩
  · rintro ⟨h1, h2⟩ tag as' hm
    rcases List.mem_cons.1 hm with hm | hm
    · cases hm; exact h1
    · exact h2 tag as' hm

theorem bodyTagsOnly_tagsOf (ts : List Token) : BodyTagsOnly (tagsOf ts) ↔ BodyTagsOnly ts := by
  induction ts with
  | nil => rfl
  | cons k ts ih => cases k <;> simp [ih]

theorem bodyTagsOnly_flatMap {α : Type} (xs : List α) (f : α → List Token) (h : ∀ x ∈ xs, BodyTagsOnly (f x)) :
    BodyTagsOnly (xs.flatMap f) := by
  intro tag as hm
  obtain ⟨x, hx, hm⟩ := List.mem_flatMap.1 hm
  exact h x hx tag as hm

private theorem mem_span : S "span" ∈ bodyTagNames := by decide
private theorem mem_sup : S "sup" ∈ bodyTagNames := by decide
private theorem mem_sub : S "sub" ∈ bodyTagNames := by decide
private theorem mem_a : S "a" ∈ bodyTagNames := by decide
private theorem mem_ul : S "ul" ∈ bodyTagNames := by decide
private theorem mem_li : S "li" ∈ bodyTagNames := by decide

/-- whatever token list describes a rendered number, its tags are `<sup>`, `<sub>` at most -/
theorem numToks_tags (n : Num) : BodyTagsOnly (numToks n) := by
  rw [← bodyTagsOnly_tagsOf, ← tagsOf_of_frag (numToks_frag n)]
  rcases renderNumber_cases n with ⟨e, h⟩ | ⟨i, m, d, ef, hi, hm, hd, e⟩
  · have hf : Frag (renderNumber n) [.text (formatNumber n)] := by rw [e]; exact Frag.raw (raw_numChars h)
    rw [tagsOf_of_frag hf]
    simp
  · have e' : renderNumber n = i ++ openTag "sup" [] ++ m ++ closeTag "sup" ++ S "&frasl;" ++ openTag "sub" [] ++ d ++
        closeTag "sub" := by rw [e]; simp [openTag, closeTag, attrsText, S]
    have hf : Frag (renderNumber n) ([.text i] ++ [.open (S "sup") (readAttrs [])] ++ [.text m] ++ [.close (S "sup")] ++
        [.text ['⁄']] ++ [.open (S "sub") (readAttrs [])] ++ [.text d] ++ [.close (S "sub")]) := by
      rw [e']
      exact (((((((Frag.raw (raw_numChars hi)).append (Frag.openTag "sup" [] isName_sup (by simp))).append
        (Frag.raw (raw_numChars hm))).append (Frag.closeTag "sup" isName_sup)).append (Frag.raw Raw.frasl)).append
        (Frag.openTag "sub" [] isName_sub (by simp))).append (Frag.raw (raw_numChars hd))).append
        (Frag.closeTag "sub" isName_sub)
    rw [tagsOf_of_frag hf]
    simp [mem_sup, mem_sub]

theorem numSpan_tags (cls : String) (n : Num) : BodyTagsOnly (numSpan cls n) := by
  simp [numSpan, mem_span, numToks_tags]

theorem svsToks_tags (s : SVS) : BodyTagsOnly (svsToks s) := by
  unfold svsToks
  apply bodyTagsOnly_flatMap
  intro p _
  cases p with
  | text t => simp
  | num n => exact numSpan_tags _ n

theorem qToks_tags (q : Quantity) : BodyTagsOnly (qToks q) := by
  unfold qToks
  split
  · simp [numSpan_tags]
  · simp [mem_span, numToks_tags]

theorem propToks_tags (v : Option Num) (p : Bool) (w : Option Str) (s : Str) : BodyTagsOnly (propToks v p w s) := by
  unfold propToks
  split
  · simp [mem_span]
  · simp [mem_span, numToks_tags]

theorem aToks_tags (a : Amount) : BodyTagsOnly (aToks a) := by
  cases a with
  | quantity q => simp [aToks, qToks_tags]
  | proportion v p w s =>
    simp only [aToks]
    split
    · simp
    · simp [propToks_tags]

theorem liToks_tags (pre : Str) (n : SVS) : BodyTagsOnly (liToks pre n) := by
  simp [liToks, mem_li, svsToks_tags]

theorem cellToks_tags (pre : Str) (t : Tree) : BodyTagsOnly (cellToks pre t) := by
  cases t with
  | ingredient d q => cases q <;> simp [cellToks, qToks_tags, svsToks_tags]
  | step d i => exact svsToks_tags d
  | reference sub idx a => simp [cellToks, mem_a, aToks_tags, svsToks_tags]
  | sub b names sh =>
    simp only [cellToks]
    split
    · exact svsToks_tags _
    · split
      · simp [mem_ul]
      · simp only [bodyTagsOnly_open, bodyTagsOnly_append, bodyTagsOnly_text, bodyTagsOnly_close, bodyTagsOnly_nil,
          and_true, mem_ul, true_and]
        apply bodyTagsOnly_flatMap
        intro n _
        simp [liToks_tags]

/-- the cell's output list goes over several lines -/
def multiLine : Tree → Bool
  | .sub _ names _ => decide (2 ≤ names.length)
  | _ => false

/-- the body of the cell of node `n` can be read line by line: `CellOK` (`Props/C04b.lean`), and a one-line body has
    no line break (in the sense of `str.splitlines`) at all — the table re-indents it -/
def CellLineOK (pre : Str) (n : Tree) : Prop :=
  CellOK pre n ∧ (multiLine n = false → NoBreak (renderCellBody pre n))

/-- such a body is given as lines, and its tags are `<span>`, `<sup>`, `<sub>`, `<a>`, `<ul>`, `<li>` at most -/
theorem cell_bodyLines (pre : Str) (n : Tree) (h : CellLineOK pre n) :
    ∃ ls, BodyLines (renderCellBody pre n) ls ∧ NoCellTags (linesToks ls) := by
  obtain ⟨hok, hnb⟩ := h
  by_cases hm : multiLine n = false
  · refine ⟨[(renderCellBody pre n, cellToks pre n)], BodyLines.single (cellToks_frag pre n hok) (hnb hm), ?_⟩
    exact (cellToks_tags pre n).noCellTags
  · cases n with
    | ingredient d q => exact absurd rfl hm
    | step d i => exact absurd rfl hm
    | reference s i a => exact absurd rfl hm
    | sub b names sh =>
      have h2 : 2 ≤ names.length := by simpa [multiLine] using hm
      have h1 : names.length ≠ 1 := by omega
      rcases hok with hok | ⟨hp, hn⟩
      · exact absurd hok h1
      · let li : SVS → Line := fun n => (tagBody "li" [("id", anchorId pre n)] (renderSvs n), liToks pre n)
        have hv : ∀ l ∈ names.map li, l.Valid := by
          intro l hl
          obtain ⟨n, hn', rfl⟩ := List.mem_map.1 hl
          obtain ⟨a1, a2, a3⟩ := li_line pre n hp (hn n hn')
          exact ⟨a1, a2, a3⟩
        have hB := BodyLines.of_valid _ hv
        have e : renderCellBody pre (.sub b names sh) =
            tagBody "ul" [("class", S "rg-sub-recipe-output-list")] (linesStr (names.map li)) := by
          simp only [renderCellBody, h1, if_false, linesStr, List.map_map, Function.comp_def, li]
        have hattrs : ∀ x ∈ [("class", S "rg-sub-recipe-output-list")], IsName x.1 ∧ NoBreak x.2 := by
          intro x hx
          simp only [List.mem_singleton] at hx
          subst hx
          exact ⟨isName_class, by decide⟩
        refine ⟨tagLines "ul" [("class", S "rg-sub-recipe-output-list")] (names.map li), ?_, ?_⟩
        · rw [e, tagLines_str' "ul" _ hB]
          exact BodyLines.of_valid _ (tagLines_valid' "ul" _ isName_ul hattrs hB)
        · apply BodyTagsOnly.noCellTags
          rw [← bodyTagsOnly_tagsOf, tagsOf_tagLines, tagsOf_linesToks]
          simp only [bodyTagsOnly_open, bodyTagsOnly_append, bodyTagsOnly_close, bodyTagsOnly_nil, and_true, mem_ul,
            true_and]
          apply bodyTagsOnly_flatMap
          intro l hl
          obtain ⟨n, _, rfl⟩ := List.mem_map.1 hl
          exact (bodyTagsOnly_tagsOf _).2 (liToks_tags pre n)

-- ---------------------------------------------------------------- end to end, from the text
/-- every cell of the rendered tree has a body that can be read line by line, and the id prefix has no line break -/
def PageOK (pre : Str) (t : Tree) : Prop :=
  NoBreak pre ∧ ∀ c ∈ (layout t).cells, CellLineOK pre (nodeAt t c.path)

/-- **the string level**: tokenize the text `renderRecipeTree` writes; the attribute lists of the `<td>` tokens,
    grouped by `<tr>`, are exactly `htmlRows (layout t)` — the `class`, `rowspan` and `colspan` attributes used in
    `vcells_of_html` -/
theorem html_string_level (pre : Str) (t : Tree) (hw : C02.wf t = true) (h : PageOK pre t) :
    rowsOfTokens (tokens (renderRecipeTree pre t)) = htmlRows (layout t) := by
  obtain ⟨hp, hc⟩ := h
  have hc' : ∀ c ∈ (emitRows (layout t)).flatten, CellLineOK pre (nodeAt t c.path) :=
    fun c hm => hc c ((emitRows_perm _ (C02.layout_tiles t hw)).mem_iff.1 hm)
  rw [renderRecipeTree_eq]
  refine rowsOfTokens_renderTable pre t (layout t) (rootId pre t)
    (fun c => @dite _ (CellLineOK pre (nodeAt t c.path)) (Classical.propDecidable _)
      (fun hx => (cell_bodyLines pre _ hx).choose) (fun _ => [])) ?_ ?_
  · intro i hi
    cases t with
    | sub b ns sh =>
      match ns, hi with
      | [n], hi => simp only [rootId, Option.some.injEq] at hi; rw [← hi]; exact anchorId_noBreak pre n hp
    | ingredient d q => cases hi
    | step d i' => cases hi
    | reference s' i' a => cases hi
  · intro c hm
    simp only [hc' c hm, dite_true]
    exact (cell_bodyLines pre _ (hc' c hm)).choose_spec

/-- **from the text to the table**: the grid a browser forms from the tokens of the rendered text, with the classes
    on each `<td>`, is the visible abstract table -/
theorem html_string_grid_is_table (pre : Str) (t : Tree) (hw : C02.wf t = true) (h : PageOK pre t) :
    vcellsOfRows (rowsOfTokens (tokens (renderRecipeTree pre t))) = some (vis (layout t)) := by
  rw [html_string_level pre t hw h, html_grid_is_table t hw]

/-- **from the text to the drawing**: the drawing of the recipe is read back from the rendered text alone -/
theorem html_string_readback (pre : Str) (t : Tree) (hw : C02.wf t = true) (hm : multiOnlyAtRoot t)
    (h : PageOK pre t) :
    readbackRows (rowsOfTokens (tokens (renderRecipeTree pre t))) = some (drawing t) := by
  rw [html_string_level pre t hw h, html_readback t hw hm]

/-- for what `compile` returns only the texts have to be one-line (`PageOK`) -/
theorem compile_html_string_readback (srcs : List Str) (bs : List Block) (h : compile srcs = .ok bs) (pre : Str) :
    ∀ b ∈ bs, ∀ t ∈ b, PageOK pre t →
      readbackRows (rowsOfTokens (tokens (renderRecipeTree pre t))) = some (drawing t) :=
  fun b hb t ht hp =>
    html_string_readback pre t (C02.compile_wf srcs bs h b hb t ht).1 (C02.compile_wf srcs bs h b hb t ht).2 hp

/-- the unconditional statement (every tree, every prefix, texts with line breaks or not): NOT proved here.
    `html_string_level` proves it under `PageOK`; without it `tagBody` re-indents text inside the cells, which
    changes white space in texts but — as far as the renderer's escaping goes — no tag. -/
def html_string_level_Full : Prop :=
  ∀ (pre : Str) (t : Tree), C02.wf t = true → rowsOfTokens (tokens (renderRecipeTree pre t)) = htmlRows (layout t)

-- ---------------------------------------------------------------- when `PageOK` holds
theorem cellLineOK_step (pre : Str) (d : SVS) (i : List Tree) (h : NoBreakSvs d) : CellLineOK pre (.step d i) :=
  ⟨trivial, fun _ => noBreak_renderSvs h⟩

theorem cellLineOK_ingredient (pre : Str) (d : SVS) (h : NoBreakSvs d) : CellLineOK pre (.ingredient d none) :=
  ⟨fun q' hq => (by cases hq), fun _ => by simpa [renderCellBody] using noBreak_renderSvs h⟩

theorem cellLineOK_header (pre : Str) (b : Tree) (n : SVS) (sh : Bool) (h : NoBreakSvs n) :
    CellLineOK pre (.sub b [n] sh) :=
  ⟨Or.inl rfl, fun _ => by simpa [renderCellBody] using noBreak_renderSvs h⟩

theorem cellLineOK_outputs (pre : Str) (b : Tree) (names : List SVS) (sh : Bool) (h2 : 2 ≤ names.length)
    (hp : NoBreak pre) (hn : ∀ n ∈ names, NoBreakSvs n) : CellLineOK pre (.sub b names sh) :=
  ⟨Or.inr ⟨hp, hn⟩, fun hm => by simp [multiLine, h2] at hm⟩

/-- a reference to the whole of an output -/
theorem cellLineOK_reference_whole (pre : Str) (sub : Tree) (idx : Nat) (hp : NoBreak pre)
    (h : NoBreakSvs (refName sub idx)) : CellLineOK pre (.reference sub idx .whole) := by
  have ha : OneLineA Amount.whole := ⟨fun w hw => (by cases hw), by simp⟩
  refine ⟨⟨ha, fun t ht => (h t ht).nl⟩, fun _ => ?_⟩
  have e : renderCellBody pre (.reference sub idx .whole) =
      tagBody "a" [("href", '#' :: anchorId pre (refName sub idx))] (renderSvs (refName sub idx)) := by
    simp [renderCellBody, refName, renderAmount, Amount.whole]
  rw [e]
  refine noBreak_tagBody "a" _ _ isName_a ?_ (noBreak_renderSvs h)
  intro x hx
  simp only [List.mem_singleton] at hx
  subst hx
  exact ⟨isName_href, NoBreak.cons (by decide) (anchorId_noBreak pre _ hp)⟩

end StringLevel


-- ================================================================ examples
/-- the classes are read as a set: order and repetition do not matter, unknown classes are ignored -/
example : cellSpecOfClasses [S "x", S "rg-border-bottom-none", S "rg-step", S "rg-border-left-sub-recipe", S "rg-step"] =
    some (.step, .subRecipe, .normal, .normal, .none) := by decide +kernel
example : cellSpecOfClasses [S "rg-border-bottom-none"] = none := by decide +kernel
/-- one `<td>` as the tokenizer reads it -/
example : tdSpec [(S "class", S "rg-step  rg-border-right-sub-recipe"), (S "rowspan", S "12")] =
    ((12, 1), [S "rg-step", S "rg-border-right-sub-recipe"]) := by decide +kernel
example : vcellsOfRows [[[(S "class", S "rg-ingredient")], [(S "class", S "rg-step rg-border-top-none"), (S "rowspan", S "2")]],
      [[(S "class", S "rg-reference")]]] =
    some [⟨0, 0, 1, 1, .ingredient, .normal, .normal, .normal, .normal⟩,
          ⟨0, 1, 2, 1, .step, .normal, .normal, .none, .normal⟩,
          ⟨1, 0, 1, 1, .reference, .normal, .normal, .normal, .normal⟩] := by decide +kernel
/-- a `<td>` without a kind class is not a cell of a recipe table -/
example : vcellsOfRows [[[(S "class", S "rg-border-top-none")]]] = none := by decide +kernel

/-- the small trees of `Props/C02.lean` -/
example : vcellsOfRows (htmlRows (layout C02.exTree)) = some (vis (layout C02.exTree)) := by decide +kernel
example : readbackRows (htmlRows (layout C02.exTree2)) =
    some (.multi (.outlined (.step [.leaf .ingredient, .titled (.leaf .ingredient)]))) := by decide +kernel
example := html_readback C02.exTree2 (by decide) (by decide)

/-- **from a source text to the read-back**, evaluated by the kernel on `C02.exSource`
    (`A := MIX(FIG)`, `B := HEAT(A)`, `C = SERVE(B, RYE)`; `EAT(C)`): compile, lay out, emit the rows, form the grid,
    decode the classes, read the drawing back -/
example : (match compile C02.exSource with
    | .ok bs => bs.flatten.all fun t =>
        decide (gridOfRows (htmlRows (layout t)) =
          (rasterSort (layout t).cells).map fun c => (c.row, c.col, c.rows, c.cols)) &&
        decide (vcellsOfRows (htmlRows (layout t)) = some (vis (layout t))) &&
        decide (readbackRows (htmlRows (layout t)) = some (drawing t))
    | _ => false) = true := by decide +kernel

/-- the grids a browser forms for the two tables -/
example : (match compile C02.exSource with
    | .ok bs => bs.flatten.map fun t => gridOfRows (htmlRows (layout t))
    | _ => []) =
    [[(0, 0, 1, 4), (1, 0, 1, 3), (1, 3, 4, 1), (2, 0, 1, 2), (2, 2, 2, 1), (3, 0, 1, 1), (3, 1, 1, 1), (4, 0, 1, 3)],
     [(0, 0, 1, 1), (0, 1, 1, 1)]] := by decide +kernel

/-- and the drawings read back from them: three nested titled boxes; a step on a reference -/
example : (match compile C02.exSource with
    | .ok bs => bs.flatten.map fun t => readbackRows (htmlRows (layout t))
    | _ => []) =
    [some (.titled (.step [.titled (.step [.titled (.step [.leaf .ingredient])]), .leaf .ingredient])),
     some (.outlined (.step [.leaf .reference]))] := by decide +kernel

/-- a statement with two outputs: the outputs column is read back as `multi` -/
example : (match compile ["YOLK, WHITE = SPLIT(EGG)\nMIX(YOLK, 2 tbsp SUGAR)".toList] with
    | .ok bs => bs.flatten.map fun t => readbackRows (htmlRows (layout t))
    | _ => []) =
    [some (.multi (.outlined (.step [.leaf .ingredient]))),
     some (.outlined (.step [.leaf .reference, .leaf .ingredient]))] := by decide +kernel

/-- the theorems apply to what `compile` returns (non-vacuity of `compile_html_readback`) -/
example : ∃ bs, compile C02.exSource = .ok bs ∧ bs ≠ [] ∧
    ∀ b ∈ bs, ∀ t ∈ b, readbackRows (htmlRows (layout t)) = some (drawing t) := by
  cases h : compile C02.exSource with
  | ok bs =>
    refine ⟨bs, rfl, ?_, compile_html_readback _ bs h⟩
    rintro rfl
    have : (match compile C02.exSource with | .ok [] => false | _ => true) = true := by decide +kernel
    rw [h] at this; cases this
  | _ =>
    exfalso
    have : (match compile C02.exSource with | .ok _ => true | _ => false) = true := by decide +kernel
    rw [h] at this; cases this

/-- the hypothesis of `vcells_of_html` matters: from a table with a gap the browser forms another grid -/
example : let T : Tbl := ⟨1, 2, [{ row := 0, col := 1, rows := 1, cols := 1, path := [], kind := .step }]⟩
    vcellsOfRows (htmlRows T) ≠ some (vis T) := by decide +kernel

section StringExamples
open RG.C10

private def tx (s : String) : SVS := [.text s.toList]
/-- `mix(egg, dough: rye)`: a step on an ingredient and a titled sub recipe -/
private def exText : Tree :=
  .step (tx "mix") [.ingredient (tx "egg") none, .sub (.ingredient (tx "rye") none) [tx "dough"] true]

private theorem exText_pageOK : PageOK (S "recipe-") exText := by
  refine ⟨by decide, ?_⟩
  intro c hc
  have hp : c.path ∈ (layout exText).cells.map (·.path) := List.mem_map.2 ⟨c, hc, rfl⟩
  have e : (layout exText).cells.map (·.path) = [[0], [1], [1, 0], []] := by decide
  rw [e] at hp
  simp only [List.mem_cons, List.not_mem_nil, or_false] at hp
  rcases hp with hp | hp | hp | hp <;> rw [hp]
  · exact cellLineOK_ingredient _ _ (by intro t ht; simp [tx] at ht; subst ht; decide)
  · exact cellLineOK_header _ _ _ _ (by intro t ht; simp [tx] at ht; subst ht; decide)
  · exact cellLineOK_ingredient _ _ (by intro t ht; simp [tx] at ht; subst ht; decide)
  · exact cellLineOK_step _ _ _ (by intro t ht; simp [tx] at ht; subst ht; decide)

/-- the theorems apply (non-vacuity) -/
example : readbackRows (rowsOfTokens (tokens (renderRecipeTree (S "recipe-") exText))) = some (drawing exText) :=
  html_string_readback _ _ (by decide) (by decide) exText_pageOK

/-- evaluated: the `<td>` tokens of the rendered text, row by row -/
example : rowsOfTokens (tokens (renderRecipeTree (S "recipe-") exText)) =
    [[[(S "class", S "rg-ingredient rg-border-left-sub-recipe rg-border-top-sub-recipe")],
      [(S "class", S "rg-step rg-border-right-sub-recipe rg-border-top-sub-recipe rg-border-bottom-sub-recipe"),
       (S "rowspan", S "3")]],
     [[(S "class", S "rg-sub-recipe-header rg-border-left-sub-recipe rg-border-right-sub-recipe rg-border-top-sub-recipe")]],
     [[(S "class", S "rg-ingredient rg-border-left-sub-recipe rg-border-right-sub-recipe rg-border-bottom-sub-recipe")]]] := by
  decide +kernel

/-- **from a source text to the read-back through the rendered string**, evaluated by the kernel on `C02.exSource`:
    compile, lay out, render to text, tokenize, take the `<td>`s row by row, form the grid, decode the classes, read
    the drawing back -/
example : (match compile C02.exSource with
    | .ok bs => bs.flatten.all fun t =>
        decide (rowsOfTokens (tokens (renderRecipeTree (S "recipe-") t)) = htmlRows (layout t)) &&
        decide (readbackRows (rowsOfTokens (tokens (renderRecipeTree (S "recipe-") t))) = some (drawing t))
    | _ => false) = true := by decide +kernel

/-- also with an output list over several lines in a cell (two outputs) and a quantity -/
example : (match compile ["YOLK, WHITE = SPLIT(EGG)\nMIX(YOLK, 2 tbsp SUGAR)".toList] with
    | .ok bs => bs.flatten.all fun t =>
        decide (rowsOfTokens (tokens (renderRecipeTree (S "recipe-") t)) = htmlRows (layout t)) &&
        decide (readbackRows (rowsOfTokens (tokens (renderRecipeTree (S "recipe-") t))) = some (drawing t))
    | _ => false) = true := by decide +kernel

/-- user text cannot make a cell: markup in a description is escaped -/
example : rowsOfTokens (tokens (renderRecipeTree [] (.ingredient (tx "</td><td class=\"rg-step\">") none))) =
    htmlRows (layout (.ingredient [] none)) := by decide +kernel

end StringExamples

end RG.C04
