import RecipeGrid.Model.Site
import RecipeGrid.Model.Recipe
/-! C15 (second half): "The page for recipe r at count n shows r's tables and prose scaled by n divided by r's stated servings
    (the page at the stated count is unscaled)".  `pageScale` is the factor `website.py` / `standalone_page.py` hand to
    `MarkdownRecipe.render`; these theorems are about that factor and about what it does to the stated count itself. -/
namespace RG.C15
open RG

/-- the factor is defined for every stated count ≥ 1 (the quantifier of C15), and only a stated count of 0 makes it undefined -/
theorem pageScale_defined_iff (n native : Nat) : (pageScale (some n) (some native)).isSome = true ↔ native ≠ 0 := by
  unfold pageScale; by_cases h : native = 0 <;> simp [h]

/-- a recipe without stated servings is rendered unscaled whatever count is asked for -/
theorem pageScale_unscalable (s : Option Nat) : pageScale s none = some ⟨1, .int⟩ := by
  cases s <;> rfl

/-- the value of the factor is exactly n / native (a `Fraction`, never a float) -/
theorem pageScale_value (n native : Nat) (h : native ≠ 0) :
    ∃ k, pageScale (some n) (some native) = some k ∧ k.val = (n : Rat) / (native : Rat) ∧ k.kind = .frac := by
  refine ⟨⟨mkRat n native, .frac⟩, by simp [pageScale, h], ?_, rfl⟩
  show mkRat (n : Int) native = (n : Rat) / (native : Rat)
  rw [Rat.mkRat_eq_div]; rfl

/-- the page at the stated count is unscaled: its factor has value 1 -/
theorem pageScale_native (native : Nat) (h : native ≠ 0) :
    ∃ k, pageScale (some native) (some native) = some k ∧ k.val = 1 := by
  obtain ⟨k, hk, hv, _⟩ := pageScale_value native native h
  refine ⟨k, hk, ?_⟩
  have : (native : Rat) ≠ 0 := by exact_mod_cast h
  rw [hv, Rat.div_def]; exact Rat.mul_inv_cancel _ this

/-- scaling the stated count itself by the page's factor gives exactly the page's count (the heading of the page for n says n);
    the product of an `int` and a `Fraction` is exact in Python, so there is no rounding -/
theorem pageScale_count (n native : Nat) (h : native ≠ 0) (k : Num) (hk : pageScale (some n) (some native) = some k) :
    ((Num.ofNat native).mul k).val = (n : Rat) ∧ ((Num.ofNat native).mul k).kind ≠ .flt := by
  obtain ⟨k', hk', hv, hkind⟩ := pageScale_value n native h
  rw [hk] at hk'; cases hk'
  have hn : (native : Rat) ≠ 0 := by exact_mod_cast h
  have hflt : k.isFlt = false := by simp [Num.isFlt, hkind]
  constructor
  · simp [Num.mul, Num.ofNat, Num.isFlt, hkind, hv]
    rw [Rat.mul_comm, Rat.div_mul_cancel hn]
  · simp [Num.mul, Num.ofNat, Num.isFlt, hkind, Num.exactKind]

/-- and that count is displayed as the plain digits of n -/
theorem pageScale_count_shown (n native : Nat) (h : native ≠ 0) (k : Num) (hk : pageScale (some n) (some native) = some k) :
    formatNumber ((Num.ofNat native).mul k) = natDigits n := by
  obtain ⟨hv, hkind⟩ := pageScale_count n native h k hk
  have hflt : ((Num.ofNat native).mul k).isFlt = false := by
    cases hk' : ((Num.ofNat native).mul k).kind <;> simp_all [Num.isFlt]
  simp [formatNumber, hflt, formatFraction, hv, intStr]

/-- different counts of one recipe get different factors (no two of the M pages of a recipe show the same scaling) -/
theorem pageScale_injective (n m native : Nat) (h : native ≠ 0) (k : Num)
    (hn : pageScale (some n) (some native) = some k) (hm : pageScale (some m) (some native) = some k) : n = m := by
  obtain ⟨v1, _⟩ := pageScale_count n native h k hn
  obtain ⟨v2, _⟩ := pageScale_count m native h k hm
  rw [v1] at v2
  exact_mod_cast v2

/-- going from the page for m to the page for n is the same as going there from the stated count: (n/m)·(m/native) = n/native -/
theorem pageScale_compose (n m native : Nat) (hm : m ≠ 0) (hnat : native ≠ 0) (a b c : Num)
    (ha : pageScale (some m) (some native) = some a) (hb : pageScale (some n) (some m) = some b)
    (hc : pageScale (some n) (some native) = some c) : (a.mul b).val = c.val ∧ (a.mul b).kind = c.kind := by
  obtain ⟨a', ha', hav, hak⟩ := pageScale_value m native hnat
  obtain ⟨b', hb', hbv, hbk⟩ := pageScale_value n m hm
  obtain ⟨c', hc', hcv, hck⟩ := pageScale_value n native hnat
  rw [ha] at ha'; rw [hb] at hb'; rw [hc] at hc'; cases ha'; cases hb'; cases hc'
  have h1 : (m : Rat) ≠ 0 := by exact_mod_cast hm
  have h2 : (native : Rat) ≠ 0 := by exact_mod_cast hnat
  constructor
  · simp [Num.mul, Num.isFlt, hak, hbk, hav, hbv, hcv]
    rw [Rat.div_def, Rat.div_def, Rat.div_def]
    rw [Rat.mul_comm (m : Rat), Rat.mul_assoc, ← Rat.mul_assoc (m : Rat), Rat.mul_comm (m : Rat) (n : Rat),
        Rat.mul_assoc (n : Rat), Rat.mul_inv_cancel _ h1, Rat.mul_one, Rat.mul_comm]
  · simp [Num.mul, Num.isFlt, hak, hbk, hck, Num.exactKind]

-- non-vacuity: a recipe for 4 shown on the page for 6
example : (pageScale (some 6) (some 4)).map (fun k => (k.val, k.kind)) = some (3 / 2, .frac) := by decide +kernel
example : formatNumber ((Num.ofNat 4).mul ⟨3 / 2, .frac⟩) = "6".toList := by decide +kernel
example : (pageScale (some 2) (some 0)).isNone = true := by decide +kernel

end RG.C15
