import RecipeGrid.Props.C19f
/-! C07.4 — `compile_markdown`, end to end: for every document of the sub-language **D2** the outcome is a result or one
    of the three documented, located exceptions — never `ZeroDivisionError`, an internal error of the compiler, or an
    `IndexError` from `extract_line` (`MdOutcome.undocumented`).  From `compile_documented_outcomes` (`Props/C07b.lean`),
    `compile_syntax_error_located` (`Props/C07c.lean`) and `extractLine_total` (`Props/C07.lean`), through the loop of
    `render_document` (`Model/MdCompile.lean`).

    Outside the model (assumed not to raise): marko's parsing and the rendering of everything that is not a recipe block
    — it is done before the first recipe is compiled. -/
namespace RG.C07

/-- what `compile` raises on any list of sources is one of the three documented exceptions, carrying the line, the column
    and the quoted line of a position in the source of the block it names -/
theorem compileOutcome_documented (srcs : List Str) :
    compileOutcome srcs = none ∨
    (∃ l c q, compileOutcome srcs = some (.syntaxError l c q)) ∨
    (∃ l c q, compileOutcome srcs = some (.redefined l c q)) ∨
    (∃ l c q, compileOutcome srcs = some (.proportion l c q)) := by
  cases h : compileOutcome srcs with
  | none => exact Or.inl rfl
  | some e =>
    right
    rcases compileOutcome_some srcs e h with ⟨_, _, _, _, _, _, _, _, rfl⟩ | ⟨_, _, _, _, _, _, _, rfl⟩ |
      ⟨_, _, _, _, _, _, _, rfl⟩
    · exact Or.inl ⟨_, _, _, rfl⟩
    · exact Or.inr (Or.inl ⟨_, _, _, rfl⟩)
    · exact Or.inr (Or.inr ⟨_, _, _, rfl⟩)

/-- the loop over any list of groups of blocks ends with a count or with one of the three documented exceptions -/
theorem mdRun_documented (doc : Str) (gs : List (List MdBlock)) (n : Nat) :
    (∃ m, mdRun doc gs n = .ok m) ∨ (∃ l c q, mdRun doc gs n = .syntaxError l c q) ∨
    (∃ l c q, mdRun doc gs n = .redefined l c q) ∨ (∃ l c q, mdRun doc gs n = .proportion l c q) := by
  rcases mdRun_cases doc gs n with ⟨_, hok⟩ | ⟨pre, g, post, e, _, _, hg, hrun⟩
  · exact Or.inl ⟨_, hok⟩
  · right
    rw [hrun]
    rcases compileOutcome_documented (mdGroupSources doc g) with h | ⟨l, c, q, h⟩ | ⟨l, c, q, h⟩ | ⟨l, c, q, h⟩ <;>
      rw [hg] at h
    · cases h
    · cases h; exact Or.inl ⟨_, _, _, rfl⟩
    · cases h; exact Or.inr (Or.inl ⟨_, _, _, rfl⟩)
    · cases h; exact Or.inr (Or.inr ⟨_, _, _, rfl⟩)

/-- **`mdCompile_documented_outcomes`** (C07, end to end): for every document of **D2** `compile_markdown` returns (with
    `n` independent recipes) or raises one of the three documented, located exceptions — a `peggie.ParseError`, a
    `NameRedefinedError` or a `ProportionGivenForIngredientError`, each with a line, a column and a quoted line — and
    never anything else -/
theorem mdCompile_documented_outcomes (doc : Str) (hD : inDoc2 doc = true) :
    (∃ n, mdCompile doc = .ok n) ∨ (∃ l c q, mdCompile doc = .syntaxError l c q) ∨
    (∃ l c q, mdCompile doc = .redefined l c q) ∨ (∃ l c q, mdCompile doc = .proportion l c q) := by
  rw [C19.mdCompile_of_inDoc2 doc hD]
  exact mdRun_documented doc _ 0

/-- in particular no undocumented exception, for any document (outside **D2** the model answers `outside`) -/
theorem mdCompile_never_undocumented (doc : Str) (why : String) : mdCompile doc ≠ .undocumented why := by
  cases hD : inDoc2 doc with
  | false => rw [(C19.mdCompile_outside_iff doc).2 hD]; intro h; cases h
  | true =>
    intro h
    rcases mdCompile_documented_outcomes doc hD with ⟨_, h'⟩ | ⟨_, _, _, h'⟩ | ⟨_, _, _, h'⟩ | ⟨_, _, _, h'⟩ <;>
      rw [h'] at h <;> cases h

/-- … and a located exception is located in the document (`C19.mdCompile_error_line`): its line is a line of the
    document, or the line just below the last one -/
theorem mdCompile_error_in_document (doc : Str) (L c : Nat) (q : Str)
    (h : mdCompile doc = .syntaxError L c q ∨ mdCompile doc = .redefined L c q ∨ mdCompile doc = .proportion L c q) :
    1 ≤ L ∧ L ≤ (C19.docLines doc).length + 1 ∧ 1 ≤ c := by
  have hloc : C19.located (mdCompile doc) = some (L, c, q) := by
    rcases h with h | h | h <;> rw [h] <;> rfl
  obtain ⟨h1, h2, _⟩ := C19.mdCompile_error_line_bounds doc L c q hloc
  exact ⟨h1, h2, (C19.mdCompile_error_line doc L c q hloc).1⟩

/-- non-vacuity: a document of **D2** for each of the four outcomes (CRLF, blocks inside block quotes) -/
example : inDoc2 C19.exRedefined = true ∧ inDoc2 C19.exProportion = true ∧ inDoc2 C19.exSyntax = true ∧
    mdCompile C19.exRedefined = .redefined 9 3 "  b = 3 g z".toList ∧
    mdCompile C19.exProportion = .proportion 9 12 "  c = f(b, 1/3 of d)".toList ∧
    mdCompile C19.exSyntax = .syntaxError 9 11 "  c = f(b))".toList ∧
    mdCompile "# Stew for 2\r\n\r\n- Sauce:\r\n\r\n      a = 1 g x\r\n\r\n```recipe\r\nfry(1/2 of a, remaining a)\r\n```\r\n".toList = .ok 1 := by
  decide +kernel

end RG.C07
