import RecipeGrid.Lemmas.FmtSpelling
import RecipeGrid.Lemmas.NumberInv
import RecipeGrid.Lemmas.Redisplay
import RecipeGrid.Lemmas.ReaderInv
/-! C11 (last clause) — "the shown text reads back, with the tool's own number syntax, to a value within half a
    unit of the last shown digit", stated against the tool's two readers of numbers instead of the
    specification-level `readDecimal` of `Props/C11.lean`:

    (a) the recipe grammar's `number` rule (`Parser.number`, tied to `grammar.peg` + `RecipeTransformer`);
    (b) `number_parser.number` (`numberReader`, `Model/NumberReader.lean`, used by `recipe-grid --scale`).

    `shownNum x` (`Lemmas/FmtSpelling.lean`) is the number both readers return for the text of `format_number x`:
    the `int`/`Fraction` itself when it is shown exactly, otherwise the shown decimal `roundedDecimal y` — as an `int`
    when no point is shown, and as the double nearest to it (`toDouble`) when a point is shown. -/
namespace RG.C11
open RG.NumberReader RG.C06 RG.Parser

/-! ## reader (b): `number_parser.number` -/

/-- **main theorem, reader (b)**: for every non-negative number below `10^290`, `number_parser.number` reads the text
    of `format_number` back as `shownNum x` (it does not raise, and the text is inside the modelled language). -/
theorem reader_reads_format (x : Num) (hx : 0 ≤ x.val) (hb : x.val < ((10 ^ (maxLen - 10) : Nat) : Rat)) :
    numberReader (formatNumber x) = .value (shownNum x) := by
  obtain ⟨l, hwf, hp, hv⟩ := formatNumber_spelling x hx
  have hlen := formatNumber_length x hx hb
  rw [hp] at hlen ⊢
  rw [numberReader_of_wf l hwf hlen, hv]

/-- every text shown is inside the modelled language **L** -/
theorem formatNumber_inL (x : Num) (hx : 0 ≤ x.val) (hb : x.val < ((10 ^ (maxLen - 10) : Nat) : Rat)) :
    inL (formatNumber x) = true := by
  have h := reader_reads_format x hx hb
  cases hL : inL (formatNumber x) with
  | true => rfl
  | false => simp [numberReader, hL] at h

/-! ### what `shownNum` is -/

/-- ints (and Fractions with an integer value) read back exactly, as an `int` -/
theorem shownNum_int (x : Num) (hf : x.isFlt = false) (hd : x.val.den = 1) : shownNum x = ⟨x.val, .int⟩ := by
  simp [shownNum, hf, hd]

/-- Fractions with an allowed denominator read back exactly, as a `Fraction` -/
theorem shownNum_fraction (x : Num) (hf : x.isFlt = false) (hd : x.val.den ≠ 1)
    (ha : x.val.den ∈ Gen.allowedDenominators) : shownNum x = ⟨x.val, .frac⟩ := by
  simp [shownNum, hf, hd, ha]

/-- floats read back as the shown decimal -/
theorem shownNum_float (x : Num) (hf : x.isFlt = true) : shownNum x = decimalNum x.val := by
  simp [shownNum, hf]

/-- other Fractions go through the nearest double (the recorded double-rounding finding of C11.4) -/
theorem shownNum_fallback (x : Num) (hf : x.isFlt = false) (hd : x.val.den ≠ 1)
    (ha : x.val.den ∉ Gen.allowedDenominators) : shownNum x = decimalNum (toDouble x.val) := by
  simp [shownNum, hf, hd, ha]

/-- the kind that is read back follows the text: `Fraction` for fraction text, `float` when a point is shown,
    `int` otherwise -/
theorem shownNum_kind (x : Num) (hx : 0 ≤ x.val) :
    (shownNum x).kind =
      (if '/' ∈ formatNumber x then .frac else if '.' ∈ formatNumber x then .flt else .int) := by
  have hdec : ∀ y : Rat, 0 ≤ y → '/' ∉ formatFloat y ∧
      (decimalNum y).kind = (if '.' ∈ formatFloat y then .flt else .int) := by
    intro y hy
    constructor
    · obtain ⟨l, hwf, hp, -, ⟨n, rfl, -⟩ | ⟨s, rfl, -, -, -⟩⟩ := formatFloat_spelling y hy
      · rw [hp]; intro h
        have := natDigits_isDigit n '/' h
        simp [Char.isDigit] at this
      · rw [hp]; intro h
        simp only [NumLit.print, List.mem_append, List.mem_cons] at h
        rcases h with h | h | h
        · have := natDigits_isDigit _ '/' h
          simp [Char.isDigit] at this
        · cases h
        · have := hwf.2 '/' h
          simp [isDigit] at this
    · simp only [decimalNum]; split <;> rfl
  by_cases hf : x.isFlt = true
  · have := hdec x.val hx
    simp [shownNum, formatNumber, hf, this.1, this.2]
  · have hf' : x.isFlt = false := by simpa using hf
    by_cases hd : x.val.den = 1
    · have hnum : 0 ≤ x.val.num := Rat.num_nonneg.mpr hx
      have e : formatNumber x = natDigits x.val.num.toNat := by
        simp [formatNumber, hf', formatFraction, hd, intStr_of_nonneg hnum]
      have h1 : '/' ∉ natDigits x.val.num.toNat := by
        intro h
        have := natDigits_isDigit _ '/' h
        simp [Char.isDigit] at this
      simp [shownNum, hf', hd, e, h1, dot_not_mem_natDigits]
    · by_cases ha : x.val.den ∈ Gen.allowedDenominators
      · obtain ⟨l, -, hp, -, rfl | ⟨rfl, -⟩⟩ := formatFraction_spelling x.val hx hd ha
        · have : '/' ∈ formatNumber x := by simp [formatNumber, hf', hp, NumLit.print]
          simp [shownNum, hf', hd, ha, this]
        · have : '/' ∈ formatNumber x := by simp [formatNumber, hf', hp, NumLit.print]
          simp [shownNum, hf', hd, ha, this]
      · have := hdec (toDouble x.val) (toDouble_nonneg hx)
        have e : formatNumber x = formatFloat (toDouble x.val) := by
          simp [formatNumber, hf', formatFraction_fallback x.val hd ha]
        simp [shownNum, hf', hd, ha, e, this.1, this.2]

/-- **value and error of what is read back** (decimal notation).  `y` is the number shown (`x.val` for a float, the nearest
    double for a Fraction without an allowed denominator), `d = fracDigits 3 y` the decimals the budget leaves:
    * no point shown: the `int` read back is `y` rounded half-to-even to `d` decimals - within half a unit `10^-d`;
    * point shown: the `float` read back is the double nearest to that rounded decimal - within half a unit plus
      `2·10^3/2^53 ≈ 2.2·10^-13` half-units (the reader's own rounding; see `reader_excess_witness`). -/
theorem reader_value_err (y : Rat) (hy : 0 ≤ y) :
    (decimalNum y).val = (if '.' ∈ formatFloat y then toDouble (roundedDecimal y) else roundedDecimal y) ∧
    ('.' ∉ formatFloat y →
      2 * ((10 ^ fracDigits Gen.significantFigures y : Nat) : Rat) * ((decimalNum y).val - y) ≤ 1 ∧
      2 * ((10 ^ fracDigits Gen.significantFigures y : Nat) : Rat) * (y - (decimalNum y).val) ≤ 1) ∧
    ('.' ∈ formatFloat y →
      2 * ((10 ^ fracDigits Gen.significantFigures y : Nat) : Rat) * ((decimalNum y).val - y)
        ≤ 1 + 2 * ((10 ^ Gen.significantFigures : Nat) : Rat) / 9007199254740992 ∧
      2 * ((10 ^ fracDigits Gen.significantFigures y : Nat) : Rat) * (y - (decimalNum y).val)
        ≤ 1 + 2 * ((10 ^ Gen.significantFigures : Nat) : Rat) / 9007199254740992) := by
  refine ⟨?_, decimalNum_err y hy⟩
  simp only [decimalNum]; split <;> rfl

/-- the rounded decimal is the value C11.1 proves for the shown text (`formatFloat_value`, via the specification reader
    `readDecimal`): both readers return what `readDecimal` reads, up to the final `toDouble` -/
theorem roundedDecimal_eq_readDecimal (y : Rat) (hy : 0 ≤ y) :
    readDecimal (formatFloat y) = some (roundedDecimal y) :=
  formatFloat_value Gen.significantFigures y hy

/-- **all of it, reader (b)**: the text of `format_number x` is read by `number_parser.number` as a value `v` with
    * `x` an int (or integer-valued Fraction): `v = x` exactly, kind `int`;
    * `x` a Fraction with an allowed denominator: `v = x` exactly, kind `Fraction`;
    * otherwise (`y` = the float, or the nearest double of the Fraction): `v = decimalNum y`, whose value, kind and
      distance from `y` are given by `reader_value_err` and `shownNum_kind`. -/
theorem reader_reads_format_cases (x : Num) (hx : 0 ≤ x.val) (hb : x.val < ((10 ^ (maxLen - 10) : Nat) : Rat)) :
    ∃ v, numberReader (formatNumber x) = .value v ∧
      (x.isFlt = false → x.val.den = 1 → v = ⟨x.val, .int⟩) ∧
      (x.isFlt = false → x.val.den ≠ 1 → x.val.den ∈ Gen.allowedDenominators → v = ⟨x.val, .frac⟩) ∧
      (x.isFlt = true → v = decimalNum x.val) ∧
      (x.isFlt = false → x.val.den ≠ 1 → x.val.den ∉ Gen.allowedDenominators → v = decimalNum (toDouble x.val)) ∧
      v.kind = (if '/' ∈ formatNumber x then .frac else if '.' ∈ formatNumber x then .flt else .int) :=
  ⟨shownNum x, reader_reads_format x hx hb, shownNum_int x, shownNum_fraction x, shownNum_float x,
    shownNum_fallback x, shownNum_kind x hx⟩

/-- the kind read back from decimal notation, by value: an `int` exactly when the shown decimal is a whole number
    (a point is shown exactly when it is not: `point_shown_iff`) -/
theorem reader_kind_by_value (y : Rat) (hy : 0 ≤ y) :
    ('.' ∈ formatFloat y ↔ (roundedDecimal y).den ≠ 1) ∧
    (decimalNum y).kind = (if (roundedDecimal y).den = 1 then .int else .flt) :=
  ⟨point_shown_iff y hy, decimalNum_kind y hy⟩

/-- what is read back from a decimal text is shown as that text again -/
theorem formatNumber_decimalNum (y : Rat) (hy : 0 ≤ y) : formatNumber (decimalNum y) = formatFloat y := by
  by_cases hd : '.' ∈ formatFloat y
  · simp only [decimalNum, hd, if_true, formatNumber, Num.isFlt]
    exact formatFloat_redisplay y hy hd
  · obtain ⟨l, -, hp, -, ⟨n, rfl, hn⟩ | ⟨s, rfl, -, -, -⟩⟩ := formatFloat_spelling y hy
    · have e : decimalNum y = ⟨(n : Rat), .int⟩ := by simp only [decimalNum, hd, if_false, hn]
      rw [e, hp]
      exact format_int_exact n
    · exact absurd (by rw [hp]; simp [NumLit.print]) hd

/-- **display ∘ read ∘ display = display**: the number either reader returns for the text of `format_number x` is shown
    as exactly that text again (for decimals: the double nearest to a shown decimal of at most three significant digits
    is displayed as the same decimal - the reader's own rounding never changes what is shown) -/
theorem redisplay_stable (x : Num) (hx : 0 ≤ x.val) : formatNumber (shownNum x) = formatNumber x := by
  by_cases hf : x.isFlt = true
  · rw [shownNum_float x hf, formatNumber_decimalNum x.val hx]
    simp [formatNumber, hf]
  · have hf' : x.isFlt = false := by simpa using hf
    by_cases hd : x.val.den = 1
    · have e : (⟨x.val, NumKind.int⟩ : Num).isFlt = false := rfl
      rw [shownNum_int x hf' hd]; simp only [formatNumber, hf', e]
    · by_cases ha : x.val.den ∈ Gen.allowedDenominators
      · have e : (⟨x.val, NumKind.frac⟩ : Num).isFlt = false := rfl
        rw [shownNum_fraction x hf' hd ha]; simp only [formatNumber, hf', e]
      · rw [shownNum_fallback x hf' hd ha, formatNumber_decimalNum _ (toDouble_nonneg hx)]
        simp [formatNumber, hf', formatFraction_fallback x.val hd ha]

/-- hence reading is stable too: what is read back from the re-displayed text is the same number -/
theorem reread_stable (x : Num) (hx : 0 ≤ x.val) (hb : x.val < ((10 ^ (maxLen - 10) : Nat) : Rat)) :
    numberReader (formatNumber (shownNum x)) = .value (shownNum x) := by
  rw [redisplay_stable x hx]; exact reader_reads_format x hx hb

/-! ## reader (a): the recipe grammar's `number` rule -/

/-- what may follow a number in the recipe text for `number` to stop exactly at its end: no ".", and - after optional
    blanks - neither a digit nor a "/" (so in particular no digit directly).  The end of the text qualifies. -/
def FollowsNumber (rest : Str) : Prop :=
  rest.head? ≠ some '.' ∧ ∀ c, (rest.dropWhile isHsp).head? = some c → isDigit c = false ∧ c ≠ '/'

theorem followsNumber_nil : FollowsNumber [] := by
  constructor
  · simp
  · intro c hc; simp at hc

theorem FollowsNumber.follow {rest : Str} (h : FollowsNumber rest) (l : NumLit) : l.Follow rest := by
  have hnd : NextNot isDigit rest := by
    intro c hc
    cases hd : isDigit c with
    | false => rfl
    | true =>
      have hh := isHsp_of_isDigit hd
      cases rest with
      | nil => cases hc
      | cons x xs =>
        simp only [List.head?_cons, Option.some.injEq] at hc
        subst hc
        have := (h.2 x (by simp [hh])).1
        rw [hd] at this; cases this
  cases l with
  | int ds => exact h
  | dec w f => exact hnd
  | frac p s2 q => exact hnd
  | mixed w s0 p s1 s2 q => exact hnd

/-- **main theorem, reader (a)**: wherever the text of `format_number x` stands in a recipe (after any `pre`), followed by
    the end of the text or anything that `FollowsNumber` allows, the grammar's `number` rule consumes exactly that text
    and returns `shownNum x` - the same number, with the same kind, as reader (b). -/
theorem grammar_reads_format (x : Num) (hx : 0 ≤ x.val) (pre rest : Str) (z : Bool) (hrest : FollowsNumber rest) :
    number (pre ++ formatNumber x ++ rest).toArray ⟨pre.length, z⟩
      = some ((pre.length, shownNum x), ⟨(pre ++ formatNumber x).length, z⟩) := by
  obtain ⟨l, hwf, hp, hv⟩ := formatNumber_spelling x hx
  rw [hp, ← hv]
  exact number_roundtrip pre l rest z hwf (hrest.follow l)

/-- the bare text, matched completely -/
theorem grammar_reads_format_whole (x : Num) (hx : 0 ≤ x.val) (z : Bool) :
    number (formatNumber x).toArray ⟨0, z⟩ = some ((0, shownNum x), ⟨(formatNumber x).length, z⟩) := by
  have := grammar_reads_format x hx [] [] z followsNumber_nil
  simpa using this

/-- both readers read every shown text alike -/
theorem readers_agree_on_format (x : Num) (hx : 0 ≤ x.val) (hb : x.val < ((10 ^ (maxLen - 10) : Nat) : Rat)) (z : Bool) :
    numberReader (formatNumber x) = .value (shownNum x) ∧
    number (formatNumber x).toArray ⟨0, z⟩ = some ((0, shownNum x), ⟨(formatNumber x).length, z⟩) :=
  ⟨reader_reads_format x hx hb, grammar_reads_format_whole x hx z⟩

/-! ## the two readers compared on every text -/

/-- **`readers_agree`**: on every text of at most `maxLen` characters that the grammar's `number` rule matches
    completely, `number_parser.number` returns the same value with the same kind.  (Such a text is in **L**:
    `readers_agree_inL`.) -/
theorem readers_agree (s : Str) (hlen : s.length ≤ maxLen) (z : Bool) {off : Nat} {v : Num} {s' : PState}
    (h : number s.toArray ⟨0, z⟩ = some ((off, v), s')) (hall : s'.pos = s.length) :
    numberReader s = .value v := by
  obtain ⟨l, rest, hwf, hd, -, hr, hs⟩ := number_inv h
  simp only [List.drop_zero] at hd
  have hd' : s = l.print ++ rest := by simpa using hd
  have hrest : rest = [] := by
    rw [hs] at hall
    have := congrArg List.length hd'
    simp only [List.length_append] at this
    have : rest.length = 0 := by simp at hall; omega
    exact List.length_eq_zero_iff.mp this
  subst hrest
  rw [List.append_nil] at hd'
  have hv : v = l.value := by
    have := congrArg Prod.snd hr
    exact this
  rw [hv, hd']
  exact numberReader_of_wf l hwf (hd' ▸ hlen)

/-- a text the grammar's `number` rule matches completely consists of characters of **L** -/
theorem readers_agree_inL (s : Str) (hlen : s.length ≤ maxLen) (z : Bool) {r : Nat × Num} {s' : PState}
    (h : number s.toArray ⟨0, z⟩ = some (r, s')) (hall : s'.pos = s.length) : inL s = true := by
  have h2 := readers_agree s hlen z (off := r.1) (v := r.2) (s' := s') h hall
  cases hL : inL s with
  | true => rfl
  | false => simp [numberReader, hL] at h2

/-- the grammar's `number` rule never matches a zero denominator and never fails with an error: on a text it matches
    completely the other reader neither raises `ValueError` nor `ZeroDivisionError` -/
theorem reader_total_on_grammar_numbers (s : Str) (hlen : s.length ≤ maxLen) (z : Bool) {r : Nat × Num} {s' : PState}
    (h : number s.toArray ⟨0, z⟩ = some (r, s')) (hall : s'.pos = s.length) :
    numberReader s ≠ .valueError ∧ numberReader s ≠ .zeroDivision ∧ numberReader s ≠ .outside := by
  have h2 := readers_agree s hlen z (off := r.1) (v := r.2) (s' := s') h hall
  rw [h2]
  exact ⟨(by intro h; cases h), (by intro h; cases h), (by intro h; cases h)⟩

/-! ## exactly where the two readers differ -/

/-- the grammar's `number` rule matches the whole of the bare text `s` -/
def GrammarMatchesAll (s : Str) (z : Bool) : Prop :=
  ∃ r s', number s.toArray ⟨0, z⟩ = some (r, s') ∧ s'.pos = s.length

/-- the last character of a permitted spelling is a digit or the point, never a blank -/
theorem print_getLast_not_blank (l : NumLit) (h : l.WF) : ∀ c, l.print.getLast? = some c → isHsp c = false := by
  have hdig : ∀ (a q : Str), IsDigits q → ∀ c, (a ++ q).getLast? = some c → isHsp c = false := by
    intro a q hq c hc
    rw [List.getLast?_append] at hc
    cases hq' : q.getLast? with
    | none => exact absurd (List.getLast?_eq_none_iff.mp hq') hq.1
    | some x =>
      simp [hq'] at hc; subst hc
      exact isHsp_of_isDigit (hq.2 _ (List.mem_of_getLast? hq'))
  cases l with
  | int ds => exact hdig [] ds h
  | dec w f => exact getLast?_append_cons_digits (by decide) h.2
  | frac p s2 q => exact hdig _ q h.2.2.1
  | mixed w s0 p s1 s2 q => exact hdig _ q h.2.2.2.2.2.2.1

/-- the grammar's rule does not skip blanks and needs a digit first -/
theorem grammar_none_of_head {s : Str} {c : Char} (hc : s.head? = some c) (h : isHsp c = true ∨ c = '.') (z : Bool) :
    number s.toArray ⟨0, z⟩ = none := by
  apply number_fail_of_head z (s := s) (by simp)
  intro d hd
  rw [hc] at hd; cases hd
  rcases h with h | rfl
  · exact isDigit_of_isHsp h
  · decide

/-- a blank before the slash with a single digit run before it: the grammar's rule takes the digit run as an
    integer part, finds no numerator, gives the fraction up and reads the integer alone -/
theorem grammar_int_of_blank_before_slash {p s1 r : Str} (hp : IsDigits p) (hne : s1 ≠ []) (hs1 : IsBlanks s1) (z : Bool) :
    number (p ++ s1 ++ '/' :: r).toArray ⟨0, z⟩ = some ((0, ⟨((digitsValue p : Nat) : Rat), .int⟩), ⟨p.length, z⟩) := by
  have key : ∀ (t : Array Char) (i : Nat), t.toList.drop i = p ++ (s1 ++ '/' :: r) →
      number t ⟨i, z⟩ = some ((i, ⟨((digitsValue p : Nat) : Rat), .int⟩), ⟨i + p.length, z⟩) := by
    intro t i h0
    have hnd : ∀ c, (s1 ++ '/' :: r).head? = some c → isDigit c = false :=
      follow_of_run (fun c => isDigit_of_isHsp) hne hs1
    have hd := digits_run z h0 hp.1 hp.2 hnd
    have h1 := drop_add_of_drop h0
    have hh := hsp_run z h1 hne hs1 (by simp [isHsp])
    have ho : opt (do let ds ← digits; hsp; pure ds) t ⟨i, z⟩
        = some (some p, ⟨i + p.length + s1.length, z⟩) := by
      apply opt_of_some; simp [hd, hh]
    have h2 := drop_add_of_drop h1
    have hd2 := digits_fail z h2 (by simp [isDigit])
    have hf : fraction t ⟨i, z⟩ = none := by
      simp only [fraction, bind_apply, getPos_apply, ho, hd2]
    rw [number_of_decimal hf]
    have hdot : (s1 ++ '/' :: r).head? ≠ some '.' := by
      cases s1 with
      | nil => exact absurd rfl hne
      | cons x xs =>
        simp only [List.cons_append, List.head?_cons, ne_eq, Option.some.injEq]
        rintro rfl
        have := hs1 '.' (by simp)
        simp [isHsp] at this
    have := decimal_int z h0 hp.1 hp.2 hnd hdot
    simpa [natOfDigits_eq_digitsValue] using this
  have := key (p ++ s1 ++ '/' :: r).toArray 0 (by simp)
  simpa using this

/-- **exactly where the readers differ, values**: a text of **L** that `number_parser.number` reads as `v` is either
    matched completely by the grammar's `number` rule - which then returns the same `v` (`readers_agree`) - or it
    * starts or ends with a blank (`int()`/`float()` strip blanks), or
    * starts with the point (`float(".5")`), or
    * has one digit run, then blanks, then the slash (`fullmatch` allows blanks on both sides of the slash; the grammar
      commits to an integer part as soon as a digit run is followed by a blank);
    and in these three classes the grammar's rule does *not* match the whole text (it matches nothing, or a proper
    prefix). -/
theorem readers_differ_exactly {s : Str} {v : Num} (h : numberReader s = .value v) (z : Bool) :
    (number s.toArray ⟨0, z⟩ = some ((0, v), ⟨s.length, z⟩)) ∨
    (¬ GrammarMatchesAll s z ∧
      ((∃ c, (s.head? = some c ∨ s.getLast? = some c) ∧ isHsp c = true) ∨ s.head? = some '.' ∨
       ∃ p s1 r, s = p ++ s1 ++ '/' :: r ∧ IsDigits p ∧ s1 ≠ [] ∧ IsBlanks s1)) := by
  have hnot_head : ∀ c, s.head? = some c → (isHsp c = true ∨ c = '.') → ¬ GrammarMatchesAll s z := by
    rintro c hc hcc ⟨r, s', hm, -⟩
    rw [grammar_none_of_head hc hcc z] at hm; cases hm
  have hnot_last : ∀ c, s.getLast? = some c → isHsp c = true → ¬ GrammarMatchesAll s z := by
    rintro c hc hcc ⟨r, s', hm, hall⟩
    obtain ⟨l, rest, hwf, hd, -, -, hs⟩ := number_inv hm
    have hd' : s = l.print ++ rest := by simpa using hd
    have hrest : rest = [] := by
      rw [hs] at hall
      have := congrArg List.length hd'
      simp only [List.length_append] at this
      have : rest.length = 0 := by simp at hall; omega
      exact List.length_eq_zero_iff.mp this
    subst hrest
    rw [List.append_nil] at hd'
    rw [hd'] at hc
    have := print_getLast_not_blank l hwf c hc
    rw [hcc] at this; cases this
  rcases numberReader_value_inv h with ⟨l, hwf, rfl, rfl⟩ | ⟨p, s1, s2, q, rfl, hp, hne, hs1, -⟩ |
      ⟨b1, ds, b2, rfl, hb1, hb2, hb, hds, -⟩ | ⟨b1, whole, fr, b2, rfl, hb1, hb2, hb, hw, hf, hne, -⟩
  · left
    have := number_roundtrip [] l [] z hwf (followsNumber_nil.follow l)
    simpa using this
  · right
    refine ⟨?_, Or.inr (Or.inr ⟨p, s1, s2 ++ q, by simp, hp, hne, hs1⟩)⟩
    rintro ⟨r, s', hm, hall⟩
    have e : p ++ s1 ++ '/' :: s2 ++ q = p ++ s1 ++ '/' :: (s2 ++ q) := by simp
    rw [e, grammar_int_of_blank_before_slash hp hne hs1 z] at hm
    cases hm
    simp only [List.length_append, List.length_cons] at hall
    have := List.length_pos_iff.mpr hne
    omega
  · right
    rcases hb with hb | hb
    · cases b1 with
      | nil => exact absurd rfl hb
      | cons c cs =>
        have hc : isHsp c = true := hb1 c (by simp)
        exact ⟨hnot_head c (by simp) (Or.inl hc), Or.inl ⟨c, Or.inl (by simp), hc⟩⟩
    · have hl : ∃ c, (b1 ++ ds ++ b2).getLast? = some c ∧ isHsp c = true := by
        cases hb2' : b2.getLast? with
        | none => exact absurd (List.getLast?_eq_none_iff.mp hb2') hb
        | some c => exact ⟨c, by rw [List.getLast?_append, hb2']; rfl, hb2 c (List.mem_of_getLast? hb2')⟩
      obtain ⟨c, hc1, hc2⟩ := hl
      exact ⟨hnot_last c hc1 hc2, Or.inl ⟨c, Or.inr hc1, hc2⟩⟩
  · right
    rcases hb with hb | hb | hb
    · cases b1 with
      | nil => exact absurd rfl hb
      | cons c cs =>
        have hc : isHsp c = true := hb1 c (by simp)
        exact ⟨hnot_head c (by simp) (Or.inl hc), Or.inl ⟨c, Or.inl (by simp), hc⟩⟩
    · have hl : ∃ c, (b1 ++ (whole ++ '.' :: fr) ++ b2).getLast? = some c ∧ isHsp c = true := by
        cases hb2' : b2.getLast? with
        | none => exact absurd (List.getLast?_eq_none_iff.mp hb2') hb
        | some c => exact ⟨c, by rw [List.getLast?_append, hb2']; rfl, hb2 c (List.mem_of_getLast? hb2')⟩
      obtain ⟨c, hc1, hc2⟩ := hl
      exact ⟨hnot_last c hc1 hc2, Or.inl ⟨c, Or.inr hc1, hc2⟩⟩
    · subst hb
      cases b1 with
      | nil =>
        have hh : ([] ++ ([] ++ '.' :: fr) ++ b2 : Str).head? = some '.' := by simp
        exact ⟨hnot_head '.' hh (Or.inr rfl), Or.inr (Or.inl hh)⟩
      | cons c cs =>
        have hc : isHsp c = true := hb1 c (by simp)
        exact ⟨hnot_head c (by simp) (Or.inl hc), Or.inl ⟨c, Or.inl (by simp), hc⟩⟩

/-- **exactly where the readers differ, errors**: `number_parser.number` raises `ZeroDivisionError` (its docstring
    promises `ValueError`) exactly on the fraction spellings whose denominator is a run of zeros; the grammar's rule
    never matches such a text completely (its denominator pattern demands a non-zero digit), so no recipe text can
    trigger it - but `recipe-grid --scale 1/0` can. -/
theorem zeroDivision_only_outside_grammar {s : Str} (h : numberReader s = .zeroDivision) (z : Bool) :
    ¬ GrammarMatchesAll s z ∧
    ∃ pre p s1 s2 q, s = pre ++ p ++ s1 ++ '/' :: s2 ++ q ∧
      (pre = [] ∨ ∃ w s0, pre = w ++ s0 ∧ IsDigits w ∧ s0 ≠ [] ∧ IsBlanks s0) ∧
      IsDigits p ∧ IsBlanks s1 ∧ IsBlanks s2 ∧ IsDigits q ∧ digitsValue q = 0 := by
  refine ⟨?_, numberReader_zeroDivision_inv h⟩
  rintro ⟨⟨off, v⟩, s', hm, hall⟩
  have hlen : s.length ≤ maxLen := by
    cases hL : inL s with
    | false => simp [numberReader, hL] at h
    | true => exact (inL_iff.mp hL).1
  rw [readers_agree s hlen z hm hall] at h
  cases h

/-! ## non-vacuity: the theorems' hypotheses are met by concrete numbers, and the model computes the stated results -/

/-- 9.9951171875 (a double; two decimals; 999.51… rounds to 1000, carried): shown "10", read back as the int 10 by both -/
example : formatNumber ⟨mkRat 10235 1024, .flt⟩ = "10".toList ∧ shownNum ⟨mkRat 10235 1024, .flt⟩ = ⟨10, .int⟩ ∧
    numberReader "10".toList = .value ⟨10, .int⟩ ∧
    number "10".toList.toArray ⟨0, false⟩ = some ((0, ⟨10, .int⟩), ⟨2, false⟩) := by decide +kernel
/-- the exact rational 9.995 of C11's carry example -/
example : numberReader (formatNumber ⟨mkRat 1999 200, .flt⟩) = .value ⟨10, .int⟩ := by decide +kernel
/-- 3/4 and 1 3/4: Fractions, exactly -/
example : formatNumber ⟨mkRat 3 4, .frac⟩ = "3/4".toList ∧ numberReader "3/4".toList = .value ⟨mkRat 3 4, .frac⟩ ∧
    number "3/4".toList.toArray ⟨0, false⟩ = some ((0, ⟨mkRat 3 4, .frac⟩), ⟨3, false⟩) := by decide +kernel
example : formatNumber ⟨mkRat 7 4, .frac⟩ = "1 3/4".toList ∧ numberReader "1 3/4".toList = .value ⟨mkRat 7 4, .frac⟩ ∧
    number "1 3/4".toList.toArray ⟨0, false⟩ = some ((0, ⟨mkRat 7 4, .frac⟩), ⟨5, false⟩) := by decide +kernel
/-- 0.00045: nothing of it fits the budget; shown "0", read back as the int 0 -/
example : formatNumber ⟨mkRat 45 100000, .flt⟩ = "0".toList ∧ shownNum ⟨mkRat 45 100000, .flt⟩ = ⟨0, .int⟩ ∧
    numberReader "0".toList = .value ⟨0, .int⟩ := by decide +kernel
/-- 0.125 (a double): shown in full, and the double read back is the number itself -/
example : formatNumber ⟨mkRat 1 8, .flt⟩ = "0.125".toList ∧ numberReader "0.125".toList = .value ⟨mkRat 1 8, .flt⟩ ∧
    number "0.125".toList.toArray ⟨0, false⟩ = some ((0, ⟨mkRat 1 8, .flt⟩), ⟨5, false⟩) := by decide +kernel
/-- 1/9 (9 is not an allowed denominator): goes through the nearest double, shown "0.111", read back as the double of 0.111 -/
example : formatNumber ⟨mkRat 1 9, .frac⟩ = "0.111".toList ∧
    numberReader "0.111".toList = .value ⟨toDouble (mkRat 111 1000), .flt⟩ ∧
    shownNum ⟨mkRat 1 9, .frac⟩ = ⟨toDouble (mkRat 111 1000), .flt⟩ := by decide +kernel
/-- the hypotheses of `reader_reads_format` hold for these -/
example : (0 : Rat) ≤ (⟨mkRat 10235 1024, .flt⟩ : Num).val ∧
    (⟨mkRat 10235 1024, .flt⟩ : Num).val < ((10 ^ (maxLen - 10) : Nat) : Rat) := by decide +kernel
/-- `FollowsNumber` is met by the end of the text, by a unit, by a closing brace, by a comma -/
example : FollowsNumber [] ∧ FollowsNumber " g".toList ∧ FollowsNumber "}".toList ∧ FollowsNumber ", x".toList ∧
    ¬ FollowsNumber " 1".toList ∧ ¬ FollowsNumber "/2".toList ∧ ¬ FollowsNumber ".5".toList := by
  refine ⟨followsNumber_nil, ?_, ?_, ?_, ?_, ?_, ?_⟩ <;> simp [FollowsNumber, isHsp, isDigit]

/-- **the reader's own rounding is visible** (why `reader_value_err` has the `2^-42`-sized excess): 10.25 is shown as
    "10.2" (tie, half-to-even), exactly half a unit (0.05) away; `number_parser.number("10.2")` is the double
    10.199999999999999289…, which is *more* than half a unit from 10.25. -/
theorem reader_excess_witness :
    let y : Rat := mkRat 41 4
    formatNumber ⟨y, .flt⟩ = "10.2".toList ∧
    numberReader "10.2".toList = .value ⟨toDouble (mkRat 51 5), .flt⟩ ∧
    2 * ((10 ^ fracDigits Gen.significantFigures y : Nat) : Rat) * (y - roundedDecimal y) = 1 ∧
    1 < 2 * ((10 ^ fracDigits Gen.significantFigures y : Nat) : Rat) * (y - toDouble (mkRat 51 5)) := by
  decide +kernel

/-- `redisplay_stable` on the same number: the double 10.199999999999999289… is shown as "10.2" again -/
example : formatNumber (shownNum ⟨mkRat 41 4, .flt⟩) = "10.2".toList ∧
    shownNum ⟨mkRat 41 4, .flt⟩ = ⟨toDouble (mkRat 51 5), .flt⟩ ∧ toDouble (mkRat 51 5) ≠ mkRat 51 5 := by decide +kernel

/-! ## where the two readers differ (each run on the real code by `corr_L4.py`) -/

/-- a blank before the slash without an integer part: `number()` reads 1/2, the grammar rule reads the int 1 and stops -/
example : numberReader "1 /2".toList = .value ⟨mkRat 1 2, .frac⟩ ∧
    number "1 /2".toList.toArray ⟨0, false⟩ = some ((0, ⟨1, .int⟩), ⟨1, false⟩) := by decide +kernel
/-- zero denominators: `number()` raises `ZeroDivisionError` (its docstring promises `ValueError`); the grammar rule does
    not match the fraction and reads the int before the slash -/
example : numberReader "1/0".toList = .zeroDivision ∧ numberReader "2 1/00".toList = .zeroDivision ∧
    number "1/0".toList.toArray ⟨0, false⟩ = some ((0, ⟨1, .int⟩), ⟨1, false⟩) := by decide +kernel
/-- blanks around the number: `int()`/`float()` strip them; the grammar rule does not skip them -/
example : numberReader " 12".toList = .value ⟨12, .int⟩ ∧ number " 12".toList.toArray ⟨0, false⟩ = none ∧
    numberReader "1.5\t".toList = .value ⟨mkRat 3 2, .flt⟩ ∧
    number "1.5\t".toList.toArray ⟨0, false⟩ = some ((0, ⟨mkRat 3 2, .flt⟩), ⟨3, false⟩) := by decide +kernel
/-- … but not around a fraction: `fullmatch` does not strip -/
example : numberReader " 1/2".toList = .valueError ∧ numberReader "1/2 ".toList = .valueError := by decide +kernel
/-- no digit before the point: `float()` accepts it, the grammar rule does not -/
example : numberReader ".5".toList = .value ⟨mkRat 1 2, .flt⟩ ∧ number ".5".toList.toArray ⟨0, false⟩ = none := by
  decide +kernel
/-- agreed by both: no digit after the point -/
example : numberReader "12.".toList = .value ⟨12, .flt⟩ ∧
    number "12.".toList.toArray ⟨0, false⟩ = some ((0, ⟨12, .flt⟩), ⟨3, false⟩) := by decide +kernel
/-- plain `ValueError`s, and texts outside **L** (no claim) -/
example : numberReader [] = .valueError ∧ numberReader ".".toList = .valueError ∧ numberReader "1 2".toList = .valueError ∧
    numberReader "1/2/3".toList = .valueError ∧ numberReader "1.2.3".toList = .valueError ∧
    numberReader "1e3".toList = .outside ∧ numberReader "-1".toList = .outside ∧ numberReader "1_0".toList = .outside := by
  decide +kernel
/-- leading zeros -/
example : numberReader "007".toList = .value ⟨7, .int⟩ ∧ numberReader "1 01/02".toList = .value ⟨mkRat 3 2, .frac⟩ := by
  decide +kernel

end RG.C11
