import RecipeGrid.Lemmas.MdContainers5
import RecipeGrid.Props.C19d
/-! C19.4 — recipe blocks inside block quotes and list items.

    `Props/C19d.lean` proves, for the container-free sub-language **D**, that every line of the text handed to the compiler is
    the document line of the same number.  Property C19 says "wherever the block sits (… in a list or quote …)".  Here the
    scanner is extended (`Model/MdContainers.lean`: `scanBlocks2`, compared exactly with marko by `corr_L20.py`) to the
    sub-language **D2 ⊇ D** (`inDoc2`) with one level of container, and the same statements are proved for **D2**: a line of a
    code block inside a container is the document line less the container prefix (`isCPrefix`: the list item's indentation —
    spaces —, or up to 3 spaces, `>` and at most one space) and at most 3 spaces of fence indentation (4 for an indented block). -/
namespace RG.C19

/-- **`scan2_conservative`**: on the container-free sub-language the extended scanner is the old one -/
theorem scan2_conservative (doc : Str) (hD : inDoc doc = true) :
    inDoc2 doc = true ∧ scanBlocks2 doc = scanBlocks doc :=
  ⟨inDoc2_of_inDoc doc hD, scanBlocks2_of_inDoc doc hD⟩

/-- where a block of `scanBlocks2 doc` comes from: the tagged line that opens it -/
theorem scan2_origin (doc : Str) (b : MdBlock) (hb : b ∈ scanBlocks2 doc) :
    ∃ pre t rest, tagDoc2 doc = pre ++ t :: rest ∧
      ((∃ f, t.tag = .fenceOpen f ∧
          b = ⟨.fenced f.lang, lenSum2 pre,
                fencedSource f.indent ((rest.takeWhile (·.tag.isFenceBody)).map TLine2.inner),
                1 + lineSum2 pre + pyLineCount t.text⟩) ∨
       (t.tag = .codeStart ∧
          b = ⟨.indented, lenSum2 pre, codeSource ((t :: rest.takeWhile (·.tag.isCodeMore)).map TLine2.inner),
                1 + lineSum2 pre⟩)) := by
  obtain ⟨pre, t, rest, hts, h⟩ := mem_assemble2 hb
  refine ⟨pre, t, rest, hts, ?_⟩
  rcases h with ⟨f, hf, h⟩ | ⟨hc, h⟩
  · exact Or.inl ⟨f, hf, by rw [h]; simp⟩
  · exact Or.inr ⟨hc, by rw [h]; simp⟩

/-- **the padding is the number of document lines before the block's first content line**, also inside containers: `pos`
    is the offset of the whole line (container prefix included) that holds the opening fence -/
theorem scan2_padding (doc : Str) (hD : inDoc2 doc = true) (b : MdBlock) (hb : b ∈ scanBlocks2 doc) :
    mdPadding doc b.pos b.kind.isFenced + 1 = b.startLine := by
  obtain ⟨pre, t, rest, hts, h⟩ := scan2_origin doc b hb
  have hline := line_of_block_start2 doc pre t rest hts
  rcases h with ⟨f, hf, rfl⟩ | ⟨hc, rfl⟩
  · have h1 := (fenced2_block_lines doc hD pre t rest f hts hf).1
    simp only [mdPadding, CodeBlockKind.isFenced, hline, if_true, h1]
    omega
  · simp only [mdPadding, CodeBlockKind.isFenced, hline]
    simp; omega

/-- **`scan2_block_lines`** (main): for every document of **D2** and every code block `b` the scanner finds in it — fenced or
    indented; at top level, in a block quote or in a list item —, every line of the text the compiler is given for `b`
    from line `b.startLine` on is the document's own line `d` of the same number with a prefix of `q + p` characters
    removed: `q` characters of container prefix (`isCPrefix (d.take q)`: nothing, or the spaces of the list item's
    indentation, or up to 3 spaces, `>` and at most one space) followed by `p ≤ 3` spaces of fence indentation
    (`p ≤ 4` spaces for an indented block).  So a token at line `l`, column `c` of what the compiler sees sits on line
    `l` of the document, at column `c + q + p`.

    The exception is the one of `scan_block_lines` (an indented block at the very end of a document that ends in a
    line-break character other than the newline: one empty line more than the document has). -/
theorem scan2_block_lines (doc : Str) (hD : inDoc2 doc = true) (b : MdBlock) (hb : b ∈ scanBlocks2 doc) (j : Nat) (s : Str)
    (hs : extractLine (paddedSource doc b.pos b.kind.isFenced b.source) (b.startLine + j) = some s) :
    (∃ d q p, extractLine (crToLf (normaliseCrLf doc)) (b.startLine + j) = some d ∧
        isCPrefix (d.take q) = true ∧
        p ≤ (if b.kind.isFenced then 3 else 4) ∧ (∀ c ∈ (d.drop q).take p, c = ' ') ∧
        s = d.drop (q + p) ∧ q + p + s.length = d.length) ∨
      (b.kind.isFenced = false ∧ s = [] ∧
        b.startLine + j = (splitLines (paddedSource doc b.pos b.kind.isFenced b.source)).length ∧
        extractLine (crToLf (normaliseCrLf doc)) (b.startLine + j) = none) := by
  have hpad := scan2_padding doc hD b hb
  obtain ⟨pre, t, rest, hts, h⟩ := scan2_origin doc b hb
  have hN := tagDoc2_norm doc pre t rest hts
  have htne : t.text ≠ [] := ((tagDoc2_linesOk doc pre t rest hts).append_right).1.1
  have hNne : crToLf (normaliseCrLf doc) ≠ [] := by
    rw [Ne, crToLf_eq_nil, hN]; simp [htne]
  rw [extractLine_eq_plines _ hNne (not_cr_mem_crToLf _) _ (by omega)]
  rw [paddedSource_eq] at hs ⊢
  rcases h with ⟨f, hf, hbe⟩ | ⟨hc, hbe⟩
  · -- fenced
    have hk : mdPadding doc b.pos b.kind.isFenced = lineSum2 pre + pyLineCount t.text := by
      rw [hbe] at hpad ⊢; simp only at hpad ⊢; omega
    have hst : b.startLine + j - 1 = lineSum2 pre + pyLineCount t.text + j := by rw [hbe]; simp only; omega
    have h1 := (fenced2_block_lines doc hD pre t rest f hts hf).1
    have hpne : List.replicate (mdPadding doc b.pos b.kind.isFenced) '\n' ++ crToLf b.source ≠ [] := by
      rw [hk, h1]; simp [List.replicate_succ]
    rw [extractLine_eq_plines _ hpne (not_cr_mem_padded _ _) _ (by omega), hk, hst] at hs
    rw [hst]
    have hsrc : b.source = fencedSource f.indent ((rest.takeWhile (·.tag.isFenceBody)).map TLine2.inner) := by rw [hbe]
    rw [hsrc] at hs
    obtain ⟨d, hd, pfx, hde, a, p, hpfx, ha, hp⟩ := (fenced2_block_lines doc hD pre t rest f hts hf).2 j s hs
    have hsound : TagSound t.inner := (tagLines2_sound _ _ t (by
      rw [show tagLines2 ⟨.none, .top⟩ (mdLines (normaliseCrLf doc)) = tagDoc2 doc from rfl, hts]; simp)).1
    simp only [TagSound, TLine2.inner, hf] at hsound
    have hf3 := fenceOpen?_indent_le _ _ hsound
    left
    subst hpfx
    refine ⟨d, a.length, p, hd, ?_, ?_, ?_, ?_, ?_⟩
    · rw [hde, List.append_assoc, List.take_left' rfl]; exact ha
    · rw [hbe]; simp only [CodeBlockKind.isFenced, if_true]; omega
    · intro c hc
      rw [hde, List.append_assoc, List.drop_left' rfl, List.take_left' (by simp)] at hc
      exact (List.mem_replicate.mp hc).2
    · rw [hde, List.drop_left' (by simp)]
    · rw [hde]; simp; omega
  · -- indented
    have hk : mdPadding doc b.pos b.kind.isFenced = lineSum2 pre := by
      rw [hbe] at hpad ⊢; simp only at hpad ⊢; omega
    have hst : b.startLine + j - 1 = lineSum2 pre + j := by rw [hbe]; simp only; omega
    have hsrc : b.source = codeSource ((t :: rest.takeWhile (·.tag.isCodeMore)).map TLine2.inner) := by rw [hbe]
    have hpne : List.replicate (mdPadding doc b.pos b.kind.isFenced) '\n' ++ crToLf b.source ≠ [] := by
      rw [hsrc]; simp [codeSource, crToLf]
    rw [extractLine_eq_plines _ hpne (not_cr_mem_padded _ _) _ (by omega), hk, hst] at hs
    rw [hst]
    rw [hsrc] at hs
    rcases code2_block_lines doc hD pre t rest hts hc j s hs with ⟨d, hd, pfx, hde, a, p, hpfx, ha, hp⟩ | ⟨hse, hlast, hnone⟩
    · left
      subst hpfx
      refine ⟨d, a.length, p, hd, ?_, ?_, ?_, ?_, ?_⟩
      · rw [hde, List.append_assoc, List.take_left' rfl]; exact ha
      · rw [hbe]; simp only [CodeBlockKind.isFenced]; simp; omega
      · intro c hc
        rw [hde, List.append_assoc, List.drop_left' rfl, List.take_left' (by simp)] at hc
        exact (List.mem_replicate.mp hc).2
      · rw [hde, List.drop_left' (by simp)]
      · rw [hde]; simp; omega
    · right
      refine ⟨by rw [hbe]; rfl, hse, ?_, hnone⟩
      rw [splitLines_eq_plines _ (not_cr_mem_padded _ _), hk, plines_replicate_nl, hsrc]
      simp only [List.length_append, List.length_replicate]
      rw [← hlast, hbe]; simp only; omega

/-! ## errors are reported at their document line, also inside containers -/

/-- **`doc2_error_line`** (C19, end to end for **D2**): take any list `grp` of code blocks found by the scanner in a document
    of **D2** — at top level, in block quotes, in list items.  If compiling their texts reports a located error in block
    `i` at line `l`, column `c` of that block's text, then compiling what `markdown.py` actually passes to the compiler
    (`mdSources`: the texts padded by `get_line_number_corrected_source`) reports the same error in the same block at
    line `b.startLine + (l - 1)`, column `c`, quoting the same line `q` — and line `b.startLine + (l - 1)` **of the
    document** is `q` behind `n = qc + p` characters: `qc` of container prefix (`isCPrefix`) and `p ≤ 3` (fenced) or
    `p ≤ 4` (indented) spaces of indentation; the character at column `c` of the quoted line is the character at
    column `c + n` of the document line (`q[i]? = d[n + i]?`).  Nothing about marko is assumed. -/
theorem doc2_error_line (doc : Str) (hD : inDoc2 doc = true) (grp : List MdBlock) (hg : ∀ b ∈ grp, b ∈ scanBlocks2 doc)
    (i off : Nat)
    (hc : compile (grp.map fun b => crToLf b.source) = .redefined i off ∨
          compile (grp.map fun b => crToLf b.source) = .proportion i off) :
    ∃ b, grp[i]? = some b ∧ b ∈ scanBlocks2 doc ∧
      (compile (grp.map fun b => crToLf b.source) = .redefined i off →
        compile (mdSources doc (grp.map fun b => (b.pos, b.kind.isFenced, b.source))) =
          .redefined i (off + (b.startLine - 1))) ∧
      (compile (grp.map fun b => crToLf b.source) = .proportion i off →
        compile (mdSources doc (grp.map fun b => (b.pos, b.kind.isFenced, b.source))) =
          .proportion i (off + (b.startLine - 1))) ∧
      offsetToLineCol (paddedSource doc b.pos b.kind.isFenced b.source) (off + (b.startLine - 1)) =
        (b.startLine + ((offsetToLineCol (crToLf b.source) off).1 - 1), (offsetToLineCol (crToLf b.source) off).2) ∧
      ∃ q, extractLine (crToLf b.source) (offsetToLineCol (crToLf b.source) off).1 = some q ∧
        extractLine (paddedSource doc b.pos b.kind.isFenced b.source)
          (b.startLine + ((offsetToLineCol (crToLf b.source) off).1 - 1)) = some q ∧
        ((∃ d qc p, extractLine (crToLf (normaliseCrLf doc))
              (b.startLine + ((offsetToLineCol (crToLf b.source) off).1 - 1)) = some d ∧
            isCPrefix (d.take qc) = true ∧
            p ≤ (if b.kind.isFenced then 3 else 4) ∧ (∀ c ∈ (d.drop qc).take p, c = ' ') ∧
            q = d.drop (qc + p) ∧ qc + p + q.length = d.length ∧ ∀ i, q[i]? = d[qc + p + i]?) ∨
          (b.kind.isFenced = false ∧ q = [] ∧
            b.startLine + ((offsetToLineCol (crToLf b.source) off).1 - 1) =
              (splitLines (paddedSource doc b.pos b.kind.isFenced b.source)).length ∧
            extractLine (crToLf (normaliseCrLf doc))
              (b.startLine + ((offsetToLineCol (crToLf b.source) off).1 - 1)) = none)) := by
  have hmap : ((grp.map fun b => (b.pos, b.kind.isFenced, b.source)).map fun x => crToLf x.2.2) =
      grp.map fun b => crToLf b.source := by
    rw [List.map_map]; rfl
  obtain ⟨pos, fenced, src, hbi, _, h1, h2, h3, h4⟩ :=
    markdown_error_line doc (grp.map fun b => (b.pos, b.kind.isFenced, b.source)) i off (by rw [hmap]; exact hc)
  rw [hmap] at h1 h2
  rw [List.getElem?_map] at hbi
  cases hgi : grp[i]? with
  | none => rw [hgi] at hbi; cases hbi
  | some b =>
    rw [hgi] at hbi
    simp only [Option.map_some, Option.some.injEq, Prod.mk.injEq] at hbi
    obtain ⟨rfl, rfl, rfl⟩ := hbi
    have hb : b ∈ scanBlocks2 doc := hg b (List.mem_of_getElem? hgi)
    have hpad := scan2_padding doc hD b hb
    have hpad' : mdPadding doc b.pos b.kind.isFenced = b.startLine - 1 := by omega
    have hl1 := (C07.offset_located (crToLf b.source) off).1
    rw [hpad'] at h1 h2 h3 h4
    have hline : (offsetToLineCol (crToLf b.source) off).1 + (b.startLine - 1) =
        b.startLine + ((offsetToLineCol (crToLf b.source) off).1 - 1) := by omega
    rw [hline] at h3 h4
    obtain ⟨q, hq⟩ := extractLine_located (crToLf b.source) off
    refine ⟨b, rfl, hb, h1, h2, h3, q, hq, by rw [h4, hq], ?_⟩
    rcases scan2_block_lines doc hD b hb _ q (by rw [h4, hq]) with ⟨d, qc, p, hd, h5, h7, h8, h9, h10⟩ | h
    · left
      refine ⟨d, qc, p, hd, h5, h7, h8, h9, h10, ?_⟩
      intro i
      rw [h9, List.getElem?_drop]
    · exact Or.inr h

/-! ## positions -/

/-- every block starts inside the (CRLF-normalised) document -/
theorem scanBlocks2_pos_lt (doc : Str) (b : MdBlock) (hb : b ∈ scanBlocks2 doc) :
    b.pos < (normaliseCrLf doc).length := by
  obtain ⟨pre, t, rest, hts, h⟩ := scan2_origin doc b hb
  have hN := tagDoc2_norm doc pre t rest hts
  have htne : t.text ≠ [] := ((tagDoc2_linesOk doc pre t rest hts).append_right).1.1
  have htl : 0 < t.text.length := List.length_pos_iff.2 htne
  have : b.pos = lenSum2 pre := by rcases h with ⟨f, _, rfl⟩ | ⟨_, rfl⟩ <;> rfl
  rw [this, hN, lenSum2_eq]
  simp only [List.length_append]
  omega

/-- `pos` is the offset of a whole line of the document: the line that holds the opening fence (with its container prefix
    `line.take q`: behind it the line is an opening fence whose first info word is the block's language), or the first
    line of an indented block -/
theorem scan2_fenced_lang (doc : Str) (b : MdBlock) (hb : b ∈ scanBlocks2 doc) (lang : Str) (hk : b.kind = .fenced lang) :
    ∃ line tail q f, (normaliseCrLf doc).drop b.pos = line ++ tail ∧ line ∈ mdLines (normaliseCrLf doc) ∧
      fenceOpen? (line.drop q) = some f ∧ lang = stripBackslash (firstWord f.info) := by
  obtain ⟨pre, t, rest, hts, h⟩ := scan2_origin doc b hb
  rcases h with ⟨f, hf, rfl⟩ | ⟨_, rfl⟩
  · have hsound : TagSound t.inner := (tagLines2_sound _ _ t (by
      rw [show tagLines2 ⟨.none, .top⟩ (mdLines (normaliseCrLf doc)) = tagDoc2 doc from rfl, hts]; simp)).1
    simp only [TagSound, TLine2.inner, hf] at hsound
    refine ⟨t.text, (rest.map (·.text)).flatten, t.pfx, f, ?_, ?_, hsound, ?_⟩
    · rw [tagDoc2_norm doc pre t rest hts, lenSum2_eq, List.drop_left' rfl]
    · rw [← tagDoc2_text, hts]; simp
    · simp only [CodeBlockKind.fenced.injEq] at hk; rw [← hk]; rfl
  · cases hk

/-- the blocks are listed in document order: positions strictly increase (and first-content-line numbers do not
    decrease) -/
theorem scanBlocks2_ordered (doc : Str) :
    (scanBlocks2 doc).Pairwise fun b1 b2 => b1.pos < b2.pos ∧ b1.startLine ≤ b2.startLine := by
  apply assemble2_ordered
  intro t ht
  have := (mdLines_ok (normaliseCrLf doc)).mdLine t.text (by rw [← tagDoc2_text]; exact List.mem_map_of_mem ht)
  exact this.1

/-- there is exactly one block per opening-fence line and per first line of an indented block -/
theorem scanBlocks2_length (doc : Str) :
    (scanBlocks2 doc).length = ((tagDoc2 doc).filter fun t => t.tag.startsBlock).length := assemble2_length _ _ _

/-- **blocks are disjoint**: the text captured by a block (never longer than the document lines it was taken from) ends
    before the next block starts -/
theorem scanBlocks2_disjoint (doc : Str) :
    (scanBlocks2 doc).Pairwise fun b1 b2 => b1.pos + b1.source.length ≤ b2.pos := by
  apply assemble2_disjoint
  · intro t ht
    exact ((mdLines_ok (normaliseCrLf doc)).mdLine t.text (by rw [← tagDoc2_text]; exact List.mem_map_of_mem ht)).1
  · exact tagLines2_sound _ _

/-! ## non-vacuity: a concrete document of **D2 \ D**

    a paragraph; a block quote with a paragraph, an empty quote line and a ```` ```recipe ```` fence indented by 1 behind
    `"> "` (body lines indented by 1 and 3); an ordered list whose first item holds a paragraph, a blank line and a
    `~~~new-recipe` fence at the item's content offset 3 (body: a line at the offset, a blank line shorter than the
    offset, a line indented one more, a line that redefines `z`); a second item; CRLF line endings. -/

def exDoc2 : Str :=
  "Stew\r\n\r\n> Note:\r\n>\r\n>  ```recipe\r\n>  x = 1 egg\r\n>    y = fry(x)\r\n>  ```\r\n\r\n1. First\r\n\r\n   ~~~new-recipe\r\n   z = 2 eggs\r\n\r\n    w = boil(z)\r\n   z = 3 eggs\r\n   ~~~\r\n2. Done\r\n".toList

example : inDoc2 exDoc2 = true ∧ inDoc exDoc2 = false := by decide +kernel

example : scanBlocks2 exDoc2 =
    [⟨.fenced "recipe".toList, 16, "x = 1 egg\n  y = fry(x)\n".toList, 6⟩,
     ⟨.fenced "new-recipe".toList, 76, "z = 2 eggs\n\n w = boil(z)\nz = 3 eggs\n".toList, 13⟩] := by decide +kernel

/-- the hypotheses of `scan2_block_lines` are met, e.g. by the second body line of the quoted block (document line 7:
    `">    y = fry(x)"`, of which the quote prefix `"> "` — `q = 2` — and the fence's indentation — `p = 1` — are
    removed) and by the third body line of the block in the list item (line 15, `q = 3` spaces of item indentation,
    `p = 0`); line 14 is a blank line shorter than the item's indentation -/
example :
    extractLine (paddedSource exDoc2 16 true "x = 1 egg\n  y = fry(x)\n".toList) (6 + 1) = some "  y = fry(x)".toList ∧
    extractLine (crToLf (normaliseCrLf exDoc2)) (6 + 1) = some ">    y = fry(x)".toList ∧
    isCPrefix (">    y = fry(x)".toList.take 2) = true ∧
    extractLine (paddedSource exDoc2 76 true "z = 2 eggs\n\n w = boil(z)\nz = 3 eggs\n".toList) (13 + 2) = some " w = boil(z)".toList ∧
    extractLine (crToLf (normaliseCrLf exDoc2)) (13 + 2) = some "    w = boil(z)".toList ∧
    isCPrefix ("    w = boil(z)".toList.take 3) = true ∧
    extractLine (paddedSource exDoc2 76 true "z = 2 eggs\n\n w = boil(z)\nz = 3 eggs\n".toList) (13 + 1) = some [] ∧
    extractLine (crToLf (normaliseCrLf exDoc2)) (13 + 1) = some [] := by decide +kernel

/-- the hypotheses of `doc2_error_line` are met: the redefinition of `z` inside the list item (document line 16, behind
    3 spaces of item indentation) is at line 4, column 1 of the block's text, hence reported at line 13 + 3 = 16, column 1 -/
example :
    let grp : List MdBlock := [⟨.fenced "new-recipe".toList, 76, "z = 2 eggs\n\n w = boil(z)\nz = 3 eggs\n".toList, 13⟩]
    compile (grp.map fun b => crToLf b.source) = .redefined 0 25 ∧
    offsetToLineCol (crToLf "z = 2 eggs\n\n w = boil(z)\nz = 3 eggs\n".toList) 25 = (4, 1) ∧
    extractLine (crToLf (normaliseCrLf exDoc2)) (13 + (4 - 1)) = some "   z = 3 eggs".toList := by decide +kernel

/-- documents just outside **D2** are rejected by `inDoc2` (no claim is made about them; for most of them marko's
    behaviour is irregular, see NOTES.md): a quote marker at the very end of the document (marko raises `IndexError`),
    a blank line with more than 4 spaces inside an indented block that sits in a quote or a list item (marko drops those
    spaces), a list marker followed by 5 spaces, an empty item, nested containers, a
    form feed / a lone carriage return / a no-break space after `>` or after a list marker, a tab, a thematic break that looks like a list item, an ordered-list
    marker with a non-ASCII digit, setext underlines and HTML inside containers or as lazy continuation lines -/
example : inDoc2 ">".toList = false ∧ inDoc2 "> a\n> ".toList = false ∧ inDoc2 ">     a\n>      \n>     b\n".toList = false ∧
    inDoc2 "- x\n\n      a\n       \n      b\n".toList = false ∧ inDoc2 "-     code\n".toList = false ∧ inDoc2 "-\n".toList = false ∧
    inDoc2 "- a\n  ".toList = false ∧ inDoc2 ">> a\n".toList = false ∧ inDoc2 "> - a\n".toList = false ∧
    inDoc2 "- a\n  - b\n".toList = false ∧ inDoc2 "- > a\n".toList = false ∧ inDoc2 ">\x0ca\n".toList = false ∧
    inDoc2 ">\ra\n".toList = false ∧ inDoc2 "-\x0ca\n".toList = false ∧ inDoc2 "- \u00a0a\n".toList = false ∧
    inDoc2 ">\ta\n".toList = false ∧ inDoc2 "- - -\n".toList = false ∧ inDoc2 "\u0661. a\n".toList = false ∧
    inDoc2 "> a\n> ===\n".toList = false ∧ inDoc2 "> a\n===\n".toList = false ∧ inDoc2 "> <div>\n".toList = false ∧
    inDoc2 "text\n2. a\n".toList = false := by
  decide +kernel

/-- … while these are members: a quote whose paragraph is continued lazily (no block: the indented line is paragraph
    text), a list that interrupts a paragraph and whose first line opens the fence (`pos` is the offset of the line that
    starts with the list marker), an unterminated fence closed by the end of its quote, a fence closed by the end of its
    list item, and the top-level fence that follows -/
example :
    inDoc2 "> foo\nbar\n    baz\n".toList = true ∧ scanBlocks2 "> foo\nbar\n    baz\n".toList = [] ∧
    inDoc2 "text\n- ```recipe\n  x\n".toList = true ∧
    scanBlocks2 "text\n- ```recipe\n  x\n".toList = [⟨.fenced "recipe".toList, 5, "x\n".toList, 3⟩] ∧
    inDoc2 "> ```recipe\n> x\ny\n".toList = true ∧
    scanBlocks2 "> ```recipe\n> x\ny\n".toList = [⟨.fenced "recipe".toList, 0, "x\n".toList, 2⟩] ∧
    inDoc2 "- a\n  ```recipe\n  x\n```\nz\n".toList = true ∧
    scanBlocks2 "- a\n  ```recipe\n  x\n```\nz\n".toList =
      [⟨.fenced "recipe".toList, 4, "x\n".toList, 3⟩, ⟨.fenced [], 20, "z\n".toList, 5⟩] := by decide +kernel

/-- indented blocks inside containers are members too: in a quote (behind `>`, one space and 4 more), with an empty quote
    line inside; in a list item (behind the item's 3 spaces and 4 more), with a short blank line inside -/
example :
    inDoc2 "> Note\r\n>\r\n>     x = 1 egg\r\n>\r\n>       y = fry(x)\r\n".toList = true ∧
    scanBlocks2 "> Note\r\n>\r\n>     x = 1 egg\r\n>\r\n>       y = fry(x)\r\n".toList =
      [⟨.indented, 9, "x = 1 egg\n\n  y = fry(x)\n".toList, 3⟩] ∧
    inDoc2 "1. Sauce:\n\n       z = 2 eggs\n \n       w = boil(z)\ntext\n".toList = true ∧
    scanBlocks2 "1. Sauce:\n\n       z = 2 eggs\n \n       w = boil(z)\ntext\n".toList =
      [⟨.indented, 11, "z = 2 eggs\n\nw = boil(z)\n".toList, 3⟩] ∧
    extractLine (paddedSource "1. Sauce:\n\n       z = 2 eggs\n \n       w = boil(z)\ntext\n".toList 11 false
      "z = 2 eggs\n\nw = boil(z)\n".toList) (3 + 2) = some "w = boil(z)".toList ∧
    extractLine (crToLf (normaliseCrLf "1. Sauce:\n\n       z = 2 eggs\n \n       w = boil(z)\ntext\n".toList)) (3 + 2) =
      some "       w = boil(z)".toList ∧
    isCPrefix ("       w = boil(z)".toList.take 3) = true := by decide +kernel

end RG.C19
