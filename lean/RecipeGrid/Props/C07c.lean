import RecipeGrid.Lemmas.ParserErrBound
import RecipeGrid.Lemmas.ParserErrPrefixRules
import RecipeGrid.Props.C07b
/-! C07.3 — a syntax error is a *located* error too: the position `recipe_grid.parser.parse` reports for a text the
    grammar rejects (peggie's furthest failure, `Model/ParserErr.lean`: `parseE`) lies in the text, its line exists, the
    quoted line is that line, and it is not before the statements that were accepted.

    `parseE` is the parser of `Model/Parser.lean` plus the record of the furthest failure (`parseE_erase`), so that
    everything proved about `parse` holds for `parseE`.  Helper lemmas: `Lemmas/ParserErr.lean` (forgetting the
    record, rule by rule), `Lemmas/ParserErrBound.lean` (the invariant `ParserE.Good`, rule by rule),
    `Lemmas/ParserErrPrefix*.lean` (prefix stability `ParserE.LE`, scanner by scanner and rule by rule). -/
namespace RG.C07

/-- the offset of a syntax error, for the examples (`ParseResultE` has no decidable equality) -/
def errOffset : ParseResultE → Option Nat
  | .ok _ => none
  | .syntaxError off => some off

/-! ## the instrumented parser is the parser -/

/-- **the instrumented parser accepts exactly the same texts, with exactly the same AST**: forgetting the offset of
    the syntax error gives the result of `parse` -/
theorem parseE_erase (src : Str) : (parseE src).erase = parse src := RG.parseE_erase src

theorem parseE_ok_iff (src : Str) (stmts : List AStmt) : parseE src = .ok stmts ↔ parse src = .ok stmts := by
  rw [← parseE_erase]
  cases parseE src with
  | ok l => simp [ParseResultE.erase]
  | syntaxError off => simp [ParseResultE.erase]

/-- `parse` reports a syntax error exactly when `parseE` reports one, at some offset -/
theorem parseE_syntaxError_iff (src : Str) : (∃ off, parseE src = .syntaxError off) ↔ parse src = .syntaxError := by
  rw [← parseE_erase]
  cases parseE src with
  | ok l => simp [ParseResultE.erase]
  | syntaxError off => simp [ParseResultE.erase]

/-- non-vacuity: an unclosed bracket is reported at the end of the text, a stray `)` where it stands (line 2,
    column 3), a quantity without ingredient at the end of the quantity -/
example : errOffset (parseE "fry(eggs".toList) = some 8 := by decide +kernel
example : errOffset (parseE "x = 1 egg\nx )".toList) = some 12 ∧
    syntaxErrorLineCol "x = 1 egg\nx )".toList 12 = (2, 3) ∧
    syntaxErrorSnippet "x = 1 egg\nx )".toList 12 = some "x )".toList := by decide +kernel
example : errOffset (parseE "x = 2".toList) = some 5 ∧ errOffset (parseE "1 egg".toList) = none := by decide +kernel

/-! ## the reported position lies in the text -/

/-- **the error is located inside the text or at its end** -/
theorem syntaxError_offset_le (src : Str) (off : Nat) (h : parseE src = .syntaxError off) : off ≤ src.length :=
  RG.syntaxError_offset_le src off h

/-- the bound is reached (an unclosed quote: the closing quote is missing at the end of the text), and the error can be
    at the very start -/
example : errOffset (parseE "'abc".toList) = some 4 ∧ errOffset (parseE ") x".toList) = some 0 := by decide +kernel

/-- **the reported line and column exist and the quoted line is that line**: for a syntax error at `off`, the line
    number is between 1 and the number of lines, the column between 1 and one past the length of that line (with its
    terminator), a snippet is always produced (`extract_line` does not raise), and — the text not being empty — the
    snippet is that very line without its terminator -/
theorem syntaxError_line_exists (src : Str) (off : Nat) (h : parseE src = .syntaxError off) :
    let lc := syntaxErrorLineCol src off
    off ≤ src.length ∧
    1 ≤ lc.1 ∧ lc.1 ≤ max 1 (splitLinesKeep src).length ∧
    1 ≤ lc.2 ∧ lc.2 ≤ ((splitLinesKeep src)[lc.1 - 1]?.getD []).length + 1 ∧
    (syntaxErrorSnippet src off).isSome = true ∧
    (src ≠ [] → syntaxErrorSnippet src off = ((splitLinesKeep src)[lc.1 - 1]?).map dropTerminator) := by
  intro lc
  obtain ⟨h1, h2, h3, h4⟩ := offset_located src off
  exact ⟨syntaxError_offset_le src off h, h1, h2, h3, h4, extractLine_total src off,
    fun hs => extractLine_is_line src off hs⟩

/-- for an error before the end of the text the position is exact: the characters before the offset are the lines
    before the reported line and `column − 1` characters of that line -/
theorem syntaxError_position_exact (src : Str) (off : Nat) (_h : parseE src = .syntaxError off) (hlt : off < src.length) :
    let lc := syntaxErrorLineCol src off
    (((splitLinesKeep src).take (lc.1 - 1)).flatten).length + (lc.2 - 1) = off ∧
    lc.2 ≤ ((splitLinesKeep src)[lc.1 - 1]?.getD []).length :=
  offset_exact src off hlt

/-- the empty text is rejected at line 1, column 1, quoting the empty line -/
example : errOffset (parseE []) = some 0 ∧ syntaxErrorLineCol [] 0 = (1, 1) ∧ syntaxErrorSnippet [] 0 = some [] := by
  decide +kernel

/-- non-vacuity of `syntaxError_line_exists`, with `\r\n` line ends: the error in line 3 -/
example : errOffset (parseE "a\r\nb\r\nc(".toList) = some 8 ∧
    syntaxErrorLineCol "a\r\nb\r\nc(".toList 8 = (3, 3) ∧
    (splitLinesKeep "a\r\nb\r\nc(".toList).length = 3 ∧
    syntaxErrorSnippet "a\r\nb\r\nc(".toList 8 = some "c(".toList := by decide +kernel

/-! ## the error is not before what was accepted -/

/-- **no statement before the reported offset is at fault**: if the grammar's `sp? stmt+` accepts statements from
    the start of the text up to position `p` (and the text is rejected because something that is neither a further
    statement nor the end of the text follows), the reported offset is at or after `p` -/
theorem syntaxError_after_accepted_statements (src : Str) (off : Nat) (stmts : List AStmt) (s' : Parser.PState)
    (h : parseE src = .syntaxError off) (hp : ParserE.stmtsPlus src.toArray ⟨0, false⟩ = some (stmts, s')) :
    s'.pos ≤ off := by
  unfold parseE at h
  cases hr : ParserE.recipe src.toArray ⟨0, false⟩ with
  | mk r far =>
    rw [hr] at h
    cases r with
    | some x => cases h
    | none =>
      obtain ⟨f, hf, hle⟩ := ParserE.recipe_far_ge_stmts hp (by rw [hr])
      rw [hr] at hf
      simp only at hf h
      subst hf
      simp only [Option.getD_some, ParseResultE.syntaxError.injEq] at h
      omega

/-- and if not even the first statement is accepted, the reported offset is at or after the start of that statement
    (the end of the leading white space) -/
theorem syntaxError_after_leading_space (src : Str) (off : Nat)
    (h : parseE src = .syntaxError off) (hp : ParserE.stmtsPlus src.toArray ⟨0, false⟩ = none) :
    Parser.spanEnd isReSpace src.toArray 0 ≤ off := by
  unfold parseE at h
  cases hr : ParserE.recipe src.toArray ⟨0, false⟩ with
  | mk r far =>
    rw [hr] at h
    cases r with
    | some x => cases h
    | none =>
      obtain ⟨f, hf, _, hge⟩ := ParserE.recipe_far_ge_start (t := src.toArray) (by rw [hr])
      rw [hr] at hf
      simp only at hf h
      subst hf
      simp only [Option.getD_some, ParseResultE.syntaxError.injEq] at h
      have := hge hp
      omega

/-- **complete statements are never blamed for what follows them**: if `a` ends in a line break and is accepted by
    the grammar on its own, and `a ++ b` is rejected, then the reported offset is not inside `a`.  (The run on `a ++ b`
    need not go through `a` as the run on `a` did — `"2 tea\n" ++ "spoon x"` reads the unit `tea spoon` across the cut —
    but until a terminal looks beyond the end of `a` the two runs coincide, and a terminal that matches or fails beyond
    the end of `a` puts the furthest failure there: `ParserE.LE.recipe`.) -/
theorem syntaxError_after_accepted_prefix (a b : Str) (stmts : List AStmt) (c : Char)
    (hlast : a.getLast? = some c) (hnl : isNewline c = true) (ha : parse a = .ok stmts)
    (off : Nat) (hab : parseE (a ++ b) = .syntaxError off) : a.length ≤ off :=
  prefix_syntaxError_offset a b ⟨c, hlast, hnl⟩ stmts ((parseE_ok_iff a stmts).mpr ha) off hab

/-- non-vacuity: two accepted lines, then a line with an unclosed bracket; and a text whose first line is read
    differently when the second is there: `2 tea` alone is "2 of tea", but with `spoon (` after the line break the unit
    `tea spoon` matches across the cut, the amount is committed, no ingredient follows and the FIRST statement fails —
    the error is still reported beyond the first line (at the `(`, offset 12) -/
example : errOffset (parseE "a = b\nc\n".toList) = none ∧ "a = b\nc\n".toList.getLast? = some '\n' ∧
    errOffset (parseE ("a = b\nc\n".toList ++ "  d(".toList)) = some 12 ∧ "a = b\nc\n".toList.length = 8 := by
  decide +kernel
example : errOffset (parseE "2 tea\n".toList) = none ∧
    errOffset (parseE ("2 tea\n".toList ++ "spoon (".toList)) = some 12 ∧ "2 tea\n".toList.length = 6 := by
  decide +kernel

/-- the position `sp? stmt+` reaches, for the examples -/
def acceptedUpTo (src : Str) : Option Nat := (ParserE.stmtsPlus src.toArray ⟨0, false⟩).map (·.2.pos)

/-- non-vacuity: two statements are accepted (up to offset 10, the `\s*` after a line break included), the third is
    at fault and the error is in it; and a text whose first statement is at fault, after two blank lines -/
example : acceptedUpTo "a = b\nc\n  d(".toList = some 10 ∧ errOffset (parseE "a = b\nc\n  d(".toList) = some 12 ∧
    acceptedUpTo "\n\n(".toList = none ∧ Parser.spanEnd isReSpace "\n\n(".toList.toArray 0 = 2 ∧
    errOffset (parseE "\n\n(".toList) = some 3 := by decide +kernel

/-- the recorded failures of every rule lie between the place where the rule was started and the end of the text, and
    a rule that fails has recorded one (`ParserE.Good`); for the whole grammar: -/
theorem recipe_far_invariant (t : Array Char) :
    (∀ f, (ParserE.recipe t ⟨0, false⟩).2 = some f → f ≤ t.size) ∧
    ((ParserE.recipe t ⟨0, false⟩).1 = none → (ParserE.recipe t ⟨0, false⟩).2 ≠ none) :=
  ⟨fun f hf => ((ParserE.Good.recipe t ⟨0, false⟩ (Nat.zero_le _)).2.1 f hf).2,
   (ParserE.Good.recipe t ⟨0, false⟩ (Nat.zero_le _)).2.2⟩

/-- … and for a statement started anywhere in the text: it ends in the text and not before its start, its failures
    are recorded between its start and the end of the text, and if it fails a failure at or after its start has been
    recorded -/
theorem stmt_far_invariant (t : Array Char) (s : Parser.PState) (hs : s.pos ≤ t.size) :
    (∀ a s', (ParserE.stmt t s).1 = some (a, s') → s.pos ≤ s'.pos ∧ s'.pos ≤ t.size) ∧
    (∀ f, (ParserE.stmt t s).2 = some f → s.pos ≤ f ∧ f ≤ t.size) ∧
    ((ParserE.stmt t s).1 = none → ∃ f, (ParserE.stmt t s).2 = some f ∧ s.pos ≤ f ∧ f ≤ t.size) :=
  ⟨(ParserE.Good.stmt t s hs).1, (ParserE.Good.stmt t s hs).2.1, fun h => ParserE.Good.stmt.fail_far hs h⟩

/-! ## the compiler's syntax error is such a located error -/

/-- parsing the blocks fails with a syntax error in a block whose text `parse` rejects -/
theorem parseAll_error_block : ∀ (srcs : List Str) (i : Nat) (e : CompileResult), parseAll i srcs = .error e →
    ∃ b s, e = .syntaxError (i + b) ∧ srcs[b]? = some s ∧ parse s = .syntaxError
  | [], i, e, h => by rw [parseAll_nil] at h; cases h
  | s :: ss, i, e, h => by
    rw [parseAll_cons] at h
    cases hp : parse s with
    | syntaxError => rw [hp] at h; cases h; exact ⟨0, s, rfl, rfl, hp⟩
    | zeroDivision => exact absurd hp (parse_never_zeroDivision s)
    | ok stmts =>
      rw [hp] at h
      simp only [] at h
      cases hr : parseAll (i + 1) ss with
      | error e' =>
        rw [hr] at h
        cases h
        obtain ⟨b, s', hb, hs', hps⟩ := parseAll_error_block ss (i + 1) _ hr
        exact ⟨b + 1, s', by rw [hb]; congr 1; omega, by simpa using hs', hps⟩
      | ok rest => rw [hr] at h; cases h

/-- **C07 for syntax errors**: when `compile` reports a syntax error in block `b`, that block's text is rejected by
    the grammar at an offset `off` inside it, whose line and column exist, and a line is quoted -/
theorem compile_syntax_error_located (srcs : List Str) (b : Nat) (h : compile srcs = .syntaxError b) :
    ∃ s off, srcs[b]? = some s ∧ parseE s = .syntaxError off ∧ off ≤ s.length ∧
      1 ≤ (syntaxErrorLineCol s off).1 ∧ (syntaxErrorLineCol s off).1 ≤ max 1 (splitLinesKeep s).length ∧
      1 ≤ (syntaxErrorLineCol s off).2 ∧
      (syntaxErrorLineCol s off).2 ≤ ((splitLinesKeep s)[(syntaxErrorLineCol s off).1 - 1]?.getD []).length + 1 ∧
      (syntaxErrorSnippet s off).isSome = true := by
  rcases compile_cases srcs with ⟨e, hp, hc⟩ | ⟨asts, e, hp, hb, hc⟩ | ⟨asts, bs, st, bs', _, _, hc⟩
  · obtain ⟨b', s, he, hs, hps⟩ := parseAll_error_block srcs 0 e hp
    rw [hc, he] at h
    simp only [Nat.zero_add, CompileResult.syntaxError.injEq] at h
    subst h
    obtain ⟨off, hoff⟩ := (parseE_syntaxError_iff s).mpr hps
    obtain ⟨h0, h1, h2, h3, h4, h5, _⟩ := syntaxError_line_exists s off hoff
    exact ⟨s, off, hs, hoff, h0, h1, h2, h3, h4, h5⟩
  · rw [hc] at h
    rcases compileBlocks_error asts 0 {} e hb with ⟨b', off', hx | hx, _⟩ | ⟨why, hx⟩ <;> rw [hx] at h <;> cases h
  · rw [hc] at h; cases h

/-- non-vacuity: the second block is rejected, at its offset 2 -/
example : compile ["x".toList, "f(".toList] = .syntaxError 1 ∧ errOffset (parseE "f(".toList) = some 2 := by
  decide +kernel

end RG.C07
