import RecipeGrid.Lemmas.Scale
/-! C03 (continued): how *scaling* interacts with the compiler.

    1. Scaling a valid list of recipe blocks keeps the DAG: same shapes, same output names (up to the numbers inside
       them), reference nodes still embed their (scaled) targets, proportions untouched.
    2. Scaling commutes with compiling: multiplying every literal quantity and every `{…}` number of a description by
       an exact non-zero `k` and compiling (`compileAsts`, the compiler after the parser) gives exactly the compiled
       recipe scaled by `k` – same trees, same number kinds, same error (block and offset) when there is one – PROVIDED
       the floating-point test `Quantity.has_equal_value_to` of `can_be_inlined` answers alike before and after.
       Without that proviso the statement is FALSE (`compile_scale_commute_Full_false`): the test is made in binary64
       with relative tolerance 1e-9, and a pair of quantities at the edge of the tolerance flips.
    3. The total quantity of a sub recipe scales, and the proportion `q / total` a quantity reference stands for is
       invariant when both are scaled.

    Only specification definitions and property theorems here; the simulation proof is in `Lemmas/Scale.lean`.
    (`Lemmas/Fold.lean` cannot be imported next to `Model/Lint.lean` – both declare `Tree.topRefs` – so part 1 takes
    structural validity `ValidS` as its hypothesis; `C08.compile_validS` provides it for everything `compile` returns.) -/
namespace RG.C03

-- ================================================================ the compiler after the parser
/-- `compile` from the parsed blocks on: elaboration, the in-lining pass, the `Recipe` validity check -/
def compileAsts (asts : List (List AStmt)) : CompileResult :=
  match compileBlocks 0 {} asts with
  | .error e => e
  | .ok (blocks, st) =>
    match foldAll st.outputs.length 0 blocks st.outputs with
    | .error why => .internal why
    | .ok (blocks, _) =>
      if checkBlocks [] blocks then .ok blocks else .internal "ReferenceToInvalidSubRecipeError"

/-- it is the second half of `compile` -/
theorem compile_eq_compileAsts (srcs : List Str) :
    compile srcs = match parseAll 0 srcs with
      | .error e => e
      | .ok asts => compileAsts asts := by
  unfold compile elabBlocks
  cases parseAll 0 srcs with
  | error e => rfl
  | ok asts =>
    show (match compileBlocks 0 {} asts with
      | .error e => e
      | .ok (blocks, st) => _) = compileAsts asts
    unfold compileAsts
    cases compileBlocks 0 {} asts with
    | error e => rfl
    | ok p => rfl

/-- apply `f` to the blocks of a successful result; every error stays what it is -/
def mapOk (f : List Block → List Block) : CompileResult → CompileResult
  | .ok bs => .ok (f bs)
  | r => r

-- ================================================================ 1. scaling preserves the DAG
/-- the output names of a root -/
def outputNames : Tree → List SVS
  | .sub _ ns _ => ns
  | _ => []

/-- **reference nodes stay consistent with their targets**: a structurally valid recipe (every embedded copy IS an
    earlier sub recipe root; what `compile` returns, `C08.compile_validS`) stays so under any factor, the copy embedded
    in a scaled reference being the scaled sub recipe (`Tree.scale` of a reference scales the copy), and Python's
    `Recipe` constructor check accepts the scaled blocks -/
theorem scale_preserves_valid (k : Num) (rs : List Block) (h : ValidS [] rs) :
    ValidS [] (scaleBlocks k rs) ∧ checkBlocks [] (scaleBlocks k rs) = true ∧
    mkRecipes (scaleBlocks k rs) = .ok (scaleBlocks k rs) :=
  ⟨scale_valid k rs h, validS_check _ (scale_valid k rs h), scale_mkRecipes_ok k rs h⟩

/-- the reference targets met when walking a scaled tree are the scaled targets, in the same order -/
theorem scale_preserves_targets (k : Num) (t : Tree) :
    Tree.refTargets (Tree.scale k t) = (Tree.refTargets t).map (Tree.scale k) := Tree.refTargets_scale k t

/-- same tree shapes, texts, units, output indices and **proportions**: after erasing the scalable numbers (exactly:
    numbers of strings, of ingredient quantities, of quantity references – a `Proportion` has none) nothing differs -/
theorem scale_preserves_shape (k : Num) (rs : List Block) (h : ∀ b ∈ rs, TreeNormalList b) :
    (scaleBlocks k rs).map eraseList = rs.map eraseList := by
  simp only [scaleBlocks, List.map_map]
  apply List.map_congr_left
  intro b hb
  exact scale_frame_list k b (h b hb)

/-- a proportion (value, percentage flag, remainder wording, preposition) is left as it is -/
theorem scale_preserves_proportion (k : Num) (s : Tree) (i : Nat) (v : Option Num) (pc : Bool) (w : Option Str)
    (p : Str) : Tree.scale k (.reference s i (.proportion v pc w p)) = .reference (Tree.scale k s) i (.proportion v pc w p) :=
  rfl

/-- **same output names**: a root keeps the number of its outputs and whether it is a sub recipe; its names are the
    scaled names, which differ from the old ones only in their numbers; and (exact `k ≠ 0`, exact names) two names are
    the same name for the compiler's table (`normalise_output_name`, `==`) after scaling iff they were before -/
theorem scale_preserves_names (k : Num) (t : Tree) :
    outputNames (Tree.scale k t) = (outputNames t).map (Svs.scale k) ∧
    (Tree.scale k t).numOutputs = t.numOutputs ∧ (Tree.scale k t).isSub = t.isSub ∧
    (TreeNormal t → (outputNames (Tree.scale k t)).map eraseSvs = (outputNames t).map eraseSvs) ∧
    (k.kind ≠ .flt → k.val ≠ 0 → ∀ n m : SVS, SvsGood n → SvsGood m →
      (normaliseName (Svs.scale k n) == normaliseName (Svs.scale k m)) = (normaliseName n == normaliseName m)) := by
  refine ⟨by cases t <;> simp [outputNames, Tree.scale], Tree.numOutputs_scale k t, Tree.isSub_scale k t, ?_, ?_⟩
  · intro hn
    cases t with
    | sub b ns sh =>
      simp only [TreeNormal] at hn
      simp only [outputNames, Tree.scale, List.map_map]
      apply List.map_congr_left
      intro n hnm
      exact svs_scale_frame k n (hn.2 n hnm)
    | _ => simp [outputNames, Tree.scale]
  · intro hk hk0 n m hn hm
    rw [normaliseName_scale k n hn.1, normaliseName_scale k m hm.1]
    exact Svs.beq_scale hk hk0 (svsGood_normaliseName hn) (svsGood_normaliseName hm)

-- ================================================================ 2. scaling commutes with compiling
/-- the quantity comparisons `can_be_inlined` could make (`Quantity.has_equal_value_to`, binary64, relative tolerance
    1e-9) answer alike before and after scaling, over the quantities written in the description -/
def InlineTestsStable (k : Num) (asts : List (List AStmt)) : Prop :=
  ∀ q ∈ astQuantities asts, ∀ iq ∈ astQuantities asts,
    (q.scale k).hasEqualValueTo (iq.scale k) = q.hasEqualValueTo iq

/-- the simulation, for any pool `P` of quantities closed under nothing at all -/
theorem compile_scale_commute_pool {k : Num} (hk : k.kind ≠ .flt) (hk0 : k.val ≠ 0) {P : Quantity → Prop}
    (asts : List (List AStmt)) (hok : AstOk P asts) (hstab : HevStable k P) :
    compileAsts (scaleAst k asts) = mapOk (scaleBlocks k) (compileAsts asts) := by
  unfold compileAsts
  have h := compileBlocks_scale hk hk0 asts 0 {} (P := P) (by intro o ho; cases ho) hok
  have e0 : scaleSt k {} = {} := rfl
  rw [e0] at h
  cases hx : compileBlocks 0 {} (scaleAst k asts) with
  | error e' =>
    cases hy : compileBlocks 0 {} asts with
    | error e =>
      rw [hx, hy] at h
      have : e' = e := h
      subst this
      cases e' with
      | ok bs => exact absurd hy (compileBlocks_error_not_ok asts 0 {} bs)
      | _ => rfl
    | ok p => rw [hx, hy] at h; exact h.elim
  | ok p' =>
    cases hy : compileBlocks 0 {} asts with
    | error e => rw [hx, hy] at h; exact h.elim
    | ok p =>
      rw [hx, hy] at h
      obtain ⟨bs', st'⟩ := p'
      obtain ⟨bs, st⟩ := p
      obtain ⟨e1, e2, hb, hst⟩ := h
      simp only at e1 e2
      subst e1 e2
      simp only []
      have hl : (scaleSt k st).outputs.length = st.outputs.length := by simp [scaleSt]
      rw [hl]
      have hf := foldAll_scale hk hk0 hstab st.outputs.length 0 bs st.outputs hb hst
      have e3 : (scaleSt k st).outputs = st.outputs.map (scaleOut k) := rfl
      rw [e3]
      cases hfx : foldAll st.outputs.length 0 (scaleBlocks k bs) (st.outputs.map (scaleOut k)) with
      | error w' =>
        cases hfy : foldAll st.outputs.length 0 bs st.outputs with
        | error w =>
          rw [hfx, hfy] at hf
          have : w' = w := hf
          subst this
          rfl
        | ok q => rw [hfx, hfy] at hf; exact hf.elim
      | ok q' =>
        cases hfy : foldAll st.outputs.length 0 bs st.outputs with
        | error w => rw [hfx, hfy] at hf; exact hf.elim
        | ok q =>
          rw [hfx, hfy] at hf
          obtain ⟨b2', o2'⟩ := q'
          obtain ⟨b2, o2⟩ := q
          obtain ⟨e1, _, hb2, _⟩ := hf
          simp only at e1
          subst e1
          simp only []
          have hc := checkBlocks_scale hk hk0 b2 [] (fun b hbm => (hb2 b hbm).good) (by intro p hp; cases hp)
          simp only [List.map_nil] at hc
          rw [hc]
          split <;> rfl


/-- **C03b.2 scaling commutes with compiling.**  `k` an exact (`int`/`Fraction`) non-zero factor, a description whose
    scalable numbers are exact: compiling the description with every quantity literal and every `{…}` number multiplied
    by `k` gives the compiled recipe scaled by `k` – equal as trees, number kinds included (both sides compute the same
    `Num.mul v k`), so a fortiori equal for Python's `==` – and gives the same error (same block, same source offset)
    when the description is rejected; provided the in-lining tests answer alike (`InlineTestsStable`). -/
theorem compile_scale_commute {k : Num} (hk : k.kind ≠ .flt) (hk0 : k.val ≠ 0) (asts : List (List AStmt))
    (hex : AstExact asts) (hstab : InlineTestsStable k asts) :
    compileAsts (scaleAst k asts) = mapOk (scaleBlocks k) (compileAsts asts) :=
  compile_scale_commute_pool hk hk0 asts (astOk_of_exact hex) (fun q iq hq hiq => hstab q hq.2 iq hiq.2)

/-- in particular the outcome is the same: accepted iff accepted, … -/
theorem compile_scale_ok_iff {k : Num} (hk : k.kind ≠ .flt) (hk0 : k.val ≠ 0) (asts : List (List AStmt))
    (hex : AstExact asts) (hstab : InlineTestsStable k asts) :
    (∃ bs, compileAsts (scaleAst k asts) = .ok bs) ↔ ∃ bs, compileAsts asts = .ok bs := by
  rw [compile_scale_commute hk hk0 asts hex hstab]
  cases compileAsts asts <;> simp [mapOk]

/-- … and `ProportionGivenForIngredientError` / `NameRedefinedError` are raised for the scaled description exactly
    when they are for the original, at the same place -/
theorem compile_scale_error {k : Num} (hk : k.kind ≠ .flt) (hk0 : k.val ≠ 0) (asts : List (List AStmt))
    (hex : AstExact asts) (hstab : InlineTestsStable k asts) (b off : Nat) :
    (compileAsts (scaleAst k asts) = .proportion b off ↔ compileAsts asts = .proportion b off) ∧
    (compileAsts (scaleAst k asts) = .redefined b off ↔ compileAsts asts = .redefined b off) := by
  rw [compile_scale_commute hk hk0 asts hex hstab]
  cases compileAsts asts <;> simp [mapOk]

/-- the elaboration (everything before the in-lining pass, where all the documented errors come from) commutes with
    scaling without any proviso: same error, or the scaled trees and the scaled table of named outputs -/
theorem elab_scale_commute {k : Num} (hk : k.kind ≠ .flt) (hk0 : k.val ≠ 0) (asts : List (List AStmt))
    (hex : AstExact asts) :
    compileBlocks 0 {} (scaleAst k asts) =
      match compileBlocks 0 {} asts with
      | .error e => .error e
      | .ok (bs, st) => .ok (scaleBlocks k bs, scaleSt k st) := by
  have h := compileBlocks_scale hk hk0 asts 0 {} (P := (· ∈ astQuantities asts)) (by intro o ho; cases ho)
    (astOk_of_exact hex)
  have e0 : scaleSt k {} = {} := rfl
  rw [e0] at h
  cases hx : compileBlocks 0 {} (scaleAst k asts) with
  | error e' =>
    cases hy : compileBlocks 0 {} asts with
    | error e => rw [hx, hy] at h; exact congrArg _ h
    | ok p => rw [hx, hy] at h; exact h.elim
  | ok p' =>
    cases hy : compileBlocks 0 {} asts with
    | error e => rw [hx, hy] at h; exact h.elim
    | ok p =>
      rw [hx, hy] at h
      obtain ⟨e1, e2, _, _⟩ := h
      obtain ⟨a, b⟩ := p'
      simp only at e1 e2
      subst e1 e2
      rfl

/-- the proviso holds when the only pairs `can_be_inlined` may compare are written with the same number and no unit
    (or units whose conversion factor is an exact 1): such a pair compares equal before and after -/
theorem inlineTest_of_same_value {k : Num} (hk : k.kind ≠ .flt) {q iq : Quantity}
    (hq : q.value.kind ≠ .flt) (hiq : iq.value.kind ≠ .flt) (hv : q.value.val = iq.value.val)
    (hu : q.unit = none ∧ iq.unit = none) :
    (q.scale k).hasEqualValueTo (iq.scale k) = q.hasEqualValueTo iq := by
  obtain ⟨h1, h2⟩ := hasEqualValueTo_scale_of_eq hk hq hiq hv (Or.inl hu)
  rw [h1, h2]

/-- the statement without the proviso -/
def compile_scale_commute_Full : Prop :=
  ∀ (k : Num) (asts : List (List AStmt)), k.kind ≠ .flt → k.val ≠ 0 → AstExact asts →
    compileAsts (scaleAst k asts) = mapOk (scaleBlocks k) (compileAsts asts)

-- ---------------------------------------------------------------- the counterexample
/-- the number of roots of each block -/
def rootCounts : CompileResult → Option (List Nat)
  | .ok bs => some (bs.map List.length)
  | _ => none

/-- `flour` is defined with 1 − 9007199.45·2⁻⁵³ (as a fraction) and used once as `1 flour`: in binary64 the two are
    within 1e-9 relatively, so the definition is in-lined.  Times 3/2 they are 6755400·2⁻⁵² apart, just outside. -/
def cexText : Str := "180143984914675851/180143985094819840 flour\nfry(1 flour)".toList

def cexAsts : List (List AStmt) := match parseAll 0 [cexText] with | .ok a => a | .error _ => []

theorem cex_facts :
    astExactB cexAsts = true ∧
    rootCounts (compileAsts cexAsts) = some [1] ∧
    rootCounts (compileAsts (scaleAst ⟨3 / 2, .frac⟩ cexAsts)) = some [2] ∧
    inlineTestsStableB ⟨3 / 2, .frac⟩ cexAsts = false := by decide +kernel

/-- **finding**: scaling does not commute with compiling in general.  Compiling the description above gives one tree
    (`fry(flour)`, the definition in-lined); compiling it with its numbers multiplied by 3/2 gives two (the definition
    and `fry(3/2 flour)` with a reference), because `has_equal_value_to` is evaluated on different doubles.  The
    Python code does the same (checked with `recipe_grid.compiler.compile`). -/
theorem compile_scale_commute_Full_false : ¬ compile_scale_commute_Full := by
  intro h
  have h1 := h ⟨3 / 2, .frac⟩ cexAsts (by decide) (by decide +kernel) (astExact_of_B cex_facts.1)
  have h2 := congrArg rootCounts h1
  rw [cex_facts.2.2.1] at h2
  have h3 : rootCounts (mapOk (scaleBlocks ⟨3 / 2, .frac⟩) (compileAsts cexAsts)) = rootCounts (compileAsts cexAsts) := by
    cases compileAsts cexAsts <;> simp only [mapOk, rootCounts, scaleBlocks, List.map_map, Option.some.injEq]
    apply List.map_congr_left
    intro a _
    simp [Tree.scaleList_eq_map]
  rw [h3, cex_facts.2.1] at h2
  cases h2

-- ================================================================ 3. total-quantity bookkeeping
/-- **the total of the scaled sub recipe is the scaled total** (`lint`'s notion: a one-output sub recipe made of a
    single ingredient with a non-zero quantity) -/
theorem totalQuantity_scale {k : Num} (hk : k.kind ≠ .flt) (hk0 : k.val ≠ 0) {s : Tree} (h : s.Good) :
    totalQuantity (Tree.scale k s) = (totalQuantity s).map (Quantity.scale k) :=
  totalQuantity_scale' hk hk0 h

/-- the same for what `can_be_inlined` reads (`inferQuantity`), any factor -/
theorem inferQuantity_scale' (k : Num) (s : Tree) :
    inferQuantity (Tree.scale k s) = (inferQuantity s).map (Quantity.scale k) := inferQuantity_scale k s

/-- the share of a sub recipe with total `tq` that a reference by quantity `q` stands for: `q · c / tq`, `c` the unit
    conversion factor (exact layer); `none`: incompatible units or a zero total -/
def usedProportion (q tq : Quantity) : Option Rat :=
  match convFactor true q tq with
  | none => none
  | some c => if tq.value.val = 0 then none else some (q.value.val * c.val / tq.value.val)

/-- **the share is invariant when both the reference and the sub recipe are scaled** -/
theorem usedProportion_scale {k : Num} (hk : k.kind ≠ .flt) (hk0 : k.val ≠ 0) (q tq : Quantity)
    (hq : q.value.kind ≠ .flt) (htq : tq.value.kind ≠ .flt) :
    usedProportion (q.scale k) (tq.scale k) = usedProportion q tq := by
  unfold usedProportion
  rw [convFactor_scale]
  cases convFactor true q tq with
  | none => rfl
  | some c =>
    have h1 : (q.scale k).value.val = q.value.val * k.val := Num.mul_val_exact hq hk
    have h2 : (tq.scale k).value.val = tq.value.val * k.val := Num.mul_val_exact htq hk
    have h3 : (tq.value.val * k.val = 0) ↔ (tq.value.val = 0) := by
      have := Rat.mul_eq_zero_right' (a := tq.value.val) hk0
      rw [Bool.eq_iff_iff] at this
      simpa using this
    simp only [h1, h2, h3, Rat.mul_div_mul_right' _ _ _ _ hk0]

/-- and so is each step of `lint`'s accumulation of the proportions used (quantity, proportion or remainder), hence
    the whole sum: the verdicts “not used up” / “used too much” do not depend on the scale -/
theorem reference_share_scale {k : Num} (hk : k.kind ≠ .flt) (hk0 : k.val ≠ 0) (s : Tree) (hs : s.Good)
    (st : SumState) (a : Amount) (ha : a.Exact) :
    sumStep true (totalQuantity (Tree.scale k s)) st (a.scale k) = sumStep true (totalQuantity s) st a := by
  rw [totalQuantity_scale hk hk0 hs]
  exact sumStep_scale hk hk0 _ (totalQuantity_exact hs) st a ha

-- ================================================================ examples
/-- `flour` (defined by quantity, used once with the same quantity: in-lined), `sauce` referenced twice, by quantity
    and by remainder; `{…}` numbers in an ingredient and in a step name -/
def exText : Str :=
  "500g flour\nsauce = simmer(400g tomatoes, 2 onions cut in {4})\nbake for {3} people(250g of sauce, sift(500g flour))\npizza(remaining sauce, 1 pizza base)".toList

def exAsts : List (List AStmt) := match parseAll 0 [exText] with | .ok a => a | .error _ => []

/-- what multiplying by 3/2 in the text gives: the same ASTs up to the source offsets (not compared here: the trees are) -/
def exTextScaled : Str :=
  "750g flour\nsauce = simmer(600g tomatoes, 3 onions cut in {6})\nbake for {9/2} people(375g of sauce, sift(750g flour))\npizza(remaining sauce, 3/2 pizza base)".toList

def blocksBeq (a b : List Block) : Bool := Tree.beqList a.flatten b.flatten && a.map List.length == b.map List.length

/-- evaluated: the hypotheses of `compile_scale_commute` hold for the example; both sides are accepted with 3 roots and
    are structurally equal; and compiling the text with the numbers multiplied by hand is `==` to them -/
example :
    astExactB exAsts = true ∧ inlineTestsStableB ⟨3 / 2, .frac⟩ exAsts = true ∧
    rootCounts (compileAsts exAsts) = some [3] ∧
    (match compileAsts (scaleAst ⟨3 / 2, .frac⟩ exAsts), compileAsts exAsts, compile [exTextScaled] with
     | .ok a, .ok b, .ok c =>
       Tree.eqbList a.flatten (scaleBlocks ⟨3 / 2, .frac⟩ b).flatten && blocksBeq c (scaleBlocks ⟨3 / 2, .frac⟩ b)
     | _, _, _ => false) = true := by decide +kernel

/-- the theorem applied to the example -/
example : compileAsts (scaleAst ⟨3 / 2, .frac⟩ exAsts) = mapOk (scaleBlocks ⟨3 / 2, .frac⟩) (compileAsts exAsts) :=
  compile_scale_commute (by decide) (by decide +kernel) exAsts
    (astExact_of_B (by decide +kernel)) (inlineTestsStable_of_B (by decide +kernel))

/-- a rejected description stays rejected at the same place: `1/2 of the sauce` with no `sauce` defined -/
example : (match parseAll 0 ["fry(1/2 of the sauce, 2 eggs)".toList] with
    | .ok asts =>
      (match compileAsts asts, compileAsts (scaleAst ⟨3 / 2, .frac⟩ asts) with
       | .proportion b o, .proportion b' o' => b == b' && o == o'
       | _, _ => false)
    | .error _ => false) = true := by decide +kernel


/-- why `k ≠ 0`: numbers inside names tell names apart; times 0 the two names below collide, and the scaled
    description is rejected (`NameRedefinedError` at offset 26) while the original compiles to two roots -/
example : (match parseAll 0 ["{1} egg mix = whisk(egg)\n{2} egg mix = beat(eggs)".toList] with
    | .ok asts =>
      astExactB asts && inlineTestsStableB ⟨0, .int⟩ asts &&
      (match compileAsts asts, compileAsts (scaleAst ⟨0, .int⟩ asts) with
       | .ok bs, .redefined b o => bs.map List.length == [2] && b == 0 && o == 26
       | _, _ => false)
    | .error _ => false) = true := by decide +kernel

end RG.C03
