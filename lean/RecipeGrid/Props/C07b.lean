import RecipeGrid.Lemmas.FoldSpec
/-! C07.1 — `compile` returns a recipe or one of the documented, located errors, never an undocumented exception;
    and every reported error position lies in the input (so that C07.2's `offset_located`/`offset_exact` apply).
    Helper lemmas are in `Lemmas/FoldSpec.lean`. -/
namespace RG.C07

/-- the outcome of `compile` before any error is classified: parse errors first, then elaboration errors, then
    the result of the inlining pass -/
theorem compile_cases (srcs : List Str) :
    (∃ e, parseAll 0 srcs = .error e ∧ compile srcs = e) ∨
    (∃ asts e, parseAll 0 srcs = .ok asts ∧ compileBlocks 0 {} asts = .error e ∧ compile srcs = e) ∨
    (∃ asts bs st bs', parseAll 0 srcs = .ok asts ∧ compileBlocks 0 {} asts = .ok (bs, st) ∧ compile srcs = .ok bs') := by
  cases hp : parseAll 0 srcs with
  | error e => exact Or.inl ⟨e, rfl, by simp [compile, elabBlocks, hp]; rfl⟩
  | ok asts =>
    cases hc : compileBlocks 0 {} asts with
    | error e =>
      refine Or.inr (Or.inl ⟨asts, e, rfl, hc, ?_⟩)
      simp only [compile, elabBlocks, hp]
      show (match compileBlocks 0 {} asts with | .error e => e | .ok (blocks, st) => _) = e
      rw [hc]
    | ok p =>
      obtain ⟨bs, st⟩ := p
      have he : elabBlocks srcs = .ok (bs, st) := by
        simp only [elabBlocks, hp]
        exact hc
      obtain ⟨bs', outs', hf⟩ := C08.foldAll_ok asts bs st hc
      refine Or.inr (Or.inr ⟨asts, bs, st, bs', rfl, hc, ?_⟩)
      rw [compile_of_elab he, hf]
      simp only [C08.foldAll_valid asts bs st hc bs' outs' hf, if_true]

/-- **C07.1** for every list of source texts the compiler model returns a recipe or one of the documented, located
    errors — never `ZeroDivisionError` and never another undocumented exception -/
theorem compile_documented_outcomes (srcs : List Str) :
    (∃ bs, compile srcs = .ok bs) ∨ (∃ b, compile srcs = .syntaxError b) ∨
    (∃ b off, compile srcs = .redefined b off) ∨ (∃ b off, compile srcs = .proportion b off) := by
  rcases compile_cases srcs with ⟨e, hp, hc⟩ | ⟨asts, e, hp, hb, hc⟩ | ⟨asts, bs, st, bs', _, _, hc⟩
  · obtain ⟨b, hb, _⟩ := parseAll_error_syntax srcs 0 e hp
    exact Or.inr (Or.inl ⟨b, by rw [hc, hb]⟩)
  · rcases compileBlocks_error asts 0 {} e hb with ⟨b, off, hx | hx, _⟩ | ⟨why, hx⟩
    · exact Or.inr (Or.inr (Or.inr ⟨b, off, by rw [hc, hx]⟩))
    · exact Or.inr (Or.inr (Or.inl ⟨b, off, by rw [hc, hx]⟩))
    · exact absurd (by rw [hc, hx]) (C08.compile_no_internal srcs why)
  · exact Or.inl ⟨bs', hc⟩

/-- in particular no `ZeroDivisionError` and no other exception -/
theorem compile_never_undocumented (srcs : List Str) :
    (∀ b, compile srcs ≠ .zeroDivision b) ∧ (∀ why, compile srcs ≠ .internal why) := by
  constructor
  · intro b h
    rcases compile_documented_outcomes srcs with ⟨x, hx⟩ | ⟨x, hx⟩ | ⟨x, y, hx⟩ | ⟨x, y, hx⟩ <;>
      rw [hx] at h <;> cases h
  · exact C08.compile_no_internal srcs

/-- where a reported error comes from: a syntax error is reported for a block of the input; a redefinition or a
    proportion error is reported for a block of the input that parses, at an offset recorded in one of its statements
    (`AStmt.errOffsets`: the offsets of the written proportions and of the written output names) -/
theorem compile_error_provenance (srcs : List Str) :
    (∀ b, compile srcs = .syntaxError b → b < srcs.length) ∧
    (∀ b off, compile srcs = .redefined b off ∨ compile srcs = .proportion b off →
      ∃ s stmts, srcs[b]? = some s ∧ parse s = .ok stmts ∧ ∃ st ∈ stmts, off ∈ st.errOffsets) := by
  rcases compile_cases srcs with ⟨e, hp, hc⟩ | ⟨asts, e, hp, hb, hc⟩ | ⟨asts, bs, st, bs', _, _, hc⟩
  · obtain ⟨b', hb', _, hlt⟩ := parseAll_error_syntax srcs 0 e hp
    rw [hc, hb']
    constructor
    · intro b h; cases h; omega
    · intro b off h; rcases h with h | h <;> cases h
  · obtain ⟨hlen, hk⟩ := parseAll_ok srcs 0 asts hp
    rw [hc]
    rcases compileBlocks_error asts 0 {} e hb with ⟨b', off', hx, _, ss, hss, s, hs, ho⟩ | ⟨why, hx⟩
    · constructor
      · intro b h; rcases hx with hx | hx <;> rw [hx] at h <;> cases h
      · intro b off h
        have hbo : b = b' ∧ off = off' := by
          rcases hx with hx | hx <;> rw [hx] at h <;> rcases h with h | h <;> cases h <;> exact ⟨rfl, rfl⟩
        obtain ⟨rfl, rfl⟩ := hbo
        simp only [Nat.sub_zero] at hss
        have hlt : b < srcs.length := by rw [← hlen]; exact (List.getElem?_eq_some_iff.mp hss).1
        obtain ⟨a, ha, hpa⟩ := hk b _ (List.getElem?_eq_getElem hlt)
        rw [hss] at ha; cases ha
        exact ⟨_, ss, List.getElem?_eq_getElem hlt, hpa, s, hs, ho⟩
    · exact absurd (by rw [hc, hx]) (C08.compile_no_internal srcs why)
  · rw [hc]
    constructor
    · intro b h; cases h
    · intro b off h; rcases h with h | h <;> cases h

/-- every offset recorded in the AST of a parsed text lies in that text (the parser only records positions it has
    reached, and it never goes beyond the end) -/
theorem parse_offsets_in_source (s : Str) (stmts : List AStmt) (h : parse s = .ok stmts) :
    ∀ st ∈ stmts, ∀ off ∈ st.errOffsets, off ≤ s.length :=
  RG.parse_offsets_in_source s stmts h

/-- **C07.1 located**: the block index of every reported error is a block of the input, and the reported offset lies
    inside that block's text, so that C07.2 (`offset_located`, and `offset_exact` when the offset is not the end of
    the text) applies to it -/
theorem compile_error_in_source (srcs : List Str) :
    (∀ b, compile srcs = .syntaxError b → b < srcs.length) ∧
    (∀ b off, compile srcs = .redefined b off → ∃ s, srcs[b]? = some s ∧ off ≤ s.length) ∧
    (∀ b off, compile srcs = .proportion b off → ∃ s, srcs[b]? = some s ∧ off ≤ s.length) := by
  obtain ⟨h1, h2⟩ := compile_error_provenance srcs
  refine ⟨h1, ?_, ?_⟩
  · intro b off h
    obtain ⟨s, stmts, hs, hp, st, hst, ho⟩ := h2 b off (Or.inl h)
    exact ⟨s, hs, parse_offsets_in_source s stmts hp st hst off ho⟩
  · intro b off h
    obtain ⟨s, stmts, hs, hp, st, hst, ho⟩ := h2 b off (Or.inr h)
    exact ⟨s, hs, parse_offsets_in_source s stmts hp st hst off ho⟩

/-- the reported line and column of a located error exist in the block's text -/
theorem compile_error_located (srcs : List Str) (b off : Nat)
    (h : compile srcs = .redefined b off ∨ compile srcs = .proportion b off) :
    ∃ s, srcs[b]? = some s ∧ off ≤ s.length ∧
      1 ≤ (offsetToLineCol s off).1 ∧ (offsetToLineCol s off).1 ≤ max 1 (splitLinesKeep s).length ∧
      1 ≤ (offsetToLineCol s off).2 ∧
      (offsetToLineCol s off).2 ≤ ((splitLinesKeep s)[(offsetToLineCol s off).1 - 1]?.getD []).length + 1 := by
  obtain ⟨_, h2, h3⟩ := compile_error_in_source srcs
  obtain ⟨s, hs, hle⟩ : ∃ s, srcs[b]? = some s ∧ off ≤ s.length := by
    rcases h with h | h
    · exact h2 b off h
    · exact h3 b off h
  exact ⟨s, hs, hle, offset_located s off⟩

/-- non-vacuity: a redefinition in the second block, and a proportion of something that is not a sub recipe -/
example : compile ["x".toList, "a = f(x)\n a = g(y)".toList] = .redefined 1 10 := by decide +kernel
example : compile ["f(1/2 of x)".toList] = .proportion 0 2 := by decide +kernel
example : compile ["f(".toList] = .syntaxError 0 := by decide +kernel

end RG.C07
