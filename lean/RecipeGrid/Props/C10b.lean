import RecipeGrid.Props.C10
import RecipeGrid.Lemmas.HtmlText
/-! C10 (continued) — rendered recipe text is inert at the level of HTML tokens: fed to a small HTML tokenizer, the
    output of the renderer has an element structure (`skeleton`) that does not depend on the user's strings, and
    its visible text (`textOf`) is the user's text, character for character.

    Specification (independent of the renderer): `tokens`, `skeleton`, `textOf`, `unescapeX`; the plain-text
    renderings `plainNumber`, `plainSvs`, `plainQuantity`, `plainProportion`, `plainAmount`, `plainQuantityFull`;
    `collapseWs` (text modulo ASCII white space).
    Main results: `renderSvs_skeleton`, `renderSvs_text` (C10.4, no restriction on the text);
    `renderQuantity_text`/`_skeleton`, `renderProportion_text`/`_skeleton`, `renderAmount_text`/`_skeleton` (exact,
    for values written on one line); `renderQuantity_text_full` (any quantity, alternative forms included, modulo
    white space); `tagBody_tokens`, `tagBody_attr_roundtrip` (C10.2 at the level of tokens).  Cell bodies are in
    `Props/C04b.lean`.  String-level helper lemmas about the renderer are in `Lemmas/HtmlText.lean`.

    Observations recorded here: (1) `tagBody` re-indents a multi-line body and strips the white space at its end
    with `str.rstrip`, which also removes Unicode white space such as U+00A0 — text ending a multi-line body loses
    it (example at the end; `C04.renderCellBody_text_newline_witness`); (2) a newline inside text that ends up in a
    `tagBody` body changes the layout, so white-space text appears between tags (`C04.renderCellBody_skeleton_
    newline_witness`); (3) with exactly one alternative form a quantity and its alternative would run together
    without white space (`plainQuantityFull`; the generated unit table has 0, 3 or 5 alternatives). -/
namespace RG.C10

-- ---------------------------------------------------------------- the specification: a small HTML tokenizer

inductive Token where
  | open (tag : Str) (attrs : List (Str × Str))
  | close (tag : Str)
  | text (s : Str)
deriving DecidableEq, Repr

/-- decoding of text between tags: the eight references of `unescape` plus `&times;` and `&frasl;` (which the
    renderer emits itself); every other character (including a stray `&`) stays -/
def unescapeX : Str → Str
  | '&' :: 't' :: 'i' :: 'm' :: 'e' :: 's' :: ';' :: rest => '×' :: unescapeX rest
  | '&' :: 'f' :: 'r' :: 'a' :: 's' :: 'l' :: ';' :: rest => '⁄' :: unescapeX rest
  | '&' :: 'a' :: 'm' :: 'p' :: ';' :: rest => '&' :: unescapeX rest
  | '&' :: 'l' :: 't' :: ';' :: rest => '<' :: unescapeX rest
  | '&' :: 'g' :: 't' :: ';' :: rest => '>' :: unescapeX rest
  | '&' :: 'q' :: 'u' :: 'o' :: 't' :: ';' :: rest => '"' :: unescapeX rest
  | '&' :: '#' :: 'x' :: '2' :: '7' :: ';' :: rest => '\'' :: unescapeX rest
  | '&' :: '#' :: '1' :: '0' :: ';' :: rest => '\n' :: unescapeX rest
  | '&' :: '#' :: '1' :: '3' :: ';' :: rest => '\r' :: unescapeX rest
  | '&' :: '#' :: '9' :: ';' :: rest => '\t' :: unescapeX rest
  | c :: rest => c :: unescapeX rest
  | [] => []

/-- tag and attribute names: ASCII letters, digits, '-' -/
def isNameChar (c : Char) : Bool := c.isAlphanum || c == '-'

/-- where the tokenizer is -/
inductive Mode where
  /-- between tags -/
  | data
  /-- after `<` -/
  | tagOpen
  /-- after `</`, reading the name -/
  | closeName (n : Str)
  /-- after `<`, reading the name -/
  | openName (n : Str)
  /-- after the tag name or an attribute value: a space, `/` or `>` must follow -/
  | afterName (tag : Str) (attrs : List (Str × Str))
  /-- after the space: an attribute name, `/` or `>` must follow -/
  | beforeAttr (tag : Str) (attrs : List (Str × Str))
  /-- reading an attribute name; `=` must follow -/
  | attrName (tag : Str) (attrs : List (Str × Str)) (n : Str)
  /-- after `=`: a quote must follow -/
  | beforeVal (tag : Str) (attrs : List (Str × Str)) (n : Str)
  /-- inside a quoted attribute value, up to the same quote -/
  | attrVal (tag : Str) (attrs : List (Str × Str)) (n : Str) (q : Char) (v : Str)
  /-- after `/`: `>` must follow -/
  | selfClose (tag : Str) (attrs : List (Str × Str))
deriving DecidableEq, Repr

/-- the tokenizer state: tokens emitted so far, the raw text since the last tag, the raw characters of the tag
    being read (from its `<`), and the mode -/
structure St where
  out : List Token
  acc : Str
  raw : Str
  mode : Mode
deriving DecidableEq, Repr

/-- pending raw text becomes one text token, decoded; no token for no text -/
def flushText (acc : Str) : List Token := if acc.isEmpty then [] else [.text (unescapeX acc)]

/-- a complete tag: the pending text, then the tag -/
def St.emit (st : St) (k : Token) : St := ⟨st.out ++ flushText st.acc ++ [k], [], [], .data⟩

def stepData (st : St) (c : Char) : St :=
  if c = '<' then { st with raw := ['<'], mode := .tagOpen } else { st with acc := st.acc ++ [c] }

/-- what looked like a tag is not one: its characters are text after all (as in HTML), and `c` is read as data -/
def St.fail (st : St) (c : Char) : St := stepData ⟨st.out, st.acc ++ st.raw, [], .data⟩ c

/-- after a tag name or attribute value -/
def stepAfter (st : St) (tag : Str) (attrs : List (Str × Str)) (c : Char) : St :=
  if c = ' ' then { st with raw := st.raw ++ [c], mode := .beforeAttr tag attrs }
  else if c = '/' then { st with raw := st.raw ++ [c], mode := .selfClose tag attrs }
  else if c = '>' then st.emit (.open tag attrs)
  else st.fail c

def step (st : St) (c : Char) : St :=
  match st.mode with
  | .data => stepData st c
  | .tagOpen =>
    if c = '/' then { st with raw := st.raw ++ [c], mode := .closeName [] }
    else if isNameChar c then { st with raw := st.raw ++ [c], mode := .openName [c] }
    else st.fail c
  | .closeName n =>
    if isNameChar c then { st with raw := st.raw ++ [c], mode := .closeName (n ++ [c]) }
    else if c = '>' ∧ n ≠ [] then st.emit (.close n)
    else st.fail c
  | .openName n =>
    if isNameChar c then { st with raw := st.raw ++ [c], mode := .openName (n ++ [c]) }
    else stepAfter st n [] c
  | .afterName tag attrs => stepAfter st tag attrs c
  | .beforeAttr tag attrs =>
    if isNameChar c then { st with raw := st.raw ++ [c], mode := .attrName tag attrs [c] }
    else if c = '/' then { st with raw := st.raw ++ [c], mode := .selfClose tag attrs }
    else if c = '>' then st.emit (.open tag attrs)
    else st.fail c
  | .attrName tag attrs n =>
    if isNameChar c then { st with raw := st.raw ++ [c], mode := .attrName tag attrs (n ++ [c]) }
    else if c = '=' then { st with raw := st.raw ++ [c], mode := .beforeVal tag attrs n }
    else st.fail c
  | .beforeVal tag attrs n =>
    if c = '"' ∨ c = '\'' then { st with raw := st.raw ++ [c], mode := .attrVal tag attrs n c [] }
    else st.fail c
  | .attrVal tag attrs n q v =>
    if c = q then { st with raw := st.raw ++ [c], mode := .afterName tag (attrs ++ [(n, unescape v)]) }
    else { st with raw := st.raw ++ [c], mode := .attrVal tag attrs n q (v ++ [c]) }
  | .selfClose tag attrs =>
    if c = '>' then st.emit (.open tag attrs) else st.fail c

/-- at the end of the input an unfinished tag is text -/
def St.finish (st : St) : List Token := st.out ++ flushText (st.acc ++ st.raw)

/-- the tokens of an HTML fragment: data up to `<`; `</name>` is a close tag;
    `<name( name="value"| name='value')*( )?(/)?>` is an open tag, attribute values decoded with `unescape`;
    the text between tags is decoded with `unescapeX`; total (one step per character) -/
def tokens (s : Str) : List Token := (s.foldl step ⟨[], [], [], .data⟩).finish

/-- the element structure: every text blanked, the values of `id` and `href` blanked (names kept); tags, classes
    and span attributes stay -/
def blankIds (attrs : List (Str × Str)) : List (Str × Str) :=
  attrs.map fun (n, v) => if n = S "id" ∨ n = S "href" then (n, []) else (n, v)
def skeleton (ts : List Token) : List Token :=
  ts.map fun
    | .text _ => .text []
    | .open tag attrs => .open tag (blankIds attrs)
    | .close tag => .close tag

/-- the visible text: the text tokens, concatenated -/
def textOf (ts : List Token) : Str :=
  ts.flatMap fun
    | .text s => s
    | _ => []

example : tokens (S "<b>&amp;\"'") = [.open (S "b") [], .text (S "&\"'")] := by decide +kernel
example : tokens (S "") = [] := by decide +kernel
example : tokens (S "a<b") = [.text (S "a<b")] := by decide +kernel
example : tokens (S "1 < 2 <i>x</i>") = [.text (S "1 < 2 "), .open (S "i") [], .text (S "x"), .close (S "i")] := by
  decide +kernel
example : tokens (S "<a href=\"#x&amp;y\" id='q\"'>t&lt;</a><br/>&times;") =
    [.open (S "a") [(S "href", S "#x&y"), (S "id", S "q\"")], .text (S "t<"), .close (S "a"), .open (S "br") [],
      .text (S "×")] := by decide +kernel
example : skeleton (tokens (S "<a href=\"#x\" class=\"c\">t</a>")) =
    [.open (S "a") [(S "href", []), (S "class", S "c")], .text [], .close (S "a")] := by decide +kernel
/-- an attribute value without closing quote is not a tag -/
example : tokens (S "<a href=\"x>y") = [.text (S "<a href=\"x>y")] := by decide +kernel
/-- the nasty string, escaped: one text token, which reads back as the string -/
example : tokens (htmlEscape (S "<b>&amp;\"'")) = [.text (S "<b>&amp;\"'")] := by decide +kernel
/-- the nasty string, not escaped, would have been markup -/
example : tokens (S "<b>&amp;\"'") ≠ [.text (S "<b>&amp;\"'")] := by decide +kernel

-- ---------------------------------------------------------------- the specification: plain text of recipe values

/-- a number as plain text: what `format_number` shows, with the fraction slash for '/' -/
def plainNumber (n : Num) : Str := (formatNumber n).map fun c => if c = '/' then '⁄' else c

/-- a scaled-value string as plain text: the text parts verbatim, the numbers as plain text -/
def plainSvs (s : SVS) : Str :=
  s.flatMap fun
    | .text t => t
    | .num n => plainNumber n

/-- two scaled-value strings differing only in the text of their text parts: same length, text parts at the same
    positions (empty ones at the same positions), equal numbers -/
def SameShape : SVS → SVS → Prop
  | [], [] => True
  | .text a :: s₁, .text b :: s₂ => (a = [] ↔ b = []) ∧ SameShape s₁ s₂
  | .num m :: s₁, .num n :: s₂ => m = n ∧ SameShape s₁ s₂
  | _, _ => False

example : plainNumber ⟨mkRat 7 4, .frac⟩ = S "1 3⁄4" := by decide +kernel
example : plainSvs [.text (S "<b> "), .num ⟨mkRat 1 2, .frac⟩, .text (S " & more")] = S "<b> 1⁄2 & more" := by
  decide +kernel

/-- the alternative forms `render_quantity` lists with a quantity whose unit is known -/
def conversions (q : Quantity) : List (Num × Str) :=
  match q.unit with
  | none => []
  | some unit =>
    match altUnits (lowerStr unit) with
    | some (_ :: rest) => rest.map fun (sc, n) => (q.value.mul sc, n)
    | _ => []

/-- a quantity as plain text (without alternative forms) -/
def plainQuantity (q : Quantity) : Str :=
  plainNumber q.value ++ (match q.unit with | none => [] | some u => q.spacing ++ u) ++ q.prep

/-- a proportion as plain text; `*` is shown as the multiplication sign -/
def plainProportion (value : Option Num) (percentage : Bool) (wording : Option Str) (prep : Str) : Str :=
  match value with
  | none => wording.getD (S "remaining") ++ prep
  | some v => plainNumber (if percentage then v.mul ⟨100, .int⟩ else v) ++ prep.map fun c => if c = '*' then '×' else c

/-- the whole (1) is not shown -/
def isWhole (v : Option Num) : Bool := match v with | some n => n.val == 1 | none => false

/-- an amount as plain text, with the space after it; the whole (1) is not shown -/
def plainAmount : Amount → Str
  | .quantity q => plainQuantity q ++ [' ']
  | .proportion v p w s =>
    if isWhole v then [] else plainProportion v p w s ++ [' ']

/-- a quantity written on one line: no alternative forms to list, no newline in its spacing and unit -/
def OneLineQ (q : Quantity) : Prop :=
  conversions q = [] ∧ ∀ u, q.unit = some u → '\n' ∉ q.spacing ∧ '\n' ∉ u

/-- both empty or both not -/
def SameEmpty (a b : Str) : Prop := a = [] ↔ b = []

/-- two quantities differing only in their (non-empty) texts -/
def SameQ (q₁ q₂ : Quantity) : Prop :=
  q₁.value = q₂.value ∧ SameEmpty q₁.prep q₂.prep ∧
    match q₁.unit, q₂.unit with
    | none, none => True
    | some u₁, some u₂ => SameEmpty (q₁.spacing ++ u₁) (q₂.spacing ++ u₂)
    | _, _ => False

/-- two proportions differing only in their (non-empty) texts -/
def SameProp (v₁ : Option Num) (p₁ : Bool) (w₁ : Option Str) (s₁ : Str) (v₂ : Option Num) (p₂ : Bool)
    (w₂ : Option Str) (s₂ : Str) : Prop :=
  match v₁, v₂ with
  | none, none => SameEmpty (w₁.getD (S "remaining") ++ s₁) (w₂.getD (S "remaining") ++ s₂)
  | some a, some b => a = b ∧ p₁ = p₂ ∧ SameEmpty s₁ s₂
  | _, _ => False

/-- an amount written on one line -/
def OneLineA : Amount → Prop
  | .quantity q => OneLineQ q ∧ '\n' ∉ q.prep
  | .proportion _ _ w s => (∀ w', w = some w' → '\n' ∉ w') ∧ '\n' ∉ s

/-- two amounts differing only in their (non-empty) texts -/
def SameA : Amount → Amount → Prop
  | .quantity q₁, .quantity q₂ => SameQ q₁ q₂
  | .proportion v₁ p₁ w₁ s₁, .proportion v₂ p₂ w₂ s₂ => SameProp v₁ p₁ w₁ s₁ v₂ p₂ w₂ s₂
  | _, _ => False

/-- one form of a quantity (the number, the spacing, a unit) as plain text -/
def plainConv (q : Quantity) (c : Num × Str) : Str := plainNumber c.1 ++ q.spacing ++ c.2

/-- a quantity as plain text, with the alternative forms the renderer lists after it (hidden until hovered):
    each separated by white space; a single alternative follows directly -/
def plainQuantityFull (q : Quantity) : Str :=
  match q.unit with
  | none => plainQuantity q
  | some u =>
    match conversions q with
    | [] => plainQuantity q
    | [c] => plainConv q (q.value, u) ++ plainConv q c ++ q.prep
    | cs => plainConv q (q.value, u) ++ cs.flatMap (fun c => ' ' :: plainConv q c) ++ ' ' :: q.prep

/-- spacing and unit of the quantity have no line break -/
def QOK (q : Quantity) : Prop := ∀ u, q.unit = some u → NoBreak q.spacing ∧ NoBreak u

-- ---------------------------------------------------------------- the specification: text modulo white space

/-- ASCII white space (the characters HTML collapses) -/
def isAsciiWs (c : Char) : Bool := c == ' ' || c == '\t' || c == '\n' || c == '\r' || c == '\x0c'

/-- the maximal runs of characters other than ASCII white space; `cur` is the current run, reversed -/
def wsWordsAux : Str → Str → List Str
  | cur, [] => if cur.isEmpty then [] else [cur.reverse]
  | cur, c :: rest =>
    if isAsciiWs c then (if cur.isEmpty then wsWordsAux [] rest else cur.reverse :: wsWordsAux [] rest)
    else wsWordsAux (c :: cur) rest
def wsWords (s : Str) : List Str := wsWordsAux [] s

/-- text with every run of ASCII white space collapsed to one space, and none at the ends -/
def collapseWs (s : Str) : Str := (S " ").intercalate (wsWords s)

example : collapseWs (S "\n  1 tsp\n    5 ml\n  \n of  salt ") = S "1 tsp 5 ml of salt" := by decide +kernel

-- ---------------------------------------------------------------- proofs: decoding

theorem unescapeX_other (c : Char) (h : c ≠ '&') (rest : Str) : unescapeX (c :: rest) = c :: unescapeX rest := by
  conv => lhs; unfold unescapeX
  split <;> simp_all

theorem unescapeX_cons_ne_nil (c : Char) (rest : Str) : unescapeX (c :: rest) ≠ [] := by
  unfold unescapeX
  split <;> simp_all

/-- `r` is raw text (no `<`) that decodes to `t`, whatever follows it -/
structure Raw (r t : Str) : Prop where
  nolt : '<' ∉ r
  dec : ∀ rest, unescapeX (r ++ rest) = t ++ unescapeX rest

theorem Raw.nil : Raw [] [] := ⟨by simp, fun _ => rfl⟩

theorem Raw.append {r₁ t₁ r₂ t₂ : Str} (h₁ : Raw r₁ t₁) (h₂ : Raw r₂ t₂) : Raw (r₁ ++ r₂) (t₁ ++ t₂) :=
  ⟨by simp [h₁.nolt, h₂.nolt], fun rest => by rw [List.append_assoc, h₁.dec, h₂.dec, List.append_assoc]⟩

theorem Raw.decoded {r t : Str} (h : Raw r t) : unescapeX r = t := by
  have := h.dec []; simpa [unescapeX] using this

theorem Raw.nil_iff {r t : Str} (h : Raw r t) : r = [] ↔ t = [] := by
  constructor
  · rintro rfl; have := h.decoded; simpa [unescapeX] using this.symm
  · intro ht
    cases r with
    | nil => rfl
    | cons c r => exact absurd (h.decoded.trans ht) (unescapeX_cons_ne_nil c r)

/-- `enc` writes every character `c` so that it reads back as `f c` -/
def DecodesX (enc : Char → Str) (f : Char → Char) : Prop :=
  ∀ c, '<' ∉ enc c ∧ ∀ rest, unescapeX (enc c ++ rest) = f c :: unescapeX rest

theorem Raw.flatMap {enc : Char → Str} {f : Char → Char} (h : DecodesX enc f) (s : Str) :
    Raw (s.flatMap enc) (s.map f) := by
  induction s with
  | nil => exact Raw.nil
  | cons c s ih =>
    rw [List.flatMap_cons, List.map_cons]
    exact Raw.append (t₁ := [f c]) ⟨(h c).1, fun rest => by rw [(h c).2]; rfl⟩ ih

theorem decodesX_escapeChar : DecodesX escapeChar id := by
  intro c
  refine ⟨fun hm => (escapeChar_no_markup c _ hm).1 rfl, fun rest => ?_⟩
  by_cases h1 : c = '&'; · subst h1; simp [escapeChar, S, unescapeX]
  by_cases h2 : c = '<'; · subst h2; simp [escapeChar, S, unescapeX]
  by_cases h3 : c = '>'; · subst h3; simp [escapeChar, S, unescapeX]
  by_cases h4 : c = '"'; · subst h4; simp [escapeChar, S, unescapeX]
  by_cases h5 : c = '\''; · subst h5; simp [escapeChar, S, unescapeX]
  rw [escapeChar_other h1 h2 h3 h4 h5]; exact unescapeX_other c h1 rest

/-- escaped text is raw text that reads back as the original -/
theorem Raw.escape (s : Str) : Raw (htmlEscape s) s := by
  have := Raw.flatMap decodesX_escapeChar s
  rwa [List.map_id] at this

/-- C10.1 for the extended decoder -/
theorem unescapeX_escape (s : Str) : unescapeX (htmlEscape s) = s := (Raw.escape s).decoded

/-- text without `&` and `<` is raw text reading as itself -/
theorem Raw.plain (s : Str) (h : ∀ c ∈ s, c ≠ '&' ∧ c ≠ '<') : Raw s s := by
  induction s with
  | nil => exact Raw.nil
  | cons c s ih =>
    have hc := h c (List.mem_cons_self ..)
    exact Raw.append (r₁ := [c]) (t₁ := [c])
      ⟨by simpa using Ne.symm hc.2, fun rest => unescapeX_other c hc.1 rest⟩
      (ih fun d hd => h d (List.mem_cons_of_mem _ hd))

theorem Raw.frasl : Raw (S "&frasl;") ['⁄'] := ⟨by decide, fun rest => by simp [S, unescapeX]⟩

-- ---------------------------------------------------------------- proofs: what a fragment denotes

/-- decoded pending text becomes one text token; no token for no text -/
def flushT (t : Str) : List Token := if t.isEmpty then [] else [.text t]

/-- a fragment is described by a token list in which text tokens may be adjacent or empty; read after pending
    text `acc`, these are the tokens completed … -/
def emitted : Str → List Token → List Token
  | _, [] => []
  | acc, .text t :: ts => emitted (acc ++ t) ts
  | acc, .open tag as :: ts => flushT acc ++ .open tag as :: emitted [] ts
  | acc, .close tag :: ts => flushT acc ++ .close tag :: emitted [] ts
/-- … and this is the text still pending -/
def pend : Str → List Token → Str
  | acc, [] => acc
  | acc, .text t :: ts => pend (acc ++ t) ts
  | _, .open _ _ :: ts => pend [] ts
  | _, .close _ :: ts => pend [] ts
/-- adjacent text tokens merged, empty ones dropped -/
def norm (ts : List Token) : List Token := emitted [] ts ++ flushT (pend [] ts)

theorem emitted_append (acc : Str) (a b : List Token) :
    emitted acc (a ++ b) = emitted acc a ++ emitted (pend acc a) b := by
  induction a generalizing acc with
  | nil => rfl
  | cons k a ih => cases k <;> simp [emitted, pend, ih]

theorem pend_append (acc : Str) (a b : List Token) : pend acc (a ++ b) = pend (pend acc a) b := by
  induction a generalizing acc with
  | nil => rfl
  | cons k a ih => cases k <;> simp [pend, ih]

theorem flushText_eq {r t : Str} (h : Raw r t) : flushText r = flushT t := by
  unfold flushText flushT
  by_cases hr : r = []
  · have := h.nil_iff.1 hr; simp [hr, this]
  · have ht : t ≠ [] := fun e => hr (h.nil_iff.2 e)
    simp [hr, ht, h.decoded]

def D (out : List Token) (acc : Str) : St := ⟨out, acc, [], .data⟩
def run (st : St) (s : Str) : St := s.foldl step st

theorem run_append (st : St) (a b : Str) : run st (a ++ b) = run (run st a) b := List.foldl_append ..
theorem run_cons (st : St) (c : Char) (s : Str) : run st (c :: s) = run (step st c) s := rfl
theorem run_nil (st : St) : run st [] = st := rfl

/-- `s` is a fragment denoting `ts`: read in the data state after any pending text, it completes the tokens
    `emitted … ts`, and ends in the data state with `pend … ts` pending -/
def Frag (s : Str) (ts : List Token) : Prop :=
  ∀ out accR accT, Raw accR accT →
    ∃ accR', Raw accR' (pend accT ts) ∧ run (D out accR) s = D (out ++ emitted accT ts) accR'

theorem tokens_of_frag {s : Str} {ts : List Token} (h : Frag s ts) : tokens s = norm ts := by
  obtain ⟨r, hr, e⟩ := h [] [] [] Raw.nil
  have e' : s.foldl step ⟨[], [], [], .data⟩ = D ([] ++ emitted [] ts) r := e
  simp [tokens, e', St.finish, D, norm, flushText_eq hr]

theorem Frag.nil : Frag [] [] := fun out accR accT h => ⟨accR, h, by simp [run_nil, emitted]⟩

theorem Frag.append {a b : Str} {ta tb : List Token} (ha : Frag a ta) (hb : Frag b tb) :
    Frag (a ++ b) (ta ++ tb) := by
  intro out accR accT h
  obtain ⟨r₁, h₁, e₁⟩ := ha out accR accT h
  obtain ⟨r₂, h₂, e₂⟩ := hb (out ++ emitted accT ta) r₁ _ h₁
  exact ⟨r₂, by rwa [pend_append], by rw [run_append, e₁, e₂, emitted_append, List.append_assoc]⟩

theorem run_data (out : List Token) (acc r : Str) (h : '<' ∉ r) : run (D out acc) r = D out (acc ++ r) := by
  induction r generalizing acc with
  | nil => simp [run_nil]
  | cons c r ih =>
    have hc : c ≠ '<' := fun e => h (by simp [e])
    have hs : step (D out acc) c = D out (acc ++ [c]) := by simp [step, D, stepData, hc]
    rw [run_cons, hs, ih _ (fun hm => h (List.mem_cons_of_mem _ hm))]
    simp

theorem Frag.raw {r t : Str} (h : Raw r t) : Frag r [.text t] := by
  intro out accR accT ha
  exact ⟨accR ++ r, ha.append h, by rw [run_data _ _ _ h.nolt]; simp [emitted]⟩

theorem Frag.escape (s : Str) : Frag (htmlEscape s) [.text s] := Frag.raw (Raw.escape s)

-- ---------------------------------------------------------------- proofs: reading a tag

theorem isNameChar_of_isName {n : String} (h : IsName n) : ∀ c ∈ S n, isNameChar c = true := h.2

theorem run_openName (o : List Token) (a r n cs : Str) (h : ∀ c ∈ cs, isNameChar c = true) :
    run ⟨o, a, r, .openName n⟩ cs = ⟨o, a, r ++ cs, .openName (n ++ cs)⟩ := by
  induction cs generalizing r n with
  | nil => simp [run_nil]
  | cons c cs ih =>
    have hc := h c (List.mem_cons_self ..)
    rw [run_cons]
    have : step ⟨o, a, r, .openName n⟩ c = ⟨o, a, r ++ [c], .openName (n ++ [c])⟩ := by simp [step, hc]
    rw [this, ih _ _ (fun d hd => h d (List.mem_cons_of_mem _ hd))]
    simp

theorem run_closeName (o : List Token) (a r n cs : Str) (h : ∀ c ∈ cs, isNameChar c = true) :
    run ⟨o, a, r, .closeName n⟩ cs = ⟨o, a, r ++ cs, .closeName (n ++ cs)⟩ := by
  induction cs generalizing r n with
  | nil => simp [run_nil]
  | cons c cs ih =>
    have hc := h c (List.mem_cons_self ..)
    rw [run_cons]
    have : step ⟨o, a, r, .closeName n⟩ c = ⟨o, a, r ++ [c], .closeName (n ++ [c])⟩ := by simp [step, hc]
    rw [this, ih _ _ (fun d hd => h d (List.mem_cons_of_mem _ hd))]
    simp

theorem run_attrName (o : List Token) (a r : Str) (t : Str) (as : List (Str × Str)) (n cs : Str)
    (h : ∀ c ∈ cs, isNameChar c = true) :
    run ⟨o, a, r, .attrName t as n⟩ cs = ⟨o, a, r ++ cs, .attrName t as (n ++ cs)⟩ := by
  induction cs generalizing r n with
  | nil => simp [run_nil]
  | cons c cs ih =>
    have hc := h c (List.mem_cons_self ..)
    rw [run_cons]
    have : step ⟨o, a, r, .attrName t as n⟩ c = ⟨o, a, r ++ [c], .attrName t as (n ++ [c])⟩ := by simp [step, hc]
    rw [this, ih _ _ (fun d hd => h d (List.mem_cons_of_mem _ hd))]
    simp

theorem run_attrVal (o : List Token) (a r : Str) (t : Str) (as : List (Str × Str)) (n : Str) (q : Char) (v cs : Str)
    (h : q ∉ cs) :
    run ⟨o, a, r, .attrVal t as n q v⟩ cs = ⟨o, a, r ++ cs, .attrVal t as n q (v ++ cs)⟩ := by
  induction cs generalizing r v with
  | nil => simp [run_nil]
  | cons c cs ih =>
    have hc : c ≠ q := fun e => h (by simp [e])
    rw [run_cons]
    have : step ⟨o, a, r, .attrVal t as n q v⟩ c = ⟨o, a, r ++ [c], .attrVal t as n q (v ++ [c])⟩ := by
      simp [step, hc]
    rw [this, ih _ _ (fun hm => h (List.mem_cons_of_mem _ hm))]
    simp

/-- one attribute as the renderer writes it -/
theorem run_attr (o : List Token) (a r : Str) (t : Str) (as : List (Str × Str)) (n : String) (v : Str)
    (hn : IsName n) :
    run ⟨o, a, r, .afterName t as⟩ (' ' :: S n ++ '=' :: quoteattr v) =
      ⟨o, a, r ++ (' ' :: S n ++ '=' :: quoteattr v), .afterName t (as ++ [(S n, v)])⟩ := by
  obtain ⟨q, body, hq, he, hqb, -, hdec⟩ := quoteattr_wellformed v
  obtain ⟨c0, cs, hcs⟩ : ∃ c0 cs, S n = c0 :: cs := by
    have := hn.1
    cases h : n.toList with
    | nil => exact absurd h this
    | cons c0 cs => exact ⟨c0, cs, h⟩
  have hname := isNameChar_of_isName hn
  rw [hcs] at hname
  have h0 := hname c0 (List.mem_cons_self ..)
  rw [he, hcs]
  show run _ (' ' :: c0 :: (cs ++ '=' :: q :: (body ++ [q]))) = _
  rw [run_cons]
  have s1 : step ⟨o, a, r, .afterName t as⟩ ' ' = ⟨o, a, r ++ [' '], .beforeAttr t as⟩ := by simp [step, stepAfter]
  rw [s1, run_cons]
  have s2 : step ⟨o, a, r ++ [' '], .beforeAttr t as⟩ c0 = ⟨o, a, r ++ [' '] ++ [c0], .attrName t as [c0]⟩ := by
    simp [step, h0]
  rw [s2, run_append, run_attrName _ _ _ _ _ _ _ (fun d hd => hname d (List.mem_cons_of_mem _ hd)), run_cons]
  have s3 : ∀ r' n', step ⟨o, a, r', .attrName t as n'⟩ '=' = ⟨o, a, r' ++ ['='], .beforeVal t as n'⟩ := by
    intro r' n'; simp [step, isNameChar]
  rw [s3, run_cons]
  have s4 : ∀ r' n', step ⟨o, a, r', .beforeVal t as n'⟩ q = ⟨o, a, r' ++ [q], .attrVal t as n' q []⟩ := by
    intro r' n'; simp [step, hq]
  rw [s4, run_append, run_attrVal _ _ _ _ _ _ _ _ _ hqb, run_cons, run_nil]
  have s5 : ∀ r' n' v', step ⟨o, a, r', .attrVal t as n' q v'⟩ q =
      ⟨o, a, r' ++ [q], .afterName t (as ++ [(n', unescape v')])⟩ := by
    intro r' n' v'; simp [step]
  rw [s5]
  simp [hdec]

/-- the attributes as the tokenizer reads them -/
def readAttrs (attrs : List (String × Str)) : List (Str × Str) := attrs.map fun (n, v) => (S n, v)

theorem run_attrs (o : List Token) (a r : Str) (t : Str) (as : List (Str × Str)) (attrs : List (String × Str))
    (h : ∀ x ∈ attrs, IsName x.1) :
    run ⟨o, a, r, .afterName t as⟩ (attrsText attrs) =
      ⟨o, a, r ++ attrsText attrs, .afterName t (as ++ readAttrs attrs)⟩ := by
  induction attrs generalizing r as with
  | nil => simp [attrsText, readAttrs, run_nil]
  | cons x attrs ih =>
    obtain ⟨n, v⟩ := x
    have e : attrsText ((n, v) :: attrs) = (' ' :: S n ++ '=' :: quoteattr v) ++ attrsText attrs := by
      simp [attrsText]
    rw [e, run_append, run_attr _ _ _ _ _ _ _ (h _ (List.mem_cons_self ..)),
      ih _ _ (fun y hy => h y (List.mem_cons_of_mem _ hy))]
    simp [readAttrs]

theorem step_openName_other (o : List Token) (a r n : Str) (c : Char) (h : isNameChar c = false) :
    step ⟨o, a, r, .openName n⟩ c = step ⟨o, a, r, .afterName n []⟩ c := by
  simp [step, h, stepAfter, St.emit, St.fail]

theorem run_openTag (tag : String) (attrs : List (String × Str)) (ht : IsName tag)
    (ha : ∀ x ∈ attrs, IsName x.1) (out : List Token) (accR : Str) :
    run (D out accR) (openTag tag attrs) = D (out ++ flushText accR ++ [.open (S tag) (readAttrs attrs)]) [] := by
  obtain ⟨c0, cs, hcs⟩ : ∃ c0 cs, S tag = c0 :: cs := by
    have := ht.1
    cases h : tag.toList with
    | nil => exact absurd h this
    | cons c0 cs => exact ⟨c0, cs, h⟩
  have hname := isNameChar_of_isName ht
  have h0 : isNameChar c0 = true := hname c0 (by rw [hcs]; exact List.mem_cons_self ..)
  have hcs' : ∀ d ∈ cs, isNameChar d = true := fun d hd => hname d (by rw [hcs]; exact List.mem_cons_of_mem _ hd)
  have e : openTag tag attrs = '<' :: c0 :: (cs ++ (attrsText attrs ++ ['>'])) := by
    simp [openTag, hcs]
  rw [e, run_cons]
  have s1 : step (D out accR) '<' = ⟨out, accR, ['<'], .tagOpen⟩ := by simp [step, D, stepData]
  rw [s1, run_cons]
  have s2 : step ⟨out, accR, ['<'], .tagOpen⟩ c0 = ⟨out, accR, ['<'] ++ [c0], .openName [c0]⟩ := by
    have : c0 ≠ '/' := by rintro rfl; revert h0; decide
    simp [step, h0, this]
  rw [s2, run_append, run_openName _ _ _ _ _ hcs']
  -- the first character after the name is ' ' or '>'
  have s3 : ∀ r', run ⟨out, accR, r', .openName ([c0] ++ cs)⟩ (attrsText attrs ++ ['>']) =
      run ⟨out, accR, r', .afterName ([c0] ++ cs) []⟩ (attrsText attrs ++ ['>']) := by
    intro r'
    cases attrs with
    | nil => simp only [attrsText, List.flatMap_nil, List.nil_append, run_cons]; rw [step_openName_other _ _ _ _ _ (by decide)]
    | cons x xs =>
      obtain ⟨n, v⟩ := x
      simp only [attrsText, List.flatMap_cons, List.cons_append, run_cons]
      rw [step_openName_other _ _ _ _ _ (by decide)]
  rw [s3, run_append, run_attrs _ _ _ _ _ _ ha, run_cons, run_nil]
  have s4 : ∀ r' as, step ⟨out, accR, r', .afterName ([c0] ++ cs) as⟩ '>' =
      D (out ++ flushText accR ++ [.open ([c0] ++ cs) as]) [] := by
    intro r' as; simp [step, stepAfter, St.emit, D]
  rw [s4]
  simp [hcs]

theorem Frag.openTag (tag : String) (attrs : List (String × Str)) (ht : IsName tag)
    (ha : ∀ x ∈ attrs, IsName x.1) : Frag (RG.openTag tag attrs) [.open (S tag) (readAttrs attrs)] := by
  intro out accR accT hacc
  refine ⟨[], Raw.nil, ?_⟩
  rw [run_openTag tag attrs ht ha, flushText_eq hacc]
  simp [emitted]

theorem run_closeTag (tag : String) (ht : IsName tag) (out : List Token) (accR : Str) :
    run (D out accR) (closeTag tag) = D (out ++ flushText accR ++ [.close (S tag)]) [] := by
  have hname := isNameChar_of_isName ht
  have hne : S tag ≠ [] := ht.1
  have e : closeTag tag = '<' :: '/' :: (S tag ++ ['>']) := by simp [closeTag]
  rw [e, run_cons]
  have s1 : step (D out accR) '<' = ⟨out, accR, ['<'], .tagOpen⟩ := by simp [step, D, stepData]
  rw [s1, run_cons]
  have s2 : step ⟨out, accR, ['<'], .tagOpen⟩ '/' = ⟨out, accR, ['<'] ++ ['/'], .closeName []⟩ := by simp [step]
  rw [s2, run_append, run_closeName _ _ _ _ _ hname, run_cons, run_nil]
  have s3 : ∀ r', step ⟨out, accR, r', .closeName ([] ++ S tag)⟩ '>' =
      D (out ++ flushText accR ++ [.close (S tag)]) [] := by
    intro r'; simp [step, isNameChar, hne, St.emit, D]
  rw [s3]

theorem Frag.closeTag (tag : String) (ht : IsName tag) : Frag (RG.closeTag tag) [.close (S tag)] := by
  intro out accR accT hacc
  refine ⟨[], Raw.nil, ?_⟩
  rw [run_closeTag tag ht, flushText_eq hacc]
  simp [emitted]

/-- the tag written by `tagBody` around a single-line body -/
theorem Frag.tagBody {body : Str} {ts : List Token} (tag : String) (attrs : List (String × Str)) (ht : IsName tag)
    (ha : ∀ x ∈ attrs, IsName x.1) (hb : Frag body ts) (hnl : '\n' ∉ body) :
    Frag (RG.tagBody tag attrs body) (.open (S tag) (readAttrs attrs) :: ts ++ [.close (S tag)]) := by
  rw [tagBody_eq _ _ _ hnl]
  exact ((Frag.openTag tag attrs ht ha).append hb).append (Frag.closeTag tag ht)

theorem nl_joinNl_eq_flatMap (xs : List Str) (h : xs ≠ []) :
    '\n' :: joinNl xs = xs.flatMap (fun x => '\n' :: x) := by
  induction xs with
  | nil => exact absurd rfl h
  | cons a t ih =>
    cases t with
    | nil => simp [joinNl_singleton]
    | cons b t =>
      have := ih (by simp)
      rw [joinNl_cons_cons, List.flatMap_cons, ← this]
      simp

theorem raw_nl_indent : Raw (S "\n  ") (S "\n  ") := Raw.plain _ (by decide)
theorem raw_nl : Raw ['\n'] ['\n'] := Raw.plain _ (by decide)

theorem Frag.flatMap {α : Type} (xs : List α) (f : α → Str) (g : α → List Token) (h : ∀ x ∈ xs, Frag (f x) (g x)) :
    Frag (xs.flatMap f) (xs.flatMap g) := by
  induction xs with
  | nil => exact Frag.nil
  | cons x xs ih =>
    exact (h x (List.mem_cons_self ..)).append (ih fun y hy => h y (List.mem_cons_of_mem _ hy))

/-- the tag written by `tagBody` around a body of two or more known one-line pieces: each piece goes on its own
    line, indented by two spaces -/
theorem Frag.tagLines {α : Type} (tag : String) (attrs : List (String × Str)) (ht : IsName tag)
    (ha : ∀ x ∈ attrs, IsName x.1) (xs : List α) (f : α → Str) (g : α → List Token) (h2 : 2 ≤ xs.length)
    (hf : ∀ x ∈ xs, Frag (f x) (g x) ∧ NoBreak (f x) ∧ EndsSolid (f x)) :
    Frag (RG.tagBody tag attrs (joinNl (xs.map f)))
      (.open (S tag) (readAttrs attrs) :: xs.flatMap (fun x => .text (S "\n  ") :: g x) ++
        [.text ['\n'], .close (S tag)]) := by
  have hnl : '\n' ∈ joinNl (xs.map f) := by
    match xs, h2 with
    | a :: b :: t, _ => simp only [List.map_cons]; exact nl_mem_joinNl _ _ _
  have hne : xs.map f ≠ [] := by
    intro e; rw [e] at hnl; simp [joinNl] at hnl
  rw [tagBody_eq_nl _ _ _ hnl, reindent_joinNl _ hne
    (by intro l hl; obtain ⟨x, hx, rfl⟩ := List.mem_map.1 hl; exact (hf x hx).2.1)
    (by intro l hl; obtain ⟨x, hx, rfl⟩ := List.mem_map.1 hl; exact (hf x hx).2.2)]
  rw [nl_joinNl_eq_flatMap _ (by simpa using hne), List.map_map, List.flatMap_map]
  have hbody : Frag (xs.flatMap fun x => '\n' :: ' ' :: ' ' :: f x) (xs.flatMap fun x => .text (S "\n  ") :: g x) := by
    apply Frag.flatMap
    intro x hx
    exact (Frag.raw raw_nl_indent).append (hf x hx).1
  have := (((Frag.openTag tag attrs ht ha).append hbody).append (Frag.raw raw_nl)).append (Frag.closeTag tag ht)
  simpa [List.append_assoc] using this

-- ---------------------------------------------------------------- proofs: text and skeleton of what a fragment denotes

@[simp] theorem textOf_nil : textOf [] = [] := rfl
@[simp] theorem textOf_cons_text (t : Str) (ts : List Token) : textOf (.text t :: ts) = t ++ textOf ts := rfl
@[simp] theorem textOf_cons_open (k : Str) (as : List (Str × Str)) (ts : List Token) :
    textOf (.open k as :: ts) = textOf ts := rfl
@[simp] theorem textOf_cons_close (k : Str) (ts : List Token) : textOf (.close k :: ts) = textOf ts := rfl
@[simp] theorem textOf_append (a b : List Token) : textOf (a ++ b) = textOf a ++ textOf b := by simp [textOf]
@[simp] theorem textOf_flushT (t : Str) : textOf (flushT t) = t := by
  unfold flushT; split <;> simp_all

theorem textOf_emitted (acc : Str) (ts : List Token) :
    textOf (emitted acc ts ++ flushT (pend acc ts)) = acc ++ textOf ts := by
  induction ts generalizing acc with
  | nil => simp [emitted, pend]
  | cons k ts ih =>
    cases k with
    | text t => simp only [emitted, pend, ih, textOf_cons_text, List.append_assoc]
    | «open» tag as =>
      have := ih []
      simp only [emitted, pend, List.append_assoc, List.cons_append, textOf_append, textOf_flushT,
        textOf_cons_open, List.nil_append] at this ⊢
      rw [this]
    | close tag =>
      have := ih []
      simp only [emitted, pend, List.append_assoc, List.cons_append, textOf_append, textOf_flushT,
        textOf_cons_close, List.nil_append] at this ⊢
      rw [this]

/-- merging text tokens does not change the text -/
theorem textOf_norm (ts : List Token) : textOf (norm ts) = textOf ts := by
  have := textOf_emitted [] ts
  simpa [norm] using this

theorem norm_wrap (k : Str) (as : List (Str × Str)) (k' : Str) (ts : List Token) :
    norm (.open k as :: ts ++ [.close k']) = .open k as :: norm ts ++ [.close k'] := by
  simp [norm, emitted, pend, emitted_append, pend_append, flushT]

/-- what `skeleton ∘ norm` looks at: which texts are empty, tags, attributes other than the values of id/href -/
def xMark (t : Str) : Str := if t = [] then [] else ['x']
def shape (ts : List Token) : List Token :=
  ts.map fun
    | .text t => .text (xMark t)
    | .open tag attrs => .open tag (blankIds attrs)
    | .close tag => .close tag

@[simp] theorem skeleton_nil : skeleton [] = [] := rfl
@[simp] theorem skeleton_cons_text (t : Str) (ts : List Token) : skeleton (.text t :: ts) = .text [] :: skeleton ts := rfl
@[simp] theorem skeleton_cons_open (k : Str) (as : List (Str × Str)) (ts : List Token) :
    skeleton (.open k as :: ts) = .open k (blankIds as) :: skeleton ts := rfl
@[simp] theorem skeleton_cons_close (k : Str) (ts : List Token) : skeleton (.close k :: ts) = .close k :: skeleton ts := rfl

@[simp] theorem shape_nil : shape [] = [] := rfl
@[simp] theorem shape_cons_text (t : Str) (ts : List Token) : shape (.text t :: ts) = .text (xMark t) :: shape ts := rfl
@[simp] theorem shape_cons_open (k : Str) (as : List (Str × Str)) (ts : List Token) :
    shape (.open k as :: ts) = .open k (blankIds as) :: shape ts := rfl
@[simp] theorem shape_cons_close (k : Str) (ts : List Token) : shape (.close k :: ts) = .close k :: shape ts := rfl

theorem xMark_eq_iff {a b : Str} : xMark a = xMark b ↔ (a = [] ↔ b = []) := by
  unfold xMark
  by_cases h1 : a = [] <;> by_cases h2 : b = [] <;> simp [h1, h2]

@[simp] theorem shape_append (a b : List Token) : shape (a ++ b) = shape a ++ shape b := by simp [shape]

theorem skeleton_append (a b : List Token) : skeleton (a ++ b) = skeleton a ++ skeleton b := by simp [skeleton]

theorem skeleton_flushT {a b : Str} (h : a = [] ↔ b = []) : skeleton (flushT a) = skeleton (flushT b) := by
  unfold flushT
  by_cases ha : a = []
  · simp [ha, h.1 ha]
  · have hb : b ≠ [] := fun e => ha (h.2 e)
    simp [ha, hb]

theorem skeleton_emitted (ts₁ ts₂ : List Token) (h : shape ts₁ = shape ts₂) (a₁ a₂ : Str) (ha : a₁ = [] ↔ a₂ = []) :
    skeleton (emitted a₁ ts₁ ++ flushT (pend a₁ ts₁)) = skeleton (emitted a₂ ts₂ ++ flushT (pend a₂ ts₂)) := by
  induction ts₁ generalizing ts₂ a₁ a₂ with
  | nil =>
    cases ts₂ with
    | nil => simpa [emitted, pend] using skeleton_flushT ha
    | cons _ _ => simp [shape] at h
  | cons k ts₁ ih =>
    cases ts₂ with
    | nil => simp [shape] at h
    | cons k' ts₂ =>
      simp only [shape, List.map_cons, List.cons.injEq] at h
      obtain ⟨hk, hts⟩ := h
      cases k with
      | text t =>
        cases k' with
        | text t' =>
          simp only [emitted, pend]
          refine ih ts₂ hts _ _ ?_
          have ht : t = [] ↔ t' = [] := by
            simp only [Token.text.injEq] at hk
            exact xMark_eq_iff.1 hk
          simp [ha, ht]
        | «open» _ _ => simp at hk
        | close _ => simp at hk
      | «open» tag as =>
        cases k' with
        | text _ => simp at hk
        | «open» tag' as' =>
          have := ih ts₂ hts [] [] Iff.rfl
          simp only [emitted, pend, List.append_assoc, List.cons_append, skeleton_append, skeleton_flushT ha]
          simp only [Token.open.injEq] at hk
          simp only [skeleton_cons_open, hk.1, hk.2, this]
        | close _ => simp at hk
      | close tag =>
        cases k' with
        | text _ => simp at hk
        | «open» _ _ => simp at hk
        | close tag' =>
          have := ih ts₂ hts [] [] Iff.rfl
          simp only [emitted, pend, List.append_assoc, List.cons_append, skeleton_append, skeleton_flushT ha]
          simp only [Token.close.injEq] at hk
          simp only [skeleton_cons_close, hk, this]

/-- fragments of the same shape have the same skeleton -/
theorem skeleton_norm {ts₁ ts₂ : List Token} (h : shape ts₁ = shape ts₂) :
    skeleton (norm ts₁) = skeleton (norm ts₂) := skeleton_emitted ts₁ ts₂ h [] [] Iff.rfl

-- ---------------------------------------------------------------- proofs: words, and multi-line bodies as lists of lines

theorem wsWordsAux_ws (cur : Str) (c : Char) (b : Str) (hc : isAsciiWs c = true) :
    wsWordsAux cur (c :: b) = wsWordsAux cur [] ++ wsWords b := by
  by_cases h : cur = [] <;> simp [wsWordsAux, wsWords, hc, h]

theorem wsWordsAux_append_ws (cur a : Str) (c : Char) (b : Str) (hc : isAsciiWs c = true) :
    wsWordsAux cur (a ++ c :: b) = wsWordsAux cur a ++ wsWords b := by
  induction a generalizing cur with
  | nil => exact wsWordsAux_ws cur c b hc
  | cons x a ih =>
    by_cases hx : isAsciiWs x = true
    · by_cases h : cur = [] <;> simp [wsWordsAux, hx, h, ih]
    · simp [wsWordsAux, hx, ih]

/-- white space separates words -/
theorem wsWords_append_ws (a : Str) (c : Char) (b : Str) (hc : isAsciiWs c = true) :
    wsWords (a ++ c :: b) = wsWords a ++ wsWords b := wsWordsAux_append_ws [] a c b hc

theorem wsWords_ws_cons (c : Char) (b : Str) (hc : isAsciiWs c = true) : wsWords (c :: b) = wsWords b := by
  simpa [wsWords, wsWordsAux] using wsWords_append_ws [] c b hc

theorem wsWords_nil : wsWords [] = [] := rfl

/-- all white space, at least one -/
def IsWsRun (w : Str) : Prop := w ≠ [] ∧ ∀ c ∈ w, isAsciiWs c = true

theorem wsWords_wsAll (w b : Str) (hw : ∀ c ∈ w, isAsciiWs c = true) : wsWords (w ++ b) = wsWords b := by
  induction w with
  | nil => rfl
  | cons c w ih =>
    rw [List.cons_append, wsWords_ws_cons _ _ (hw c (List.mem_cons_self ..)),
      ih fun d hd => hw d (List.mem_cons_of_mem _ hd)]

theorem wsWords_append_run (a w b : Str) (hw : IsWsRun w) : wsWords (a ++ w ++ b) = wsWords a ++ wsWords b := by
  obtain ⟨hne, hall⟩ := hw
  cases w with
  | nil => exact absurd rfl hne
  | cons c w =>
    rw [List.append_assoc, List.cons_append, wsWords_append_ws _ _ _ (hall c (List.mem_cons_self ..)),
      wsWords_wsAll _ _ fun d hd => hall d (List.mem_cons_of_mem _ hd)]


/-- a line of output together with the tokens it denotes -/
abbrev Line := Str × List Token

/-- the line is a fragment on its own, has no line break inside, and ends in a non-space -/
structure Line.Valid (l : Line) : Prop where
  frag : Frag l.1 l.2
  nb : NoBreak l.1
  solid : EndsSolid l.1

/-- the lines joined by newlines … -/
def linesStr (ls : List Line) : Str := joinNl (ls.map (·.1))
/-- … and the tokens that denotes -/
def linesToks : List Line → List Token
  | [] => []
  | [l] => l.2
  | l :: ls => l.2 ++ .text ['\n'] :: linesToks ls

theorem linesStr_cons_cons (a b : Line) (ls : List Line) :
    linesStr (a :: b :: ls) = a.1 ++ '\n' :: linesStr (b :: ls) := joinNl_cons_cons ..

theorem linesFrag (ls : List Line) (h : ∀ l ∈ ls, l.Valid) : Frag (linesStr ls) (linesToks ls) := by
  induction ls with
  | nil => exact Frag.nil
  | cons a ls ih =>
    cases ls with
    | nil => simpa [linesStr, joinNl_singleton, linesToks] using (h a (List.mem_cons_self ..)).frag
    | cons b ls =>
      rw [linesStr_cons_cons]
      show Frag _ (a.2 ++ .text ['\n'] :: linesToks (b :: ls))
      have := ih fun l hl => h l (List.mem_cons_of_mem _ hl)
      exact (h a (List.mem_cons_self ..)).frag.append ((Frag.raw raw_nl).append this)

def Line.indent (l : Line) : Line := (' ' :: ' ' :: l.1, .text (S "  ") :: l.2)

theorem raw_indent : Raw (S "  ") (S "  ") := Raw.plain _ (by decide)

theorem Line.Valid.indent {l : Line} (h : l.Valid) : l.indent.Valid :=
  ⟨(Frag.raw raw_indent).append h.frag, NoBreak.cons (by decide) (NoBreak.cons (by decide) h.nb),
    h.solid.prepend [' ', ' ']⟩

/-- the lines `tagBody` writes around a body of two or more lines -/
def wrapLines (tag : String) (attrs : List (String × Str)) (ls : List Line) : List Line :=
  (openTag tag attrs, [.open (S tag) (readAttrs attrs)]) :: ls.map Line.indent ++ [(closeTag tag, [.close (S tag)])]

theorem endsSolid_openTag (tag : String) (attrs : List (String × Str)) : EndsSolid (openTag tag attrs) :=
  ⟨'<' :: S tag ++ attrsText attrs, '>', by simp [openTag], by decide⟩
theorem endsSolid_closeTag (tag : String) : EndsSolid (closeTag tag) :=
  ⟨'<' :: '/' :: S tag, '>', by simp [closeTag], by decide⟩

theorem wrapLines_valid (tag : String) (attrs : List (String × Str)) (ls : List Line) (ht : IsName tag)
    (ha : ∀ x ∈ attrs, IsName x.1 ∧ NoBreak x.2) (h : ∀ l ∈ ls, l.Valid) : ∀ l ∈ wrapLines tag attrs ls, l.Valid := by
  intro l hl
  simp only [wrapLines, List.mem_cons, List.mem_append, List.mem_map, List.not_mem_nil, or_false] at hl
  rcases hl with (rfl | ⟨l', hl', rfl⟩) | rfl
  · exact ⟨Frag.openTag tag attrs ht (fun x hx => (ha x hx).1), noBreak_openTag tag attrs ht ha,
      endsSolid_openTag tag attrs⟩
  · exact (h l' hl').indent
  · exact ⟨Frag.closeTag tag ht, noBreak_closeTag tag ht, endsSolid_closeTag tag⟩

theorem joinNl_wrap (a z : Str) (mid : List Str) (h : mid ≠ []) :
    joinNl (a :: (mid ++ [z])) = a ++ '\n' :: joinNl mid ++ '\n' :: z := by
  induction mid generalizing a with
  | nil => exact absurd rfl h
  | cons b mid ih =>
    cases mid with
    | nil => simp [joinNl_cons_cons, joinNl_singleton]
    | cons c mid =>
      have := ih b (by simp)
      rw [List.cons_append, joinNl_cons_cons, this, joinNl_cons_cons]
      simp

theorem tagBody_lines (tag : String) (attrs : List (String × Str)) (ls : List Line) (h2 : 2 ≤ ls.length)
    (h : ∀ l ∈ ls, l.Valid) : tagBody tag attrs (linesStr ls) = linesStr (wrapLines tag attrs ls) := by
  have hnl : '\n' ∈ linesStr ls := by
    match ls, h2 with
    | a :: b :: t, _ => rw [linesStr_cons_cons]; simp
  have hne : ls.map (·.1) ≠ [] := by
    intro e; have : ls = [] := by simpa using e
    subst this; simp at h2
  rw [tagBody_eq_nl _ _ _ hnl, linesStr, reindent_joinNl _ hne
    (by intro l hl; obtain ⟨x, hx, rfl⟩ := List.mem_map.1 hl; exact (h x hx).nb)
    (by intro l hl; obtain ⟨x, hx, rfl⟩ := List.mem_map.1 hl; exact (h x hx).solid)]
  have : (wrapLines tag attrs ls).map (·.1) =
      openTag tag attrs :: ((ls.map (·.1)).map (fun l => ' ' :: ' ' :: l) ++ [closeTag tag]) := by
    simp [wrapLines, Line.indent]
  rw [linesStr, this, joinNl_wrap _ _ _ (by simpa using hne)]
  simp

/-- text put before the first line -/
def preFirst (s : Str) (ts : List Token) : List Line → List Line
  | [] => []
  | l :: ls => (s ++ l.1, ts ++ l.2) :: ls

theorem linesStr_preFirst (s : Str) (ts : List Token) (ls : List Line) (h : ls ≠ []) :
    linesStr (preFirst s ts ls) = s ++ linesStr ls := by
  match ls, h with
  | [a], _ => simp [preFirst, linesStr, joinNl_singleton]
  | a :: b :: t, _ => simp [preFirst, linesStr_cons_cons]

theorem preFirst_valid (s : Str) (ts : List Token) (ls : List Line) (hs : Frag s ts) (hb : NoBreak s)
    (h : ∀ l ∈ ls, l.Valid) : ∀ l ∈ preFirst s ts ls, l.Valid := by
  cases ls with
  | nil => simp [preFirst]
  | cons a ls =>
    intro l hl
    simp only [preFirst, List.mem_cons] at hl
    rcases hl with rfl | hl
    · have ha := h a (List.mem_cons_self ..)
      exact ⟨hs.append ha.frag, hb.append ha.nb, ha.solid.prepend s⟩
    · exact h l (List.mem_cons_of_mem _ hl)

/-- text put after the last line -/
def postLast (s : Str) (ts : List Token) : List Line → List Line
  | [] => []
  | [l] => [(l.1 ++ s, l.2 ++ ts)]
  | l :: ls => l :: postLast s ts ls

theorem linesStr_postLast (s : Str) (ts : List Token) (ls : List Line) (h : ls ≠ []) :
    linesStr (postLast s ts ls) = linesStr ls ++ s := by
  induction ls with
  | nil => exact absurd rfl h
  | cons a ls ih =>
    cases ls with
    | nil => simp [postLast, linesStr, joinNl_singleton]
    | cons b t =>
      have := ih (by simp)
      match hp : postLast s ts (b :: t), this with
      | [], this => cases t <;> simp [postLast] at hp
      | c :: r, this =>
        rw [postLast, hp, linesStr_cons_cons, linesStr_cons_cons, this]
        simp
        exact fun h => by simp at h

theorem postLast_valid (s : Str) (ts : List Token) (ls : List Line) (hs : Frag s ts) (hb : NoBreak s)
    (he : EndsSolid s) (h : ∀ l ∈ ls, l.Valid) : ∀ l ∈ postLast s ts ls, l.Valid := by
  induction ls with
  | nil => simp [postLast]
  | cons a ls ih =>
    have ha := h a (List.mem_cons_self ..)
    cases ls with
    | nil =>
      intro l hl
      simp only [postLast, List.mem_singleton] at hl
      subst hl
      exact ⟨ha.frag.append hs, ha.nb.append hb, he.prepend a.1⟩
    | cons b t =>
      intro l hl
      rw [postLast] at hl
      · rcases List.mem_cons.1 hl with rfl | hl
        · exact ha
        · exact ih (fun l hl => h l (List.mem_cons_of_mem _ hl)) l hl
      · simp


/-- the words on the lines -/
def lineWords (ls : List Line) : List Str := ls.flatMap fun l => wsWords (textOf l.2)

theorem isAsciiWs_nl : isAsciiWs '\n' = true := by decide

theorem wsWords_linesToks (ls : List Line) : wsWords (textOf (linesToks ls)) = lineWords ls := by
  induction ls with
  | nil => rfl
  | cons a ls ih =>
    cases ls with
    | nil => simp [linesToks, lineWords]
    | cons b t =>
      show wsWords (textOf (a.2 ++ .text ['\n'] :: linesToks (b :: t))) = _
      rw [textOf_append, textOf_cons_text, List.singleton_append, wsWords_append_ws _ _ _ isAsciiWs_nl, ih]
      simp [lineWords]

theorem wsWords_indent (t : Str) : wsWords (S "  " ++ t) = wsWords t :=
  wsWords_wsAll _ _ (by decide)

theorem lineWords_wrapLines (tag : String) (attrs : List (String × Str)) (ls : List Line) :
    lineWords (wrapLines tag attrs ls) = lineWords ls := by
  have : ∀ ls : List Line, lineWords (ls.map Line.indent) = lineWords ls := by
    intro ls
    induction ls with
    | nil => rfl
    | cons a ls ih =>
      simp only [lineWords, List.map_cons, List.flatMap_cons] at ih ⊢
      rw [ih]
      simp [Line.indent, wsWords_indent]
  simp only [wrapLines]
  have e : ∀ (x z : Line) (m : List Line), lineWords (x :: m ++ [z]) =
      wsWords (textOf x.2) ++ lineWords m ++ wsWords (textOf z.2) := by
    intro x z m; simp [lineWords]
  rw [e, this]
  simp [wsWords_nil]

theorem lineWords_preFirst (s : Str) (ts : List Token) (l : Line) (ls : List Line) :
    lineWords (preFirst s ts (l :: ls)) = wsWords (textOf ts ++ textOf l.2) ++ lineWords ls := by
  simp [preFirst, lineWords]

theorem textOf_linesToks_postLast (s : Str) (ts : List Token) (ls : List Line) (h : ls ≠ []) :
    textOf (linesToks (postLast s ts ls)) = textOf (linesToks ls) ++ textOf ts := by
  induction ls with
  | nil => exact absurd rfl h
  | cons a ls ih =>
    cases ls with
    | nil => simp [postLast, linesToks]
    | cons b t =>
      have := ih (by simp)
      match hp : postLast s ts (b :: t), this with
      | [], this => cases t <;> simp [postLast] at hp
      | c :: r, this =>
        rw [postLast, hp]
        · show textOf (a.2 ++ .text ['\n'] :: linesToks (c :: r)) =
            textOf (a.2 ++ .text ['\n'] :: linesToks (b :: t)) ++ textOf ts
          simp [this]
        · simp

theorem lineWords_postLast (s : Str) (ts : List Token) (init : List Line) (l : Line) :
    lineWords (postLast s ts (init ++ [l])) = lineWords init ++ wsWords (textOf l.2 ++ textOf ts) := by
  induction init with
  | nil => simp [postLast, lineWords]
  | cons a init ih =>
    have : postLast s ts (a :: init ++ [l]) = a :: postLast s ts (init ++ [l]) := by
      cases init <;> simp [postLast]
    rw [this]
    simp only [lineWords, List.flatMap_cons] at ih ⊢
    rw [ih]
    simp

-- ---------------------------------------------------------------- proofs: numbers and scaled-value strings

theorem isName_span : IsName "span" := by decide
theorem isName_sup : IsName "sup" := by decide
theorem isName_sub : IsName "sub" := by decide
theorem isName_class : IsName "class" := by decide

theorem raw_numChars {s : Str} (h : ∀ c ∈ s, isNumChar c = true) : Raw s s :=
  Raw.plain s fun c hc => ⟨by rintro rfl; exact absurd (h _ hc) (by decide), by rintro rfl; exact absurd (h _ hc) (by decide)⟩

theorem map_slash_numChars {s : Str} (h : ∀ c ∈ s, isNumChar c = true) :
    (s.map fun c => if c = '/' then '⁄' else c) = s := by
  induction s with
  | nil => rfl
  | cons c s ih =>
    have hc : c ≠ '/' := by rintro rfl; exact absurd (h _ (List.mem_cons_self ..)) (by decide)
    simp [hc, ih fun d hd => h d (List.mem_cons_of_mem _ hd)]

/-- a rendered number is a fragment whose text is the plain number -/
theorem renderNumber_frag (n : Num) : ∃ ts, Frag (renderNumber n) ts ∧ textOf ts = plainNumber n := by
  rcases renderNumber_cases n with ⟨e, h⟩ | ⟨i, m, d, ef, hi, hm, hd, e⟩
  · exact ⟨[.text (formatNumber n)], by rw [e]; exact Frag.raw (raw_numChars h),
      by simp [plainNumber, map_slash_numChars h]⟩
  · refine ⟨[.text i] ++ [.open (S "sup") (readAttrs [])] ++ [.text m] ++ [.close (S "sup")] ++ [.text ['⁄']] ++
        [.open (S "sub") (readAttrs [])] ++ [.text d] ++ [.close (S "sub")], ?_, ?_⟩
    · have e' : renderNumber n = i ++ openTag "sup" [] ++ m ++ closeTag "sup" ++ S "&frasl;" ++ openTag "sub" [] ++ d ++
          closeTag "sub" := by rw [e]; simp [openTag, closeTag, attrsText, S]
      rw [e']
      exact (((((((Frag.raw (raw_numChars hi)).append (Frag.openTag "sup" [] isName_sup (by simp))).append
        (Frag.raw (raw_numChars hm))).append (Frag.closeTag "sup" isName_sup)).append (Frag.raw Raw.frasl)).append
        (Frag.openTag "sub" [] isName_sub (by simp))).append (Frag.raw (raw_numChars hd))).append
        (Frag.closeTag "sub" isName_sub)
    · simp [plainNumber, ef, map_slash_numChars hi, map_slash_numChars hm, map_slash_numChars hd]

/-- the tokens a rendered number denotes (some such list; only its text matters) -/
noncomputable def numToks (n : Num) : List Token := (renderNumber_frag n).choose
theorem numToks_frag (n : Num) : Frag (renderNumber n) (numToks n) := (renderNumber_frag n).choose_spec.1
@[simp] theorem numToks_text (n : Num) : textOf (numToks n) = plainNumber n := (renderNumber_frag n).choose_spec.2

/-- `<span class=cls>number</span>` -/
noncomputable def numSpan (cls : String) (n : Num) : List Token :=
  .open (S "span") [(S "class", S cls)] :: numToks n ++ [.close (S "span")]

theorem numSpan_frag (cls : String) (n : Num) :
    Frag (tagBody "span" [("class", S cls)] (renderNumber n)) (numSpan cls n) :=
  Frag.tagBody "span" [("class", S cls)] isName_span (by simp [isName_class]) (numToks_frag n)
    (nl_not_mem_renderNumber n)

@[simp] theorem numSpan_text (cls : String) (n : Num) : textOf (numSpan cls n) = plainNumber n := by
  simp [numSpan]

/-- the tokens a rendered scaled-value string denotes -/
noncomputable def svsToks (s : SVS) : List Token :=
  s.flatMap fun
    | .text t => [.text t]
    | .num n => numSpan "rg-scaled-value" n

theorem svsToks_frag (s : SVS) : Frag (renderSvs s) (svsToks s) := by
  induction s with
  | nil => exact Frag.nil
  | cons p s ih =>
    cases p with
    | text t => exact (Frag.escape t).append ih
    | num n => exact (numSpan_frag "rg-scaled-value" n).append ih

@[simp] theorem svsToks_text (s : SVS) : textOf (svsToks s) = plainSvs s := by
  induction s with
  | nil => rfl
  | cons p s ih => cases p <;> simp_all [svsToks, plainSvs]

theorem svsToks_shape {s₁ s₂ : SVS} (h : SameShape s₁ s₂) : shape (svsToks s₁) = shape (svsToks s₂) := by
  induction s₁ generalizing s₂ with
  | nil => cases s₂ <;> simp_all [SameShape]
  | cons p s₁ ih =>
    cases s₂ with
    | nil => cases p <;> simp [SameShape] at h
    | cons q s₂ =>
      cases p <;> cases q <;> simp only [SameShape] at h
      · have := ih h.2
        have ht := h.1
        simp only [svsToks, List.flatMap_cons, shape_append] at this ⊢
        rw [this]
        simp [xMark_eq_iff.2 ht]
      · have := ih h.2
        simp only [svsToks, List.flatMap_cons, shape_append] at this ⊢
        rw [this, h.1]

-- ---------------------------------------------------------------- C10.4 for scaled-value strings

/-- C10.4 the element structure of a rendered scaled-value string does not depend on its text parts -/
theorem renderSvs_skeleton (s₁ s₂ : SVS) (h : SameShape s₁ s₂) :
    skeleton (tokens (renderSvs s₁)) = skeleton (tokens (renderSvs s₂)) := by
  rw [tokens_of_frag (svsToks_frag s₁), tokens_of_frag (svsToks_frag s₂)]
  exact skeleton_norm (svsToks_shape h)

/-- C10.4 and its visible text is the text parts verbatim and the numbers as `format_number` shows them (with
    '/' shown as the fraction slash); no restriction on the text parts -/
theorem renderSvs_text (s : SVS) : textOf (tokens (renderSvs s)) = plainSvs s := by
  rw [tokens_of_frag (svsToks_frag s), textOf_norm, svsToks_text]

-- ---------------------------------------------------------------- C10.4 for quantities, proportions, amounts

theorem renderQuantity_unitless (q : Quantity) (h : q.unit = none) :
    renderQuantity q =
      tagBody "span" [("class", S "rg-quantity-unitless rg-scaled-value")] (renderNumber q.value) ++ htmlEscape q.prep := by
  simp [renderQuantity, h]

theorem renderQuantity_single (q : Quantity) (u : Str) (h : q.unit = some u) (hc : conversions q = []) :
    renderQuantity q =
      tagBody "span" [("class", S "rg-quantity-without-conversions rg-scaled-value")]
        (renderNumber q.value ++ htmlEscape q.spacing ++ htmlEscape u) ++ htmlEscape q.prep := by
  simp only [conversions, h] at hc
  simp only [renderQuantity, h]
  cases ha : altUnits (lowerStr u) with
  | none => simp
  | some l =>
    cases l with
    | nil => simp
    | cons x rest =>
      rw [ha] at hc
      have : rest = [] := by simpa using hc
      subst this
      simp

/-- the tokens a one-line quantity denotes -/
noncomputable def qToks (q : Quantity) : List Token :=
  match q.unit with
  | none => numSpan "rg-quantity-unitless rg-scaled-value" q.value ++ [.text q.prep]
  | some u =>
    .open (S "span") [(S "class", S "rg-quantity-without-conversions rg-scaled-value")] ::
      (numToks q.value ++ [.text (q.spacing ++ u)]) ++ [.close (S "span")] ++ [.text q.prep]

theorem Frag.escape2 (a b : Str) : Frag (htmlEscape a ++ htmlEscape b) [.text (a ++ b)] :=
  Frag.raw ((Raw.escape a).append (Raw.escape b))

theorem qToks_frag (q : Quantity) (h : OneLineQ q) : Frag (renderQuantity q) (qToks q) := by
  unfold qToks
  cases hu : q.unit with
  | none =>
    rw [renderQuantity_unitless q hu]
    exact (numSpan_frag _ _).append (Frag.escape _)
  | some u =>
    rw [renderQuantity_single q u hu h.1]
    obtain ⟨h1, h2⟩ := h.2 u hu
    refine (Frag.tagBody "span" [("class", _)] isName_span (by simp [isName_class]) ?_ ?_).append (Frag.escape _)
    · rw [List.append_assoc]; exact (numToks_frag _).append (Frag.escape2 _ _)
    · have := nl_not_mem_renderNumber q.value
      have := nl_not_mem_htmlEscape h1
      have := nl_not_mem_htmlEscape h2
      simp_all

theorem qToks_text (q : Quantity) : textOf (qToks q) = plainQuantity q := by
  unfold qToks plainQuantity
  cases q.unit <;> simp

theorem qToks_shape {q₁ q₂ : Quantity} (h : SameQ q₁ q₂) : shape (qToks q₁) = shape (qToks q₂) := by
  obtain ⟨hv, hp, hu⟩ := h
  have hp' := xMark_eq_iff.2 hp
  unfold qToks
  cases h1 : q₁.unit <;> cases h2 : q₂.unit <;> simp only [h1, h2] at hu
  · simp [numSpan, hv, hp']
  · have hu' := xMark_eq_iff.2 hu
    simp [hv, hp', hu']

/-- C10.4 for a quantity written on one line: its visible text is number, spacing, unit, preposition -/
theorem renderQuantity_text (q : Quantity) (h : OneLineQ q) : textOf (tokens (renderQuantity q)) = plainQuantity q := by
  rw [tokens_of_frag (qToks_frag q h), textOf_norm, qToks_text]

/-- C10.4 and its element structure does not depend on the texts -/
theorem renderQuantity_skeleton (q₁ q₂ : Quantity) (h₁ : OneLineQ q₁) (h₂ : OneLineQ q₂) (h : SameQ q₁ q₂) :
    skeleton (tokens (renderQuantity q₁)) = skeleton (tokens (renderQuantity q₂)) := by
  rw [tokens_of_frag (qToks_frag q₁ h₁), tokens_of_frag (qToks_frag q₂ h₂)]
  exact skeleton_norm (qToks_shape h)

-- proportions

/-- `*` written as `&times;`, everything else escaped -/
def timesEnc (c : Char) : Str := (escapeChar c).flatMap fun d => if d == '*' then S "&times;" else [d]

theorem times_eq (prep : Str) :
    ((htmlEscape prep).flatMap fun c => if c == '*' then S "&times;" else [c]) = prep.flatMap timesEnc := by
  rw [htmlEscape, List.flatMap_assoc]; rfl

theorem decodesX_timesEnc : DecodesX timesEnc (fun c => if c = '*' then '×' else c) := by
  intro c
  by_cases h0 : c = '*'; · subst h0; exact ⟨by decide, fun rest => by simp [timesEnc, escapeChar, S, unescapeX]⟩
  by_cases h1 : c = '&'; · subst h1; exact ⟨by decide, fun rest => by simp [timesEnc, escapeChar, S, unescapeX]⟩
  by_cases h2 : c = '<'; · subst h2; exact ⟨by decide, fun rest => by simp [timesEnc, escapeChar, S, unescapeX]⟩
  by_cases h3 : c = '>'; · subst h3; exact ⟨by decide, fun rest => by simp [timesEnc, escapeChar, S, unescapeX]⟩
  by_cases h4 : c = '"'; · subst h4; exact ⟨by decide, fun rest => by simp [timesEnc, escapeChar, S, unescapeX]⟩
  by_cases h5 : c = '\''; · subst h5; exact ⟨by decide, fun rest => by simp [timesEnc, escapeChar, S, unescapeX]⟩
  have e : timesEnc c = [c] := by simp [timesEnc, escapeChar_other h1 h2 h3 h4 h5, h0]
  rw [e]
  exact ⟨by simpa using Ne.symm h2, fun rest => by simpa [h0] using unescapeX_other c h1 rest⟩

theorem nl_not_mem_times {prep : Str} (h : '\n' ∉ prep) : '\n' ∉ prep.flatMap timesEnc := by
  intro hm
  obtain ⟨c, hc, hm⟩ := List.mem_flatMap.1 hm
  obtain ⟨d, hd, hm⟩ := List.mem_flatMap.1 hm
  have hcn : c ≠ '\n' := fun e => h (e ▸ hc)
  have hdn : d ≠ '\n' := fun e => nl_not_mem_escapeChar c hcn (e ▸ hd)
  by_cases hs : d = '*'
  · subst hs; revert hm; decide
  · simp only [beq_iff_eq, hs, if_false, List.mem_singleton] at hm
    exact hdn hm.symm

/-- the number a proportion shows -/
def shownProportion (v : Num) (percentage : Bool) : Num := if percentage then v.mul ⟨100, .int⟩ else v

/-- the tokens a proportion denotes -/
noncomputable def propToks (value : Option Num) (percentage : Bool) (wording : Option Str) (prep : Str) : List Token :=
  match value with
  | none => [.open (S "span") [(S "class", S "rg-proportion-remainder")],
      .text (wording.getD (S "remaining") ++ prep), .close (S "span")]
  | some v => .open (S "span") [(S "class", S "rg-proportion")] ::
      (numToks (shownProportion v percentage) ++ [.text (prep.map fun c => if c = '*' then '×' else c)]) ++
      [.close (S "span")]

theorem propToks_frag (value : Option Num) (percentage : Bool) (wording : Option Str) (prep : Str)
    (hw : ∀ w, wording = some w → '\n' ∉ w) (hp : '\n' ∉ prep) :
    Frag (renderProportion value percentage wording prep) (propToks value percentage wording prep) := by
  cases value with
  | none =>
    have hnl : '\n' ∉ wording.getD (S "remaining") ++ prep := by
      cases wording with
      | none => simp only [Option.getD_none, List.mem_append, not_or]; exact ⟨by decide, hp⟩
      | some w => simp only [Option.getD_some, List.mem_append, not_or]; exact ⟨hw w rfl, hp⟩
    exact Frag.tagBody "span" [("class", _)] isName_span (by simp [isName_class]) (Frag.escape _)
      (nl_not_mem_htmlEscape hnl)
  | some v =>
    simp only [renderProportion, propToks]
    rw [times_eq]
    refine Frag.tagBody "span" [("class", _)] isName_span (by simp [isName_class])
      ((numToks_frag _).append (Frag.raw (Raw.flatMap decodesX_timesEnc prep))) ?_
    have := nl_not_mem_renderNumber (shownProportion v percentage)
    have := nl_not_mem_times hp
    simp_all [shownProportion]

theorem propToks_text (value : Option Num) (percentage : Bool) (wording : Option Str) (prep : Str) :
    textOf (propToks value percentage wording prep) = plainProportion value percentage wording prep := by
  cases value <;> simp [propToks, plainProportion, shownProportion]

theorem propToks_shape {v₁ v₂ : Option Num} {p₁ p₂ : Bool} {w₁ w₂ : Option Str} {s₁ s₂ : Str}
    (h : SameProp v₁ p₁ w₁ s₁ v₂ p₂ w₂ s₂) : shape (propToks v₁ p₁ w₁ s₁) = shape (propToks v₂ p₂ w₂ s₂) := by
  cases v₁ <;> cases v₂ <;> simp only [SameProp] at h
  · simp [propToks, xMark_eq_iff.2 h]
  · obtain ⟨rfl, rfl, hs⟩ := h
    have : xMark (s₁.map fun c => if c = '*' then '×' else c) = xMark (s₂.map fun c => if c = '*' then '×' else c) := by
      apply xMark_eq_iff.2
      unfold SameEmpty at hs
      simpa using hs
    simp [propToks, this]

/-- C10.4 for a proportion: its visible text is the number (or the wording) and the preposition, `*` shown as `×` -/
theorem renderProportion_text (value : Option Num) (percentage : Bool) (wording : Option Str) (prep : Str)
    (hw : ∀ w, wording = some w → '\n' ∉ w) (hp : '\n' ∉ prep) :
    textOf (tokens (renderProportion value percentage wording prep)) = plainProportion value percentage wording prep := by
  rw [tokens_of_frag (propToks_frag value percentage wording prep hw hp), textOf_norm, propToks_text]

theorem renderProportion_skeleton (v₁ v₂ : Option Num) (p₁ p₂ : Bool) (w₁ w₂ : Option Str) (s₁ s₂ : Str)
    (hw₁ : ∀ w, w₁ = some w → '\n' ∉ w) (hs₁ : '\n' ∉ s₁) (hw₂ : ∀ w, w₂ = some w → '\n' ∉ w) (hs₂ : '\n' ∉ s₂)
    (h : SameProp v₁ p₁ w₁ s₁ v₂ p₂ w₂ s₂) :
    skeleton (tokens (renderProportion v₁ p₁ w₁ s₁)) = skeleton (tokens (renderProportion v₂ p₂ w₂ s₂)) := by
  rw [tokens_of_frag (propToks_frag v₁ p₁ w₁ s₁ hw₁ hs₁), tokens_of_frag (propToks_frag v₂ p₂ w₂ s₂ hw₂ hs₂)]
  exact skeleton_norm (propToks_shape h)

-- amounts

/-- the tokens an amount denotes -/
noncomputable def aToks : Amount → List Token
  | .quantity q => qToks q ++ [.text [' ']]
  | .proportion v p w s => if isWhole v then [] else propToks v p w s ++ [.text [' ']]

theorem raw_sp : Raw [' '] [' '] := Raw.plain _ (by decide)

theorem renderAmount_proportion (v : Option Num) (p : Bool) (w : Option Str) (s : Str) :
    renderAmount (.proportion v p w s) = if isWhole v then [] else renderProportion v p w s ++ [' '] := rfl
theorem plainAmount_proportion (v : Option Num) (p : Bool) (w : Option Str) (s : Str) :
    plainAmount (.proportion v p w s) = if isWhole v then [] else plainProportion v p w s ++ [' '] := rfl

theorem aToks_frag (a : Amount) (h : OneLineA a) : Frag (renderAmount a) (aToks a) := by
  cases a with
  | quantity q => exact (qToks_frag q h.1).append (Frag.raw raw_sp)
  | proportion v p w s =>
    rw [renderAmount_proportion, aToks]
    by_cases hv : isWhole v = true
    · simp only [hv, if_true]; exact Frag.nil
    · simp only [hv]; exact (propToks_frag v p w s h.1 h.2).append (Frag.raw raw_sp)

theorem aToks_text (a : Amount) : textOf (aToks a) = plainAmount a := by
  cases a with
  | quantity q => simp [aToks, plainAmount, qToks_text]
  | proportion v p w s =>
    rw [plainAmount_proportion, aToks]
    by_cases hv : isWhole v = true <;> simp [hv, propToks_text]

theorem aToks_shape {a₁ a₂ : Amount} (h : SameA a₁ a₂) : shape (aToks a₁) = shape (aToks a₂) := by
  cases a₁ <;> cases a₂ <;> simp only [SameA] at h
  · simp [aToks, qToks_shape h]
  · rename_i v₁ p₁ w₁ s₁ v₂ p₂ w₂ s₂
    have hv : isWhole v₁ = isWhole v₂ := by
      cases v₁ <;> cases v₂ <;> simp only [SameProp] at h
      · rfl
      · rw [h.1]
    simp only [aToks, hv]
    split
    · rfl
    · simp [propToks_shape h]

theorem nl_not_mem_renderQuantity (q : Quantity) (h : OneLineQ q) (hp : '\n' ∉ q.prep) : '\n' ∉ renderQuantity q := by
  have h0 := nl_not_mem_htmlEscape hp
  cases hu : q.unit with
  | none =>
    rw [renderQuantity_unitless q hu]
    have := nl_not_mem_tagBody "span" [("class", S "rg-quantity-unitless rg-scaled-value")] _ isName_span
      (by simp [isName_class]) (nl_not_mem_renderNumber q.value)
    simp only [List.mem_append, not_or]; exact ⟨this, h0⟩
  | some u =>
    rw [renderQuantity_single q u hu h.1]
    obtain ⟨h1, h2⟩ := h.2 u hu
    have hb : '\n' ∉ renderNumber q.value ++ htmlEscape q.spacing ++ htmlEscape u := by
      have := nl_not_mem_renderNumber q.value
      have := nl_not_mem_htmlEscape h1
      have := nl_not_mem_htmlEscape h2
      simp_all
    have := nl_not_mem_tagBody "span" [("class", S "rg-quantity-without-conversions rg-scaled-value")] _ isName_span
      (by simp [isName_class]) hb
    simp only [List.mem_append, not_or]; exact ⟨this, h0⟩

theorem nl_not_mem_renderProportion (v : Option Num) (p : Bool) (w : Option Str) (s : Str)
    (hw : ∀ w', w = some w' → '\n' ∉ w') (hs : '\n' ∉ s) : '\n' ∉ renderProportion v p w s := by
  cases v with
  | none =>
    have hnl : '\n' ∉ w.getD (S "remaining") ++ s := by
      cases w with
      | none => simp only [Option.getD_none, List.mem_append, not_or]; exact ⟨by decide, hs⟩
      | some w => simp only [Option.getD_some, List.mem_append, not_or]; exact ⟨hw w rfl, hs⟩
    exact nl_not_mem_tagBody "span" [("class", _)] _ isName_span (by simp [isName_class]) (nl_not_mem_htmlEscape hnl)
  | some v =>
    simp only [renderProportion]
    rw [times_eq]
    refine nl_not_mem_tagBody "span" [("class", _)] _ isName_span (by simp [isName_class]) ?_
    have := nl_not_mem_renderNumber (shownProportion v p)
    have := nl_not_mem_times hs
    simp_all [shownProportion]

theorem nl_not_mem_renderAmount (a : Amount) (h : OneLineA a) : '\n' ∉ renderAmount a := by
  cases a with
  | quantity q =>
    have := nl_not_mem_renderQuantity q h.1 h.2
    simp [renderAmount, this]
  | proportion v p w s =>
    have := nl_not_mem_renderProportion v p w s h.1 h.2
    rw [renderAmount_proportion]
    by_cases hv : isWhole v = true <;> simp [hv, this]

/-- C10.4 for an amount written on one line -/
theorem renderAmount_text (a : Amount) (h : OneLineA a) : textOf (tokens (renderAmount a)) = plainAmount a := by
  rw [tokens_of_frag (aToks_frag a h), textOf_norm, aToks_text]

theorem renderAmount_skeleton (a₁ a₂ : Amount) (h₁ : OneLineA a₁) (h₂ : OneLineA a₂) (h : SameA a₁ a₂) :
    skeleton (tokens (renderAmount a₁)) = skeleton (tokens (renderAmount a₂)) := by
  rw [tokens_of_frag (aToks_frag a₁ h₁), tokens_of_frag (aToks_frag a₂ h₂)]
  exact skeleton_norm (aToks_shape h)

-- ---------------------------------------------------------------- quantities with alternative forms (multi-line)

theorem conversionsFromAux_names (set : List Gen.UnitDef) (spec : Bool) (fuel : Nat) (queue : List (Num × Nat))
    (visited : List Nat) :
    ∀ c ∈ conversionsFromAux set spec fuel queue visited, ∃ u ∈ set, c.2 = unitPrimaryName u := by
  fun_induction conversionsFromAux set spec fuel queue visited with
  | case1 => simp
  | case2 => simp
  | case3 fuel scale i queue visited hv ih => exact ih
  | case4 fuel scale i queue visited hv hi ih => exact ih
  | case5 fuel scale i queue visited hv u hi mulN divN w up down ih =>
    intro c hc
    rcases List.mem_cons.1 hc with rfl | hc
    · exact ⟨u, List.mem_of_getElem? hi, rfl⟩
    · exact ih c hc

/-- every unit of the table has a primary name without line breaks -/
theorem unitTable_names : ∀ ks ∈ Gen.unitSets, ∀ u ∈ ks.2, NoBreak (unitPrimaryName u) := by decide +kernel

theorem conversionsFrom_names {spec : Bool} {name : Str} {convs : List (Num × Str)}
    (h : conversionsFrom spec name = some convs) : ∀ c ∈ convs, NoBreak c.2 := by
  unfold conversionsFrom at h
  cases hfs : findUnitSet name with
  | none => simp [hfs] at h
  | some set =>
    cases hui : unitIndex set name with
    | none => simp [hfs, hui] at h
    | some i =>
      simp only [hfs, hui, bind, Option.bind, pure, Option.some.injEq] at h
      subst h
      intro c hc
      obtain ⟨u, hu, hn⟩ := conversionsFromAux_names _ _ _ _ _ _ hc
      simp only [findUnitSet, Option.map_eq_some_iff] at hfs
      obtain ⟨ks, hks, rfl⟩ := hfs
      rw [hn]
      exact unitTable_names ks (List.mem_of_find?_eq_some hks) u hu

theorem altUnits_names {name : Str} {l : List (Num × Str)} (h : altUnits name = some l) : ∀ c ∈ l, NoBreak c.2 := by
  unfold altUnits at h
  cases hcf : conversionsFrom false name with
  | none => simp [hcf] at h
  | some convs =>
    simp only [hcf, bind, Option.bind, pure, Option.some.injEq] at h
    subst h
    intro c hc
    exact conversionsFrom_names hcf c ((insertionSort_perm _ convs).mem_iff.1 hc)

theorem conversions_noBreak (q : Quantity) : ∀ c ∈ conversions q, NoBreak c.2 := by
  intro c hc
  unfold conversions at hc
  split at hc
  · simp at hc
  · split at hc
    · rename_i x rest ha
      obtain ⟨⟨sc, n⟩, hm, rfl⟩ := List.mem_map.1 hc
      exact altUnits_names ha (sc, n) (List.mem_cons_of_mem _ hm)
    · simp at hc

def convStr (q : Quantity) (c : Num × Str) : Str := renderNumber c.1 ++ htmlEscape q.spacing ++ htmlEscape c.2
noncomputable def convToks (q : Quantity) (c : Num × Str) : List Token := numToks c.1 ++ [.text (q.spacing ++ c.2)]

theorem convToks_frag (q : Quantity) (c : Num × Str) : Frag (convStr q c) (convToks q c) := by
  unfold convStr convToks
  rw [List.append_assoc]
  exact (numToks_frag _).append (Frag.escape2 _ _)

@[simp] theorem convToks_text (q : Quantity) (c : Num × Str) : textOf (convToks q c) = plainConv q c := by
  simp [convToks, plainConv]

theorem convStr_noBreak (q : Quantity) (c : Num × Str) (hs : NoBreak q.spacing) (hc : NoBreak c.2) :
    NoBreak (convStr q c) :=
  ((noBreak_renderNumber _).append (noBreak_htmlEscape hs)).append (noBreak_htmlEscape hc)

theorem renderQuantity_conv (q : Quantity) (u : Str) (hu : q.unit = some u) (hc : conversions q ≠ []) :
    renderQuantity q =
      tagBody "span" [("class", S "rg-quantity-with-conversions rg-scaled-value"), ("tabindex", S "0")]
        (convStr q (q.value, u) ++ tagBody "ul" [("class", S "rg-quantity-conversions")]
          (joinNl ((conversions q).map fun c => tagBody "li" [] (convStr q c)))) ++ htmlEscape q.prep := by
  simp only [conversions, hu] at hc ⊢
  simp only [renderQuantity, hu]
  cases ha : altUnits (lowerStr u) with
  | none => simp [ha] at hc
  | some l =>
    cases l with
    | nil => simp [ha] at hc
    | cons x rest =>
      cases rest with
      | nil => simp [ha] at hc
      | cons y rest => simp [convStr, List.map_map, Function.comp_def]

/-- an element written on one line, as a line -/
noncomputable def tagLine (tag : String) (attrs : List (String × Str)) (l : Line) : Line :=
  (tagBody tag attrs l.1, .open (S tag) (readAttrs attrs) :: l.2 ++ [.close (S tag)])

theorem tagLine_valid (tag : String) (attrs : List (String × Str)) (l : Line) (ht : IsName tag)
    (ha : ∀ x ∈ attrs, IsName x.1 ∧ NoBreak x.2) (hf : Frag l.1 l.2) (hb : NoBreak l.1) : (tagLine tag attrs l).Valid := by
  refine ⟨Frag.tagBody tag attrs ht (fun x hx => (ha x hx).1) hf hb.nl, noBreak_tagBody tag attrs _ ht ha hb, ?_⟩
  show EndsSolid (tagBody tag attrs l.1)
  rw [tagBody_eq _ _ _ hb.nl]
  exact (endsSolid_closeTag tag).prepend _

@[simp] theorem tagLine_text (tag : String) (attrs : List (String × Str)) (l : Line) :
    textOf (tagLine tag attrs l).2 = textOf l.2 := by simp [tagLine]

/-- `tagBody` around lines, as lines again -/
noncomputable def tagLines (tag : String) (attrs : List (String × Str)) (ls : List Line) : List Line :=
  if 2 ≤ ls.length then wrapLines tag attrs ls else [tagLine tag attrs (linesStr ls, linesToks ls)]

theorem linesStr_noBreak_single (ls : List Line) (h : ∀ l ∈ ls, l.Valid) (h1 : ¬ 2 ≤ ls.length) : NoBreak (linesStr ls) := by
  match ls, h1 with
  | [], _ => simp [linesStr, joinNl, NoBreak]
  | [a], _ => simpa [linesStr, joinNl_singleton] using (h a (List.mem_cons_self ..)).nb
  | _ :: _ :: _, h1 => simp at h1

theorem tagLines_str (tag : String) (attrs : List (String × Str)) (ls : List Line) (h : ∀ l ∈ ls, l.Valid) :
    tagBody tag attrs (linesStr ls) = linesStr (tagLines tag attrs ls) := by
  unfold tagLines
  split
  · rename_i h2; exact tagBody_lines tag attrs ls h2 h
  · simp [linesStr, joinNl_singleton, tagLine]

theorem tagLines_valid (tag : String) (attrs : List (String × Str)) (ls : List Line) (ht : IsName tag)
    (ha : ∀ x ∈ attrs, IsName x.1 ∧ NoBreak x.2) (h : ∀ l ∈ ls, l.Valid) : ∀ l ∈ tagLines tag attrs ls, l.Valid := by
  unfold tagLines
  split
  · exact wrapLines_valid tag attrs ls ht ha h
  · rename_i h1
    intro l hl
    simp only [List.mem_singleton] at hl
    subst hl
    exact tagLine_valid tag attrs _ ht ha (linesFrag ls h) (linesStr_noBreak_single ls h h1)

theorem lineWords_single (l : Line) : lineWords [l] = wsWords (textOf l.2) := by simp [lineWords]

theorem lineWords_tagLines (tag : String) (attrs : List (String × Str)) (ls : List Line) :
    lineWords (tagLines tag attrs ls) = lineWords ls := by
  unfold tagLines
  split
  · exact lineWords_wrapLines tag attrs ls
  · rw [lineWords_single, tagLine_text, wsWords_linesToks]

theorem tagLines_ne_nil (tag : String) (attrs : List (String × Str)) (ls : List Line) : tagLines tag attrs ls ≠ [] := by
  unfold tagLines; split <;> simp [wrapLines]

theorem wsWords_wrap_post (tag : String) (attrs : List (String × Str)) (ls : List Line) (t : Str) :
    wsWords (textOf (linesToks (wrapLines tag attrs ls)) ++ t) = lineWords ls ++ wsWords t := by
  have hne : wrapLines tag attrs ls ≠ [] := by simp [wrapLines]
  have e : textOf (linesToks (wrapLines tag attrs ls)) ++ t =
      textOf (linesToks (postLast [] [.text t] (wrapLines tag attrs ls))) := by
    rw [textOf_linesToks_postLast _ _ _ hne]; simp
  have w : wrapLines tag attrs ls =
      ((openTag tag attrs, [.open (S tag) (readAttrs attrs)]) :: ls.map Line.indent) ++ [(closeTag tag, [.close (S tag)])] := rfl
  rw [e, wsWords_linesToks, w, lineWords_postLast, ← lineWords_wrapLines tag attrs ls]
  simp [wrapLines, lineWords, wsWords_nil]

/-- the alternative forms of a quantity, each an `<li>` on a line -/
noncomputable def liLines (q : Quantity) (cs : List (Num × Str)) : List Line :=
  cs.map fun c => tagLine "li" [] (convStr q c, convToks q c)

/-- a quantity with alternative forms, as lines -/
noncomputable def qLines (q : Quantity) (u : Str) : List Line :=
  tagLines "span" [("class", S "rg-quantity-with-conversions rg-scaled-value"), ("tabindex", S "0")]
    (preFirst (convStr q (q.value, u)) (convToks q (q.value, u))
      (tagLines "ul" [("class", S "rg-quantity-conversions")] (liLines q (conversions q))))

theorem isName_ul : IsName "ul" := by decide
theorem isName_li : IsName "li" := by decide
theorem isName_tabindex : IsName "tabindex" := by decide

theorem liLines_valid (q : Quantity) (cs : List (Num × Str)) (hs : NoBreak q.spacing) (hcs : ∀ c ∈ cs, NoBreak c.2) :
    ∀ l ∈ liLines q cs, l.Valid := by
  intro l hl
  obtain ⟨c, hc, rfl⟩ := List.mem_map.1 hl
  exact tagLine_valid "li" [] _ isName_li (by simp) (convToks_frag q c) (convStr_noBreak q c hs (hcs c hc))

theorem qLines_valid (q : Quantity) (u : Str) (hs : NoBreak q.spacing) (hu : NoBreak u) : ∀ l ∈ qLines q u, l.Valid := by
  apply tagLines_valid _ _ _ isName_span
  · intro x hx
    simp only [List.mem_cons, List.not_mem_nil, or_false] at hx
    rcases hx with rfl | rfl
    · exact ⟨isName_class, by decide⟩
    · exact ⟨isName_tabindex, by decide⟩
  · apply preFirst_valid _ _ _ (convToks_frag _ _) (convStr_noBreak q _ hs hu)
    apply tagLines_valid _ _ _ isName_ul
    · intro x hx
      simp only [List.mem_singleton] at hx
      subst hx
      exact ⟨isName_class, by decide⟩
    · exact liLines_valid q _ hs (conversions_noBreak q)

theorem renderQuantity_lines (q : Quantity) (u : Str) (hu : q.unit = some u) (hc : conversions q ≠ [])
    (hs : NoBreak q.spacing) (hub : NoBreak u) :
    renderQuantity q = linesStr (qLines q u) ++ htmlEscape q.prep := by
  rw [renderQuantity_conv q u hu hc]
  have e1 : joinNl ((conversions q).map fun c => tagBody "li" [] (convStr q c)) = linesStr (liLines q (conversions q)) := by
    simp [linesStr, liLines, tagLine, List.map_map, Function.comp_def]
  have hli := liLines_valid q _ hs (conversions_noBreak q)
  rw [e1, tagLines_str _ _ _ hli, ← linesStr_preFirst _ (convToks q (q.value, u)) _ (tagLines_ne_nil _ _ _),
    tagLines_str]
  · rfl
  · apply preFirst_valid _ _ _ (convToks_frag _ _) (convStr_noBreak q _ hs hub)
    apply tagLines_valid _ _ _ isName_ul _ hli
    intro x hx
    simp only [List.mem_singleton] at hx
    subst hx
    exact ⟨isName_class, by decide⟩

theorem isAsciiWs_sp : isAsciiWs ' ' = true := by decide

theorem wsWords_spaced (A : Str) (cs : List (Num × Str)) (f : Num × Str → Str) (P : Str) :
    wsWords (A ++ cs.flatMap (fun c => ' ' :: f c) ++ ' ' :: P) =
      wsWords A ++ cs.flatMap (fun c => wsWords (f c)) ++ wsWords P := by
  induction cs generalizing A with
  | nil => simpa using wsWords_append_ws A ' ' P isAsciiWs_sp
  | cons c cs ih =>
    have : A ++ (c :: cs).flatMap (fun c => ' ' :: f c) ++ ' ' :: P =
        A ++ ' ' :: (f c ++ cs.flatMap (fun c => ' ' :: f c) ++ ' ' :: P) := by simp
    rw [this, wsWords_append_ws _ _ _ isAsciiWs_sp, ih]
    simp

theorem lineWords_liLines (q : Quantity) (cs : List (Num × Str)) :
    lineWords (liLines q cs) = cs.flatMap fun c => wsWords (plainConv q c) := by
  induction cs with
  | nil => rfl
  | cons c cs ih =>
    simp only [liLines, lineWords, List.map_cons, List.flatMap_cons] at ih ⊢
    rw [ih]; simp

theorem noBreak_oneLineQ (q : Quantity) (u : Str) (hu : q.unit = some u) (hc : conversions q = [])
    (hs : NoBreak q.spacing) (hub : NoBreak u) : OneLineQ q :=
  ⟨hc, fun u' hu' => by rw [hu] at hu'; cases hu'; exact ⟨hs.nl, hub.nl⟩⟩

/-- the tokens a quantity with alternative forms denotes -/
theorem qLines_frag (q : Quantity) (u : Str) (hu : q.unit = some u) (hc : conversions q ≠ [])
    (hs : NoBreak q.spacing) (hub : NoBreak u) :
    Frag (renderQuantity q) (linesToks (qLines q u) ++ [.text q.prep]) := by
  rw [renderQuantity_lines q u hu hc hs hub]
  exact (linesFrag _ (qLines_valid q u hs hub)).append (Frag.escape _)

theorem qLines_words (q : Quantity) (u : Str) (hu : q.unit = some u) (hc : conversions q ≠ []) :
    wsWords (textOf (linesToks (qLines q u)) ++ q.prep) = wsWords (plainQuantityFull q) := by
  unfold plainQuantityFull qLines
  simp only [hu]
  match hcs : conversions q, hc with
  | [c], _ =>
    simp [tagLines, liLines, preFirst, linesToks, linesStr, joinNl_singleton]
  | c₁ :: c₂ :: cs, _ =>
    have e1 : tagLines "ul" [("class", S "rg-quantity-conversions")] (liLines q (c₁ :: c₂ :: cs)) =
        wrapLines "ul" [("class", S "rg-quantity-conversions")] (liLines q (c₁ :: c₂ :: cs)) := by
      simp [tagLines, liLines]
    rw [e1]
    have e2 : ∀ ls : List Line, tagLines "span"
        [("class", S "rg-quantity-with-conversions rg-scaled-value"), ("tabindex", S "0")]
        (preFirst (convStr q (q.value, u)) (convToks q (q.value, u))
          (wrapLines "ul" [("class", S "rg-quantity-conversions")] (liLines q (c₁ :: c₂ :: cs)))) =
        wrapLines "span" [("class", S "rg-quantity-with-conversions rg-scaled-value"), ("tabindex", S "0")]
        (preFirst (convStr q (q.value, u)) (convToks q (q.value, u))
          (wrapLines "ul" [("class", S "rg-quantity-conversions")] (liLines q (c₁ :: c₂ :: cs)))) := by
      intro _; simp [tagLines, wrapLines, preFirst, liLines]
    rw [e2 [], wsWords_wrap_post]
    have w : ∀ ls : List Line, lineWords (preFirst (convStr q (q.value, u)) (convToks q (q.value, u))
        (wrapLines "ul" [("class", S "rg-quantity-conversions")] ls)) = wsWords (plainConv q (q.value, u)) ++ lineWords ls := by
      intro ls
      rw [← lineWords_wrapLines "ul" [("class", S "rg-quantity-conversions")] ls]
      simp [wrapLines, preFirst, lineWords, wsWords_nil]
    rw [w, lineWords_liLines, wsWords_spaced]

theorem renderQuantity_words (q : Quantity) (h : QOK q) :
    wsWords (textOf (tokens (renderQuantity q))) = wsWords (plainQuantityFull q) := by
  cases hu : q.unit with
  | none =>
    have : OneLineQ q := ⟨by simp [conversions, hu], fun u hu' => by rw [hu] at hu'; cases hu'⟩
    rw [renderQuantity_text q this]; simp [plainQuantityFull, hu]
  | some u =>
    obtain ⟨hs, hub⟩ := h u hu
    by_cases hc : conversions q = []
    · rw [renderQuantity_text q (noBreak_oneLineQ q u hu hc hs hub)]; simp [plainQuantityFull, hu, hc]
    · rw [tokens_of_frag (qLines_frag q u hu hc hs hub), textOf_norm]
      simpa using qLines_words q u hu hc

/-- C10.4 for any quantity (spacing and unit without line break): its visible text is, up to white space, the
    quantity followed by the alternative forms the renderer lists with it -/
theorem renderQuantity_text_full (q : Quantity) (h : QOK q) :
    collapseWs (textOf (tokens (renderQuantity q))) = collapseWs (plainQuantityFull q) := by
  unfold collapseWs; rw [renderQuantity_words q h]

-- ---------------------------------------------------------------- C10.2 at the level of tokens

/-- the tokenizer state with `p` put before the tokens emitted so far -/
def St.pre (p : List Token) (st : St) : St := { st with out := p ++ st.out }

theorem step_pre (p : List Token) (st : St) (c : Char) : step (st.pre p) c = (step st c).pre p := by
  obtain ⟨o, a, r, m⟩ := st
  cases m <;> simp only [step, St.pre, stepData, stepAfter, St.emit, St.fail] <;> (repeat' split) <;> simp

theorem run_pre (p : List Token) (st : St) (s : Str) : run (st.pre p) s = (run st s).pre p := by
  induction s generalizing st with
  | nil => rfl
  | cons c s ih => rw [run_cons, run_cons, step_pre, ih]

/-- the body of a tag as `tagBody` writes it: as it is, or re-indented when it has several lines -/
def bodyWritten (body : Str) : Str := if '\n' ∈ body then reindent body else body

/-- a token-balanced fragment: read from between tags, the tokenizer is between tags again at its end -/
def Balanced (s : Str) : Prop := ∃ out acc, s.foldl step ⟨[], [], [], .data⟩ = ⟨out, acc, [], .data⟩

theorem Frag.balanced {s : Str} {ts : List Token} (h : Frag s ts) : Balanced s := by
  obtain ⟨r, -, e⟩ := h [] [] [] Raw.nil
  exact ⟨_, r, e⟩

theorem tagBody_written (tag : String) (attrs : List (String × Str)) (body : Str) :
    tagBody tag attrs body = openTag tag attrs ++ bodyWritten body ++ closeTag tag := by
  unfold bodyWritten
  split
  · rename_i h; exact tagBody_eq_nl _ _ _ h
  · rename_i h; exact tagBody_eq _ _ _ h

/-- the tokens of any tag written by `tagBody` around a balanced body: the open tag with exactly the given
    attributes, each value read back as given; the tokens of the body; the close tag -/
theorem tagBody_tokens (tag : String) (attrs : List (String × Str)) (body : Str) (ht : IsName tag)
    (ha : ∀ x ∈ attrs, IsName x.1) (hbody : Balanced (bodyWritten body)) :
    tokens (tagBody tag attrs body) =
      .open (S tag) (attrs.map fun (n, v) => (S n, v)) :: tokens (bodyWritten body) ++ [.close (S tag)] := by
  obtain ⟨out, acc, e⟩ := hbody
  have e1 : run (D [] []) (bodyWritten body) = D out acc := e
  have e2 : run (D [.open (S tag) (readAttrs attrs)] []) (bodyWritten body) =
      D ([.open (S tag) (readAttrs attrs)] ++ out) acc := by
    have := run_pre [.open (S tag) (readAttrs attrs)] (D [] []) (bodyWritten body)
    rw [e1] at this
    simpa [St.pre, D] using this
  have e3 : tokens (bodyWritten body) = out ++ flushText acc := by
    simp [tokens, e, St.finish]
  have e0 : tokens (tagBody tag attrs body) = (run (D [] []) (tagBody tag attrs body)).finish := rfl
  rw [e0, tagBody_written, run_append, run_append, run_openTag tag attrs ht ha]
  have : ([] : List Token) ++ flushText [] ++ [Token.open (S tag) (readAttrs attrs)] =
      [.open (S tag) (readAttrs attrs)] := by simp [flushText]
  rw [this, e2, run_closeTag tag ht, e3]
  simp [St.finish, D, flushText, readAttrs]

/-- C10.2 at the level of tokens: every attribute value the renderer derives from user text (id, href) is a
    single well-formed attribute — the tag has exactly that one attribute, and its value reads back as `v` -/
theorem tagBody_attr_roundtrip (tag name : String) (v body : Str) (ht : IsName tag) (hn : IsName name)
    (hbody : Balanced (bodyWritten body)) :
    tokens (tagBody tag [(name, v)] body) =
      .open (S tag) [(S name, v)] :: tokens (bodyWritten body) ++ [.close (S tag)] := by
  simpa using tagBody_tokens tag [(name, v)] body ht (by simpa using hn) hbody

example : tokens (tagBody "a" [("href", S "#x\"<'&\n")] (S "t")) =
    [.open (S "a") [(S "href", S "#x\"<'&\n")], .text (S "t"), .close (S "a")] := by decide +kernel

-- ---------------------------------------------------------------- examples on a nasty string

/-- a scaled-value string with markup in its text parts: the tokens are the text, the number's elements, the text -/
example : tokens (renderSvs [.text (S "<b>&amp;\"'"), .num ⟨mkRat 7 4, .frac⟩, .text (S "</span>")]) =
    [.text (S "<b>&amp;\"'"), .open (S "span") [(S "class", S "rg-scaled-value")], .text (S "1 "),
      .open (S "sup") [], .text (S "3"), .close (S "sup"), .text (S "⁄"), .open (S "sub") [], .text (S "4"),
      .close (S "sub"), .close (S "span"), .text (S "</span>")] := by decide +kernel
example : skeleton (tokens (renderSvs [.text (S "<b>&amp;\"'"), .num ⟨mkRat 7 4, .frac⟩, .text (S "</span>")])) =
    skeleton (tokens (renderSvs [.text (S "x"), .num ⟨mkRat 7 4, .frac⟩, .text (S "y")])) := by decide +kernel
example : textOf (tokens (renderSvs [.text (S "<b>&amp;\"'"), .num ⟨mkRat 7 4, .frac⟩, .text (S "</span>")])) =
    S "<b>&amp;\"'1 3⁄4</span>" := by decide +kernel
/-- a proportion whose preposition has markup and a `*` -/
example : textOf (tokens (renderProportion (some ⟨mkRat 1 2, .frac⟩) false none (S " *<i>"))) = S "1⁄2 ×<i>" := by
  decide +kernel
/-- `tagBody` strips trailing white space (Unicode white space included) of a multi-line body: the no-break space
    at the end is lost.  This is why the theorems about multi-line bodies ask for a solid end. -/
example : textOf (tokens (tagBody "a" [] (S "x\ny "))) = S "\n  x\n  y\n" := by decide +kernel

end RG.C10
