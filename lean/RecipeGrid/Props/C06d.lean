import RecipeGrid.Props.C06c
import RecipeGrid.Lemmas.ReTermPeg
import RecipeGrid.Lemmas.ReTermSlice
import RecipeGrid.Lemmas.ReTermFuel
import RecipeGrid.Lemmas.ReTermOld
/-! C06, continued: **the terminals of the grammar - every scanner of the parser model is its regular expression**.

    `Props/C06c.lean` proves that the hand-written parser accepts exactly the language of the grammar regenerated from
    `grammar.peg`, the regex terminals being looked up BY THEIR SOURCE TEXT in the hand-tied table `Peg.terminalScanner`.  This
    file removes that table from what is trusted.

    `tools/gen_model.py` (`gen_x_regexes`) writes the syntax of every regex terminal - as CPython's own parser
    (`re._parser.parse(source, flags)`, flags of the compiled pattern: peggie's `DOTALL`, `UNICODE`, and `IGNORECASE` from `(?i)`)
    reads it - into `Gen/Regexes.lean` (`Gen.regexAst : String → Option Rx`).  `Model/ReExt.lean` is a backtracking matcher for
    that syntax with the semantics of `pattern.match(text[i:])` (ordered alternatives, greedy `* + ?` that give back, classes,
    negated classes, `\s` / `\w` by the generated tables, case-insensitive letters by `ciMatches`, `.` under DOTALL, `\b`).

    * `scanner_eq_regex_<terminal>` (27 of them): the scanner the table gives for the source is `match` of the generated
      syntax - from every position of every text it fails iff the regex fails, else ends where the match ends;
    * `scanner_eq_regex_known_unit` goes through `units_regex_is_table` (the syntax CPython gives for the substituted unit
      alternation IS the one built from `Gen.unitPatterns`) and the theorem `Rx.scanIs_units` for ANY table of unit names;
    * **`all_terminals_are_their_regexes`**: the same for every terminal occurring in `Gen.grammarRules`;
    * **`parser_is_grammar_peg`**: the hand-written parser accepts exactly the texts accepted by the PEG of `grammar.peg` with
      every terminal read as a Python regular expression under the engine's semantics (`pegAcceptsRe`: the generic recogniser
      of `Model/Peg.lean` on `Gen.grammarRules` with the table `Peg.regexScanner` = engine on `Gen.regexAst`); and
      `grammar_regex_run_eq`: rule by rule, with end positions, for every fuel.

    * about the engine itself: `regex_match_is_on_rest_of_text` (matching from position `i` of a text is matching `text[i:]`
      from its start - what peggie hands to `pattern.match` - for EVERY expression), `regex_match_bounds`,
      `regex_star_fuel_irrelevant` (the fuel of `*` is not part of the semantics: for a body that cannot match the empty string -
      `regex_syntax_wellformed`: all the generated ones - any fuel from the number of characters left on gives the same answer),
      `engine_extends_brace_engine` (an expression without `\b` gives the same answers in the engine of `Model/BraceExpr.lean`,
      which was compared with `re` on the `{…}` patterns) and `denominator_regex_shared`.

    What remains trusted (validated by the exact differential test `corr_L21.py` only): that `Model/ReExt.lean` has the semantics
    of CPython's `re` on these patterns (and that `Model/Peg.lean` has peggie's, as before). -/
namespace RG.C06
open Parser Peg Rx

/-- the terminal with source `re`: the scanner of the table is the `match` of the generated syntax of `re` -/
def TerminalIsRegex (re : String) : Prop :=
  ∃ (scan : P Unit) (r : Rx), terminalScanner re = some scan ∧ Gen.regexAst re = some r ∧
    ∀ (t : Array Char) (i : Nat) (z : Bool), scan t ⟨i, z⟩ = (r.matchEnd t i).map fun j => ((), (⟨j, z⟩ : PState))

/-! ## one theorem per terminal -/

theorem scanner_eq_regex_assign : TerminalIsRegex ":?=" := ⟨_, _, rfl, rfl, scanIs_assign⟩
theorem scanner_eq_regex_comma : TerminalIsRegex "," := ⟨_, _, rfl, rfl, scanIs_lit ','⟩
theorem scanner_eq_regex_lparen : TerminalIsRegex "\\(" := ⟨_, _, rfl, rfl, scanIs_lit '('⟩
theorem scanner_eq_regex_rparen : TerminalIsRegex "\\)" := ⟨_, _, rfl, rfl, scanIs_lit ')'⟩
theorem scanner_eq_regex_lbrace : TerminalIsRegex "\\{" := ⟨_, _, rfl, rfl, scanIs_lit '{'⟩
theorem scanner_eq_regex_rbrace : TerminalIsRegex "\\}" := ⟨_, _, rfl, rfl, scanIs_lit '}'⟩
theorem scanner_eq_regex_percent : TerminalIsRegex "%" := ⟨_, _, rfl, rfl, scanIs_lit '%'⟩
theorem scanner_eq_regex_asterisk : TerminalIsRegex "\\*" := ⟨_, _, rfl, rfl, scanIs_lit '*'⟩
theorem scanner_eq_regex_remainder : TerminalIsRegex "(?i)(remaining|remainder|rest|left[ \t]*over)\\b" := ⟨_, _, rfl, rfl, scanIs_remainder⟩
theorem scanner_eq_regex_preposition : TerminalIsRegex "(?i)of([ \t]+the)?\\b" := ⟨_, _, rfl, rfl, scanIs_preposition⟩
theorem scanner_eq_regex_naked_string : TerminalIsRegex "[^\"',:=/(){}\\s]([^\"',:=/(){}\n\r]*[^\"',:=/(){}\\s])?" := ⟨_, _, rfl, rfl, scanIs_nakedString⟩
theorem scanner_eq_regex_dquote : TerminalIsRegex "\"" := ⟨_, _, rfl, rfl, scanIs_lit '"'⟩
theorem scanner_eq_regex_backslash : TerminalIsRegex "\\\\" := ⟨_, _, rfl, rfl, scanIs_lit '\\'⟩
theorem scanner_eq_regex_any : TerminalIsRegex "." := ⟨_, _, rfl, rfl, scanIs_any⟩
theorem scanner_eq_regex_dquoted_char : TerminalIsRegex "[^\"\n\r]" := ⟨_, _, rfl, rfl, scanIs_cls cls_dq⟩
theorem scanner_eq_regex_squote : TerminalIsRegex "'" := ⟨_, _, rfl, rfl, scanIs_lit '\''⟩
theorem scanner_eq_regex_squoted_char : TerminalIsRegex "[^'\n\r]" := ⟨_, _, rfl, rfl, scanIs_cls cls_sq⟩
theorem scanner_eq_regex_bracketed_char : TerminalIsRegex "[^0-9{}\n\r]" := ⟨_, _, rfl, rfl, scanIs_cls cls_br⟩
theorem scanner_eq_regex_digits : TerminalIsRegex "[0-9]+" := ⟨_, _, rfl, rfl, scanIs_digits⟩
theorem scanner_eq_regex_slash : TerminalIsRegex "/" := ⟨_, _, rfl, rfl, scanIs_lit '/'⟩
theorem scanner_eq_regex_denominator : TerminalIsRegex "0*[1-9][0-9]*" := ⟨_, _, rfl, rfl, scanIs_denominator⟩
theorem scanner_eq_regex_decimal : TerminalIsRegex "[0-9]+(\\.[0-9]*)?" := ⟨_, _, rfl, rfl, scanIs_decimal⟩
theorem scanner_eq_regex_sp : TerminalIsRegex "\\s+" := ⟨_, _, rfl, rfl, scanIs_plus_cls cls_space⟩
theorem scanner_eq_regex_hsp : TerminalIsRegex "[ \t]+" := ⟨_, _, rfl, rfl, scanIs_plus_cls cls_hsp⟩
theorem scanner_eq_regex_eol_break : TerminalIsRegex "[ \t]*[\r\n]\\s*" := ⟨_, _, rfl, rfl, scanIs_eolBreak⟩
theorem scanner_eq_regex_ohsp : TerminalIsRegex "[ \t]*" := ⟨_, _, rfl, rfl, scanIs_star_cls cls_hsp⟩

/-- the syntax CPython's parser gives for `(?i)(<ALL_UNITS_REGEX_LITERAL>)\b` is the one built from the generated table of
    unit names: an alternation in the order of the table, the letters of each word, `\s+` between the words of a name -/
theorem units_regex_is_table : Gen.regexAst "(?i)(@KNOWN_UNITS@)\\b" = some (unitsRx unitPatterns) := by decide +kernel

theorem scanner_eq_regex_known_unit : TerminalIsRegex "(?i)(@KNOWN_UNITS@)\\b" :=
  ⟨_, _, rfl, units_regex_is_table, scanIs_knownUnit⟩

/-- the unit alternation for ANY table of unit names (words of ASCII lower-case letters): the scanner of the model is the
    `match` of the regular expression of the table -/
theorem scanner_eq_regex_units (tbl : List (List Str)) (hok : tbl.all unitWordsOk = true) (t : Array Char) (i : Nat) (z : Bool) :
    firstOf (tbl.map unitPattern) t ⟨i, z⟩ = ((unitsRx tbl).matchEnd t i).map fun j => ((), (⟨j, z⟩ : PState)) :=
  scanIs_units tbl hok t i z

/-! ## the table -/

/-- the sources of the generated syntax table -/
theorem regexAsts_keys : Gen.regexAsts.map (·.1) = ["\"", "%", "'", "(?i)(@KNOWN_UNITS@)\\b", "(?i)(remaining|remainder|rest|left[ \t]*over)\\b", "(?i)of([ \t]+the)?\\b", ",", ".", "/", "0*[1-9][0-9]*", ":?=", "[ \t]*", "[ \t]*[\r\n]\\s*", "[ \t]+", "[0-9]+", "[0-9]+(\\.[0-9]*)?", "[^\"\n\r]", "[^\"',:=/(){}\\s]([^\"',:=/(){}\n\r]*[^\"',:=/(){}\\s])?", "[^'\n\r]", "[^0-9{}\n\r]", "\\(", "\\)", "\\*", "\\\\", "\\s+", "\\{", "\\}"] := by decide +kernel

/-- every terminal of the generated grammar has a generated syntax -/
theorem terminals_have_syntax :
    (Gen.grammarRules.flatMap fun r => r.2.terminals).all (fun re => (Gen.regexAsts.map (·.1)).contains re) = true := by
  decide +kernel

/-- nothing in the generated syntax is outside the engine's semantics (no `*` / `+` over a body that can match the empty string) -/
theorem regex_syntax_wellformed : Gen.regexAsts.all (fun p => p.2.wellFormed) = true := by decide +kernel

/-- **every terminal of the generated grammar: the scanner the parser model uses for it is the `match` of its regular
    expression** -/
theorem all_terminals_are_their_regexes :
    ∀ re ∈ Gen.grammarRules.flatMap (fun r => r.2.terminals), TerminalIsRegex re := by
  intro re hre
  have h := List.all_eq_true.1 terminals_have_syntax re hre
  rw [List.contains_iff_mem, regexAsts_keys] at h
  simp only [List.mem_cons, List.mem_nil_iff, or_false] at h
  rcases h with rfl | rfl | rfl | rfl | rfl | rfl | rfl | rfl | rfl | rfl | rfl | rfl | rfl | rfl | rfl | rfl | rfl | rfl | rfl | rfl | rfl | rfl | rfl | rfl | rfl | rfl | rfl
  -- (whatever order the generated table lists the sources in)
  all_goals first
    | exact scanner_eq_regex_assign
    | exact scanner_eq_regex_comma
    | exact scanner_eq_regex_lparen
    | exact scanner_eq_regex_rparen
    | exact scanner_eq_regex_lbrace
    | exact scanner_eq_regex_rbrace
    | exact scanner_eq_regex_percent
    | exact scanner_eq_regex_asterisk
    | exact scanner_eq_regex_remainder
    | exact scanner_eq_regex_preposition
    | exact scanner_eq_regex_known_unit
    | exact scanner_eq_regex_naked_string
    | exact scanner_eq_regex_dquote
    | exact scanner_eq_regex_backslash
    | exact scanner_eq_regex_any
    | exact scanner_eq_regex_dquoted_char
    | exact scanner_eq_regex_squote
    | exact scanner_eq_regex_squoted_char
    | exact scanner_eq_regex_bracketed_char
    | exact scanner_eq_regex_digits
    | exact scanner_eq_regex_slash
    | exact scanner_eq_regex_denominator
    | exact scanner_eq_regex_decimal
    | exact scanner_eq_regex_sp
    | exact scanner_eq_regex_hsp
    | exact scanner_eq_regex_eol_break
    | exact scanner_eq_regex_ohsp

/-- the same, as an equation about whatever the two tables hold for a terminal of the grammar -/
theorem scanner_eq_regex {re : String} (hre : re ∈ Gen.grammarRules.flatMap (fun r => r.2.terminals)) {scan : P Unit} {r : Rx}
    (h1 : terminalScanner re = some scan) (h2 : Gen.regexAst re = some r) (t : Array Char) (i : Nat) (z : Bool) :
    scan t ⟨i, z⟩ = (r.matchEnd t i).map fun j => ((), (⟨j, z⟩ : PState)) := by
  obtain ⟨scan', r', h1', h2', h⟩ := all_terminals_are_their_regexes re hre
  rw [h1] at h1'; rw [h2] at h2'
  cases h1'; cases h2'
  exact h t i z

/-! ## the parser and the PEG with regular expressions as terminals -/

/-- rule by rule, from every position, for every fuel: the generic recogniser gives the same result with the terminals matched
    by the regex engine as with the scanners of the parser model -/
theorem grammar_regex_run_eq (t : Array Char) (fuel : Nat) (name : String) (i : Nat) :
    pegRun Gen.grammarRules regexScanner t fuel name i = pegRun Gen.grammarRules terminalScanner t fuel name i := by
  refine (pegRun_congr Gen.grammarRules t (fun re hre j => ?_) fuel name i).symm
  obtain ⟨scan, r, h1, h2, hs⟩ := all_terminals_are_their_regexes re hre
  exact term_eq_of_scanIs h1 (by simp only [regexScanner, h2, Option.map_some]) hs t j

theorem pegRecipeRe_eq (src : Str) : pegRecipeRe src = pegRecipe src := grammar_regex_run_eq _ _ _ _

theorem pegAcceptsRe_eq (src : Str) : pegAcceptsRe src = pegAccepts src := by
  unfold pegAcceptsRe pegAccepts; rw [pegRecipeRe_eq]
  cases pegRecipe src <;> rfl

/-- **the parser model accepts exactly what the PEG of `grammar.peg`, with every terminal read as a Python regular expression
    under the engine's semantics, accepts** (and that run is defined on every text) -/
theorem parser_is_grammar_peg (src : Str) : pegAcceptsRe src = some (decide (parse src ≠ .syntaxError)) := by
  rw [pegAcceptsRe_eq]; exact parser_recognises_grammar src

theorem grammar_peg_accepts_iff (src : Str) : pegAcceptsRe src = some true ↔ ∃ stmts, parse src = .ok stmts := by
  rw [pegAcceptsRe_eq]; exact grammar_accepts_iff src

theorem grammar_peg_rejects_iff (src : Str) : pegAcceptsRe src = some false ↔ parse src = .syntaxError := by
  rw [pegAcceptsRe_eq]; exact grammar_rejects_iff src

/-- the rule `name` of the generated grammar, its terminals matched by the regex engine, run from `i`, fails iff the hand-written
    `p` fails from `i`, and otherwise ends where `p` ends -/
def GrammarRuleRe {α} (t : Array Char) (f : Nat) (name : String) (p : P α) (i : Nat) (z : Bool) : Prop :=
  pegRun Gen.grammarRules regexScanner t f name i = match p t ⟨i, z⟩ with
    | none => .fail
    | some (_, s) => .ok s.pos

theorem grammarRuleRe_iff {α} {t : Array Char} {f : Nat} {name : String} {p : P α} {i : Nat} {z : Bool} :
    GrammarRuleRe t f name p i z ↔ GrammarRule t f name p i z := by
  unfold GrammarRuleRe GrammarRule
  rw [grammar_regex_run_eq]
  cases p t ⟨i, z⟩ <;> exact Iff.rfl

/-- the rules without recursion (cf. `grammar_rules_flat`) -/
theorem grammar_peg_rules_flat (t : Array Char) (f : Nat) (hf : 5 ≤ f) (i : Nat) (z : Bool) :
    GrammarRuleRe t f "sp" sp i z ∧ GrammarRuleRe t f "hsp" hsp i z ∧ GrammarRuleRe t f "eof" eof i z
    ∧ GrammarRuleRe t f "eol" eol i z ∧ GrammarRuleRe t f "decimal" decimal i z ∧ GrammarRuleRe t f "fraction" fraction i z
    ∧ GrammarRuleRe t f "number" number i z ∧ GrammarRuleRe t f "interpolated_number" number i z
    ∧ GrammarRuleRe t f "naked_string" nakedString i z ∧ GrammarRuleRe t f "s_quoted_string" (quotedString '\'') i z
    ∧ GrammarRuleRe t f "d_quoted_string" (quotedString '"') i z ∧ GrammarRuleRe t f "bracketed_string" bracketedString i z
    ∧ GrammarRuleRe t f "remainder" remainder i z ∧ GrammarRuleRe t f "preposition" preposition i z
    ∧ GrammarRuleRe t f "known_unit" knownUnit i z ∧ GrammarRuleRe t f "proportion" proportion i z
    ∧ GrammarRuleRe t f "implicit_quantity" implicitQuantity i z := by
  obtain ⟨h1, h2, h3, h4, h5, h6, h7, h8, h9, h10, h11, h12, h13, h14, h15, h16, h17⟩ := grammar_rules_flat t f hf i z
  exact ⟨grammarRuleRe_iff.2 h1, grammarRuleRe_iff.2 h2, grammarRuleRe_iff.2 h3, grammarRuleRe_iff.2 h4, grammarRuleRe_iff.2 h5,
    grammarRuleRe_iff.2 h6, grammarRuleRe_iff.2 h7, grammarRuleRe_iff.2 h8, grammarRuleRe_iff.2 h9, grammarRuleRe_iff.2 h10,
    grammarRuleRe_iff.2 h11, grammarRuleRe_iff.2 h12, grammarRuleRe_iff.2 h13, grammarRuleRe_iff.2 h14, grammarRuleRe_iff.2 h15,
    grammarRuleRe_iff.2 h16, grammarRuleRe_iff.2 h17⟩

/-- the string rules (cf. `grammar_rules_string`) -/
theorem grammar_peg_rules_string (t : Array Char) (f i : Nat) (z : Bool) (hf : t.size - i + 9 ≤ f) :
    GrammarRuleRe t f "string" (string false) i z ∧ GrammarRuleRe t f "static_string" (string true) i z
    ∧ GrammarRuleRe t f "output" (string false) i z ∧ GrammarRuleRe t f "action" (string false) i z
    ∧ GrammarRuleRe t f "ingredient" (string false) i z ∧ GrammarRuleRe t f "freeform_unit" (string true) i z
    ∧ GrammarRuleRe t f "output_list" outputList i z ∧ GrammarRuleRe t f "explicit_quantity" explicitQuantity i z
    ∧ GrammarRuleRe t f "reference" reference i z := by
  obtain ⟨h1, h2, h3, h4, h5, h6, h7, h8, h9⟩ := grammar_rules_string t f i z hf
  exact ⟨grammarRuleRe_iff.2 h1, grammarRuleRe_iff.2 h2, grammarRuleRe_iff.2 h3, grammarRuleRe_iff.2 h4, grammarRuleRe_iff.2 h5,
    grammarRuleRe_iff.2 h6, grammarRuleRe_iff.2 h7, grammarRuleRe_iff.2 h8, grammarRuleRe_iff.2 h9⟩

/-- the expression rules (cf. `grammar_rules_expr`) -/
theorem grammar_peg_rules_expr (t : Array Char) (f i k : Nat) (z : Bool) (hf : 2 * (t.size - i) + 19 ≤ f) (hk : t.size - i < k) :
    GrammarRuleRe t f "expr" (expr k) i z ∧ GrammarRuleRe t f "step" (step (expr k)) i z
    ∧ GrammarRuleRe t f "ltr_shorthand" (ltrShorthand (expr k)) i z ∧ GrammarRuleRe t f "stmt" stmt i z
    ∧ GrammarRuleRe t f "recipe" recipe i z := by
  obtain ⟨h1, h2, h3, h4, h5⟩ := grammar_rules_expr t f i k z hf hk
  exact ⟨grammarRuleRe_iff.2 h1, grammarRuleRe_iff.2 h2, grammarRuleRe_iff.2 h3, grammarRuleRe_iff.2 h4, grammarRuleRe_iff.2 h5⟩

/-! ## the engine -/

/-- **matching from position `i` of a text is `pattern.match(text[i:])`**, for every expression: the engine's answer from `i`
    is its answer on the rest of the text from the start, shifted by `i` (so `\b` never sees what is before `i`) -/
theorem regex_match_is_on_rest_of_text (r : Rx) (t : Array Char) (i : Nat) :
    r.matchEnd t i = (r.matchEnd (t.extract i t.size) 0).map (· + i) := matchEnd_slice r t i

/-- a match ends between its start and the end of the text -/
theorem regex_match_bounds {r : Rx} {t : Array Char} {i j : Nat} (hi : i ≤ t.size) (h : r.matchEnd t i = some j) :
    i ≤ j ∧ j ≤ t.size := matchEnd_bounds hi h

/-- the fuel of the greedy loop is not part of the semantics: for a body that cannot match the empty string, any fuel from the
    number of characters left on gives the answer of `*` -/
theorem regex_star_fuel_irrelevant {α : Type} (t : Array Char) (base : Nat) (x : Rx) (hn : x.nullable = false) (k : Rx.K α)
    (i : Nat) (hi : i ≤ t.size) (extra : Nat) :
    Rx.starK (Rx.run t base x) (t.size - i + extra) i k = Rx.run t base (.star x) i k :=
  star_fuel_irrelevant t base x hn k i hi extra

/-- the engine extends the engine of `Model/BraceExpr.lean`: an expression without `\b`, written in the old syntax (`Rx.toRe`),
    ends in the new engine where the old one leaves off -/
theorem engine_extends_brace_engine (r : Rx) (hb : r.hasBound = false) (t : Array Char) (i : Nat) (hi : i ≤ t.size) :
    r.matchEnd t i = Re.run r.toRe (t.toList.drop i) [] (fun rest _ => some (t.size - rest.length)) :=
  matchEnd_eq_old r hb t i hi

/-- the denominator pattern `0*[1-9][0-9]*` of the grammar, as generated from CPython's parse, is - in the old syntax - the
    hand-transcribed `Brace.denomRe` of `ScaledValueExpression` -/
theorem denominator_regex_shared :
    (Gen.regexAst "0*[1-9][0-9]*").map Rx.toRe = some Brace.denomRe := by
  rw [show Gen.regexAst "0*[1-9][0-9]*" = some (seq (star (chr '0')) (seq (cls false [.range '1' '9']) (star (cls false [.range '0' '9']))))
    from rfl]
  simp only [Option.map_some, toRe, cls_nz, cls_digit]
  rfl

example : (Gen.regexAsts.filter fun p => !p.2.hasBound).length = 24 := by decide +kernel

/-! ## non-vacuity: the engine evaluated on the generated syntax -/

example : (Gen.grammarRules.flatMap fun r => r.2.terminals).eraseDups.length = 27 ∧ Gen.regexAsts.length = 27 := by decide +kernel
/-- `naked_string`: the greedy run is given back to the last edge character -/
example : (Gen.regexAst "[^\"',:=/(){}\\s]([^\"',:=/(){}\n\r]*[^\"',:=/(){}\\s])?").bind
    (fun r => r.matchEnd "ab  c  \t, d".toList.toArray 0) = some 5 := by decide +kernel
/-- `of the` without a `\b` after it: the regex backtracks to `of` -/
example : (Gen.regexAst "(?i)of([ \t]+the)?\\b").bind (fun r => r.matchEnd "x OF  thee".toList.toArray 2) = some 4 := by
  decide +kernel
example : (Gen.regexAst "(?i)of([ \t]+the)?\\b").bind (fun r => r.matchEnd "x OF  the e".toList.toArray 2) = some 9 := by
  decide +kernel
/-- a failing `\b` makes the regex try the later alternatives: `remaining` fails on "remainder" at the letter, … -/
example : (Gen.regexAst "(?i)(remaining|remainder|rest|left[ \t]*over)\\b").bind
    (fun r => r.matchEnd "Left \t OVER x".toList.toArray 0) = some 11 := by decide +kernel
example : (Gen.regexAst "(?i)(remaining|remainder|rest|left[ \t]*over)\\b").bind
    (fun r => r.matchEnd "restx".toList.toArray 0) = none := by decide +kernel
/-- units: `g` fails its `\b` on "grams", `gram` too, `grams` matches; `\s+` between words; `K` (U+212A) is a `k` -/
example : (Gen.regexAst "(?i)(@KNOWN_UNITS@)\\b").bind (fun r => r.matchEnd "grams of".toList.toArray 0) = some 5 := by
  decide +kernel
example : (Gen.regexAst "(?i)(@KNOWN_UNITS@)\\b").bind (fun r => r.matchEnd "Tea \n\tSpoons,".toList.toArray 0) = some 12 := by
  decide +kernel
example : (Gen.regexAst "(?i)(@KNOWN_UNITS@)\\b").bind (fun r => r.matchEnd "Kg".toList.toArray 0) = some 2 := by
  decide +kernel
example : (Gen.regexAst "0*[1-9][0-9]*").bind (fun r => r.matchEnd "00120x".toList.toArray 0) = some 5 := by decide +kernel
example : (Gen.regexAst "0*[1-9][0-9]*").bind (fun r => r.matchEnd "000x".toList.toArray 0) = none := by decide +kernel
example : (Gen.regexAst "[0-9]+(\\.[0-9]*)?").bind (fun r => r.matchEnd "12.x".toList.toArray 0) = some 3 := by decide +kernel
example : (Gen.regexAst "[ \t]*[\r\n]\\s*").bind (fun r => r.matchEnd " \t\n  \nx".toList.toArray 0) = some 6 := by
  decide +kernel
/-- the whole pipeline: grammar data, PEG semantics, regex engine on the generated syntax -/
example : pegAcceptsRe "sauce = boil(1 kg tomatoes, rest of the stock), sieve".toList = some true := by decide +kernel
example : pegAcceptsRe "sauce = boil(1 kg tomatoes, rest of the stock, sieve".toList = some false := by decide +kernel
example : pegRecipeRe "x = y\nz".toList = .ok 7 := by decide +kernel

end RG.C06
