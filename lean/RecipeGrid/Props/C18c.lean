import RecipeGrid.Lemmas.MdHeadingSplit
/-! C18c — the title and the serving count, from the DOCUMENT text.

    `Props/C18.lean` / `C18b.lean` characterise `render_heading`'s decision given the text marko rendered for the heading.
    Here the heading itself is modelled (`Model/MdHeading.lean`: which line(s) of the document are the first heading, what
    marko renders for its inline content), so the statements are about `docTitle doc`, the model of
    `(compile_markdown(doc).title, .servings)` on the sub-language **H** (`inH`).

    * `doc_title_documented_form` — `# T <blanks> <documented phrase, any letter case> <blanks> N`, then ANY rest of the
      document: title = `T` with backslash escapes and character references resolved, servings = `N`;
    * `doc_title_documented_form_simple` — the same for a title without `\` and `&`: the title is `T` itself;
    * `doc_title_only_first_heading` — once a first heading is found in a prefix of whole lines, nothing behind it matters;
    * `doc_title_none_cases` and its parts — no heading / level ≥ 2 / markup ⇒ no title; no serving split ⇒ no count. -/
namespace RG.C18

/-! ## the first heading of a document that starts with an ATX heading line -/

/-- **the heading the renderer sees.**  A document whose first line is `#…# body` (1–6 `#`s, a space; `body` on one line,
    no white space at its ends, not ending in `#`, its inline content plain with decoded text `d`): the first heading has
    that level and marko renders `html.escape d` for it — whatever follows in the document. -/
theorem firstHeadingX_atx_plain (k : Nat) (body d rest : Str) (hk1 : 1 ≤ k) (hk6 : k ≤ 6) (hline : OneLine body)
    (hne : body ≠ []) (hh : ∀ c, body.head? = some c → isReSpace c = false)
    (hl : ∀ c, body.getLast? = some c → isReSpace c = false ∧ c ≠ '#')
    (hscan : scanInline [] body = .ok d false) :
    firstHeadingX (hashes k ++ ' ' :: (body ++ '\n' :: rest)) = .heading k (.plain (mkEscape d)) := by
  rw [firstHeadingX, rawHeading_atx_first k body rest hk1 hk6 hline.no_nl hline.no_cr, atxContent_simple body hh hl hne]
  simp [inlineClass, hscan]

/-- **C18c, main theorem.**  For every heading text `T` on one line whose inline content is plain (`decodeInline T = some D`:
    read with backslash escapes of ASCII punctuation as units, `T` has none of `* _ ` [ < {` unescaped; `D` is `T` with the
    escapes and the character references resolved) — `T` not starting with white space, `D` neither starting nor ending with
    white space and, where "to <phrase>" is accepted too, not ending in the word "to" —, every DOCUMENTED phrase in any
    letter case, any non-empty runs of blanks `s1`, `s2`, any count `N` and ANY `rest` of the document:
    the title of `# T s1 phrase s2 N ⏎ rest` is `D` and its serving count is `N` (title HTML and preposition as rendered). -/
theorem doc_title_documented_form (T D s1 phText s2 : Str) (ph : List String) (N : Nat) (rest : Str)
    (hT : decodeInline T = some D) (hTline : OneLine T)
    (hThead : ∃ c r, T = c :: r ∧ isReSpace c = false)
    (hDhead : ∀ c, D.head? = some c → isReSpace c = false)
    (hDlast : ∀ c, D.getLast? = some c → isReSpace c = false)
    (hDto : "to" :: ph ∈ Gen.servingPhrases → ¬ ∃ D₀ w z, D = D₀ ++ [w] ++ z ∧ isReSpace w = true ∧ CiWord "to".toList z)
    (hph : ph ∈ Gen.documentedPhrases) (hcase : CaseVariantOf ph phText) (hphline : OneLine phText)
    (hs1 : BlankRun s1) (hs2 : BlankRun s2) :
    docTitle ("# ".toList ++ T ++ s1 ++ phText ++ s2 ++ natDigits N ++ "\n".toList ++ rest) =
      .scalable D N (mkEscape D ++ s1) (phText ++ s2) := by
  have hp := documented_phrases_accepted ph hph
  have hwf := (servingPhrases_wf ph hp).2
  have hpt : PhraseText ph phText := CaseVariantOf.phraseText hwf hcase
  have hdig := natDigits_isDigit' N
  have hdne := natDigits_ne_nil N
  have hsuf := documented_suffix_inert N hp hpt hphline hs1 hs2
  obtain ⟨c0, r0, rfl, hc0⟩ := hThead
  -- the heading line
  have hscanT : scanInline [] (c0 :: r0) = .ok D false := by
    simp only [decodeInline] at hT
    split at hT
    · rename_i d hd; simp only [Option.some.injEq] at hT; rw [← hT]; exact hd
    · cases hT
  have hlastT : (c0 :: r0).getLast? ≠ some '\n' := by
    intro e; exact (hTline '\n' (List.mem_of_getLast? e)).1 rfl
  have hscan : scanInline [] ((c0 :: r0) ++ (s1 ++ phText ++ s2 ++ natDigits N)) =
      .ok (D ++ (s1 ++ phText ++ s2 ++ natDigits N)) false := by
    rw [scanInline_append_inert _ _ _ hlastT hsuf, hscanT]; rfl
  have hbodyline : OneLine ((c0 :: r0) ++ (s1 ++ phText ++ s2 ++ natDigits N)) :=
    hTline.append (((hs1.oneLine.append hphline).append hs2.oneLine).append (digits_oneLine hdig))
  have hbodylast : ∀ c, ((c0 :: r0) ++ (s1 ++ phText ++ s2 ++ natDigits N)).getLast? = some c →
      isReSpace c = false ∧ c ≠ '#' := by
    intro c hc
    have : ((c0 :: r0) ++ (s1 ++ phText ++ s2)) ++ natDigits N = (c0 :: r0) ++ (s1 ++ phText ++ s2 ++ natDigits N) := by simp
    rw [← this, getLast?_append_ne _ hdne] at hc
    have hd := hdig c (List.mem_of_getLast? hc)
    refine ⟨isDigit_not_space hd, ?_⟩
    intro e; subst e; simp [isDigit] at hd
  have hfirst := firstHeadingX_atx_plain 1 ((c0 :: r0) ++ (s1 ++ phText ++ s2 ++ natDigits N)) _ rest (by omega) (by omega)
    hbodyline (by simp) (by intro c hc; simp at hc; subst hc; exact hc0) hbodylast hscan
  have hdoc : "# ".toList ++ (c0 :: r0) ++ s1 ++ phText ++ s2 ++ natDigits N ++ "\n".toList ++ rest =
      hashes 1 ++ ' ' :: (((c0 :: r0) ++ (s1 ++ phText ++ s2 ++ natDigits N)) ++ '\n' :: rest) := by
    simp [hashes]
  rw [docTitle, hdoc, hfirst]
  exact headingInfo_of_decoded D s1 phText s2 ph N hDhead hDlast hDto hp hpt hphline hs1 hs2

/-- **C18c, the main theorem for a title without escapes and references**: `T` on one line, none of `\ & * _ ` [ < {` in it,
    no white space at its ends, not ending in the word "to" where that would extend the phrase: the title is `T` itself. -/
theorem doc_title_documented_form_simple (T s1 phText s2 : Str) (ph : List String) (N : Nat) (rest : Str)
    (hTraw : ∀ c ∈ T, RawChar c ∧ c ≠ '&' ∧ c ≠ '\r') (hTne : T ≠ [])
    (hThead : ∀ c, T.head? = some c → isReSpace c = false)
    (hTlast : ∀ c, T.getLast? = some c → isReSpace c = false)
    (hTto : "to" :: ph ∈ Gen.servingPhrases → ¬ ∃ T₀ w z, T = T₀ ++ [w] ++ z ∧ isReSpace w = true ∧ CiWord "to".toList z)
    (hph : ph ∈ Gen.documentedPhrases) (hcase : CaseVariantOf ph phText) (hphline : OneLine phText)
    (hs1 : BlankRun s1) (hs2 : BlankRun s2) :
    docTitle ("# ".toList ++ T ++ s1 ++ phText ++ s2 ++ natDigits N ++ "\n".toList ++ rest) =
      .scalable T N (mkEscape T ++ s1) (phText ++ s2) := by
  apply doc_title_documented_form T T s1 phText s2 ph N rest
    (decodeInline_raw T (fun c hc => ⟨(hTraw c hc).1, (hTraw c hc).2.1⟩))
    (fun c hc => ⟨(hTraw c hc).1.2.1, (hTraw c hc).2.2⟩) ?_ hThead hTlast hTto hph hcase hphline hs1 hs2
  cases T with
  | nil => exact absurd rfl hTne
  | cons c r => exact ⟨c, r, rfl, hThead c rfl⟩

/-! ### non-vacuity -/

-- the brief's example, evaluated on the model …
example : docTitle "# Tom's \\#1 stew &amp; dumplings FOR  12\n\nbody\n".toList =
    .scalable "Tom's #1 stew & dumplings".toList 12 "Tom's #1 stew &amp; dumplings ".toList "FOR  ".toList := by decide +kernel
-- … and as an instance of the theorem: its hypotheses hold for this title, phrase and spacing
example (rest : Str) : docTitle ("# ".toList ++ "Tom's \\#1 stew &amp; dumplings".toList ++ " ".toList ++ "FOR".toList ++ "  ".toList ++
      natDigits 12 ++ "\n".toList ++ rest) =
    .scalable "Tom's #1 stew & dumplings".toList 12 ("Tom's #1 stew &amp; dumplings".toList ++ " ".toList) ("FOR".toList ++ "  ".toList) :=
  doc_title_documented_form _ "Tom's #1 stew & dumplings".toList _ _ _ ["for"] 12 rest (by decide +kernel) (by decide)
    ⟨'T', _, rfl, by decide⟩ (by decide) (by decide) (fun h => absurd h (by decide)) (by decide)
    (by show CaseVariantWord _ _; decide) (by decide) (by decide) (by decide)
-- a phrase that "to" extends: the title must not end in "to"
example (rest : Str) : docTitle ("# ".toList ++ "Café au lait".toList ++ "\t".toList ++ "To  Serve".toList ++ " ".toList ++
      natDigits 4 ++ "\n".toList ++ rest) =
    .scalable "Café au lait".toList 4 ("Café au lait".toList ++ "\t".toList) ("To  Serve".toList ++ " ".toList) :=
  doc_title_documented_form_simple _ _ _ _ ["to", "serve"] 4 rest (by decide) (by decide) (by decide) (by decide)
    (fun h => absurd h (by decide)) (by decide)
    ⟨"To".toList, "  ".toList, "Serve".toList, rfl, by decide, by decide, by show CaseVariantWord _ _; decide⟩ (by decide) (by decide) (by decide)
-- the side condition on "to" is needed: here the split found is "Food" + "to serve 4"
example : docTitle "# Food to serve 4\n".toList = .scalable "Food".toList 4 "Food ".toList "to serve ".toList := by decide +kernel
-- character references: named, numeric, legacy prefix ("&notit;" is "¬it;"), unknown (kept), and what they decode to
example : decodeInline "Caf&eacute; &#65;&notit; &unknown; \\&amp;".toList = some "Café A¬it; &unknown; &amp;".toList := by decide +kernel

/-! ## when no title / no serving count is inferred -/

/-- no heading in the document: no title -/
theorem doc_title_no_heading (doc : Str) (h : firstHeadingX doc = .noHeading) : docTitle doc = .none := by
  simp [docTitle, h]

/-- the first heading is not of level 1: no title (whatever its text, and whatever follows — later headings are not
    considered) -/
theorem doc_title_lower_level (doc : Str) (level : Nat) (t : HText) (h : firstHeading doc = some (level, t)) (hl : level ≠ 1) :
    docTitle doc = .none := by
  simp only [firstHeading] at h
  split at h
  · rename_i l' t' hx
    simp only [Option.some.injEq, Prod.mk.injEq] at h
    obtain ⟨rfl, rfl⟩ := h
    simp only [docTitle, hx]
    cases t' with
    | plain r => exact lower_level_no_title true l' r [] hl
    | markup => rfl
  · cases h

/-- the first heading contains markup: no title -/
theorem doc_title_markup (doc : Str) (level : Nat) (h : firstHeading doc = some (level, .markup)) : docTitle doc = .none := by
  simp only [firstHeading] at h
  split at h
  · rename_i l' t' hx
    simp only [Option.some.injEq, Prod.mk.injEq] at h
    obtain ⟨rfl, rfl⟩ := h
    simp [docTitle, hx]
  · cases h

/-- `##` … `######`: a document that starts with a heading line of level 2–6 has that heading as its first heading, and
    no title — whatever the heading says (a serving phrase included) and whatever follows (a level-1 heading included) -/
theorem doc_title_atx_lower_level (k : Nat) (body rest : Str) (hk2 : 2 ≤ k) (hk6 : k ≤ 6) (hline : OneLine body) :
    rawHeading (hashes k ++ ' ' :: (body ++ '\n' :: rest)) = .heading k (atxContent (' ' :: body)) ∧
    docTitle (hashes k ++ ' ' :: (body ++ '\n' :: rest)) = .none := by
  have hr := rawHeading_atx_first k body rest (by omega) hk6 hline.no_nl hline.no_cr
  refine ⟨hr, ?_⟩
  simp only [docTitle, firstHeadingX, hr]
  cases inlineClass (atxContent (' ' :: body)) with
  | plain r => exact lower_level_no_title true k r [] (by omega)
  | markup => rfl
  | unknown => rfl

/-- a level-1 first heading without a serving split: the title is the whole (decoded) text, and there is no count.
    (`HasServingSplit` is characterised in `Props/C18b.lean`: `no_servings_of_last_token`, `phrase_needs_preceding_space` …) -/
theorem doc_title_no_serving_phrase (body d rest : Str) (hline : OneLine body)
    (hne : body ≠ []) (hh : ∀ c, body.head? = some c → isReSpace c = false)
    (hl : ∀ c, body.getLast? = some c → isReSpace c = false ∧ c ≠ '#')
    (hscan : decodeInline body = some d)
    (hdh : ∀ c, d.head? = some c → isReSpace c = false) (hdl : ∀ c, d.getLast? = some c → isReSpace c = false)
    (hno : ¬ HasServingSplit (mkEscape d)) :
    docTitle ('#' :: ' ' :: (body ++ '\n' :: rest)) = .unscalable d := by
  have hscan' : scanInline [] body = .ok d false := by
    simp only [decodeInline] at hscan
    split at hscan
    · rename_i d' hd; simp only [Option.some.injEq] at hscan; rw [← hscan]; exact hd
    · cases hscan
  have hfirst := firstHeadingX_atx_plain 1 body d rest (by omega) (by omega) hline hne hh hl hscan'
  have hdoc : '#' :: ' ' :: (body ++ '\n' :: rest) = hashes 1 ++ ' ' :: (body ++ '\n' :: rest) := by simp [hashes]
  rw [docTitle, hdoc, hfirst]
  have hplain : Plain (mkEscape d) [] := ⟨lt_not_mem_mkEscape d, by intro q hq; cases hq⟩
  simp only []
  rw [(headingInfo_unscalable_iff hplain d).mpr ⟨hno, ?_⟩]
  rw [stripStr_of_ends (mkEscape_head_not_space d hdh) (mkEscape_getLast_not_space d hdl), unescapeEntities_mkEscape]

-- the negative documents of C18's oracle, on the model
example : docTitle "Intro\n\n## Stew for 2\n".toList = .none := by decide +kernel
example : docTitle "## Stew for 2\n\n# Soup for 3\n".toList = .none := by decide +kernel
example : docTitle "# *Stew* for 2\n".toList = .none := by decide +kernel
example : firstHeading "# *Stew* for 2\n".toList = some (1, .markup) := by decide +kernel
example : docTitle "# `code` pie\n\n# Pie for 3\n".toList = .none := by decide +kernel
example : docTitle "# Soup with {2} eggs\n\n# Stew for 6\n".toList = .none := by decide +kernel
example : docTitle "# <b>x</b>\n\ntext\n\n# Stew for 6\n".toList = .none := by decide +kernel
example : docTitle "# Stew 2\n".toList = .unscalable "Stew 2".toList := by decide +kernel
example : docTitle "# Plum Preserves 2\n".toList = .unscalable "Plum Preserves 2".toList := by decide +kernel
example : docTitle "# Serves 2\n".toList = .unscalable "Serves 2".toList := by decide +kernel
example : docTitle "para\n\n# Stew for 2\n".toList = .scalable "Stew".toList 2 "Stew ".toList "for ".toList := by decide +kernel
example : docTitle "# Stew for 2\n\n# Soup for 3\n".toList = .scalable "Stew".toList 2 "Stew ".toList "for ".toList := by decide +kernel
example : docTitle "no heading at all\n\n    fry(1 egg)\n".toList = .none := by decide +kernel
example : firstHeadingX "no heading at all\n\n    fry(1 egg)\n".toList = .noHeading := by decide +kernel
-- brace expressions: an escaped closing brace leaves plain text (the oracle's `{v2\}` cases)
example : docTitle "# Soup {v2\\} for 4\n".toList = .none := by decide +kernel   -- outside H: a lone `{` (the real code: "Soup {v2}", 4)
example : inH "# Soup {v2\\} for 4\n".toList = false := by decide +kernel
example : docTitle "# Hello \\{ and \\} for 3\n".toList = .scalable "Hello { and }".toList 3 "Hello { and } ".toList "for ".toList := by
  decide +kernel
-- setext headings, single- and multi-line
example : docTitle "Stew for 2\n==========\n".toList = .scalable "Stew".toList 2 "Stew ".toList "for ".toList := by decide +kernel
example : docTitle "Grandma's\nchicken soup for 4\n===\n".toList =
    .scalable "Grandma's\nchicken soup".toList 4 "Grandma's\nchicken soup ".toList "for ".toList := by decide +kernel
example : docTitle "Two line\ntitle\n=====\n".toList = .unscalable "Two line\ntitle".toList := by decide +kernel
example : docTitle "Stew for 2\n---\n".toList = .none := by decide +kernel          -- level 2
example : firstHeading "Stew  \nfor 2\n===\n".toList = some (1, .markup) := by decide +kernel   -- hard line break
-- an instance of `doc_title_no_serving_phrase`
example (rest : Str) : docTitle ('#' :: ' ' :: ("Fish \\& chips".toList ++ '\n' :: rest)) = .unscalable "Fish & chips".toList :=
  doc_title_no_serving_phrase _ _ rest (by decide) (by decide) (by decide) (by decide) (by decide +kernel) (by decide) (by decide)
    ((searchServings_eq_none_iff _).mp (by decide +kernel))

/-! ## only the first heading; documents without a heading -/

/-- **only the first heading is ever considered.**  When the lines up to some line end already contain the document's first
    heading (or already put the document outside **H**), the text behind that line end changes neither the first heading nor
    the title and serving count — further headings, whatever they say, included. -/
theorem doc_title_only_first_heading (A rest : Str) (h : firstHeadingX (A ++ "\n".toList) ≠ .noHeading) :
    firstHeadingX (A ++ "\n".toList ++ rest) = firstHeadingX (A ++ "\n".toList) ∧
    docTitle (A ++ "\n".toList ++ rest) = docTitle (A ++ "\n".toList) := by
  have hr : rawHeading (A ++ ['\n']) ≠ .noHeading := by
    intro e; apply h
    show firstHeadingX (A ++ ['\n']) = .noHeading
    simp [firstHeadingX, e]
  have e : A ++ "\n".toList ++ rest = A ++ '\n' :: rest := by simp
  have h1 : firstHeadingX (A ++ "\n".toList ++ rest) = firstHeadingX (A ++ "\n".toList) := by
    rw [e]
    show firstHeadingX (A ++ '\n' :: rest) = firstHeadingX (A ++ ['\n'])
    simp only [firstHeadingX, rawHeading_append_nl A rest hr]
  exact ⟨h1, by simp only [docTitle, h1]⟩

-- e.g. the second heading of the oracle's document is irrelevant, and so is anything else in its place
example (rest : Str) : docTitle ("# Stew for 2".toList ++ "\n".toList ++ rest) = .scalable "Stew".toList 2 "Stew ".toList "for ".toList := by
  rw [(doc_title_only_first_heading "# Stew for 2".toList rest (by decide +kernel)).2]
  decide +kernel
example (rest : Str) : docTitle ("intro\n\n```\ncode\n```\n## Sub for 3".toList ++ "\n".toList ++ rest) = .none := by
  rw [(doc_title_only_first_heading _ rest (by decide +kernel)).2]
  decide +kernel

/-- **no heading.**  A document all of whose lines are blank, plain paragraph lines (`ProseLine`) or lines indented by four
    or more spaces (indented code, lazy continuation lines) has no heading, hence no title and no serving count. -/
theorem doc_title_no_heading_quiet (doc : Str) (h : ∀ l ∈ docLines doc, QuietLine l) :
    firstHeadingX doc = .noHeading ∧ docTitle doc = .none := by
  have hr : rawHeading doc = .noHeading := findHeading_quiet _ h .top [] rfl
  have hx : firstHeadingX doc = .noHeading := by simp [firstHeadingX, hr]
  exact ⟨hx, doc_title_no_heading doc hx⟩

example : docTitle "Just a paragraph for 2\nof two lines.\n\n    fry(1 egg)\n\n  \nSee you.\n".toList = .none :=
  (doc_title_no_heading_quiet _ (by decide +kernel)).2
example : docTitle "\n  \n\n".toList = .none := (doc_title_no_heading_quiet _ (by decide +kernel)).2
example : docTitle [] = .none := (doc_title_no_heading_quiet _ (by decide +kernel)).2
-- a fenced block hides a heading-like line
example : firstHeadingX "```\n# Stew for 2\n```\n".toList = .noHeading := by decide +kernel

/-- **C18c, the negative side.**  (1) no heading ⇒ no title; (2) first heading of level ≥ 2 ⇒ no title; (3) first heading
    with markup ⇒ no title; (4) plain level-1 first heading whose rendered text has no serving split (no accepted phrase
    preceded by white space and followed by white space and a final whole number) ⇒ the title is the whole text and no
    serving count is inferred.  In each case whatever follows the first heading is irrelevant (`doc_title_only_first_heading`). -/
theorem doc_title_none_cases (doc : Str) :
    (firstHeadingX doc = .noHeading → docTitle doc = .none) ∧
    (∀ level t, firstHeading doc = some (level, t) → level ≠ 1 → docTitle doc = .none) ∧
    (∀ level, firstHeading doc = some (level, .markup) → docTitle doc = .none) ∧
    (∀ r, firstHeading doc = some (1, .plain r) → ¬ HasServingSplit r →
      docTitle doc = .unscalable (unescapeEntities (stripStr r))) := by
  refine ⟨doc_title_no_heading doc, fun level t h hl => doc_title_lower_level doc level t h hl,
    fun level h => doc_title_markup doc level h, ?_⟩
  intro r h hno
  have hlt := firstHeading_plain_no_lt h
  have hplain : Plain r [] := ⟨hlt, by intro q hq; cases hq⟩
  have hx : firstHeadingX doc = .heading 1 (.plain r) := by
    simp only [firstHeading] at h
    split at h
    · rename_i l' t' hx
      simp only [Option.some.injEq, Prod.mk.injEq] at h
      rw [hx, h.1, h.2]
    · cases h
  simp only [docTitle, hx]
  exact (headingInfo_unscalable_iff hplain _).mpr ⟨hno, rfl⟩

/-! ## setext headings, single- and multi-line -/

/-- **the setext heading the renderer sees.**  A document that starts with a paragraph of lines `M` (each starting with a
    `safeHead` character, so certainly paragraph text; on one line each) followed by a setext underline: the first heading is
    that paragraph, its text the lines joined (line feeds kept, the last one stripped). -/
theorem rawHeading_setext_first (M : List Str) (under rest : Str) (hne : M ≠ [])
    (hM : ∀ l ∈ M, OneLine l ∧ StartsSafe l) (huline : OneLine under) (hu : isSetextUnderline (under ++ ['\n']) = true) :
    rawHeading (joinLines M ++ under ++ '\n' :: rest) =
      .heading (setextLevel (under ++ ['\n'])) (stripStr (joinLines M)) := by
  have e : joinLines M ++ under ++ '\n' :: rest = joinLines (M ++ [under]) ++ rest := by
    simp [joinLines]
  have hall : ∀ l ∈ M ++ [under], '\n' ∉ l ∧ '\r' ∉ l := by
    intro l hl
    rcases List.mem_append.mp hl with h | h
    · exact ⟨(hM l h).1.no_nl, (hM l h).1.no_cr⟩
    · simp only [List.mem_singleton] at h; subst h; exact ⟨huline.no_nl, huline.no_cr⟩
  have hlines := docLines_joinLines (M ++ [under]) rest hall
  simp only [docLines] at hlines
  rw [rawHeading, e, hlines]
  cases M with
  | nil => exact absurd rfl hne
  | cons m ls =>
    have hprose : ∀ l ∈ (m ++ ['\n']) :: ls.map (· ++ ['\n']), ProseLine l := by
      intro l hl
      simp only [List.mem_cons, List.mem_map] at hl
      rcases hl with rfl | ⟨x, hx, rfl⟩
      · exact (hM m (by simp)).2.proseLine _
      · exact (hM x (by simp [hx])).2.proseLine _
    have e2 : List.map (fun x => x ++ ['\n']) (m :: ls ++ [under]) ++ mdLines (normaliseCrLf rest) =
        (m ++ ['\n']) :: ls.map (· ++ ['\n']) ++ (under ++ ['\n']) :: mdLines (normaliseCrLf rest) := by simp
    rw [e2, findHeading_top_setext _ _ _ _ hprose hu]
    congr 1
    -- the lines start with non-blank characters: `lstrip` changes nothing
    have hl : ((m ++ ['\n']) :: ls.map (· ++ ['\n'])).map lstripStr = (m ++ ['\n']) :: ls.map (· ++ ['\n']) := by
      simp only [List.map_cons, List.map_map, (hM m (by simp)).2.lstrip, List.cons.injEq, true_and]
      apply List.map_congr_left
      intro x hx
      exact (hM x (by simp [hx])).2.lstrip _
    simp only [setextContent, hl]
    simp [joinLines]

/-- **C18c, setext form (single- and multi-line).**  The paragraph `E₁ ⏎ … ⏎ Eₙ ⏎ Tl s1 phrase s2 N` underlined with `=`s,
    then ANY rest: every line starting with a `safeHead` character (certainly paragraph text), the title text
    `J = E₁⏎…⏎Eₙ⏎Tl` (line feeds included) plain with decoded text `D` (soft line breaks stay line feeds, a single space
    before them is dropped): title `D`, serving count `N`. -/
theorem doc_title_setext_documented_form (E : List Str) (Tl D s1 phText s2 under : Str) (ph : List String) (N : Nat) (rest : Str)
    (hE : ∀ l ∈ E, OneLine l ∧ StartsSafe l) (hTl : OneLine Tl) (hTs : StartsSafe Tl)
    (hJ : decodeInline (joinLines E ++ Tl) = some D)
    (hDhead : ∀ c, D.head? = some c → isReSpace c = false)
    (hDlast : ∀ c, D.getLast? = some c → isReSpace c = false)
    (hDto : "to" :: ph ∈ Gen.servingPhrases → ¬ ∃ D₀ w z, D = D₀ ++ [w] ++ z ∧ isReSpace w = true ∧ CiWord "to".toList z)
    (hph : ph ∈ Gen.documentedPhrases) (hcase : CaseVariantOf ph phText) (hphline : OneLine phText)
    (hs1 : BlankRun s1) (hs2 : BlankRun s2)
    (huline : OneLine under) (hu : isSetextUnderline (under ++ ['\n']) = true) (hul : setextLevel (under ++ ['\n']) = 1) :
    docTitle (joinLines E ++ Tl ++ s1 ++ phText ++ s2 ++ natDigits N ++ "\n".toList ++ under ++ "\n".toList ++ rest) =
      .scalable D N (mkEscape D ++ s1) (phText ++ s2) := by
  have hp := documented_phrases_accepted ph hph
  have hwf := (servingPhrases_wf ph hp).2
  have hpt : PhraseText ph phText := CaseVariantOf.phraseText hwf hcase
  have hdig := natDigits_isDigit' N
  have hdne := natDigits_ne_nil N
  have hsuf := documented_suffix_inert N hp hpt hphline hs1 hs2
  have hsufline : OneLine (s1 ++ phText ++ s2 ++ natDigits N) :=
    ((hs1.oneLine.append hphline).append hs2.oneLine).append (digits_oneLine hdig)
  -- the document as lines
  have hdoc : joinLines E ++ Tl ++ s1 ++ phText ++ s2 ++ natDigits N ++ "\n".toList ++ under ++ "\n".toList ++ rest =
      joinLines (E ++ [Tl ++ (s1 ++ phText ++ s2 ++ natDigits N)]) ++ under ++ '\n' :: rest := by
    simp [joinLines]
  have hM : ∀ l ∈ E ++ [Tl ++ (s1 ++ phText ++ s2 ++ natDigits N)], OneLine l ∧ StartsSafe l := by
    intro l hl
    rcases List.mem_append.mp hl with h | h
    · exact hE l h
    · simp only [List.mem_singleton] at h; subst h
      obtain ⟨c, t, rfl, hc⟩ := hTs
      exact ⟨hTl.append hsufline, ⟨c, _, rfl, hc⟩⟩
  have hraw := rawHeading_setext_first (E ++ [Tl ++ (s1 ++ phText ++ s2 ++ natDigits N)]) under rest (by simp) hM huline hu
  -- the heading text: the title lines and the suffix; nothing to strip but the final line feed
  have hjoin : joinLines (E ++ [Tl ++ (s1 ++ phText ++ s2 ++ natDigits N)]) =
      ((joinLines E ++ Tl) ++ (s1 ++ phText ++ s2 ++ natDigits N)) ++ ['\n'] := by
    simp [joinLines]
  have hJhead : ∀ c, ((joinLines E ++ Tl) ++ (s1 ++ phText ++ s2 ++ natDigits N)).head? = some c → isReSpace c = false := by
    intro c hc
    have hsafe : ∀ x, safeHead x = true → isReSpace x = false := by
      intro x hx
      simp only [safeHead, Bool.and_eq_true, Bool.not_eq_true'] at hx
      exact hx.1.1
    cases E with
    | nil =>
      obtain ⟨c', t, rfl, hc'⟩ := hTs
      simp [joinLines] at hc; subst hc; exact hsafe _ hc'
    | cons e E' =>
      obtain ⟨c', t, rfl, hc'⟩ := (hE e (by simp)).2
      simp [joinLines] at hc; subst hc; exact hsafe _ hc'
  have hJlast : ∀ c, ((joinLines E ++ Tl) ++ (s1 ++ phText ++ s2 ++ natDigits N)).getLast? = some c → isReSpace c = false := by
    intro c hc
    have : ((joinLines E ++ Tl) ++ (s1 ++ phText ++ s2)) ++ natDigits N = (joinLines E ++ Tl) ++ (s1 ++ phText ++ s2 ++ natDigits N) := by simp
    rw [← this, getLast?_append_ne _ hdne] at hc
    exact isDigit_not_space (hdig c (List.mem_of_getLast? hc))
  have hstrip : stripStr (joinLines (E ++ [Tl ++ (s1 ++ phText ++ s2 ++ natDigits N)])) =
      (joinLines E ++ Tl) ++ (s1 ++ phText ++ s2 ++ natDigits N) := by
    rw [hjoin, stripStr_append_ws _ ['\n'] (by intro c hc; simp at hc; subst hc; decide), stripStr_of_ends hJhead hJlast]
  -- its inline content
  have hscanJ : scanInline [] (joinLines E ++ Tl) = .ok D false := by
    simp only [decodeInline] at hJ
    split at hJ
    · rename_i d hd; simp only [Option.some.injEq] at hJ; rw [← hJ]; exact hd
    · cases hJ
  have hlastJ : (joinLines E ++ Tl).getLast? ≠ some '\n' := by
    obtain ⟨c, t, rfl, _⟩ := hTs
    rw [getLast?_append_ne _ (List.cons_ne_nil c t)]
    intro e; exact (hTl '\n' (List.mem_of_getLast? e)).1 rfl
  have hscan : scanInline [] ((joinLines E ++ Tl) ++ (s1 ++ phText ++ s2 ++ natDigits N)) =
      .ok (D ++ (s1 ++ phText ++ s2 ++ natDigits N)) false := by
    rw [scanInline_append_inert _ _ _ hlastJ hsuf, hscanJ]; rfl
  rw [docTitle, hdoc, firstHeadingX, hraw, hstrip, hul]
  simp only [inlineClass, hscan]
  exact headingInfo_of_decoded D s1 phText s2 ph N hDhead hDlast hDto hp hpt hphline hs1 hs2

-- the brief's multi-line example: as an instance of the theorem (any rest), and evaluated
example (rest : Str) : docTitle (joinLines ["Grandma's".toList] ++ "chicken soup".toList ++ " ".toList ++ "for".toList ++ " ".toList ++
      natDigits 4 ++ "\n".toList ++ "===".toList ++ "\n".toList ++ rest) =
    .scalable "Grandma's\nchicken soup".toList 4 ("Grandma's\nchicken soup".toList ++ " ".toList) ("for".toList ++ " ".toList) :=
  doc_title_setext_documented_form _ _ "Grandma's\nchicken soup".toList _ _ _ _ ["for"] 4 rest (by decide) (by decide) (by decide)
    (by decide +kernel) (by decide) (by decide) (fun h => absurd h (by decide)) (by decide) (by show CaseVariantWord _ _; decide)
    (by decide) (by decide) (by decide) (by decide) (by decide) (by decide)
-- three lines, an entity, a trailing blank before a line end (dropped by the soft break), "serving" in capitals
example (rest : Str) : docTitle (joinLines ["Tante Am&eacute;lie's ".toList, "famous".toList] ++ "cr\\*pes".toList ++ "  ".toList ++
      "SERVING".toList ++ "\t".toList ++ natDigits 12 ++ "\n".toList ++ "= ".toList ++ "\n".toList ++ rest) =
    .scalable "Tante Amélie's\nfamous\ncr*pes".toList 12 ("Tante Amélie's\nfamous\ncr*pes".toList ++ "  ".toList)
      ("SERVING".toList ++ "\t".toList) :=
  doc_title_setext_documented_form _ _ "Tante Amélie's\nfamous\ncr*pes".toList _ _ _ _ ["serving"] 12 rest (by decide) (by decide)
    (by decide) (by decide +kernel) (by decide) (by decide) (fun h => absurd h (by decide)) (by decide)
    (by show CaseVariantWord _ _; decide) (by decide) (by decide) (by decide) (by decide) (by decide) (by decide)

/-! ## the heading behind blank lines, paragraphs, indented code -/

theorem firstHeadingX_atx_plain_after (Q : List Str) (k : Nat) (body d rest : Str) (hQ : ∀ l ∈ Q, QuietDocLine l)
    (hk1 : 1 ≤ k) (hk6 : k ≤ 6) (hline : OneLine body)
    (hne : body ≠ []) (hh : ∀ c, body.head? = some c → isReSpace c = false)
    (hl : ∀ c, body.getLast? = some c → isReSpace c = false ∧ c ≠ '#')
    (hscan : scanInline [] body = .ok d false) :
    firstHeadingX (joinLines Q ++ (hashes k ++ ' ' :: (body ++ '\n' :: rest))) = .heading k (.plain (mkEscape d)) := by
  rw [firstHeadingX, rawHeading_atx_after Q k body rest hQ hk1 hk6 hline.no_nl hline.no_cr, atxContent_simple body hh hl hne]
  simp [inlineClass, hscan]

/-- **C18c, main theorem, the heading not first in the document**: the same as `doc_title_documented_form` with any quiet
    lines `Q` (blank lines, paragraphs of plain text, indented code) in front of the heading line — "a heading after blank lines /
    paragraphs / code" is still the first heading. -/
theorem doc_title_documented_form_after (Q : List Str) (T D s1 phText s2 : Str) (ph : List String) (N : Nat) (rest : Str)
    (hQ : ∀ l ∈ Q, QuietDocLine l)
    (hT : decodeInline T = some D) (hTline : OneLine T)
    (hThead : ∃ c r, T = c :: r ∧ isReSpace c = false)
    (hDhead : ∀ c, D.head? = some c → isReSpace c = false)
    (hDlast : ∀ c, D.getLast? = some c → isReSpace c = false)
    (hDto : "to" :: ph ∈ Gen.servingPhrases → ¬ ∃ D₀ w z, D = D₀ ++ [w] ++ z ∧ isReSpace w = true ∧ CiWord "to".toList z)
    (hph : ph ∈ Gen.documentedPhrases) (hcase : CaseVariantOf ph phText) (hphline : OneLine phText)
    (hs1 : BlankRun s1) (hs2 : BlankRun s2) :
    docTitle (joinLines Q ++ "# ".toList ++ T ++ s1 ++ phText ++ s2 ++ natDigits N ++ "\n".toList ++ rest) =
      .scalable D N (mkEscape D ++ s1) (phText ++ s2) := by
  have hp := documented_phrases_accepted ph hph
  have hwf := (servingPhrases_wf ph hp).2
  have hpt : PhraseText ph phText := CaseVariantOf.phraseText hwf hcase
  have hdig := natDigits_isDigit' N
  have hdne := natDigits_ne_nil N
  have hsuf := documented_suffix_inert N hp hpt hphline hs1 hs2
  obtain ⟨c0, r0, rfl, hc0⟩ := hThead
  have hscanT : scanInline [] (c0 :: r0) = .ok D false := by
    simp only [decodeInline] at hT
    split at hT
    · rename_i d hd; simp only [Option.some.injEq] at hT; rw [← hT]; exact hd
    · cases hT
  have hlastT : (c0 :: r0).getLast? ≠ some '\n' := by
    intro e; exact (hTline '\n' (List.mem_of_getLast? e)).1 rfl
  have hscan : scanInline [] ((c0 :: r0) ++ (s1 ++ phText ++ s2 ++ natDigits N)) =
      .ok (D ++ (s1 ++ phText ++ s2 ++ natDigits N)) false := by
    rw [scanInline_append_inert _ _ _ hlastT hsuf, hscanT]; rfl
  have hbodyline : OneLine ((c0 :: r0) ++ (s1 ++ phText ++ s2 ++ natDigits N)) :=
    hTline.append (((hs1.oneLine.append hphline).append hs2.oneLine).append (digits_oneLine hdig))
  have hbodylast : ∀ c, ((c0 :: r0) ++ (s1 ++ phText ++ s2 ++ natDigits N)).getLast? = some c →
      isReSpace c = false ∧ c ≠ '#' := by
    intro c hc
    have : ((c0 :: r0) ++ (s1 ++ phText ++ s2)) ++ natDigits N = (c0 :: r0) ++ (s1 ++ phText ++ s2 ++ natDigits N) := by simp
    rw [← this, getLast?_append_ne _ hdne] at hc
    have hd := hdig c (List.mem_of_getLast? hc)
    refine ⟨isDigit_not_space hd, ?_⟩
    intro e; subst e; simp [isDigit] at hd
  have hfirst := firstHeadingX_atx_plain_after Q 1 ((c0 :: r0) ++ (s1 ++ phText ++ s2 ++ natDigits N)) _ rest hQ (by omega) (by omega)
    hbodyline (by simp) (by intro c hc; simp at hc; subst hc; exact hc0) hbodylast hscan
  have hdoc : joinLines Q ++ "# ".toList ++ (c0 :: r0) ++ s1 ++ phText ++ s2 ++ natDigits N ++ "\n".toList ++ rest =
      joinLines Q ++ (hashes 1 ++ ' ' :: (((c0 :: r0) ++ (s1 ++ phText ++ s2 ++ natDigits N)) ++ '\n' :: rest)) := by
    simp [hashes]
  rw [docTitle, hdoc, hfirst]
  exact headingInfo_of_decoded D s1 phText s2 ph N hDhead hDlast hDto hp hpt hphline hs1 hs2

-- an introduction with a brace expression, a blank line, an indented recipe block, blank lines: the heading behind them
example (rest : Str) : docTitle (joinLines ["Needs {2} eggs per person.".toList, [], "    fry(2 eggs)".toList, "  ".toList] ++
      "# ".toList ++ "Pan\\_cakes &amp; syrup".toList ++ " ".toList ++ "Makes".toList ++ " ".toList ++ natDigits 8 ++ "\n".toList ++ rest) =
    .scalable "Pan_cakes & syrup".toList 8 ("Pan_cakes &amp; syrup".toList ++ " ".toList) ("Makes".toList ++ " ".toList) :=
  doc_title_documented_form_after _ _ "Pan_cakes & syrup".toList _ _ _ ["makes"] 8 rest (by decide +kernel) (by decide +kernel) (by decide)
    ⟨'P', _, rfl, by decide⟩ (by decide) (by decide)
    (by
      rintro _ ⟨D₀, w, z, he, _, hz⟩
      match z, hz with
      | [t, o], hz =>
        have h1 := congrArg List.reverse he
        simp only [List.reverse_append, List.reverse_cons, List.reverse_nil, List.nil_append, List.cons_append] at h1
        have : 'p' = o := by
          have := congrArg List.head? h1
          simpa using this
        subst this
        exact absurd hz.2.1 (by decide))
    (by decide) (by show CaseVariantWord _ _; decide) (by decide) (by decide) (by decide)

/-! ## the closing sequence of an ATX heading -/

/-- **C18c, main theorem with a closing sequence**: `# T s1 phrase s2 N <blanks> ##… <blanks>` — the closing `#`s and the
    blanks around them are not part of the heading; title and serving count are as without them. -/
theorem doc_title_documented_form_closing (T D s1 phText s2 w trail : Str) (j : Nat) (ph : List String) (N : Nat) (rest : Str)
    (hT : decodeInline T = some D) (hTline : OneLine T)
    (hThead : ∃ c r, T = c :: r ∧ isReSpace c = false)
    (hDhead : ∀ c, D.head? = some c → isReSpace c = false)
    (hDlast : ∀ c, D.getLast? = some c → isReSpace c = false)
    (hDto : "to" :: ph ∈ Gen.servingPhrases → ¬ ∃ D₀ w z, D = D₀ ++ [w] ++ z ∧ isReSpace w = true ∧ CiWord "to".toList z)
    (hph : ph ∈ Gen.documentedPhrases) (hcase : CaseVariantOf ph phText) (hphline : OneLine phText)
    (hs1 : BlankRun s1) (hs2 : BlankRun s2) (hw : BlankRun w) (hj : 1 ≤ j) (htrail : ∀ c ∈ trail, Blank c) :
    docTitle ("# ".toList ++ T ++ s1 ++ phText ++ s2 ++ natDigits N ++ w ++ hashes j ++ trail ++ "\n".toList ++ rest) =
      .scalable D N (mkEscape D ++ s1) (phText ++ s2) := by
  have hp := documented_phrases_accepted ph hph
  have hwf := (servingPhrases_wf ph hp).2
  have hpt : PhraseText ph phText := CaseVariantOf.phraseText hwf hcase
  have hdig := natDigits_isDigit' N
  have hdne := natDigits_ne_nil N
  have hsuf := documented_suffix_inert N hp hpt hphline hs1 hs2
  obtain ⟨c0, r0, rfl, hc0⟩ := hThead
  have hscanT : scanInline [] (c0 :: r0) = .ok D false := by
    simp only [decodeInline] at hT
    split at hT
    · rename_i d hd; simp only [Option.some.injEq] at hT; rw [← hT]; exact hd
    · cases hT
  have hlastT : (c0 :: r0).getLast? ≠ some '\n' := by
    intro e; exact (hTline '\n' (List.mem_of_getLast? e)).1 rfl
  have hscan : scanInline [] ((c0 :: r0) ++ (s1 ++ phText ++ s2 ++ natDigits N)) =
      .ok (D ++ (s1 ++ phText ++ s2 ++ natDigits N)) false := by
    rw [scanInline_append_inert _ _ _ hlastT hsuf, hscanT]; rfl
  have hXline : OneLine ((c0 :: r0) ++ (s1 ++ phText ++ s2 ++ natDigits N)) :=
    hTline.append (((hs1.oneLine.append hphline).append hs2.oneLine).append (digits_oneLine hdig))
  have htrailline : OneLine trail := fun c hc => (htrail c hc).2
  have hbodyline : OneLine ((c0 :: r0) ++ (s1 ++ phText ++ s2 ++ natDigits N) ++ w ++ hashes j ++ trail) :=
    ((hXline.append hw.oneLine).append (hashes_oneLine j)).append htrailline
  have hXlast : ∀ c, ((c0 :: r0) ++ (s1 ++ phText ++ s2 ++ natDigits N)).getLast? = some c → isReSpace c = false := by
    intro c hc
    have : ((c0 :: r0) ++ (s1 ++ phText ++ s2)) ++ natDigits N = (c0 :: r0) ++ (s1 ++ phText ++ s2 ++ natDigits N) := by simp
    rw [← this, getLast?_append_ne _ hdne] at hc
    exact isDigit_not_space (hdig c (List.mem_of_getLast? hc))
  have hcontent := atxContent_closing ((c0 :: r0) ++ (s1 ++ phText ++ s2 ++ natDigits N)) w trail j (by simp)
    (by intro c hc; simp at hc; subst hc; exact hc0) hXlast hw.spaceRun hj (fun c hc => (htrail c hc).1)
  have hraw := rawHeading_atx_first 1 ((c0 :: r0) ++ (s1 ++ phText ++ s2 ++ natDigits N) ++ w ++ hashes j ++ trail) rest
    (by omega) (by omega) hbodyline.no_nl hbodyline.no_cr
  have hdoc : "# ".toList ++ (c0 :: r0) ++ s1 ++ phText ++ s2 ++ natDigits N ++ w ++ hashes j ++ trail ++ "\n".toList ++ rest =
      hashes 1 ++ ' ' :: (((c0 :: r0) ++ (s1 ++ phText ++ s2 ++ natDigits N) ++ w ++ hashes j ++ trail) ++ '\n' :: rest) := by
    simp [hashes]
  rw [docTitle, hdoc, firstHeadingX, hraw, hcontent]
  simp only [inlineClass, hscan]
  exact headingInfo_of_decoded D s1 phText s2 ph N hDhead hDlast hDto hp hpt hphline hs1 hs2

example (rest : Str) : docTitle ("# ".toList ++ "C\\#".toList ++ " ".toList ++ "serves".toList ++ " ".toList ++ natDigits 3 ++ "  ".toList ++
      hashes 2 ++ " ".toList ++ "\n".toList ++ rest) = .scalable "C#".toList 3 ("C#".toList ++ " ".toList) ("serves".toList ++ " ".toList) :=
  doc_title_documented_form_closing _ "C#".toList _ _ _ _ _ 2 ["serves"] 3 rest (by decide +kernel) (by decide) ⟨'C', _, rfl, by decide⟩
    (by decide) (by decide)
    (by
      rintro _ ⟨D₀, w, z, he, _, hz⟩
      match z, hz with
      | [t, o], hz =>
        have h1 := congrArg List.reverse he
        simp only [List.reverse_append, List.reverse_cons, List.reverse_nil, List.nil_append, List.cons_append] at h1
        have : '#' = o := by
          have := congrArg List.head? h1
          simpa using this
        subst this
        exact absurd hz.2.1 (by decide))
    (by decide) (by show CaseVariantWord _ _; decide) (by decide) (by decide) (by decide) (by decide) (by decide) (by decide)
example : docTitle "# C\\# serves 3  ## \n".toList = .scalable "C#".toList 3 "C# ".toList "serves ".toList := by decide +kernel
-- without white space before them the `#`s belong to the text: no number at the end, no serving count
example : docTitle "# Stew for 2#\n".toList = .unscalable "Stew for 2#".toList := by decide +kernel

end RG.C18
