import RecipeGrid.Model.Compiler
namespace RG.C01
theorem placeholder_trivial : compileString [] = [] := by decide
end RG.C01
