import RecipeGrid.Lemmas.Compiler
/-! C01 — elaboration (name resolution) refines the documented *by-name* meaning of a description.

    The specification (`Spec.*`) never copies a tree and keeps no table of trees: a reference is the pair
    `(statement id, output index)` of the definition its name resolves to.  `embed` is the bridge to the compiler's
    by-copy representation.  `elab_refines_spec` says the compiler computes exactly `embed ∘ Spec.blocks`, with the
    same error at the same position otherwise and no other error; `elab_table` describes the named-outputs table it
    ends with.  Model-only helper lemmas are in `Lemmas/Compiler.lean`. -/
namespace RG.C01

-- ================================================================ the by-name specification

inductive NTree where
  | ingredient (d : SVS) (q : Option Quantity)
  | step (d : SVS) (inputs : List NTree)
  /-- a reference BY NAME to output `idx` of statement `sid` -/
  | nref (sid idx : Nat) (amount : Amount)
deriving Inhabited

structure NStmt where
  block : Nat
  tree : NTree
  /-- `[]` when the statement defines nothing -/
  names : List SVS
  showNames : Bool

inductive SpecErr where
  | redefined (block off : Nat)
  | proportion (block off : Nat)
deriving DecidableEq

/-- the names defined by statement `sid`, numbered from `i` -/
def stmtDefs (sid : Nat) : Nat → List SVS → List (SVS × Nat × Nat)
  | _, [] => []
  | i, n :: ns => (normaliseName n, sid, i) :: stmtDefs sid (i + 1) ns

def definedNamesFrom : Nat → List NStmt → List (SVS × Nat × Nat)
  | _, [] => []
  | sid, s :: ss => stmtDefs sid 0 s.names ++ definedNamesFrom (sid + 1) ss

/-- the output names defined by the statements elaborated so far, in definition order:
    (normalised name, statement id, output index) -/
def definedNames (done : List NStmt) : List (SVS × Nat × Nat) := definedNamesFrom 0 done

/-- the definition a (normalised) name resolves to: "ignoring case and surrounding whitespace" is `==` after
    `normaliseName` -/
def lookup (done : List NStmt) (key : SVS) : Option (Nat × Nat) :=
  ((definedNames done).find? (fun d => d.1 == key)).map (·.2)

/-- a leaf is a reference iff its normalised name was defined by an EARLIER statement -/
def Spec.leaf (done : List NStmt) (block : Nat) (name : AString) (amount : Option AAmount) : Except SpecErr NTree :=
  let n := compileString name
  match lookup done (normaliseName n) with
  | some (sid, idx) => .ok (.nref sid idx (compileAmount amount))
  | none =>
    match amount with
    | some (.prop off ..) => .error (.proportion block off)
    | some (.qty _ v u sp p) => .ok (.ingredient n (some (compileQuantity v u sp p)))
    | none => .ok (.ingredient n none)

mutual
def Spec.expr (done : List NStmt) (block : Nat) : AExpr → Except SpecErr NTree
  | .step name inputs => do
    let ts ← Spec.exprs done block inputs
    pure (.step (compileString name) ts)
  | .ref name amount => Spec.leaf done block name amount
def Spec.exprs (done : List NStmt) (block : Nat) : List AExpr → Except SpecErr (List NTree)
  | [] => .ok []
  | e :: es => do
    let t ← Spec.expr done block e
    let ts ← Spec.exprs done block es
    pure (t :: ts)
end

/-- the single ingredient of a chain of single-input steps -/
def NTree.inferName : NTree → Option SVS
  | .ingredient d _ => some d
  | .step _ [i] => i.inferName
  | _ => none

/-- the first written name (left to right) that is already defined — by an earlier statement or by an earlier name of
    this statement — is rejected -/
def Spec.checkNames (block : Nat) : List SVS → List AString → Except SpecErr Unit
  | _, [] => .ok ()
  | defined, a :: as =>
    let key := normaliseName (compileString a)
    if defined.any (· == key) then .error (.redefined block a.offset)
    else Spec.checkNames block (defined ++ [key]) as

def Spec.stmt (done : List NStmt) (block : Nat) (s : AStmt) : Except SpecErr NStmt := do
  let t ← Spec.expr done block s.expr
  match s.outputs with
  | some (o :: os) => do
    Spec.checkNames block ((definedNames done).map (·.1)) (o :: os)
    pure { block := block, tree := t, names := (o :: os).map compileString, showNames := true }
  | _ =>
    match t.inferName with
    | some n => pure { block := block, tree := t, names := [n], showNames := false }
    | none => pure { block := block, tree := t, names := [], showNames := false }

/-- the statements of one block, each against everything before it; returns all statements so far -/
def Spec.stmts (block : Nat) : List NStmt → List AStmt → Except SpecErr (List NStmt)
  | done, [] => .ok done
  | done, s :: ss => do
    let n ← Spec.stmt done block s
    Spec.stmts block (done ++ [n]) ss

def Spec.blocksFrom : Nat → List NStmt → List (List AStmt) → Except SpecErr (List NStmt)
  | _, done, [] => .ok done
  | i, done, b :: bs => do
    let done' ← Spec.stmts i done b
    Spec.blocksFrom (i + 1) done' bs

/-- the by-name meaning of a description (one list of statements per block) -/
def Spec.blocks (asts : List (List AStmt)) : Except SpecErr (List NStmt) := Spec.blocksFrom 0 [] asts

-- ================================================================ from by-name to by-copy

mutual
/-- `roots[sid]` is the tree already built for statement `sid` -/
def embedTree (roots : List Tree) : NTree → Tree
  | .ingredient d q => .ingredient d q
  | .step d inputs => .step d (embedTrees roots inputs)
  | .nref sid idx a => .reference (roots[sid]?.getD default) idx a
def embedTrees (roots : List Tree) : List NTree → List Tree
  | [] => []
  | t :: ts => embedTree roots t :: embedTrees roots ts
end

def embedStmt (roots : List Tree) (s : NStmt) : Tree :=
  if s.names.isEmpty then embedTree roots s.tree else .sub (embedTree roots s.tree) s.names s.showNames

/-- the root tree of every statement, built in order -/
def rootsOf (ns : List NStmt) : List Tree := ns.foldl (fun roots s => roots ++ [embedStmt roots s]) []

/-- the compiler's representation: one list of root trees per block -/
def embed (nblocks : Nat) (ns : List NStmt) : List (List Tree) :=
  (List.range nblocks).map fun b => ((ns.zip (rootsOf ns)).filter (fun p => p.1.block == b)).map (·.2)

def SpecErr.toCompile : SpecErr → CompileResult
  | .redefined b off => .redefined b off
  | .proportion b off => .proportion b off

-- ---------------------------------------------------------------- the table, by name

mutual
/-- the reference leaves of a tree in source order: (statement id, output index, amount) -/
def NTree.refs : NTree → List (Nat × Nat × Amount)
  | .ingredient .. => []
  | .step _ inputs => NTree.refsList inputs
  | .nref sid idx a => [(sid, idx, a)]
def NTree.refsList : List NTree → List (Nat × Nat × Amount)
  | [] => []
  | t :: ts => t.refs ++ NTree.refsList ts
end

/-- every reference of the program in source order, with the block of the referencing statement -/
def allRefs (ns : List NStmt) : List (Nat × Nat × Amount × Nat) :=
  ns.flatMap fun s => s.tree.refs.map fun r => (r.1, r.2.1, r.2.2, s.block)

/-- what the table must hold for the definition `d`: key, output index, sub recipe, defining block, references -/
def tableEntry (roots : List Tree) (blocks : List Nat) (refs : List (Nat × Nat × Amount × Nat)) (d : SVS × Nat × Nat) :
    SVS × Nat × Tree × Nat × List (Tree × Nat) :=
  (d.1, d.2.2, roots[d.2.1]?.getD default, blocks[d.2.1]?.getD 0,
   (refs.filter (fun r => r.1 == d.2.1 && r.2.1 == d.2.2)).map
     fun r => (Tree.reference (roots[d.2.1]?.getD default) d.2.2 r.2.2.1, r.2.2.2))

def view (o : NamedOutput) : SVS × Nat × Tree × Nat × List (Tree × Nat) := (o.key, o.idx, o.sub, o.defBlock, o.refs)


-- ================================================================ proofs: structure of `definedNames`, `rootsOf`

theorem mem_stmtDefs (sid : Nat) (d : SVS × Nat × Nat) : ∀ (names : List SVS) (i : Nat),
    d ∈ stmtDefs sid i names ↔ d.2.1 = sid ∧ i ≤ d.2.2 ∧ (names[d.2.2 - i]?).map normaliseName = some d.1
  | [], i => by simp [stmtDefs]
  | n :: ns, i => by
    obtain ⟨k, s, j⟩ := d
    simp only [stmtDefs, List.mem_cons, mem_stmtDefs sid _ ns (i + 1)]
    constructor
    · rintro (h | ⟨h1, h2, h3⟩)
      · cases h; simp
      · refine ⟨h1, by omega, ?_⟩
        have : j - i = (j - (i + 1)) + 1 := by omega
        simpa [this] using h3
    · rintro ⟨h1, h2, h3⟩
      by_cases hj : j = i
      · left; subst hj; subst h1; simp at h3; simp [h3]
      · right
        refine ⟨h1, by omega, ?_⟩
        have : j - i = (j - (i + 1)) + 1 := by omega
        simpa [this] using h3

theorem mem_definedNamesFrom (d : SVS × Nat × Nat) : ∀ (done : List NStmt) (k : Nat),
    d ∈ definedNamesFrom k done ↔
      k ≤ d.2.1 ∧ ∃ s, done[d.2.1 - k]? = some s ∧ (s.names[d.2.2]?).map normaliseName = some d.1
  | [], k => by simp [definedNamesFrom]
  | s :: ss, k => by
    simp only [definedNamesFrom, List.mem_append, mem_stmtDefs, mem_definedNamesFrom d ss (k + 1)]
    constructor
    · rintro (⟨h1, _, h3⟩ | ⟨h1, s', h2, h3⟩)
      · exact ⟨by omega, s, by simp [h1], by simpa using h3⟩
      · refine ⟨by omega, s', ?_, h3⟩
        have : d.2.1 - k = (d.2.1 - (k + 1)) + 1 := by omega
        simpa [this] using h2
    · rintro ⟨h1, s', h2, h3⟩
      by_cases hk : d.2.1 = k
      · left
        simp [hk] at h2
        subst h2
        exact ⟨hk, Nat.zero_le _, by simpa using h3⟩
      · right
        refine ⟨by omega, s', ?_, h3⟩
        have : d.2.1 - k = (d.2.1 - (k + 1)) + 1 := by omega
        simpa [this] using h2

/-- `d` is a defined name iff statement `d.2.1` exists and its output `d.2.2` has the normalised name `d.1` -/
theorem mem_definedNames (done : List NStmt) (d : SVS × Nat × Nat) :
    d ∈ definedNames done ↔ ∃ s, done[d.2.1]? = some s ∧ (s.names[d.2.2]?).map normaliseName = some d.1 := by
  simp [definedNames, mem_definedNamesFrom]

theorem definedNames_sid_lt {done : List NStmt} {d : SVS × Nat × Nat} (h : d ∈ definedNames done) :
    d.2.1 < done.length := by
  obtain ⟨s, hs, _⟩ := (mem_definedNames done d).mp h
  exact (List.getElem?_eq_some_iff.mp hs).1

/-- a (statement id, output index) pair names one definition -/
theorem definedNames_inj {done : List NStmt} {d d' : SVS × Nat × Nat} (h : d ∈ definedNames done)
    (h' : d' ∈ definedNames done) (he : d.2 = d'.2) : d = d' := by
  obtain ⟨s, hs, hn⟩ := (mem_definedNames done d).mp h
  obtain ⟨s', hs', hn'⟩ := (mem_definedNames done d').mp h'
  obtain ⟨k, i, j⟩ := d
  obtain ⟨k', i', j'⟩ := d'
  simp only [Prod.mk.injEq] at he
  obtain ⟨rfl, rfl⟩ := he
  simp only at hs hs' hn hn'
  rw [hs] at hs'
  cases hs'
  rw [hn] at hn'
  cases hn'
  rfl

theorem definedNamesFrom_append : ∀ (a b : List NStmt) (k : Nat),
    definedNamesFrom k (a ++ b) = definedNamesFrom k a ++ definedNamesFrom (k + a.length) b
  | [], b, k => by simp [definedNamesFrom]
  | s :: a, b, k => by
    simp only [List.cons_append, definedNamesFrom, definedNamesFrom_append a b (k + 1), List.append_assoc,
      List.length_cons]
    congr 3
    omega

theorem definedNames_snoc (done : List NStmt) (s : NStmt) :
    definedNames (done ++ [s]) = definedNames done ++ stmtDefs done.length 0 s.names := by
  simp [definedNames, definedNamesFrom_append, definedNamesFrom]

theorem rootsOf_snoc (done : List NStmt) (s : NStmt) :
    rootsOf (done ++ [s]) = rootsOf done ++ [embedStmt (rootsOf done) s] := by
  simp [rootsOf, List.foldl_append]

theorem rootsOf_length (done : List NStmt) : (rootsOf done).length = done.length := by
  have : ∀ (ns : List NStmt) (acc : List Tree),
      (ns.foldl (fun roots s => roots ++ [embedStmt roots s]) acc).length = acc.length + ns.length := by
    intro ns
    induction ns with
    | nil => simp
    | cons n ns ih => intro acc; simp [ih]; omega
  simpa [rootsOf] using this done []

theorem allRefs_snoc (done : List NStmt) (s : NStmt) :
    allRefs (done ++ [s]) = allRefs done ++ s.tree.refs.map fun r => (r.1, r.2.1, r.2.2, s.block) := by
  simp [allRefs]


-- ================================================================ proofs: the simulation

/-- no two defined names are the same name -/
def KeysUnique (defs : List (SVS × Nat × Nat)) : Prop :=
  ∀ d ∈ defs, ∀ d' ∈ defs, (d.1 == d'.1) = true → d = d'

/-- compiler result `c` and specification result `s` agree: related values, or the same error at the same place -/
def Sim {α β : Type} (block : Nat) (R : α → β → Prop) (c : Except StmtErr α) (s : Except SpecErr β) : Prop :=
  match s with
  | .ok b => ∃ a, c = .ok a ∧ R a b
  | .error e => ∃ e', c = .error e' ∧ liftErr block e' = e.toCompile

theorem Sim.bind {α β α' β' : Type} {block : Nat} {R : α → β → Prop} {R' : α' → β' → Prop}
    {c : Except StmtErr α} {s : Except SpecErr β} {f : α → Except StmtErr α'} {g : β → Except SpecErr β'}
    (h : Sim block R c s) (hf : ∀ a b, s = .ok b → R a b → Sim block R' (f a) (g b)) :
    Sim block R' (c >>= f) (s >>= g) := by
  cases s with
  | error e => obtain ⟨e', hc, he⟩ := h; subst hc; exact ⟨e', rfl, he⟩
  | ok b => obtain ⟨a, hc, hr⟩ := h; subst hc; exact hf a b rfl hr

/-- the references of one statement's expression, tagged with the statement's block -/
def tagRefs (block : Nat) (rs : List (Nat × Nat × Amount)) : List (Nat × Nat × Amount × Nat) :=
  rs.map fun r => (r.1, r.2.1, r.2.2, block)

/-- the table is the by-name table with references `refs` recorded so far -/
def TableIs (roots : List Tree) (blocks : List Nat) (defs : List (SVS × Nat × Nat))
    (refs : List (Nat × Nat × Amount × Nat)) (st : CState) : Prop :=
  st.outputs.map view = defs.map (tableEntry roots blocks refs)

theorem TableIs.find? {roots blocks defs refs st} (h : TableIs roots blocks defs refs st) (key : SVS) :
    (st.find? key).map view = (defs.find? (fun d => d.1 == key)).map (tableEntry roots blocks refs) :=
  find?_of_map_eq view (tableEntry roots blocks refs) (fun v => v.1 == key) st.outputs defs h

theorem TableIs.isSome {roots blocks defs refs st} (h : TableIs roots blocks defs refs st) (key : SVS) :
    (st.find? key).isSome = (defs.map (·.1)).any (· == key) := by
  rw [CState.find?_isSome]
  have := any_of_map_eq view (tableEntry roots blocks refs) (fun v => v.1 == key) st.outputs defs h
  simp only [List.any_map, Function.comp_def]
  exact this

/-- recording one more reference to the definition `d` that `key` resolves to -/
theorem TableIs.addRef {done roots blocks refs st} (hU : KeysUnique (definedNames done))
    (h : TableIs roots blocks (definedNames done) refs st) (key : SVS) (d : SVS × Nat × Nat)
    (hd : (definedNames done).find? (fun d => d.1 == key) = some d) (a : Amount) (block : Nat) :
    TableIs roots blocks (definedNames done) (refs ++ [(d.2.1, d.2.2, a, block)])
      { st with outputs := st.outputs.map fun o =>
          if o.key == key then
            { o with refs := o.refs ++ [(Tree.reference (roots[d.2.1]?.getD default) d.2.2 a, block)] }
          else o } := by
  have hdk : (d.1 == key) = true := by simpa using List.find?_some hd
  have hdm : d ∈ definedNames done := List.mem_of_find?_eq_some hd
  unfold TableIs at *
  let updV : SVS × Nat × Tree × Nat × List (Tree × Nat) → SVS × Nat × Tree × Nat × List (Tree × Nat) := fun v =>
    if v.1 == key then
      (v.1, v.2.1, v.2.2.1, v.2.2.2.1, v.2.2.2.2 ++ [(Tree.reference (roots[d.2.1]?.getD default) d.2.2 a, block)])
    else v
  have h1 : ∀ o : NamedOutput, view (if o.key == key then
            { o with refs := o.refs ++ [(Tree.reference (roots[d.2.1]?.getD default) d.2.2 a, block)] }
          else o) = updV (view o) := by
    intro o
    simp only [updV, view]
    split <;> rfl
  simp only [List.map_map, Function.comp_def, h1]
  have h2 : st.outputs.map (fun o => updV (view o)) = (st.outputs.map view).map updV := by
    simp [List.map_map, Function.comp_def]
  rw [h2, h, List.map_map]
  apply List.map_congr_left
  intro d' hd'
  simp only [Function.comp_def, updV, tableEntry]
  by_cases hk : (d'.1 == key) = true
  · have : d' = d := by
      apply hU d' hd' d hdm
      exact Svs.beq_trans hk (by rw [Svs.beq_symm]; exact hdk)
    subst this
    simp [hk, List.filter_append]
  · have hne : ¬ (d.2.1 = d'.2.1 ∧ d.2.2 = d'.2.2) := by
      rintro ⟨e1, e2⟩
      have : d = d' := definedNames_inj hdm hd' (Prod.ext e1 e2)
      subst this
      exact hk hdk
    simp only [hk]
    simp only [Bool.false_eq_true, if_false, List.filter_append, Prod.mk.injEq, true_and]
    have : (List.filter (fun r : Nat × Nat × Amount × Nat => r.1 == d'.2.1 && r.2.1 == d'.2.2)
        [(d.2.1, d.2.2, a, block)]) = [] := by
      simp only [List.filter_cons, List.filter_nil]
      split
      · rename_i hc
        simp only [Bool.and_eq_true, beq_iff_eq] at hc
        exact absurd hc hne
      · rfl
    rw [this, List.append_nil]

def ExprRel (roots : List Tree) (blocks : List Nat) (done : List NStmt) (refs : List (Nat × Nat × Amount × Nat))
    (block : Nat) (p : Tree × CState) (nt : NTree) : Prop :=
  p.1 = embedTree roots nt ∧ TableIs roots blocks (definedNames done) (refs ++ tagRefs block nt.refs) p.2

def ExprsRel (roots : List Tree) (blocks : List Nat) (done : List NStmt) (refs : List (Nat × Nat × Amount × Nat))
    (block : Nat) (p : List Tree × CState) (nts : List NTree) : Prop :=
  p.1 = embedTrees roots nts ∧ TableIs roots blocks (definedNames done) (refs ++ tagRefs block (NTree.refsList nts)) p.2

theorem leaf_sim {done roots blocks block} (hU : KeysUnique (definedNames done)) (name : AString)
    (amount : Option AAmount) (st : CState) (refs : List (Nat × Nat × Amount × Nat))
    (hT : TableIs roots blocks (definedNames done) refs st) :
    Sim block (ExprRel roots blocks done refs block) (compileExpr block st (.ref name amount))
      (Spec.leaf done block name amount) := by
  have hf := hT.find? (normaliseName (compileString name))
  unfold Spec.leaf lookup
  simp only [compileExpr]
  cases hd : (definedNames done).find? (fun d => d.1 == normaliseName (compileString name)) with
  | none =>
    rw [hd] at hf
    have hn : st.find? (normaliseName (compileString name)) = none := by simpa using hf
    simp only [hn, Option.map_none]
    cases amount with
    | none => exact ⟨_, rfl, rfl, by simpa [tagRefs, NTree.refs] using hT⟩
    | some am =>
      cases am with
      | qty o v u sp p => exact ⟨_, rfl, rfl, by simpa [tagRefs, NTree.refs] using hT⟩
      | prop off v pc w p => exact ⟨_, rfl, rfl⟩
  | some d =>
    rw [hd] at hf
    cases ho : st.find? (normaliseName (compileString name)) with
    | none => rw [ho] at hf; simp at hf
    | some out =>
      rw [ho] at hf
      simp only [Option.map_some, Option.some.injEq] at hf
      have hsub : out.sub = roots[d.2.1]?.getD default := by
        have := congrArg (fun v => v.2.2.1) hf; simpa [view, tableEntry] using this
      have hidx : out.idx = d.2.2 := by
        have := congrArg (fun v => v.2.1) hf; simpa [view, tableEntry] using this
      simp only [Option.map_some]
      refine ⟨_, rfl, ?_, ?_⟩
      · simp [embedTree, hsub, hidx]
      · have := TableIs.addRef hU hT _ d hd (compileAmount amount) block
        simpa [tagRefs, NTree.refs, hsub, hidx] using this

mutual
theorem expr_sim {done roots blocks block} (hU : KeysUnique (definedNames done)) :
    ∀ (e : AExpr) (st : CState) (refs : List (Nat × Nat × Amount × Nat)),
      TableIs roots blocks (definedNames done) refs st →
      Sim block (ExprRel roots blocks done refs block) (compileExpr block st e) (Spec.expr done block e)
  | .ref name amount, st, refs, hT => by
    rw [Spec.expr]; exact leaf_sim hU name amount st refs hT
  | .step name inputs, st, refs, hT => by
    rw [compileExpr, Spec.expr]
    refine Sim.bind (exprs_sim hU inputs st refs hT) ?_
    rintro ⟨ts, st'⟩ nts _ ⟨h1, h2⟩
    exact ⟨_, rfl, by simp only [embedTree]; rw [← h1], by simpa [NTree.refs] using h2⟩
theorem exprs_sim {done roots blocks block} (hU : KeysUnique (definedNames done)) :
    ∀ (es : List AExpr) (st : CState) (refs : List (Nat × Nat × Amount × Nat)),
      TableIs roots blocks (definedNames done) refs st →
      Sim block (ExprsRel roots blocks done refs block) (compileExprs block st es) (Spec.exprs done block es)
  | [], st, refs, hT => by
    rw [compileExprs, Spec.exprs]
    exact ⟨_, rfl, rfl, by simpa [tagRefs, NTree.refsList] using hT⟩
  | e :: es, st, refs, hT => by
    rw [compileExprs, Spec.exprs]
    refine Sim.bind (expr_sim hU e st refs hT) ?_
    rintro ⟨t, st1⟩ nt _ ⟨h1, h2⟩
    refine Sim.bind (exprs_sim hU es st1 _ h2) ?_
    rintro ⟨ts, st2⟩ nts _ ⟨h3, h4⟩
    refine ⟨_, rfl, ?_, ?_⟩
    · simp only [embedTrees]; rw [← h1, ← h3]
    · simpa [tagRefs, NTree.refsList, List.append_assoc] using h4
end


-- ---------------------------------------------------------------- facts about the specification alone

theorem Spec.leaf_def (done : List NStmt) (block : Nat) (name : AString) (amount : Option AAmount) :
    Spec.leaf done block name amount =
      match lookup done (normaliseName (compileString name)) with
      | some (sid, idx) => .ok (.nref sid idx (compileAmount amount))
      | none =>
        match amount with
        | some (.prop off ..) => .error (.proportion block off)
        | some (.qty _ v u sp p) => .ok (.ingredient (compileString name) (some (compileQuantity v u sp p)))
        | none => .ok (.ingredient (compileString name) none) := rfl

theorem lookup_some {done : List NStmt} {key : SVS} {sid idx : Nat} (h : lookup done key = some (sid, idx)) :
    ∃ d ∈ definedNames done, (d.1 == key) = true ∧ d.2 = (sid, idx) ∧
      (definedNames done).find? (fun d => d.1 == key) = some d := by
  unfold lookup at h
  cases hd : (definedNames done).find? (fun d => d.1 == key) with
  | none => rw [hd] at h; cases h
  | some d =>
    rw [hd] at h
    exact ⟨d, List.mem_of_find?_eq_some hd, by simpa using List.find?_some hd, by simpa using h, rfl⟩

theorem lookup_none {done : List NStmt} {key : SVS} :
    lookup done key = none ↔ ((definedNames done).map (·.1)).any (· == key) = false := by
  unfold lookup
  simp only [Option.map_eq_none_iff, List.find?_eq_none, List.any_map, List.any_eq_false, Function.comp_def]

mutual
/-- references point to earlier statements -/
theorem refs_scoped {done : List NStmt} {block : Nat} : ∀ (e : AExpr) (nt : NTree),
    Spec.expr done block e = .ok nt → ∀ r ∈ nt.refs, r.1 < done.length
  | .ref name amount, nt, h => by
    rw [Spec.expr, Spec.leaf_def] at h
    cases hl : lookup done (normaliseName (compileString name)) with
    | some p =>
      obtain ⟨sid, idx⟩ := p
      rw [hl] at h
      simp only [Except.ok.injEq] at h
      subst h
      obtain ⟨d, hd, _, he, _⟩ := lookup_some hl
      intro r hr
      simp only [NTree.refs, List.mem_singleton] at hr
      subst hr
      have := definedNames_sid_lt hd
      rw [he] at this
      exact this
    | none =>
      rw [hl] at h
      cases amount with
      | none => simp only [Except.ok.injEq] at h; subst h; simp [NTree.refs]
      | some am =>
        cases am with
        | qty o v u sp p => simp only [Except.ok.injEq] at h; subst h; simp [NTree.refs]
        | prop off v pc w p => cases h
  | .step name inputs, nt, h => by
    rw [Spec.expr] at h
    cases hs : Spec.exprs done block inputs with
    | error e => rw [hs] at h; cases h
    | ok ts =>
      rw [hs] at h
      have : nt = .step (compileString name) ts := by cases h; rfl
      subst this
      simpa [NTree.refs] using refsList_scoped inputs ts hs
theorem refsList_scoped {done : List NStmt} {block : Nat} : ∀ (es : List AExpr) (nts : List NTree),
    Spec.exprs done block es = .ok nts → ∀ r ∈ NTree.refsList nts, r.1 < done.length
  | [], nts, h => by
    rw [Spec.exprs] at h
    cases h
    simp [NTree.refsList]
  | e :: es, nts, h => by
    rw [Spec.exprs] at h
    cases h1 : Spec.expr done block e with
    | error x => rw [h1] at h; cases h
    | ok t =>
      rw [h1] at h
      cases h2 : Spec.exprs done block es with
      | error x => rw [h2] at h; cases h
      | ok ts =>
        rw [h2] at h
        have : nts = t :: ts := by cases h; rfl
        subst this
        intro r hr
        simp only [NTree.refsList, List.mem_append] at hr
        cases hr with
        | inl hr => exact refs_scoped e t h1 r hr
        | inr hr => exact refsList_scoped es ts h2 r hr
end

mutual
/-- an inferred name is the name of an ingredient, hence not a defined name -/
theorem inferName_fresh {done : List NStmt} {block : Nat} : ∀ (e : AExpr) (nt : NTree) (n : SVS),
    Spec.expr done block e = .ok nt → nt.inferName = some n → lookup done (normaliseName n) = none
  | .ref name amount, nt, n, h, hn => by
    rw [Spec.expr, Spec.leaf_def] at h
    cases hl : lookup done (normaliseName (compileString name)) with
    | some p =>
      rw [hl] at h
      simp only [Except.ok.injEq] at h
      subst h
      simp [NTree.inferName] at hn
    | none =>
      rw [hl] at h
      cases amount with
      | none =>
        simp only [Except.ok.injEq] at h; subst h
        simp only [NTree.inferName, Option.some.injEq] at hn
        subst hn; exact hl
      | some am =>
        cases am with
        | qty o v u sp p =>
          simp only [Except.ok.injEq] at h; subst h
          simp only [NTree.inferName, Option.some.injEq] at hn
          subst hn; exact hl
        | prop off v pc w p => cases h
  | .step name inputs, nt, n, h, hn => by
    rw [Spec.expr] at h
    cases hs : Spec.exprs done block inputs with
    | error e => rw [hs] at h; cases h
    | ok ts =>
      rw [hs] at h
      have : nt = .step (compileString name) ts := by cases h; rfl
      subst this
      match ts, hs, hn with
      | [i], hs, hn =>
        simp only [NTree.inferName] at hn
        exact inferNames_fresh inputs i n hs hn
      | [], _, hn => simp [NTree.inferName] at hn
      | _ :: _ :: _, _, hn => simp [NTree.inferName] at hn
theorem inferNames_fresh {done : List NStmt} {block : Nat} : ∀ (es : List AExpr) (i : NTree) (n : SVS),
    Spec.exprs done block es = .ok [i] → i.inferName = some n → lookup done (normaliseName n) = none
  | [], i, n, h, _ => by rw [Spec.exprs] at h; cases h
  | e :: es, i, n, h, hn => by
    rw [Spec.exprs] at h
    cases h1 : Spec.expr done block e with
    | error x => rw [h1] at h; cases h
    | ok t =>
      rw [h1] at h
      cases h2 : Spec.exprs done block es with
      | error x => rw [h2] at h; cases h
      | ok ts =>
        rw [h2] at h
        have : [i] = t :: ts := by cases h; rfl
        cases this
        exact inferName_fresh e i n h1 hn
end

theorem inferOutputName_embed (roots : List Tree) : ∀ nt : NTree, inferOutputName (embedTree roots nt) = nt.inferName
  | .ingredient d q => by simp [embedTree, inferOutputName, NTree.inferName]
  | .nref .. => by simp [embedTree, inferOutputName, NTree.inferName]
  | .step d [] => by simp [embedTree, embedTrees, inferOutputName, NTree.inferName]
  | .step d [i] => by
    simp [embedTree, embedTrees, inferOutputName, NTree.inferName, inferOutputName_embed roots i]
  | .step d (a :: b :: c) => by simp [embedTree, embedTrees, inferOutputName, NTree.inferName]

theorem KeysUnique.snoc {L : List (SVS × Nat × Nat)} (hU : KeysUnique L) (d : SVS × Nat × Nat)
    (hf : (L.map (·.1)).any (· == d.1) = false) : KeysUnique (L ++ [d]) := by
  have hf' : ∀ x ∈ L, (x.1 == d.1) = false := by
    intro x hx
    simp only [List.any_map, List.any_eq_false, Function.comp_def] at hf
    simpa using hf x hx
  intro a ha b hb hab
  simp only [List.mem_append, List.mem_singleton] at ha hb
  rcases ha with ha | ha <;> rcases hb with hb | hb
  · exact hU a ha b hb hab
  · subst hb; rw [hf' a ha] at hab; cases hab
  · subst ha; rw [Svs.beq_symm, hf' b hb] at hab; cases hab
  · rw [ha, hb]

theorem checkNames_unique (block sid : Nat) : ∀ (rest : List AString) (i : Nat) (L : List (SVS × Nat × Nat)),
    Spec.checkNames block (L.map (·.1)) rest = .ok () → KeysUnique L →
    KeysUnique (L ++ stmtDefs sid i (rest.map compileString))
  | [], i, L, _, hU => by simpa [stmtDefs] using hU
  | a :: rest, i, L, h, hU => by
    rw [Spec.checkNames] at h
    split at h
    · cases h
    · rename_i hf
      have hf' : (L.map (·.1)).any (· == normaliseName (compileString a)) = false := by simpa using hf
      have := checkNames_unique block sid rest (i + 1) (L ++ [(normaliseName (compileString a), sid, i)])
        (by simpa using h) (hU.snoc _ hf')
      simpa [stmtDefs, List.append_assoc] using this


-- ---------------------------------------------------------------- statements

theorem TableIs.rebase {roots blocks defs refs st} (h : TableIs roots blocks defs refs st) (x : List Tree)
    (y : List Nat) (hr : ∀ d ∈ defs, d.2.1 < roots.length) (hb : blocks.length = roots.length) :
    TableIs (roots ++ x) (blocks ++ y) defs refs st := by
  unfold TableIs at *
  rw [h]
  apply List.map_congr_left
  intro d hd
  have h1 : (roots ++ x)[d.2.1]? = roots[d.2.1]? := List.getElem?_append_left (hr d hd)
  have h2 : (blocks ++ y)[d.2.1]? = blocks[d.2.1]? := List.getElem?_append_left (hb ▸ hr d hd)
  simp only [tableEntry, h1, h2]

theorem TableIs.snoc {roots blocks L refs st} (h : TableIs roots blocks L refs st) (o : NamedOutput)
    (d : SVS × Nat × Nat) (ho : view o = tableEntry roots blocks refs d) :
    TableIs roots blocks (L ++ [d]) refs { st with outputs := st.outputs ++ [o] } := by
  unfold TableIs at *
  simp [h, ho]

theorem drop_cons_getElem? {α : Type} {l : List α} {i : Nat} {a : α} {rest : List α} (h : l.drop i = a :: rest) :
    l[i]? = some a ∧ l.drop (i + 1) = rest := by
  constructor
  · have := List.getElem?_drop (xs := l) (i := i) (j := 0)
    rw [h] at this
    simpa using this.symm
  · have : l.drop (i + 1) = (l.drop i).drop 1 := by rw [List.drop_drop]
    rw [this, h]; rfl

theorem register_sim {roots blocks refs block sub unwrap sid} (l : List AString)
    (hE : ∀ k j, tableEntry roots blocks refs (k, sid, j) = (k, j, sub, block, [])) :
    ∀ (rest : List AString) (i : Nat) (st : CState) (L : List (SVS × Nat × Nat)),
      l.drop i = rest → TableIs roots blocks L refs st →
      Sim block (fun st' _ => TableIs roots blocks (L ++ stmtDefs sid i (rest.map compileString)) refs st')
        (registerOutputs block sub unwrap (some l) st i (rest.map compileString))
        (Spec.checkNames block (L.map (·.1)) rest)
  | [], i, st, L, _, hT => by
    rw [Spec.checkNames]
    exact ⟨st, by simp [registerOutputs], by simpa [stmtDefs] using hT⟩
  | a :: rest, i, st, L, hl, hT => by
    obtain ⟨hla, hlr⟩ := drop_cons_getElem? hl
    have hs := hT.isSome (normaliseName (compileString a))
    rw [Spec.checkNames]
    simp only [List.map_cons]
    cases hany : (L.map (·.1)).any (· == normaliseName (compileString a)) with
    | true =>
      rw [hany] at hs
      simp only [if_true]
      exact ⟨_, registerOutputs_dup block sub unwrap l a st i _ _ hs hla, rfl⟩
    | false =>
      rw [hany] at hs
      simp only [Bool.false_eq_true, if_false]
      rw [registerOutputs_fresh block sub unwrap (some l) st i _ _ hs]
      have hT' := hT.snoc { key := normaliseName (compileString a), name := compileString a, defBlock := block, sub := sub,
                            idx := i, refs := [], unwrap := unwrap } (normaliseName (compileString a), sid, i)
                    (by rw [hE]; rfl)
      have := register_sim (unwrap := unwrap) l hE rest (i + 1) _ _ hlr hT'
      simpa [stmtDefs, List.append_assoc] using this

/-- the compiler state after the statements `done` -/
structure Inv (st : CState) (done : List NStmt) : Prop where
  table : TableIs (rootsOf done) (done.map (·.block)) (definedNames done) (allRefs done) st
  uniq : KeysUnique (definedNames done)
  inScope : ∀ r ∈ allRefs done, r.1 < done.length

theorem Inv.init : Inv {} [] :=
  ⟨rfl, by intro d hd; simp [definedNames, definedNamesFrom] at hd, by intro r hr; simp [allRefs] at hr⟩

/-- what is common to the three ways of naming a statement whose expression has been elaborated -/
theorem stmt_key {st st1 : CState} {done : List NStmt} {block : Nat} {nt : NTree} (hI : Inv st done)
    (hT1 : TableIs (rootsOf done) (done.map (·.block)) (definedNames done) (allRefs done ++ tagRefs block nt.refs) st1)
    (hsc : ∀ r ∈ nt.refs, r.1 < done.length) (names : List SVS) (sh : Bool) :
    let ns : NStmt := { block := block, tree := nt, names := names, showNames := sh }
    TableIs (rootsOf (done ++ [ns])) ((done ++ [ns]).map (·.block)) (definedNames done) (allRefs (done ++ [ns])) st1 ∧
    (∀ r ∈ allRefs (done ++ [ns]), r.1 < (done ++ [ns]).length) ∧
    (∀ k j, tableEntry (rootsOf (done ++ [ns])) ((done ++ [ns]).map (·.block)) (allRefs (done ++ [ns]))
        (k, done.length, j) = (k, j, embedStmt (rootsOf done) ns, block, [])) := by
  intro ns
  have hsc' : ∀ r ∈ allRefs (done ++ [ns]), r.1 < done.length := by
    intro r hr
    rw [allRefs_snoc, List.mem_append] at hr
    cases hr with
    | inl hr => exact hI.inScope r hr
    | inr hr =>
      simp only [List.mem_map] at hr
      obtain ⟨r', hr', rfl⟩ := hr
      exact hsc r' hr'
  refine ⟨?_, ?_, ?_⟩
  · rw [rootsOf_snoc, List.map_append, allRefs_snoc]
    exact hT1.rebase _ _ (fun d hd => by rw [rootsOf_length]; exact definedNames_sid_lt hd)
      (by rw [rootsOf_length, List.length_map])
  · intro r hr
    have := hsc' r hr
    simp only [List.length_append, List.length_singleton]
    omega
  · intro k j
    have h1 : (rootsOf (done ++ [ns]))[done.length]? = some (embedStmt (rootsOf done) ns) := by
      rw [rootsOf_snoc, List.getElem?_append_right (by rw [rootsOf_length]; exact Nat.le_refl _), rootsOf_length]
      simp
    have h2 : ((done ++ [ns]).map (·.block))[done.length]? = some block := by
      rw [List.map_append, List.getElem?_append_right (by simp)]
      simp [ns]
    have h3 : (allRefs (done ++ [ns])).filter (fun r => r.1 == done.length && r.2.1 == j) = [] := by
      rw [List.filter_eq_nil_iff]
      intro r hr
      have := hsc' r hr
      simp only [Bool.and_eq_true, beq_iff_eq]
      omega
    simp only [tableEntry, h1, h2, h3, Option.getD_some, List.map_nil]

/-- the statement relation: the tree is the embedded statement, and the invariant holds one statement later -/
def StmtRel (done : List NStmt) (block : Nat) (p : Tree × CState) (ns : NStmt) : Prop :=
  p.1 = embedStmt (rootsOf done) ns ∧ Inv p.2 (done ++ [ns]) ∧ ns.block = block

/-- a statement without written names -/
theorem infer_sim {st st1 : CState} {done : List NStmt} {block : Nat} {nt : NTree} (hI : Inv st done)
    (hT1 : TableIs (rootsOf done) (done.map (·.block)) (definedNames done) (allRefs done ++ tagRefs block nt.refs) st1)
    (hsc : ∀ r ∈ nt.refs, r.1 < done.length)
    (hfresh : ∀ n, nt.inferName = some n → lookup done (normaliseName n) = none)
    (asts : Option (List AString)) (unwrap : Bool) :
    Sim block (StmtRel done block)
      (match inferOutputName (embedTree (rootsOf done) nt) with
       | some n =>
         (registerOutputs block (.sub (embedTree (rootsOf done) nt) [n] false) unwrap asts st1 0 [n]) >>= fun st2 =>
           .ok (.sub (embedTree (rootsOf done) nt) [n] false, st2)
       | none => .ok (embedTree (rootsOf done) nt, st1))
      (match nt.inferName with
       | some n => pure { block := block, tree := nt, names := [n], showNames := false }
       | none => pure { block := block, tree := nt, names := [], showNames := false }) := by
  rw [inferOutputName_embed]
  cases hn : nt.inferName with
  | none =>
    obtain ⟨k1, k2, _⟩ := stmt_key hI hT1 hsc [] false
    refine ⟨_, rfl, rfl, ⟨?_, ?_, k2⟩, rfl⟩
    · rw [definedNames_snoc]; simpa [stmtDefs] using k1
    · rw [definedNames_snoc]; simpa [stmtDefs] using hI.uniq
  | some n =>
    obtain ⟨k1, k2, k3⟩ := stmt_key hI hT1 hsc [n] false
    have hl := lookup_none.mp (hfresh n hn)
    have hs : (st1.find? (normaliseName n)).isSome = false := by rw [k1.isSome]; exact hl
    simp only []
    rw [registerOutputs_fresh block _ unwrap asts st1 0 n [] hs]
    have hT' := k1.snoc { key := normaliseName n, name := n, defBlock := block,
                          sub := .sub (embedTree (rootsOf done) nt) [n] false, idx := 0, refs := [], unwrap := unwrap }
                  (normaliseName n, done.length, 0) (by rw [k3]; rfl)
    refine ⟨_, by simp only [registerOutputs, Except.ok_bind]; rfl, rfl, ⟨?_, ?_, k2⟩, rfl⟩
    · rw [definedNames_snoc]; simpa [stmtDefs] using hT'
    · rw [definedNames_snoc]
      simpa [stmtDefs] using hI.uniq.snoc (normaliseName n, done.length, 0) hl

theorem stmt_sim {st : CState} {done : List NStmt} {block : Nat} (hI : Inv st done) (s : AStmt) :
    Sim block (StmtRel done block) (compileStmt block st s) (Spec.stmt done block s) := by
  obtain ⟨e, outs, named⟩ := s
  have hx := expr_sim (roots := rootsOf done) (blocks := done.map (·.block)) (block := block) hI.uniq e st _ hI.table
  rw [compileStmt_eq]
  unfold Spec.stmt
  refine Sim.bind hx ?_
  rintro ⟨tree, st1⟩ nt hs ⟨htree, hT1⟩
  simp only at htree hT1 ⊢
  subst htree
  have hsc := refs_scoped e nt hs
  match outs with
  | some (o :: os) =>
    obtain ⟨k1, k2, k3⟩ := stmt_key hI hT1 hsc ((o :: os).map compileString) true
    have hr := register_sim (unwrap := !named) (o :: os) k3 (o :: os) 0 st1 (definedNames done) rfl k1
    have hne : ((o :: os).map compileString).isEmpty = false := rfl
    simp only [embedStmt, hne, Bool.false_eq_true, if_false] at hr
    simp only [nameStmt]
    refine Sim.bind hr ?_
    intro st' u hck hT'
    refine ⟨_, rfl, ?_, ⟨?_, ?_, k2⟩, rfl⟩
    · simp only [embedStmt, hne, Bool.false_eq_true, if_false]
    · rw [definedNames_snoc]; exact hT'
    · rw [definedNames_snoc]
      exact checkNames_unique block done.length (o :: os) 0 _ hck hI.uniq
  | some [] => exact infer_sim hI hT1 hsc (fun n hn => inferName_fresh e nt n hs hn) (some []) (!named)
  | none => exact infer_sim hI hT1 hsc (fun n hn => inferName_fresh e nt n hs hn) none (!named)


-- ---------------------------------------------------------------- blocks

theorem Sim.mapLeft {α β α' : Type} {block : Nat} {R : α → β → Prop} {R' : α' → β → Prop}
    {c : Except StmtErr α} {s : Except SpecErr β} {f : α → Except StmtErr α'}
    (h : Sim block R c s) (hf : ∀ a b, R a b → ∃ a', f a = .ok a' ∧ R' a' b) :
    Sim block R' (c >>= f) s := by
  cases s with
  | error e => obtain ⟨e', hc, he⟩ := h; subst hc; exact ⟨e', rfl, he⟩
  | ok b =>
    obtain ⟨a, hc, hr⟩ := h; subst hc
    obtain ⟨a', ha, hr'⟩ := hf a b hr
    exact ⟨a', by rw [Except.ok_bind, ha], hr'⟩

/-- after the statements of one block: new statements `new`, all of this block, whose root trees are the output -/
def StmtsRel (done : List NStmt) (block : Nat) (p : List Tree × CState) (done' : List NStmt) : Prop :=
  ∃ new, done' = done ++ new ∧ rootsOf done' = rootsOf done ++ p.1 ∧ Inv p.2 done' ∧ ∀ s ∈ new, s.block = block

theorem stmts_sim {block : Nat} : ∀ (ss : List AStmt) (st : CState) (done : List NStmt), Inv st done →
    Sim block (StmtsRel done block) (compileStmts block st ss) (Spec.stmts block done ss)
  | [], st, done, hI => by
    rw [compileStmts, Spec.stmts]
    exact ⟨_, rfl, [], by simp, by simp, hI, by simp⟩
  | s :: ss, st, done, hI => by
    rw [compileStmts, Spec.stmts]
    refine Sim.bind (stmt_sim hI s) ?_
    rintro ⟨t, st1⟩ ns _ ⟨ht, hI1, hb⟩
    refine Sim.mapLeft (stmts_sim ss st1 (done ++ [ns]) hI1) ?_
    rintro ⟨ts, st2⟩ done' ⟨new, hd, hr, hI2, hbs⟩
    refine ⟨_, rfl, ns :: new, by simp [hd], ?_, hI2, ?_⟩
    · simp only at hr ht ⊢
      rw [hr, rootsOf_snoc, ← ht]; simp
    · intro x hx
      simp only [List.mem_cons] at hx
      cases hx with
      | inl hx => rw [hx]; exact hb
      | inr hx => exact hbs x hx

/-- the root trees of the statements of block `b` -/
def groupBlock (b : Nat) (ps : List (NStmt × Tree)) : List Tree := (ps.filter (fun p => p.1.block == b)).map (·.2)

theorem groupBlock_all (b : Nat) : ∀ (ns : List NStmt) (ts : List Tree), ns.length = ts.length →
    (∀ s ∈ ns, s.block = b) → groupBlock b (ns.zip ts) = ts
  | [], [], _, _ => rfl
  | [], _ :: _, h, _ => by cases h
  | _ :: _, [], h, _ => by cases h
  | n :: ns, t :: ts, h, hb => by
    have h1 : n.block = b := hb n (by simp)
    have := groupBlock_all b ns ts (by simpa using h) (fun s hs => hb s (by simp [hs]))
    simp only [groupBlock] at this ⊢
    simp [List.zip_cons_cons, h1, this]

theorem groupBlock_none (b : Nat) : ∀ (ns : List NStmt) (ts : List Tree),
    (∀ s ∈ ns, s.block ≠ b) → groupBlock b (ns.zip ts) = []
  | [], _, _ => by simp [groupBlock]
  | _ :: _, [], _ => by simp [groupBlock]
  | n :: ns, t :: ts, hb => by
    have h1 : n.block ≠ b := hb n (by simp)
    have := groupBlock_none b ns ts (fun s hs => hb s (by simp [hs]))
    simp only [groupBlock] at this ⊢
    simp [List.zip_cons_cons, h1, this]

theorem groupBlock_append (b : Nat) (p q : List (NStmt × Tree)) :
    groupBlock b (p ++ q) = groupBlock b p ++ groupBlock b q := by
  simp [groupBlock]

theorem blocks_sim : ∀ (bs : List (List AStmt)) (i : Nat) (st : CState) (done : List NStmt), Inv st done →
    match Spec.blocksFrom i done bs with
    | .ok done' => ∃ out st' new, compileBlocks i st bs = .ok (out, st') ∧ done' = done ++ new ∧
        rootsOf done' = rootsOf done ++ out.flatten ∧ Inv st' done' ∧ (∀ s ∈ new, i ≤ s.block) ∧
        out = (List.range' i bs.length).map (fun b => groupBlock b (new.zip out.flatten))
    | .error e => compileBlocks i st bs = .error e.toCompile
  | [], i, st, done, hI => by
    rw [Spec.blocksFrom]
    exact ⟨[], st, [], by rw [compileBlocks], by simp, by simp, hI, by simp, by simp⟩
  | b :: bs, i, st, done, hI => by
    rw [Spec.blocksFrom, compileBlocks_cons]
    have h := stmts_sim (block := i) b st done hI
    cases hs : Spec.stmts i done b with
    | error e =>
      rw [hs] at h
      obtain ⟨e', hc, he⟩ := h
      rw [hc]
      simp only [Except.error_bind]
      rw [he]
    | ok done1 =>
      rw [hs] at h
      obtain ⟨⟨ts, st1⟩, hc, new1, hd1, hr1, hI1, hb1⟩ := h
      rw [hc]
      simp only [Except.ok_bind]
      have ih := blocks_sim bs (i + 1) st1 done1 hI1
      cases hs2 : Spec.blocksFrom (i + 1) done1 bs with
      | error e =>
        rw [hs2] at ih
        simp only [ih]
      | ok done' =>
        rw [hs2] at ih
        obtain ⟨out2, st', new2, hc2, hd2, hr2, hI2, hb2, hg⟩ := ih
        simp only [hc2]
        have hlen : new1.length = ts.length := by
          have := congrArg List.length hr1
          simp only [rootsOf_length, List.length_append] at this
          rw [hd1, List.length_append] at this
          omega
        refine ⟨ts :: out2, st', new1 ++ new2, rfl, by rw [hd2, hd1, List.append_assoc], ?_, hI2, ?_, ?_⟩
        · simp only at hr1
          rw [hr2, hr1, List.flatten_cons, List.append_assoc]
        · intro s hs
          rw [List.mem_append] at hs
          cases hs with
          | inl hs => rw [hb1 s hs]; exact Nat.le_refl _
          | inr hs => have := hb2 s hs; omega
        · rw [List.length_cons, List.range'_succ, List.map_cons, List.flatten_cons, List.zip_append hlen,
            groupBlock_append, groupBlock_all i new1 ts hlen hb1,
            groupBlock_none i new2 _ (fun s hs => by have := hb2 s hs; omega), List.append_nil]
          congr 1
          rw [hg]
          apply List.map_congr_left
          intro b' hb'
          have hb'' : i + 1 ≤ b' := (List.mem_range'_1.mp hb').1
          rw [← hg, groupBlock_append, groupBlock_none b' new1 ts (fun s hs => by rw [hb1 s hs]; omega),
            List.nil_append]


-- ================================================================ C01.3 the refinement theorems

/-- everything the simulation gives for a whole program -/
theorem elab_sim (asts : List (List AStmt)) :
    match Spec.blocks asts with
    | .ok ns => ∃ st, compileBlocks 0 {} asts = .ok (embed asts.length ns, st) ∧ Inv st ns ∧
        (embed asts.length ns).flatten = rootsOf ns
    | .error e => compileBlocks 0 {} asts = .error e.toCompile := by
  have h := blocks_sim asts 0 {} [] Inv.init
  unfold Spec.blocks
  cases hs : Spec.blocksFrom 0 [] asts with
  | error e => rw [hs] at h; exact h
  | ok ns =>
    rw [hs] at h
    obtain ⟨out, st, new, hc, hd, hr, hI, _, hg⟩ := h
    simp only [List.nil_append] at hd
    subst hd
    have hr' : rootsOf ns = out.flatten := by simpa [rootsOf] using hr
    have he : embed asts.length ns = out := by
      conv => rhs; rw [hg]
      simp only [embed, List.range_eq_range', hr', groupBlock]
    exact ⟨st, by rw [he]; exact hc, hI, by rw [he, hr']⟩

/-- **C01.3** the compiler's elaboration is exactly the by-name meaning with copies embedded: the same trees, or the
    same error at the same position.  As `SpecErr.toCompile` only produces `redefined` and `proportion`, nothing else
    is rejected and no other exception (`syntaxError`, `zeroDivision`, `internal`) can come out of elaboration. -/
theorem elab_refines_spec (asts : List (List AStmt)) :
    (compileBlocks 0 {} asts).map (·.1) =
      ((Spec.blocks asts).map (embed asts.length)).mapError SpecErr.toCompile := by
  have h := elab_sim asts
  cases hs : Spec.blocks asts with
  | error e => rw [hs] at h; rw [h]; rfl
  | ok ns => rw [hs] at h; obtain ⟨st, hc, _⟩ := h; rw [hc]; rfl

/-- success: the compiler accepts iff the by-name meaning exists, and then returns its embedding -/
theorem elab_ok_iff (asts : List (List AStmt)) (bs : List Block) :
    (∃ st, compileBlocks 0 {} asts = .ok (bs, st)) ↔ ∃ ns, Spec.blocks asts = .ok ns ∧ bs = embed asts.length ns := by
  have h := elab_sim asts
  cases hs : Spec.blocks asts with
  | error e =>
    rw [hs] at h
    constructor
    · rintro ⟨st, hc⟩; rw [hc] at h; cases h
    · rintro ⟨ns, hn, _⟩; cases hn
  | ok ns =>
    rw [hs] at h
    obtain ⟨st, hc, _⟩ := h
    constructor
    · rintro ⟨st', hc'⟩
      rw [hc] at hc'
      cases hc'
      exact ⟨ns, rfl, rfl⟩
    · rintro ⟨ns', hn, hb⟩
      cases hn
      exact ⟨st, by rw [hb]; exact hc⟩

/-- `NameRedefinedError` is raised exactly when, and where, the by-name meaning says so -/
theorem elab_redefined_iff (asts : List (List AStmt)) (b off : Nat) :
    compileBlocks 0 {} asts = .error (.redefined b off) ↔ Spec.blocks asts = .error (.redefined b off) := by
  have h := elab_sim asts
  cases hs : Spec.blocks asts with
  | error e =>
    rw [hs] at h
    rw [h]
    cases e <;> simp [SpecErr.toCompile]
  | ok ns =>
    rw [hs] at h
    obtain ⟨st, hc, _⟩ := h
    rw [hc]
    simp

/-- `ProportionGivenForIngredientError` is raised exactly when, and where, the by-name meaning says so -/
theorem elab_proportion_iff (asts : List (List AStmt)) (b off : Nat) :
    compileBlocks 0 {} asts = .error (.proportion b off) ↔ Spec.blocks asts = .error (.proportion b off) := by
  have h := elab_sim asts
  cases hs : Spec.blocks asts with
  | error e =>
    rw [hs] at h
    rw [h]
    cases e <;> simp [SpecErr.toCompile]
  | ok ns =>
    rw [hs] at h
    obtain ⟨st, hc, _⟩ := h
    rw [hc]
    simp

/-- "nothing else is rejected": elaboration raises no other error and no undocumented exception -/
theorem elab_no_other_error (asts : List (List AStmt)) :
    (∀ b, compileBlocks 0 {} asts ≠ .error (.syntaxError b)) ∧
    (∀ b, compileBlocks 0 {} asts ≠ .error (.zeroDivision b)) ∧
    (∀ why, compileBlocks 0 {} asts ≠ .error (.internal why)) ∧
    (∀ x, compileBlocks 0 {} asts ≠ .error (.ok x)) := by
  have h := elab_sim asts
  cases hs : Spec.blocks asts with
  | error e =>
    rw [hs] at h
    rw [h]
    cases e <;> simp [SpecErr.toCompile]
  | ok ns =>
    rw [hs] at h
    obtain ⟨st, hc, _⟩ := h
    rw [hc]
    simp

/-- **C01.3 (table)** the table the compiler ends with is exactly the defined names, in definition order; the entry
    of the definition `(key, sid, idx)` holds the key, the output index `idx`, the root tree of statement `sid`, the
    block of statement `sid`, and the references to `(sid, idx)` in source order, each with the block of the
    referencing statement.  The root trees are the trees returned (`bs.flatten`). -/
theorem elab_table (asts : List (List AStmt)) (bs : List Block) (st : CState)
    (h : compileBlocks 0 {} asts = .ok (bs, st)) (ns : List NStmt) (hs : Spec.blocks asts = .ok ns) :
    st.outputs.map view = (definedNames ns).map (tableEntry (rootsOf ns) (ns.map (·.block)) (allRefs ns)) ∧
    rootsOf ns = bs.flatten := by
  have h' := elab_sim asts
  rw [hs] at h'
  obtain ⟨st', hc, hI, hr⟩ := h'
  rw [hc] at h
  cases h
  exact ⟨hI.table, hr.symm⟩

/-- the same, entry by entry and without defaults -/
theorem elab_table_entry (asts : List (List AStmt)) (bs : List Block) (st : CState)
    (h : compileBlocks 0 {} asts = .ok (bs, st)) (ns : List NStmt) (hs : Spec.blocks asts = .ok ns) :
    st.outputs.length = (definedNames ns).length ∧
    ∀ (p : Nat) (o : NamedOutput), st.outputs[p]? = some o →
      ∃ key sid idx s, (definedNames ns)[p]? = some (key, sid, idx) ∧ ns[sid]? = some s ∧
        o.key = key ∧ o.idx = idx ∧ bs.flatten[sid]? = some o.sub ∧ o.defBlock = s.block ∧
        o.refs = ((allRefs ns).filter (fun r => r.1 == sid && r.2.1 == idx)).map
                    (fun r => (Tree.reference o.sub idx r.2.2.1, r.2.2.2)) := by
  obtain ⟨ht, hr⟩ := elab_table asts bs st h ns hs
  constructor
  · simpa using congrArg List.length ht
  · intro p o ho
    have h1 : (st.outputs.map view)[p]? = some (view o) := by simp [ho]
    rw [ht, List.getElem?_map] at h1
    cases hd : (definedNames ns)[p]? with
    | none => rw [hd] at h1; cases h1
    | some d =>
      rw [hd] at h1
      simp only [Option.map_some, Option.some.injEq] at h1
      obtain ⟨key, sid, idx⟩ := d
      have hlt : sid < ns.length := definedNames_sid_lt (List.mem_of_getElem? hd)
      have hroot : (rootsOf ns)[sid]? = some ((rootsOf ns)[sid]'(by rw [rootsOf_length]; exact hlt)) :=
        List.getElem?_eq_getElem _
      have hblk : (ns.map (·.block))[sid]? = some (ns[sid]).block := by simp [hlt]
      simp only [tableEntry, hroot, hblk, Option.getD_some, view, Prod.mk.injEq] at h1
      obtain ⟨e1, e2, e3, e4, e5⟩ := h1
      refine ⟨key, sid, idx, ns[sid], rfl, List.getElem?_eq_getElem hlt, e1.symm, e2.symm, ?_, e4.symm, ?_⟩
      · rw [← hr, hroot, e3]
      · rw [← e5, ← e3]


-- ================================================================ C01.1 shape, C01.2 leaves: what the meaning says

/-- the steps of an expression: names and arities, leaves anonymous -/
inductive Skel where
  | leaf
  | node (d : SVS) (children : List Skel)

mutual
def exprSkel : AExpr → Skel
  | .ref .. => .leaf
  | .step name inputs => .node (compileString name) (exprsSkel inputs)
def exprsSkel : List AExpr → List Skel
  | [] => []
  | e :: es => exprSkel e :: exprsSkel es
end

mutual
def NTree.skel : NTree → Skel
  | .ingredient .. => .leaf
  | .nref .. => .leaf
  | .step d inputs => .node d (NTree.skels inputs)
def NTree.skels : List NTree → List Skel
  | [] => []
  | t :: ts => t.skel :: NTree.skels ts
end

mutual
/-- the written leaves (name, amount) in written order -/
def exprLeaves : AExpr → List (AString × Option AAmount)
  | .ref name amount => [(name, amount)]
  | .step _ inputs => exprsLeaves inputs
def exprsLeaves : List AExpr → List (AString × Option AAmount)
  | [] => []
  | e :: es => exprLeaves e ++ exprsLeaves es
end

mutual
def NTree.leaves : NTree → List NTree
  | .ingredient d q => [.ingredient d q]
  | .nref sid idx a => [.nref sid idx a]
  | .step _ inputs => NTree.leavesList inputs
def NTree.leavesList : List NTree → List NTree
  | [] => []
  | t :: ts => t.leaves ++ NTree.leavesList ts
end

/-- all results, or the first error from the left -/
def collect {ε α : Type} : List (Except ε α) → Except ε (List α)
  | [] => .ok []
  | x :: xs => do
    let a ← x
    let as ← collect xs
    pure (a :: as)

theorem collect_append {ε α : Type} : ∀ (xs ys : List (Except ε α)),
    collect (xs ++ ys) = (do let a ← collect xs; let b ← collect ys; pure (a ++ b))
  | [], ys => by
    simp only [List.nil_append, collect, Except.ok_bind]
    cases collect ys <;> rfl
  | x :: xs, ys => by
    simp only [List.cons_append, collect, collect_append xs ys]
    cases x with
    | error e => rfl
    | ok a =>
      simp only [Except.ok_bind]
      cases collect xs with
      | error e => rfl
      | ok as =>
        simp only [Except.ok_bind]
        cases collect ys <;> rfl

/-- **C01.2** a leaf is a reference iff its normalised name is defined (`d` is the first — by `spec_keys_unique` the
    only — definition with that name), and then it refers to that definition and carries the written amount, the
    whole (`Amount.whole`) when none is written; otherwise it is an ingredient with the written name and quantity,
    unless a proportion is written, which is rejected at the amount's offset. -/
theorem spec_leaf (done : List NStmt) (block : Nat) (name : AString) (amount : Option AAmount) :
    (∀ d, (definedNames done).find? (fun d => d.1 == normaliseName (compileString name)) = some d →
        Spec.leaf done block name amount = .ok (.nref d.2.1 d.2.2 (compileAmount amount)) ∧ d.2.1 < done.length) ∧
    ((∀ d ∈ definedNames done, (d.1 == normaliseName (compileString name)) = false) →
        (amount = none → Spec.leaf done block name amount = .ok (.ingredient (compileString name) none)) ∧
        (∀ o v u sp p, amount = some (.qty o v u sp p) →
          Spec.leaf done block name amount = .ok (.ingredient (compileString name) (some (compileQuantity v u sp p)))) ∧
        (∀ o v pc w p, amount = some (.prop o v pc w p) →
          Spec.leaf done block name amount = .error (.proportion block o))) ∧
    compileAmount none = Amount.whole := by
  refine ⟨?_, ?_, rfl⟩
  · intro d hd
    refine ⟨?_, definedNames_sid_lt (List.mem_of_find?_eq_some hd)⟩
    rw [Spec.leaf_def]
    simp [lookup, hd]
  · intro hnone
    have : lookup done (normaliseName (compileString name)) = none := by
      simp only [lookup, Option.map_eq_none_iff, List.find?_eq_none]
      intro d hd
      simp [hnone d hd]
    refine ⟨?_, ?_, ?_⟩
    · intro ha; subst ha; rw [Spec.leaf_def, this]
    · intro o v u sp p ha; subst ha; rw [Spec.leaf_def, this]
    · intro o v pc w p ha; subst ha; rw [Spec.leaf_def, this]

/-- a reference is produced only for a defined name, an ingredient only for an undefined one -/
theorem spec_leaf_ref_iff (done : List NStmt) (block : Nat) (name : AString) (amount : Option AAmount) :
    (∃ sid idx a, Spec.leaf done block name amount = .ok (.nref sid idx a)) ↔
      ∃ d ∈ definedNames done, (d.1 == normaliseName (compileString name)) = true := by
  rw [Spec.leaf_def]
  constructor
  · rintro ⟨sid, idx, a, h⟩
    cases hl : lookup done (normaliseName (compileString name)) with
    | some p =>
      obtain ⟨d, hd, hk, _⟩ := lookup_some (sid := p.1) (idx := p.2) hl
      exact ⟨d, hd, hk⟩
    | none =>
      rw [hl] at h
      cases amount with
      | none => cases h
      | some am => cases am <;> cases h
  · rintro ⟨d, hd, hk⟩
    cases hl : lookup done (normaliseName (compileString name)) with
    | some p => exact ⟨p.1, p.2, _, rfl⟩
    | none =>
      have := lookup_none.mp hl
      simp only [List.any_map, List.any_eq_false, Function.comp_def] at this
      have := this d hd
      simp [hk] at this

theorem leaf_is_leaf {done : List NStmt} {block : Nat} {name : AString} {amount : Option AAmount} {t : NTree}
    (h : Spec.leaf done block name amount = .ok t) : t.leaves = [t] ∧ t.skel = .leaf := by
  rw [Spec.leaf_def] at h
  cases hl : lookup done (normaliseName (compileString name)) with
  | some p => rw [hl] at h; cases h; exact ⟨rfl, rfl⟩
  | none =>
    rw [hl] at h
    cases amount with
    | none => cases h; exact ⟨by simp [NTree.leaves], by simp [NTree.skel]⟩
    | some am =>
      cases am with
      | qty o v u sp p => cases h; exact ⟨by simp [NTree.leaves], by simp [NTree.skel]⟩
      | prop o v pc w p => cases h

mutual
/-- **C01.1** the tree of an expression has exactly the written steps (names via `compileString`, same arities, same
    nesting) … -/
theorem spec_shape {done : List NStmt} {block : Nat} : ∀ (e : AExpr) (nt : NTree),
    Spec.expr done block e = .ok nt → nt.skel = exprSkel e
  | .ref name amount, nt, h => by
    rw [Spec.expr] at h
    rw [(leaf_is_leaf h).2, exprSkel]
  | .step name inputs, nt, h => by
    rw [Spec.expr] at h
    cases hs : Spec.exprs done block inputs with
    | error e => rw [hs] at h; cases h
    | ok ts =>
      rw [hs] at h
      cases h
      simp only [NTree.skel, exprSkel, spec_shape_list inputs ts hs]
theorem spec_shape_list {done : List NStmt} {block : Nat} : ∀ (es : List AExpr) (nts : List NTree),
    Spec.exprs done block es = .ok nts → NTree.skels nts = exprsSkel es
  | [], nts, h => by rw [Spec.exprs] at h; cases h; rfl
  | e :: es, nts, h => by
    rw [Spec.exprs] at h
    cases h1 : Spec.expr done block e with
    | error x => rw [h1] at h; cases h
    | ok t =>
      rw [h1] at h
      cases h2 : Spec.exprs done block es with
      | error x => rw [h2] at h; cases h
      | ok ts =>
        rw [h2] at h
        cases h
        simp only [NTree.skels, exprsSkel, spec_shape e t h1, spec_shape_list es ts h2]
end

mutual
/-- **C01.1 / C01.2** … and its leaves are the written leaves, in written order, each elaborated by `Spec.leaf`; when a
    leaf is rejected the expression is rejected with the error of the first such leaf (depth-first, left to right) -/
theorem spec_leaves {done : List NStmt} {block : Nat} : ∀ (e : AExpr),
    (Spec.expr done block e).map NTree.leaves = collect ((exprLeaves e).map fun l => Spec.leaf done block l.1 l.2)
  | .ref name amount => by
    rw [Spec.expr]
    simp only [exprLeaves, List.map_cons, List.map_nil, collect]
    cases h : Spec.leaf done block name amount with
    | error e => rfl
    | ok t => show Except.ok t.leaves = Except.ok [t]; rw [(leaf_is_leaf h).1]
  | .step name inputs => by
    rw [Spec.expr, exprLeaves, ← spec_leaves_list inputs]
    cases Spec.exprs done block inputs with
    | error e => rfl
    | ok ts => rfl
theorem spec_leaves_list {done : List NStmt} {block : Nat} : ∀ (es : List AExpr),
    (Spec.exprs done block es).map NTree.leavesList =
      collect ((exprsLeaves es).map fun l => Spec.leaf done block l.1 l.2)
  | [] => by rw [Spec.exprs]; rfl
  | e :: es => by
    rw [Spec.exprs, exprsLeaves, List.map_append, collect_append, ← spec_leaves e, ← spec_leaves_list es]
    cases Spec.expr done block e with
    | error x => rfl
    | ok t =>
      cases Spec.exprs done block es with
      | error x => rfl
      | ok ts => rfl
end


-- ---------------------------------------------------------------- statements of a program

/-- what an accepted statement is: its tree is its expression's, its names are the written ones (all new, checked
    left to right) and shown, or else the inferred one, not shown -/
theorem spec_stmt_ok {done : List NStmt} {block : Nat} {s : AStmt} {n : NStmt} (h : Spec.stmt done block s = .ok n) :
    Spec.expr done block s.expr = .ok n.tree ∧ n.block = block ∧
    (match s.outputs with
     | some (o :: os) => n.names = (o :: os).map compileString ∧ n.showNames = true ∧
         Spec.checkNames block ((definedNames done).map (·.1)) (o :: os) = .ok ()
     | _ => n.showNames = false ∧ n.names = (match n.tree.inferName with | some x => [x] | none => [])) := by
  unfold Spec.stmt at h
  cases he : Spec.expr done block s.expr with
  | error e => rw [he] at h; cases h
  | ok t =>
    rw [he] at h
    simp only [Except.ok_bind] at h
    have fin : ∀ {m : NStmt}, (Except.ok m : Except SpecErr NStmt) = .ok n → m = n := fun h => by cases h; rfl
    match hs : s.outputs with
    | some (o :: os) =>
      rw [hs] at h
      simp only at h ⊢
      cases hc : Spec.checkNames block ((definedNames done).map (·.1)) (o :: os) with
      | error e => rw [hc] at h; cases h
      | ok u => rw [hc] at h; have := fin h; subst this; exact ⟨rfl, rfl, rfl, rfl, rfl⟩
    | some [] =>
      rw [hs] at h
      simp only at h ⊢
      cases hi : t.inferName with
      | none => rw [hi] at h; have := fin h; subst this; exact ⟨rfl, rfl, rfl, by simp [hi]⟩
      | some x => rw [hi] at h; have := fin h; subst this; exact ⟨rfl, rfl, rfl, by simp [hi]⟩
    | none =>
      rw [hs] at h
      simp only at h ⊢
      cases hi : t.inferName with
      | none => rw [hi] at h; have := fin h; subst this; exact ⟨rfl, rfl, rfl, by simp [hi]⟩
      | some x => rw [hi] at h; have := fin h; subst this; exact ⟨rfl, rfl, rfl, by simp [hi]⟩

/-- the statements of a program in source order, each with its block number -/
def numbered : Nat → List (List AStmt) → List (Nat × AStmt)
  | _, [] => []
  | i, b :: bs => b.map (fun s => (i, s)) ++ numbered (i + 1) bs

theorem spec_stmts_at {block : Nat} : ∀ (ss : List AStmt) (done done' : List NStmt),
    Spec.stmts block done ss = .ok done' →
    ∃ new, done' = done ++ new ∧ new.length = ss.length ∧
      ∀ k s, ss[k]? = some s → ∃ n, new[k]? = some n ∧ Spec.stmt (done ++ new.take k) block s = .ok n
  | [], done, done', h => by
    rw [Spec.stmts] at h; cases h
    exact ⟨[], by simp, rfl, by simp⟩
  | s :: ss, done, done', h => by
    rw [Spec.stmts] at h
    cases hs : Spec.stmt done block s with
    | error e => rw [hs] at h; cases h
    | ok n =>
      rw [hs] at h
      obtain ⟨new, hd, hl, hk⟩ := spec_stmts_at ss (done ++ [n]) done' h
      refine ⟨n :: new, by simp [hd], by simp [hl], ?_⟩
      intro k s' hk'
      cases k with
      | zero =>
        simp only [List.getElem?_cons_zero, Option.some.injEq] at hk'
        subst hk'
        exact ⟨n, rfl, by simpa using hs⟩
      | succ k =>
        simp only [List.getElem?_cons_succ] at hk'
        obtain ⟨n', hn', hs'⟩ := hk k s' hk'
        exact ⟨n', by simpa using hn', by simpa using hs'⟩

theorem spec_blocks_at : ∀ (bs : List (List AStmt)) (i : Nat) (done ns : List NStmt),
    Spec.blocksFrom i done bs = .ok ns →
    ∃ new, ns = done ++ new ∧ new.length = (numbered i bs).length ∧
      ∀ k p, (numbered i bs)[k]? = some p → ∃ n, new[k]? = some n ∧ Spec.stmt (done ++ new.take k) p.1 p.2 = .ok n
  | [], i, done, ns, h => by
    rw [Spec.blocksFrom] at h; cases h
    exact ⟨[], by simp, rfl, by simp [numbered]⟩
  | b :: bs, i, done, ns, h => by
    rw [Spec.blocksFrom] at h
    cases hs : Spec.stmts i done b with
    | error e => rw [hs] at h; cases h
    | ok done1 =>
      rw [hs] at h
      obtain ⟨new1, hd1, hl1, hk1⟩ := spec_stmts_at b done done1 hs
      obtain ⟨new2, hd2, hl2, hk2⟩ := spec_blocks_at bs (i + 1) done1 ns h
      refine ⟨new1 ++ new2, by rw [hd2, hd1, List.append_assoc], by simp [numbered, hl1, hl2], ?_⟩
      intro k p hp
      simp only [numbered] at hp
      by_cases hlt : k < b.length
      · rw [List.getElem?_append_left (by simpa using hlt)] at hp
        simp only [List.getElem?_map, Option.map_eq_some_iff] at hp
        obtain ⟨s, hs', rfl⟩ := hp
        obtain ⟨n, hn, hst⟩ := hk1 k s hs'
        refine ⟨n, by rw [List.getElem?_append_left (by omega)]; exact hn, ?_⟩
        rw [List.take_append_of_le_length (by omega)]
        exact hst
      · rw [List.getElem?_append_right (by simpa using Nat.le_of_not_lt hlt)] at hp
        simp only [List.length_map] at hp
        obtain ⟨n, hn, hst⟩ := hk2 (k - b.length) p hp
        refine ⟨n, by rw [List.getElem?_append_right (by omega), hl1]; exact hn, ?_⟩
        rw [List.take_append, List.take_of_length_le (by omega), hl1, ← List.append_assoc, ← hd1]
        exact hst

/-- **by name, statement by statement**: the `k`-th statement of the program (in source order, of block `p.1`) is
    elaborated against exactly the statements before it -/
theorem spec_stmt_at (asts : List (List AStmt)) (ns : List NStmt) (h : Spec.blocks asts = .ok ns) :
    ns.length = (numbered 0 asts).length ∧
    ∀ k p, (numbered 0 asts)[k]? = some p → ∃ n, ns[k]? = some n ∧ Spec.stmt (ns.take k) p.1 p.2 = .ok n := by
  obtain ⟨new, hd, hl, hk⟩ := spec_blocks_at asts 0 [] ns h
  simp only [List.nil_append] at hd hk
  subst hd
  exact ⟨hl, hk⟩

/-- **C01.1, program level** every statement's tree has the written steps and leaves in written order, each leaf
    resolved against the earlier statements only -/
theorem spec_shape_program (asts : List (List AStmt)) (ns : List NStmt) (h : Spec.blocks asts = .ok ns)
    (k : Nat) (p : Nat × AStmt) (hp : (numbered 0 asts)[k]? = some p) :
    ∃ n, ns[k]? = some n ∧ n.block = p.1 ∧ n.tree.skel = exprSkel p.2.expr ∧
      (exprLeaves p.2.expr).map (fun l => Spec.leaf (ns.take k) p.1 l.1 l.2) = n.tree.leaves.map .ok := by
  obtain ⟨n, hn, hs⟩ := (spec_stmt_at asts ns h).2 k p hp
  obtain ⟨he, hb, _⟩ := spec_stmt_ok hs
  refine ⟨n, hn, hb, spec_shape _ _ he, ?_⟩
  have hl := spec_leaves (done := ns.take k) (block := p.1) p.2.expr
  rw [he] at hl
  have hl' : collect ((exprLeaves p.2.expr).map fun l => Spec.leaf (ns.take k) p.1 l.1 l.2) = .ok n.tree.leaves :=
    hl.symm
  have : ∀ (xs : List (Except SpecErr NTree)) (ys : List NTree), collect xs = .ok ys → xs = ys.map .ok := by
    intro xs
    induction xs with
    | nil => intro ys h; cases h; rfl
    | cons x xs ih =>
      intro ys h
      rw [collect] at h
      cases x with
      | error e => cases h
      | ok a =>
        simp only [Except.ok_bind] at h
        cases hc : collect xs with
        | error e => rw [hc] at h; cases h
        | ok as => rw [hc] at h; cases h; simp [ih as hc]
  exact this _ _ hl'

/-- every defined name resolves to its own definition: nothing is shadowed -/
theorem spec_lookup_defined (asts : List (List AStmt)) (ns : List NStmt) (h : Spec.blocks asts = .ok ns) :
    ∀ d ∈ definedNames ns, lookup ns d.1 = some d.2 := by
  have h' := elab_sim asts
  rw [h] at h'
  obtain ⟨st, _, hI, _⟩ := h'
  intro d hd
  unfold lookup
  cases hf : (definedNames ns).find? (fun x => x.1 == d.1) with
  | none =>
    have := List.find?_eq_none.mp hf d hd
    simp at this
  | some d' =>
    have hk : (d'.1 == d.1) = true := by simpa using List.find?_some hf
    rw [hI.uniq d' (List.mem_of_find?_eq_some hf) d hd hk]
    rfl

/-- in an accepted program no name is defined twice (the names are pairwise different, ignoring case and
    surrounding whitespace) -/
theorem spec_keys_unique (asts : List (List AStmt)) (ns : List NStmt) (h : Spec.blocks asts = .ok ns) :
    KeysUnique (definedNames ns) := by
  have h' := elab_sim asts
  rw [h] at h'
  obtain ⟨st, _, hI, _⟩ := h'
  exact hI.uniq


-- ================================================================ non-vacuity: a concrete program, both sides evaluated

section Examples
/- (names are mostly upper case only because the kernel finds `A`–`Z` at the start of the lower-casing table) -/
private def str (off : Nat) (s : Str) : AString := [.sub off s]
private def oneHalf : Num := ⟨⟨1, 2, by decide, by decide⟩, .frac⟩
private def half : Option AAmount := some (.prop 42 (some oneHalf) false (some [' ', 'o', 'f']) [' '])

/-- block 0: `JAM := mix(FIG, 1 tsp NUT)`, `fry(EGG)` (defines `egg` by inference),
             `pour(1/2 of  JAm , EGG)` (two later references, ignoring case and whitespace);
    block 1: `serve(JAM, RYE)` (a cross-block reference and an ingredient) -/
private def prog : List (List AStmt) :=
  [[ ⟨.step (str 7 ['m', 'i', 'x']) [.ref (str 11 ['F', 'I', 'G']) none,
        .ref (str 22 ['N', 'U', 'T']) (some (.qty 16 ⟨1, .int⟩ (some (str 18 ['t', 's', 'p'])) [' '] []))],
      some [str 0 ['J', 'A', 'M']], true⟩,
     ⟨.step (str 27 ['f', 'r', 'y']) [.ref (str 31 ['E', 'G', 'G']) none], none, false⟩,
     ⟨.step (str 36 ['p', 'o', 'u', 'r']) [.ref (str 49 [' ', 'J', 'A', 'm', ' ']) half, .ref (str 55 ['E', 'G', 'G']) none],
      none, false⟩ ],
   [ ⟨.step (str 0 ['s', 'e', 'r', 'v', 'e']) [.ref (str 6 ['J', 'A', 'M']) none, .ref (str 11 ['R', 'Y', 'E']) none],
      none, false⟩ ]]
/-- block 2 added: `Y, EGG  = X` redefines the inferred name `egg` -/
private def progRedef : List (List AStmt) :=
  prog ++ [[⟨.ref (str 10 ['X']) none, some [str 0 ['Y'], str 3 ['E', 'G', 'G', ' ']], false⟩]]
/-- block 2 added: `1/2 of X`, where `X` is not a sub recipe -/
private def progProp : List (List AStmt) := prog ++ [[⟨.ref (str 50 ['X']) half, none, false⟩]]

example : (compileBlocks 0 {} prog).map (·.1) =
    ((Spec.blocks prog).map (embed prog.length)).mapError SpecErr.toCompile := by decide +kernel
/-- the meaning of `prog`: the definitions (the inferred one not shown), and the references by (statement, output)
    with their amounts and the referencing block -/
example : (Spec.blocks prog).toOption.map (fun ns => (definedNames ns, ns.map (·.showNames), ns.map (·.block))) =
      some ([([.text ['j', 'a', 'm']], 0, 0), ([.text ['e', 'g', 'g']], 1, 0)], [true, false, false, false], [0, 0, 0, 1]) ∧
    (Spec.blocks prog).toOption.map allRefs =
      some [(0, 0, .proportion (some oneHalf) false (some [' ', 'o', 'f']) [' '], 0), (1, 0, Amount.whole, 0),
            (0, 0, Amount.whole, 1)] := ⟨by decide +kernel, by decide +kernel⟩
/-- the compiled third statement holds copies of the first two -/
example : (match compileBlocks 0 {} prog with
    | .ok ([t0, t1, t2] :: _, _) =>
      decide (t2 = .step [.text ['p', 'o', 'u', 'r']] [.reference t0 0 (compileAmount half), .reference t1 0 Amount.whole])
    | _ => false) = true := by decide +kernel
example : (compileBlocks 0 {} progRedef).map (·.1) = .error (.redefined 2 3) ∧
    (Spec.blocks progRedef).map (embed 3) = .error (.redefined 2 3) := ⟨by decide +kernel, by decide +kernel⟩
example : (compileBlocks 0 {} progProp).map (·.1) = .error (.proportion 2 42) ∧
    (Spec.blocks progProp).map (embed 3) = .error (.proportion 2 42) := ⟨by decide +kernel, by decide +kernel⟩
end Examples

end RG.C01
