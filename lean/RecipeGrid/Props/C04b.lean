import RecipeGrid.Props.C10b
/-! C04 (continued) / C10 — the body of a table cell (ingredient with optional quantity, step, reference with any
    amount, sub-recipe header) keeps user text inert: read by the HTML tokenizer of `Props/C10b.lean`, its visible
    text is amount ⧺ description resp. the output names (C04.5), and its element structure does not depend on the
    texts (C10.4). -/
namespace RG.C04
open RG.C10

-- ---------------------------------------------------------------- the specification

/-- the name a reference shows -/
def refName (sub : Tree) (idx : Nat) : SVS := (subNames sub)[idx]?.getD []

/-- what a cell shows, as plain text: the quantity and the description; the amount and the referenced name;
    the description of a step; the output name, or the output names each on an indented line of its own -/
def plainCell : Tree → Str
  | .ingredient d q => (match q with | some q => plainQuantity q ++ [' '] | none => []) ++ plainSvs d
  | .reference sub idx amount => plainAmount amount ++ plainSvs (refName sub idx)
  | .step d _ => plainSvs d
  | .sub _ names _ =>
    if names.length = 1 then plainSvs (names.headD [])
    else if names.length = 0 then []
    else names.flatMap (fun n => S "\n  " ++ plainSvs n) ++ ['\n']

/-- no text part of the scaled-value string has a line break (in the sense of `str.splitlines`) -/
def NoBreakSvs (s : SVS) : Prop := ∀ t, Part.text t ∈ s → NoBreak t

/-- the cell body is written without re-indentation inside user text: quantities have no conversions list and
    one-line spacing and unit; what goes inside the `<a>` of a reference has no newline; the output names listed in
    a header, and the id prefix, have no line breaks -/
def CellOK (pre : Str) : Tree → Prop
  | .ingredient _ q => ∀ q', q = some q' → OneLineQ q'
  | .reference sub idx amount => OneLineA amount ∧ ∀ t, Part.text t ∈ refName sub idx → '\n' ∉ t
  | .step _ _ => True
  | .sub _ names _ => names.length = 1 ∨ (NoBreak pre ∧ ∀ n ∈ names, NoBreakSvs n)

/-- lists of the same length, related item by item -/
def SameList : List SVS → List SVS → Prop
  | [], [] => True
  | a :: as, b :: bs => SameShape a b ∧ SameList as bs
  | _, _ => False

/-- two cells of the same kind differing only in their (non-empty) texts -/
def SameCell : Tree → Tree → Prop
  | .ingredient d₁ q₁, .ingredient d₂ q₂ =>
    SameShape d₁ d₂ ∧ (match q₁, q₂ with | none, none => True | some a, some b => SameQ a b | _, _ => False)
  | .step d₁ _, .step d₂ _ => SameShape d₁ d₂
  | .reference s₁ i₁ a₁, .reference s₂ i₂ a₂ => SameA a₁ a₂ ∧ SameShape (refName s₁ i₁) (refName s₂ i₂)
  | .sub _ ns₁ _, .sub _ ns₂ _ => SameList ns₁ ns₂
  | _, _ => False

/-- the scaled-value string ends in a number or in a character that is not white space -/
def SvsEndsSolid (s : SVS) : Prop :=
  match s.getLast? with
  | some (.text t) => EndsSolid t
  | some (.num _) => True
  | none => False

/-- what a cell shows, with the alternative forms of its quantity -/
def plainCellFull : Tree → Str
  | .ingredient d q => (match q with | some q => plainQuantityFull q ++ [' '] | none => []) ++ plainSvs d
  | .reference sub idx (.quantity q) => plainQuantityFull q ++ [' '] ++ plainSvs (refName sub idx)
  | t => plainCell t

/-- as `CellOK`, but quantities may have alternative forms: then spacing, unit, and (in a reference, where
    the `<a>` body is re-indented) preposition and name have no line break, and the name does not end in white
    space (which the re-indentation would strip), and the id prefix has no line break -/
def CellOKFull (pre : Str) : Tree → Prop
  | .ingredient _ q => ∀ q', q = some q' → QOK q'
  | .reference sub idx (.quantity q) =>
    QOK q ∧ NoBreak q.prep ∧ NoBreakSvs (refName sub idx) ∧
      (conversions q ≠ [] → SvsEndsSolid (refName sub idx) ∧ NoBreak pre)
  | t => CellOK pre t

-- ---------------------------------------------------------------- proofs

theorem isName_a : IsName "a" := by decide
theorem isName_href : IsName "href" := by decide
theorem isName_id : IsName "id" := by decide

theorem nl_not_mem_renderSvs {s : SVS} (h : ∀ t, Part.text t ∈ s → '\n' ∉ t) : '\n' ∉ renderSvs s := by
  intro hm
  obtain ⟨p, hp, hm⟩ := List.mem_flatMap.1 hm
  cases p with
  | text t => exact nl_not_mem_htmlEscape (h t hp) hm
  | num n =>
    exact nl_not_mem_tagBody "span" [("class", S "rg-scaled-value")] _ isName_span (by simp [isName_class])
      (nl_not_mem_renderNumber n) hm

/-- one output name in the list of a header -/
noncomputable def liToks (pre : Str) (n : SVS) : List Token :=
  .open (S "li") [(S "id", anchorId pre n)] :: svsToks n ++ [.close (S "li")]

/-- the tokens a cell body denotes -/
noncomputable def cellToks (pre : Str) : Tree → List Token
  | .ingredient d q => (match q with | some q => qToks q ++ [.text [' ']] | none => []) ++ svsToks d
  | .reference sub idx amount =>
    .open (S "a") [(S "href", '#' :: anchorId pre (refName sub idx))] ::
      (aToks amount ++ svsToks (refName sub idx)) ++ [.close (S "a")]
  | .step d _ => svsToks d
  | .sub _ names _ =>
    if names.length = 1 then svsToks (names.headD [])
    else if names.length = 0 then
      [.open (S "ul") [(S "class", S "rg-sub-recipe-output-list")], .close (S "ul")]
    else
      .open (S "ul") [(S "class", S "rg-sub-recipe-output-list")] ::
        names.flatMap (fun n => .text (S "\n  ") :: liToks pre n) ++ [.text ['\n'], .close (S "ul")]

theorem anchorId_noBreak (pre : Str) (n : SVS) (h : NoBreak pre) : NoBreak (anchorId pre n) := by
  rw [anchorId_eq]
  refine h.append fun c hc => ?_
  have := anchorTail_idChars n c hc
  have e : ∀ a b : Char, a ≤ b ↔ a.toNat ≤ b.toNat := fun a b => by rw [Char.le_def, UInt32.le_iff_toNat_le]; rfl
  simp only [isIdChar, Bool.or_eq_true, Bool.and_eq_true, decide_eq_true_eq, beq_iff_eq, e] at this
  rcases this with ((((h | h) | h) | h) | h) | h
  · exact isLineBreak_of_ascii (by have := h.1; simp at this; omega) (by have := h.2; simp at this; omega)
  · exact isLineBreak_of_ascii (by have := h.1; simp at this; omega) (by have := h.2; simp at this; omega)
  · exact isLineBreak_of_ascii (by have := h.1; simp at this; omega) (by have := h.2; simp at this; omega)
  · subst h; decide
  · subst h; decide
  · subst h; decide

theorem li_line (pre : Str) (n : SVS) (hp : NoBreak pre) (hn : NoBreakSvs n) :
    Frag (tagBody "li" [("id", anchorId pre n)] (renderSvs n)) (liToks pre n) ∧
      NoBreak (tagBody "li" [("id", anchorId pre n)] (renderSvs n)) ∧
      EndsSolid (tagBody "li" [("id", anchorId pre n)] (renderSvs n)) := by
  have hb := noBreak_renderSvs hn
  refine ⟨Frag.tagBody "li" [("id", _)] isName_li (by simp [isName_id]) (svsToks_frag n) hb.nl, ?_, ?_⟩
  · refine noBreak_tagBody "li" _ _ isName_li ?_ hb
    intro a ha
    simp only [List.mem_singleton] at ha
    subst ha
    exact ⟨isName_id, anchorId_noBreak pre n hp⟩
  · rw [tagBody_eq _ _ _ hb.nl]
    exact ⟨openTag "li" [("id", anchorId pre n)] ++ renderSvs n ++ S "</li", '>', by simp [closeTag, S], by decide⟩

theorem cellToks_frag (pre : Str) (t : Tree) (h : CellOK pre t) : Frag (renderCellBody pre t) (cellToks pre t) := by
  cases t with
  | ingredient d q =>
    cases q with
    | none => simpa [renderCellBody, cellToks] using svsToks_frag d
    | some q =>
      have hq := h q rfl
      exact ((qToks_frag q hq).append (Frag.raw raw_sp)).append (svsToks_frag d)
  | step d inputs => exact svsToks_frag d
  | reference sub idx amount =>
    obtain ⟨ha, hn⟩ := h
    refine Frag.tagBody "a" [("href", _)] isName_a (by simp [isName_href])
      ((aToks_frag amount ha).append (svsToks_frag _)) ?_
    have h1 := nl_not_mem_renderAmount amount ha
    have h2 := nl_not_mem_renderSvs hn
    simp only [List.mem_append, not_or]
    exact ⟨h1, h2⟩
  | sub body names showNames =>
    simp only [renderCellBody, cellToks]
    by_cases h1 : names.length = 1
    · simp only [h1, if_true]; exact svsToks_frag _
    · simp only [h1, if_false]
      by_cases h0 : names.length = 0
      · have : names = [] := List.eq_nil_of_length_eq_zero h0
        subst this
        simp only [List.length_nil, if_true, List.map_nil]
        have := Frag.tagBody "ul" [("class", S "rg-sub-recipe-output-list")] isName_ul (by simp [isName_class])
          Frag.nil (by simp)
        simpa [joinNl, readAttrs] using this
      · simp only [h0, if_false]
        rcases h with h | ⟨hp, hn⟩
        · exact absurd h h1
        · exact Frag.tagLines "ul" [("class", S "rg-sub-recipe-output-list")] isName_ul (by simp [isName_class]) names
            (fun n => tagBody "li" [("id", anchorId pre n)] (renderSvs n)) (liToks pre) (by omega)
            (fun n hn' => li_line pre n hp (hn n hn'))

theorem cellToks_text (pre : Str) (t : Tree) : textOf (cellToks pre t) = plainCell t := by
  cases t with
  | ingredient d q => cases q <;> simp [cellToks, plainCell, qToks_text]
  | step d inputs => simp [cellToks, plainCell]
  | reference sub idx amount => simp [cellToks, plainCell, aToks_text]
  | sub body names showNames =>
    simp only [cellToks, plainCell]
    split
    · simp
    · split
      · simp
      · have : ∀ ns : List SVS, textOf (ns.flatMap fun n => .text (S "\n  ") :: liToks pre n) =
            ns.flatMap (fun n => S "\n  " ++ plainSvs n) := by
          intro ns
          induction ns with
          | nil => rfl
          | cons n ns ih => simp only [List.flatMap_cons, textOf_append, ih]; simp [liToks]
        simp [this]

theorem sameList_shape (pre₁ pre₂ : Str) {ns₁ ns₂ : List SVS} (h : SameList ns₁ ns₂) :
    shape (ns₁.flatMap fun n => .text (S "\n  ") :: liToks pre₁ n) =
      shape (ns₂.flatMap fun n => .text (S "\n  ") :: liToks pre₂ n) := by
  induction ns₁ generalizing ns₂ with
  | nil => cases ns₂ <;> simp_all [SameList]
  | cons a as ih =>
    cases ns₂ with
    | nil => simp [SameList] at h
    | cons b bs =>
      obtain ⟨hab, hrest⟩ := h
      simp only [List.flatMap_cons, shape_append, ih hrest]
      simp [liToks, svsToks_shape hab, blankIds, S]

theorem sameList_length {ns₁ ns₂ : List SVS} (h : SameList ns₁ ns₂) : ns₁.length = ns₂.length := by
  induction ns₁ generalizing ns₂ with
  | nil => cases ns₂ <;> simp_all [SameList]
  | cons a as ih =>
    cases ns₂ with
    | nil => simp [SameList] at h
    | cons b bs => simp [ih h.2]

theorem cellToks_shape (pre₁ pre₂ : Str) {t₁ t₂ : Tree} (h : SameCell t₁ t₂) :
    shape (cellToks pre₁ t₁) = shape (cellToks pre₂ t₂) := by
  cases t₁ <;> cases t₂ <;> simp only [SameCell] at h
  · rename_i d₁ q₁ d₂ q₂
    obtain ⟨hd, hq⟩ := h
    cases q₁ <;> cases q₂ <;> simp only at hq
    · simp [cellToks, svsToks_shape hd]
    · simp [cellToks, svsToks_shape hd, qToks_shape hq]
  · simp [cellToks, svsToks_shape h]
  · simp [cellToks, svsToks_shape h.2, aToks_shape h.1, blankIds, S]
  · rename_i b₁ ns₁ s₁ b₂ ns₂ s₂
    have hl := sameList_length h
    simp only [cellToks, hl]
    split
    · rename_i h1
      match ns₁, ns₂, h, hl, h1 with
      | [a], [b], h, _, _ => exact svsToks_shape h.1
      | _, [], _, _, h1 => simp at h1
      | _, _ :: _ :: _, _, _, h1 => simp at h1
      | [], [b], _, hl, _ => simp at hl
      | _ :: _ :: _, [b], _, hl, _ => simp at hl
    · split
      · rfl
      · simp [sameList_shape pre₁ pre₂ h]

-- ---------------------------------------------------------------- C04.5 / C10.4 for a cell body

/-- C04.5 the visible text of a cell body is the amount followed by the description, resp. the output name(s) -/
theorem renderCellBody_text (pre : Str) (t : Tree) (h : CellOK pre t) :
    textOf (tokens (renderCellBody pre t)) = plainCell t := by
  rw [tokens_of_frag (cellToks_frag pre t h), textOf_norm, cellToks_text]

/-- C10.4 the element structure of a cell body (tags, classes; id and href values aside) does not depend on the
    texts, nor on the id prefix -/
theorem renderCellBody_skeleton (pre₁ pre₂ : Str) (t₁ t₂ : Tree) (h₁ : CellOK pre₁ t₁) (h₂ : CellOK pre₂ t₂)
    (h : SameCell t₁ t₂) :
    skeleton (tokens (renderCellBody pre₁ t₁)) = skeleton (tokens (renderCellBody pre₂ t₂)) := by
  rw [tokens_of_frag (cellToks_frag pre₁ t₁ h₁), tokens_of_frag (cellToks_frag pre₂ t₂ h₂)]
  exact skeleton_norm (cellToks_shape pre₁ pre₂ h)

-- ---------------------------------------------------------------- C04.5 with alternative forms

theorem endsSolid_escape {t : Str} (h : EndsSolid t) : EndsSolid (htmlEscape t) := by
  obtain ⟨b, c, rfl, hc⟩ := h
  have e : htmlEscape (b ++ [c]) = htmlEscape b ++ escapeChar c := by simp [htmlEscape]
  rw [e]
  apply EndsSolid.prepend
  by_cases h1 : c = '&'; · subst h1; exact ⟨S "&amp", ';', rfl, by decide⟩
  by_cases h2 : c = '<'; · subst h2; exact ⟨S "&lt", ';', rfl, by decide⟩
  by_cases h3 : c = '>'; · subst h3; exact ⟨S "&gt", ';', rfl, by decide⟩
  by_cases h4 : c = '"'; · subst h4; exact ⟨S "&quot", ';', rfl, by decide⟩
  by_cases h5 : c = '\''; · subst h5; exact ⟨S "&#x27", ';', rfl, by decide⟩
  rw [escapeChar_other h1 h2 h3 h4 h5]
  exact ⟨[], c, rfl, hc⟩

theorem endsSolid_renderSvs {s : SVS} (h : SvsEndsSolid s) : EndsSolid (renderSvs s) := by
  unfold SvsEndsSolid at h
  obtain ⟨init, p, rfl⟩ : ∃ init p, s = init ++ [p] := by
    cases hs : s.getLast? with
    | none => rw [hs] at h; exact h.elim
    | some p =>
      have hne : s ≠ [] := by rintro rfl; simp at hs
      exact ⟨s.dropLast, s.getLast hne, (List.dropLast_concat_getLast hne).symm⟩
  rw [renderSvs_append]
  apply EndsSolid.prepend
  simp only [List.getLast?_append, List.getLast?_singleton, Option.some_or] at h
  cases p with
  | text t => simpa [renderSvs] using endsSolid_escape h
  | num n =>
    simp only [renderSvs, List.flatMap_cons, List.flatMap_nil, List.append_nil]
    rw [tagBody_eq _ _ _ (nl_not_mem_renderNumber n)]
    exact (endsSolid_closeTag "span").prepend _

theorem quantity_frag_words (q : Quantity) (h : QOK q) :
    ∃ ts, Frag (renderQuantity q) ts ∧ wsWords (textOf ts) = wsWords (plainQuantityFull q) := by
  cases hu : q.unit with
  | none =>
    have : OneLineQ q := ⟨by simp [conversions, hu], fun u hu' => by rw [hu] at hu'; cases hu'⟩
    exact ⟨qToks q, qToks_frag q this, by rw [qToks_text]; simp [plainQuantityFull, hu]⟩
  | some u =>
    obtain ⟨hs, hub⟩ := h u hu
    by_cases hc : conversions q = []
    · exact ⟨qToks q, qToks_frag q (noBreak_oneLineQ q u hu hc hs hub),
        by rw [qToks_text]; simp [plainQuantityFull, hu, hc]⟩
    · exact ⟨_, qLines_frag q u hu hc hs hub, by simpa using qLines_words q u hu hc⟩

theorem collapse_of_eq {a b : Str} (h : a = b) : collapseWs a = collapseWs b := by rw [h]

theorem noBreakSvs_nl {s : SVS} (h : NoBreakSvs s) : ∀ t, Part.text t ∈ s → '\n' ∉ t := fun t ht => (h t ht).nl

/-- C04.5 for every cell body, quantities with alternative forms included: up to white space the visible text is
    the amount (with the alternative forms the renderer lists) followed by the description resp. the name -/
theorem renderCellBody_text_full (pre : Str) (t : Tree) (h : CellOKFull pre t) :
    collapseWs (textOf (tokens (renderCellBody pre t))) = collapseWs (plainCellFull t) := by
  cases t with
  | step d inputs => exact collapse_of_eq (renderCellBody_text pre _ h)
  | sub body names showNames => exact collapse_of_eq (renderCellBody_text pre _ h)
  | ingredient d q =>
    cases q with
    | none => exact collapse_of_eq (renderCellBody_text pre _ (by intro q' hq'; cases hq'))
    | some q =>
      obtain ⟨ts, hf, hw⟩ := quantity_frag_words q (h q rfl)
      have hfrag : Frag (renderCellBody pre (.ingredient d (some q))) (ts ++ [.text [' ']] ++ svsToks d) :=
        (hf.append (Frag.raw raw_sp)).append (svsToks_frag d)
      unfold collapseWs
      rw [tokens_of_frag hfrag, textOf_norm]
      simp only [textOf_append, textOf_cons_text, svsToks_text, plainCellFull,
        List.append_assoc, List.singleton_append]
      rw [wsWords_append_ws _ _ _ isAsciiWs_sp, wsWords_append_ws _ _ _ isAsciiWs_sp, hw]
  | reference sub idx amount =>
    cases amount with
    | proportion v p w s => exact collapse_of_eq (renderCellBody_text pre _ h)
    | quantity q =>
      obtain ⟨hq, hp, hn, hsolid⟩ := h
      by_cases hc : conversions q = []
      · have hone : OneLineQ q := ⟨hc, fun u hu => ⟨(hq u hu).1.nl, (hq u hu).2.nl⟩⟩
        have := renderCellBody_text pre (.reference sub idx (.quantity q)) ⟨⟨hone, hp.nl⟩, noBreakSvs_nl hn⟩
        rw [this]
        unfold collapseWs
        simp only [plainCell, plainCellFull, plainAmount, plainQuantityFull]
        cases hu : q.unit <;> simp [hc]
      · -- several lines inside the `<a>`
        obtain ⟨u, hu⟩ : ∃ u, q.unit = some u := by
          cases hu : q.unit with
          | none => simp [conversions, hu] at hc
          | some u => exact ⟨u, rfl⟩
        obtain ⟨hs, hub⟩ := hq u hu
        let name := refName sub idx
        let tail : Str := htmlEscape q.prep ++ [' '] ++ renderSvs name
        let tailToks : List Token := [.text q.prep] ++ [.text [' ']] ++ svsToks name
        have htail : Frag tail tailToks := ((Frag.escape _).append (Frag.raw raw_sp)).append (svsToks_frag name)
        have htnb : NoBreak tail :=
          ((noBreak_htmlEscape hp).append (by decide)).append (noBreak_renderSvs hn)
        have htsolid : EndsSolid tail := (endsSolid_renderSvs (hsolid hc).1).prepend _
        have hvalid := postLast_valid tail tailToks (qLines q u) htail htnb htsolid (qLines_valid q u hs hub)
        have hne : qLines q u ≠ [] := tagLines_ne_nil _ _ _
        have hbody : renderAmount (.quantity q) ++ renderSvs name = linesStr (postLast tail tailToks (qLines q u)) := by
          rw [linesStr_postLast _ _ _ hne]
          simp [renderAmount, renderQuantity_lines q u hu hc hs hub, tail]
        have hstr : renderCellBody pre (.reference sub idx (.quantity q)) =
            linesStr (tagLines "a" [("href", '#' :: anchorId pre name)] (postLast tail tailToks (qLines q u))) := by
          rw [← tagLines_str _ _ _ hvalid, ← hbody]; rfl
        have hfrag := linesFrag _ (tagLines_valid "a" [("href", '#' :: anchorId pre name)] _ isName_a
          (by
            intro x hx
            simp only [List.mem_singleton] at hx
            subst hx
            exact ⟨isName_href, NoBreak.cons (by decide) (anchorId_noBreak pre name (hsolid hc).2)⟩) hvalid)
        unfold collapseWs
        rw [hstr, tokens_of_frag hfrag, textOf_norm, wsWords_linesToks, lineWords_tagLines, ← wsWords_linesToks,
          textOf_linesToks_postLast _ _ _ hne]
        have := qLines_words q u hu hc
        simp only [tailToks, textOf_cons_text, svsToks_text,
          plainCellFull, List.append_assoc, List.singleton_append] at this ⊢
        rw [← List.append_assoc, wsWords_append_ws _ _ _ isAsciiWs_sp, this, wsWords_append_ws _ _ _ isAsciiWs_sp]

-- ---------------------------------------------------------------- examples and witnesses

/-- a reference to an output with a nasty name, half of it: the name is text inside the `<a>`, the href is an id -/
example : tokens (renderCellBody (S "r1-") (.reference (.sub (.step [] []) [[.text (S "<b>&amp;\"'")]] true) 0
      (.proportion (some ⟨mkRat 1 2, .frac⟩) false none (S " *<i>")))) =
    [.open (S "a") [(S "href", S "#r1-b--amp")], .open (S "span") [(S "class", S "rg-proportion")],
      .open (S "sup") [], .text (S "1"), .close (S "sup"), .text (S "⁄"), .open (S "sub") [], .text (S "2"),
      .close (S "sub"), .text (S " ×<i>"), .close (S "span"), .text (S " <b>&amp;\"'"), .close (S "a")] := by
  decide +kernel
/-- a header with two outputs -/
example : textOf (tokens (renderCellBody (S "r1-") (.sub (.step [] []) [[.text (S "<b>&amp;\"'")], [.text (S "x")]] true))) =
    S "\n  <b>&amp;\"'\n  x\n" := by decide +kernel
example : skeleton (tokens (renderCellBody (S "r1-") (.sub (.step [] []) [[.text (S "<b>&amp;\"'")], [.text (S "x")]] true))) =
    [.open (S "ul") [(S "class", S "rg-sub-recipe-output-list")], .text [], .open (S "li") [(S "id", [])], .text [],
      .close (S "li"), .text [], .open (S "li") [(S "id", [])], .text [], .close (S "li"), .text [], .close (S "ul")] := by
  decide +kernel

/-- the hypotheses of `renderCellBody_text_full` are needed: a referenced name with a newline makes the `<a>` body
    multi-line, and `tagBody` strips the white space at its end, the no-break space included -/
theorem renderCellBody_text_newline_witness :
    ∃ pre t, collapseWs (textOf (tokens (renderCellBody pre t))) ≠ collapseWs (plainCellFull t) :=
  ⟨[], .reference (.sub (.step [] []) [[.text (S "x\ny ")]] true) 0 Amount.whole, by decide +kernel⟩

/-- the hypotheses of `renderCellBody_skeleton` are needed: a newline in a referenced name changes the layout of
    the `<a>` body, so that white-space text appears between the tags -/
theorem renderCellBody_skeleton_newline_witness :
    ∃ pre t₁ t₂, SameCell t₁ t₂ ∧
      skeleton (tokens (renderCellBody pre t₁)) ≠ skeleton (tokens (renderCellBody pre t₂)) :=
  ⟨[], .reference (.sub (.step [] []) [[.text (S "x")]] true) 0 (.proportion (some ⟨mkRat 1 2, .frac⟩) false none []),
    .reference (.sub (.step [] []) [[.text (S "x\ny")]] true) 0 (.proportion (some ⟨mkRat 1 2, .frac⟩) false none []),
    by simp [SameCell, SameA, SameProp, SameEmpty, SameShape, refName, subNames, S], by decide +kernel⟩

end RG.C04
