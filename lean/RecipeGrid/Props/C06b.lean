import RecipeGrid.Props.C06
import RecipeGrid.Lemmas.Nested
/-! C06, continued: **nested expressions, statements and whole blocks are recovered verbatim**.

    `Props/C06.lean` ends with the flat recipes (`reference, action, …`).  This file specifies the
    full expression grammar

      expr          <- step / reference / "(" sp? ltr_shorthand sp? ")"
      step          <- action hsp? "(" sp? expr (sp? "," sp? expr)* (sp? ",")? sp? ")"
      ltr_shorthand <- expr (hsp? "," hsp? action)*
      stmt          <- (output_list hsp? r":?=" hsp?)? ltr_shorthand eol

    as an abstract syntax (`XExpr`, `XStmt`), a *spelling* (`Spelling`: the white space at every
    place of the tree where the grammar allows some, trailing commas, ends of lines - chosen
    independently at every node, which is addressed by its `Path`), a printer (`printX`, `printStmt`,
    `printBlock`) and the expected AST with the offsets the parser records (`astOf`, `astOfStmt`,
    `astOfBlock`); none of these mentions the parser.

    The shorthand `expr, action, …` is not an expression of the grammar by itself (`f(a, b)` has two
    arguments); it occurs in parentheses (`XExpr.paren e actions`) and in statements (`XStmt.actions`).

    Main theorems (no fuel or position assumptions beyond the stated ones):
    * `expr_roundtrip` - `expr` on `pre ++ printX sp [] x ++ rest` returns `astOf sp [] pre.length x`
      and stops after the printed text, for every fuel `≥ x.depth`;
      `step_fails_on_leaf`, `expr_on_leaf`, `action_stops_before_paren` spell out the ordered choice;
    * `depth_le_length` - the nesting depth is at most the length of the text (+1), so the fuel that
      `stmt` derives from the remaining text suffices;
    * `stmt_roundtrip`, `recipe_roundtrip` - statements with outputs, whole blocks through `parse`;
    * `eraseExpr_astOf`, `parse_erase_eq_bare`, `two_spellings_same_ast_mod_offsets` - modulo offsets
      the AST is a function of the abstract syntax alone;
    * `xok_of_plain`, `blockOk_of_plain`, `plain_recipe_roundtrip`, `plain_two_spellings` - for names
      that are single naked or quoted strings all side conditions hold in every permitted spelling.

    Side conditions (`XOk`, `XStmt.Ok`, `BlockOk`): those of `Props/C06.lean` for every reference and
    every string where it stands (`RefLit.Ok`, `StringLit.Ok`), plus `RefLit.NotStep` (a reference
    must not be followed by `blanks (` - otherwise it *is* a step, see the example `2 eggs(a)`) and
    `XStmt.NoTargetCond`. -/
namespace RG.C06
open RG.Parser

/-! ## Abstract expressions -/

mutual
/-- an expression: leaves are references as in `Props/C06.lean` (optional amount, name) -/
inductive XExpr where
  /-- `2 eggs`, `flour` -/
  | leaf (r : RefLit)
  /-- `action(arg, …)`; at least one argument -/
  | step (name : StringLit) (args : XArgs)
  /-- `( expr, action, … )`: a parenthesised left-to-right shorthand (possibly without actions) -/
  | paren (e : XExpr) (actions : List StringLit)
/-- a non-empty list of arguments -/
inductive XArgs where
  | one (e : XExpr)
  | cons (e : XExpr) (rest : XArgs)
end

mutual
/-- the nesting depth (the fuel `expr` needs) -/
def XExpr.depth : XExpr → Nat
  | .leaf _ => 1
  | .step _ args => args.depth + 1
  | .paren e _ => e.depth + 1
def XArgs.depth : XArgs → Nat
  | .one e => e.depth
  | .cons e rest => max e.depth rest.depth
end

def XArgs.first : XArgs → XExpr
  | .one e => e
  | .cons e _ => e

/-! ## Spellings -/

/-- the address of a node: the child indices from the node up to the root (arguments of a step are
    numbered from 0, the expression inside parentheses and the expression of a statement are child 0;
    statement `k` of a block has the address `[k]`) -/
abbrev Path := List Nat

/-- a spelling chooses, independently at every node of the tree, everything the grammar leaves open -/
structure Spelling where
  /-- step: blanks between the action and its `(` -/
  nameGap : Path → Str
  /-- step, parentheses: white space after `(` -/
  afterOpen : Path → Str
  /-- step: white space before the comma in front of argument `k` (`k ≥ 1`) -/
  beforeComma : Path → Nat → Str
  /-- step: white space after that comma -/
  afterComma : Path → Nat → Str
  /-- step: a trailing comma (with the white space before it), or none -/
  trailing : Path → Option Str
  /-- step, parentheses: white space before `)` -/
  beforeClose : Path → Str
  /-- shorthand (in parentheses or in a statement): blanks before the comma of action `k` -/
  actGap1 : Path → Nat → Str
  /-- shorthand: blanks after that comma -/
  actGap2 : Path → Nat → Str
  /-- statement: blanks before / after the comma in front of output `k` (`k ≥ 1`) -/
  outGap1 : Path → Nat → Str
  outGap2 : Path → Nat → Str
  /-- statement: blanks before / after the assignment sign -/
  assignGap1 : Path → Str
  assignGap2 : Path → Str
  /-- statement: its end of line -/
  eol : Path → EolLit
  /-- block: white space at the very beginning -/
  lead : Str

/-- the permitted spellings: blanks `[ \t]*` where the grammar says `hsp?`, any white space `\s*`
    where it says `sp?`, well-formed ends of lines -/
structure Spelling.WF (sp : Spelling) : Prop where
  nameGap : ∀ p, IsBlanks (sp.nameGap p)
  afterOpen : ∀ p, IsSpaces (sp.afterOpen p)
  beforeComma : ∀ p k, IsSpaces (sp.beforeComma p k)
  afterComma : ∀ p k, IsSpaces (sp.afterComma p k)
  trailing : ∀ p ws, sp.trailing p = some ws → IsSpaces ws
  beforeClose : ∀ p, IsSpaces (sp.beforeClose p)
  actGap1 : ∀ p k, IsBlanks (sp.actGap1 p k)
  actGap2 : ∀ p k, IsBlanks (sp.actGap2 p k)
  outGap1 : ∀ p k, IsBlanks (sp.outGap1 p k)
  outGap2 : ∀ p k, IsBlanks (sp.outGap2 p k)
  assignGap1 : ∀ p, IsBlanks (sp.assignGap1 p)
  assignGap2 : ∀ p, IsBlanks (sp.assignGap2 p)
  eol : ∀ p, (sp.eol p).WF
  lead : IsSpaces sp.lead

/-! ## The printer -/

/-- the end of a step: an optional trailing comma, white space, `)` -/
def printClose : Option Str → Str → Str
  | none, ws => ws ++ [')']
  | some ws1, ws => ws1 ++ ',' :: (ws ++ [')'])

/-- the `, action` items of a shorthand at node `p`, numbered from `k` -/
def actLits (sp : Spelling) (p : Path) : Nat → List StringLit → List CommaLit
  | _, [] => []
  | k, a :: as => ⟨sp.actGap1 p k, sp.actGap2 p k, a⟩ :: actLits sp p (k + 1) as

mutual
def printX (sp : Spelling) : Path → XExpr → Str
  | _, .leaf r => r.print
  | p, .step name args =>
    name.print ++ (sp.nameGap p ++ '(' :: (sp.afterOpen p ++
      (printArgs sp p 0 args ++ printClose (sp.trailing p) (sp.beforeClose p))))
  | p, .paren e actions =>
    '(' :: (sp.afterOpen p ++ ((printX sp (0 :: p) e ++ printCommas (actLits sp p 0 actions))
      ++ (sp.beforeClose p ++ [')'])))
/-- the arguments of the step at `p`, numbered from `k` -/
def printArgs (sp : Spelling) : Path → Nat → XArgs → Str
  | p, k, .one e => printX sp (k :: p) e
  | p, k, .cons e rest =>
    printX sp (k :: p) e ++ (sp.beforeComma p (k + 1) ++ ',' :: (sp.afterComma p (k + 1) ++
      printArgs sp p (k + 1) rest))
end

/-! ## The expected AST -/

mutual
/-- the AST of `x` written (with spelling `sp`, at node `p`) at offset `off` -/
def astOf (sp : Spelling) : Path → Nat → XExpr → AExpr
  | _, off, .leaf r => r.value off
  | p, off, .step name args =>
    .step (name.value off)
      (astArgs sp p 0 (off + name.print.length + (sp.nameGap p).length + 1 + (sp.afterOpen p).length) args)
  | p, off, .paren e actions =>
    (commaValues (off + 1 + (sp.afterOpen p).length + (printX sp (0 :: p) e).length) (actLits sp p 0 actions)).foldl
      (fun e action => .step action [e]) (astOf sp (0 :: p) (off + 1 + (sp.afterOpen p).length) e)
def astArgs (sp : Spelling) : Path → Nat → Nat → XArgs → List AExpr
  | p, k, off, .one e => [astOf sp (k :: p) off e]
  | p, k, off, .cons e rest =>
    astOf sp (k :: p) off e ::
      astArgs sp p (k + 1)
        (off + (printX sp (k :: p) e).length + (sp.beforeComma p (k + 1)).length + 1 + (sp.afterComma p (k + 1)).length)
        rest
end

/-! ## Side conditions -/

/-- after optional blanks, no `(` -/
def NoParen (rest : Str) : Prop :=
  ∃ bl r, rest = bl ++ r ∧ IsBlanks bl ∧ ∀ c, r.head? = some c → isHsp c = false ∧ c ≠ '('

/-- the ordered choice `step / reference`: `step` is tried first, reads a `string` and wants a `(`.
    For a reference without amount that string is the name, so the text after the reference must
    not be `blanks (`.  A reference *with* an amount is tokenised in an unrelated way by `string`
    (`2 eggs` is one naked string; `1/2 cup sugar` gives the string `1`); the condition is that the
    string read at its start - whatever it is - is not followed by `blanks (`. -/
def RefLit.NotStep (rest : Str) (r : RefLit) : Prop :=
  match r.amount with
  | none => NoParen rest
  | some _ => ∃ (s : StringLit) (srest : Str), s.Ok false srest ∧ s.print ++ srest = r.print ++ rest ∧ NoParen srest

mutual
/-- admissible expressions in front of `rest`: every reference and every action is admissible
    where it stands (the side conditions of `Props/C06.lean`, with the text that follows it in the
    printed expression), and no reference can be mistaken for the beginning of a step -/
def XOk (sp : Spelling) : Path → Str → XExpr → Prop
  | _, rest, .leaf r => r.Ok rest ∧ r.NotStep rest
  | p, rest, .step name args =>
    name.Ok false (sp.nameGap p ++ '(' :: (sp.afterOpen p ++
      (printArgs sp p 0 args ++ (printClose (sp.trailing p) (sp.beforeClose p) ++ rest))))
    ∧ ArgsOk sp p 0 (printClose (sp.trailing p) (sp.beforeClose p) ++ rest) args
  | p, rest, .paren e actions =>
    XOk sp (0 :: p) (printCommas (actLits sp p 0 actions) ++ (sp.beforeClose p ++ ')' :: rest)) e
    ∧ CommasOk (sp.beforeClose p ++ ')' :: rest) (actLits sp p 0 actions)
def ArgsOk (sp : Spelling) : Path → Nat → Str → XArgs → Prop
  | p, k, rest, .one e => XOk sp (k :: p) rest e
  | p, k, rest, .cons e as =>
    XOk sp (k :: p) (sp.beforeComma p (k + 1) ++ ',' :: (sp.afterComma p (k + 1) ++
      (printArgs sp p (k + 1) as ++ rest))) e
    ∧ ArgsOk sp p (k + 1) rest as
end

/-! ## Bridges to the parser lemmas -/

theorem printClose_eq (trail : Option Str) (ws : Str) : printClose trail ws = closeTxt trail ws := by
  cases trail <;> rfl

/-- the arguments after the first one, in the vocabulary of `exprAt_step` -/
def tailItems (sp : Spelling) (p : Path) : Nat → XArgs → List ArgItem
  | _, .one _ => []
  | k, .cons _ as =>
    ⟨sp.beforeComma p (k + 1), sp.afterComma p (k + 1), printX sp ((k + 1) :: p) as.first,
      fun i => astOf sp ((k + 1) :: p) i as.first⟩ :: tailItems sp p (k + 1) as

theorem printArgs_eq (sp : Spelling) (p : Path) : ∀ (k : Nat) (as : XArgs),
    printArgs sp p k as = printX sp (k :: p) as.first ++ printArgItems (tailItems sp p k as)
  | k, .one e => by simp [printArgs, XArgs.first, tailItems, printArgItems]
  | k, .cons e as => by
    simp only [printArgs, XArgs.first, tailItems, printArgItems, ArgItem.print, printArgs_eq sp p (k + 1) as,
      List.append_assoc, List.cons_append]

theorem astArgs_eq (sp : Spelling) (p : Path) : ∀ (k off : Nat) (as : XArgs),
    astArgs sp p k off as = astOf sp (k :: p) off as.first
      :: argItemVals (off + (printX sp (k :: p) as.first).length) (tailItems sp p k as)
  | k, off, .one e => by simp [astArgs, XArgs.first, tailItems, argItemVals]
  | k, off, .cons e as => by
    simp only [astArgs, XArgs.first, tailItems, argItemVals, astArgs_eq sp p (k + 1) _ as, ArgItem.print,
      List.length_append, List.length_cons]
    congr 3
    omega

theorem isBlanks_iff (s : Str) : IsBlanks s ↔ ∀ c ∈ s, isHsp c = true := Iff.rfl
theorem isSpaces_iff (s : Str) : IsSpaces s ↔ ∀ c ∈ s, isReSpace c = true := Iff.rfl

/-- a reference that cannot be mistaken for the beginning of a step is an expression -/
theorem exprAt_leaf (r : RefLit) (rest : Str) (hok : r.Ok rest) (hns : r.NotStep rest) :
    ExprAt 1 r.print rest (fun i => r.value i) := by
  have href := referenceAt_of_ok r rest hok
  cases ha : r.amount with
  | none =>
    have hp : r.print = r.name.print := by simp [RefLit.print, ha]
    have hn : StringAt false r.name.print rest (fun i => r.name.value i) := by
      have : r.Ok rest := hok
      simp only [RefLit.Ok, ha] at this
      exact stringAt_of_ok false _ _ this.1
    have hns' : NoParen rest := by simpa [RefLit.NotStep, ha] using hns
    obtain ⟨bl, r', e, hbl, hr⟩ := hns'
    exact exprAt_reference_of_string href hn (by rw [hp]) e hbl hr
  | some abl =>
    have hns' : ∃ (s : StringLit) (srest : Str), s.Ok false srest ∧ s.print ++ srest = r.print ++ rest
        ∧ NoParen srest := by simpa [RefLit.NotStep, ha] using hns
    obtain ⟨s, srest, hs, e, bl, r', e', hbl, hr⟩ := hns'
    exact exprAt_reference_of_string href (stringAt_of_ok false s srest hs) e e' hbl hr

mutual
/-- every admissible expression is an expression, in every text, from fuel `x.depth` on -/
theorem exprAt_printX (sp : Spelling) (hsp : sp.WF) : ∀ (x : XExpr) (p : Path) (rest : Str),
    XOk sp p rest x → ExprAt x.depth (printX sp p x) rest (fun i => astOf sp p i x)
  | .leaf r, p, rest, h => by
    simp only [XOk] at h
    simpa [XExpr.depth, printX, astOf] using exprAt_leaf r rest h.1 h.2
  | .step name args, p, rest, h => by
    simp only [XOk] at h
    obtain ⟨hname, hargs⟩ := h
    obtain ⟨h1, hitems⟩ := argsAt sp hsp args p 0 _ hargs
    rw [printArgs_eq, printClose_eq, List.append_assoc] at hname
    rw [printClose_eq] at h1 hitems
    have := exprAt_step (stringAt_of_ok false name _ hname) (hsp.nameGap p) (hsp.afterOpen p) h1 hitems
      (hsp.trailing p) (hsp.beforeClose p)
    simpa [XExpr.depth, printX, astOf, stepTxt, printArgs_eq, astArgs_eq, printClose_eq, List.append_assoc]
      using this
  | .paren e actions, p, rest, h => by
    simp only [XOk] at h
    obtain ⟨he, hacts⟩ := h
    have h1 := exprAt_printX sp hsp e (0 :: p) _ he
    rw [← printCommaItems_map] at h1
    have hl := ltrAt_of h1 (commaItemsOk_map _ _ hacts) (noComma_of_spaces_rparen (hsp.beforeClose p))
    have := exprAt_paren hl (hsp.afterOpen p) (hsp.beforeClose p)
    simpa [XExpr.depth, printX, astOf, printCommaItems_map, commaItemVals_map, List.append_assoc, Nat.add_assoc]
      using this
theorem argsAt (sp : Spelling) (hsp : sp.WF) : ∀ (as : XArgs) (p : Path) (k : Nat) (rest : Str),
    ArgsOk sp p k rest as →
      ExprAt as.depth (printX sp (k :: p) as.first) (printArgItems (tailItems sp p k as) ++ rest)
        (fun i => astOf sp (k :: p) i as.first)
      ∧ ArgItemsOk as.depth rest (tailItems sp p k as)
  | .one e, p, k, rest, h => by
    simp only [ArgsOk] at h
    have := exprAt_printX sp hsp e (k :: p) rest h
    exact ⟨by simpa [XArgs.depth, XArgs.first, tailItems, printArgItems] using this, trivial⟩
  | .cons e as, p, k, rest, h => by
    simp only [ArgsOk] at h
    obtain ⟨he, has⟩ := h
    have h1 := exprAt_printX sp hsp e (k :: p) _ he
    obtain ⟨h2, h3⟩ := argsAt sp hsp as p (k + 1) rest has
    refine ⟨?_, hsp.beforeComma p (k + 1), hsp.afterComma p (k + 1), ?_, ?_⟩
    · have := h1.mono (Nat.le_max_left e.depth as.depth)
      simpa [XArgs.depth, XArgs.first, tailItems, printArgItems, ArgItem.print, printArgs_eq, List.append_assoc]
        using this
    · exact h2.mono (Nat.le_max_right e.depth as.depth)
    · exact ArgItemsOk.mono (Nat.le_max_right e.depth as.depth) h3
end

/-- **nested expressions are recovered verbatim**: for every abstract expression, every permitted
    spelling, wherever the printed text stands and whatever admissible text follows it, the rule
    `expr` - with any fuel from the nesting depth on - consumes exactly the printed text and returns
    the expected AST -/
theorem expr_roundtrip (sp : Spelling) (hsp : sp.WF) (x : XExpr) (pre rest : Str) (z : Bool) (fuel : Nat)
    (hfuel : x.depth ≤ fuel) (hok : XOk sp [] rest x) :
    expr fuel (pre ++ printX sp [] x ++ rest).toArray ⟨pre.length, z⟩
      = some (astOf sp [] pre.length x, ⟨(pre ++ printX sp [] x).length, z⟩) := by
  have := exprAt_printX sp hsp x [] rest hok (pre ++ printX sp [] x ++ rest).toArray pre.length z fuel
    (by simp) hfuel
  simpa using this

/-- … in particular from the start of the text -/
theorem expr_roundtrip_start (sp : Spelling) (hsp : sp.WF) (x : XExpr) (rest : Str) (fuel : Nat)
    (hfuel : x.depth ≤ fuel) (hok : XOk sp [] rest x) :
    expr fuel (printX sp [] x ++ rest).toArray ⟨0, false⟩
      = some (astOf sp [] 0 x, ⟨(printX sp [] x).length, false⟩) := by
  have := expr_roundtrip sp hsp x [] rest false fuel hfuel hok
  simpa using this

/-! ## The fuel: the nesting depth is bounded by the length of the text -/

theorem printClose_length_pos (trail : Option Str) (ws : Str) : 0 < (printClose trail ws).length := by
  cases trail <;> simp [printClose] <;> omega

mutual
theorem depth_le_length (sp : Spelling) : ∀ (x : XExpr) (p : Path), x.depth ≤ (printX sp p x).length + 1
  | .leaf r, p => by simp [XExpr.depth]
  | .step name args, p => by
    have h1 := argsDepth_le_length sp args p 0
    have h2 := printClose_length_pos (sp.trailing p) (sp.beforeClose p)
    simp only [XExpr.depth, printX, List.length_append, List.length_cons]
    omega
  | .paren e actions, p => by
    have h1 := depth_le_length sp e (0 :: p)
    simp only [XExpr.depth, printX, List.length_append, List.length_cons, List.length_nil]
    omega
theorem argsDepth_le_length (sp : Spelling) : ∀ (as : XArgs) (p : Path) (k : Nat),
    as.depth ≤ (printArgs sp p k as).length + 1
  | .one e, p, k => by simpa [XArgs.depth, printArgs] using depth_le_length sp e (k :: p)
  | .cons e as, p, k => by
    have h1 := depth_le_length sp e (k :: p)
    have h2 := argsDepth_le_length sp as p (k + 1)
    simp only [XArgs.depth, printArgs, List.length_append, List.length_cons]
    omega
end

/-- an admissible expression is not the empty text -/
theorem printX_ne_nil (sp : Spelling) (p : Path) (rest : Str) : ∀ x : XExpr, XOk sp p rest x → printX sp p x ≠ []
  | .leaf r, h => by
    simp only [XOk] at h
    simpa [printX] using RefLit.print_ne_nil h.1
  | .step name args, _ => by simp [printX]
  | .paren e actions, _ => by simp [printX]

/-! ## Statements -/

/-- the outputs of a statement and the kind of its assignment sign (`:=` for `named`) -/
structure XTarget where
  output : StringLit
  more : List StringLit
  named : Bool

/-- a statement: optional outputs, an expression, actions applied to it from left to right -/
structure XStmt where
  target : Option XTarget
  expr : XExpr
  actions : List StringLit

/-- the `, output` items of the statement at `p`, numbered from `k` -/
def outLits (sp : Spelling) (p : Path) : Nat → List StringLit → List CommaLit
  | _, [] => []
  | k, a :: as => ⟨sp.outGap1 p k, sp.outGap2 p k, a⟩ :: outLits sp p (k + 1) as

/-- the target as written: `output (, output)* blanks (:= | =) blanks` -/
def targetLit (sp : Spelling) (p : Path) (g : XTarget) : Target :=
  ⟨g.output, outLits sp p 1 g.more, sp.assignGap1 p, g.named, sp.assignGap2 p⟩

def printTarget (sp : Spelling) (p : Path) : Option XTarget → Str
  | none => []
  | some g => (targetLit sp p g).print

/-- the text of the shorthand of the statement at `p` -/
def printLtr (sp : Spelling) (p : Path) (s : XStmt) : Str :=
  printX sp (0 :: p) s.expr ++ printCommas (actLits sp p 0 s.actions)

def printStmt (sp : Spelling) (p : Path) (s : XStmt) : Str :=
  printTarget sp p s.target ++ (printLtr sp p s ++ (sp.eol p).print)

/-- the statement written at offset `off`: `e, a1, a2` is `a2(a1(e))` -/
def astOfStmt (sp : Spelling) (p : Path) (off : Nat) (s : XStmt) : AStmt :=
  let o := off + (printTarget sp p s.target).length
  { expr := (commaValues (o + (printX sp (0 :: p) s.expr).length) (actLits sp p 0 s.actions)).foldl
      (fun e action => .step action [e]) (astOf sp (0 :: p) o s.expr)
    outputs := s.target.map fun g =>
      g.output.value off :: commaValues (off + g.output.print.length) (outLits sp p 1 g.more)
    named := (s.target.map (·.named)).getD false }

/-- the line from the expression up to the newline character (or the end of the text) -/
def XStmt.line (sp : Spelling) (p : Path) (s : XStmt) : Str :=
  printX sp (0 :: p) s.expr ++ (printCommas (actLits sp p 0 s.actions) ++ (sp.eol p).blanks)

/-- a statement *without* outputs must not be mistaken for one with outputs.  The rule `stmt` first
    tries `output_list hsp? r":?="`, and an output list starts with a `string`.  When the statement
    starts with an action and its `(`, with a `(`, or with a reference without amount, this attempt
    fails by itself.  A reference with an amount at the start of the statement is tokenised in an
    unrelated way by `string`; then (as for the flat statements) the line must contain neither `=`
    nor a backslash. -/
def XStmt.NoTargetCond (sp : Spelling) (p : Path) (s : XStmt) : Prop :=
  match s.expr with
  | .leaf r => r.amount.isSome = true → ∀ c ∈ s.line sp p, c ≠ '=' ∧ c ≠ '\\'
  | _ => True

/-- admissible statements in front of `rest` -/
def XStmt.Ok (sp : Spelling) (p : Path) (rest : Str) (s : XStmt) : Prop :=
  XOk sp (0 :: p) (printCommas (actLits sp p 0 s.actions) ++ ((sp.eol p).print ++ rest)) s.expr
  ∧ CommasOk ((sp.eol p).print ++ rest) (actLits sp p 0 s.actions)
  ∧ (sp.eol p).Follow rest
  ∧ match s.target with
    | none => s.NoTargetCond sp p
    | some g =>
      g.output.Ok false (printCommas (outLits sp p 1 g.more) ++ (sp.assignGap1 p ++ (printAssign g.named ++
        (sp.assignGap2 p ++ (printLtr sp p s ++ ((sp.eol p).print ++ rest))))))
      ∧ CommasOk (sp.assignGap1 p ++ (printAssign g.named ++
        (sp.assignGap2 p ++ (printLtr sp p s ++ ((sp.eol p).print ++ rest))))) (outLits sp p 1 g.more)

/-- the text from the expression on: the line, then a newline character or the end of the text -/
theorem xline_split (sp : Spelling) (hsp : sp.WF) (p : Path) (s : XStmt) (rest : Str)
    (hf : (sp.eol p).Follow rest) :
    ∃ tail, printX sp (0 :: p) s.expr ++ (printCommas (actLits sp p 0 s.actions) ++ ((sp.eol p).print ++ rest))
        = s.line sp p ++ tail
      ∧ ∀ c, tail.head? = some c → isNewline c = true := by
  obtain ⟨r, e, _, hr⟩ := eol_split (sp.eol p) rest (hsp.eol p) hf
  exact ⟨r, by rw [e]; simp [XStmt.line, List.append_assoc], hr⟩

/-- no target is found at the start of an admissible statement without outputs -/
theorem noTargetAt_of_xok (sp : Spelling) (hsp : sp.WF) (p : Path) (s : XStmt) (rest : Str) (h : s.Ok sp p rest)
    (ht : s.target = none) :
    NoTargetAt (printX sp (0 :: p) s.expr ++ (printCommas (actLits sp p 0 s.actions) ++ ((sp.eol p).print ++ rest))) := by
  obtain ⟨hx, hacts, hfollow, htarget⟩ := h
  rw [ht] at htarget
  have hwf := hsp.eol p
  have hnoassign := noAssign_of_eol (sp.eol p) rest hwf hfollow
  cases hs : s.expr with
  | leaf r =>
    rw [hs] at hx
    simp only [XOk] at hx
    cases ha : r.amount with
    | none =>
      have hp : r.print = r.name.print := by simp [RefLit.print, ha]
      have hn : StringAt false r.print
          (printCommaItems ((actLits sp p 0 s.actions).map CommaLit.toItem) ++ ((sp.eol p).print ++ rest))
          (fun i => r.name.value i) := by
        rw [hp, printCommaItems_map]
        have : r.Ok _ := hx.1
        simp only [RefLit.Ok, ha] at this
        exact stringAt_of_ok false _ _ this.1
      have := noTargetAt_of_outputs hn (commaItemsOk_map _ _ hacts) hnoassign
      simpa [printX, printCommaItems_map, List.append_assoc] using this
    | some abl =>
      obtain ⟨tail, e, htail⟩ := xline_split sp hsp p s rest hfollow
      have hc : ∀ c ∈ s.line sp p, c ≠ '=' ∧ c ≠ '\\' := by
        have : s.NoTargetCond sp p := htarget
        simp only [XStmt.NoTargetCond, hs] at this
        exact this (by simp [ha])
      rw [hs] at e
      rw [e]
      exact noTargetAt_of_line hc htail
  | step name args =>
    rw [hs] at hx
    simp only [XOk] at hx
    have hn := stringAt_of_ok false name _ hx.1
    have := noTargetAt_of_outputs (as := []) (by simpa [printCommaItems] using hn) trivial
      (noAssign_of_blanks_lparen (hsp.nameGap (0 :: p)))
    simpa [printX, printCommaItems, List.append_assoc] using this
  | paren e actions =>
    apply noTargetAt_of_head
    intro c hc
    simp only [printX, List.cons_append, List.head?_cons, Option.some.injEq] at hc
    subst hc
    exact noAtomStart_lparen

/-- every admissible statement is a statement; the fuel that `stmt` derives from the length of the
    remaining text covers the nesting depth -/
theorem stmtAt_of_xok (sp : Spelling) (hsp : sp.WF) (p : Path) (s : XStmt) (rest : Str) (h : s.Ok sp p rest) :
    StmtAt (printStmt sp p s) rest (fun i => astOfStmt sp p i s) := by
  have hnot := noTargetAt_of_xok sp hsp p s rest h
  obtain ⟨hx, hacts, hfollow, htarget⟩ := h
  have hwf := hsp.eol p
  have hitems := commaItemsOk_map _ _ hacts
  have hnoassign := noAssign_of_eol (sp.eol p) rest hwf hfollow
  have hexpr := exprAt_printX sp hsp s.expr (0 :: p) _ hx
  rw [← printCommaItems_map] at hexpr
  have hltr := ltrAt_of hexpr hitems hnoassign.noComma
  have heol := eolAt_of_wf (sp.eol p) rest hwf hfollow
  have hd : s.expr.depth
      ≤ (printX sp (0 :: p) s.expr ++ printCommaItems ((actLits sp p 0 s.actions).map CommaLit.toItem)).length + 1 := by
    have := depth_le_length sp s.expr (0 :: p)
    simp only [List.length_append]
    omega
  cases ht : s.target with
  | none =>
    have hno : NoTargetAt ((printX sp (0 :: p) s.expr
        ++ printCommaItems ((actLits sp p 0 s.actions).map CommaLit.toItem)) ++ ((sp.eol p).print ++ rest)) := by
      have := hnot ht
      simpa [printCommaItems_map, List.append_assoc] using this
    have := stmtAt_plain hltr heol hd hno
    simpa [printStmt, printLtr, printTarget, astOfStmt, ht, printCommaItems_map, commaItemVals_map] using this
  | some g =>
    rw [ht] at htarget
    obtain ⟨hout, hmore⟩ := htarget
    have ho := stringAt_of_ok false g.output _ hout
    have hmoreItems := commaItemsOk_map _ _ hmore
    have := stmtAt_target (otxt := g.output.print) (outs := (outLits sp p 1 g.more).map CommaLit.toItem)
      (b1 := sp.assignGap1 p) (b2 := sp.assignGap2 p) (named := g.named)
      (ltxt := printX sp (0 :: p) s.expr ++ printCommaItems ((actLits sp p 0 s.actions).map CommaLit.toItem))
      (eoltxt := (sp.eol p).print) (rest := rest)
      (by simpa [printLtr, printCommaItems_map, printAssign_eq] using ho)
      (by simpa [printLtr, printCommaItems_map, printAssign_eq] using hmoreItems)
      (hsp.assignGap1 p) (hsp.assignGap2 p) hltr heol hd
    simpa [printStmt, printLtr, printTarget, targetLit, astOfStmt, ht, Target.print, Parser.targetTxt,
      printCommaItems_map, commaItemVals_map, printAssign_eq] using this

/-- **statements are recovered verbatim**: outputs, assignment sign, a nested expression with
    shorthand actions, end of line -/
theorem stmt_roundtrip (sp : Spelling) (hsp : sp.WF) (p : Path) (s : XStmt) (pre rest : Str) (z : Bool)
    (hok : s.Ok sp p rest) :
    stmt (pre ++ printStmt sp p s ++ rest).toArray ⟨pre.length, z⟩
      = some (astOfStmt sp p pre.length s, ⟨(pre ++ printStmt sp p s).length, z⟩) := by
  have := stmtAt_of_xok sp hsp p s rest hok (pre ++ printStmt sp p s ++ rest).toArray pre.length z (by simp)
  simpa using this

/-! ## Blocks -/

/-- the statements of a block, numbered from `k` -/
def printBlock (sp : Spelling) : Nat → List XStmt → Str
  | _, [] => []
  | k, s :: ss => printStmt sp [k] s ++ printBlock sp (k + 1) ss

/-- every statement is admissible in front of the statements that follow it -/
def BlockOk (sp : Spelling) : Nat → List XStmt → Prop
  | _, [] => True
  | k, s :: ss => s.Ok sp [k] (printBlock sp (k + 1) ss) ∧ BlockOk sp (k + 1) ss

/-- the statements written from offset `off` on -/
def astOfBlock (sp : Spelling) : Nat → Nat → List XStmt → List AStmt
  | _, _, [] => []
  | k, off, s :: ss => astOfStmt sp [k] off s :: astOfBlock sp (k + 1) (off + (printStmt sp [k] s).length) ss

def stmtItems (sp : Spelling) : Nat → List XStmt → List StmtItem
  | _, [] => []
  | k, s :: ss => ⟨printStmt sp [k] s, fun i => astOfStmt sp [k] i s⟩ :: stmtItems sp (k + 1) ss

theorem printStmts_stmtItems (sp : Spelling) : ∀ (ss : List XStmt) (k : Nat),
    printStmts (stmtItems sp k ss) = printBlock sp k ss
  | [], _ => rfl
  | s :: ss, k => by simp only [stmtItems, printStmts, printBlock, printStmts_stmtItems sp ss (k + 1)]

theorem stmtVals_stmtItems (sp : Spelling) : ∀ (ss : List XStmt) (k off : Nat),
    stmtVals off (stmtItems sp k ss) = astOfBlock sp k off ss
  | [], _, _ => rfl
  | s :: ss, k, off => by simp only [stmtItems, stmtVals, astOfBlock, stmtVals_stmtItems sp ss (k + 1)]

theorem printStmt_ne_nil (sp : Spelling) (p : Path) (s : XStmt) (rest : Str) (h : s.Ok sp p rest) :
    printStmt sp p s ≠ [] := by
  have hne := printX_ne_nil sp (0 :: p) _ s.expr h.1
  intro e
  have := congrArg List.length e
  simp only [printStmt, printLtr, List.length_append, List.length_nil] at this
  have : 0 < (printX sp (0 :: p) s.expr).length := List.length_pos_iff.mpr hne
  omega

theorem stmtsOk_stmtItems (sp : Spelling) (hsp : sp.WF) : ∀ (ss : List XStmt) (k : Nat), BlockOk sp k ss →
    StmtsOk (stmtItems sp k ss)
  | [], _, _ => trivial
  | s :: ss, k, h => ⟨printStmt_ne_nil sp [k] s _ h.1, by
      rw [printStmts_stmtItems]; exact stmtAt_of_xok sp hsp [k] s _ h.1, stmtsOk_stmtItems sp hsp ss (k + 1) h.2⟩

/-- **`parse` recovers every block**: leading white space, then one or more admissible statements -
    with outputs, nested steps, parentheses and shorthand, in any permitted spelling - up to the end
    of the text; the result is the expected list of statements with their offsets -/
theorem recipe_roundtrip (sp : Spelling) (hsp : sp.WF) (s : XStmt) (ss : List XStmt)
    (hok : BlockOk sp 0 (s :: ss)) :
    parse (sp.lead ++ printBlock sp 0 (s :: ss)) = .ok (astOfBlock sp 0 sp.lead.length (s :: ss)) := by
  have h := stmtsOk_stmtItems sp hsp (s :: ss) 0 hok
  have := parse_ok (ws0 := sp.lead) (a := ⟨printStmt sp [0] s, fun i => astOfStmt sp [0] i s⟩)
    (as := stmtItems sp 1 ss) hsp.lead h
  have e1 := printStmts_stmtItems sp (s :: ss) 0
  have e2 := stmtVals_stmtItems sp (s :: ss) 0 sp.lead.length
  simp only [stmtItems] at e1 e2
  rw [e1, e2] at this
  exact this

/-! ## Erasing offsets: the AST modulo offsets depends on the abstract syntax only -/

def eraseSub : SubStr → SubStr
  | .sub _ s => .sub 0 s
  | .num _ n => .num 0 n

def eraseString (s : AString) : AString := s.map eraseSub

def eraseAmount : AAmount → AAmount
  | .qty _ v unit spacing prep => .qty 0 v (unit.map eraseString) spacing prep
  | .prop _ v percentage wording prep => .prop 0 v percentage wording prep

mutual
def eraseExpr : AExpr → AExpr
  | .step name inputs => .step (eraseString name) (eraseExprs inputs)
  | .ref name amount => .ref (eraseString name) (amount.map eraseAmount)
def eraseExprs : List AExpr → List AExpr
  | [] => []
  | e :: es => eraseExpr e :: eraseExprs es
end

def eraseStmt (s : AStmt) : AStmt :=
  { expr := eraseExpr s.expr, outputs := s.outputs.map fun os => os.map eraseString, named := s.named }

/-- every source offset of the result is replaced by 0 -/
def eraseOffsets : ParseResult → ParseResult
  | .ok stmts => .ok (stmts.map eraseStmt)
  | r => r

theorem eraseString_append (a b : AString) : eraseString (a ++ b) = eraseString a ++ eraseString b :=
  List.map_append

theorem erase_braced : ∀ (items : List BItem),
    (∀ (o : Nat) (s : Str) (off o' off' : Nat),
      eraseString (bracedRun o s off items) = eraseString (bracedRun o' s off' items))
    ∧ (∀ off off' : Nat, eraseString (bracedAfterNum off items) = eraseString (bracedAfterNum off' items))
  | [] => ⟨fun _ _ _ _ _ => by simp [bracedRun, eraseString, eraseSub], fun _ _ => by simp [bracedAfterNum]⟩
  | .chr c :: items => by
    have ih := erase_braced items
    exact ⟨fun o s off o' off' => by simp only [bracedRun]; exact ih.1 _ _ _ _ _,
      fun off off' => by simp only [bracedAfterNum]; exact ih.1 _ _ _ _ _⟩
  | .num l :: items => by
    have ih := erase_braced items
    exact ⟨fun o s off o' off' => by
        simp only [bracedRun, eraseString, List.map_cons, eraseSub]
        have := ih.2 (off + l.print.length) (off' + l.print.length)
        simp only [eraseString] at this
        rw [this],
      fun off off' => by
        simp only [bracedAfterNum, eraseString, List.map_cons, eraseSub]
        have := ih.2 (off + l.print.length) (off' + l.print.length)
        simp only [eraseString] at this
        rw [this]⟩

theorem erase_bracedValue (items : List BItem) (i j : Nat) :
    eraseString (bracedValue i items) = eraseString (bracedValue j items) := by
  cases items with
  | nil => simp [bracedValue, eraseString, eraseSub]
  | cons it items =>
    cases it with
    | chr c => simp only [bracedValue]; exact (erase_braced items).1 _ _ _ _ _
    | num l =>
      simp only [bracedValue, eraseString, List.map_cons, eraseSub]
      have := (erase_braced items).2 (i + 1 + l.print.length) (j + 1 + l.print.length)
      simp only [eraseString] at this
      rw [this]

theorem erase_atomValue (a : StrAtom) (i j : Nat) : eraseString (a.value i) = eraseString (a.value j) := by
  cases a with
  | naked txt => simp [StrAtom.value, eraseString, eraseSub]
  | squoted items => simp [StrAtom.value, eraseString, eraseSub]
  | dquoted items => simp [StrAtom.value, eraseString, eraseSub]
  | braced items => exact erase_bracedValue items i j

theorem erase_moreValue : ∀ (more : List (Str × StrAtom)) (i j : Nat),
    eraseString (moreValue i more) = eraseString (moreValue j more)
  | [], _, _ => rfl
  | (bl, a) :: more, i, j => by
    simp only [moreValue, eraseString_append]
    rw [erase_atomValue a (i + bl.length) (j + bl.length), erase_moreValue more _ (j + bl.length + a.print.length)]
    congr 2
    split <;> simp [eraseString, eraseSub]

/-- the value of a string modulo offsets does not depend on where it is written -/
theorem erase_stringValue (s : StringLit) (i j : Nat) : eraseString (s.value i) = eraseString (s.value j) := by
  simp only [StringLit.value, stringValue, eraseString_append]
  rw [erase_atomValue s.first i j, erase_moreValue s.more _ (j + s.first.print.length)]

theorem erase_amountValue (a : AmountLit) (i j : Nat) : eraseAmount (a.value i) = eraseAmount (a.value j) := by
  cases a with
  | remainder w p => rfl
  | ofNumber n p => rfl
  | percent n bl p => rfl
  | times n bl => rfl
  | explicit b1 n unit b3 p =>
    cases unit with
    | none => rfl
    | some bu =>
      obtain ⟨b2, u⟩ := bu
      simp only [AmountLit.value, eraseAmount, Option.map_some]
      rw [erase_stringValue u _ (j + 1 + b1.length + n.print.length + b2.length)]
  | implicit n unit =>
    cases unit with
    | none => rfl
    | some sup =>
      obtain ⟨sp, u, p⟩ := sup
      simp [AmountLit.value, eraseAmount, eraseString, eraseSub]

theorem erase_refValue (r : RefLit) (i j : Nat) : eraseExpr (r.value i) = eraseExpr (r.value j) := by
  obtain ⟨amt, name⟩ := r
  cases amt with
  | none =>
    simp only [RefLit.value, eraseExpr, Option.map_none]
    rw [erase_stringValue name i j]
  | some abl =>
    obtain ⟨a, bl⟩ := abl
    simp only [RefLit.value, eraseExpr, Option.map_some]
    rw [erase_stringValue name _ (j + a.print.length + bl.length), erase_amountValue a i j]

/-- the strings of a comma separated list modulo offsets: the abstract items -/
theorem erase_commaValues (lits : List CommaLit) : ∀ off : Nat,
    (commaValues off lits).map eraseString = lits.map fun c => eraseString (c.s.value 0) := by
  induction lits with
  | nil => intro off; rfl
  | cons c cs ih =>
    intro off
    simp only [commaValues, List.map_cons, ih]
    rw [erase_stringValue c.s _ 0]

theorem actLits_strings (sp : Spelling) (p : Path) : ∀ (as : List StringLit) (k : Nat),
    (actLits sp p k as).map (fun c => eraseString (c.s.value 0)) = as.map fun a => eraseString (a.value 0)
  | [], _ => rfl
  | a :: as, k => by simp only [actLits, List.map_cons, actLits_strings sp p as (k + 1)]

theorem outLits_strings (sp : Spelling) (p : Path) : ∀ (as : List StringLit) (k : Nat),
    (outLits sp p k as).map (fun c => eraseString (c.s.value 0)) = as.map fun a => eraseString (a.value 0)
  | [], _ => rfl
  | a :: as, k => by simp only [outLits, List.map_cons, outLits_strings sp p as (k + 1)]

theorem eraseExpr_foldl (actions : List AString) : ∀ e : AExpr,
    eraseExpr (actions.foldl (fun e action => .step action [e]) e)
      = (actions.map eraseString).foldl (fun e action => .step action [e]) (eraseExpr e) := by
  induction actions with
  | nil => intro e; rfl
  | cons a as ih => intro e; simp only [List.foldl_cons, List.map_cons, ih, eraseExpr, eraseExprs]

mutual
/-- the AST of an abstract expression without offsets: no spelling involved -/
def bareOf : XExpr → AExpr
  | .leaf r => eraseExpr (r.value 0)
  | .step name args => .step (eraseString (name.value 0)) (bareArgs args)
  | .paren e actions =>
    (actions.map fun a => eraseString (a.value 0)).foldl (fun e action => .step action [e]) (bareOf e)
def bareArgs : XArgs → List AExpr
  | .one e => [bareOf e]
  | .cons e rest => bareOf e :: bareArgs rest
end

mutual
/-- **modulo offsets the AST is a function of the abstract expression**: the spelling, the position
    in the tree and the offset do not matter -/
theorem eraseExpr_astOf (sp : Spelling) : ∀ (x : XExpr) (p : Path) (off : Nat),
    eraseExpr (astOf sp p off x) = bareOf x
  | .leaf r, p, off => by simp only [astOf, bareOf]; exact erase_refValue r off 0
  | .step name args, p, off => by
    simp only [astOf, bareOf, eraseExpr]
    rw [erase_stringValue name off 0, eraseExprs_astArgs sp args p 0 _]
  | .paren e actions, p, off => by
    simp only [astOf, bareOf]
    rw [eraseExpr_foldl, erase_commaValues, actLits_strings, eraseExpr_astOf sp e (0 :: p) _]
theorem eraseExprs_astArgs (sp : Spelling) : ∀ (as : XArgs) (p : Path) (k off : Nat),
    eraseExprs (astArgs sp p k off as) = bareArgs as
  | .one e, p, k, off => by simp only [astArgs, bareArgs, eraseExprs, eraseExpr_astOf sp e (k :: p) off]
  | .cons e as, p, k, off => by
    simp only [astArgs, bareArgs, eraseExprs, eraseExpr_astOf sp e (k :: p) off, eraseExprs_astArgs sp as p (k + 1) _]
end

/-- the statement without offsets -/
def bareStmt (s : XStmt) : AStmt :=
  { expr := (s.actions.map fun a => eraseString (a.value 0)).foldl (fun e action => .step action [e]) (bareOf s.expr)
    outputs := s.target.map fun g => eraseString (g.output.value 0) :: g.more.map fun a => eraseString (a.value 0)
    named := (s.target.map (·.named)).getD false }

theorem eraseStmt_astOfStmt (sp : Spelling) (p : Path) (off : Nat) (s : XStmt) :
    eraseStmt (astOfStmt sp p off s) = bareStmt s := by
  simp only [eraseStmt, astOfStmt, bareStmt]
  rw [eraseExpr_foldl, erase_commaValues, actLits_strings, eraseExpr_astOf]
  congr 1
  cases s.target with
  | none => rfl
  | some g =>
    simp only [Option.map_some, List.map_cons]
    rw [erase_stringValue g.output off 0, erase_commaValues, outLits_strings]

theorem eraseStmt_astOfBlock (sp : Spelling) : ∀ (ss : List XStmt) (k off : Nat),
    (astOfBlock sp k off ss).map eraseStmt = ss.map bareStmt
  | [], _, _ => rfl
  | s :: ss, k, off => by
    simp only [astOfBlock, List.map_cons, eraseStmt_astOfStmt, eraseStmt_astOfBlock sp ss (k + 1)]

/-- **what `parse` returns for a block, modulo offsets, is the abstract block** - whatever the
    (admissible) spelling -/
theorem parse_erase_eq_bare (sp : Spelling) (hsp : sp.WF) (s : XStmt) (ss : List XStmt)
    (hok : BlockOk sp 0 (s :: ss)) :
    eraseOffsets (parse (sp.lead ++ printBlock sp 0 (s :: ss))) = .ok ((s :: ss).map bareStmt) := by
  rw [recipe_roundtrip sp hsp s ss hok]
  simp only [eraseOffsets, eraseStmt_astOfBlock]

/-- **two spellings of the same abstract block parse to the same AST modulo offsets** -/
theorem two_spellings_same_ast_mod_offsets (sp1 sp2 : Spelling) (h1 : sp1.WF) (h2 : sp2.WF)
    (s : XStmt) (ss : List XStmt) (hok1 : BlockOk sp1 0 (s :: ss)) (hok2 : BlockOk sp2 0 (s :: ss)) :
    eraseOffsets (parse (sp1.lead ++ printBlock sp1 0 (s :: ss)))
      = eraseOffsets (parse (sp2.lead ++ printBlock sp2 0 (s :: ss))) := by
  rw [parse_erase_eq_bare sp1 h1 s ss hok1, parse_erase_eq_bare sp2 h2 s ss hok2]

/-- the same for a single expression (any two positions, offsets, spellings) -/
theorem two_spellings_same_expr_mod_offsets (sp1 sp2 : Spelling) (p1 p2 : Path) (off1 off2 : Nat) (x : XExpr) :
    eraseExpr (astOf sp1 p1 off1 x) = eraseExpr (astOf sp2 p2 off2 x) := by
  rw [eraseExpr_astOf, eraseExpr_astOf]

/-! ## The side conditions hold for plain names, in every spelling

    The conditions `XOk` / `XStmt.Ok` / `BlockOk` speak about the text that follows every reference
    and every action.  For recipes whose names are *plain* - one naked or quoted string each; a naked
    ingredient name moreover not starting like an amount - they hold for **every** permitted
    spelling, so the round trip theorems apply without further hypotheses.  (Every string at all can
    be written between quotes, see `squoted_roundtrip`.) -/

/-- a naked string, or a string between single or double quotes -/
def IsNameAtom : StrAtom → Prop
  | .naked txt => IsNaked txt
  | .squoted items => ∀ it ∈ items, it.Ok '\''
  | .dquoted items => ∀ it ∈ items, it.Ok '"'
  | .braced _ => False

/-- a name made of one such atom -/
def IsWord (s : StringLit) : Prop := ∃ a, s = ⟨a, []⟩ ∧ IsNameAtom a

/-- a name that is not the beginning of a remainder word (`rest`, `remaining`, `left over`, …),
    whatever follows it -/
def NoRemainderStart (txt : Str) : Prop := ∀ rest, remainderWordAt (txt ++ rest) = false

/-- an ingredient name written as a reference without amount: a quoted string, or a naked string
    that does not start with a digit nor like a remainder word -/
def IsPlainRef (r : RefLit) : Prop :=
  ∃ a, r = ⟨none, ⟨a, []⟩⟩ ∧ IsNameAtom a
    ∧ ∀ txt, a = .naked txt → (∀ c, txt.head? = some c → isDigit c = false) ∧ NoRemainderStart txt

/-- sufficient: the first letter is none of `r`, `R`, `l`, `L` -/
theorem noRemainderStart_of_head {txt : Str} (hne : txt ≠ [])
    (h : ∀ c, txt.head? = some c → ciMatches c 'r' = false ∧ ciMatches c 'l' = false) : NoRemainderStart txt := by
  intro rest
  have := remainderWordAt_eq (txt ++ rest)
  rw [remainderLen_none_of_head (s := txt ++ rest) (by
    intro c hc
    cases txt with
    | nil => exact absurd rfl hne
    | cons x xs => exact h c (by simpa using hc))] at this
  simpa using this

mutual
def XExpr.Plain : XExpr → Prop
  | .leaf r => IsPlainRef r
  | .step name args => IsWord name ∧ args.Plain
  | .paren e actions => e.Plain ∧ ∀ a ∈ actions, IsWord a
def XArgs.Plain : XArgs → Prop
  | .one e => e.Plain
  | .cons e rest => e.Plain ∧ rest.Plain
end

def XStmt.Plain (s : XStmt) : Prop :=
  s.expr.Plain ∧ (∀ a ∈ s.actions, IsWord a)
  ∧ ∀ g, s.target = some g → IsWord g.output ∧ ∀ a ∈ g.more, IsWord a

/-- what follows a word inside the tree: white space without newline, then the end of the text, a
    newline, or one of `,` `)` `=` `:` -/
def WordFollow (rest : Str) : Prop :=
  ∃ ws r, rest = ws ++ r ∧ (∀ c ∈ ws, isReSpace c = true ∧ isNewline c = false)
    ∧ ∀ c, r.head? = some c → c = ',' ∨ c = ')' ∨ c = '=' ∨ c = ':' ∨ isNewline c = true

theorem nakedFollow_of_wordFollow {rest : Str} (h : WordFollow rest) : NakedFollow false rest := by
  obtain ⟨ws, r, e, hws, hr⟩ := h
  refine ⟨ws, r, e, hws, fun c hc => ?_⟩
  rcases hr c hc with rfl | rfl | rfl | rfl | h
  · exact Or.inl (by decide)
  · exact Or.inl (by decide)
  · exact Or.inl (by decide)
  · exact Or.inl (by decide)
  · exact Or.inr (Or.inl h)

theorem isHsp_false_of_isNewline {c : Char} (h : isNewline c = true) : isHsp c = false :=
  isHsp_of_isNewline h

theorem noParen_of_wordFollow {rest : Str} (h : WordFollow rest) : NoParen rest := by
  obtain ⟨ws, r, e, hws, hr⟩ := h
  refine ⟨ws.takeWhile isHsp, ws.dropWhile isHsp ++ r, ?_, fun c hc => mem_takeWhile_imp hc, ?_⟩
  · rw [e, ← List.append_assoc, List.takeWhile_append_dropWhile]
  · intro c hc
    cases hd : ws.dropWhile isHsp with
    | nil =>
      rw [hd] at hc
      simp only [List.nil_append] at hc
      rcases hr c hc with rfl | rfl | rfl | rfl | h
      · exact ⟨by decide, by decide⟩
      · exact ⟨by decide, by decide⟩
      · exact ⟨by decide, by decide⟩
      · exact ⟨by decide, by decide⟩
      · exact ⟨isHsp_of_isNewline h, by rintro rfl; exact absurd h (by decide)⟩
    | cons x xs =>
      rw [hd] at hc
      simp only [List.cons_append, List.head?_cons, Option.some.injEq] at hc
      subst hc
      have h1 : isHsp x = false := by
        have := List.head?_dropWhile_not isHsp ws
        rw [hd] at this
        simpa using this
      refine ⟨h1, ?_⟩
      rintro rfl
      have : '(' ∈ ws := (List.dropWhile_sublist isHsp).subset (by rw [hd]; simp)
      exact absurd (hws _ this).1 (by decide)

/-- white space (newlines included) and then a character that ends words -/
theorem wordFollow_spaces {ws : Str} (hws : IsSpaces ws) {c : Char} (rest : Str)
    (hc : c = ',' ∨ c = ')' ∨ c = '=' ∨ c = ':' ∨ isNewline c = true) : WordFollow (ws ++ c :: rest) := by
  refine ⟨ws.takeWhile (fun x => !isNewline x), ws.dropWhile (fun x => !isNewline x) ++ c :: rest, ?_, ?_, ?_⟩
  · rw [← List.append_assoc, List.takeWhile_append_dropWhile]
  · intro x hx
    have h1 := mem_takeWhile_imp hx
    have h2 : x ∈ ws := (List.takeWhile_sublist _).subset hx
    exact ⟨hws x h2, by simpa using h1⟩
  · intro x hx
    cases hd : ws.dropWhile (fun x => !isNewline x) with
    | nil =>
      rw [hd] at hx
      simp only [List.nil_append, List.head?_cons, Option.some.injEq] at hx
      subst hx; exact hc
    | cons y ys =>
      rw [hd] at hx
      simp only [List.cons_append, List.head?_cons, Option.some.injEq] at hx
      subst hx
      have := List.head?_dropWhile_not (fun x => !isNewline x) ws
      rw [hd] at this
      right; right; right; right
      simpa using this

theorem wordFollow_nil_of_spaces {ws : Str} (hws : IsSpaces ws) : WordFollow ws := by
  refine ⟨ws.takeWhile (fun x => !isNewline x), ws.dropWhile (fun x => !isNewline x), ?_, ?_, ?_⟩
  · rw [List.takeWhile_append_dropWhile]
  · intro x hx
    have h1 := mem_takeWhile_imp hx
    have h2 : x ∈ ws := (List.takeWhile_sublist _).subset hx
    exact ⟨hws x h2, by simpa using h1⟩
  · intro x hx
    have := List.head?_dropWhile_not (fun x => !isNewline x) ws
    rw [hx] at this
    right; right; right; right
    simpa using this

theorem isSpaces_of_isBlanks {s : Str} (h : IsBlanks s) : IsSpaces s := fun c hc => isReSpace_of_isHsp (h c hc)

theorem wordFollow_printClose (trail : Option Str) (ws : Str) (htrail : ∀ w, trail = some w → IsSpaces w)
    (hws : IsSpaces ws) (rest : Str) : WordFollow (printClose trail ws ++ rest) := by
  cases trail with
  | none =>
    have := wordFollow_spaces hws (c := ')') rest (Or.inr (Or.inl rfl))
    simpa [printClose, List.append_assoc] using this
  | some w =>
    have := wordFollow_spaces (htrail w rfl) (c := ',') (ws ++ ')' :: rest) (Or.inl rfl)
    simpa [printClose, List.append_assoc] using this

theorem closedFollow_of_nakedFollow {rest : Str} (h : NakedFollow false rest) : ClosedFollow false rest := by
  obtain ⟨ws, r, e, hws, hr⟩ := h
  refine ⟨ws.takeWhile isHsp, ws.dropWhile isHsp ++ r, ?_, fun c hc => mem_takeWhile_imp hc, ?_⟩
  · rw [e, ← List.append_assoc, List.takeWhile_append_dropWhile]
  · intro c hc
    cases hd : ws.dropWhile isHsp with
    | nil =>
      rw [hd] at hc
      simp only [List.nil_append] at hc
      refine ⟨?_, Or.inr (hr c hc)⟩
      rcases hr c hc with h | h | h
      · simp only [List.mem_cons, List.not_mem_nil, or_false] at h
        rcases h with rfl | rfl | rfl | rfl | rfl | rfl | rfl <;> decide
      · exact isHsp_of_isNewline h
      · exact absurd h.1 (by decide)
    | cons x xs =>
      rw [hd] at hc
      simp only [List.cons_append, List.head?_cons, Option.some.injEq] at hc
      subst hc
      have h1 : isHsp x = false := by
        have := List.head?_dropWhile_not isHsp ws
        rw [hd] at this
        simpa using this
      have : x ∈ ws := (List.dropWhile_sublist isHsp).subset (by rw [hd]; simp)
      exact ⟨h1, Or.inl (hws x this).1⟩

theorem word_ok {s : StringLit} (h : IsWord s) {rest : Str} (hf : NakedFollow false rest) : s.Ok false rest := by
  obtain ⟨a, rfl, ha⟩ := h
  cases a with
  | naked txt =>
    obtain ⟨ws, r, e, hws, hr⟩ := hf
    exact nakedLit_ok txt ha rest ws r e hws hr
  | squoted items =>
    exact ⟨ha, by simpa [LastFollow, StrAtom.isNaked] using closedFollow_of_nakedFollow hf⟩
  | dquoted items =>
    exact ⟨ha, by simpa [LastFollow, StrAtom.isNaked] using closedFollow_of_nakedFollow hf⟩
  | braced items => exact absurd ha (by simp [IsNameAtom])

/-- a text whose first character is no digit, no `{` and none of `r`, `R`, `l`, `L` does not start
    like an amount -/
theorem not_amount_of_head (X : Str) (c : Char) (tl : Str) (e : X = c :: tl) (h1 : isDigit c = false)
    (h2 : ciMatches c 'r' = false ∧ ciMatches c 'l' = false) (h3 : c ≠ '{') :
    remainderWordAt X = false ∧ NextNot isDigit X ∧ ∀ s', X = '{' :: s' → NextNot isDigit (s'.dropWhile isHsp) := by
  subst e
  refine ⟨?_, fun d hd => by cases hd; exact h1, fun s' e => by cases e; exact absurd rfl h3⟩
  have := remainderWordAt_eq (c :: tl)
  rw [remainderLen_none_of_head (s := c :: tl) (by intro d hd; cases hd; exact h2)] at this
  simpa using this

theorem plainRef_xok {r : RefLit} (h : IsPlainRef r) {rest : Str} (hf : WordFollow rest) :
    r.Ok rest ∧ r.NotStep rest := by
  obtain ⟨a, rfl, ha, hnk⟩ := h
  refine ⟨⟨word_ok ⟨a, rfl, ha⟩ (nakedFollow_of_wordFollow hf), ?_⟩, noParen_of_wordFollow hf⟩
  cases a with
  | naked txt =>
    obtain ⟨hdig, hrem⟩ := hnk txt rfl
    have hn : IsNaked txt := ha
    have hp : (StringLit.mk (.naked txt) []).print = txt := by
      simp [StringLit.print, printString, printMore, StrAtom.print]
    show remainderWordAt ((StringLit.mk (.naked txt) []).print ++ rest) = false ∧ _
    rw [hp]
    refine ⟨hrem rest, ?_, ?_⟩
    · intro c hc
      cases txt with
      | nil => exact absurd rfl hn.1
      | cons x xs => exact hdig c (by simpa using hc)
    · intro s' e
      cases txt with
      | nil => exact absurd rfl hn.1
      | cons x xs =>
        simp only [List.cons_append, List.cons.injEq] at e
        obtain ⟨rfl, _⟩ := e
        exact absurd (by decide : IsSpecialChar '{') (hn.2.1 _ (by simp)).1
  | squoted items =>
    exact not_amount_of_head _ '\'' (items.flatMap QChar.print ++ '\'' :: rest)
      (by simp [StringLit.print, printString, printMore, StrAtom.print, printQuoted])
      (by decide) (by decide +kernel) (by decide)
  | dquoted items =>
    exact not_amount_of_head _ '"' (items.flatMap QChar.print ++ '"' :: rest)
      (by simp [StringLit.print, printString, printMore, StrAtom.print, printQuoted])
      (by decide) (by decide +kernel) (by decide)
  | braced items => exact absurd ha (by simp [IsNameAtom])

/-- a comma separated list of words with blanks around the commas is admissible wherever a word may end -/
theorem commasOk_words {rest : Str} (hf : WordFollow rest) : ∀ (cs : List CommaLit),
    (∀ c ∈ cs, IsBlanks c.b1 ∧ IsBlanks c.b2 ∧ IsWord c.s) → CommasOk rest cs ∧ WordFollow (printCommas cs ++ rest)
  | [], _ => ⟨trivial, by simpa [printCommas] using hf⟩
  | c :: cs, h => by
    obtain ⟨hb1, hb2, hw⟩ := h c (by simp)
    obtain ⟨ih1, ih2⟩ := commasOk_words hf cs (fun d hd => h d (by simp [hd]))
    refine ⟨⟨hb1, hb2, word_ok hw (nakedFollow_of_wordFollow ih2), ih1⟩, ?_⟩
    have := wordFollow_spaces (isSpaces_of_isBlanks hb1) (c := ',')
      (c.b2 ++ c.s.print ++ (printCommas cs ++ rest)) (Or.inl rfl)
    simpa [printCommas, CommaLit.print, List.append_assoc] using this

theorem actLits_words (sp : Spelling) (hsp : sp.WF) (p : Path) : ∀ (as : List StringLit) (k : Nat),
    (∀ a ∈ as, IsWord a) → ∀ c ∈ actLits sp p k as, IsBlanks c.b1 ∧ IsBlanks c.b2 ∧ IsWord c.s
  | [], _, _, c, hc => by simp [actLits] at hc
  | a :: as, k, h, c, hc => by
    simp only [actLits, List.mem_cons] at hc
    rcases hc with rfl | hc
    · exact ⟨hsp.actGap1 p k, hsp.actGap2 p k, h a (by simp)⟩
    · exact actLits_words sp hsp p as (k + 1) (fun b hb => h b (by simp [hb])) c hc

theorem outLits_words (sp : Spelling) (hsp : sp.WF) (p : Path) : ∀ (as : List StringLit) (k : Nat),
    (∀ a ∈ as, IsWord a) → ∀ c ∈ outLits sp p k as, IsBlanks c.b1 ∧ IsBlanks c.b2 ∧ IsWord c.s
  | [], _, _, c, hc => by simp [outLits] at hc
  | a :: as, k, h, c, hc => by
    simp only [outLits, List.mem_cons] at hc
    rcases hc with rfl | hc
    · exact ⟨hsp.outGap1 p k, hsp.outGap2 p k, h a (by simp)⟩
    · exact outLits_words sp hsp p as (k + 1) (fun b hb => h b (by simp [hb])) c hc

mutual
/-- **plain expressions are admissible in every permitted spelling** (wherever a word may end) -/
theorem xok_of_plain (sp : Spelling) (hsp : sp.WF) : ∀ (x : XExpr) (p : Path) (rest : Str),
    x.Plain → WordFollow rest → XOk sp p rest x
  | .leaf r, p, rest, h, hf => by
    simp only [XExpr.Plain] at h
    simp only [XOk]
    exact plainRef_xok h hf
  | .step name args, p, rest, h, _ => by
    simp only [XExpr.Plain] at h
    simp only [XOk]
    refine ⟨word_ok h.1 ⟨sp.nameGap p, _, rfl, fun c hc =>
        ⟨isReSpace_of_isHsp (hsp.nameGap p c hc), isNewline_of_isHsp (hsp.nameGap p c hc)⟩,
        fun c hc => by cases hc; exact Or.inl (by decide)⟩, ?_⟩
    exact argsOk_of_plain sp hsp args p 0 _ h.2
      (wordFollow_printClose _ _ (hsp.trailing p) (hsp.beforeClose p) rest)
  | .paren e actions, p, rest, h, _ => by
    simp only [XExpr.Plain] at h
    simp only [XOk]
    have hf' : WordFollow (sp.beforeClose p ++ ')' :: rest) :=
      wordFollow_spaces (hsp.beforeClose p) rest (Or.inr (Or.inl rfl))
    obtain ⟨h1, h2⟩ := commasOk_words hf' _ (actLits_words sp hsp p actions 0 h.2)
    exact ⟨xok_of_plain sp hsp e (0 :: p) _ h.1 h2, h1⟩
theorem argsOk_of_plain (sp : Spelling) (hsp : sp.WF) : ∀ (as : XArgs) (p : Path) (k : Nat) (rest : Str),
    as.Plain → WordFollow rest → ArgsOk sp p k rest as
  | .one e, p, k, rest, h, hf => by
    simp only [XArgs.Plain] at h
    simp only [ArgsOk]
    exact xok_of_plain sp hsp e (k :: p) rest h hf
  | .cons e as, p, k, rest, h, hf => by
    simp only [XArgs.Plain] at h
    simp only [ArgsOk]
    exact ⟨xok_of_plain sp hsp e (k :: p) _ h.1 (wordFollow_spaces (hsp.beforeComma p (k + 1)) _ (Or.inl rfl)),
      argsOk_of_plain sp hsp as p (k + 1) rest h.2 hf⟩
end

theorem wordFollow_eol (e : EolLit) (hwf : e.WF) (rest : Str) (hf : e.Follow rest) : WordFollow (e.print ++ rest) := by
  cases e with
  | newline bl nl ws =>
    have := wordFollow_spaces (isSpaces_of_isBlanks hwf.1) (c := nl) (ws ++ rest) (Or.inr (Or.inr (Or.inr (Or.inr hwf.2.1))))
    simpa [EolLit.print, List.append_assoc] using this
  | eof bl =>
    cases hf
    have := wordFollow_nil_of_spaces (isSpaces_of_isBlanks hwf)
    simpa [EolLit.print] using this

theorem wordFollow_assign {bl : Str} (hbl : IsBlanks bl) (named : Bool) (rest : Str) :
    WordFollow (bl ++ (printAssign named ++ rest)) := by
  cases named
  · exact wordFollow_spaces (isSpaces_of_isBlanks hbl) rest (Or.inr (Or.inr (Or.inl rfl)))
  · exact wordFollow_spaces (isSpaces_of_isBlanks hbl) ('=' :: rest) (Or.inr (Or.inr (Or.inr (Or.inl rfl))))

/-- **plain statements are admissible in every permitted spelling**, given that the end of line
    fits what follows -/
theorem stmtOk_of_plain (sp : Spelling) (hsp : sp.WF) (p : Path) (s : XStmt) (rest : Str) (h : s.Plain)
    (hf : (sp.eol p).Follow rest) : s.Ok sp p rest := by
  obtain ⟨hx, hacts, htarget⟩ := h
  have hf' := wordFollow_eol (sp.eol p) (hsp.eol p) rest hf
  obtain ⟨h1, h2⟩ := commasOk_words hf' _ (actLits_words sp hsp p s.actions 0 hacts)
  refine ⟨xok_of_plain sp hsp s.expr (0 :: p) _ hx h2, h1, hf, ?_⟩
  cases ht : s.target with
  | none =>
    show s.NoTargetCond sp p
    unfold XStmt.NoTargetCond
    cases hs : s.expr with
    | leaf r =>
      rw [hs] at hx
      simp only [XExpr.Plain] at hx
      obtain ⟨a, rfl, _⟩ := hx
      intro hh; cases hh
    | step name args => trivial
    | paren e actions => trivial
  | some g =>
    obtain ⟨ho, hmore⟩ := htarget g ht
    have hfa := wordFollow_assign (hsp.assignGap1 p) g.named
      (sp.assignGap2 p ++ (printLtr sp p s ++ ((sp.eol p).print ++ rest)))
    obtain ⟨h3, h4⟩ := commasOk_words hfa _ (outLits_words sp hsp p g.more 1 hmore)
    exact ⟨word_ok ho (nakedFollow_of_wordFollow h4), h3⟩

/-- in a block every end of line but the last must be a newline (the last may be the end of the text) -/
def EolsOk (sp : Spelling) : Nat → List XStmt → Prop
  | _, [] => True
  | _, [_] => True
  | k, _ :: s' :: ss => (∃ bl nl ws, sp.eol [k] = .newline bl nl ws) ∧ EolsOk sp (k + 1) (s' :: ss)

/-- **plain blocks are admissible in every permitted spelling** -/
theorem blockOk_of_plain (sp : Spelling) (hsp : sp.WF) : ∀ (ss : List XStmt) (k : Nat),
    (∀ s ∈ ss, s.Plain) → EolsOk sp k ss → BlockOk sp k ss
  | [], _, _, _ => trivial
  | [s], k, h, _ => by
    refine ⟨stmtOk_of_plain sp hsp [k] s _ (h s (by simp)) ?_, trivial⟩
    cases he : sp.eol [k] with
    | newline bl nl ws => intro c hc; simp [printBlock] at hc
    | eof bl => rfl
  | s :: s' :: ss, k, h, he => by
    obtain ⟨⟨bl, nl, ws, e⟩, he'⟩ := he
    have ih := blockOk_of_plain sp hsp (s' :: ss) (k + 1) (fun x hx => h x (by simp [hx])) he'
    refine ⟨stmtOk_of_plain sp hsp [k] s _ (h s (by simp)) ?_, ih⟩
    rw [e]
    have hs := stmtAt_of_xok sp hsp [k + 1] s' _ ih.1
    exact hs.head_not_space

/-- **`parse` recovers every plain block in every permitted spelling**: no side conditions on the
    text are left -/
theorem plain_recipe_roundtrip (sp : Spelling) (hsp : sp.WF) (s : XStmt) (ss : List XStmt)
    (hplain : ∀ x ∈ s :: ss, x.Plain) (heol : EolsOk sp 0 (s :: ss)) :
    parse (sp.lead ++ printBlock sp 0 (s :: ss)) = .ok (astOfBlock sp 0 sp.lead.length (s :: ss)) :=
  recipe_roundtrip sp hsp s ss (blockOk_of_plain sp hsp (s :: ss) 0 hplain heol)

/-- … and any two permitted spellings of a plain block give the same AST modulo offsets -/
theorem plain_two_spellings (sp1 sp2 : Spelling) (h1 : sp1.WF) (h2 : sp2.WF) (s : XStmt) (ss : List XStmt)
    (hplain : ∀ x ∈ s :: ss, x.Plain) (heol1 : EolsOk sp1 0 (s :: ss)) (heol2 : EolsOk sp2 0 (s :: ss)) :
    eraseOffsets (parse (sp1.lead ++ printBlock sp1 0 (s :: ss)))
      = eraseOffsets (parse (sp2.lead ++ printBlock sp2 0 (s :: ss))) :=
  two_spellings_same_ast_mod_offsets sp1 sp2 h1 h2 s ss (blockOk_of_plain sp1 h1 (s :: ss) 0 hplain heol1)
    (blockOk_of_plain sp2 h2 (s :: ss) 0 hplain heol2)

/-! ## The ordered choice `step / reference / "(" …`, spelled out -/

/-- **`step` fails cleanly on a reference** that is not followed by `blanks (`: it reads a string,
    finds no `(`, and the position is restored for `reference` -/
theorem step_fails_on_leaf (r : RefLit) (pre rest : Str) (z : Bool) (fuel : Nat) (hns : r.NotStep rest)
    (hname : r.amount = none → r.name.Ok false rest) :
    step (expr fuel) (pre ++ r.print ++ rest).toArray ⟨pre.length, z⟩ = none := by
  have key : ∃ (s : StringLit) (srest : Str), s.Ok false srest ∧ s.print ++ srest = r.print ++ rest ∧ NoParen srest := by
    cases ha : r.amount with
    | none =>
      have hp : r.print = r.name.print := by simp [RefLit.print, ha]
      exact ⟨r.name, rest, hname ha, by rw [hp], by simpa [RefLit.NotStep, ha] using hns⟩
    | some abl => simpa [RefLit.NotStep, ha] using hns
  obtain ⟨s, srest, hs, e, bl, r', e', hbl, hr⟩ := key
  have ht : ((pre ++ r.print ++ rest).toArray).toList.drop pre.length = s.print ++ srest := by rw [e]; simp
  have h1 := stringAt_of_ok false s srest hs _ pre.length z ht
  exact step_fail_of_string_some h1 (by rw [← e']; exact drop_add_of_drop ht) hbl hr

/-- … so that `expr` takes the reference -/
theorem expr_on_leaf (r : RefLit) (pre rest : Str) (z : Bool) (fuel : Nat) (hok : r.Ok rest) (hns : r.NotStep rest) :
    expr (fuel + 1) (pre ++ r.print ++ rest).toArray ⟨pre.length, z⟩
      = some (r.value pre.length, ⟨(pre ++ r.print).length, z⟩) := by
  have := exprAt_leaf r rest hok hns (pre ++ r.print ++ rest).toArray pre.length z (fuel + 1) (by simp) (by omega)
  simpa using this

/-- **the action of a step does not swallow the `(`**: in front of an admissible step, `string` reads
    exactly the action name -/
theorem action_stops_before_paren (sp : Spelling) (p : Path) (name : StringLit) (args : XArgs) (pre rest : Str)
    (z : Bool) (hok : XOk sp p rest (.step name args)) :
    string false (pre ++ printX sp p (.step name args) ++ rest).toArray ⟨pre.length, z⟩
      = some (name.value pre.length, ⟨(pre ++ name.print).length, z⟩) := by
  simp only [XOk] at hok
  have := stringAt_of_ok false name _ hok.1 (pre ++ printX sp p (.step name args) ++ rest).toArray pre.length z
    (by simp [printX, List.append_assoc])
  simpa using this

/-- a reference whose whole text is one naked string (`2 eggs`, `100g flour`, `flour`) cannot be
    mistaken for the beginning of a step where a word may end -/
theorem notStep_of_naked_print {r : RefLit} {rest : Str} (hn : IsNaked r.print) (hf : WordFollow rest) :
    r.NotStep rest := by
  unfold RefLit.NotStep
  cases r.amount with
  | none => exact noParen_of_wordFollow hf
  | some abl =>
    exact ⟨⟨.naked r.print, []⟩, rest, word_ok ⟨.naked r.print, rfl, hn⟩ (nakedFollow_of_wordFollow hf),
      by simp [StringLit.print, printString, printMore, StrAtom.print], noParen_of_wordFollow hf⟩

/-! ## Examples -/

/-! ### the model on nested texts (checked by the kernel) -/

example : parse "f(a, g(b))\n".toList
    = .ok [⟨.step [.sub 0 ['f']] [.ref [.sub 2 ['a']] none, .step [.sub 5 ['g']] [.ref [.sub 7 ['b']] none]],
            none, false⟩] := by decide +kernel

/-- white space and newlines inside the parentheses, a trailing comma, a blank before `(` -/
example : parse "f (\n  a ,\n  g( b ,) ,\n)\n".toList
    = .ok [⟨.step [.sub 0 ['f']] [.ref [.sub 6 ['a']] none, .step [.sub 12 ['g']] [.ref [.sub 15 ['b']] none]],
            none, false⟩] := by decide +kernel

/-- the shorthand in parentheses inside an argument list, and at the level of the statement -/
example : parse "x := f((a, b, c), d), e\n".toList
    = .ok [⟨.step [.sub 22 ['e']] [.step [.sub 5 ['f']]
              [.step [.sub 14 ['c']] [.step [.sub 11 ['b']] [.ref [.sub 8 ['a']] none]], .ref [.sub 18 ['d']] none]],
            some [[.sub 0 ['x']]], true⟩] := by decide +kernel

/-- a reference followed by `(` is a step; a comma in an argument list separates arguments -/
example : parse "2 eggs(a)\n".toList
    = .ok [⟨.step [.sub 0 "2 eggs".toList] [.ref [.sub 7 ['a']] none], none, false⟩] := by decide +kernel

/-- amounts at the leaves -/
example : parse "mix(2 eggs,100g flour)\n".toList
    = .ok [⟨.step [.sub 0 "mix".toList]
              [.ref [.sub 6 "eggs".toList] (some (.qty 4 ⟨2, .int⟩ none [] [])),
               .ref [.sub 16 "flour".toList] (some (.qty 11 ⟨100, .int⟩ (some [.sub 14 ['g']]) [] []))],
            none, false⟩] := by decide +kernel

/-- two outputs, several statements, blank lines -/
example : parse "a, b = split(c)\n\n\nd = (a)\n".toList
    = .ok [⟨.step [.sub 7 "split".toList] [.ref [.sub 13 ['c']] none], some [[.sub 0 ['a']], [.sub 3 ['b']]], false⟩,
           ⟨.ref [.sub 23 ['a']] none, some [[.sub 18 ['d']]], false⟩] := by decide +kernel

/-- the shorthand is not allowed directly in an argument list: `a, b` are two arguments -/
example : parse "f(a, b)\n".toList
    = .ok [⟨.step [.sub 0 ['f']] [.ref [.sub 2 ['a']] none, .ref [.sub 5 ['b']] none], none, false⟩] := by
  decide +kernel

/-- deep nesting: the fuel derived from the length of the text suffices -/
example : parse "a(b(c(d(e(f(g(h(i))))))))\n".toList ≠ .syntaxError := by decide +kernel

/-! ### two spellings of one abstract block -/

def word (s : String) : StringLit := ⟨.naked s.toList, []⟩
def ingredient (s : String) : XExpr := .leaf ⟨none, word s⟩

/-- no optional white space anywhere -/
def Spelling.tight : Spelling :=
  { nameGap := fun _ => [], afterOpen := fun _ => [], beforeComma := fun _ _ => [], afterComma := fun _ _ => [],
    trailing := fun _ => none, beforeClose := fun _ => [], actGap1 := fun _ _ => [], actGap2 := fun _ _ => [],
    outGap1 := fun _ _ => [], outGap2 := fun _ _ => [], assignGap1 := fun _ => [], assignGap2 := fun _ => [],
    eol := fun _ => .newline [] '\n' [], lead := [] }

/-- white space wherever it is allowed: newlines and indentation inside parentheses, trailing
    commas at the nodes of even depth, blank lines between the statements, a leading empty line -/
def Spelling.airy : Spelling :=
  { nameGap := fun _ => " ".toList, afterOpen := fun _ => "\n  ".toList, beforeComma := fun _ _ => " ".toList,
    afterComma := fun _ _ => "\n  ".toList,
    trailing := fun p => if p.length % 2 = 0 then some " ".toList else none,
    beforeClose := fun _ => "\n".toList,
    actGap1 := fun _ _ => " ".toList, actGap2 := fun _ _ => "  ".toList,
    outGap1 := fun _ _ => " ".toList, outGap2 := fun _ _ => " ".toList,
    assignGap1 := fun _ => " ".toList, assignGap2 := fun _ => "\t".toList,
    eol := fun _ => .newline " ".toList '\n' "\n".toList, lead := "\n".toList }

theorem Spelling.tight_wf : Spelling.tight.WF := by
  constructor <;> intros <;> simp_all [Spelling.tight, IsBlanks, IsSpaces, EolLit.WF] <;> decide

theorem Spelling.airy_wf : Spelling.airy.WF := by
  constructor
  case trailing =>
    intro p ws h
    simp only [Spelling.airy] at h
    split at h
    · cases h; unfold IsSpaces; decide
    · cases h
  all_goals (intros; simp [Spelling.airy, IsBlanks, IsSpaces, EolLit.WF] <;> decide)

/-- `batter := mix(flour, (eggs, beaten), whisk(milk, sugar))` -/
def exStmtA : XStmt :=
  { target := some ⟨word "batter", [], true⟩
    expr := .step (word "mix") (.cons (ingredient "flour") (.cons (.paren (ingredient "eggs") [word "beaten"])
      (.one (.step (word "whisk") (.cons (ingredient "milk") (.one (ingredient "sugar")))))))
    actions := [] }

/-- `pancake, crumbs = batter, fry, flip` -/
def exStmtB : XStmt :=
  { target := some ⟨word "pancake", [word "crumbs"], false⟩
    expr := ingredient "batter"
    actions := [word "fry", word "flip"] }

theorem exTight_print : Spelling.tight.lead ++ printBlock Spelling.tight 0 [exStmtA, exStmtB]
    = "batter:=mix(flour,(eggs,beaten),whisk(milk,sugar))\npancake,crumbs=batter,fry,flip\n".toList := by
  decide +kernel

theorem exAiry_print : Spelling.airy.lead ++ printBlock Spelling.airy 0 [exStmtA, exStmtB]
    = ("\nbatter :=\tmix (\n  flour ,\n  (\n  eggs ,  beaten\n) ,\n  whisk (\n  milk ,\n  sugar\n) ,\n) \n\n"
        ++ "pancake , crumbs =\tbatter ,  fry ,  flip \n\n").toList := by
  decide +kernel

theorem isWord_word (s : String) (h : IsNaked s.toList) : IsWord (word s) := ⟨.naked s.toList, rfl, h⟩

theorem isPlainRef_word (s : String) (h : IsNaked s.toList)
    (hc : ∀ c, s.toList.head? = some c → isDigit c = false ∧ ciMatches c 'r' = false ∧ ciMatches c 'l' = false) :
    IsPlainRef ⟨none, word s⟩ :=
  ⟨.naked s.toList, rfl, h, fun txt e => by
    cases e; exact ⟨fun c h' => (hc c h').1, noRemainderStart_of_head h.1 fun c h' => (hc c h').2⟩⟩

theorem exStmtA_plain : exStmtA.Plain := by
  have n : ∀ s : String, IsNaked s.toList → (∀ c, s.toList.head? = some c →
      isDigit c = false ∧ ciMatches c 'r' = false ∧ ciMatches c 'l' = false) → (ingredient s).Plain :=
    fun s h hc => by simp only [ingredient, XExpr.Plain]; exact isPlainRef_word s h hc
  refine ⟨?_, by simp [exStmtA], ?_⟩
  · simp only [exStmtA, XExpr.Plain, XArgs.Plain]
    refine ⟨isWord_word _ (by unfold IsNaked; decide +kernel), n _ (by unfold IsNaked; decide +kernel) (by decide +kernel),
      ⟨n _ (by unfold IsNaked; decide +kernel) (by decide +kernel), ?_⟩,
      isWord_word _ (by unfold IsNaked; decide +kernel), n _ (by unfold IsNaked; decide +kernel) (by decide +kernel),
      n _ (by unfold IsNaked; decide +kernel) (by decide +kernel)⟩
    intro a ha
    simp only [List.mem_singleton] at ha
    subst ha
    exact isWord_word _ (by unfold IsNaked; decide +kernel)
  · intro g hg
    cases hg
    exact ⟨isWord_word _ (by unfold IsNaked; decide +kernel), by simp⟩

theorem exStmtB_plain : exStmtB.Plain := by
  refine ⟨?_, ?_, ?_⟩
  · simp only [exStmtB, ingredient, XExpr.Plain]
    exact isPlainRef_word _ (by unfold IsNaked; decide +kernel) (by decide +kernel)
  · intro a ha
    simp only [exStmtB, List.mem_cons, List.not_mem_nil, or_false] at ha
    rcases ha with rfl | rfl <;> exact isWord_word _ (by unfold IsNaked; decide +kernel)
  · intro g hg
    cases hg
    refine ⟨isWord_word _ (by unfold IsNaked; decide +kernel), ?_⟩
    intro a ha
    simp only [List.mem_singleton] at ha
    subst ha
    exact isWord_word _ (by unfold IsNaked; decide +kernel)

theorem exBlock_plain : ∀ x ∈ [exStmtA, exStmtB], x.Plain := by
  intro x hx
  simp only [List.mem_cons, List.not_mem_nil, or_false] at hx
  rcases hx with rfl | rfl
  · exact exStmtA_plain
  · exact exStmtB_plain

/-- the theorem on the tight spelling -/
example : parse "batter:=mix(flour,(eggs,beaten),whisk(milk,sugar))\npancake,crumbs=batter,fry,flip\n".toList
    = .ok (astOfBlock Spelling.tight 0 0 [exStmtA, exStmtB]) := by
  have := plain_recipe_roundtrip Spelling.tight Spelling.tight_wf exStmtA [exStmtB] exBlock_plain
    ⟨⟨_, _, _, rfl⟩, trivial⟩
  rw [exTight_print] at this
  exact this

/-- the offsets it predicts -/
example : astOfBlock Spelling.tight 0 0 [exStmtA, exStmtB]
    = [⟨.step [.sub 8 "mix".toList]
          [.ref [.sub 12 "flour".toList] none,
           .step [.sub 24 "beaten".toList] [.ref [.sub 19 "eggs".toList] none],
           .step [.sub 32 "whisk".toList] [.ref [.sub 38 "milk".toList] none, .ref [.sub 43 "sugar".toList] none]],
         some [[.sub 0 "batter".toList]], true⟩,
       ⟨.step [.sub 77 "flip".toList] [.step [.sub 73 "fry".toList] [.ref [.sub 66 "batter".toList] none]],
         some [[.sub 51 "pancake".toList], [.sub 59 "crumbs".toList]], false⟩] := by
  decide +kernel

/-- the theorem on the airy spelling: the same abstract block, other offsets -/
example : parse ("\nbatter :=\tmix (\n  flour ,\n  (\n  eggs ,  beaten\n) ,\n  whisk (\n  milk ,\n  sugar\n) ,\n) \n\n"
      ++ "pancake , crumbs =\tbatter ,  fry ,  flip \n\n").toList
    = .ok (astOfBlock Spelling.airy 0 1 [exStmtA, exStmtB]) := by
  have := plain_recipe_roundtrip Spelling.airy Spelling.airy_wf exStmtA [exStmtB] exBlock_plain
    ⟨⟨_, _, _, rfl⟩, trivial⟩
  rw [exAiry_print] at this
  exact this

/-- … and modulo offsets both texts give the same AST -/
example : eraseOffsets (parse "batter:=mix(flour,(eggs,beaten),whisk(milk,sugar))\npancake,crumbs=batter,fry,flip\n".toList)
    = eraseOffsets (parse ("\nbatter :=\tmix (\n  flour ,\n  (\n  eggs ,  beaten\n) ,\n  whisk (\n  milk ,\n  sugar\n) ,\n) \n\n"
      ++ "pancake , crumbs =\tbatter ,  fry ,  flip \n\n").toList) := by
  have := plain_two_spellings Spelling.tight Spelling.airy Spelling.tight_wf Spelling.airy_wf exStmtA [exStmtB]
    exBlock_plain ⟨⟨_, _, _, rfl⟩, trivial⟩ ⟨⟨_, _, _, rfl⟩, trivial⟩
  rw [exTight_print, exAiry_print] at this
  exact this

/-- the same, checked directly on the model -/
example : eraseOffsets (parse "batter:=mix(flour,(eggs,beaten),whisk(milk,sugar))\npancake,crumbs=batter,fry,flip\n".toList)
    = .ok [bareStmt exStmtA, bareStmt exStmtB] := by decide +kernel

/-! ### names that need quotes -/

/-- `x = f('rest', "a, (b)")`: a remainder word and a name with a comma and parentheses -/
def exStmtQ : XStmt :=
  { target := some ⟨word "x", [], false⟩
    expr := .step (word "f") (.cons (.leaf ⟨none, ⟨.squoted ("rest".toList.map .raw), []⟩⟩)
      (.one (.leaf ⟨none, ⟨.dquoted ("a, (b)".toList.map .raw), []⟩⟩)))
    actions := [] }

theorem exStmtQ_plain : exStmtQ.Plain := by
  refine ⟨?_, by simp [exStmtQ], ?_⟩
  · simp only [exStmtQ, XExpr.Plain, XArgs.Plain]
    refine ⟨isWord_word _ (by unfold IsNaked; decide +kernel), ⟨_, rfl, ?_, fun txt e => by cases e⟩,
      ⟨_, rfl, ?_, fun txt e => by cases e⟩⟩
    · simp [IsNameAtom, QChar.Ok, isNewline]
    · simp [IsNameAtom, QChar.Ok, isNewline]
  · intro g hg
    cases hg
    exact ⟨isWord_word _ (by unfold IsNaked; decide +kernel), by simp⟩

example : parse "x=f('rest',\"a, (b)\")\n".toList
    = .ok [⟨.step [.sub 2 ['f']] [.ref [.sub 4 "rest".toList] none, .ref [.sub 11 "a, (b)".toList] none],
            some [[.sub 0 ['x']]], false⟩] := by
  have := plain_recipe_roundtrip Spelling.tight Spelling.tight_wf exStmtQ []
    (by intro x hx; simp only [List.mem_singleton] at hx; subst hx; exact exStmtQ_plain) trivial
  have e1 : Spelling.tight.lead ++ printBlock Spelling.tight 0 [exStmtQ] = "x=f('rest',\"a, (b)\")\n".toList := by
    decide +kernel
  have e2 : astOfBlock Spelling.tight 0 Spelling.tight.lead.length [exStmtQ]
      = [⟨.step [.sub 2 ['f']] [.ref [.sub 4 "rest".toList] none, .ref [.sub 11 "a, (b)".toList] none],
            some [[.sub 0 ['x']]], false⟩] := by decide +kernel
  rw [e1, e2] at this
  exact this

/-- without the quotes `rest` is a remainder word and wants an ingredient after it -/
example : parse "x=f(rest,a)\n".toList = .syntaxError := by decide +kernel

/-! ### amounts at the leaves: the general theorem -/

/-- `mix(2 eggs, 100g flour)` -/
def exMix : XExpr :=
  .step (word "mix")
    (.cons (.leaf ⟨some (.implicit (.int ['2']) none, [' ']), word "eggs"⟩)
      (.one (.leaf ⟨some (.implicit (.int "100".toList) (some ([], ⟨["g"], [[false]], []⟩, .none)), [' ']),
        word "flour"⟩)))

theorem exMix_print : printX Spelling.tight [] exMix = "mix(2 eggs,100g flour)".toList := by decide +kernel

theorem exMix_ok : XOk Spelling.tight [] ['\n'] exMix := by
  simp only [XOk, ArgsOk, exMix]
  refine ⟨?_, ⟨?_, ?_⟩, ?_, ?_⟩
  · exact nakedLit_ok' _ (by unfold IsNaked; decide +kernel) _ '(' _ rfl (Or.inl (by decide))
  · exact bareNumberRef_ok _ _ _ _ " eggs,100g flour)\n".toList "eggs,100g flour)\n".toList
      (by decide +kernel) (by decide +kernel) ⟨by decide, by decide⟩ (by decide)
      (by intro c hc; cases hc; exact ⟨by decide, by decide, by decide, by decide⟩)
      (by decide +kernel) (by decide +kernel) (by unfold IsBlanks; decide)
      (nakedLit_ok' _ (by unfold IsNaked; decide +kernel) _ ',' _ rfl (Or.inl (by decide)))
  · exact notStep_of_naked_print (by unfold IsNaked; decide +kernel)
      (wordFollow_spaces (ws := []) (by unfold IsSpaces; decide) _ (Or.inl rfl))
  · exact unitRef_ok _ _ _ _ _ _ " flour)\n".toList "g flour)\n".toList "g flour)\n".toList
      (by decide +kernel) (by decide +kernel) (by decide +kernel)
      ⟨by decide, by decide⟩ (by decide) (by intro c hc; cases hc; exact ⟨by decide, by decide⟩)
      (by simp [IsBlanks]) ⟨by decide, by simp [UnitSpellingOk]⟩ (by decide +kernel)
      (nextNot_of_head _ _ ' ' "flour)\n".toList (by decide +kernel) (by decide +kernel))
      (by unfold IsBlanks; decide)
      (nakedLit_ok' _ (by unfold IsNaked; decide +kernel) _ ')' _ rfl (Or.inl (by decide)))
  · exact notStep_of_naked_print (by unfold IsNaked; decide +kernel)
      (wordFollow_spaces (ws := []) (by unfold IsSpaces; decide) _ (Or.inr (Or.inl rfl)))

/-- `expr_roundtrip` on it, after any prefix -/
example (pre : Str) (z : Bool) (fuel : Nat) (h : 2 ≤ fuel) :
    expr fuel (pre ++ "mix(2 eggs,100g flour)".toList ++ ['\n']).toArray ⟨pre.length, z⟩
      = some (.step [.sub pre.length "mix".toList]
          [.ref [.sub (pre.length + 6) "eggs".toList] (some (.qty (pre.length + 4) ⟨((2 : Nat) : Rat), .int⟩ none [] [])),
           .ref [.sub (pre.length + 16) "flour".toList]
             (some (.qty (pre.length + 11) ⟨((100 : Nat) : Rat), .int⟩ (some [.sub (pre.length + 14) ['g']]) [] []))],
        ⟨(pre ++ "mix(2 eggs,100g flour)".toList).length, z⟩) := by
  have := expr_roundtrip Spelling.tight Spelling.tight_wf exMix pre ['\n'] z fuel h exMix_ok
  rw [exMix_print] at this
  rw [this]
  simp [exMix, astOf, astArgs, RefLit.value, AmountLit.value, AmountLit.print, NumLit.print, NumLit.value,
    StringLit.print, StringLit.value, printString, printMore, stringValue, moreValue, StrAtom.print,
    StrAtom.value, digitsValue, word, Spelling.tight, printX, RefLit.print, UnitLit.print, printUnit, caseWord,
    PrepLit.print, Nat.add_assoc]

end RG.C06
