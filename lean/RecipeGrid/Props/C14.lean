import RecipeGrid.Model.Site
import RecipeGrid.Lemmas.Site
import RecipeGrid.Props.C15
/-! C14 — generated links: percent-encoding loses nothing and introduces no URL syntax; a relative link
    resolves (RFC 3986 §5.2) to the page it was made for; page paths are file-like; every generated link
    targets a page of the same site. -/
namespace RG.C14
theorem relative_example : hrefRelative "/foo/bar/baz.html".toList "/foo/qux/quo.html".toList = "../qux/quo.html".toList := by decide

-- ================================================================ percent-encoding
/-- UTF-8 bytes of a string -/
def utf8Bytes (s : Str) : List UInt8 := s.flatMap String.utf8EncodeChar

/-- value of a hexadecimal digit (either case, as `urllib.parse.unquote` accepts) -/
def hexVal (c : Char) : Option Nat :=
  if '0' ≤ c ∧ c ≤ '9' then some (c.toNat - 48)
  else if 'A' ≤ c ∧ c ≤ 'F' then some (c.toNat - 55)
  else if 'a' ≤ c ∧ c ≤ 'f' then some (c.toNat - 87)
  else none

/-- `urllib.parse.unquote_to_bytes`, written independently of `urlQuote`: `%XX` becomes the byte XX, everything else
    its UTF-8 bytes; a `%` not followed by two hex digits is kept literally. The first argument counts characters
    still to be skipped (the two hex digits of an escape just decoded). -/
def unquoteGo : Nat → Str → List UInt8
  | _, [] => []
  | k + 1, _ :: rest => unquoteGo k rest
  | 0, c :: rest =>
    if c = '%' then
      match rest with
      | a :: b :: _ =>
        match hexVal a, hexVal b with
        | some x, some y => UInt8.ofNat (16 * x + y) :: unquoteGo 2 rest
        | _, _ => String.utf8EncodeChar c ++ unquoteGo 0 rest
      | _ => String.utf8EncodeChar c ++ unquoteGo 0 rest
    else String.utf8EncodeChar c ++ unquoteGo 0 rest
def unquoteBytes (s : Str) : List UInt8 := unquoteGo 0 s

/-- RFC 3986 unreserved characters -/
def isUnreserved (c : Char) : Bool :=
  ('a' ≤ c && c ≤ 'z') || ('A' ≤ c && c ≤ 'Z') || ('0' ≤ c && c ≤ '9') || c == '-' || c == '.' || c == '_' || c == '~'
def isUpperHex (c : Char) : Bool := ('0' ≤ c && c ≤ '9') || ('A' ≤ c && c ≤ 'F')

/-- only unreserved characters, `/`, and complete `%XX` escapes (upper-case hex); the first argument counts the hex
    digits still owed by an escape -/
def wellEscapedGo : Nat → Str → Bool
  | 0, [] => true
  | _ + 1, [] => false
  | k + 1, c :: rest => isUpperHex c && wellEscapedGo k rest
  | 0, c :: rest => if c = '%' then wellEscapedGo 2 rest else (isUnreserved c || c == '/') && wellEscapedGo 0 rest
def wellEscaped (s : Str) : Bool := wellEscapedGo 0 s

example : unquoteBytes "a%20b%zz%".toList = [97, 32, 98, 37, 122, 122, 37] := by decide
example : unquoteBytes (urlQuote "a b/é#?%".toList) = utf8Bytes "a b/é#?%".toList := by decide
example : urlQuote "a b/é#?%".toList = "a%20b/%C3%A9%23%3F%25".toList := by decide
example : wellEscaped "a%20b/%C3%A9".toList = true := by decide
example : wellEscaped "a%2".toList = false := by decide
example : wellEscaped "a#b".toList = false := by decide
example : wellEscaped "a b".toList = false := by decide
example : wellEscaped "50%zz".toList = false := by decide

/-- percent-encoding loses nothing: decoding the encoded string gives back the UTF-8 bytes of the original -/
theorem quote_roundtrip (s : Str) : unquoteBytes (urlQuote s) = utf8Bytes s := by
  have hex : ∀ n, n < 16 → hexVal (hexDigit n) = some n := fun n hn =>
    (by decide : ∀ n : Fin 16, hexVal (hexDigit n.val) = some n.val) ⟨n, hn⟩
  have esc : ∀ (bs : List UInt8) (t : Str),
      unquoteGo 0 (bs.flatMap (fun b => ['%', hexDigit (b.toNat / 16), hexDigit (b.toNat % 16)]) ++ t) = bs ++ unquoteGo 0 t := by
    intro bs t
    induction bs with
    | nil => rfl
    | cons b bs ih =>
      have hb : b.toNat < 256 := UInt8.toNat_lt b
      simp only [List.flatMap_cons, List.cons_append, List.nil_append, unquoteGo, if_true,
        hex (b.toNat / 16) (by omega), hex (b.toNat % 16) (by omega), ih]
      congr 1
      rw [Nat.div_add_mod]
      simp
  have key : ∀ (c : Char) (t : Str), unquoteGo 0 (urlQuoteChar c ++ t) = String.utf8EncodeChar c ++ unquoteGo 0 t := by
    intro c t
    unfold urlQuoteChar
    split
    · rename_i h
      have hc : c ≠ '%' := by
        intro hc; subst hc; revert h; decide
      simp [unquoteGo, hc]
    · exact esc _ _
  have main : ∀ (s : Str), unquoteGo 0 (urlQuote s) = utf8Bytes s := by
    intro s
    induction s with
    | nil => rfl
    | cons c s ih =>
      simp only [urlQuote, List.flatMap_cons, utf8Bytes] at *
      rw [key, ih]
  exact main s

/-- UTF-8 encoding is injective, so the decoded bytes determine the string -/
theorem utf8Bytes_injective (a b : Str) (h : utf8Bytes a = utf8Bytes b) : a = b := by
  have h1 : a.utf8Encode = b.utf8Encode := by
    unfold List.utf8Encode
    unfold utf8Bytes at h
    rw [h]
  have h2 : String.ofList a = String.ofList b := by
    apply String.toByteArray_inj.mp
    simpa using h1
  have := congrArg String.toList h2
  simpa using this

/-- … hence the only string a percent-encoded string decodes to is the original -/
theorem quote_decodes_uniquely (s r : Str) (h : unquoteBytes (urlQuote s) = utf8Bytes r) : r = s :=
  utf8Bytes_injective r s (by rw [← h, quote_roundtrip])

/-- the encoded string consists of unreserved characters, `/` and complete upper-case `%XX` escapes only -/
theorem quote_safe (s : Str) : wellEscaped (urlQuote s) = true := by
  have hex : ∀ n, n < 16 → isUpperHex (hexDigit n) = true := fun n hn =>
    (by decide : ∀ n : Fin 16, isUpperHex (hexDigit n.val) = true) ⟨n, hn⟩
  have esc : ∀ (bs : List UInt8) (t : Str),
      wellEscapedGo 0 (bs.flatMap (fun b => ['%', hexDigit (b.toNat / 16), hexDigit (b.toNat % 16)]) ++ t) = wellEscapedGo 0 t := by
    intro bs t
    induction bs with
    | nil => rfl
    | cons b bs ih =>
      have hb : b.toNat < 256 := UInt8.toNat_lt b
      simp only [List.flatMap_cons, List.cons_append, List.nil_append, wellEscapedGo, if_true,
        hex (b.toNat / 16) (by omega), hex (b.toNat % 16) (by omega), ih, Bool.true_and]
  have key : ∀ (c : Char) (t : Str), wellEscapedGo 0 (urlQuoteChar c ++ t) = wellEscapedGo 0 t := by
    intro c t
    unfold urlQuoteChar
    split
    · rename_i h
      have hc : c ≠ '%' := by
        intro hc; subst hc; revert h; decide
      have hu : (isUnreserved c || c == '/') = true := by
        simp only [isUnreserved]
        simp only [Bool.or_eq_true] at h ⊢
        grind
      simp [wellEscapedGo, hc, hu]
    · exact esc _ _
  have main : ∀ (s : Str), wellEscapedGo 0 (urlQuote s) = true := by
    intro s
    induction s with
    | nil => rfl
    | cons c s ih =>
      simp only [urlQuote, List.flatMap_cons] at *
      rw [key, ih]
  exact main s

/-- character-wise reading of `quote_safe`: no `#`, `?`, space, quote … can appear; `%` only as part of an escape -/
theorem quote_safe_chars (s : Str) : ∀ c ∈ urlQuote s, isUnreserved c = true ∨ c = '/' ∨ c = '%' := by
  intro c hc
  have hex : ∀ n, n < 16 → isUnreserved (hexDigit n) = true := fun n hn =>
    (by decide : ∀ n : Fin 16, isUnreserved (hexDigit n.val) = true) ⟨n, hn⟩
  obtain ⟨x, _, hx⟩ := List.mem_flatMap.mp hc
  unfold urlQuoteChar at hx
  split at hx
  · rename_i h
    have : c = x := by simpa using hx
    subst this
    have hu : (isUnreserved c || c == '/') = true := by
      simp only [isUnreserved]
      simp only [Bool.or_eq_true] at h ⊢
      grind
    rcases Bool.or_eq_true _ _ |>.mp hu with h1 | h1
    · exact .inl h1
    · exact .inr (.inl (by simpa using h1))
  · obtain ⟨b, _, hb⟩ := List.mem_flatMap.mp hx
    have hb' : b.toNat < 256 := UInt8.toNat_lt b
    simp only [List.mem_cons, List.not_mem_nil, or_false] at hb
    rcases hb with rfl | rfl | rfl
    · exact .inr (.inr rfl)
    · exact .inl (hex _ (by omega))
    · exact .inl (hex _ (by omega))

-- ================================================================ C14.1 relative links resolve
/-- a path is *file-like*: absolute, every segment non-empty and not "." or ".." (so it ends in a file segment) -/
def FileLike (p : Str) : Prop :=
  ∃ segs, p = '/' :: joinSlash segs ∧ segs ≠ [] ∧ ∀ s ∈ segs, s ≠ [] ∧ s ≠ ".".toList ∧ s ≠ "..".toList ∧ '/' ∉ s

/-- the segments of an absolute path (after the leading "/") -/
def segsOf (p : Str) : List Str := (splitSlash p).drop 1

theorem relative_resolves (frm to : Str) (hf : FileLike frm) (ht : FileLike to)
    (hne : ¬ segsOf to <+: (segsOf frm).dropLast) :
    resolveRef frm (relativePath frm to) = to := by
  obtain ⟨fs, rfl, hf1, hf2⟩ := hf
  obtain ⟨ts, rfl, ht1, ht2⟩ := ht
  have e1 : segsOf ('/' :: joinSlash fs) = fs := by
    simp [segsOf, splitSlash_abs fs hf1 (fun s hs => (hf2 s hs).2.2.2)]
  have e2 : segsOf ('/' :: joinSlash ts) = ts := by
    simp [segsOf, splitSlash_abs ts ht1 (fun s hs => (ht2 s hs).2.2.2)]
  rw [e1, e2] at hne
  exact relative_resolves_segs fs ts hf1 ht1 (fun s hs => (hf2 s hs).2) ht2 hne

/-- the link as written (percent-encoded) decodes to a reference that resolves to the target -/
theorem link_resolves (frm to : Str) (hf : FileLike frm) (ht : FileLike to)
    (hne : ¬ segsOf to <+: (segsOf frm).dropLast) :
    ∃ ref, unquoteBytes (hrefRelative frm to) = utf8Bytes ref ∧ resolveRef frm ref = to :=
  ⟨relativePath frm to, quote_roundtrip _, relative_resolves frm to hf ht hne⟩

/-- a link to the page itself is its own file name, which resolves to itself -/
theorem relative_resolves_self (frm : Str) (hf : FileLike frm) :
    relativePath frm frm = (segsOf frm).getLast?.getD [] ∧ resolveRef frm (relativePath frm frm) = frm := by
  refine ⟨?_, ?_⟩
  · obtain ⟨fs, rfl, hf1, hf2⟩ := hf
    have e1 : segsOf ('/' :: joinSlash fs) = fs := by
      simp [segsOf, splitSlash_abs fs hf1 (fun s hs => (hf2 s hs).2.2.2)]
    rw [e1, relativePath_self_segs fs hf1 (fun s hs => (hf2 s hs).2.2.2), List.getLast?_eq_some_getLast hf1]
    rfl
  · apply relative_resolves frm frm hf hf
    intro h
    have hl := h.length_le
    rw [List.length_dropLast] at hl
    obtain ⟨fs, rfl, hf1, hf2⟩ := hf
    have e1 : segsOf ('/' :: joinSlash fs) = fs := by
      simp [segsOf, splitSlash_abs fs hf1 (fun s hs => (hf2 s hs).2.2.2)]
    rw [e1] at hl
    have : fs.length ≠ 0 := by simpa using hf1
    omega

example : FileLike "/serves2/Soups/leek soup.html".toList :=
  ⟨["serves2".toList, "Soups".toList, "leek soup.html".toList], by decide, by decide, by decide⟩
example : resolveRef "/serves2/a b/x.html".toList (relativePath "/serves2/a b/x.html".toList "/categories/é/y.html".toList)
    = "/categories/é/y.html".toList := by decide
example : ¬ segsOf "/categories/é/y.html".toList <+: (segsOf "/serves2/a b/x.html".toList).dropLast := by decide
/-- the side condition is needed: a target that is an ancestor *directory* name of the source resolves to a directory -/
example : resolveRef "/a/b/c.html".toList (relativePath "/a/b/c.html".toList "/a".toList) = "/a/".toList := by decide

-- ================================================================ page paths are file-like
def SegOK (s : Str) : Prop := s ≠ [] ∧ s ≠ ".".toList ∧ s ≠ "..".toList ∧ '/' ∉ s

/-- every directory name below the root is a proper path segment, and no recipe file stem contains "/"
    (the stem gets ".html" appended, so it cannot be empty, "." or "..") -/
def NamesOK (root : Dir) : Prop :=
  (∀ dirs d, C15.DirAt root dirs d → ∀ s ∈ dirs, SegOK s) ∧
  (∀ dirs r, C15.InTree root dirs r → '/' ∉ stemOf r.file)

/-- the shape of every page path: directory segments (none for the home page, else the scale root followed by the
    directory names of a directory of the tree), then a file segment `<stem>.html` -/
theorem page_path_shape (root : Dir) (rootName : Str) (M : Nat) (ps : List Page)
    (h : sitePages root rootName M = .ok ps) (hn : NamesOK root) :
    ∀ p ∈ ps, ∃ D stem, p.path = '/' :: joinSlash (D ++ [stem ++ ".html".toList]) ∧ '/' ∉ stem ∧ (∀ s ∈ D, SegOK s) ∧
      (D = [] ∨ ∃ sv dirs d, D = scaleRoot sv :: dirs ∧ C15.DirAt root dirs d) := by
  intro p hp
  rcases C15.pages_classified root rootName M ps h p hp with h0 | ⟨sv, dirs, _, ⟨d, hd, hpath⟩ | ⟨r, hr, _, hpath, _⟩⟩
  · exact ⟨[], "index".toList, by rw [h0]; decide, by decide, by simp, .inl rfl⟩
  · refine ⟨scaleRoot sv :: dirs, "index".toList, by rw [hpath, catPath_segs]; rfl, by decide, ?_, .inr ⟨sv, dirs, d, rfl, hd⟩⟩
    intro s hs
    rcases List.mem_cons.mp hs with rfl | hs
    · exact scaleRoot_ok sv
    · exact hn.1 dirs d hd s hs
  · obtain ⟨d, hd, _⟩ := (C15.inTree_iff ..).mp hr
    refine ⟨scaleRoot sv :: dirs, stemOf r.file, by rw [hpath, recipePath_segs], hn.2 dirs r hr, ?_, .inr ⟨sv, dirs, d, rfl, hd⟩⟩
    intro s hs
    rcases List.mem_cons.mp hs with rfl | hs
    · exact scaleRoot_ok sv
    · exact hn.1 dirs d hd s hs

theorem paths_are_files (root : Dir) (rootName : Str) (M : Nat) (ps : List Page)
    (h : sitePages root rootName M = .ok ps) (hn : NamesOK root) : ∀ p ∈ ps, FileLike p.path := by
  intro p hp
  obtain ⟨D, stem, hpath, hstem, hD, _⟩ := page_path_shape root rootName M ps h hn p hp
  refine ⟨_, hpath, by simp, ?_⟩
  intro s hs
  rcases List.mem_append.mp hs with hs | hs
  · exact hD s hs
  · have : s = stem ++ ".html".toList := by simpa using hs
    rw [this]; exact htmlSeg_ok stem hstem

-- ================================================================ every generated link targets a page of the site
/-- no recipe states zero servings (the Python code divides by the stated number) -/
def ServingsPositive (root : Dir) : Prop := ∀ dirs r, C15.InTree root dirs r → r.servings ≠ some 0

/-- C14: every generated link (breadcrumbs, stylesheet, category lists, serving menu, "rescaled from" link) of every
    page is the in-page anchor `#` or `href.relative(page, target)` for a page `target` of the same site or the stylesheet -/
theorem generated_links_target_pages (root : Dir) (rootName : Str) (M : Nat) (ps : List Page)
    (h : sitePages root rootName M = .ok ps) (hpos : ServingsPositive root) :
    ∀ p ∈ ps, ∀ l ∈ p.links, l = ['#'] ∨ ∃ t, (t ∈ ps.map (·.path) ∨ t = cssPath) ∧ l = hrefRelative p.path t := by
  have hroots := C15.scaled_roots root rootName M ps h
  have hhome : "/index.html".toList ∈ ps.map (·.path) :=
    List.mem_map.mpr ⟨homePage root rootName M, (mem_sitePages h _).mpr (.inl rfl), rfl⟩
  intro p hp
  rcases (mem_sitePages h p).mp hp with rfl | ⟨sv, hsv, hp⟩
  · intro l hl
    rcases (mem_homePage_links root rootName M l).mp hl with hl | ⟨m, hm, hl⟩ | hl
    · exact .inr ⟨cssPath, .inr rfl, hl⟩
    · exact .inr ⟨_, .inl (hroots.1 (m + 1) (by omega) (by omega)), hl⟩
    · exact .inr ⟨_, .inl hroots.2, hl⟩
  · have hH : C15.Hierarchy M sv := by cases sv <;> exact hsv
    apply links_target M sv (fun t => t ∈ ps.map (·.path) ∨ t = cssPath) (.inr rfl) root (homeChain root rootName) [] true _ _ _ p hp
    · intro c hc
      have : c = (root.title (some rootName), "/index.html".toList) := by simpa [homeChain] using hc
      rw [this]; exact .inl hhome
    · intro rel d' hsub
      rw [catDirs_true, List.nil_append]
      exact .inl (C15.category_pages root rootName M ps h rel d' ((C15.dirAt_iff ..).mpr hsub) sv hH)
    · intro rel d' r hsub hr
      rw [catDirs_true, List.nil_append]
      have hin : C15.InTree root rel r := (C15.inTree_iff ..).mpr ⟨d', (C15.dirAt_iff ..).mpr hsub, hr⟩
      unfold RecTargets
      cases hs : r.servings with
      | none =>
        obtain ⟨q, hq, hpath, _⟩ := C15.unscalable_recipe_page root rootName M ps h rel r hin hs
        exact .inl (List.mem_map.mpr ⟨q, hq, hpath⟩)
      | some native =>
        obtain ⟨hle, hall⟩ := C15.recipe_pages_per_count root rootName M ps h rel r hin native hs
        have hpage : ∀ n, 1 ≤ n → n ≤ M → recipePath (some n) rel r.file ∈ ps.map (·.path) := by
          intro n h1 h2
          obtain ⟨q, hq, hpath, _⟩ := hall n h1 h2
          exact List.mem_map.mpr ⟨q, hq, hpath⟩
        have hnat : 1 ≤ native := by
          have := hpos rel r hin
          rw [hs] at this
          rcases Nat.eq_zero_or_pos native with h0 | h0
          · subst h0; exact absurd rfl this
          · exact h0
        refine ⟨.inl (hpage native hnat hle), fun m hm => .inl (hpage (m + 1) (by omega) (by omega)), ?_⟩
        intro n hn
        subst hn
        exact .inl (hpage n hH.1 hH.2)

/-- the hypothesis on servings is needed: a recipe "for 0" makes the `categories` list link to `/serves0/…`,
    which is not a page of the site (in Python the site build fails with `ZeroDivisionError` instead) -/
theorem generated_links_zero_servings :
    ∃ ps, sitePages (.mk "r".toList none [⟨"x.md".toList, "X".toList, some 0⟩] []) "r".toList 1 = .ok ps ∧
      ∃ p ∈ ps, ∃ l ∈ p.links, l ≠ ['#'] ∧ ∀ t ∈ cssPath :: ps.map (·.path), l ≠ hrefRelative p.path t := by
  refine ⟨_, rfl, ?_⟩
  decide

/-- links resolve: a generated link of a page, decoded and resolved against the page's own path, gives the target page
    (for targets that are not an ancestor directory name of the page, which file-like page paths never are in practice) -/
theorem generated_link_resolves (root : Dir) (rootName : Str) (M : Nat) (ps : List Page)
    (h : sitePages root rootName M = .ok ps) (hn : NamesOK root) (p t : Page) (hp : p ∈ ps) (ht : t ∈ ps)
    (hne : ¬ segsOf t.path <+: (segsOf p.path).dropLast) :
    ∃ ref, unquoteBytes (hrefRelative p.path t.path) = utf8Bytes ref ∧ resolveRef p.path ref = t.path :=
  link_resolves p.path t.path (paths_are_files root rootName M ps h hn p hp) (paths_are_files root rootName M ps h hn t ht) hne

/-- no directory of the tree is named like a page file (`….html`); otherwise the directory `x.html/` and the page
    `x.html` would claim the same output path -/
def NoHtmlDirs (root : Dir) : Prop := ∀ dirs d, C15.DirAt root dirs d → ∀ s ∈ dirs, ¬ ".html".toList <:+ s

/-- C14.1 for the whole site: every generated link of every page — decoded and resolved against the page's own path as a
    browser does (RFC 3986 §5.2) — is the in-page anchor `#` or leads exactly to the path of a page of the site or to the
    stylesheet -/
theorem every_link_resolves (root : Dir) (rootName : Str) (M : Nat) (ps : List Page)
    (h : sitePages root rootName M = .ok ps) (hn : NamesOK root) (hh : NoHtmlDirs root) (hpos : ServingsPositive root) :
    ∀ p ∈ ps, ∀ l ∈ p.links, l = ['#'] ∨
      ∃ t, (t ∈ ps.map (·.path) ∨ t = cssPath) ∧ ∃ ref, unquoteBytes l = utf8Bytes ref ∧ resolveRef p.path ref = t := by
  intro p hp l hl
  rcases generated_links_target_pages root rootName M ps h hpos p hp l hl with h0 | ⟨t, ht, rfl⟩
  · exact .inl h0
  refine .inr ⟨t, ht, ?_⟩
  have hpf := paths_are_files root rootName M ps h hn p hp
  obtain ⟨D, stem, hpath, hstem, hD, hDshape⟩ := page_path_shape root rootName M ps h hn p hp
  have hsegs : ∀ L : List Str, L ≠ [] → (∀ s ∈ L, '/' ∉ s) → segsOf ('/' :: joinSlash L) = L := by
    intro L h1 h2
    simp [segsOf, splitSlash_abs L h1 h2]
  have hpsegs : (segsOf p.path).dropLast = D := by
    rw [hpath, hsegs _ (by simp)]
    · simp
    · intro s hs
      rcases List.mem_append.mp hs with hs | hs
      · exact (hD s hs).2.2.2
      · have : s = stem ++ ".html".toList := by simpa using hs
        rw [this]; exact (htmlSeg_ok stem hstem).2.2.2
  rcases ht with ht | rfl
  · obtain ⟨q, hq, rfl⟩ := List.mem_map.mp ht
    have hqf := paths_are_files root rootName M ps h hn q hq
    obtain ⟨D', stem', hpath', hstem', hD', _⟩ := page_path_shape root rootName M ps h hn q hq
    apply link_resolves p.path q.path hpf hqf
    rw [hpsegs, hpath', hsegs _ (by simp)]
    · apply not_prefix_of_last_not_mem
      rcases hDshape with rfl | ⟨sv, dirs, d, rfl, hd⟩
      · simp
      · exact htmlSeg_not_mem_dirs sv dirs stem' (hh dirs d hd)
    · intro s hs
      rcases List.mem_append.mp hs with hs | hs
      · exact (hD' s hs).2.2.2
      · have : s = stem' ++ ".html".toList := by simpa using hs
        rw [this]; exact (htmlSeg_ok stem' hstem').2.2.2
  · have hcss : cssPath = '/' :: joinSlash ["css".toList, "style.css".toList] := by decide
    apply link_resolves p.path cssPath hpf ⟨_, hcss, by decide, by decide⟩
    rw [hpsegs, hcss, hsegs _ (by decide) (by decide)]
    rintro ⟨rest, hrest⟩
    rcases hDshape with rfl | ⟨sv, dirs, d, rfl, hd⟩
    · simp at hrest
    · have := (List.cons.inj hrest).1
      exact scaleRoot_ne_css sv this.symm

end RG.C14
