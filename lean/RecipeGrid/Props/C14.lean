import RecipeGrid.Model.Site
namespace RG.C14
theorem relative_example : hrefRelative "/foo/bar/baz.html".toList "/foo/qux/quo.html".toList = "../qux/quo.html".toList := by decide
end RG.C14
