import RecipeGrid.Lemmas.ParserErrShift
import RecipeGrid.Props.C19b
import RecipeGrid.Props.C07c
/-! C19.3 — a *syntax* error in an embedded recipe is reported at its Markdown line.

    Companion of `Props/C19b.lean` (which does this for the errors of the compiler): the Markdown front end parses each
    recipe block with `k` newlines in front of its text.  The instrumented parser (`Model/ParserErr.lean`) is position
    independent, the furthest failure included (`rule_shiftE`, `parseE_pad`; rule by rule in
    `Lemmas/ParserErrShift.lean`), hence peggie reports the error of the padded text `k` characters further on, and with
    C19.1 (`pad_line_of_ne_nil`, `pad_extract`) that is `k` lines further down, at the same column, quoting the same
    text (`padded_syntax_error_line`, `markdown_syntax_error_line`). -/
namespace RG.C19

/-! ## the instrumented parser is position independent -/

/-- the key lemma, for any rule `pe` of the grammar (instances: `ParserE.ShE.stmt`, `ParserE.ShE.expr`,
    `ParserE.ShE.string`, … in `Lemmas/ParserErrShift.lean`): on `pre ++ s` from position `i + pre.length` the rule does
    what it does on `s` from `i`, with its value's offsets, its final position and its furthest failure moved by
    `pre.length`.  The padding must not contain word characters, because `\b` looks one character back. -/
theorem rule_shiftE {α α' : Type} {g : α → α'} {pe' : ParserE.PE α'} {pe : ParserE.PE α} {pre : Str}
    (h : ParserE.ShE pre g pe' pe) (hpre : ∀ c ∈ pre, isReWord c = false) (s : Str) (i : Nat) (z : Bool) :
    pe' (pre ++ s).toArray ⟨i + pre.length, z⟩ =
      (((pe s.toArray ⟨i, z⟩).1).map (fun r => (g r.1, ⟨r.2.pos + pre.length, r.2.zero⟩)),
       ((pe s.toArray ⟨i, z⟩).2).map (· + pre.length)) :=
  h hpre s ⟨i, z⟩

/-- e.g. a statement in the middle of a padded text: same outcome, and its furthest failure `pre.length` further on -/
theorem stmt_shiftE (pre s : Str) (hpre : ∀ c ∈ pre, isReWord c = false) (i : Nat) (z : Bool) :
    ParserE.stmt (pre ++ s).toArray ⟨i + pre.length, z⟩ =
      (((ParserE.stmt s.toArray ⟨i, z⟩).1).map (fun r => (shiftStmt pre.length r.1, ⟨r.2.pos + pre.length, r.2.zero⟩)),
       ((ParserE.stmt s.toArray ⟨i, z⟩).2).map (· + pre.length)) :=
  rule_shiftE ParserE.ShE.stmt hpre s i z

/-- **shift invariance of `parseE`**: `k` newlines in front move every offset of the AST by `k`, move the offset of
    a syntax error by `k`, and change nothing else (no condition on the text: the leading `sp?` of `recipe` swallows
    the padding, and where it matches nothing it fails at offset 0, which is never the furthest failure alone) -/
theorem parseE_pad (k : Nat) (s : Str) :
    parseE (pad k s) =
      (match parseE s with
       | .ok stmts => .ok (stmts.map (shiftStmt k))
       | .syntaxError off => .syntaxError (off + k)) := by
  rw [pad, RG.parseE_pad k s]
  cases parseE s <;> rfl

/-- in particular for a rejected text -/
theorem parseE_pad_syntaxError (k : Nat) (s : Str) (off : Nat) (h : parseE s = .syntaxError off) :
    parseE (pad k s) = .syntaxError (k + off) := by
  rw [parseE_pad, h, Nat.add_comm]

/-- the same for any padding made of white space -/
theorem parseE_pad_space (pre s : Str) (hsp : ∀ c ∈ pre, isReSpace c = true) :
    parseE (pre ++ s) =
      (match parseE s with
       | .ok stmts => .ok (stmts.map (shiftStmt pre.length))
       | .syntaxError off => .syntaxError (off + pre.length)) := by
  rw [RG.parseE_pad_space pre s hsp]
  cases parseE s <;> rfl

/-- checked by evaluation, independently of `parseE_pad`: an unclosed bracket in the second line, at offset 14 of the
    text and at offset 17 of the text padded by three lines; an accepted text stays accepted -/
example : C07.errOffset (parseE "x = 1 egg\nfry(x".toList) = some 15 ∧
    C07.errOffset (parseE (pad 3 "x = 1 egg\nfry(x".toList)) = some (15 + 3) ∧
    C07.errOffset (parseE (pad 3 "x = 1 egg".toList)) = none := by decide +kernel

/-- the padding need not be swallowed by `sp?` alone: a text that starts with white space of its own -/
example : C07.errOffset (parseE "  \n x )".toList) = some 6 ∧
    C07.errOffset (parseE (pad 2 "  \n x )".toList)) = some (6 + 2) := by decide +kernel

/-! ## the reported line is the document line -/

/-- **C19 for syntax errors**: if the grammar rejects the (non-empty) block text `s` at offset `off` — that is at line
    `l`, column `c`, quoting line `l` of `s` — then it rejects the text padded by `k` newlines at offset `k + off`:
    line `l + k`, the same column `c`, quoting the same text -/
theorem padded_syntax_error_line (k : Nat) (s : Str) (off : Nat) (hs : s ≠ []) (h : parseE s = .syntaxError off) :
    parseE (pad k s) = .syntaxError (k + off) ∧
    syntaxErrorLineCol (pad k s) (k + off) = ((syntaxErrorLineCol s off).1 + k, (syntaxErrorLineCol s off).2) ∧
    syntaxErrorSnippet (pad k s) (k + off) = syntaxErrorSnippet s off := by
  refine ⟨parseE_pad_syntaxError k s off h, pad_line_of_ne_nil k s off hs, ?_⟩
  unfold syntaxErrorSnippet
  rw [pad_line_of_ne_nil k s off hs]
  exact pad_extract k s _ (C07.offset_located s off).1 hs

/-- the hypothesis `s ≠ []` is needed (as in `pad_line_of_ne_nil`): the empty block is rejected at line 1, column 1;
    padded by two lines it is rejected at the end of the padding, which `offset_to_line_and_column` reports as line 2,
    column 2 — not line 3, column 1 -/
example : C07.errOffset (parseE []) = some 0 ∧ syntaxErrorLineCol [] 0 = (1, 1) ∧
    C07.errOffset (parseE (pad 2 [])) = some 2 ∧ syntaxErrorLineCol (pad 2 []) 2 = (2, 2) := by decide +kernel

/-- read off the reply `(syntax <offset> <line> <column> <quoted line>)`: line, column and quoted line of the error
    for the padded text, from those for the block text -/
theorem padded_syntax_error_report (k : Nat) (s : Str) (off : Nat) (hs : s ≠ []) (h : parseE s = .syntaxError off) :
    ∃ off', parseE (pad k s) = .syntaxError off' ∧
      (syntaxErrorLineCol (pad k s) off').1 = (syntaxErrorLineCol s off).1 + k ∧
      (syntaxErrorLineCol (pad k s) off').2 = (syntaxErrorLineCol s off).2 ∧
      syntaxErrorSnippet (pad k s) off' = syntaxErrorSnippet s off := by
  obtain ⟨h1, h2, h3⟩ := padded_syntax_error_line k s off hs h
  exact ⟨k + off, h1, by rw [h2], by rw [h2], h3⟩

/-- non-vacuity: the stray `)` in line 2 of a block padded by 5 lines (a fenced block whose fence is on document
    line 5) is reported on line 7, column 3, quoting `x )` -/
example :
    C07.errOffset (parseE "x = 1 egg\nx )".toList) = some 12 ∧
    syntaxErrorLineCol "x = 1 egg\nx )".toList 12 = (2, 3) ∧
    C07.errOffset (parseE (pad 5 "x = 1 egg\nx )".toList)) = some (5 + 12) ∧
    syntaxErrorLineCol (pad 5 "x = 1 egg\nx )".toList) (5 + 12) = (2 + 5, 3) ∧
    syntaxErrorSnippet (pad 5 "x = 1 egg\nx )".toList) (5 + 12) = some "x )".toList := by decide +kernel

/-! ## the padding chosen by the Markdown front end -/

/-- **C19 for syntax errors, through `get_line_number_corrected_source`**: the text the Markdown front end compiles
    for a (non-empty) recipe block found at `pos` is rejected `mdPadding md pos fenced` lines below the line at which
    the block's own text (carriage returns read as line feeds) is rejected — with `H_marko` that is the document line
    of the offending character — at the same column, quoting the same text -/
theorem markdown_syntax_error_line (md : Str) (pos : Nat) (fenced : Bool) (src : Str) (off : Nat)
    (hs : src ≠ []) (h : parseE (crToLf src) = .syntaxError off) :
    parseE (paddedSource md pos fenced src) = .syntaxError (mdPadding md pos fenced + off) ∧
    syntaxErrorLineCol (paddedSource md pos fenced src) (mdPadding md pos fenced + off) =
      ((syntaxErrorLineCol (crToLf src) off).1 + mdPadding md pos fenced, (syntaxErrorLineCol (crToLf src) off).2) ∧
    syntaxErrorSnippet (paddedSource md pos fenced src) (mdPadding md pos fenced + off) =
      syntaxErrorSnippet (crToLf src) off := by
  have hne : crToLf src ≠ [] := by
    cases src with
    | nil => exact absurd rfl hs
    | cons c cs => simp [crToLf]
  rw [paddedSource_is_pad]
  exact padded_syntax_error_line _ _ off hne h

/-- the same through `paddedSource`: a fenced block whose opening fence is on line 3 of the document; the stray `)`
    of its second line is reported on document line 5 -/
example :
    let md := "Title\n\n```recipe\nx = 1 egg\nx )\n```\n".toList
    mdPadding md 7 true = 3 ∧
    C07.errOffset (parseE (paddedSource md 7 true "x = 1 egg\nx )\n".toList)) = some (3 + 12) ∧
    syntaxErrorLineCol (paddedSource md 7 true "x = 1 egg\nx )\n".toList) (3 + 12) = (5, 3) ∧
    extractLine md 5 = some "x )".toList := by decide +kernel

end RG.C19
