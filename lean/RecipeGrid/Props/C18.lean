import RecipeGrid.Model.Markdown
/-! C18 — title and serving count are read from the heading as documented. -/
namespace RG.C18

/-- only a first, level-1 heading without markup or placeholder can give a title -/
theorem not_first_no_title (level : Nat) (text : Str) (phs : List Str) : headingInfo false level text phs = .none := by
  simp [headingInfo]
theorem lower_level_no_title (first : Bool) (level : Nat) (text : Str) (phs : List Str) (h : level ≠ 1) :
    headingInfo first level text phs = .none := by
  simp [headingInfo, h]
theorem markup_no_title (first : Bool) (level : Nat) (text : Str) (phs : List Str) (h : '<' ∈ text) :
    headingInfo first level text phs = .none := by
  simp [headingInfo, h]

/-- C18.1 (table side) every serving phrase the documentation lists is one the title pattern accepts.
    Both tables are regenerated from /repo on every run, so dropping a documented form from the pattern breaks this proof. -/
theorem documented_phrases_accepted : ∀ p ∈ Gen.documentedPhrases, p ∈ Gen.servingPhrases := by decide

/-- every accepted phrase is a non-empty sequence of non-empty lower-case ASCII words -/
theorem phrases_wellformed : ∀ p ∈ Gen.servingPhrases, p ≠ [] ∧ ∀ w ∈ p, w ≠ "" ∧ w.toList.all (fun c => 'a' ≤ c ∧ c ≤ 'z') = true := by
  decide

end RG.C18
