import RecipeGrid.Lemmas.Markdown
/-! C18 — title and serving count are read from the heading as documented.
    The vocabulary of the specification (`SpaceRun`, `CiWord`, `PhraseText`, `CaseVariantOf`, `ServingMatch`)
    is defined, with comments, in `Lemmas/Markdown.lean`. -/
namespace RG.C18

/-- only a first, level-1 heading without markup or placeholder can give a title -/
theorem not_first_no_title (level : Nat) (text : Str) (phs : List Str) : headingInfo false level text phs = .none := by
  simp [headingInfo]
theorem lower_level_no_title (first : Bool) (level : Nat) (text : Str) (phs : List Str) (h : level ≠ 1) :
    headingInfo first level text phs = .none := by
  simp [headingInfo, h]
theorem markup_no_title (first : Bool) (level : Nat) (text : Str) (phs : List Str) (h : '<' ∈ text) :
    headingInfo first level text phs = .none := by
  simp [headingInfo, h]

/-- C18.1 (table side) every serving phrase the documentation lists is one the title pattern accepts.
    Both tables are regenerated from /repo on every run, so dropping a documented form from the pattern breaks this proof. -/
theorem documented_phrases_accepted : ∀ p ∈ Gen.documentedPhrases, p ∈ Gen.servingPhrases := by decide

/-- every accepted phrase is a non-empty sequence of non-empty lower-case ASCII words -/
theorem phrases_wellformed : ∀ p ∈ Gen.servingPhrases, p ≠ [] ∧ ∀ w ∈ p, w ≠ "" ∧ w.toList.all (fun c => 'a' ≤ c ∧ c ≤ 'z') = true := by
  decide

/-! ## C18.2 the serving suffix -/

/-- the documented shape of a serving suffix: spaces, a phrase (the words of an accepted phrase, any letter case,
    separated by spaces), spaces, digits, optional spaces, end -/
def IsServingSuffix (s : Str) : Prop :=
  ∃ sp ph sp2 ds sp3, s = sp ++ ph ++ sp2 ++ ds ++ sp3 ∧
    sp ≠ [] ∧ (∀ c ∈ sp, isReSpace c = true) ∧
    (∃ p ∈ Gen.servingPhrases, PhraseText p ph) ∧
    sp2 ≠ [] ∧ (∀ c ∈ sp2, isReSpace c = true) ∧
    ds ≠ [] ∧ (∀ c ∈ ds, isDigit c = true) ∧ (∀ c ∈ sp3, isReSpace c = true)

/-- a match of the pattern at the very start of `s`, with its three groups: exactly the documented shape.
    (`ServingMatch` is the same decomposition as `IsServingSuffix` with the groups named.) -/
theorem matchServingsAt_iff (s sp prep ds : Str) :
    matchServingsAt s = some (sp, prep, ds) ↔
      ∃ p ∈ Gen.servingPhrases, ∃ ph sp2 tail, s = sp ++ prep ++ ds ++ tail ∧ prep = ph ++ sp2 ∧
        SpaceRun sp ∧ PhraseText p ph ∧ SpaceRun sp2 ∧ ds ≠ [] ∧ (∀ c ∈ ds, isDigit c = true) ∧
        (∀ c ∈ tail, isReSpace c = true) :=
  ⟨fun h => (matchServingsAt_sound h).ex, fun h => matchServingsAt_complete ⟨h⟩⟩

/-- the pattern matches at the start of `s` exactly when `s` is a serving suffix -/
theorem matchServingsAt_isSome_iff (s : Str) : (matchServingsAt s).isSome = true ↔ IsServingSuffix s := by
  constructor
  · intro h
    obtain ⟨⟨sp, prep, ds⟩, hm⟩ := Option.isSome_iff_exists.mp h
    obtain ⟨p, hp, ph, sp2, tail, hs, rfl, hsp, hph, hsp2, hne, hdig, htail⟩ := (matchServingsAt_sound hm).ex
    exact ⟨sp, ph, sp2, ds, tail, by simp [hs], hsp.1, hsp.2, ⟨p, hp, hph⟩, hsp2.1, hsp2.2, hne, hdig, htail⟩
  · rintro ⟨sp, ph, sp2, ds, tail, hs, h1, h2, ⟨p, hp, hph⟩, h3, h4, hne, hdig, htail⟩
    have := matchServingsAt_complete (s := s) (sp := sp) (prep := ph ++ sp2) (ds := ds)
      ⟨p, hp, ph, sp2, tail, by simp [hs], rfl, ⟨h1, h2⟩, hph, ⟨h3, h4⟩, hne, hdig, htail⟩
    simp [this]

/-- soundness: whatever `searchServings` returns is a decomposition of the text whose remainder is a serving suffix -/
theorem searchServings_sound (text before space prep ds : Str)
    (h : searchServings text = some (before, space, prep, ds)) :
    ∃ tail, text = before ++ space ++ prep ++ ds ++ tail ∧ (∀ c ∈ tail, isReSpace c = true) ∧
      space ≠ [] ∧ (∀ c ∈ space, isReSpace c = true) ∧ ds ≠ [] ∧ (∀ c ∈ ds, isDigit c = true) ∧
      ∃ p ∈ Gen.servingPhrases, ∃ ph sp2, prep = ph ++ sp2 ∧ PhraseText p ph ∧ SpaceRun sp2 := by
  obtain ⟨n, _, hb, hm, _⟩ := searchServingsAux_eq_some h
  obtain ⟨p, hp, ph, sp2, tail, hs, hprep, hsp, hph, hsp2, hne, hdig, htail⟩ := (matchServingsAt_sound hm).ex
  refine ⟨tail, ?_, htail, hsp.1, hsp.2, hne, hdig, p, hp, ph, sp2, hprep, hph, hsp2⟩
  have : text = text.take n ++ text.drop n := (List.take_append_drop n text).symm
  rw [this, hs, hb]
  simp

/-- the remainder after `before` is a serving suffix -/
theorem searchServings_sound_suffix (text before space prep ds : Str)
    (h : searchServings text = some (before, space, prep, ds)) :
    ∃ suffix, text = before ++ suffix ∧ IsServingSuffix suffix := by
  obtain ⟨tail, ht, htail, h1, h2, h3, h4, p, hp, ph, sp2, rfl, hph, hsp2⟩ := searchServings_sound _ _ _ _ _ h
  exact ⟨space ++ ph ++ sp2 ++ ds ++ tail, by simp [ht],
    space, ph, sp2, ds, tail, rfl, h1, h2, ⟨p, hp, hph⟩, hsp2.1, hsp2.2, h3, h4, htail⟩

/-- … and it is the LEFTMOST one: the match starts at offset `before.length`, and at no earlier offset does the
    pattern match (no earlier remainder of the text is a serving suffix) -/
theorem searchServings_leftmost (text before space prep ds : Str)
    (h : searchServings text = some (before, space, prep, ds)) :
    before = text.take before.length ∧
    matchServingsAt (text.drop before.length) = some (space, prep, ds) ∧
    ∀ k, k < before.length → matchServingsAt (text.drop k) = none ∧ ¬ IsServingSuffix (text.drop k) := by
  obtain ⟨n, hn, hb, hm, hlt⟩ := searchServingsAux_eq_some h
  simp only [List.reverse_nil, List.nil_append] at hb
  have hlen : before.length = n := by rw [hb, List.length_take]; omega
  rw [hlen]
  refine ⟨hb, hm, fun k hk => ⟨hlt k hk, ?_⟩⟩
  rw [← matchServingsAt_isSome_iff, hlt k hk]
  simp

theorem searchServings_none_iff (text : Str) :
    searchServings text = none ↔ ∀ k, matchServingsAt (text.drop k) = none :=
  searchServingsAux_eq_none

/-- no serving count is found exactly when no remainder of the text is a serving suffix -/
theorem searchServings_none_iff_no_suffix (text : Str) :
    searchServings text = none ↔ ∀ k, ¬ IsServingSuffix (text.drop k) := by
  rw [searchServings_none_iff]
  constructor
  · intro h k
    rw [← matchServingsAt_isSome_iff, h k]; simp
  · intro h k
    have := h k
    rw [← matchServingsAt_isSome_iff] at this
    simpa using this

/-- completeness: a text that ends in a serving suffix, with no serving suffix starting earlier, is split there -/
theorem searchServings_complete (before sp ph sp2 ds tail : Str) (p : List String) (hp : p ∈ Gen.servingPhrases)
    (hsp : SpaceRun sp) (hph : PhraseText p ph) (hsp2 : SpaceRun sp2) (hne : ds ≠ [])
    (hdig : ∀ c ∈ ds, isDigit c = true) (htail : ∀ c ∈ tail, isReSpace c = true)
    (hfirst : ∀ k, k < before.length → matchServingsAt ((before ++ sp ++ ph ++ sp2 ++ ds ++ tail).drop k) = none) :
    searchServings (before ++ sp ++ ph ++ sp2 ++ ds ++ tail) = some (before, sp, ph ++ sp2, ds) := by
  have hm : matchServingsAt ((before ++ sp ++ ph ++ sp2 ++ ds ++ tail).drop before.length) = some (sp, ph ++ sp2, ds) := by
    have : (before ++ sp ++ ph ++ sp2 ++ ds ++ tail).drop before.length = sp ++ (ph ++ sp2) ++ ds ++ tail := by
      simp [List.append_assoc]
    rw [this]
    exact matchServingsAt_complete ⟨p, hp, ph, sp2, tail, rfl, rfl, hsp, hph, hsp2, hne, hdig, htail⟩
  have := searchServingsAux_of_first (acc := []) hm hfirst
  simpa [searchServings, List.append_assoc] using this

/-- C18.1 completeness for the documented forms: a title `T` (with no earlier match inside it) followed by spaces,
    a documented phrase in ANY letter case, spaces and a number `n` is split into `T` and `n` -/
theorem documented_forms_recognised (T sp1 sp2 : Str) (ph : List String) (phText : Str) (n : Nat)
    (hph : ph ∈ Gen.documentedPhrases) (hcase : CaseVariantOf ph phText)
    (hsp1 : SpaceRun sp1) (hsp2 : SpaceRun sp2)
    (hT : ∀ k, k < T.length → matchServingsAt ((T ++ sp1 ++ phText ++ sp2 ++ natDigits n).drop k) = none) :
    searchServings (T ++ sp1 ++ phText ++ sp2 ++ natDigits n) = some (T, sp1, phText ++ sp2, natDigits n) := by
  have hp := documented_phrases_accepted ph hph
  have := searchServings_complete T sp1 phText sp2 (natDigits n) [] ph hp hsp1
    (CaseVariantOf.phraseText (servingPhrases_wf ph hp).2 hcase) hsp2 (natDigits_ne_nil n) (natDigits_isDigit' n)
    (by simp) (by simpa using hT)
  simpa using this

/-- the side condition of `documented_forms_recognised` holds when the title contains no space at all -/
theorem documented_forms_recognised_word (T sp1 sp2 : Str) (ph : List String) (phText : Str) (n : Nat)
    (hph : ph ∈ Gen.documentedPhrases) (hcase : CaseVariantOf ph phText)
    (hsp1 : SpaceRun sp1) (hsp2 : SpaceRun sp2) (hT : ∀ c ∈ T, isReSpace c = false) :
    searchServings (T ++ sp1 ++ phText ++ sp2 ++ natDigits n) = some (T, sp1, phText ++ sp2, natDigits n) := by
  apply documented_forms_recognised T sp1 sp2 ph phText n hph hcase hsp1 hsp2
  intro k hk
  have hd : (T ++ sp1 ++ phText ++ sp2 ++ natDigits n).drop k = T[k] :: (T.drop (k + 1) ++ sp1 ++ phText ++ sp2 ++ natDigits n) := by
    simp only [List.append_assoc]
    rw [List.drop_append_of_le_length (by omega), List.drop_eq_getElem_cons hk]
    rfl
  rw [hd]
  simp [matchServingsAt, spaces1, hT T[k] (by simp)]

/-- the serving count read back is `n` -/
theorem natOfDigitChars_natDigits (n : Nat) : natOfDigitChars (natDigits n) = n :=
  digitsVal_natDigits n

/-- end to end: such a first level-1 heading (no markup, containing none of the placeholders issued so far) is a
    scalable title with serving count `n`; the title is everything before the phrase -/
theorem heading_documented_form (T sp1 sp2 : Str) (ph : List String) (phText : Str) (n : Nat) (phs : List Str)
    (hph : ph ∈ Gen.documentedPhrases) (hcase : CaseVariantOf ph phText)
    (hsp1 : SpaceRun sp1) (hsp2 : SpaceRun sp2)
    (hT : ∀ k, k < T.length → matchServingsAt ((T ++ sp1 ++ phText ++ sp2 ++ natDigits n).drop k) = none)
    (hlt : '<' ∉ T ++ sp1 ++ phText ++ sp2 ++ natDigits n)
    (hphs : ∀ q ∈ phs, isInfixOfStr q (T ++ sp1 ++ phText ++ sp2 ++ natDigits n) = false) :
    headingInfo true 1 (T ++ sp1 ++ phText ++ sp2 ++ natDigits n) phs =
      .scalable (unescapeEntities (stripStr (T ++ sp1))) n (T ++ sp1) (phText ++ sp2) := by
  have h := documented_forms_recognised T sp1 sp2 ph phText n hph hcase hsp1 hsp2 hT
  have hc : (T ++ sp1 ++ phText ++ sp2 ++ natDigits n).contains '<' = false := by
    simpa using hlt
  have hany : phs.any (isInfixOfStr · (T ++ sp1 ++ phText ++ sp2 ++ natDigits n)) = false := by
    simpa using hphs
  simp only [headingInfo, hc, hany, h, natOfDigitChars_natDigits]
  simp

-- non-vacuity
example : searchServings "Stew  to serve 4".toList = some ("Stew".toList, "  ".toList, "to serve ".toList, "4".toList) := by
  decide +kernel
example : searchServings "Food to TO  sErVeS 12 ".toList = some ("Food to".toList, " ".toList, "TO  sErVeS ".toList, "12".toList) := by
  decide +kernel
example : searchServings "Stew to serve four".toList = none := by decide +kernel
example : headingInfo true 1 "Bread FOR 12".toList [] = .scalable "Bread".toList 12 "Bread ".toList "FOR ".toList := by
  rfl
-- the side condition on `T` is needed: a trailing "to" belongs to the leftmost match, not to the title
example : searchServings "Food to serves 4".toList = some ("Food".toList, " ".toList, "to serves ".toList, "4".toList) := by
  decide +kernel
example : CaseVariantOf ["to", "serve"] "To  SERVE".toList :=
  ⟨"To".toList, "  ".toList, "SERVE".toList, rfl, by decide, by decide, by show CaseVariantWord _ _; decide⟩
example : IsServingSuffix " for 2".toList :=
  ⟨" ".toList, "for".toList, " ".toList, "2".toList, [], by decide, by decide, by decide,
    ⟨["for"], by decide, by show CiWord _ _; decide⟩, by decide, by decide, by decide, by decide, by decide⟩

end RG.C18
