import RecipeGrid.Lemmas.Recipe
/-! C03: scaling multiplies exactly the scalable numbers and nothing else.
    Only specification definitions and property theorems; helper lemmas are in `Lemmas/Recipe.lean`. -/
namespace RG.C03

-- ================================================================ C03.1 the scalable numbers
/-- the numbers of a scaled value string, in reading order -/
def svsNums (s : SVS) : List Num := s.filterMap fun p => match p with | .num n => some n | _ => none

mutual
/-- the scalable numbers of a tree, in reading order, including those inside embedded copies -/
def nums : Tree → List Num
  | .ingredient d q => svsNums d ++ (match q with | some q => [q.value] | none => [])
  | .step d i => svsNums d ++ numsList i
  | .reference s _ a => nums s ++ (match a with | .quantity q => [q.value] | _ => [])
  | .sub b ns _ => nums b ++ ns.flatMap svsNums
def numsList : List Tree → List Num
  | [] => []
  | t :: ts => nums t ++ numsList ts
end

theorem svsNums_scale (k : Num) (s : SVS) : svsNums (Svs.scale k s) = (svsNums s).map (·.mul k) := by
  unfold svsNums
  rw [Svs.scale_eq, Svs.filterMap_normalise _ (fun _ => rfl), List.filterMap_map, List.map_filterMap]
  congr 1
  funext p
  cases p <;> rfl

mutual
/-- C03.1 every scalable number is multiplied by k (Python's `*`), nothing is added or dropped, order kept -/
theorem scale_numbers (k : Num) : ∀ t : Tree, nums (Tree.scale k t) = (nums t).map (·.mul k)
  | .ingredient d q => by
    cases q <;> simp [Tree.scale, nums, svsNums_scale, Quantity.scale]
  | .step d i => by
    simp [Tree.scale, nums, svsNums_scale, scale_numbers_list k i]
  | .reference s n a => by
    cases a <;> simp [Tree.scale, nums, scale_numbers k s, Amount.scale, Quantity.scale]
  | .sub b ns sh => by
    simp [Tree.scale, nums, scale_numbers k b, List.flatMap_map, List.map_flatMap, svsNums_scale]
theorem scale_numbers_list (k : Num) : ∀ ts : List Tree,
    numsList (Tree.scaleList k ts) = (numsList ts).map (·.mul k)
  | [] => by simp [Tree.scaleList, numsList]
  | t :: ts => by simp [Tree.scaleList, numsList, scale_numbers k t, scale_numbers_list k ts]
end

-- ================================================================ C03.2 frame
/-- replace every number of a scaled value string by the integer 0 -/
def eraseSvs (s : SVS) : SVS := s.map fun p => match p with | .num _ => .num ⟨0, .int⟩ | .text t => .text t
def eraseQuantity (q : Quantity) : Quantity := { q with value := ⟨0, .int⟩ }
def eraseAmount : Amount → Amount
  | .quantity q => .quantity (eraseQuantity q)
  | a => a

mutual
/-- replace every scalable number (exactly the places `nums` reads) by the integer 0 -/
def erase : Tree → Tree
  | .ingredient d q => .ingredient (eraseSvs d) (q.map eraseQuantity)
  | .step d i => .step (eraseSvs d) (eraseList i)
  | .reference s n a => .reference (erase s) n (eraseAmount a)
  | .sub b ns sh => .sub (erase b) (ns.map eraseSvs) sh
def eraseList : List Tree → List Tree
  | [] => []
  | t :: ts => erase t :: eraseList ts
end

/-- what the Python constructor guarantees: no empty text part, no two adjacent text parts -/
def SvsNormal (s : SVS) : Prop :=
  (∀ p ∈ s, p ≠ .text []) ∧ ∀ l a b r, s ≠ l ++ .text a :: .text b :: r

mutual
/-- all descriptions, step names and output names are normal, including inside embedded copies -/
def TreeNormal : Tree → Prop
  | .ingredient d _ => SvsNormal d
  | .step d i => SvsNormal d ∧ TreeNormalList i
  | .reference s _ _ => TreeNormal s
  | .sub b ns _ => TreeNormal b ∧ ∀ n ∈ ns, SvsNormal n
def TreeNormalList : List Tree → Prop
  | [] => True
  | t :: ts => TreeNormal t ∧ TreeNormalList ts
end

/-- every constructed SVS is normal -/
theorem normalise_normal (ps : List Part) : SvsNormal (Svs.normalise ps) :=
  (Svs.normal_iff _).1 (Svs.normalise_normal' ps)

theorem svs_scale_normal (k : Num) (s : SVS) : SvsNormal (Svs.scale k s) := normalise_normal _

/-- on a normal string, scaling is the part-wise map: nothing is merged or dropped -/
theorem svs_scale_frame (k : Num) (s : SVS) (h : SvsNormal s) : eraseSvs (Svs.scale k s) = eraseSvs s := by
  rw [Svs.scale_of_normal k s ((Svs.normal_iff s).2 h)]
  unfold eraseSvs
  rw [List.map_map]
  apply List.map_congr_left
  intro p _
  cases p <;> rfl

mutual
/-- C03.2 frame: structure, text, units, spacing, prepositions, proportions, output indices are untouched -/
theorem scale_frame (k : Num) : ∀ t : Tree, TreeNormal t → erase (Tree.scale k t) = erase t
  | .ingredient d q, h => by
    simp only [TreeNormal] at h
    cases q <;> simp [Tree.scale, erase, svs_scale_frame k d h, Quantity.scale, eraseQuantity]
  | .step d i, h => by
    simp only [TreeNormal] at h
    simp [Tree.scale, erase, svs_scale_frame k d h.1, scale_frame_list k i h.2]
  | .reference s n a, h => by
    simp only [TreeNormal] at h
    cases a <;> simp [Tree.scale, erase, scale_frame k s h, Amount.scale, eraseAmount, Quantity.scale, eraseQuantity]
  | .sub b ns sh, h => by
    simp only [TreeNormal] at h
    simp only [Tree.scale, erase, scale_frame k b h.1, List.map_map]
    congr 1
    apply List.map_congr_left
    intro n hn
    exact svs_scale_frame k n (h.2 n hn)
theorem scale_frame_list (k : Num) : ∀ ts : List Tree, TreeNormalList ts →
    eraseList (Tree.scaleList k ts) = eraseList ts
  | [], _ => by simp [Tree.scaleList, eraseList]
  | t :: ts, h => by
    simp only [TreeNormalList] at h
    simp [Tree.scaleList, eraseList, scale_frame k t h.1, scale_frame_list k ts h.2]
end

mutual
/-- scaling re-normalises every string, so the result is normal (for any input, in fact) -/
theorem scale_normal (k : Num) : ∀ t : Tree, TreeNormal t → TreeNormal (Tree.scale k t)
  | .ingredient d q, _ => by simp only [Tree.scale, TreeNormal]; exact svs_scale_normal k d
  | .step d i, h => by
    simp only [TreeNormal] at h
    simp only [Tree.scale, TreeNormal]
    exact ⟨svs_scale_normal k d, scale_normal_list k i h.2⟩
  | .reference s n a, h => by
    simp only [TreeNormal] at h
    simp only [Tree.scale, TreeNormal]
    exact scale_normal k s h
  | .sub b ns sh, h => by
    simp only [TreeNormal] at h
    simp only [Tree.scale, TreeNormal]
    refine ⟨scale_normal k b h.1, ?_⟩
    intro n hn
    obtain ⟨m, _, rfl⟩ := List.mem_map.1 hn
    exact svs_scale_normal k m
theorem scale_normal_list (k : Num) : ∀ ts : List Tree, TreeNormalList ts → TreeNormalList (Tree.scaleList k ts)
  | [], _ => by simp [Tree.scaleList, TreeNormalList]
  | t :: ts, h => by
    simp only [TreeNormalList] at h
    simp only [Tree.scaleList, TreeNormalList]
    exact ⟨scale_normal k t h.1, scale_normal_list k ts h.2⟩
end

-- ================================================================ C03.3 algebra
/-- the rational is exactly representable as a binary64 -/
def IsDouble (q : Rat) : Prop := toDouble q = q
/-- every float in the tree is a double -/
def NumsOK (t : Tree) : Prop := ∀ n ∈ nums t, n.kind = .flt → IsDouble n.val
/-- no float in the tree -/
def Exact (t : Tree) : Prop := ∀ n ∈ nums t, n.kind ≠ .flt

/-- the general form of both algebra laws: on a normal tree, two scalings agree as soon as they agree
    on every scalable number -/
theorem svs_scale_congr (f : Num → Num) (k : Num) (s : SVS) (h : SvsNormal s)
    (hf : ∀ n ∈ svsNums s, n.mul k = f n) :
    Svs.scale k s = s.map (fun p => match p with | .text t => .text t | .num n => .num (f n)) := by
  rw [Svs.scale_of_normal k s ((Svs.normal_iff s).2 h)]
  apply List.map_congr_left
  intro p hp
  cases p with
  | text t => rfl
  | num n =>
    have : n ∈ svsNums s := by
      unfold svsNums
      exact List.mem_filterMap.2 ⟨_, hp, rfl⟩
    simp [Svs.scalePart, hf n this]

theorem svs_scale_one (s : SVS) (h : SvsNormal s) (hd : ∀ n ∈ svsNums s, n.kind = .flt → IsDouble n.val) :
    Svs.scale ⟨1, .int⟩ s = s := by
  rw [svs_scale_congr id _ s h (fun n hn => Num.mul_one n (hd n hn))]
  conv => rhs; rw [← List.map_id s]
  apply List.map_congr_left
  intro p _
  cases p <;> rfl

mutual
/-- C03.3 scaling by the integer 1 is the identity -/
theorem scale_one : ∀ t : Tree, TreeNormal t → NumsOK t → Tree.scale ⟨1, .int⟩ t = t
  | .ingredient d q, hn, hd => by
    simp only [TreeNormal] at hn
    simp only [NumsOK, nums, List.mem_append] at hd
    have h1 := svs_scale_one d hn (fun n h => hd n (Or.inl h))
    cases q with
    | none => simp [Tree.scale, h1]
    | some q =>
      have := Num.mul_one q.value (hd q.value (Or.inr (by simp)))
      simp [Tree.scale, h1, Quantity.scale, this]
  | .step d i, hn, hd => by
    simp only [TreeNormal] at hn
    simp only [NumsOK, nums, List.mem_append] at hd
    have h1 := svs_scale_one d hn.1 (fun n h => hd n (Or.inl h))
    have h2 := scale_one_list i hn.2 (fun n h => hd n (Or.inr h))
    simp [Tree.scale, h1, h2]
  | .reference s n a, hn, hd => by
    simp only [TreeNormal] at hn
    simp only [NumsOK, nums, List.mem_append] at hd
    have h1 := scale_one s hn (fun n h => hd n (Or.inl h))
    cases a with
    | proportion v p w pr => simp [Tree.scale, h1, Amount.scale]
    | quantity q =>
      have := Num.mul_one q.value (hd q.value (Or.inr (by simp)))
      simp [Tree.scale, h1, Amount.scale, Quantity.scale, this]
  | .sub b ns sh, hn, hd => by
    simp only [TreeNormal] at hn
    simp only [NumsOK, nums, List.mem_append, List.mem_flatMap] at hd
    have h1 := scale_one b hn.1 (fun n h => hd n (Or.inl h))
    have h2 : ns.map (Svs.scale ⟨1, .int⟩) = ns := by
      conv => rhs; rw [← List.map_id ns]
      apply List.map_congr_left
      intro m hm
      exact svs_scale_one m (hn.2 m hm) (fun n h => hd n (Or.inr ⟨m, hm, h⟩))
    simp [Tree.scale, h1, h2]
theorem scale_one_list : ∀ ts : List Tree, TreeNormalList ts →
    (∀ n ∈ numsList ts, n.kind = .flt → IsDouble n.val) → Tree.scaleList ⟨1, .int⟩ ts = ts
  | [], _, _ => rfl
  | t :: ts, hn, hd => by
    simp only [TreeNormalList] at hn
    simp only [numsList, List.mem_append] at hd
    simp [Tree.scaleList, scale_one t hn.1 (fun n h => hd n (Or.inl h)),
      scale_one_list ts hn.2 (fun n h => hd n (Or.inr h))]
end

theorem svs_scale_mul (a b : Num) (s : SVS) (ha : a.kind ≠ .flt) (hb : b.kind ≠ .flt) (h : SvsNormal s)
    (he : ∀ n ∈ svsNums s, n.kind ≠ .flt) :
    Svs.scale b (Svs.scale a s) = Svs.scale (a.mul b) s := by
  have hs := (Svs.normal_iff s).2 h
  rw [Svs.scale_of_normal a s hs,
    Svs.scale_of_normal b _ (Svs.normal_map _ (Svs.scalePart_shape a) s hs),
    Svs.scale_of_normal (a.mul b) s hs, List.map_map]
  apply List.map_congr_left
  intro p hp
  cases p with
  | text t => rfl
  | num n =>
    have : n ∈ svsNums s := by
      unfold svsNums
      exact List.mem_filterMap.2 ⟨_, hp, rfl⟩
    simp [Svs.scalePart, Num.mul_mul_exact n a b (he n this) ha hb]

mutual
theorem scale_mul_tree (a b : Num) (ha : a.kind ≠ .flt) (hb : b.kind ≠ .flt) : ∀ t : Tree, TreeNormal t → Exact t →
    Tree.scale b (Tree.scale a t) = Tree.scale (a.mul b) t
  | .ingredient d q, hn, he => by
    simp only [TreeNormal] at hn
    simp only [Exact, nums, List.mem_append] at he
    have h1 := svs_scale_mul a b d ha hb hn (fun n h => he n (Or.inl h))
    cases q with
    | none => simp [Tree.scale, h1]
    | some q =>
      have := Num.mul_mul_exact q.value a b (he q.value (Or.inr (by simp))) ha hb
      simp [Tree.scale, h1, Quantity.scale, this]
  | .step d i, hn, he => by
    simp only [TreeNormal] at hn
    simp only [Exact, nums, List.mem_append] at he
    have h1 := svs_scale_mul a b d ha hb hn.1 (fun n h => he n (Or.inl h))
    have h2 := scale_mul_list a b ha hb i hn.2 (fun n h => he n (Or.inr h))
    simp [Tree.scale, h1, h2]
  | .reference s n am, hn, he => by
    simp only [TreeNormal] at hn
    simp only [Exact, nums, List.mem_append] at he
    have h1 := scale_mul_tree a b ha hb s hn (fun n h => he n (Or.inl h))
    cases am with
    | proportion v p w pr => simp [Tree.scale, h1, Amount.scale]
    | quantity q =>
      have := Num.mul_mul_exact q.value a b (he q.value (Or.inr (by simp))) ha hb
      simp [Tree.scale, h1, Amount.scale, Quantity.scale, this]
  | .sub body ns sh, hn, he => by
    simp only [TreeNormal] at hn
    simp only [Exact, nums, List.mem_append, List.mem_flatMap] at he
    have h1 := scale_mul_tree a b ha hb body hn.1 (fun n h => he n (Or.inl h))
    have h2 : (ns.map (Svs.scale a)).map (Svs.scale b) = ns.map (Svs.scale (a.mul b)) := by
      rw [List.map_map]
      apply List.map_congr_left
      intro m hm
      exact svs_scale_mul a b m ha hb (hn.2 m hm) (fun n h => he n (Or.inr ⟨m, hm, h⟩))
    simp only [Tree.scale, h1, h2]
theorem scale_mul_list (a b : Num) (ha : a.kind ≠ .flt) (hb : b.kind ≠ .flt) : ∀ ts : List Tree,
    TreeNormalList ts → (∀ n ∈ numsList ts, n.kind ≠ .flt) →
    Tree.scaleList b (Tree.scaleList a ts) = Tree.scaleList (a.mul b) ts
  | [], _, _ => rfl
  | t :: ts, hn, he => by
    simp only [TreeNormalList] at hn
    simp only [numsList, List.mem_append] at he
    simp [Tree.scaleList, scale_mul_tree a b ha hb t hn.1 (fun n h => he n (Or.inl h)),
      scale_mul_list a b ha hb ts hn.2 (fun n h => he n (Or.inr h))]
end

/-- C03.3 composition for exact factors and exact numbers: scale a then b = scale (a*b) -/
theorem scale_mul (a b : Num) (t : Tree) (ha : a.kind ≠ .flt) (hb : b.kind ≠ .flt) (hn : TreeNormal t)
    (he : Exact t) : Tree.scale b (Tree.scale a t) = Tree.scale (a.mul b) t :=
  scale_mul_tree a b ha hb t hn he

/-- the float tag of every number is the same on both sides for any factors -/
theorem scale_mul_kinds (a b : Num) (t : Tree) :
    (nums (Tree.scale b (Tree.scale a t))).map (·.kind) = (nums (Tree.scale (a.mul b) t)).map (·.kind) := by
  rw [scale_numbers, scale_numbers, scale_numbers, List.map_map, List.map_map, List.map_map]
  apply List.map_congr_left
  intro n _
  exact Num.mul_mul_kind n a b

-- ================================================================ C03.4 / C08.2 validity
/-- one recipe block: every reference target met while walking a tree (including inside embedded copies)
    *is* (structural `=`) a sub-recipe root of an earlier block or earlier in this block -/
def ValidBlockS (prev : List Tree) : Block → Prop
  | [] => True
  | t :: ts => (∀ s ∈ Tree.refTargets t, s ∈ prev) ∧ ValidBlockS (if t.isSub then t :: prev else prev) ts

/-- structural validity, following the recursion of `checkBlocks` -/
def ValidS (prev : List Tree) : List Block → Prop
  | [] => True
  | b :: bs => ValidBlockS prev b ∧ ValidS (prev ++ b.filter Tree.isSub) bs

theorem scale_validBlock (k : Num) : ∀ (b : Block) (prev : List Tree), ValidBlockS prev b →
    ValidBlockS (prev.map (Tree.scale k)) (Tree.scaleList k b)
  | [], _, _ => by simp [Tree.scaleList, ValidBlockS]
  | t :: ts, prev, h => by
    obtain ⟨h1, h2⟩ := h
    simp only [Tree.scaleList, ValidBlockS]
    refine ⟨?_, ?_⟩
    · intro s hs
      rw [Tree.refTargets_scale] at hs
      obtain ⟨s', hs', rfl⟩ := List.mem_map.1 hs
      exact List.mem_map.2 ⟨s', h1 s' hs', rfl⟩
    · have := scale_validBlock k ts _ h2
      rw [Tree.isSub_scale]
      cases hsub : t.isSub <;> simpa [hsub] using this

theorem scale_valid_from (k : Num) : ∀ (bs : List Block) (prev : List Tree), ValidS prev bs →
    ValidS (prev.map (Tree.scale k)) (scaleBlocks k bs)
  | [], _, _ => by simp [scaleBlocks, ValidS]
  | b :: bs, prev, h => by
    obtain ⟨h1, h2⟩ := h
    have ih := scale_valid_from k bs _ h2
    simp only [scaleBlocks, List.map_cons, ValidS]
    refine ⟨scale_validBlock k b prev h1, ?_⟩
    rw [Tree.filter_isSub_scaleList, ← List.map_append]
    exact ih

/-- C03.4/C08.2 a structurally valid recipe stays valid under any scale, each reference embedding the
    scaled definition -/
theorem scale_valid (k : Num) (bs : List Block) (h : ValidS [] bs) : ValidS [] (scaleBlocks k bs) :=
  scale_valid_from k bs [] h

theorem validBlockS_check : ∀ (b : Block) (prev : List Tree), ValidBlockS prev b → checkBlock prev b = true
  | [], _, _ => rfl
  | t :: ts, prev, h => by
    obtain ⟨h1, h2⟩ := h
    simp only [checkBlock, Bool.and_eq_true, List.all_eq_true, List.any_eq_true]
    exact ⟨fun s hs => ⟨s, h1 s hs, Tree.beq_refl s⟩, validBlockS_check ts _ h2⟩

theorem validS_check_from : ∀ (bs : List Block) (prev : List Tree), ValidS prev bs → checkBlocks prev bs = true
  | [], _, _ => rfl
  | b :: bs, prev, h => by
    simp only [checkBlocks, Bool.and_eq_true]
    exact ⟨validBlockS_check b prev h.1, validS_check_from bs _ h.2⟩

/-- structural validity implies the Python constructor's (`==`-based) check passes -/
theorem validS_check (bs : List Block) (h : ValidS [] bs) : checkBlocks [] bs = true :=
  validS_check_from bs [] h

/-- so a structurally valid recipe can be re-constructed after scaling: `Recipe.scale` never raises -/
theorem scale_mkRecipes_ok (k : Num) (bs : List Block) (h : ValidS [] bs) :
    mkRecipes (scaleBlocks k bs) = .ok (scaleBlocks k bs) := by
  simp [mkRecipes, validS_check _ (scale_valid k bs h)]

-- ---------------------------------------------------------------- witness: `==`-validity is not preserved
/-- a sub recipe holding one ingredient whose quantity is `v` -/
def witnessSub (v : Num) : Tree :=
  .sub (.ingredient [.text ['x']] (some ⟨v, none, [], []⟩)) [[.text ['y']]] false
/-- block 0 defines the sub recipe with the int `1`; block 1 references a copy holding the float `1.0` -/
def witness : List Block :=
  [[witnessSub ⟨1, .int⟩], [.reference (witnessSub ⟨1, .flt⟩) 0 Amount.whole]]

/-- validity under Python's `==` (where `1 == 1.0`) is NOT preserved by scaling: after scaling by the
    fraction 1/3 the root holds `Fraction(1, 3)` and the copy holds the double nearest to 1/3 -/
theorem scale_breaks_beq_validity :
    checkBlocks [] witness = true ∧ checkBlocks [] (scaleBlocks ⟨1 / 3, .frac⟩ witness) = false := by
  decide +kernel

-- ================================================================ non-vacuity examples
/-- step "make {2} balls" of an ingredient "3/2 kg flour" and a reference (quantity 200 g) to a sub recipe -/
def exSub : Tree := .sub (.ingredient [.text "sauce".toList] none) [[.text "sauce".toList]] false
def exTree : Tree :=
  .step [.text "make ".toList, .num ⟨2, .int⟩, .text " balls".toList]
    [.ingredient [.text "flour".toList] (some ⟨⟨3 / 2, .frac⟩, some "kg".toList, " ".toList, []⟩),
     .reference exSub 0 (.quantity ⟨⟨200, .int⟩, some "g".toList, [], []⟩)]

theorem exTree_nums : (nums exTree).map (fun n => (n.val, n.kind)) = [(2, .int), (3 / 2, .frac), (200, .int)] := by
  decide +kernel
example : (nums (Tree.scale ⟨2, .int⟩ exTree)).map (fun n => (n.val, n.kind)) = [(4, .int), (3, .frac), (400, .int)] := by
  decide +kernel
theorem exTree_normal : TreeNormal exTree := by
  have h : ∀ t : Str, t ≠ [] → SvsNormal [.text t] := fun t ht =>
    (Svs.normal_iff _).1 ⟨ht, rfl, trivial⟩
  simp only [exTree, exSub, TreeNormal, TreeNormalList, and_true, List.mem_singleton, forall_eq]
  exact ⟨(Svs.normal_iff _).1 ⟨by decide, rfl, by decide, rfl, trivial⟩,
    h _ (by decide), h _ (by decide), h _ (by decide)⟩
theorem exTree_exact : Exact exTree := by
  intro n hn
  have h := exTree_nums
  have : (n.val, n.kind) ∈ (nums exTree).map (fun n => (n.val, n.kind)) := List.mem_map.2 ⟨n, hn, rfl⟩
  rw [h] at this
  simp at this
  rcases this with ⟨_, h⟩ | ⟨_, h⟩ | ⟨_, h⟩ <;> simp [h]
theorem exTree_valid : ValidS [] [[exSub], [exTree]] := by
  simp [ValidS, ValidBlockS, exSub, exTree, Tree.refTargets, Tree.refTargetsList, Tree.isSub]
-- the hypotheses of the main theorems are satisfiable: instantiate them on the example
example := scale_numbers ⟨2, .int⟩ exTree
example := scale_frame ⟨1 / 3, .flt⟩ exTree exTree_normal
example := scale_normal ⟨1 / 3, .flt⟩ exTree exTree_normal
example := scale_one exTree exTree_normal (fun n hn h => absurd h (exTree_exact n hn))
example := scale_mul ⟨2, .int⟩ ⟨1 / 3, .frac⟩ exTree (by simp) (by simp) exTree_normal exTree_exact
example := scale_valid ⟨1 / 3, .flt⟩ _ exTree_valid
example := validS_check _ exTree_valid
/-- the frame hypothesis is needed: an un-normalised string is merged by scaling -/
example : erase (Tree.scale ⟨1, .int⟩ (.ingredient [.text ['a'], .text ['b']] none))
    ≠ erase (.ingredient [.text ['a'], .text ['b']] none) := by
  simp [Tree.scale, Svs.scale, Svs.normalise, Svs.merge, erase, eraseSvs]
/-- `scale_one` needs `NumsOK`: a "float" that is not a double is rounded -/
example : Tree.scale ⟨1, .int⟩ (.ingredient [.num ⟨1 / 3, .flt⟩] none) ≠ .ingredient [.num ⟨1 / 3, .flt⟩] none := by
  simp [Tree.scale, Svs.scale, Svs.normalise, Svs.merge, Num.mul, Num.isFlt, Num.toFlt, toDouble_one,
    Rat.mul_one, toDouble_third_ne]

end RG.C03
