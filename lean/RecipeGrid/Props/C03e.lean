import RecipeGrid.Lemmas.PageValues
import RecipeGrid.Props.C03d
/-! C03 (page level): "Scaling a recipe by k multiplies every ingredient quantity, every reference quantity and every number
    interpolated in names, step descriptions and Markdown prose by exactly k, and leaves everything else unchanged" — for the
    whole page `MarkdownRecipe.render(k)` writes.

    1. `renderDoc_template`: the page is the document's template (literal HTML and holes, one hole per placeholder) with hole i
       filled by the rendering of the i-th prose value scaled by k / by the block of tables of the i-th recipe block scaled by k /
       by the title marks — for every k, whenever the chain of `str.replace` meets each placeholder only at its own holes
       (`ChainOK`, decidable, checked on every document and factor of the correspondence).
       `renderDoc_canonical`: every document has such a template (its HTML cut at its placeholders).
    2. `page_numbers_scaled`: the scaled values the page shows (`shownNums`: per hole in document order, the numbers of the prose
       value / the numbers in the cells of the tables, row by row, each with the unit written behind it) are the written ones
       (`writtenNums`) with every number `.mul k`, the units untouched — unconditionally.
       `page_frame_invariant`: the literal text and the erased frame of every value and tree do not depend on k.
    Only specification definitions and property theorems here; helper lemmas are in `Lemmas/PageValues.lean`. -/
namespace RG.C03
open RG RG.C13

-- ================================================================ C03e.1 the page is the filled template
/-- **C03e.1** `render(k)` = the template with every hole filled by its value at factor `k`.  `t` is any token list whose
    flattening (hole i written as the i-th placeholder of the document) is the document's HTML; `ChainOK` says that each of the
    replacements `render` performs one after the other finds its placeholder, in the text as it is then, exactly at its own holes
    (so: placeholders pairwise different where it matters, not occurring in the literal text nor in a value already written,
    nor straddling a boundary).  `k` is arbitrary: int, Fraction or float. -/
theorem renderDoc_template (d : MdDoc) (k : Num) (t : List Tok)
    (hflat : d.html = flattenT (docPh d) t)
    (hOK : ChainOK (docPh d) (docVals d k) t)
    (hb : HolesBelow (docPhs d).length t) :
    renderDoc d k = fill (docVal d k) t := by
  rw [renderDoc_eq_chain, hflat]
  exact render_no_residue t (docVals d k) (docPh d) hOK (by rw [docVals_length]; exact hb)

/-- what the holes are filled with: hole `i < #prose values` by the rendering of the i-th value, its numbers multiplied by `k` … -/
theorem hole_value_prose (d : MdDoc) (k : Num) (i : Nat) (ph : Str) (s : SVS) (h : d.svs[i]? = some (ph, s)) :
    docVal d k i = renderSvs (Svs.scale k s) := docVal_svs d k i ph s h

/-- the HTML written into the hole of a prose value, spelled out: the written parts in order, text escaped, every written number
    `n` as one `<span class="rg-scaled-value">` holding the rendering of `n * k` — for any value and any factor -/
theorem prose_value_rendered (k : Num) (s : SVS) :
    renderSvs (Svs.scale k s) = s.flatMap fun p => match p with
      | .text t => htmlEscape t
      | .num n => tagBody "span" [("class", S "rg-scaled-value")] (renderNumber (n.mul k)) := by
  rw [Svs.scale_eq, renderSvs_normalise, List.flatMap_map]
  apply flatMap_congr'
  intro p _
  cases p <;> rfl

/-- … the next `#recipe blocks` holes by `<div class="rg-recipe-block">` around the tables of the block's trees scaled by `k`
    (`Tree.scaleList k trees`), ids prefixed by the number of the independent recipe the block belongs to … -/
theorem hole_value_block (d : MdDoc) (k : Num) (j : Nat) (ph : Str) (isNew : Bool) (trees : Block)
    (h : d.recipes[j]? = some (ph, isNew, trees)) :
    docVal d k (d.svs.length + j) =
      tagBody "div" [("class", "rg-recipe-block".toList)]
        (joinNl ((Tree.scaleList k trees).map (renderRecipeTree (idPrefix ((recipeIdx 0 d.recipes).getD j 0))))) :=
  docVal_block d k j ph isNew trees h

/-- the table of the scaled tree is laid out as the table of the tree: same rows, same cells, same spans and borders -/
theorem table_layout_unscaled (pre : Str) (k : Num) (t : Tree) :
    renderRecipeTree pre (Tree.scale k t) =
      renderTable pre (Tree.scale k t) (layout t)
        (match Tree.scale k t with | .sub _ [n] _ => some (anchorId pre n) | _ => none) := by
  unfold renderRecipeTree
  rw [layout_scale]
  rfl

/-- … and the cell of a node holds the body of the scaled node, inside the same `<td …>` -/
theorem cell_of_scaled (pre : Str) (k : Num) (t : Tree) (c : PCell) :
    renderCell pre (Tree.scale k t) c =
      tagBody "td" (cellAttrs c) (renderCellBody pre (Tree.scale k ((t.at? c.path).getD t))) := by
  unfold renderCell
  rw [Tree.at?_scale]
  cases t.at? c.path <;> rfl

/-- the body of an ingredient cell at factor k: the quantity with its value multiplied, then the name with its numbers multiplied -/
theorem cell_body_ingredient (pre : Str) (k : Num) (d : SVS) (q : Option Quantity) :
    renderCellBody pre (Tree.scale k (.ingredient d q)) =
      (match q with | some q => renderQuantity { q with value := q.value.mul k } ++ [' '] | none => []) ++ renderSvs (Svs.scale k d) := by
  cases q <;> rfl

/-- … and the last two, for a document with a title, by `<header>` and the note about the scaling followed by `</header>` -/
theorem hole_value_header (d : MdDoc) (k : Num) (pre post : Str) (h1 : d.hasTitle = true) (h2 : d.prePost = some (pre, post)) :
    docVal d k (d.svs.length + d.recipes.length) = "<header>".toList ∧
    docVal d k (d.svs.length + d.recipes.length + 1) = postTitleText d k ++ "</header>".toList :=
  docVal_header d k pre post h1 h2

/-- the unscaled page carries no note -/
theorem header_note_unscaled (d : MdDoc) (k : Num) (h : k.val = 1) : postTitleText d k = [] := by
  simp [postTitleText, h]

/-- every document *has* a template: its HTML cut (leftmost, non-overlapping) at its placeholders; all its holes have values -/
theorem docTemplate_flatten (d : MdDoc) : d.html = flattenT (docPh d) (toToks (docTemplate d)) := by
  rw [flattenT_toToks]
  exact (tokenise_flatten (docPhs d) d.html).symm

theorem docTemplate_holesBelow (d : MdDoc) : HolesBelow (docPhs d).length (toToks (docTemplate d)) :=
  (holesBelow_iff_holesOf _ _).2 (tokenise_holes (docPhs d) d.html)

/-- **C03e.1 on the canonical template**: the only hypothesis left is the side condition on the placeholders, in its executable
    form (the request `page-nums` of the driver evaluates it for every document and factor of the correspondence) -/
theorem renderDoc_canonical (d : MdDoc) (k : Num) (hOK : chainOKb (docPh d) (docVals d k) (docTemplate d) = true) :
    renderDoc d k = pflatten (docVal d k) (docTemplate d) := by
  rw [← flattenT_toToks]
  exact renderDoc_template d k _ (docTemplate_flatten d) (chainOK_of_chainOKb hOK) (docTemplate_holesBelow d)

-- ================================================================ C03e.2 the numbers shown
/-- **C03e.2 `page_numbers_scaled`** the scaled values shown by the page at factor `k` — per hole of the template in document
    order: the numbers of the prose value, resp. the numbers in the cells of the block's tables (quantity before name, cells row by
    row) — are the written ones, each number multiplied by `k` (Python's `*`), the spacing and unit behind it unchanged; none is
    added, dropped or reordered.  No hypothesis: any document, any template, any factor. -/
theorem page_numbers_scaled (d : MdDoc) (k : Num) (t : List PTok) :
    shownNums d k t = (writtenNums d t).map (scaleShown k) := by
  unfold shownNums writtenNums
  rw [List.map_flatMap]
  exact flatMap_congr' (fun i _ => holeShown_eq d k i)

/-- the numbers alone, and the units alone -/
theorem page_numbers_scaled_values (d : MdDoc) (k : Num) (t : List PTok) :
    (shownNums d k t).map (·.1) = ((writtenNums d t).map (·.1)).map (·.mul k) ∧
    (shownNums d k t).map (·.2) = (writtenNums d t).map (·.2) := by
  rw [page_numbers_scaled]
  simp [scaleShown, Function.comp_def]

/-- what `.mul k` does with the kinds of number: an exact number (int, Fraction) times an exact factor is the exact product
    (int × int stays int, otherwise a Fraction); as soon as one of the two is a float the product is the double nearest to the
    product of the two doubles -/
theorem mul_exact (w k : Num) (hw : w.kind ≠ .flt) (hk : k.kind ≠ .flt) :
    (w.mul k).val = w.val * k.val ∧ (w.mul k).kind ≠ .flt := by
  cases w with | mk wv wk => cases k with | mk kv kk =>
  cases wk <;> cases kk <;> simp_all [Num.mul, Num.isFlt, Num.exactKind]
theorem mul_float (w k : Num) (h : w.kind = .flt ∨ k.kind = .flt) :
    (w.mul k).val = toDouble (w.toFlt * k.toFlt) ∧ (w.mul k).kind = .flt := by
  cases w with | mk wv wk => cases k with | mk kv kk =>
  cases wk <;> cases kk <;> simp_all [Num.mul, Num.isFlt]

/-- every float written in the document is a double (true of everything the reader of numbers produces) -/
def WrittenOK (d : MdDoc) (t : List PTok) : Prop := ∀ x ∈ writtenNums d t, x.1.kind = .flt → IsDouble x.1.val

/-- the page at factor (int) 1 shows the written numbers … -/
theorem page_numbers_one (d : MdDoc) (t : List PTok) (h : WrittenOK d t) :
    shownNums d ⟨1, .int⟩ t = writtenNums d t := by
  rw [page_numbers_scaled]
  conv => rhs; rw [← List.map_id (writtenNums d t)]
  apply List.map_congr_left
  intro x hx
  simp only [scaleShown, id]
  rw [Num.mul_one x.1 (h x hx)]

/-- … hence: the list at factor `k` is the list at factor 1 with every number multiplied by `k` -/
theorem page_numbers_scaled_from_one (d : MdDoc) (k : Num) (t : List PTok) (h : WrittenOK d t) :
    shownNums d k t = (shownNums d ⟨1, .int⟩ t).map (scaleShown k) := by
  rw [page_numbers_one d t h, page_numbers_scaled]

/-- tie to C03.1: the numbers of a prose value are the `svsNums` of `scale_numbers`; the numbers a table shows are among the
    scalable numbers `nums` of the tree — the table shows the cells' own numbers, not those inside the embedded copy of a
    referenced sub recipe -/
theorem prose_shown_eq (s : SVS) : (Svs.shown s).map (·.1) = svsNums s := by
  simp [Svs.shown, Svs.nums_eq, Function.comp_def]

-- ================================================================ C03e.3 the frame
/-- what a page consists of besides its numbers: literal HTML, and per hole the erased frame of its value -/
inductive FrameItem where
  | text (s : Str)
  | value (s : SVS)
  /-- a recipe block: the number of its independent recipe and the erased trees -/
  | block (idx : Nat) (trees : List Tree)
  | mark

def holeFrame (d : MdDoc) (k : Num) (i : Nat) : FrameItem :=
  match d.svs[i]? with
  | some (_, s) => .value (eraseSvs (Svs.scale k s))
  | none =>
    match d.recipes[i - d.svs.length]? with
    | some (_, _, trees) => .block ((recipeIdx 0 d.recipes).getD (i - d.svs.length) 0) (eraseList (Tree.scaleList k trees))
    | none => .mark

def holeFrameWritten (d : MdDoc) (i : Nat) : FrameItem :=
  match d.svs[i]? with
  | some (_, s) => .value (eraseSvs s)
  | none =>
    match d.recipes[i - d.svs.length]? with
    | some (_, _, trees) => .block ((recipeIdx 0 d.recipes).getD (i - d.svs.length) 0) (eraseList trees)
    | none => .mark

def pageFrame (d : MdDoc) (k : Num) (t : List PTok) : List FrameItem :=
  t.map fun tok => match tok with | .lit s => .text s | .hole i => holeFrame d k i
def writtenFrame (d : MdDoc) (t : List PTok) : List FrameItem :=
  t.map fun tok => match tok with | .lit s => .text s | .hole i => holeFrameWritten d i

/-- what the Python constructors guarantee of every string of the document -/
def DocNormal (d : MdDoc) : Prop := (∀ x ∈ d.svs, SvsNormal x.2) ∧ ∀ r ∈ d.recipes, TreeNormalList r.2.2

/-- **C03e.3 `page_frame_invariant`** everything that is not a scaled number — the literal HTML of the template, the text of
    every prose value, and of every tree its structure, text, units, spacing, prepositions, proportions and percentages, output
    indices — is the same at every factor (namely: as written) -/
theorem page_frame_invariant (d : MdDoc) (hn : DocNormal d) (k : Num) (t : List PTok) :
    pageFrame d k t = writtenFrame d t := by
  unfold pageFrame writtenFrame
  apply List.map_congr_left
  intro tok _
  cases tok with
  | lit s => rfl
  | hole i =>
    simp only [holeFrame, holeFrameWritten]
    split
    · rename_i ph s hs
      rw [svs_scale_frame k s (hn.1 _ (List.mem_of_getElem? hs))]
    · split
      · rename_i ph isNew trees hr
        rw [scale_frame_list k trees (hn.2 _ (List.mem_of_getElem? hr))]
      · rfl

theorem page_frame_same (d : MdDoc) (hn : DocNormal d) (k k' : Num) (t : List PTok) : pageFrame d k t = pageFrame d k' t := by
  rw [page_frame_invariant d hn k, page_frame_invariant d hn k']

-- ================================================================ non-vacuity
def pgSvs : List (Str × SVS) :=
  [("%A%".toList, [.num ⟨2, .int⟩]), ("%B%".toList, [.num ⟨3 / 2, .frac⟩, .text " cm".toList]), ("%S%".toList, [.num ⟨4, .int⟩])]
def pgBlock1 : Block :=
  [.sub (.step [.text "mix".toList]
        [.ingredient [.text "flour".toList] (some ⟨⟨200, .int⟩, some "g".toList, " ".toList, []⟩),
         .ingredient [.num ⟨3, .int⟩, .text " eggs".toList] none]) [[.text "pastry".toList]] false]
def pgBlock2 : Block :=
  [.step [.text "bake ".toList, .num ⟨1, .int⟩, .text " h".toList]
        [.reference (.sub (.ingredient [.text "x".toList] none) [[.text "pastry".toList]] false) 0
           (.quantity ⟨⟨1 / 2, .frac⟩, none, [], " of the".toList⟩),
         .ingredient [.text "apples".toList] (some ⟨⟨5 / 2, .flt⟩, some "kg".toList, [], []⟩)]]
/-- "Pie for 4": two prose values (`{2}`, `{1 1/2} cm`), the serving count of the title, two recipe blocks of one recipe -/
def pgDoc : MdDoc where
  html := ("%P%<h1 class=\"rg-title-scalable\">Pie<span class=\"rg-serving-count\"> for %S%</span></h1>%Q%\n" ++
    "<p>Roll %A% sheets, 100% butter, of %B%.</p>\n%C%<p>Then:</p>\n%D%").toList
  svs := pgSvs
  recipes := [("%C%".toList, true, pgBlock1), ("%D%".toList, false, pgBlock2)]
  hasTitle := true
  servings := some 4
  prePost := some ("%P%".toList, "%Q%".toList)

def pgK : Num := ⟨3 / 2, .frac⟩

/-- the side condition of `renderDoc_canonical` holds for the example at k = 3/2 (a page of 2028 characters) … -/
theorem pgDoc_chainOK : chainOKb (docPh pgDoc) (docVals pgDoc pgK) (docTemplate pgDoc) = true := by
  decide +kernel
/-- … so the page is the filled template … -/
example : renderDoc pgDoc pgK = pflatten (docVal pgDoc pgK) (docTemplate pgDoc) := renderDoc_canonical pgDoc pgK pgDoc_chainOK
/-- … whose holes are, in document order: pre-title mark, serving count, post-title mark, the two prose values, the two blocks -/
example : holesOf (docTemplate pgDoc) = [5, 2, 6, 0, 1, 3, 4] := by decide +kernel
/-- the written numbers (the step cell "bake 1 h" spans both rows of its table, so it comes before the second ingredient), and the
    numbers of the page for 6 (k = 3/2): every one multiplied, ints become Fractions, the float stays a float -/
example : (writtenNums pgDoc (docTemplate pgDoc)).map (fun x => (x.1.val, x.1.kind, x.2)) =
    [(4, .int, []), (2, .int, []), (3 / 2, .frac, []), (200, .int, " g".toList), (3, .int, []), (1 / 2, .frac, []), (1, .int, []),
     (5 / 2, .flt, "kg".toList)] := by
  decide +kernel
example : (shownNums pgDoc pgK (docTemplate pgDoc)).map (fun x => (x.1.val, x.1.kind, x.2)) =
    [(6, .frac, []), (3, .frac, []), (9 / 4, .frac, []), (300, .frac, " g".toList), (9 / 2, .frac, []), (3 / 4, .frac, []),
     (3 / 2, .frac, []), (15 / 4, .flt, "kg".toList)] := by
  decide +kernel
example := page_numbers_scaled pgDoc pgK (docTemplate pgDoc)
theorem svsNormal_iff_normal (s : SVS) : SvsNormal s ↔ Svs.Normal s := (Svs.normal_iff s).symm
theorem pgDoc_normal : DocNormal pgDoc := by
  have e1 : pgDoc.svs = pgSvs := rfl
  have e2 : pgDoc.recipes = [("%C%".toList, true, pgBlock1), ("%D%".toList, false, pgBlock2)] := rfl
  constructor
  · intro x hx
    rw [e1] at hx
    simp only [pgSvs, List.mem_cons, List.not_mem_nil, or_false] at hx
    rcases hx with rfl | rfl | rfl <;> simp [svsNormal_iff_normal, Svs.Normal, Svs.startsText]
  · intro r hr
    rw [e2] at hr
    simp only [List.mem_cons, List.not_mem_nil, or_false] at hr
    rcases hr with rfl | rfl
    · simp [pgBlock1, TreeNormalList, TreeNormal, svsNormal_iff_normal, Svs.Normal, Svs.startsText]
    · simp [pgBlock2, TreeNormalList, TreeNormal, svsNormal_iff_normal, Svs.Normal, Svs.startsText, Svs.isText]
example := page_frame_invariant pgDoc pgDoc_normal pgK (docTemplate pgDoc)
theorem pgDoc_writtenOK : WrittenOK pgDoc (docTemplate pgDoc) := by
  have h : ∀ x ∈ writtenNums pgDoc (docTemplate pgDoc), x.1.kind = .flt → decide (toDouble x.1.val = x.1.val) = true := by
    decide +kernel
  intro x hx hk
  show toDouble x.1.val = x.1.val
  exact of_decide_eq_true (h x hx hk)
example := page_numbers_one pgDoc (docTemplate pgDoc) pgDoc_writtenOK
/-- the side condition is needed: a placeholder that also occurs in the literal text is replaced there too -/
def pgBad : MdDoc := { html := "<p>%A% and %B% (see %A%B%)</p>".toList, svs := pgSvs, recipes := [], hasTitle := false, servings := none, prePost := none }
example : renderDoc pgBad pgK ≠
    pflatten (docVal pgBad pgK)
      [.lit "<p>".toList, .hole 0, .lit " and ".toList, .hole 1, .lit " (see %A".toList, .hole 1, .lit ")</p>".toList] := by
  decide +kernel

end RG.C03
