import RecipeGrid.Props.C13
import RecipeGrid.Props.C19d
/-! C13, from the document text: the grouping of a document's code blocks into independent recipes, with the blocks
    computed by the scanner model (`scanBlocks`) instead of observed from marko. -/
namespace RG.C13

/-- the kinds of the code blocks of a document, in order — what `render_fenced_code` / `render_code_block` see -/
def docKinds (doc : Str) : List CodeBlockKind := (scanBlocks doc).map (·.kind)

/-- **`scan_group`**: block `i` of the document heads an independent recipe iff it is the document's first recipe block
    or a fenced block whose language is exactly `new-recipe` (`group_head_iff`, wired to the scanner) -/
theorem scan_group (doc : Str) (i : Nat) :
    (∃ g ∈ groupBlocks (docKinds doc), g.head? = some i) ↔
      ∃ n, (recipeIndices (docKinds doc))[n]? = some i ∧
        (n = 0 ∨ ∃ b, (scanBlocks doc)[i]? = some b ∧ b.kind = .fenced "new-recipe".toList) := by
  rw [group_head_iff]
  constructor
  · rintro ⟨n, hn, h⟩
    refine ⟨n, hn, h.imp id ?_⟩
    intro h
    simp only [docKinds, List.getElem?_map, Option.map_map] at h
    cases hb : (scanBlocks doc)[i]? with
    | none => rw [hb] at h; cases h
    | some b =>
      rw [hb] at h
      simp only [Option.map_some, Function.comp, Option.some.injEq] at h
      refine ⟨b, rfl, ?_⟩
      cases hk : b.kind with
      | indented => rw [hk] at h; cases h
      | fenced l =>
        rw [hk] at h
        simp only [CodeBlockKind.startsNew, beq_iff_eq] at h
        rw [h]
  · rintro ⟨n, hn, h⟩
    refine ⟨n, hn, h.imp id ?_⟩
    rintro ⟨b, hb, hk⟩
    simp [docKinds, List.getElem?_map, hb, hk, CodeBlockKind.startsNew]

/-- … and that language is read off the document: the first word of the info string of the fence line at `pos` -/
theorem scan_group_new (doc : Str) (b : MdBlock) (hb : b ∈ scanBlocks doc) :
    b.kind.startsNew = true ↔
      ∃ line tail f, (normaliseCrLf doc).drop b.pos = line ++ tail ∧ fenceOpen? line = some f ∧
        b.kind = .fenced f.lang ∧ stripBackslash (firstWord f.info) = "new-recipe".toList := by
  constructor
  · intro h
    cases hk : b.kind with
    | indented => rw [hk] at h; cases h
    | fenced l =>
      rw [hk] at h
      simp only [CodeBlockKind.startsNew, beq_iff_eq] at h
      obtain ⟨line, tail, f, h1, _, h3, h4⟩ := C19.scan_fenced_lang doc b hb l hk
      exact ⟨line, tail, f, h1, h3, by rw [h4]; rfl, by rw [← h4, h]⟩
  · rintro ⟨line, tail, f, _, _, hk, hl⟩
    rw [hk]
    simp only [CodeBlockKind.startsNew, FenceInfo.lang, hl, beq_self_eq_true]

/-- the members of a group are indices of recipe blocks of the document (indented, or fenced `recipe` / `new-recipe`) -/
theorem scan_group_members (doc : Str) (g : List Nat) (hg : g ∈ groupBlocks (docKinds doc)) (i : Nat) (hi : i ∈ g) :
    ∃ b, (scanBlocks doc)[i]? = some b ∧ b.kind.isRecipe = true := by
  have hmem : i ∈ recipeIndices (docKinds doc) := by
    rw [← group_flatten]; exact List.mem_flatten.2 ⟨g, hg, hi⟩
  simp only [recipeIndices, List.mem_map, List.mem_filter] at hmem
  obtain ⟨⟨k, i'⟩, ⟨hz, hr⟩, rfl⟩ := hmem
  have hk : (docKinds doc)[i']? = some k := by simpa using List.mem_zipIdx_iff_getElem?.mp hz
  simp only [docKinds, List.getElem?_map] at hk
  cases hb : (scanBlocks doc)[i']? with
  | none => rw [hb] at hk; cases hk
  | some b =>
    rw [hb] at hk
    simp only [Option.map_some, Option.some.injEq] at hk
    exact ⟨b, rfl, by rw [hk]; exact hr⟩

/-- the blocks of one independent recipe: what `render_document` compiles together -/
def groupOf (doc : Str) (g : List Nat) : List MdBlock := g.filterMap fun i => (scanBlocks doc)[i]?

theorem groupOf_mem (doc : Str) (g : List Nat) : ∀ b ∈ groupOf doc g, b ∈ scanBlocks doc := by
  intro b hb
  simp only [groupOf, List.mem_filterMap] at hb
  obtain ⟨i, _, hi⟩ := hb
  exact List.mem_of_getElem? hi

/-- **C19 for the groups `markdown.py` compiles**: `doc_error_line` applied to an independent recipe `g` of the document
    (a member of `groupBlocks`): a located error in its `i`-th block is reported on the document line that holds the
    offending text -/
theorem scan_group_error_line (doc : Str) (hD : inDoc doc = true) (g : List Nat) (_hg : g ∈ groupBlocks (docKinds doc))
    (i off : Nat)
    (hc : compile ((groupOf doc g).map fun b => crToLf b.source) = .redefined i off ∨
          compile ((groupOf doc g).map fun b => crToLf b.source) = .proportion i off) :
    ∃ b, (groupOf doc g)[i]? = some b ∧ b ∈ scanBlocks doc ∧
      (compile (C19.mdSources doc ((groupOf doc g).map fun b => (b.pos, b.kind.isFenced, b.source))) =
          .redefined i (off + (b.startLine - 1)) ∨
       compile (C19.mdSources doc ((groupOf doc g).map fun b => (b.pos, b.kind.isFenced, b.source))) =
          .proportion i (off + (b.startLine - 1))) ∧
      (offsetToLineCol (paddedSource doc b.pos b.kind.isFenced b.source) (off + (b.startLine - 1))).1 =
        b.startLine + ((offsetToLineCol (crToLf b.source) off).1 - 1) ∧
      ∃ q, extractLine (paddedSource doc b.pos b.kind.isFenced b.source)
          (b.startLine + ((offsetToLineCol (crToLf b.source) off).1 - 1)) = some q ∧
        ((∃ d p, extractLine (crToLf (normaliseCrLf doc))
              (b.startLine + ((offsetToLineCol (crToLf b.source) off).1 - 1)) = some d ∧
            p ≤ C19.blockIndent doc b ∧ (∀ c ∈ d.take p, c = ' ') ∧ q = d.drop p) ∨ q = []) := by
  obtain ⟨b, hb, hmem, h1, h2, h3, q, _, hq, hrel⟩ :=
    C19.doc_error_line doc hD (groupOf doc g) (groupOf_mem doc g) i off hc
  refine ⟨b, hb, hmem, ?_, by rw [h3], q, hq, ?_⟩
  · rcases hc with hc | hc
    · exact Or.inl (h1 hc)
    · exact Or.inr (h2 hc)
  · rcases hrel with h | ⟨_, hq0, _⟩
    · exact Or.inl h
    · exact Or.inr hq0

/-- the groups of the example document, as blocks -/
example : (groupOf C19.exDoc [0, 1]).map (·.startLine) = [7, 12] ∧ (groupOf C19.exDoc [2]).map (·.pos) = [127] := by
  decide +kernel

/-- the example document of `Props/C19d.lean`: three blocks, two independent recipes — the first fence and the indented
    block, then the `~~~~new-recipe` fence -/
example : groupBlocks (docKinds C19.exDoc) = [[0, 1], [2]] := by decide +kernel

/-- languages that do not start a new recipe: `RECIPE`, `recipe`; one that does although it is written with an escape -/
example :
    groupBlocks (docKinds "```RECIPE\nx\n```\n```recipe\ny\n```\n~~~new\\-recipe\nz\n~~~\n    w\n".toList) = [[1], [2, 3]] := by
  decide +kernel

end RG.C13
