import RecipeGrid.Lemmas.Html
/-! C09 — links land on the definition: the href of a reference is `#` + the id emitted where the same output name
    is defined (C09.1), ids of different independent recipes never coincide (C09.2), and the recorded finding that
    two different output names of one recipe can get the same id (C09.3), with the class of names on which ids are
    injective. Helper lemmas are in `Lemmas/Html.lean`. -/
namespace RG.C09

/-- the id prefix of the i-th independent recipe of a document (`markdown.py`): "recipe-" for the first,
    "recipe<i>-" after -/
def recipePrefix (i : Nat) : Str :=
  if i ≤ 1 then "recipe-".toList else "recipe".toList ++ natDigits i ++ ['-']

example : recipePrefix 1 = "recipe-".toList ∧ recipePrefix 2 = "recipe2-".toList ∧
    recipePrefix 12 = "recipe12-".toList := by decide

/-- C09.2 (strongest form): whatever follows the prefixes — no condition on the tails at all — equal ids mean the
    same recipe index; indices 0 and 1 share the prefix "recipe-" (the renderer never uses index 0) -/
theorem prefix_disjoint_any (i j : Nat) (s t : Str) (h : recipePrefix i ++ s = recipePrefix j ++ t) :
    i = j ∨ (i ≤ 1 ∧ j ≤ 1) := by
  unfold recipePrefix at h
  by_cases hi : i ≤ 1 <;> by_cases hj : j ≤ 1
  · exact Or.inr ⟨hi, hj⟩
  · exfalso
    simp only [hi, hj, if_true, if_false] at h
    have hne := natDigits_ne_nil j
    have hd := natDigits_isDigit j
    cases hn : natDigits j with
    | nil => exact hne hn
    | cons a l =>
      rw [hn] at h hd
      have := hd a (List.mem_cons_self ..)
      simp at h
      rw [← h.1] at this; simp [dash_not_digit] at this
  · exfalso
    simp only [hi, hj, if_true, if_false] at h
    have hne := natDigits_ne_nil i
    have hd := natDigits_isDigit i
    cases hn : natDigits i with
    | nil => exact hne hn
    | cons a l =>
      rw [hn] at h hd
      have := hd a (List.mem_cons_self ..)
      simp at h
      rw [h.1] at this; simp [dash_not_digit] at this
  · left
    simp only [hi, hj, if_false] at h
    have h' : natDigits i ++ '-' :: s = natDigits j ++ '-' :: t := by simpa using h
    exact natDigits_inj (digits_dash_inj (natDigits_isDigit i) (natDigits_isDigit j) h')

set_option linter.unusedVariables false in
/-- C09.2 ids of different independent recipes never coincide, whatever the output names: the prefix determines
    the recipe (the tails are as in `C10.anchorId_charset`: they never start with '-', but may start with a digit;
    the hypotheses on the indices and the tails turn out not to be needed, see `prefix_disjoint_any`) -/
theorem prefix_disjoint (i j : Nat) (hi : 1 ≤ i) (hj : 1 ≤ j) (s t : Str) (hs : s.head? ≠ some '-')
    (ht : t.head? ≠ some '-') (h : recipePrefix i ++ s = recipePrefix j ++ t) : i = j ∨ (i ≤ 1 ∧ j ≤ 1) :=
  prefix_disjoint_any i j s t h

/-- for the indices the renderer uses (from 1) the index is determined outright -/
theorem prefix_disjoint_pos (i j : Nat) (hi : 1 ≤ i) (hj : 1 ≤ j) (s t : Str)
    (h : recipePrefix i ++ s = recipePrefix j ++ t) : i = j := by
  rcases prefix_disjoint_any i j s t h with h | h
  · exact h
  · omega

/-- so: two anchor ids of recipes number `i` and `j` of one document are equal only if `i = j` -/
theorem anchorId_recipe_disjoint (i j : Nat) (hi : 1 ≤ i) (hj : 1 ≤ j) (n m : SVS)
    (h : anchorId (recipePrefix i) n = anchorId (recipePrefix j) m) : i = j :=
  prefix_disjoint_pos i j hi hj _ _ h

example : recipePrefix 1 ++ "2-x".toList ≠ recipePrefix 12 ++ "x".toList := by decide
example : recipePrefix 2 ++ "x".toList ≠ recipePrefix 1 ++ "2-x".toList := by decide
example := prefix_disjoint 3 3 (by decide) (by decide) "x".toList "x".toList (by decide) (by decide) rfl

/-- C09.1 the href of a reference cell is "#" followed by the id emitted at the definition of the same output name
    with the same prefix -/
theorem href_hits_definition (pre : Str) (sub : Tree) (idx : Nat) (a : Amount) (name : SVS)
    (h : (subNames sub)[idx]? = some name) :
    ∃ body, renderCellBody pre (.reference sub idx a) = tagBody "a" [("href", '#' :: anchorId pre name)] body := by
  refine ⟨renderAmount a ++ renderSvs name, ?_⟩
  simp only [renderCellBody, h, Option.getD_some]

/-- a single-output root table carries exactly that id -/
theorem table_id (pre : Str) (body : Tree) (n : SVS) (sh : Bool) :
    renderRecipeTree pre (.sub body [n] sh) =
      renderTable pre (.sub body [n] sh) (layout (.sub body [n] sh)) (some (anchorId pre n)) := rfl

/-- the id really is an attribute of the `<table>` tag -/
theorem table_id_attr (pre : Str) (tree : Tree) (t : Tbl) (i : Str) :
    ∃ body, renderTable pre tree t (some i) = tagBody "table" [("class", S "rg-table"), ("id", i)] body :=
  ⟨_, rfl⟩

/-- a multi-output list item carries the id of its own output name -/
theorem list_item_id (pre : Str) (body : Tree) (names : List SVS) (sh : Bool) (h : names.length ≠ 1) :
    renderCellBody pre (.sub body names sh) =
      tagBody "ul" [("class", S "rg-sub-recipe-output-list")]
        (joinNl (names.map fun n => tagBody "li" [("id", anchorId pre n)] (renderSvs n))) := by
  simp only [renderCellBody, h, if_false]

/-- non-vacuity: a reference to the output "sauce" and the table defining it -/
example : renderCellBody (S "recipe-") (.reference (.sub (.ingredient [] none) [[.text (S "sauce")]] false) 0 .whole)
    = S "<a href=\"#recipe-sauce\">sauce</a>" := by decide +kernel
example : renderRecipeTree (S "recipe-") (.sub (.ingredient [.text (S "x")] none) [[.text (S "sauce")]] false)
    = S ("<table class=\"rg-table\" id=\"recipe-sauce\"><tr><td class=\"rg-ingredient " ++
         "rg-border-left-sub-recipe rg-border-right-sub-recipe rg-border-top-sub-recipe " ++
         "rg-border-bottom-sub-recipe\">x</td></tr></table>") := by decide +kernel

/-- C09.3 witness of the recorded finding: two different output names with the same id -/
theorem anchorId_collision :
    anchorId "recipe-".toList [.text "a b".toList] = anchorId "recipe-".toList [.text "a-b".toList] ∧
    ("a b".toList ≠ "a-b".toList) := by decide

/-- C09.3 ids are injective on names made only of id characters without leading/trailing '-' -/
theorem anchorId_injective_on (pre : Str) (s t : Str) (hs : ∀ c ∈ s, isIdChar c) (ht : ∀ c ∈ t, isIdChar c)
    (hs' : s.head? ≠ some '-' ∧ s.getLast? ≠ some '-') (ht' : t.head? ≠ some '-' ∧ t.getLast? ≠ some '-')
    (h : anchorId pre [.text s] = anchorId pre [.text t]) : s = t := by
  rw [anchorId_eq, anchorId_eq, anchorTail_text_of_clean s hs hs'.1 hs'.2,
    anchorTail_text_of_clean t ht ht'.1 ht'.2] at h
  exact List.append_cancel_left h

example := anchorId_injective_on [] "a.b".toList "a.b".toList (by decide) (by decide) (by decide) (by decide) rfl

end RG.C09
