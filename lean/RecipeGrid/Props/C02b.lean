import RecipeGrid.Props.C02
import RecipeGrid.Lemmas.Readback
/-! C02.6 — read-back: the recipe tree can be read back unambiguously from the grid alone, up to an explicit
    normal form (`drawing`).

    What the grid shows of a cell is its position and extent, its kind, its four border styles (`VCell`, defined in
    `Lemmas/Readback.lean`: a `PCell` without its `path`) and its label.

    * `vis T`: the visible table, its cells in raster order, without paths (and without labels).
    * `Drawing`, `drawing`: the normal form; it keeps every arity and order and forgets exactly what is invisible
      (an untitled single-output wrapper only adds an outline; outlining twice, or outlining a titled box, or
      outlining the root, changes nothing).
    * `drawing_determines_table`: equal drawings give equal visible tables.
    * `table_determines_drawing`: equal visible tables give equal drawings; `cells_determine_drawing`: even just
      the same *set* of visible cells does.
    * `readback`, `readback_layout`: an explicit, computable read-back, `readback (vis (layout t)) = some (drawing t)`.
    * Labels: the theorems above are about the *shape* (labels ignored). `visL f t` adds to every visible cell the
      label `f node` of the node it draws, for an arbitrary `f : Tree → L`; `table_determines_drawingL` /
      `drawing_determines_tableL` say that the labelled table carries exactly the drawing plus the labels of the
      drawn nodes in drawing order (`labels f t`).
    Trees are assumed well-formed (`wf`: every step has an input) and to satisfy Python's invariant
    `multiOnlyAtRoot`. Helper lemmas are in `Lemmas/Readback.lean`. -/
namespace RG.C02

/-- the visible table: the cells in raster order, each without its path -/
def vis (T : Tbl) : List VCell := (rasterSort T.cells).map PCell.vis

/-- what can be seen of a recipe tree -/
inductive Drawing where
  | leaf (k : CellKind)
  | step (inputs : List Drawing)
  | titled (d : Drawing)
  | outlined (d : Drawing)
  | multi (d : Drawing)
deriving Repr

mutual
/-- Boolean equality of drawings (the type is nested, so `DecidableEq` is not derived) -/
def Drawing.beq : Drawing → Drawing → Bool
  | .leaf a, .leaf b => decide (a = b)
  | .step as, .step bs => Drawing.beqList as bs
  | .titled a, .titled b => Drawing.beq a b
  | .outlined a, .outlined b => Drawing.beq a b
  | .multi a, .multi b => Drawing.beq a b
  | _, _ => false
def Drawing.beqList : List Drawing → List Drawing → Bool
  | [], [] => true
  | a :: as, b :: bs => Drawing.beq a b && Drawing.beqList as bs
  | _, _ => false
end

mutual
theorem Drawing.beq_iff : ∀ a b : Drawing, Drawing.beq a b = true ↔ a = b
  | .leaf k, b => by cases b <;> simp [Drawing.beq]
  | .step as, b => by cases b <;> simp [Drawing.beq, Drawing.beqList_iff as]
  | .titled a, b => by cases b <;> simp [Drawing.beq, Drawing.beq_iff a]
  | .outlined a, b => by cases b <;> simp [Drawing.beq, Drawing.beq_iff a]
  | .multi a, b => by cases b <;> simp [Drawing.beq, Drawing.beq_iff a]
theorem Drawing.beqList_iff : ∀ as bs : List Drawing, Drawing.beqList as bs = true ↔ as = bs
  | [], bs => by cases bs <;> simp [Drawing.beqList]
  | a :: as, bs => by cases bs <;> simp [Drawing.beqList, Drawing.beq_iff a, Drawing.beqList_iff as]
end

instance : DecidableEq Drawing := fun a b => decidable_of_iff _ (Drawing.beq_iff a b)

/-- draw an outline around a region, unless it already has one -/
def outline : Drawing → Drawing
  | .outlined d => .outlined d
  | .titled d => .titled d
  | d => .outlined d

mutual
/-- the drawing of a subtree that is not the root -/
def drawingIn : Tree → Drawing
  | .ingredient .. => .leaf .ingredient
  | .reference .. => .leaf .reference
  | .step _ inputs => .step (drawingIns inputs)
  | .sub body names showNames =>
    if names.length = 1 then (if showNames then .titled (drawingIn body) else outline (drawingIn body))
    else .multi (outline (drawingIn body))
def drawingIns : List Tree → List Drawing
  | [] => []
  | t :: ts => drawingIn t :: drawingIns ts
end

/-- the normal form of a recipe tree: the root is always outlined -/
def drawing : Tree → Drawing
  | .sub body names showNames => drawingIn (.sub body names showNames)
  | t => outline (drawingIn t)

-- ---------------------------------------------------------------- bridge to `Lemmas/Readback.lean`
mutual
private theorem wf_eq : ∀ t : Tree, wf t = RG.wf t
  | .ingredient .. => rfl
  | .reference .. => rfl
  | .step _ inputs => by simp only [wf, RG.wf, wfList_eq inputs]
  | .sub body _ _ => by simp only [wf, RG.wf, wf_eq body]
private theorem wfList_eq : ∀ ts : List Tree, wfList ts = RG.wfList ts
  | [] => rfl
  | t :: ts => by simp only [wfList, RG.wfList, wf_eq t, wfList_eq ts]
end

/-- `o` = the region has its own outline -/
def wrap (o : Bool) (d : Drawing) : Drawing := if o then .outlined d else d

mutual
/-- the drawing of a normal form (`NF` is the internal representation used in `Lemmas/Readback.lean`) -/
def toD : NF → Drawing
  | .leaf o r => wrap o (.leaf (lk r))
  | .step o ins => wrap o (.step (toDs ins))
  | .titled e => .titled (toD e)
def toDs : List NF → List Drawing
  | [] => []
  | n :: ns => toD n :: toDs ns
end

/-- the drawing of a whole table: `x.1` = there is an outputs column -/
def toDRoot (x : Bool × NF) : Drawing := if x.1 then .multi (toD x.2) else toD x.2

private theorem toD_mark (n : NF) : toD n.mark = outline (toD n) := by
  cases n with
  | leaf o r => cases o <;> simp [NF.mark, toD, wrap, outline]
  | step o ins => cases o <;> simp [NF.mark, toD, wrap, outline]
  | titled e => simp [NF.mark, toD, outline]

mutual
private theorem drawingIn_eq : ∀ t : Tree, single t = true → drawingIn t = toD (nf t)
  | .ingredient .., _ => by simp [drawingIn, nf, toD, wrap, lk]
  | .reference .., _ => by simp [drawingIn, nf, toD, wrap, lk]
  | .step _ ins, h => by
    simp only [single] at h
    simp only [drawingIn, nf, toD, wrap, drawingIns_eq ins h, Bool.false_eq_true, if_false]
  | .sub b ns sh, h => by
    simp only [single, Bool.and_eq_true, decide_eq_true_eq] at h
    cases sh <;> simp [drawingIn, nf, toD, toD_mark, h.1, drawingIn_eq b h.2]
private theorem drawingIns_eq : ∀ ts : List Tree, singles ts = true → drawingIns ts = toDs (nfs ts)
  | [], _ => rfl
  | t :: ts, h => by
    simp only [singles, Bool.and_eq_true] at h
    simp only [drawingIns, nfs, toDs, drawingIn_eq t h.1, drawingIns_eq ts h.2]
end

private theorem drawing_eq (t : Tree) (h : singleRoot t = true) : drawing t = toDRoot (nfRoot t) := by
  cases t with
  | ingredient d q => simp [drawing, nfRoot, toDRoot, toD_mark, drawingIn_eq _ h]
  | reference s i a => simp [drawing, nfRoot, toDRoot, toD_mark, drawingIn_eq _ h]
  | step d ins => simp [drawing, nfRoot, toDRoot, toD_mark, drawingIn_eq _ h]
  | sub b ns sh =>
    simp only [singleRoot] at h
    by_cases h1 : ns.length = 1
    · have hs : single (.sub b ns sh) = true := by simp [single, h1, h]
      simp [drawing, nfRoot, toDRoot, h1, drawingIn_eq _ hs]
    · simp [drawing, drawingIn, nfRoot, toDRoot, h1, toD_mark, drawingIn_eq _ h]

mutual
private theorem toD_inj : ∀ n1 n2 : NF, toD n1 = toD n2 → n1 = n2
  | .leaf o1 r1, .leaf o2 r2, h => by
    cases o1 <;> cases o2 <;> simp [toD, wrap] at h <;> rw [lk_inj h]
  | .leaf o1 r1, .step o2 ins2, h => by cases o1 <;> cases o2 <;> simp [toD, wrap] at h
  | .leaf o1 r1, .titled e2, h => by cases o1 <;> simp [toD, wrap] at h
  | .step o1 ins1, .leaf o2 r2, h => by cases o1 <;> cases o2 <;> simp [toD, wrap] at h
  | .step o1 ins1, .step o2 ins2, h => by
    cases o1 <;> cases o2 <;> simp [toD, wrap] at h <;> rw [toDs_inj ins1 ins2 h]
  | .step o1 ins1, .titled e2, h => by cases o1 <;> simp [toD, wrap] at h
  | .titled e1, .leaf o2 r2, h => by cases o2 <;> simp [toD, wrap] at h
  | .titled e1, .step o2 ins2, h => by cases o2 <;> simp [toD, wrap] at h
  | .titled e1, .titled e2, h => by
    simp only [toD, Drawing.titled.injEq] at h
    rw [toD_inj e1 e2 h]
private theorem toDs_inj : ∀ ns1 ns2 : List NF, toDs ns1 = toDs ns2 → ns1 = ns2
  | [], [], _ => rfl
  | [], _ :: _, h => by simp [toDs] at h
  | _ :: _, [], h => by simp [toDs] at h
  | n1 :: ns1, n2 :: ns2, h => by
    simp only [toDs, List.cons.injEq] at h
    rw [toD_inj n1 n2 h.1, toDs_inj ns1 ns2 h.2]
end

private theorem toD_ne_multi (n : NF) (d : Drawing) : toD n ≠ .multi d := by
  cases n with
  | leaf o r => cases o <;> simp [toD, wrap]
  | step o ins => cases o <;> simp [toD, wrap]
  | titled e => simp [toD]

private theorem toDRoot_inj (x y : Bool × NF) (h : toDRoot x = toDRoot y) : x = y := by
  obtain ⟨m1, n1⟩ := x
  obtain ⟨m2, n2⟩ := y
  cases m1 <;> cases m2 <;> simp only [toDRoot, Bool.false_eq_true, if_false, if_true] at h
  · rw [toD_inj n1 n2 h]
  · exact absurd h (toD_ne_multi _ _)
  · exact absurd h.symm (toD_ne_multi _ _)
  · simp only [Drawing.multi.injEq] at h
    rw [toD_inj n1 n2 h]

private theorem singleRoot_of (t : Tree) (hm : multiOnlyAtRoot t) : singleRoot t = true :=
  singleRoot_of_at t hm

-- ---------------------------------------------------------------- the theorems
/-- the drawing determines the visible table: trees with the same drawing are laid out as the same grid -/
theorem drawing_determines_table (t₁ t₂ : Tree) (h₁ : wf t₁ = true) (h₂ : wf t₂ = true)
    (m₁ : multiOnlyAtRoot t₁) (m₂ : multiOnlyAtRoot t₂) (h : drawing t₁ = drawing t₂) :
    vis (layout t₁) = vis (layout t₂) := by
  have s₁ := singleRoot_of t₁ m₁
  have s₂ := singleRoot_of t₂ m₂
  rw [drawing_eq t₁ s₁, drawing_eq t₂ s₂] at h
  have e := toDRoot_inj _ _ h
  simp only [vis, map_vis_rasterSort, layout_vis t₁ (wf_eq t₁ ▸ h₁) s₁, layout_vis t₂ (wf_eq t₂ ▸ h₂) s₂, e]

/-- read-back from the *set* of visible cells: two trees whose grids show the same cells (in whatever order they
    are listed) have the same drawing -/
theorem cells_determine_drawing (t₁ t₂ : Tree) (h₁ : wf t₁ = true) (h₂ : wf t₂ = true)
    (m₁ : multiOnlyAtRoot t₁) (m₂ : multiOnlyAtRoot t₂)
    (h : ∀ x, x ∈ (layout t₁).cells.map PCell.vis ↔ x ∈ (layout t₂).cells.map PCell.vis) :
    drawing t₁ = drawing t₂ := by
  have s₁ := singleRoot_of t₁ m₁
  have s₂ := singleRoot_of t₂ m₂
  rw [drawing_eq t₁ s₁, drawing_eq t₂ s₂,
    nfRoot_inj t₁ t₂ (wf_eq t₁ ▸ h₁) (wf_eq t₂ ▸ h₂) s₁ s₂ h]

/-- C02.6 read-back: the visible table determines the drawing — two trees that draw the same grid have the same
    drawing -/
theorem table_determines_drawing (t₁ t₂ : Tree) (h₁ : wf t₁ = true) (h₂ : wf t₂ = true)
    (m₁ : multiOnlyAtRoot t₁) (m₂ : multiOnlyAtRoot t₂) (h : vis (layout t₁) = vis (layout t₂)) :
    drawing t₁ = drawing t₂ := by
  apply cells_determine_drawing t₁ t₂ h₁ h₂ m₁ m₂
  intro x
  rw [← mem_map_vis_rasterSort, ← mem_map_vis_rasterSort (layout t₂).cells]
  show x ∈ vis (layout t₁) ↔ x ∈ vis (layout t₂)
  rw [h]

/-- the grid and the drawing carry the same information -/
theorem table_eq_iff_drawing_eq (t₁ t₂ : Tree) (h₁ : wf t₁ = true) (h₂ : wf t₂ = true)
    (m₁ : multiOnlyAtRoot t₁) (m₂ : multiOnlyAtRoot t₂) :
    vis (layout t₁) = vis (layout t₂) ↔ drawing t₁ = drawing t₂ :=
  ⟨table_determines_drawing t₁ t₂ h₁ h₂ m₁ m₂, drawing_determines_table t₁ t₂ h₁ h₂ m₁ m₂⟩

/-- an explicit read-back: in each region the cell in the top row that reaches the right edge says what the region
    is (a leaf, a title above a body, or a step whose inputs are stacked to its left); an own outline shows on the
    top and right borders of that cell; an outputs cell, if any, is the right-most column (`rbRoot`, `rbNF`,
    `rbStack` in `Lemmas/Readback.lean`) -/
def readback (S : List VCell) : Option Drawing := (rbRoot S).map toDRoot

/-- reading back the visible cells of a layout, listed in any order, gives the drawing of the tree -/
theorem readback_cells (t : Tree) (hw : wf t = true) (hm : multiOnlyAtRoot t) (S : List VCell)
    (hS : S.Perm ((layout t).cells.map PCell.vis)) : readback S = some (drawing t) := by
  have hs := singleRoot_of t hm
  rw [readback, rbRoot_layout t (wf_eq t ▸ hw) hs S (fun x => hS.mem_iff) (by rw [hS.length_eq, List.length_map]),
    drawing_eq t hs]
  rfl

/-- C02.6, constructively: `readback` recovers the drawing from the visible table -/
theorem readback_layout (t : Tree) (hw : wf t = true) (hm : multiOnlyAtRoot t) :
    readback (vis (layout t)) = some (drawing t) :=
  readback_cells t hw hm _ ((rb_insertionSort_perm _ _).map _)

/-- a read-back function exists: the drawing is a function of the visible table alone -/
theorem readback_exists : ∃ readback : List VCell → Option Drawing,
    ∀ t, wf t = true → multiOnlyAtRoot t → readback (vis (layout t)) = some (drawing t) :=
  ⟨readback, readback_layout⟩

-- ---------------------------------------------------------------- labels
section Labels
variable {L : Type}

/-- the label shown in a cell: any function `f` of the node that the cell draws (its description, its output
    names, …) -/
def label (f : Tree → L) (t : Tree) (x : PCell) : Option L := (t.at? x.path).map f

/-- the visible table with its labels: the cells in raster order, each without its path but with its label -/
def visL (f : Tree → L) (t : Tree) : List (VCell × Option L) :=
  (rasterSort (layout t).cells).map fun x => (x.vis, label f t x)

/-- the labels of the drawn nodes, in the order of `drawn` (inputs before their step, a title before its body);
    together with `drawing t` this is the labelled drawing -/
def labels (f : Tree → L) (t : Tree) : List (Option L) := (drawn [] t).map fun pk => (t.at? pk.1).map f

private theorem cells_labels (f : Tree → L) (t : Tree) : (layout t).cells.map (label f t) = labels f t := by
  unfold labels
  rw [← layout_nodes_once, List.map_map]
  rfl

private def le2 (p q : VCell × Option L) : Bool := !vrasterLt q.1 p.1

private theorem visL_eq (f : Tree → L) (t : Tree) (hw : RG.wf t = true) (hs : singleRoot t = true) :
    visL f t = insertionSort le2 ((rootCells (nfRoot t).1 (nfRoot t).2).zip (labels f t)) := by
  unfold visL rasterSort
  rw [map_insertionSort (fun x : PCell => (x.vis, label f t x)) (fun a b : PCell => !rasterLt b a) le2
    (fun _ _ => rfl), ← layout_vis t hw hs, ← cells_labels, List.zip_map']

private theorem visL_fst (f : Tree → L) (t : Tree) : (visL f t).map Prod.fst = vis (layout t) := by
  simp [visL, vis, List.map_map, Function.comp_def]

/-- with labels: the drawing and the labels of the drawn nodes determine the labelled table -/
theorem drawing_determines_tableL (f : Tree → L) (t₁ t₂ : Tree) (h₁ : wf t₁ = true) (h₂ : wf t₂ = true)
    (m₁ : multiOnlyAtRoot t₁) (m₂ : multiOnlyAtRoot t₂) (h : drawing t₁ = drawing t₂)
    (hl : labels f t₁ = labels f t₂) : visL f t₁ = visL f t₂ := by
  have s₁ := singleRoot_of t₁ m₁
  have s₂ := singleRoot_of t₂ m₂
  rw [drawing_eq t₁ s₁, drawing_eq t₂ s₂] at h
  have e := toDRoot_inj _ _ h
  rw [visL_eq f t₁ (wf_eq t₁ ▸ h₁) s₁, visL_eq f t₂ (wf_eq t₂ ▸ h₂) s₂, e, hl]

/-- C02.6 with labels: the labelled table determines the drawing and the label of every drawn node -/
theorem table_determines_drawingL (f : Tree → L) (t₁ t₂ : Tree) (h₁ : wf t₁ = true) (h₂ : wf t₂ = true)
    (m₁ : multiOnlyAtRoot t₁) (m₂ : multiOnlyAtRoot t₂) (h : visL f t₁ = visL f t₂) :
    drawing t₁ = drawing t₂ ∧ labels f t₁ = labels f t₂ := by
  have s₁ := singleRoot_of t₁ m₁
  have s₂ := singleRoot_of t₂ m₂
  have w₁ : RG.wf t₁ = true := wf_eq t₁ ▸ h₁
  have w₂ : RG.wf t₂ = true := wf_eq t₂ ▸ h₂
  have hv : vis (layout t₁) = vis (layout t₂) := by rw [← visL_fst f, ← visL_fst f, h]
  have hd := table_determines_drawing t₁ t₂ h₁ h₂ m₁ m₂ hv
  refine ⟨hd, ?_⟩
  rw [drawing_eq t₁ s₁, drawing_eq t₂ s₂] at hd
  have e := toDRoot_inj _ _ hd
  rw [visL_eq f t₁ w₁ s₁, visL_eq f t₂ w₂ s₂, e] at h
  have hn : (rootCells (nfRoot t₂).1 (nfRoot t₂).2).Nodup := by
    rw [← layout_vis t₂ w₂ s₂]
    exact (layoutAt_good t₂ [] true w₂).vis_nodup
  have len : ∀ t, RG.wf t = true → singleRoot t = true →
      (labels f t).length = (rootCells (nfRoot t).1 (nfRoot t).2).length := by
    intro t hw hs
    rw [← layout_vis t hw hs, ← cells_labels, List.length_map, List.length_map]
  apply zip_right_inj _ _ _ hn (by rw [len t₁ w₁ s₁, e]) (len t₂ w₂ s₂)
  intro p hp
  have := ((rb_insertionSort_perm le2 _).mem_iff (a := p)).2 hp
  rw [h] at this
  exact ((rb_insertionSort_perm le2 _).mem_iff (a := p)).1 this

end Labels

-- ---------------------------------------------------------------- examples
/-- Python's invariant is decidable: it is the Boolean check `singleRoot` -/
theorem multiOnlyAtRoot_iff (t : Tree) : multiOnlyAtRoot t ↔ singleRoot t = true :=
  ⟨singleRoot_of_at t, at_of_singleRoot t⟩
instance (t : Tree) : Decidable (multiOnlyAtRoot t) := decidable_of_iff _ (multiOnlyAtRoot_iff t).symm

private def i : Tree := .ingredient [] none
private def r : Tree := .reference (.sub i [[]] true) 0 .whole
/-- an untitled single-output wrapper -/
private def w (t : Tree) : Tree := .sub t [[]] false
/-- a titled sub recipe -/
private def ti (t : Tree) : Tree := .sub t [[]] true
/-- a root with two outputs -/
private def two (t : Tree) : Tree := .sub t [[], []] false
private def st (ts : List Tree) : Tree := .step [] ts

/-! pairs of trees that are *identified*: same drawing, same grid -/
-- an untitled wrapper around an untitled wrapper
example : drawing (w (w i)) = drawing (w i) := by decide
example : vis (layout (w (w i))) = vis (layout (w i)) := by decide
-- the root is outlined anyway
example : drawing (w i) = drawing i := by decide
example : vis (layout (w i)) = vis (layout i) := by decide
-- an untitled wrapper around a titled sub recipe
example : drawing (st [w (ti i), i]) = drawing (st [ti i, i]) := by decide
example : vis (layout (st [w (ti i), i])) = vis (layout (st [ti i, i])) := by decide
-- the body of a root with several outputs is outlined anyway
example : drawing (two (w (st [i, r]))) = drawing (two (st [i, r])) := by decide
example : vis (layout (two (w (st [i, r])))) = vis (layout (two (st [i, r]))) := by decide
-- an untitled wrapper directly under a step whose only input it is, at the root: not identified with the bare input
example : drawing (st [w i]) ≠ drawing (st [i]) := by decide
example : vis (layout (st [w i])) ≠ vis (layout (st [i])) := by decide

/-! pairs of trees that are *distinguished*: different drawings, different grids -/
-- `titled (outlined d)` against `titled d`: the inner outline shows on the top edge of the body
example : drawing (ti (w i)) = .titled (.outlined (.leaf .ingredient)) := by decide
example : drawing (ti i) = .titled (.leaf .ingredient) := by decide
example : drawing (ti (w i)) ≠ drawing (ti i) := by decide
example : vis (layout (ti (w i))) ≠ vis (layout (ti i)) := by decide
-- an outlined step input shows on its right edge
example : drawing (st [w (st [i, i]), i]) ≠ drawing (st [st [i, i], i]) := by decide
example : vis (layout (st [w (st [i, i]), i])) ≠ vis (layout (st [st [i, i], i])) := by decide
-- the order and the kinds of the inputs show
example : drawing (st [i, r]) ≠ drawing (st [r, i]) := by decide
example : vis (layout (st [i, r])) ≠ vis (layout (st [r, i])) := by decide
-- nesting shows: a step of a step against a step with two inputs
example : drawing (st [st [i], i]) ≠ drawing (st [i, i]) := by decide
-- the outputs column shows
example : drawing (two i) = .multi (.outlined (.leaf .ingredient)) := by decide
example : drawing (two i) ≠ drawing i := by decide

/-! labels: a different description shows (here the label is just the number of parts of the description) -/
private def desc : Tree → Nat
  | .ingredient d _ => d.length
  | .step d _ => d.length
  | _ => 0
private def i' : Tree := .ingredient [.text ['a']] none
example : vis (layout (st [i', i])) = vis (layout (st [i, i'])) := by decide
example : visL desc (st [i', i]) ≠ visL desc (st [i, i']) := by decide
example : labels desc (st [i', i]) = [some 1, some 0, some 0] := by decide
example : labels desc (st [w (w i'), i]) = labels desc (st [w i', i]) := by decide
example : visL desc (st [w (w i'), i]) = visL desc (st [w i', i]) :=
  drawing_determines_tableL desc _ _ (by decide) (by decide) (by decide) (by decide) (by decide) (by decide)

/-! the explicit read-back, run on small tables -/
example : readback (vis (layout exTree)) = some (drawing exTree) := by decide
example : readback (vis (layout exTree2)) =
    some (.multi (.outlined (.step [.leaf .ingredient, .titled (.leaf .ingredient)]))) := by decide
example : readback (vis (layout (st [w (st [i, r]), ti (w i)]))) =
    some (.outlined (.step [.outlined (.step [.leaf .ingredient, .leaf .reference]),
      .titled (.outlined (.leaf .ingredient))])) := by decide
example : readback ((layout exTree).cells.map PCell.vis).reverse = some (drawing exTree) := by decide
example : readback [] = none := by decide
example := readback_layout exTree2 (by decide) (by decide)

/-! the theorems apply (non-vacuity) -/
example : vis (layout (st [w (w (ti i)), r])) = vis (layout (st [ti i, r])) :=
  drawing_determines_table _ _ (by decide) (by decide) (by decide) (by decide) (by decide)
example : drawing (two (w (st [i, r]))) = drawing (two (st [i, r])) :=
  table_determines_drawing _ _ (by decide) (by decide) (by decide) (by decide) (by decide)
example : vis (layout exTree2) ≠ vis (layout exTree) := fun h =>
  absurd (table_determines_drawing exTree2 exTree (by decide) (by decide) (by decide) (by decide) h) (by decide)
example : vis (layout exTree) =
    [⟨0, 0, 1, 1, .ingredient, .subRecipe, .normal, .subRecipe, .normal⟩,
     ⟨0, 1, 3, 1, .step, .normal, .subRecipe, .subRecipe, .subRecipe⟩,
     ⟨1, 0, 1, 1, .header, .subRecipe, .subRecipe, .subRecipe, .normal⟩,
     ⟨2, 0, 1, 1, .ingredient, .subRecipe, .subRecipe, .normal, .subRecipe⟩] := by decide
example : drawing exTree = .outlined (.step [.leaf .ingredient, .titled (.leaf .ingredient)]) := by decide

end RG.C02
