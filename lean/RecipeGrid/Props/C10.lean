import RecipeGrid.Lemmas.Html
/-! C10 — recipe text is inert: escaped text decodes back to the original and contains no markup character (C10.1),
    attribute values are single well-formed quoted strings (C10.2), anchor ids use only id characters (C10.3),
    text parts of a scaled-value string contribute exactly their escaped characters (C10.4).
    Helper lemmas are in `Lemmas/Html.lean`. -/
namespace RG.C10

/-- the decoding side, written independently of the encoder: replace, left to right, each of the character
    references `&amp; &lt; &gt; &quot; &#x27; &#10; &#13; &#9;` by its character; every other character
    (including a stray `&`) stays -/
def unescape : Str → Str
  | '&' :: 'a' :: 'm' :: 'p' :: ';' :: rest => '&' :: unescape rest
  | '&' :: 'l' :: 't' :: ';' :: rest => '<' :: unescape rest
  | '&' :: 'g' :: 't' :: ';' :: rest => '>' :: unescape rest
  | '&' :: 'q' :: 'u' :: 'o' :: 't' :: ';' :: rest => '"' :: unescape rest
  | '&' :: '#' :: 'x' :: '2' :: '7' :: ';' :: rest => '\'' :: unescape rest
  | '&' :: '#' :: '1' :: '0' :: ';' :: rest => '\n' :: unescape rest
  | '&' :: '#' :: '1' :: '3' :: ';' :: rest => '\r' :: unescape rest
  | '&' :: '#' :: '9' :: ';' :: rest => '\t' :: unescape rest
  | c :: rest => c :: unescape rest
  | [] => []

example : unescape "a &amp;&lt;b&gt; &quot;&#x27; &#10;&#13;&#9; & &amp &#11; &amp;lt;".toList
    = "a &<b> \"' \n\r\t & &amp &#11; &lt;".toList := by decide

private theorem unescape_eq (s : Str) : unescape s = decodeRefs s := by
  fun_induction unescape s <;> simp_all [decodeRefs]

/-- C10.1 escaped text decodes back to the original string, character for character -/
theorem unescape_escape (s : Str) : unescape (htmlEscape s) = s := by
  rw [unescape_eq]; exact decodeRefs_htmlEscape s

example : htmlEscape "<b a='1' c=\"2\">&amp;</b>".toList
    = "&lt;b a=&#x27;1&#x27; c=&quot;2&quot;&gt;&amp;amp;&lt;/b&gt;".toList := by decide
example : unescape (htmlEscape "<b a='1' c=\"2\">&amp;</b>".toList) = "<b a='1' c=\"2\">&amp;</b>".toList := by decide

/-- C10.1 escaped text contains no markup-significant character: no `<`, `>`, `"`, `'` -/
theorem escape_no_markup (s : Str) : ∀ c ∈ htmlEscape s, c ≠ '<' ∧ c ≠ '>' ∧ c ≠ '"' ∧ c ≠ '\'' := by
  intro c hc
  obtain ⟨d, _, hd⟩ := List.mem_flatMap.1 hc
  exact escapeChar_no_markup d c hd

/-- C10.1 every `&` of escaped text starts one of the five references -/
theorem escape_amp_starts_reference (s : Str) (pre post : Str) (h : htmlEscape s = pre ++ '&' :: post) :
    ∃ r ∈ ["amp;", "lt;", "gt;", "quot;", "#x27;"], r.toList <+: post :=
  ampOK_htmlEscape s pre post h

example := escape_no_markup "<&>".toList
example := escape_amp_starts_reference "<&>".toList "&lt;".toList "amp;&gt;".toList (by decide)

/-- C10.2 `quoteattr s` is one well-formed quoted attribute value: same quote at both ends, that quote nowhere
    inside, no `<` inside, and the inside decodes back to `s` -/
theorem quoteattr_wellformed (s : Str) :
    ∃ q body, (q = '"' ∨ q = '\'') ∧ quoteattr s = q :: body ++ [q] ∧ q ∉ body ∧ '<' ∉ body ∧ unescape body = s := by
  obtain ⟨q, body, h1, h2, h3, h4, h5⟩ := quoteattr_wf s
  exact ⟨q, body, h1, h2, h3, h4, by rw [unescape_eq]; exact h5⟩

example : quoteattr "a<b".toList = "\"a&lt;b\"".toList := by decide
example : quoteattr "say \"hi\"\n".toList = "'say \"hi\"&#10;'".toList := by decide
example : quoteattr "it's \"x\" & y".toList = "\"it's &quot;x&quot; &amp; y\"".toList := by decide
example : unescape "it's &quot;x&quot; &amp; y".toList = "it's \"x\" & y".toList := by decide

/-- C10.3 every character of an anchor id after the prefix is in [A-Za-z0-9._-], and it neither starts nor ends
    with '-' -/
theorem anchorId_charset (pre : Str) (name : SVS) :
    ∃ tail, anchorId pre name = pre ++ tail ∧ (∀ c ∈ tail, isIdChar c = true) ∧ tail.head? ≠ some '-' ∧
      tail.getLast? ≠ some '-' :=
  ⟨anchorTail name, rfl, anchorTail_idChars name, stripDashes_head? _, stripDashes_getLast? _⟩

example : anchorId "recipe-".toList [.text " <Tomato> sauce!".toList] = "recipe-Tomato--sauce".toList := by decide

/-- C10.4 each text part of a scaled-value string contributes exactly its escaped characters (no wrapper, nothing
    else) -/
theorem renderSvs_text_only (t : Str) : renderSvs [.text t] = htmlEscape t := by
  simp [renderSvs]

/-- and text parts render independently of their neighbours -/
theorem renderSvs_append (a b : SVS) : renderSvs (a ++ b) = renderSvs a ++ renderSvs b := by
  simp [renderSvs]

example : renderSvs [.text "1 < 2".toList] = "1 &lt; 2".toList := by decide

end RG.C10
