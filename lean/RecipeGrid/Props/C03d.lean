import RecipeGrid.Props.C03b
import RecipeGrid.Lemmas.Stable
/-! C03 (continued): the floating-point proviso of `compile_scale_commute` (`InlineTestsStable`, a statement about
    binary64 evaluations before and after scaling) discharged by a condition in exact rational arithmetic on the
    description alone.

    `Quantity.has_equal_value_to(a, b)` is `math.isclose(float(a), float(b * f), rel_tol=1e-9)`, `f` the unit conversion
    factor.  With `ρ = |a − b·f| / max(|a|, |b·f|)` computed in ℚ (`relDiff`):

    1. `ρ ≤ 10⁻⁹·(1 − 2⁻²¹)` ⇒ the test says yes; `ρ ≥ 10⁻⁹·(1 + 2⁻²¹)` ⇒ it says no
       (`hasEqualValueTo_exact_off_edge`; every rounding of the model is accounted for: `float(a)`, `float(b·f)` or
       `float(float(b)·f)` for a float factor, `1e-9` itself, the difference, `rel_tol·|a|`, `rel_tol·|b|`).
       The band cannot be made much thinner than `2⁻²¹`: the roundings of `a` and `b·f` alone move the difference by up to
       `2·2⁻⁵³·max`, which is `2.2·10⁻⁷` *of the tolerance* – the counterexample of C03b sits `2·10⁻⁸` above it.
    2. `OffEdge asts`: no two quantities written in the description have `ρ` inside the band (decidable: `offEdgeB`).
    3. `ρ` is invariant under scaling (`rho_scale`), so `OffEdge` gives `InlineTestsStable k` for every exact `k ≠ 0`.
    4. Hence scaling commutes with compiling for every description that is `OffEdge` (`compile_scale_commute_offEdge`).

    Definitions used from `Lemmas/Stable.lean`: `tolQ = 10⁻⁹`, `edgeEps = 2⁻²¹`, `relDiff`, `Quantity.hevFactor`. -/
namespace RG.C03

-- ================================================================ what is compared
/-- the factor `has_equal_value_to` uses, case by case (`Quantity.hevFactor` is a transcription of the `match`) -/
theorem hevFactor_cases (q iq : Quantity) :
    (q.unit = none → iq.unit = none → q.hevFactor iq = some ⟨1, .int⟩) ∧
    (q.unit = none → iq.unit ≠ none → q.hevFactor iq = none) ∧
    (q.unit ≠ none → iq.unit = none → q.hevFactor iq = none) ∧
    (∀ su ou, q.unit = some su → iq.unit = some ou →
      (∀ f, convertBetween false (lowerStr ou) (lowerStr su) = some f → q.hevFactor iq = some f) ∧
      (convertBetween false (lowerStr ou) (lowerStr su) = none →
        q.hevFactor iq = if lowerStr su == lowerStr ou then some ⟨1, .int⟩ else none)) := by
  unfold Quantity.hevFactor
  refine ⟨?_, ?_, ?_, ?_⟩
  · intro h1 h2; rw [h1, h2]
  · intro h1 h2; rw [h1]; cases h : iq.unit with
    | none => exact absurd h h2
    | some _ => rfl
  · intro h1 h2; rw [h2]; cases h : q.unit with
    | none => exact absurd h h1
    | some _ => rfl
  · intro su ou h1 h2
    rw [h1, h2]
    constructor
    · intro f hf; simp only [hf]
    · intro hn; simp only [hn]

/-- the computation the model makes for exact quantities: **no factor** ⇒ `False`; **exact factor** `f` (int or
    `Fraction`: the product `b·f` is exact and rounded once) ⇒ `isclose(rd(a), rd(b·f), 1e-9)`; **float factor** ⇒
    `isclose(rd(a), rd(rd(b)·f), 1e-9)`; `rd = toDouble`, `1e-9 = relTolDefault = rd(10⁻⁹)` -/
theorem hasEqualValueTo_computation (q iq : Quantity) (hq : q.value.kind ≠ .flt) (hiq : iq.value.kind ≠ .flt) :
    q.hasEqualValueTo iq =
      match q.hevFactor iq with
      | none => false
      | some f =>
        if f.kind = .flt then isclose (toDouble q.value.val) (toDouble (toDouble iq.value.val * f.val)) relTolDefault
        else isclose (toDouble q.value.val) (toDouble (iq.value.val * f.val)) relTolDefault := by
  rw [hasEqualValueTo_eq]
  cases q.hevFactor iq with
  | none => rfl
  | some f =>
    have h1 : q.value.isFlt = false := by simp [Num.isFlt, hq]
    have h2 : iq.value.isFlt = false := by simp [Num.isFlt, hiq]
    simp only [Num.toFlt, h1, Bool.false_eq_true, if_false]
    by_cases hf : f.kind = .flt
    · simp [hf, Num.mul, Num.toFlt, Num.isFlt, hiq]
    · have hm : (iq.value.mul f).kind ≠ .flt := Num.mul_kind_exact hiq hf
      have h3 : (iq.value.mul f).isFlt = false := by simp [Num.isFlt, hm]
      simp only [hf, if_false, h3, Bool.false_eq_true, Num.mul_val_exact hiq hf]

-- ================================================================ 1. off the edge the test is the exact comparison
/-- the two `isclose` evaluations above, off the edge (`a`, `b`, `f` any rationals) -/
theorem isclose_exact_factor_off_edge (a b f : Rat) :
    (relDiff a (b * f) ≤ tolQ * (1 - edgeEps) → isclose (toDouble a) (toDouble (b * f)) relTolDefault = true) ∧
    (tolQ * (1 + edgeEps) ≤ relDiff a (b * f) → isclose (toDouble a) (toDouble (b * f)) relTolDefault = false) := by
  have hx := toDouble_err_mul a
  have hy : 9007199254740992 * (toDouble (b * f) - b * f).abs ≤ 3 * (b * f).abs := by
    have := toDouble_err_mul (b * f)
    have n : 0 ≤ (b * f).abs := Rat.abs_nonneg
    grind
  constructor
  · intro h
    exact isclose_true_of_close hx hy (close_of_relDiff (by decide +kernel) h)
  · intro h
    obtain ⟨h0, h1, h2⟩ := far_of_relDiff (by decide +kernel) h
    exact isclose_false_of_far hx hy h0 h1 h2

theorem isclose_float_factor_off_edge (a b f : Rat) :
    (relDiff a (b * f) ≤ tolQ * (1 - edgeEps) →
      isclose (toDouble a) (toDouble (toDouble b * f)) relTolDefault = true) ∧
    (tolQ * (1 + edgeEps) ≤ relDiff a (b * f) →
      isclose (toDouble a) (toDouble (toDouble b * f)) relTolDefault = false) := by
  have hx := toDouble_err_mul a
  have hy : 9007199254740992 * (toDouble (toDouble b * f) - b * f).abs ≤ 3 * (b * f).abs := by
    have := mul_toFlt_err (b := ⟨b, .frac⟩) (by simp) ⟨f, .flt⟩
    simpa [Num.mul, Num.toFlt, Num.isFlt] using this
  constructor
  · intro h
    exact isclose_true_of_close hx hy (close_of_relDiff (by decide +kernel) h)
  · intro h
    obtain ⟨h0, h1, h2⟩ := far_of_relDiff (by decide +kernel) h
    exact isclose_false_of_far hx hy h0 h1 h2

/-- **C03d.1** for exact quantities `q`, `iq`: not comparable ⇒ `False`; else with the factor `f` the compiler uses
    (exact or float; its rational value is taken as it is) and `ρ = relDiff q (iq·f)` in ℚ:
    `ρ ≤ 10⁻⁹(1 − 2⁻²¹)` ⇒ `True`, `ρ ≥ 10⁻⁹(1 + 2⁻²¹)` ⇒ `False`. -/
theorem hasEqualValueTo_exact_off_edge (q iq : Quantity) (hq : q.value.kind ≠ .flt) (hiq : iq.value.kind ≠ .flt) :
    match q.hevFactor iq with
    | none => q.hasEqualValueTo iq = false
    | some f =>
      (relDiff q.value.val (iq.value.val * f.val) ≤ tolQ * (1 - edgeEps) → q.hasEqualValueTo iq = true) ∧
      (tolQ * (1 + edgeEps) ≤ relDiff q.value.val (iq.value.val * f.val) → q.hasEqualValueTo iq = false) := by
  cases hf : q.hevFactor iq with
  | none => exact hev_none hf
  | some f => exact hev_off_edge hq hiq hf

-- ================================================================ 2. the syntactic condition
/-- the pair is not comparable, or its exact relative difference is outside the band around `10⁻⁹` -/
def PairOffEdge (q iq : Quantity) : Prop :=
  match q.hevFactor iq with
  | none => True
  | some f =>
    relDiff q.value.val (iq.value.val * f.val) ≤ tolQ * (1 - edgeEps) ∨
    tolQ * (1 + edgeEps) ≤ relDiff q.value.val (iq.value.val * f.val)

/-- **C03d.2** every two quantities written in the description (the enumeration of `InlineTestsStable`) are off the
    edge: a condition on the text, in rational arithmetic (the float factors of the unit table enter by their exact
    rational values) -/
def OffEdge (asts : List (List AStmt)) : Prop :=
  ∀ q ∈ astQuantities asts, ∀ iq ∈ astQuantities asts, PairOffEdge q iq

def pairOffEdgeB (q iq : Quantity) : Bool :=
  match q.hevFactor iq with
  | none => true
  | some f =>
    decide (relDiff q.value.val (iq.value.val * f.val) ≤ tolQ * (1 - edgeEps)) ||
    decide (tolQ * (1 + edgeEps) ≤ relDiff q.value.val (iq.value.val * f.val))

/-- the checker -/
def offEdgeB (asts : List (List AStmt)) : Bool :=
  (astQuantities asts).all fun q => (astQuantities asts).all fun iq => pairOffEdgeB q iq

theorem pairOffEdge_iff_B (q iq : Quantity) : PairOffEdge q iq ↔ pairOffEdgeB q iq = true := by
  unfold PairOffEdge pairOffEdgeB
  cases q.hevFactor iq <;> simp

/-- the checker decides the condition -/
theorem offEdge_iff_B (asts : List (List AStmt)) : OffEdge asts ↔ offEdgeB asts = true := by
  simp only [OffEdge, offEdgeB, List.all_eq_true, pairOffEdge_iff_B]

theorem offEdge_of_B {asts : List (List AStmt)} (h : offEdgeB asts = true) : OffEdge asts := (offEdge_iff_B asts).2 h

instance (asts : List (List AStmt)) : Decidable (OffEdge asts) := decidable_of_iff _ (offEdge_iff_B asts).symm

-- ================================================================ 3. the condition is scale-free and implies stability
/-- **`ρ` is invariant** under multiplying both numbers by `k ≠ 0` -/
theorem relDiff_scale (a b : Rat) {k : Rat} (hk : k ≠ 0) : relDiff (a * k) (b * k) = relDiff a b := rho_scale a b hk

/-- the `ρ` of a scaled pair of quantities (same factor: the units do not change) is the `ρ` of the pair -/
theorem relDiff_scale_quantities {k : Num} (hk : k.kind ≠ .flt) (hk0 : k.val ≠ 0) {q iq : Quantity}
    (hq : q.value.kind ≠ .flt) (hiq : iq.value.kind ≠ .flt) (f : Num) :
    relDiff (q.scale k).value.val ((iq.scale k).value.val * f.val) = relDiff q.value.val (iq.value.val * f.val) := by
  have h1 : (q.scale k).value.val = q.value.val * k.val := Num.mul_val_exact hq hk
  have h2 : (iq.scale k).value.val = iq.value.val * k.val := Num.mul_val_exact hiq hk
  have e : iq.value.val * k.val * f.val = iq.value.val * f.val * k.val := by grind
  rw [h1, h2, e, rho_scale _ _ hk0]

theorem pairOffEdge_scale {k : Num} (hk : k.kind ≠ .flt) (hk0 : k.val ≠ 0) {q iq : Quantity}
    (hq : q.value.kind ≠ .flt) (hiq : iq.value.kind ≠ .flt) :
    PairOffEdge (q.scale k) (iq.scale k) ↔ PairOffEdge q iq := by
  unfold PairOffEdge
  rw [hevFactor_scale]
  cases q.hevFactor iq with
  | none => exact Iff.rfl
  | some f => simp only [relDiff_scale_quantities hk hk0 hq hiq f]

/-- one pair: off the edge, the test answers alike at every exact non-zero scale -/
theorem hasEqualValueTo_scale_of_offEdge {k : Num} (hk : k.kind ≠ .flt) (hk0 : k.val ≠ 0) {q iq : Quantity}
    (hq : q.value.kind ≠ .flt) (hiq : iq.value.kind ≠ .flt) (ho : PairOffEdge q iq) :
    (q.scale k).hasEqualValueTo (iq.scale k) = q.hasEqualValueTo iq := by
  have hqk : (q.scale k).value.kind ≠ .flt := Num.mul_kind_exact hq hk
  have hiqk : (iq.scale k).value.kind ≠ .flt := Num.mul_kind_exact hiq hk
  have h1 := hasEqualValueTo_exact_off_edge q iq hq hiq
  have h2 := hasEqualValueTo_exact_off_edge (q.scale k) (iq.scale k) hqk hiqk
  rw [hevFactor_scale] at h2
  unfold PairOffEdge at ho
  cases hf : q.hevFactor iq with
  | none =>
    rw [hf] at h1 h2
    simp only [] at h1 h2
    rw [h1, h2]
  | some f =>
    rw [hf] at h1 h2 ho
    simp only [relDiff_scale_quantities hk hk0 hq hiq f] at h1 h2 ho
    rcases ho with h | h
    · rw [h1.1 h, h2.1 h]
    · rw [h1.2 h, h2.2 h]

/-- **C03d.3** an exact description whose quantities are off the edge has stable in-lining tests, for every exact
    non-zero factor -/
theorem inlineTestsStable_of_offEdge (k : Num) (hk : k.kind ≠ .flt) (hk0 : k.val ≠ 0) (asts : List (List AStmt))
    (h : AstExact asts) (ho : OffEdge asts) : InlineTestsStable k asts := by
  intro q hq iq hiq
  exact hasEqualValueTo_scale_of_offEdge hk hk0 (astQuantities_exact h q hq) (astQuantities_exact h iq hiq)
    (ho q hq iq hiq)

/-- in particular for a positive one -/
theorem inlineTestsStable_of_offEdge_pos (k : Num) (hk : k.kind ≠ .flt) (hk0 : 0 < k.val) (asts : List (List AStmt))
    (h : AstExact asts) (ho : OffEdge asts) : InlineTestsStable k asts :=
  inlineTestsStable_of_offEdge k hk (Rat.ne_of_gt hk0) asts h ho

/-- and `OffEdge` itself does not depend on the scale -/
theorem offEdge_scale {k : Num} (hk : k.kind ≠ .flt) (hk0 : k.val ≠ 0) {qs : List Quantity}
    (hex : ∀ q ∈ qs, q.value.kind ≠ .flt) :
    (∀ q ∈ qs, ∀ iq ∈ qs, PairOffEdge (q.scale k) (iq.scale k)) ↔ (∀ q ∈ qs, ∀ iq ∈ qs, PairOffEdge q iq) := by
  constructor
  · intro h q hq iq hiq
    exact (pairOffEdge_scale hk hk0 (hex q hq) (hex iq hiq)).1 (h q hq iq hiq)
  · intro h q hq iq hiq
    exact (pairOffEdge_scale hk hk0 (hex q hq) (hex iq hiq)).2 (h q hq iq hiq)

-- ================================================================ 4. the commutation theorem without floats in its hypotheses
/-- **C03d.4 scaling commutes with compiling, off the edge.**  `k` exact and non-zero, the scalable numbers of the
    description exact, and no two written quantities with an exact relative difference within `2⁻²¹·10⁻⁹` of `10⁻⁹`:
    compiling the scaled description gives the scaled recipe (same trees, same kinds, same error at the same place). -/
theorem compile_scale_commute_offEdge {k : Num} (hk : k.kind ≠ .flt) (hk0 : k.val ≠ 0) (asts : List (List AStmt))
    (hex : AstExact asts) (ho : OffEdge asts) :
    compileAsts (scaleAst k asts) = mapOk (scaleBlocks k) (compileAsts asts) :=
  compile_scale_commute hk hk0 asts hex (inlineTestsStable_of_offEdge k hk hk0 asts hex ho)

theorem compile_scale_commute_offEdge_pos {k : Num} (hk : k.kind ≠ .flt) (hk0 : 0 < k.val) (asts : List (List AStmt))
    (hex : AstExact asts) (ho : OffEdge asts) :
    compileAsts (scaleAst k asts) = mapOk (scaleBlocks k) (compileAsts asts) :=
  compile_scale_commute_offEdge hk (Rat.ne_of_gt hk0) asts hex ho

/-- with the two executable checks as hypotheses -/
theorem compile_scale_commute_of_checks {k : Num} (hk : k.kind ≠ .flt) (hk0 : k.val ≠ 0) (asts : List (List AStmt))
    (hex : astExactB asts = true) (ho : offEdgeB asts = true) :
    compileAsts (scaleAst k asts) = mapOk (scaleBlocks k) (compileAsts asts) :=
  compile_scale_commute_offEdge hk hk0 asts (astExact_of_B hex) (offEdge_of_B ho)

-- ================================================================ examples
/-- two quantities of the same ingredient in different units: `1 lb` against `454 g` (float factor
    `453.59237…`, `ρ ≈ 9·10⁻⁴`: far outside) -/
def butterText : Str := "1 lb butter\ncream(454 g butter)".toList
def butterAsts : List (List AStmt) := match parseAll 0 [butterText] with | .ok a => a | .error _ => []

example : (astQuantities butterAsts).length = 2 ∧ astExactB butterAsts = true ∧ offEdgeB butterAsts = true := by
  decide +kernel

/-- so it scales, by every exact non-zero factor at once -/
example (k : Num) (hk : k.kind ≠ .flt) (hk0 : k.val ≠ 0) :
    compileAsts (scaleAst k butterAsts) = mapOk (scaleBlocks k) (compileAsts butterAsts) :=
  compile_scale_commute_of_checks hk hk0 butterAsts (by decide +kernel) (by decide +kernel)

/-- the example of `C03b.lean` (`500g flour`, `400g tomatoes`, `250g of sauce`, …: equal, or far apart) -/
example : offEdgeB exAsts = true := by decide +kernel

example (k : Num) (hk : k.kind ≠ .flt) (hk0 : k.val ≠ 0) :
    compileAsts (scaleAst k exAsts) = mapOk (scaleBlocks k) (compileAsts exAsts) :=
  compile_scale_commute_of_checks hk hk0 exAsts (by decide +kernel) (by decide +kernel)

/-- the counterexample of `compile_scale_commute_Full_false` is on the edge (`ρ = 1.00000002·10⁻⁹`), as it must be -/
theorem cex_not_offEdge : ¬ OffEdge cexAsts := by
  rw [offEdge_iff_B]; decide +kernel

end RG.C03
