import RecipeGrid.Model.Templates
/-! C10 for the site templates: "Jinja autoescape for titles, breadcrumbs and hrefs".  The list of printed expressions is regenerated from
    the templates on every run; the first theorem is decided on that list, so a template that starts to print a user string through
    `|safe`, `|striptags` or any other filter, or an environment without auto-escaping, fails the build. -/
namespace RG.C10
open RG

/-- every `{{ … }}` of every HTML template prints either one of the three HTML bodies, marked `safe`, or a value that is auto-escaped and
    not filtered in any way; and auto-escaping is on -/
theorem templates_escape_user_text :
    Gen.templateAutoescape = true ∧ Gen.templateOutputs.all templateOutputOk = true := by decide

/-- the user-controlled values are among the printed ones (the statement above is not vacuous): titles, site name, list labels, hrefs -/
theorem templates_print_titles :
    ("website_base.html", "title", []) ∈ Gen.templateOutputs ∧ ("base.html", "title", []) ∈ Gen.templateOutputs ∧
    ("website_base.html", "label", []) ∈ Gen.templateOutputs ∧ ("categories.html", "recipe", []) ∈ Gen.templateOutputs ∧
    ("categories.html", "category", []) ∈ Gen.templateOutputs ∧ ("website_base.html", "href", []) ∈ Gen.templateOutputs := by decide

/-- decoding of what `markupsafe.escape` writes, independent of the encoder -/
def jinjaUnescape : Str → Str
  | '&' :: 'a' :: 'm' :: 'p' :: ';' :: rest => '&' :: jinjaUnescape rest
  | '&' :: 'l' :: 't' :: ';' :: rest => '<' :: jinjaUnescape rest
  | '&' :: 'g' :: 't' :: ';' :: rest => '>' :: jinjaUnescape rest
  | '&' :: '#' :: '3' :: '4' :: ';' :: rest => '"' :: jinjaUnescape rest
  | '&' :: '#' :: '3' :: '9' :: ';' :: rest => '\'' :: jinjaUnescape rest
  | c :: rest => c :: jinjaUnescape rest
  | [] => []

private theorem jinjaUnescape_other (c : Char) (h : c ≠ '&') (rest : Str) : jinjaUnescape (c :: rest) = c :: jinjaUnescape rest := by
  conv => lhs; unfold jinjaUnescape
  split <;> simp_all

private theorem jinjaUnescape_append_char (c : Char) (rest : Str) :
    jinjaUnescape (jinjaEscapeChar c ++ rest) = c :: jinjaUnescape rest := by
  by_cases h1 : c = '&'
  · subst h1; simp [jinjaEscapeChar, jinjaUnescape]
  by_cases h2 : c = '<'
  · subst h2; simp [jinjaEscapeChar, jinjaUnescape]
  by_cases h3 : c = '>'
  · subst h3; simp [jinjaEscapeChar, jinjaUnescape]
  by_cases h4 : c = '"'
  · subst h4; simp [jinjaEscapeChar, jinjaUnescape]
  by_cases h5 : c = '\''
  · subst h5; simp [jinjaEscapeChar, jinjaUnescape]
  · have : jinjaEscapeChar c = [c] := by
      unfold jinjaEscapeChar; split <;> simp_all
    rw [this]
    exact jinjaUnescape_other c h1 rest

/-- an auto-escaped value decodes back to the author's text, character for character -/
theorem jinjaUnescape_escape (s : Str) : jinjaUnescape (jinjaEscape s) = s := by
  induction s with
  | nil => simp [jinjaEscape, jinjaUnescape]
  | cons c s ih =>
    show jinjaUnescape (jinjaEscapeChar c ++ jinjaEscape s) = c :: s
    rw [jinjaUnescape_append_char, ih]

/-- an auto-escaped value contains no markup-significant character: it cannot open a tag, close an attribute value, or start an
    unintended character reference other than the five written by the encoder -/
theorem jinjaEscape_no_markup (s : Str) : ∀ c ∈ jinjaEscape s, c ≠ '<' ∧ c ≠ '>' ∧ c ≠ '"' ∧ c ≠ '\'' := by
  intro c hc
  obtain ⟨d, _, hd⟩ := List.mem_flatMap.1 hc
  by_cases h1 : d = '&'
  · subst h1; simp [jinjaEscapeChar] at hd; rcases hd with h | h | h | h | h <;> subst h <;> decide
  by_cases h2 : d = '<'
  · subst h2; simp [jinjaEscapeChar] at hd; rcases hd with h | h | h | h <;> subst h <;> decide
  by_cases h3 : d = '>'
  · subst h3; simp [jinjaEscapeChar] at hd; rcases hd with h | h | h | h <;> subst h <;> decide
  by_cases h4 : d = '"'
  · subst h4; simp [jinjaEscapeChar] at hd; rcases hd with h | h | h | h | h <;> subst h <;> decide
  by_cases h5 : d = '\''
  · subst h5; simp [jinjaEscapeChar] at hd; rcases hd with h | h | h | h | h <;> subst h <;> decide
  · have : jinjaEscapeChar d = [d] := by
      unfold jinjaEscapeChar; split <;> simp_all
    rw [this] at hd
    have : c = d := by simpa using hd
    subst this
    exact ⟨h2, h3, h4, h5⟩

example : jinjaEscape "<script>alert('x') & \"y\"</script>".toList
    = "&lt;script&gt;alert(&#39;x&#39;) &amp; &#34;y&#34;&lt;/script&gt;".toList := by decide
example : jinjaUnescape (jinjaEscape "R&amp;D <b>".toList) = "R&amp;D <b>".toList := by decide

end RG.C10
