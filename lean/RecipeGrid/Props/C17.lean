import RecipeGrid.Model.Site
namespace RG.C17
/-- titles are compared as Python compares strings: `strLe` is reflexive, so the stable sort keeps listing order among equal titles -/
theorem strLe_refl (s : Str) : strLe s s = true := by
  induction s with
  | nil => rfl
  | cons c cs ih => simp [strLe, ih]
end RG.C17
