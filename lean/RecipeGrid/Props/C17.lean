import RecipeGrid.Model.Site
import RecipeGrid.Lemmas.Site
/-! C17 — the generated site does not depend on the order in which the file system lists a directory:
    sub-categories are sorted by (title, directory name), recipes by (title, file name), with a total order on
    strings, so any two listings of the same tree (sibling names distinct) give the same pages. -/
namespace RG.C17
/-- titles are compared as Python compares strings: `strLe` is reflexive, so the stable sort keeps listing order among equal titles -/
theorem strLe_refl (s : Str) : strLe s s = true := by
  induction s with
  | nil => rfl
  | cons c cs ih => simp [strLe, ih]

-- ================================================================ `strLe` is a total order (lexicographic by code point)
theorem strLe_total (a b : Str) : strLe a b = true ∨ strLe b a = true := RG.strLe_total a b
theorem strLe_trans (a b c : Str) (h1 : strLe a b = true) (h2 : strLe b c = true) : strLe a c = true :=
  RG.strLe_trans a b c h1 h2
theorem strLe_antisymm (a b : Str) (h1 : strLe a b = true) (h2 : strLe b a = true) : a = b :=
  RG.strLe_antisymm a b h1 h2

example : strLe "Apple".toList "apple".toList = true ∧ strLe "apple".toList "Apple".toList = false := by decide
example : strLe "Zebra".toList "apple".toList = true := by decide   -- code-point order, as Python's `sorted`

-- ================================================================ the sort is determined by the multiset
/-- the model's sort really sorts: the result is ordered and is a permutation of the input -/
theorem insertionSort_sorts {α} (le : α → α → Bool) (l : List α)
    (total : ∀ a ∈ l, ∀ b ∈ l, le a b = true ∨ le b a = true)
    (trans : ∀ a ∈ l, ∀ b ∈ l, ∀ c ∈ l, le a b = true → le b c = true → le a c = true) :
    (insertionSort le l).Pairwise (fun a b => le a b = true) ∧ (insertionSort le l).Perm l :=
  ⟨insertionSort_pairwise le l total trans, insertionSort_perm le l⟩

/-- if `le` is a total order on the elements (antisymmetric: no two distinct elements with equal keys), the sorted
    list depends only on the multiset of elements, not on their order -/
theorem insertionSort_perm_invariant {α} (le : α → α → Bool) (l₁ l₂ : List α)
    (total : ∀ a ∈ l₁, ∀ b ∈ l₁, le a b = true ∨ le b a = true)
    (trans : ∀ a ∈ l₁, ∀ b ∈ l₁, ∀ c ∈ l₁, le a b = true → le b c = true → le a c = true)
    (antisymm : ∀ a ∈ l₁, ∀ b ∈ l₁, le a b = true → le b a = true → a = b)
    (h : l₁.Perm l₂) : insertionSort le l₁ = insertionSort le l₂ :=
  insertionSort_eq_of_perm le l₁ l₂ total trans antisymm h

example : insertionSort (fun a b : Nat => decide (a ≤ b)) [3, 1, 2] = insertionSort (fun a b : Nat => decide (a ≤ b)) [2, 3, 1] := by decide
/-- without antisymmetry the (stable) sort keeps the listing order of ties -/
example : insertionSort (fun a b : Nat × Nat => decide (a.1 ≤ b.1)) [(1, 0), (1, 1)]
    ≠ insertionSort (fun a b : Nat × Nat => decide (a.1 ≤ b.1)) [(1, 1), (1, 0)] := by decide

-- ================================================================ one category page
/-- the category page of a directory (its breadcrumbs, sorted sub-category list and sorted recipe list) and the
    (title, path) it reports to its parent do not change when the directory's entries are listed in another order,
    provided sibling directory names are distinct and sibling file names are distinct -/
theorem category_lists_perm_invariant (M : Nat) (sv : Option Nat) (chain : List (Str × Str)) (dirs : List Str) (isRoot : Bool)
    (n : Str) (r : Option Str) (recipes recipes' : List RecipeFile) (subdirs subdirs' : List Dir)
    (hr : recipes.Perm recipes') (hs : subdirs.Perm subdirs')
    (hnr : (recipes.map (·.file)).Nodup) (hns : (subdirs.map Dir.name).Nodup) :
    (categoryPages M sv chain dirs isRoot (.mk n r recipes subdirs)).1.head?
      = (categoryPages M sv chain dirs isRoot (.mk n r recipes' subdirs')).1.head?
    ∧ (categoryPages M sv chain dirs isRoot (.mk n r recipes subdirs)).2
      = (categoryPages M sv chain dirs isRoot (.mk n r recipes' subdirs')).2 :=
  let h := categoryPages_perm_here M sv chain dirs isRoot n r recipes recipes' subdirs subdirs' hr hs hnr hns
  ⟨h.1, h.2.2⟩

-- ================================================================ the whole site
/-- sibling names are distinct everywhere in the tree (as on a real file system) -/
inductive DistinctNames : Dir → Prop
  | mk {n : Str} {r : Option Str} {recipes : List RecipeFile} {subdirs : List Dir} :
      (subdirs.map Dir.name).Nodup → (recipes.map (·.file)).Nodup → (∀ s ∈ subdirs, DistinctNames s) →
      DistinctNames (.mk n r recipes subdirs)

/-- `Relisted d d'`: `d'` is the same source tree as `d` with the entries of any number of directories
    (at any depth) listed in another order -/
inductive Relisted : Dir → Dir → Prop
  | refl (d : Dir) : Relisted d d
  | here {n : Str} {r : Option Str} {recipes recipes' : List RecipeFile} {subdirs subdirs' : List Dir} :
      recipes.Perm recipes' → subdirs.Perm subdirs' → Relisted (.mk n r recipes subdirs) (.mk n r recipes' subdirs')
  | sub {n : Str} {r : Option Str} {recs : List RecipeFile} {pre post : List Dir} {s s' : Dir} :
      Relisted s s' → Relisted (.mk n r recs (pre ++ s :: post)) (.mk n r recs (pre ++ s' :: post))
  | trans {a b c : Dir} : Relisted a b → Relisted b c → Relisted a c

/-- every hierarchy of pages below a directory is the same multiset of pages (paths, titles, link lists), headed by the
    same category page, whatever the listing order -/
theorem hierarchy_perm_invariant {d d' : Dir} (h : Relisted d d') : DistinctNames d →
    DistinctNames d' ∧ d.name = d'.name ∧ d.readmeTitle = d'.readmeTitle ∧ maxNativeServings d = maxNativeServings d' ∧
    ∀ (M : Nat) (sv : Option Nat) (chain : List (Str × Str)) (dirs : List Str) (isRoot : Bool),
      (categoryPages M sv chain dirs isRoot d).1.head? = (categoryPages M sv chain dirs isRoot d').1.head?
      ∧ (categoryPages M sv chain dirs isRoot d).1.Perm (categoryPages M sv chain dirs isRoot d').1
      ∧ (categoryPages M sv chain dirs isRoot d).2 = (categoryPages M sv chain dirs isRoot d').2 := by
  induction h with
  | refl d => exact fun hd => ⟨hd, rfl, rfl, rfl, fun _ _ _ _ _ => ⟨rfl, List.Perm.refl _, rfl⟩⟩
  | @here n r recipes recipes' subdirs subdirs' hr hs =>
    intro hd
    cases hd with
    | mk hns hnr hsub =>
      refine ⟨DistinctNames.mk ((hs.map _).nodup hns) ((hr.map _).nodup hnr) (fun s hs' => hsub s (hs.mem_iff.mpr hs')),
        rfl, rfl, maxNativeServings_perm_here n r recipes recipes' subdirs subdirs' hr hs, ?_⟩
      intro M sv chain dirs isRoot
      exact categoryPages_perm_here M sv chain dirs isRoot n r recipes recipes' subdirs subdirs' hr hs hnr hns
  | @sub n r recs pre post s s' _ ih =>
    intro hd
    cases hd with
    | mk hns hnr hsub =>
      obtain ⟨hd', hname, hreadme, hmax, hpages⟩ := ih (hsub s (by simp))
      refine ⟨DistinctNames.mk ?_ hnr ?_, rfl, rfl, maxNativeServings_perm_sub n r recs pre post s s' hmax, ?_⟩
      · simpa [hname] using hns
      · intro t ht
        rcases List.mem_append.mp ht with ht | ht
        · exact hsub t (by simp [ht])
        · rcases List.mem_cons.mp ht with rfl | ht
          · exact hd'
          · exact hsub t (by simp [ht])
      · intro M sv chain dirs isRoot
        exact categoryPages_perm_sub M sv n r recs pre post s s' hname hreadme
          (fun chain dirs => (hpages M sv chain dirs false).2.1) chain dirs isRoot
  | trans _ _ ih1 ih2 =>
    intro hd
    obtain ⟨hb, n1, r1, m1, p1⟩ := ih1 hd
    obtain ⟨hc, n2, r2, m2, p2⟩ := ih2 hb
    refine ⟨hc, n1.trans n2, r1.trans r2, m1.trans m2, ?_⟩
    intro M sv chain dirs isRoot
    have a := p1 M sv chain dirs isRoot
    have b := p2 M sv chain dirs isRoot
    exact ⟨a.1.trans b.1, a.2.1.trans b.2.1, a.2.2.trans b.2.2⟩

/-- C17: two listings of the same source tree (sibling names distinct) give the same site: the same error, or the same
    multiset of pages — each with identical path, title and link list — with the home page first -/
theorem site_perm_invariant (root root' : Dir) (rootName : Str) (M : Nat) (h : Relisted root root') (hd : DistinctNames root) :
    (∀ ps, sitePages root rootName M = .ok ps →
      ∃ ps', sitePages root' rootName M = .ok ps' ∧ ps.Perm ps' ∧ ps.head? = ps'.head?) ∧
    (∀ e, sitePages root rootName M = .error e → sitePages root' rootName M = .error e) := by
  obtain ⟨_, hname, hreadme, hmax, hpages⟩ := hierarchy_perm_invariant h hd
  have htitle : root.title (some rootName) = root'.title (some rootName) := by
    unfold Dir.title
    rw [hreadme, hname]
  have hhome : homePage root rootName M = homePage root' rootName M := by
    unfold homePage; rw [htitle]
  have hchain : homeChain root rootName = homeChain root' rootName := by
    unfold homeChain; rw [htitle]
  constructor
  · intro ps hps
    obtain ⟨hle, rfl⟩ := (sitePages_ok ..).mp hps
    refine ⟨_, (sitePages_ok ..).mpr ⟨hmax ▸ hle, rfl⟩, ?_, ?_⟩
    · rw [hhome, hchain]
      apply List.Perm.cons
      apply List.Perm.append
      · exact flatMap_perm_pointwise _ _ _ (fun m _ => (hpages M (some (m + 1)) _ [] true).2.1)
      · exact (hpages M none _ [] true).2.1
    · rw [hhome]; rfl
  · intro e he
    unfold sitePages at he ⊢
    rw [← hmax]
    split
    · rename_i hgt
      simp only [hgt, if_true] at he
      exact he
    · rename_i hgt
      simp only [hgt, if_false] at he
      cases he

-- ================================================================ the structural reading of "re-listed"
mutual
/-- structural reading: same name and README, recipes permuted, sub-directories re-listed recursively and permuted -/
inductive SameTree : Dir → Dir → Prop
  | mk {n : Str} {r : Option Str} {recipes recipes' : List RecipeFile} {subdirs mid subdirs' : List Dir} :
      recipes.Perm recipes' → SameForest subdirs mid → mid.Perm subdirs' →
      SameTree (.mk n r recipes subdirs) (.mk n r recipes' subdirs')
inductive SameForest : List Dir → List Dir → Prop
  | nil : SameForest [] []
  | cons {d d' : Dir} {ds ds' : List Dir} : SameTree d d' → SameForest ds ds' → SameForest (d :: ds) (d' :: ds')
end

mutual
theorem SameTree.relisted : ∀ {d d' : Dir}, SameTree d d' → Relisted d d'
  | _, _, @SameTree.mk n r recipes recipes' subdirs mid subdirs' hr hf hp =>
    Relisted.trans (by simpa using SameForest.relisted n r recipes [] hf) (Relisted.here hr hp)
theorem SameForest.relisted (n : Str) (r : Option Str) (recs : List RecipeFile) :
    ∀ (pre : List Dir) {ds ds' : List Dir}, SameForest ds ds' → Relisted (.mk n r recs (pre ++ ds)) (.mk n r recs (pre ++ ds'))
  | pre, _, _, .nil => Relisted.refl _
  | pre, _, _, @SameForest.cons d d' ds ds' hd hds =>
    Relisted.trans (Relisted.sub (SameTree.relisted hd))
      (by simpa using SameForest.relisted n r recs (pre ++ [d']) hds)
end

/-- C17 with the structural relation: permute the entries of every directory of the tree, all at once -/
theorem site_perm_invariant_structural (root root' : Dir) (rootName : Str) (M : Nat) (h : SameTree root root') (hd : DistinctNames root) :
    (∀ ps, sitePages root rootName M = .ok ps →
      ∃ ps', sitePages root' rootName M = .ok ps' ∧ ps.Perm ps' ∧ ps.head? = ps'.head?) ∧
    (∀ e, sitePages root rootName M = .error e → sitePages root' rootName M = .error e) :=
  site_perm_invariant root root' rootName M h.relisted hd

-- ================================================================ non-vacuity
def soup : RecipeFile := ⟨"soup.md".toList, "Soup".toList, some 2⟩
def stew : RecipeFile := ⟨"stew.md".toList, "Stew".toList, none⟩
def cakes : Dir := .mk "Cakes".toList none [⟨"tiffin.md".toList, "Tiffin".toList, none⟩] []
def breads : Dir := .mk "breads".toList (some "Breads".toList) [] []
def treeA : Dir := .mk "book".toList none [soup, stew] [cakes, breads]
def treeB : Dir := .mk "book".toList none [stew, soup] [breads, cakes]

example : Relisted treeA treeB := Relisted.here (List.Perm.swap _ _ _) (List.Perm.swap _ _ _)
example : SameTree treeA treeB :=
  SameTree.mk (List.Perm.swap _ _ _)
    (SameForest.cons (SameTree.mk (List.Perm.refl _) SameForest.nil (List.Perm.refl _))
      (SameForest.cons (SameTree.mk (List.Perm.refl _) SameForest.nil (List.Perm.refl _)) SameForest.nil))
    (List.Perm.swap _ _ _)
example : DistinctNames treeA :=
  DistinctNames.mk (by decide) (by decide) (by
    intro s hs
    simp only [List.mem_cons, List.not_mem_nil, or_false] at hs
    rcases hs with rfl | rfl
    · exact DistinctNames.mk (by decide) (by decide) (by simp)
    · exact DistinctNames.mk (by decide) (by decide) (by simp))
/-- the page *order* may differ (sub-hierarchies are emitted in listing order); the multiset of pages does not,
    and the home page and root category page (sorted lists) are identical -/
example : ((sitePages treeA "book".toList 2).toOption.map fun ps => ps.map (·.links))
    ≠ ((sitePages treeB "book".toList 2).toOption.map fun ps => ps.map (·.links)) := by decide
example : ((sitePages treeA "book".toList 2).toOption.map fun ps => (ps.map (·.links)).take 2)
    = ((sitePages treeB "book".toList 2).toOption.map fun ps => (ps.map (·.links)).take 2) := by decide
end RG.C17
