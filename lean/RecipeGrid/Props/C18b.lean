import RecipeGrid.Lemmas.Heading
import RecipeGrid.Props.C18
/-! C18b — a complete ("iff") characterisation of how the title and the serving count are read from the first heading.

    `render_heading` applies `title_serving_count_pattern.search` to the heading text.  The declarative
    counterpart is `ServingSplit`: the text is `pre ++ ws₁ ++ phrase ++ ws₂ ++ digits ++ ws₃`; among all such
    splits the search finds the one whose `pre` is shortest (`Leftmost`).  `IsServingHeading` packages this with
    the title (`html.unescape((pre + ws₁).strip())`, which is `html.unescape(pre.strip())`) and the count.

    Main results
    * `searchServings_eq_some_iff`, `searchServings_eq_none_iff` — the search, declaratively;
    * `headingInfo_spec` / `headingInfo_spec_full` / `readHeading_spec` — result `(title, some n)` iff `IsServingHeading`;
    * `headingInfo_none_iff` / `headingInfo_unscalable_iff` / `readHeading_none_iff` — no count iff no split at all;
    * `servingHeading_unique`, `leftmost_split_unique`, `splits_agree` — functionality; all splits share the count;
    * `leftmost_iff_explicit` (`…_to`) — WHICH split: maximal space run, and a preceding "to" belongs to the phrase;
    * `servingHeading_append_ws`, `servingHeading_prepend_ws`, `heading_ws_invariant` — surrounding whitespace
      (leading whitespace matters in exactly one case: a bare "for 2" / "to serve 2", see `IsBareServing`);
    * `heading_case_invariant`, `readHeading_servings_caseRel` — the letter case of the phrase is irrelevant;
    * `no_servings_of_last_token`, `no_servings_of_word_before_count`, `phrase_needs_preceding_space`,
      `no_servings_single_token` — negative facts ("Stew for two", "Plum Preserves 2", "Serves 2"). -/
namespace RG.C18

/-- a candidate split of a heading text: `pre`, a non-empty `\s` run, an accepted phrase in any letter case (its
    words separated by non-empty `\s` runs), a non-empty `\s` run, a non-empty run of `[0-9]`, a `\s` run, end -/
structure ServingSplit (text pre ws₁ phrase ws₂ digits ws₃ : Str) : Prop where
  text_eq : text = pre ++ ws₁ ++ phrase ++ ws₂ ++ digits ++ ws₃
  ws₁_run : SpaceRun ws₁
  phrase_ok : ∃ p ∈ Gen.servingPhrases, PhraseText p phrase
  ws₂_run : SpaceRun ws₂
  digits_ne : digits ≠ []
  digits_ok : ∀ c ∈ digits, isDigit c = true
  ws₃_run : WsRun ws₃

/-- no split of `text` has a shorter `pre`: the regex search reports the left-most start -/
def Leftmost (text pre : Str) : Prop :=
  ∀ pre' ws₁' phrase' ws₂' digits' ws₃', ServingSplit text pre' ws₁' phrase' ws₂' digits' ws₃' → pre.length ≤ pre'.length

/-- some split exists -/
def HasServingSplit (text : Str) : Prop :=
  ∃ pre ws₁ phrase ws₂ digits ws₃, ServingSplit text pre ws₁ phrase ws₂ digits ws₃

/-- the specification with all four outputs of `render_heading` -/
def IsServingHeadingFull (text title : Str) (n : Nat) (titleHtml prep : Str) : Prop :=
  ∃ pre ws₁ phrase ws₂ digits ws₃, ServingSplit text pre ws₁ phrase ws₂ digits ws₃ ∧ Leftmost text pre ∧
    title = unescapeEntities (stripStr pre) ∧ n = natOfDigitChars digits ∧ titleHtml = pre ++ ws₁ ∧ prep = phrase ++ ws₂

/-- the specification: `text` is a title followed by a serving count -/
def IsServingHeading (text title : Str) (n : Nat) : Prop :=
  ∃ pre ws₁ phrase ws₂ digits ws₃, ServingSplit text pre ws₁ phrase ws₂ digits ws₃ ∧ Leftmost text pre ∧
    title = unescapeEntities (stripStr pre) ∧ n = natOfDigitChars digits

theorem isServingHeading_iff_full (text title : Str) (n : Nat) :
    IsServingHeading text title n ↔ ∃ titleHtml prep, IsServingHeadingFull text title n titleHtml prep := by
  constructor
  · rintro ⟨pre, ws₁, phrase, ws₂, digits, ws₃, h, hl, ht, hn⟩
    exact ⟨_, _, pre, ws₁, phrase, ws₂, digits, ws₃, h, hl, ht, hn, rfl, rfl⟩
  · rintro ⟨_, _, pre, ws₁, phrase, ws₂, digits, ws₃, h, hl, ht, hn, _, _⟩
    exact ⟨pre, ws₁, phrase, ws₂, digits, ws₃, h, hl, ht, hn⟩

/-! ## splits and the matcher -/

theorem ServingSplit.match_at {text pre ws₁ phrase ws₂ digits ws₃ : Str}
    (h : ServingSplit text pre ws₁ phrase ws₂ digits ws₃) :
    matchServingsAt (text.drop pre.length) = some (ws₁, phrase ++ ws₂, digits) := by
  obtain ⟨p, hp, hph⟩ := h.phrase_ok
  have : text.drop pre.length = ws₁ ++ (phrase ++ ws₂) ++ digits ++ ws₃ := by
    rw [h.text_eq]; simp [List.append_assoc]
  rw [this]
  exact matchServingsAt_complete ⟨p, hp, phrase, ws₂, ws₃, rfl, rfl, h.ws₁_run, hph, h.ws₂_run, h.digits_ne, h.digits_ok, h.ws₃_run⟩

theorem split_of_match_at {text : Str} {k : Nat} {sp prep ds : Str}
    (h : matchServingsAt (text.drop k) = some (sp, prep, ds)) :
    ∃ phrase ws₂ ws₃, prep = phrase ++ ws₂ ∧ ServingSplit text (text.take k) sp phrase ws₂ ds ws₃ ∧ (text.take k).length = k := by
  obtain ⟨p, hp, ph, sp2, tail, hs, rfl, hsp, hph, hsp2, hne, hdig, htail⟩ := (matchServingsAt_sound h).ex
  refine ⟨ph, sp2, tail, rfl, ⟨?_, hsp, ⟨p, hp, hph⟩, hsp2, hne, hdig, htail⟩, ?_⟩
  · have : text = text.take k ++ text.drop k := (List.take_append_drop k text).symm
    rw [hs] at this
    simpa [List.append_assoc] using this
  · rw [List.length_take]
    have : text.drop k ≠ [] := by
      intro e; rw [e, matchServingsAt_nil] at h; cases h
    have : k < text.length := by
      rcases Nat.lt_or_ge k text.length with h1 | h1
      · exact h1
      · exact absurd (List.drop_eq_nil_of_le h1) this
    omega

/-- the search result, declaratively: THE left-most split -/
theorem searchServings_eq_some_iff (text before space prep ds : Str) :
    searchServings text = some (before, space, prep, ds) ↔
      ∃ phrase ws₂ ws₃, prep = phrase ++ ws₂ ∧ ServingSplit text before space phrase ws₂ ds ws₃ ∧ Leftmost text before := by
  constructor
  · intro h
    obtain ⟨hb, hm, hlt⟩ := searchServings_leftmost _ _ _ _ _ h
    obtain ⟨phrase, ws₂, ws₃, hprep, hsplit, _⟩ := split_of_match_at hm
    rw [← hb] at hsplit
    refine ⟨phrase, ws₂, ws₃, hprep, hsplit, ?_⟩
    intro pre' ws₁' phrase' ws₂' digits' ws₃' h'
    rcases Nat.lt_or_ge pre'.length before.length with hk | hk
    · have := (hlt _ hk).1
      rw [h'.match_at] at this; cases this
    · exact hk
  · rintro ⟨phrase, ws₂, ws₃, rfl, hsplit, hleft⟩
    obtain ⟨p, hp, hph⟩ := hsplit.phrase_ok
    rw [hsplit.text_eq]
    apply searchServings_complete before space phrase ws₂ ds ws₃ p hp hsplit.ws₁_run hph hsplit.ws₂_run
      hsplit.digits_ne hsplit.digits_ok hsplit.ws₃_run
    intro k hk
    rw [← hsplit.text_eq]
    cases hm : matchServingsAt (text.drop k) with
    | none => rfl
    | some r =>
      obtain ⟨sp', prep', ds'⟩ := r
      obtain ⟨phrase', ws₂', ws₃', _, hsplit', hlen⟩ := split_of_match_at hm
      have := hleft _ _ _ _ _ _ hsplit'
      omega

theorem searchServings_eq_none_iff (text : Str) : searchServings text = none ↔ ¬ HasServingSplit text := by
  rw [searchServings_none_iff]
  constructor
  · rintro h ⟨pre, ws₁, phrase, ws₂, digits, ws₃, hs⟩
    have := h pre.length
    rw [hs.match_at] at this; cases this
  · intro h k
    cases hm : matchServingsAt (text.drop k) with
    | none => rfl
    | some r =>
      obtain ⟨sp', prep', ds'⟩ := r
      obtain ⟨phrase', ws₂', ws₃', _, hsplit', _⟩ := split_of_match_at hm
      exact absurd ⟨_, _, _, _, _, _, hsplit'⟩ h

/-- a text with a split has a left-most one -/
theorem HasServingSplit.exists_leftmost {text : Str} (h : HasServingSplit text) :
    ∃ pre ws₁ phrase ws₂ digits ws₃, ServingSplit text pre ws₁ phrase ws₂ digits ws₃ ∧ Leftmost text pre := by
  cases hs : searchServings text with
  | none => exact absurd h ((searchServings_eq_none_iff text).mp hs)
  | some r =>
    obtain ⟨b, sp, prep, ds⟩ := r
    obtain ⟨phrase, ws₂, ws₃, _, hsplit, hleft⟩ := (searchServings_eq_some_iff _ _ _ _ _).mp hs
    exact ⟨_, _, _, _, _, _, hsplit, hleft⟩

theorem hasServingSplit_iff (text : Str) : HasServingSplit text ↔ ∃ title n, IsServingHeading text title n := by
  constructor
  · intro h
    obtain ⟨pre, ws₁, phrase, ws₂, digits, ws₃, hs, hl⟩ := h.exists_leftmost
    exact ⟨_, _, pre, ws₁, phrase, ws₂, digits, ws₃, hs, hl, rfl, rfl⟩
  · rintro ⟨_, _, pre, ws₁, phrase, ws₂, digits, ws₃, hs, _⟩
    exact ⟨pre, ws₁, phrase, ws₂, digits, ws₃, hs⟩

/-! ## the specification of `searchServings`, `readHeading` and `headingInfo` -/

theorem ServingSplit.strip_pre {text pre ws₁ phrase ws₂ digits ws₃ : Str}
    (h : ServingSplit text pre ws₁ phrase ws₂ digits ws₃) : stripStr (pre ++ ws₁) = stripStr pre :=
  stripStr_append_ws pre ws₁ h.ws₁_run.wsRun

theorem isServingHeadingFull_iff_search (text title : Str) (n : Nat) (titleHtml prep : Str) :
    IsServingHeadingFull text title n titleHtml prep ↔
      ∃ before space ds, searchServings text = some (before, space, prep, ds) ∧
        title = unescapeEntities (stripStr (before ++ space)) ∧ n = natOfDigitChars ds ∧ titleHtml = before ++ space := by
  constructor
  · rintro ⟨pre, ws₁, phrase, ws₂, digits, ws₃, hs, hl, ht, hn, hh, hp⟩
    refine ⟨pre, ws₁, digits, ?_, ?_, hn, hh⟩
    · exact (searchServings_eq_some_iff _ _ _ _ _).mpr ⟨phrase, ws₂, ws₃, hp, hs, hl⟩
    · rw [hs.strip_pre]; exact ht
  · rintro ⟨before, space, ds, hsearch, ht, hn, hh⟩
    obtain ⟨phrase, ws₂, ws₃, hp, hs, hl⟩ := (searchServings_eq_some_iff _ _ _ _ _).mp hsearch
    exact ⟨before, space, phrase, ws₂, ds, ws₃, hs, hl, by rw [← hs.strip_pre]; exact ht, hn, hh, hp⟩

theorem isServingHeading_iff_search (text title : Str) (n : Nat) :
    IsServingHeading text title n ↔
      ∃ before space prep ds, searchServings text = some (before, space, prep, ds) ∧
        title = unescapeEntities (stripStr (before ++ space)) ∧ n = natOfDigitChars ds := by
  rw [isServingHeading_iff_full]
  constructor
  · rintro ⟨html, prep, h⟩
    obtain ⟨b, sp, ds, h1, h2, h3, _⟩ := (isServingHeadingFull_iff_search _ _ _ _ _).mp h
    exact ⟨b, sp, prep, ds, h1, h2, h3⟩
  · rintro ⟨b, sp, prep, ds, h1, h2, h3⟩
    exact ⟨b ++ sp, prep, (isServingHeadingFull_iff_search _ _ _ _ _).mpr ⟨b, sp, ds, h1, h2, h3, rfl⟩⟩

/-- the (title, serving count) that `render_heading` records for a first level-1 heading without markup or
    placeholders -/
def readHeading (t : Str) : Str × Option Nat :=
  match searchServings t with
  | none => (unescapeEntities (stripStr t), none)
  | some (before, space, _, ds) => (unescapeEntities (stripStr (before ++ space)), some (natOfDigitChars ds))

def titleOf : TitleInfo → Option Str
  | .none => none
  | .unscalable t => some t
  | .scalable t _ _ _ => some t
def servingsOf : TitleInfo → Option Nat
  | .scalable _ n _ _ => some n
  | _ => none

/-- a heading text without markup that contains none of the placeholders issued so far -/
def Plain (t : Str) (phs : List Str) : Prop := '<' ∉ t ∧ ∀ q ∈ phs, isInfixOfStr q t = false

theorem headingInfo_plain {t : Str} {phs : List Str} (h : Plain t phs) :
    headingInfo true 1 t phs =
      match searchServings t with
      | none => .unscalable (unescapeEntities (stripStr t))
      | some (before, space, prep, ds) =>
        .scalable (unescapeEntities (stripStr (before ++ space))) (natOfDigitChars ds) (before ++ space) prep := by
  have hany : phs.any (isInfixOfStr · t) = false := by simpa using h.2
  cases hs : searchServings t with
  | none => simp [headingInfo, h.1, hany, hs]
  | some r => obtain ⟨b, sp, prep, ds⟩ := r; simp [headingInfo, h.1, hany, hs]

theorem headingInfo_readHeading {t : Str} {phs : List Str} (h : Plain t phs) :
    (titleOf (headingInfo true 1 t phs), servingsOf (headingInfo true 1 t phs)) = (some (readHeading t).1, (readHeading t).2) := by
  rw [headingInfo_plain h, readHeading]
  cases searchServings t with
  | none => rfl
  | some r => obtain ⟨b, sp, prep, ds⟩ := r; rfl

/-- **C18b, main theorem (all outputs).**  A plain first level-1 heading is recorded as scalable, with this title,
    count, title HTML and preposition, exactly when the text has that left-most serving split. -/
theorem headingInfo_spec_full {t : Str} {phs : List Str} (h : Plain t phs) (title : Str) (n : Nat) (titleHtml prep : Str) :
    headingInfo true 1 t phs = .scalable title n titleHtml prep ↔ IsServingHeadingFull t title n titleHtml prep := by
  rw [headingInfo_plain h, isServingHeadingFull_iff_search]
  cases hs : searchServings t with
  | none => simp
  | some r =>
    obtain ⟨b, sp, pr, ds⟩ := r
    simp only [TitleInfo.scalable.injEq, Option.some.injEq, Prod.mk.injEq]
    constructor
    · rintro ⟨h1, h2, h3, h4⟩
      exact ⟨b, sp, ds, ⟨rfl, rfl, h4, rfl⟩, h1.symm, h2.symm, h3.symm⟩
    · rintro ⟨b', sp', ds', ⟨rfl, rfl, rfl, rfl⟩, h1, h2, h3⟩
      exact ⟨h1.symm, h2.symm, h3.symm, rfl⟩

/-- **C18b, main theorem.**  `headingInfo t = (title, some n)` iff `IsServingHeading t title n`. -/
theorem headingInfo_spec {t : Str} {phs : List Str} (h : Plain t phs) (title : Str) (n : Nat) :
    (∃ titleHtml prep, headingInfo true 1 t phs = .scalable title n titleHtml prep) ↔ IsServingHeading t title n := by
  rw [isServingHeading_iff_full]
  constructor
  · rintro ⟨a, b, hab⟩; exact ⟨a, b, (headingInfo_spec_full h _ _ _ _).mp hab⟩
  · rintro ⟨a, b, hab⟩; exact ⟨a, b, (headingInfo_spec_full h _ _ _ _).mpr hab⟩

theorem readHeading_spec (t title : Str) (n : Nat) : readHeading t = (title, some n) ↔ IsServingHeading t title n := by
  rw [isServingHeading_iff_search, readHeading]
  cases hs : searchServings t with
  | none => simp
  | some r =>
    obtain ⟨b, sp, pr, ds⟩ := r
    simp only [Prod.mk.injEq, Option.some.injEq]
    constructor
    · rintro ⟨h1, h2⟩
      exact ⟨b, sp, pr, ds, ⟨rfl, rfl, rfl, rfl⟩, h1.symm, h2.symm⟩
    · rintro ⟨b', sp', pr', ds', ⟨rfl, rfl, rfl, rfl⟩, h1, h2⟩
      exact ⟨h1.symm, h2.symm⟩

/-- no serving count is read exactly when the text has no serving split at all; the title is then the stripped text -/
theorem readHeading_none_iff (t : Str) : readHeading t = (unescapeEntities (stripStr t), none) ↔ ¬ HasServingSplit t := by
  rw [← searchServings_eq_none_iff, readHeading]
  cases hs : searchServings t with
  | none => simp
  | some r => obtain ⟨b, sp, pr, ds⟩ := r; simp

theorem readHeading_snd_none_iff (t : Str) : (readHeading t).2 = none ↔ ¬ HasServingSplit t := by
  rw [← searchServings_eq_none_iff, readHeading]
  cases hs : searchServings t with
  | none => simp
  | some r => obtain ⟨b, sp, pr, ds⟩ := r; simp

/-- **C18b.**  `headingInfo t = (strip t, none)` iff there is no serving split (equivalently: no `title`, `n` with
    `IsServingHeading t title n`). -/
theorem headingInfo_none_iff {t : Str} {phs : List Str} (h : Plain t phs) :
    headingInfo true 1 t phs = .unscalable (unescapeEntities (stripStr t)) ↔ ¬ ∃ title n, IsServingHeading t title n := by
  rw [← hasServingSplit_iff, ← searchServings_eq_none_iff, headingInfo_plain h]
  cases hs : searchServings t with
  | none => simp
  | some r => obtain ⟨b, sp, pr, ds⟩ := r; simp

/-- … and those are the only two outcomes for a plain heading -/
theorem headingInfo_unscalable_iff {t : Str} {phs : List Str} (h : Plain t phs) (x : Str) :
    headingInfo true 1 t phs = .unscalable x ↔ (¬ HasServingSplit t ∧ x = unescapeEntities (stripStr t)) := by
  rw [← searchServings_eq_none_iff, headingInfo_plain h]
  cases hs : searchServings t with
  | none => simp [eq_comm]
  | some r => obtain ⟨b, sp, pr, ds⟩ := r; simp

/-! ## uniqueness -/

/-- the specification is functional: a heading determines its title and count -/
theorem servingHeading_unique {t title title' : Str} {n n' : Nat}
    (h : IsServingHeading t title n) (h' : IsServingHeading t title' n') : title = title' ∧ n = n' := by
  have e := (readHeading_spec t title n).mpr h
  rw [(readHeading_spec t title' n').mpr h'] at e
  simp only [Prod.mk.injEq, Option.some.injEq] at e
  exact ⟨e.1.symm, e.2.symm⟩

theorem servingHeadingFull_unique {t title title' html html' prep prep' : Str} {n n' : Nat}
    (h : IsServingHeadingFull t title n html prep) (h' : IsServingHeadingFull t title' n' html' prep') :
    title = title' ∧ n = n' ∧ html = html' ∧ prep = prep' := by
  obtain ⟨b, sp, ds, h1, h2, h3, h4⟩ := (isServingHeadingFull_iff_search _ _ _ _ _).mp h
  obtain ⟨b', sp', ds', h1', h2', h3', h4'⟩ := (isServingHeadingFull_iff_search _ _ _ _ _).mp h'
  rw [h1] at h1'
  simp only [Option.some.injEq, Prod.mk.injEq] at h1'
  obtain ⟨rfl, rfl, rfl, rfl⟩ := h1'
  exact ⟨h2.trans h2'.symm, h3.trans h3'.symm, h4.trans h4'.symm, rfl⟩

/-- even the left-most split itself is unique, component by component -/
theorem leftmost_split_unique {t pre ws₁ phrase ws₂ digits ws₃ pre' ws₁' phrase' ws₂' digits' ws₃' : Str}
    (h : ServingSplit t pre ws₁ phrase ws₂ digits ws₃) (hl : Leftmost t pre)
    (h' : ServingSplit t pre' ws₁' phrase' ws₂' digits' ws₃') (hl' : Leftmost t pre') :
    pre = pre' ∧ ws₁ = ws₁' ∧ phrase = phrase' ∧ ws₂ = ws₂' ∧ digits = digits' ∧ ws₃ = ws₃' := by
  have e := (searchServings_eq_some_iff _ _ _ _ _).mpr ⟨phrase, ws₂, ws₃, rfl, h, hl⟩
  rw [(searchServings_eq_some_iff _ _ _ _ _).mpr ⟨phrase', ws₂', ws₃', rfl, h', hl'⟩] at e
  simp only [Option.some.injEq, Prod.mk.injEq] at e
  obtain ⟨rfl, rfl, e3, rfl⟩ := e
  obtain ⟨p, hp, hph⟩ := h.phrase_ok
  obtain ⟨p', hp', hph'⟩ := h'.phrase_ok
  obtain ⟨w, hw, y, wd, rfl, hwd, hy⟩ := PhraseText_last hph
  obtain ⟨w', hw', y', wd', rfl, hwd', hy'⟩ := PhraseText_last hph'
  have hwf := ((servingPhrases_wf p hp).2 w (List.mem_of_getLast? hw))
  have hwf' := ((servingPhrases_wf p' hp').2 w' (List.mem_of_getLast? hw'))
  obtain ⟨rfl, rfl, rfl⟩ := last_token_unique e3.symm hy hy' (CiWord_noWs hwf.2 hwd) (CiWord_noWs hwf'.2 hwd')
    (CiWord_ne_nil hwf.1 hwd) (CiWord_ne_nil hwf'.1 hwd') h.ws₂_run.wsRun h'.ws₂_run.wsRun
  have ht := h.text_eq
  rw [h'.text_eq] at ht
  refine ⟨rfl, rfl, rfl, rfl, rfl, ?_⟩
  simpa using ht.symm


/-! ## stability under surrounding whitespace -/

/-- some split starts (its `ws₁`) at offset `k` -/
def SplitStart (t : Str) (k : Nat) : Prop :=
  ∃ pre ws₁ phrase ws₂ digits ws₃, ServingSplit t pre ws₁ phrase ws₂ digits ws₃ ∧ pre.length = k

theorem leftmost_iff_splitStart (t pre : Str) : Leftmost t pre ↔ ∀ k, SplitStart t k → pre.length ≤ k := by
  constructor
  · rintro h k ⟨pre', _, _, _, _, _, hs, rfl⟩; exact h _ _ _ _ _ _ hs
  · intro h pre' _ _ _ _ _ hs; exact h _ ⟨pre', _, _, _, _, _, hs, rfl⟩

theorem ServingSplit.append_ws {t pre ws₁ phrase ws₂ digits ws₃ : Str} (h : ServingSplit t pre ws₁ phrase ws₂ digits ws₃)
    {w : Str} (hw : WsRun w) : ServingSplit (t ++ w) pre ws₁ phrase ws₂ digits (ws₃ ++ w) :=
  ⟨by rw [h.text_eq]; simp, h.ws₁_run, h.phrase_ok, h.ws₂_run, h.digits_ne, h.digits_ok, h.ws₃_run.append hw⟩

theorem ServingSplit.of_append_ws {t w pre ws₁ phrase ws₂ digits ws₃ : Str}
    (h : ServingSplit (t ++ w) pre ws₁ phrase ws₂ digits ws₃) (hw : WsRun w) :
    ∃ ws₃', ws₃ = ws₃' ++ w ∧ ServingSplit t pre ws₁ phrase ws₂ digits ws₃' := by
  have hsplit : ∀ ws₃', ws₃ = ws₃' ++ w → t = pre ++ ws₁ ++ phrase ++ ws₂ ++ digits ++ ws₃' →
      ∃ ws₃', ws₃ = ws₃' ++ w ∧ ServingSplit t pre ws₁ phrase ws₂ digits ws₃' := by
    intro ws₃' e1 e2
    exact ⟨ws₃', e1, e2, h.ws₁_run, h.phrase_ok, h.ws₂_run, h.digits_ne, h.digits_ok,
      fun c hc => h.ws₃_run c (by rw [e1]; simp [hc])⟩
  rcases List.append_eq_append_iff.mp h.text_eq with ⟨a, e1, e2⟩ | ⟨c, e1, e2⟩
  · -- `pre ++ … ++ digits = t ++ a` and `w = a ++ ws₃`
    cases a with
    | nil => exact hsplit [] (by simpa using e2.symm) (by simpa using e1.symm)
    | cons x a =>
      exfalso
      have hl := congrArg List.getLast? e1
      rw [getLast?_append_ne _ h.digits_ne, getLast?_append_ne _ (by simp : x :: a ≠ [])] at hl
      obtain ⟨d, hd⟩ := Option.isSome_iff_exists.mp (List.getLast?_isSome.mpr h.digits_ne)
      rw [hd] at hl
      have h1 := isDigit_not_space (h.digits_ok d (List.mem_of_getLast? hd))
      have h2 := hw d (by rw [e2]; exact List.mem_append_left _ (List.mem_of_getLast? hl.symm))
      rw [h1] at h2; cases h2
  · exact hsplit c e2 e1

theorem splitStart_append_ws (t : Str) {w : Str} (hw : WsRun w) (k : Nat) : SplitStart (t ++ w) k ↔ SplitStart t k := by
  constructor
  · rintro ⟨pre, ws₁, phrase, ws₂, digits, ws₃, hs, hk⟩
    obtain ⟨ws₃', _, hs'⟩ := hs.of_append_ws hw
    exact ⟨_, _, _, _, _, _, hs', hk⟩
  · rintro ⟨pre, ws₁, phrase, ws₂, digits, ws₃, hs, hk⟩
    exact ⟨_, _, _, _, _, _, hs.append_ws hw, hk⟩

theorem leftmost_append_ws (t pre : Str) {w : Str} (hw : WsRun w) : Leftmost (t ++ w) pre ↔ Leftmost t pre := by
  simp only [leftmost_iff_splitStart, splitStart_append_ws t hw]

/-- trailing whitespace is irrelevant -/
theorem servingHeading_append_ws (t title : Str) (n : Nat) {w : Str} (hw : WsRun w) :
    IsServingHeading (t ++ w) title n ↔ IsServingHeading t title n := by
  constructor
  · rintro ⟨pre, ws₁, phrase, ws₂, digits, ws₃, hs, hl, ht, hn⟩
    obtain ⟨ws₃', _, hs'⟩ := hs.of_append_ws hw
    exact ⟨_, _, _, _, _, _, hs', (leftmost_append_ws t pre hw).mp hl, ht, hn⟩
  · rintro ⟨pre, ws₁, phrase, ws₂, digits, ws₃, hs, hl, ht, hn⟩
    exact ⟨_, _, _, _, _, _, hs.append_ws hw, (leftmost_append_ws t pre hw).mpr hl, ht, hn⟩

theorem hasServingSplit_append_ws (t : Str) {w : Str} (hw : WsRun w) : HasServingSplit (t ++ w) ↔ HasServingSplit t := by
  simp only [hasServingSplit_iff, servingHeading_append_ws t _ _ hw]

/-- what is read from a heading with a serving split -/
theorem readHeading_of_spec {t title : Str} {n : Nat} (h : IsServingHeading t title n) : readHeading t = (title, some n) :=
  (readHeading_spec t title n).mpr h

theorem readHeading_append_ws (t : Str) {w : Str} (hw : WsRun w) : readHeading (t ++ w) = readHeading t := by
  by_cases h : HasServingSplit t
  · obtain ⟨title, n, hh⟩ := (hasServingSplit_iff t).mp h
    rw [readHeading_of_spec hh, readHeading_of_spec ((servingHeading_append_ws t title n hw).mpr hh)]
  · rw [(readHeading_none_iff t).mpr h, (readHeading_none_iff _).mpr (mt (hasServingSplit_append_ws t hw).mp h),
      stripStr_append_ws t w hw]


theorem ServingSplit.prepend {t pre ws₁ phrase ws₂ digits ws₃ : Str} (h : ServingSplit t pre ws₁ phrase ws₂ digits ws₃)
    (x : Str) : ServingSplit (x ++ t) (x ++ pre) ws₁ phrase ws₂ digits ws₃ :=
  ⟨by rw [h.text_eq]; simp, h.ws₁_run, h.phrase_ok, h.ws₂_run, h.digits_ne, h.digits_ok, h.ws₃_run⟩

theorem HasServingSplit.prepend {t : Str} (h : HasServingSplit t) (x : Str) : HasServingSplit (x ++ t) := by
  obtain ⟨_, _, _, _, _, _, hs⟩ := h
  exact ⟨_, _, _, _, _, _, hs.prepend x⟩

theorem ServingSplit.of_prepend {x t pre' ws₁ phrase ws₂ digits ws₃ : Str}
    (h : ServingSplit (x ++ t) pre' ws₁ phrase ws₂ digits ws₃) (hlen : x.length ≤ pre'.length) :
    ∃ pre, pre' = x ++ pre ∧ ServingSplit t pre ws₁ phrase ws₂ digits ws₃ := by
  have he := h.text_eq
  simp only [List.append_assoc] at he
  rcases List.append_eq_append_iff.mp he with ⟨a, e1, e2⟩ | ⟨c, e1, e2⟩
  · exact ⟨a, e1, by simpa [List.append_assoc] using e2, h.ws₁_run, h.phrase_ok, h.ws₂_run, h.digits_ne, h.digits_ok, h.ws₃_run⟩
  · have hc : c = [] := by
      have := congrArg List.length e1
      simp only [List.length_append] at this
      exact List.eq_nil_of_length_eq_zero (by omega)
    subst hc
    refine ⟨[], by simpa using e1.symm, ?_, h.ws₁_run, h.phrase_ok, h.ws₂_run, h.digits_ne, h.digits_ok, h.ws₃_run⟩
    simpa [List.append_assoc] using e2.symm

/-- the text consists of a phrase and a number only (no title, no leading space) -/
def IsBareServing (t : Str) (n : Nat) : Prop :=
  ∃ phrase ws₂ digits ws₃, ServingSplit ([' '] ++ t) [] [' '] phrase ws₂ digits ws₃ ∧ n = natOfDigitChars digits

theorem isBareServing_iff (t : Str) (n : Nat) :
    IsBareServing t n ↔ ∃ phrase ws₂ digits ws₃, t = phrase ++ ws₂ ++ digits ++ ws₃ ∧
      (∃ p ∈ Gen.servingPhrases, PhraseText p phrase) ∧ SpaceRun ws₂ ∧ digits ≠ [] ∧ (∀ c ∈ digits, isDigit c = true) ∧
      WsRun ws₃ ∧ n = natOfDigitChars digits := by
  constructor
  · rintro ⟨phrase, ws₂, digits, ws₃, hs, hn⟩
    refine ⟨phrase, ws₂, digits, ws₃, ?_, hs.phrase_ok, hs.ws₂_run, hs.digits_ne, hs.digits_ok, hs.ws₃_run, hn⟩
    simpa [List.append_assoc] using hs.text_eq
  · rintro ⟨phrase, ws₂, digits, ws₃, rfl, h1, h2, h3, h4, h5, hn⟩
    exact ⟨phrase, ws₂, digits, ws₃, ⟨by simp, by decide, h1, h2, h3, h4, h5⟩, hn⟩

theorem unescape_strip_ws {x : Str} (hx : WsRun x) : unescapeEntities (stripStr x) = [] := by
  rw [stripStr_ws x hx]; rfl

/-- a phrase-and-number text behind a space run: the title is empty -/
theorem servingHeading_of_bare {t : Str} {m : Nat} (h : IsBareServing t m) {w : Str} (hw : SpaceRun w) :
    IsServingHeading (w ++ t) [] m := by
  obtain ⟨phrase, ws₂, digits, ws₃, rfl, h1, h2, h3, h4, h5, hn⟩ := (isBareServing_iff t m).mp h
  refine ⟨[], w, phrase, ws₂, digits, ws₃, ⟨by simp, hw, h1, h2, h3, h4, h5⟩, ?_, ?_, hn⟩
  · intro _ _ _ _ _ _ _; exact Nat.zero_le _
  · exact (unescape_strip_ws (x := []) (by intro c hc; cases hc)).symm

/-- leading whitespace, analysed: either the split is the shifted split of `t`, or `t` is a bare phrase-and-number -/
theorem servingHeading_of_prepend_ws {t title : Str} {n : Nat} {w : Str} (hw : WsRun w)
    (h : IsServingHeading (w ++ t) title n) : IsServingHeading t title n ∨ (title = [] ∧ IsBareServing t n) := by
  obtain ⟨pre', ws₁, phrase, ws₂, digits, ws₃, hs, hl, ht, hn⟩ := h
  rcases Nat.lt_or_ge pre'.length w.length with hlt | hge
  · -- the split starts inside `w`
    have he := hs.text_eq
    simp only [List.append_assoc] at he
    have hpre : WsRun pre' ∧ ∃ c', c' ++ t = ws₁ ++ (phrase ++ (ws₂ ++ (digits ++ ws₃))) := by
      rcases List.append_eq_append_iff.mp he with ⟨a, e1, _⟩ | ⟨c, e1, e2⟩
      · have := congrArg List.length e1
        simp only [List.length_append] at this
        omega
      · exact ⟨fun x hx => hw x (by rw [e1]; simp [hx]), c, e2.symm⟩
    obtain ⟨hpre, c', hc'⟩ := hpre
    have htitle : title = [] := by rw [ht, unescape_strip_ws hpre]
    obtain ⟨p, hp, hph⟩ := hs.phrase_ok
    obtain ⟨⟨l, r, hlr, hl'⟩, _⟩ := PhraseText_chars (servingPhrases_wf p hp).2 hph
    -- `c'` is a prefix of `ws₁`
    rcases List.append_eq_append_iff.mp hc' with ⟨a, e1, e2⟩ | ⟨c, e1, e2⟩
    · -- `ws₁ = c' ++ a`, `t = a ++ phrase ++ …`
      cases a with
      | nil =>
        right
        refine ⟨htitle, (isBareServing_iff t n).mpr ⟨phrase, ws₂, digits, ws₃, by simpa [List.append_assoc] using e2,
          hs.phrase_ok, hs.ws₂_run, hs.digits_ne, hs.digits_ok, hs.ws₃_run, hn⟩⟩
      | cons x a =>
        left
        refine ⟨[], x :: a, phrase, ws₂, digits, ws₃,
          ⟨by simpa [List.append_assoc] using e2, ⟨by simp, fun y hy => hs.ws₁_run.2 y (by rw [e1]; simp [hy])⟩,
            hs.phrase_ok, hs.ws₂_run, hs.digits_ne, hs.digits_ok, hs.ws₃_run⟩, ?_, ?_, hn⟩
        · intro _ _ _ _ _ _ _; exact Nat.zero_le _
        · rw [htitle]; exact (unescape_strip_ws (x := []) (by intro c hc; cases hc)).symm
    · -- `c' = ws₁ ++ c`, `phrase ++ … = c ++ t`, so `c` would start with a letter although it lies inside `w`
      cases c with
      | nil =>
        right
        refine ⟨htitle, (isBareServing_iff t n).mpr ⟨phrase, ws₂, digits, ws₃, by simpa [List.append_assoc] using e2.symm,
          hs.phrase_ok, hs.ws₂_run, hs.digits_ne, hs.digits_ok, hs.ws₃_run, hn⟩⟩
      | cons x c =>
        exfalso
        rw [hlr] at e2
        simp only [List.cons_append, List.cons.injEq] at e2
        -- `x = l` lies in `c'`, a suffix of `w`
        have hxw : x ∈ w := by
          rcases List.append_eq_append_iff.mp he with ⟨a, e1', _⟩ | ⟨d, e1', e2'⟩
          · have := congrArg List.length e1'
            simp only [List.length_append] at this
            omega
          · have : d ++ t = c' ++ t := by rw [hc', e2']
            have hd : d = c' := List.append_cancel_right this
            rw [e1', hd, e1]; simp
        have := hw x hxw
        rw [← e2.1, letterLike_not_space hl'] at this
        cases this
  · -- the split starts in `t`
    left
    obtain ⟨pre, rfl, hs'⟩ := hs.of_prepend hge
    refine ⟨pre, ws₁, phrase, ws₂, digits, ws₃, hs', ?_, ?_, hn⟩
    · intro pre'' _ _ _ _ _ hs''
      have := hl _ _ _ _ _ _ (hs''.prepend w)
      simpa using this
    · rw [ht, stripStr_ws_append w pre hw]

theorem isBareServing_unique {t : Str} {n m : Nat} (h : IsBareServing t n) (h' : IsBareServing t m) : n = m :=
  (servingHeading_unique (servingHeading_of_bare h (w := [' ']) (by decide))
    (servingHeading_of_bare h' (w := [' ']) (by decide))).2

/-- **leading whitespace.**  Behind a non-empty space run a text reads as before, EXCEPT when the text is a bare
    phrase-and-number ("for 2", "to serve 2"): the space run then makes it a heading with an empty title. -/
theorem servingHeading_prepend_ws (t title : Str) (n : Nat) {w : Str} (hw : SpaceRun w) :
    IsServingHeading (w ++ t) title n ↔
      (title = [] ∧ IsBareServing t n) ∨ ((¬ ∃ m, IsBareServing t m) ∧ IsServingHeading t title n) := by
  constructor
  · intro h
    by_cases hb : ∃ m, IsBareServing t m
    · obtain ⟨m, hm⟩ := hb
      obtain ⟨rfl, rfl⟩ := servingHeading_unique h (servingHeading_of_bare hm hw)
      exact Or.inl ⟨rfl, hm⟩
    · rcases servingHeading_of_prepend_ws hw.wsRun h with h1 | ⟨_, h2⟩
      · exact Or.inr ⟨hb, h1⟩
      · exact absurd ⟨n, h2⟩ hb
  · rintro (⟨rfl, hb⟩ | ⟨hb, h⟩)
    · exact servingHeading_of_bare hb hw
    · have hex : HasServingSplit (w ++ t) := HasServingSplit.prepend ((hasServingSplit_iff t).mpr ⟨title, n, h⟩) w
      obtain ⟨title', n', h'⟩ := (hasServingSplit_iff _).mp hex
      rcases servingHeading_of_prepend_ws hw.wsRun h' with h1 | ⟨_, h2⟩
      · obtain ⟨rfl, rfl⟩ := servingHeading_unique h h1
        exact h'
      · exact absurd ⟨n', h2⟩ hb

theorem readHeading_prepend_ws (t : Str) {w : Str} (hw : WsRun w) (hb : ¬ ∃ m, IsBareServing t m) :
    readHeading (w ++ t) = readHeading t := by
  cases w with
  | nil => rfl
  | cons x w =>
    have hsp : SpaceRun (x :: w) := ⟨by simp, hw⟩
    by_cases h : HasServingSplit t
    · obtain ⟨title, n, hh⟩ := (hasServingSplit_iff t).mp h
      rw [readHeading_of_spec hh, readHeading_of_spec ((servingHeading_prepend_ws t title n hsp).mpr (Or.inr ⟨hb, hh⟩))]
    · have h' : ¬ HasServingSplit (x :: w ++ t) := by
        intro hex
        obtain ⟨title', n', h'⟩ := (hasServingSplit_iff _).mp hex
        rcases servingHeading_of_prepend_ws hw h' with h1 | ⟨_, h2⟩
        · exact h ((hasServingSplit_iff t).mpr ⟨_, _, h1⟩)
        · exact hb ⟨_, h2⟩
      rw [(readHeading_none_iff t).mpr h, (readHeading_none_iff _).mpr h', stripStr_ws_append _ t hw]

/-- **stability**: whitespace around a heading text does not change what is read from it (for leading whitespace:
    unless the text is a bare phrase-and-number, see `servingHeading_prepend_ws` and the examples below) -/
theorem readHeading_ws_invariant (t : Str) {w₁ w₂ : Str} (h₁ : WsRun w₁) (h₂ : WsRun w₂)
    (hb : ¬ ∃ m, IsBareServing t m) : readHeading (w₁ ++ t ++ w₂) = readHeading t := by
  rw [readHeading_append_ws _ h₂, readHeading_prepend_ws t h₁ hb]

theorem heading_ws_invariant (t : Str) {w₁ w₂ : Str} (h₁ : WsRun w₁) (h₂ : WsRun w₂)
    (hb : ¬ ∃ m, IsBareServing t m) {phs phs' : List Str} (hp : Plain t phs) (hp' : Plain (w₁ ++ t ++ w₂) phs') :
    titleOf (headingInfo true 1 (w₁ ++ t ++ w₂) phs') = titleOf (headingInfo true 1 t phs) ∧
    servingsOf (headingInfo true 1 (w₁ ++ t ++ w₂) phs') = servingsOf (headingInfo true 1 t phs) := by
  have e1 := headingInfo_readHeading hp
  have e2 := headingInfo_readHeading hp'
  rw [readHeading_ws_invariant t h₁ h₂ hb, ← e1] at e2
  simp only [Prod.mk.injEq] at e2
  exact e2

/-- trailing whitespace never matters -/
theorem heading_trailing_ws_invariant (t : Str) {w : Str} (hw : WsRun w)
    {phs phs' : List Str} (hp : Plain t phs) (hp' : Plain (t ++ w) phs') :
    titleOf (headingInfo true 1 (t ++ w) phs') = titleOf (headingInfo true 1 t phs) ∧
    servingsOf (headingInfo true 1 (t ++ w) phs') = servingsOf (headingInfo true 1 t phs) := by
  have e1 := headingInfo_readHeading hp
  have e2 := headingInfo_readHeading hp'
  rw [readHeading_append_ws t hw, ← e1] at e2
  simp only [Prod.mk.injEq] at e2
  exact e2


/-- a bare phrase-and-number starts with a letter -/
theorem IsBareServing.head {t : Str} {m : Nat} (h : IsBareServing t m) : ∃ c r, t = c :: r ∧ letterLike c.toNat = true := by
  obtain ⟨phrase, ws₂, digits, ws₃, rfl, ⟨p, hp, hph⟩, _⟩ := (isBareServing_iff t m).mp h
  obtain ⟨⟨c, r, rfl, hc⟩, _⟩ := PhraseText_chars (servingPhrases_wf p hp).2 hph
  exact ⟨c, _, rfl, hc⟩

/-- so the exception of `heading_ws_invariant` does not arise for a text that starts with anything but a letter
    (e.g. with whitespace: whitespace can be added in several steps) -/
theorem not_bare_of_head {t : Str} (h : ∀ c, t.head? = some c → letterLike c.toNat = false) : ¬ ∃ m, IsBareServing t m := by
  rintro ⟨m, hm⟩
  obtain ⟨c, r, rfl, hc⟩ := hm.head
  rw [h c rfl] at hc; cases hc

/-! ## the letter case of the phrase is irrelevant

`CaseRel s s'`: `s'` is `s` with some ASCII letters switched to the other case (pointwise `CaseEqChar`). -/

/-- a split is carried along a change of ASCII letter case; lengths (hence offsets) and the digits are unchanged -/
theorem ServingSplit.caseRel {t t' pre ws₁ phrase ws₂ digits ws₃ : Str} (h : ServingSplit t pre ws₁ phrase ws₂ digits ws₃)
    (hr : CaseRel t t') :
    ∃ pre' ws₁' phrase' ws₂' ws₃', ServingSplit t' pre' ws₁' phrase' ws₂' digits ws₃' ∧
      CaseRel pre pre' ∧ CaseRel ws₁ ws₁' ∧ CaseRel phrase phrase' ∧ CaseRel ws₂ ws₂' ∧ CaseRel ws₃ ws₃' := by
  rw [h.text_eq] at hr
  obtain ⟨a₅, ws₃', rfl, h₅, r₆⟩ := hr.split_append
  obtain ⟨a₄, digits', rfl, h₄, r₅⟩ := h₅.split_append
  obtain ⟨a₃, ws₂', rfl, h₃, r₄⟩ := h₄.split_append
  obtain ⟨a₂, phrase', rfl, h₂, r₃⟩ := h₃.split_append
  obtain ⟨pre', ws₁', rfl, r₁, r₂⟩ := h₂.split_append
  have := r₅.eq_of_digits h.digits_ok
  subst this
  obtain ⟨p, hp, hph⟩ := h.phrase_ok
  exact ⟨pre', ws₁', phrase', ws₂', ws₃',
    ⟨rfl, r₂.spaceRun h.ws₁_run, ⟨p, hp, r₃.phraseText (servingPhrases_wf p hp).2 hph⟩, r₄.spaceRun h.ws₂_run,
      h.digits_ne, h.digits_ok, r₆.wsRun h.ws₃_run⟩, r₁, r₂, r₃, r₄, r₆⟩

theorem splitStart_caseRel {t t' : Str} (hr : CaseRel t t') (k : Nat) : SplitStart t k ↔ SplitStart t' k := by
  constructor
  · rintro ⟨pre, _, _, _, _, _, hs, rfl⟩
    obtain ⟨pre', _, _, _, _, hs', r₁, _⟩ := hs.caseRel hr
    exact ⟨pre', _, _, _, _, _, hs', r₁.length_eq.symm⟩
  · rintro ⟨pre, _, _, _, _, _, hs, rfl⟩
    obtain ⟨pre', _, _, _, _, hs', r₁, _⟩ := hs.caseRel hr.symm
    exact ⟨pre', _, _, _, _, _, hs', r₁.length_eq.symm⟩

theorem hasServingSplit_caseRel {t t' : Str} (hr : CaseRel t t') : HasServingSplit t ↔ HasServingSplit t' := by
  constructor
  · rintro ⟨_, _, _, _, _, _, hs⟩
    obtain ⟨_, _, _, _, _, hs', _⟩ := hs.caseRel hr
    exact ⟨_, _, _, _, _, _, hs'⟩
  · rintro ⟨_, _, _, _, _, _, hs⟩
    obtain ⟨_, _, _, _, _, hs', _⟩ := hs.caseRel hr.symm
    exact ⟨_, _, _, _, _, _, hs'⟩

/-- the left-most split is carried to the left-most split -/
theorem leftmost_caseRel {t t' pre pre' : Str} (hr : CaseRel t t') (hlen : pre.length = pre'.length)
    (hl : Leftmost t pre) : Leftmost t' pre' := by
  rw [leftmost_iff_splitStart] at hl ⊢
  intro k hk
  rw [← hlen]
  exact hl k ((splitStart_caseRel hr k).mpr hk)

/-- the serving count does not depend on the case of ANY ASCII letter of the heading … -/
theorem readHeading_servings_caseRel {t t' : Str} (hr : CaseRel t t') : (readHeading t').2 = (readHeading t).2 := by
  by_cases h : HasServingSplit t
  · obtain ⟨pre, ws₁, phrase, ws₂, digits, ws₃, hs, hl⟩ := h.exists_leftmost
    obtain ⟨pre', ws₁', phrase', ws₂', ws₃', hs', r₁, _⟩ := hs.caseRel hr
    have h1 : IsServingHeading t _ _ := ⟨pre, ws₁, phrase, ws₂, digits, ws₃, hs, hl, rfl, rfl⟩
    have h2 : IsServingHeading t' _ _ :=
      ⟨pre', ws₁', phrase', ws₂', digits, ws₃', hs', leftmost_caseRel hr r₁.length_eq hl, rfl, rfl⟩
    rw [readHeading_of_spec h1, readHeading_of_spec h2]
  · rw [(readHeading_snd_none_iff t).mpr h, (readHeading_snd_none_iff t').mpr (mt (hasServingSplit_caseRel hr).mpr h)]

/-- … and neither does the title, as long as the letters changed lie behind the title (`pre`) -/
theorem readHeading_caseRel_after_title {t pre ws₁ phrase ws₂ digits ws₃ r' : Str}
    (hs : ServingSplit t pre ws₁ phrase ws₂ digits ws₃) (hl : Leftmost t pre)
    (hr : CaseRel (ws₁ ++ phrase ++ ws₂ ++ digits ++ ws₃) r') :
    readHeading (pre ++ r') = readHeading t := by
  have hrt : CaseRel t (pre ++ r') := by
    rw [hs.text_eq]
    simpa [List.append_assoc] using (CaseRel.refl pre).append hr
  obtain ⟨pre', ws₁', phrase', ws₂', ws₃', hs', r₁, _⟩ := hs.caseRel hrt
  have hpre : pre' = pre := by
    have := hs'.text_eq
    simp only [List.append_assoc] at this
    exact (List.append_inj_left this r₁.length_eq).symm
  subst hpre
  have h1 : IsServingHeading t _ _ := ⟨pre', ws₁, phrase, ws₂, digits, ws₃, hs, hl, rfl, rfl⟩
  have h2 : IsServingHeading (pre' ++ r') _ _ :=
    ⟨pre', ws₁', phrase', ws₂', digits, ws₃', hs', leftmost_caseRel hrt rfl hl, rfl, rfl⟩
  rw [readHeading_of_spec h1, readHeading_of_spec h2]

/-- **the letter case of the phrase is irrelevant**: in the heading's (left-most) split, replace the phrase by any
    text that differs from it only in the case of ASCII letters; title and count are unchanged, and the new text
    has the corresponding left-most split -/
theorem heading_case_invariant {t pre ws₁ phrase ws₂ digits ws₃ phrase' : Str}
    (hs : ServingSplit t pre ws₁ phrase ws₂ digits ws₃) (hl : Leftmost t pre) (hc : CaseRel phrase phrase') :
    readHeading (pre ++ ws₁ ++ phrase' ++ ws₂ ++ digits ++ ws₃) = readHeading t ∧
    ServingSplit (pre ++ ws₁ ++ phrase' ++ ws₂ ++ digits ++ ws₃) pre ws₁ phrase' ws₂ digits ws₃ ∧
    Leftmost (pre ++ ws₁ ++ phrase' ++ ws₂ ++ digits ++ ws₃) pre := by
  have hr : CaseRel (ws₁ ++ phrase ++ ws₂ ++ digits ++ ws₃) (ws₁ ++ phrase' ++ ws₂ ++ digits ++ ws₃) :=
    ((((CaseRel.refl ws₁).append hc).append (CaseRel.refl ws₂)).append (CaseRel.refl digits)).append (CaseRel.refl ws₃)
  have hrt : CaseRel t (pre ++ ws₁ ++ phrase' ++ ws₂ ++ digits ++ ws₃) := by
    rw [hs.text_eq]
    simpa [List.append_assoc] using (CaseRel.refl pre).append hr
  obtain ⟨p, hp, hph⟩ := hs.phrase_ok
  refine ⟨?_, ⟨rfl, hs.ws₁_run, ⟨p, hp, hc.phraseText (servingPhrases_wf p hp).2 hph⟩, hs.ws₂_run, hs.digits_ne,
    hs.digits_ok, hs.ws₃_run⟩, leftmost_caseRel hrt rfl hl⟩
  have := readHeading_caseRel_after_title hs hl hr
  simpa [List.append_assoc] using this

theorem servingHeading_case_invariant {t pre ws₁ phrase ws₂ digits ws₃ phrase' : Str}
    (hs : ServingSplit t pre ws₁ phrase ws₂ digits ws₃) (hl : Leftmost t pre) (hc : CaseRel phrase phrase')
    (title : Str) (n : Nat) :
    IsServingHeading (pre ++ ws₁ ++ phrase' ++ ws₂ ++ digits ++ ws₃) title n ↔ IsServingHeading t title n := by
  rw [← readHeading_spec, ← readHeading_spec, (heading_case_invariant hs hl hc).1]

theorem caseEqChar_toUpper (c : Char) : CaseEqChar c c.toUpper := by
  by_cases h : 97 ≤ c.toNat ∧ c.toNat ≤ 122
  · have key : ∀ n, n < 123 → 97 ≤ n → asciiLowerNat n = asciiLowerNat (Char.ofNat n).toUpper.toNat := by decide
    have := key c.toNat (by omega) h.1
    rwa [Char.ofNat_toNat] at this
  · have : c.toUpper = c := by
      unfold Char.toUpper
      rw [dif_neg]
      intro hh
      exact h ⟨UInt32.le_iff_toNat_le.mp hh.1, UInt32.le_iff_toNat_le.mp hh.2⟩
    rw [this]; exact CaseEqChar.refl c

theorem caseEqChar_toLower (c : Char) : CaseEqChar c c.toLower := by
  by_cases h : 65 ≤ c.toNat ∧ c.toNat ≤ 90
  · have key : ∀ n, n < 91 → 65 ≤ n → asciiLowerNat n = asciiLowerNat (Char.ofNat n).toLower.toNat := by decide
    have := key c.toNat (by omega) h.1
    rwa [Char.ofNat_toNat] at this
  · have : c.toLower = c := by
      unfold Char.toLower
      rw [dif_neg]
      intro hh
      exact h ⟨UInt32.le_iff_toNat_le.mp hh.1, UInt32.le_iff_toNat_le.mp hh.2⟩
    rw [this]; exact CaseEqChar.refl c

/-- upper-casing or lower-casing (ASCII) any part of the phrase are instances of `CaseRel` -/
theorem caseRel_map_toUpper (s : Str) : CaseRel s (s.map Char.toUpper) := by
  induction s with
  | nil => trivial
  | cons c s ih => exact ⟨caseEqChar_toUpper c, ih⟩

theorem caseRel_map_toLower (s : Str) : CaseRel s (s.map Char.toLower) := by
  induction s with
  | nil => trivial
  | cons c s ih => exact ⟨caseEqChar_toLower c, ih⟩


/-! ## negative facts -/

/-- the last word of an accepted phrase -/
def IsLastPhraseWord (w : String) : Prop := ∃ p ∈ Gen.servingPhrases, p.getLast? = some w

theorem IsLastPhraseWord.wf {w : String} (h : IsLastPhraseWord w) : w.toList ≠ [] ∧ ∀ l ∈ w.toList, IsLower l := by
  obtain ⟨p, hp, hw⟩ := h
  exact (servingPhrases_wf p hp).2 w (List.mem_of_getLast? hw)

/-- every split, read from the right: space run, digits, space run, and before that a whole TOKEN (preceded by
    whitespace — the text before it is non-empty and ends in `\s`) that spells the last word of a phrase -/
theorem ServingSplit.tokens {t pre ws₁ phrase ws₂ digits ws₃ : Str} (h : ServingSplit t pre ws₁ phrase ws₂ digits ws₃) :
    ∃ x wd w, t = x ++ wd ++ ws₂ ++ digits ++ ws₃ ∧ x ≠ [] ∧ EndsWs x ∧ IsLastPhraseWord w ∧ CiWord w.toList wd ∧
      pre ++ ws₁ ++ phrase = x ++ wd := by
  obtain ⟨p, hp, hph⟩ := h.phrase_ok
  obtain ⟨w, hw, y, wd, rfl, hwd, hy⟩ := PhraseText_last hph
  refine ⟨pre ++ ws₁ ++ y, wd, w, by rw [h.text_eq]; simp, ?_, ?_, ⟨p, hp, hw⟩, hwd, by simp⟩
  · have := h.ws₁_run.1
    simp [this]
  · cases y with
    | nil => simpa using EndsWs.append_spaceRun pre h.ws₁_run
    | cons c y => exact EndsWs.append_of_endsWs_ne_nil _ hy (by simp)

/-- the digits of a split are the last token of the text -/
theorem ServingSplit.last_token {t pre ws₁ phrase ws₂ digits ws₃ a tok w : Str}
    (h : ServingSplit t pre ws₁ phrase ws₂ digits ws₃)
    (ht : t = a ++ tok ++ w) (ha : EndsWs a) (htok : NoWs tok) (hne : tok ≠ []) (hw : WsRun w) :
    pre ++ ws₁ ++ phrase ++ ws₂ = a ∧ digits = tok ∧ ws₃ = w := by
  have := h.text_eq
  rw [ht] at this
  exact last_token_unique this.symm (EndsWs.append_spaceRun _ h.ws₂_run) ha (digits_noWs h.digits_ok) htok
    h.digits_ne hne h.ws₃_run hw

/-- **a heading whose last token is not a digit run has no serving count** -/
theorem no_servings_of_last_token {t a tok w : Str} (ht : t = a ++ tok ++ w) (ha : EndsWs a) (htok : NoWs tok)
    (hw : WsRun w) (hnd : ∃ c ∈ tok, isDigit c = false) : ¬ HasServingSplit t := by
  rintro ⟨pre, ws₁, phrase, ws₂, digits, ws₃, h⟩
  obtain ⟨c, hc, hcd⟩ := hnd
  obtain ⟨_, rfl, _⟩ := h.last_token ht ha htok (List.ne_nil_of_mem hc) hw
  rw [h.digits_ok c hc] at hcd; cases hcd

/-- the word before the number is a whole token spelling the last word of a phrase -/
theorem ServingSplit.word_token {t pre ws₁ phrase ws₂ digits ws₃ a tok sp ds w : Str}
    (h : ServingSplit t pre ws₁ phrase ws₂ digits ws₃)
    (ht : t = a ++ tok ++ sp ++ ds ++ w) (ha : EndsWs a) (htok : NoWs tok) (hne : tok ≠ []) (hsp : SpaceRun sp)
    (hds : ∀ c ∈ ds, isDigit c = true) (hdne : ds ≠ []) (hw : WsRun w) :
    a ≠ [] ∧ ∃ wl, IsLastPhraseWord wl ∧ CiWord wl.toList tok := by
  obtain ⟨x, wd, wl, hx, hxne, hxe, hwl, hwd, _⟩ := h.tokens
  rw [ht] at hx
  obtain ⟨e1, _, _⟩ := last_token_unique (x := a ++ tok ++ sp) (x' := x ++ wd ++ ws₂) hx
    (EndsWs.append_spaceRun _ hsp) (EndsWs.append_spaceRun _ h.ws₂_run) (digits_noWs hds) (digits_noWs h.digits_ok)
    hdne h.digits_ne hw h.ws₃_run
  obtain ⟨rfl, rfl, _⟩ := last_token_unique e1 ha hxe htok (CiWord_noWs hwl.wf.2 hwd) hne (CiWord_ne_nil hwl.wf.1 hwd)
    hsp.wsRun h.ws₂_run.wsRun
  exact ⟨hxne, wl, hwl, hwd⟩

/-- **the word before the number must be (the last word of) a phrase** -/
theorem no_servings_of_word_before_count {t a tok sp ds w : Str}
    (ht : t = a ++ tok ++ sp ++ ds ++ w) (ha : EndsWs a) (htok : NoWs tok) (hne : tok ≠ []) (hsp : SpaceRun sp)
    (hds : ∀ c ∈ ds, isDigit c = true) (hdne : ds ≠ []) (hw : WsRun w)
    (hno : ∀ wl, IsLastPhraseWord wl → ¬ CiWord wl.toList tok) : ¬ HasServingSplit t := by
  rintro ⟨pre, ws₁, phrase, ws₂, digits, ws₃, h⟩
  obtain ⟨_, wl, hwl, hc⟩ := h.word_token ht ha htok hne hsp hds hdne hw
  exact hno wl hwl hc

/-- **a heading that consists of one word and a number only ("Serves 2", "For 4") has no serving count**: there is
    no whitespace before the phrase -/
theorem no_servings_single_token {t tok sp ds w : Str}
    (ht : t = tok ++ sp ++ ds ++ w) (htok : NoWs tok) (hne : tok ≠ []) (hsp : SpaceRun sp)
    (hds : ∀ c ∈ ds, isDigit c = true) (hdne : ds ≠ []) (hw : WsRun w) : ¬ HasServingSplit t := by
  rintro ⟨pre, ws₁, phrase, ws₂, digits, ws₃, h⟩
  exact (h.word_token (a := []) (by simpa using ht) EndsWs.nil htok hne hsp hds hdne hw).1 rfl

/-- no last word of a phrase is a proper suffix of another one (decided on the regenerated table) -/
theorem lastPhraseWord_not_proper_suffix :
    ∀ p ∈ Gen.servingPhrases, ∀ q ∈ Gen.servingPhrases, ∀ w ∈ p.getLast?, ∀ w' ∈ q.getLast?,
      w'.toList.drop (w'.toList.length - w.toList.length) = w.toList → w'.toList.length ≤ w.toList.length := by
  decide

/-- **whitespace must precede the phrase**: a token that merely ENDS in a serving word ("Preserves 2") is not a
    serving phrase -/
theorem phrase_needs_preceding_space {t a x word sp ds w : Str} {wl : String}
    (ht : t = a ++ (x ++ word) ++ sp ++ ds ++ w) (ha : EndsWs a) (hx : NoWs x) (hxne : x ≠ [])
    (hwl : IsLastPhraseWord wl) (hword : CiWord wl.toList word) (hsp : SpaceRun sp)
    (hds : ∀ c ∈ ds, isDigit c = true) (hdne : ds ≠ []) (hw : WsRun w) : ¬ HasServingSplit t := by
  have hwordws := CiWord_noWs hwl.wf.2 hword
  apply no_servings_of_word_before_count ht ha
    (fun c hc => by rcases List.mem_append.mp hc with h | h; exact hx c h; exact hwordws c h) (by simp [hxne]) hsp hds hdne hw
  intro wl' hwl' hc
  have hlen := CiWord_length hc
  have hlen0 := CiWord_length hword
  simp only [List.length_append] at hlen
  have hsplit : wl'.toList = wl'.toList.take x.length ++ wl'.toList.drop x.length := (List.take_append_drop _ _).symm
  rw [hsplit] at hc
  have hv := CiWord_append_right (by rw [List.length_take]; omega) hc
  have hv' : wl'.toList.drop x.length = wl.toList :=
    CiWord_inj (fun l hl => hwl'.wf.2 l (List.mem_of_mem_drop hl)) hwl.wf.2 hv hword
  obtain ⟨p, hp, hpw⟩ := hwl
  obtain ⟨q, hq, hqw⟩ := hwl'
  have := lastPhraseWord_not_proper_suffix p hp q hq wl (by simp [hpw]) wl' (by simp [hqw])
    (by rw [← hv', List.length_drop]; congr 1; omega)
  have : 0 < x.length := List.length_pos_iff.mpr hxne
  omega


/-! ## which split is found when there are several -/

/-- all splits of a text agree on everything from the last phrase word on: the digits are the last token of the
    text ("Tea for 2 for 4": only "for 4" is a candidate), the phrase ends at the token before them; splits differ
    only in where the phrase (and the space run before it) STARTS -/
theorem splits_agree {t pre ws₁ phrase ws₂ digits ws₃ pre' ws₁' phrase' ws₂' digits' ws₃' : Str}
    (h : ServingSplit t pre ws₁ phrase ws₂ digits ws₃) (h' : ServingSplit t pre' ws₁' phrase' ws₂' digits' ws₃') :
    ws₂ = ws₂' ∧ digits = digits' ∧ ws₃ = ws₃' ∧ pre ++ ws₁ ++ phrase = pre' ++ ws₁' ++ phrase' := by
  obtain ⟨x, wd, wl, hx, _, hxe, hwl, hwd, e⟩ := h.tokens
  obtain ⟨x', wd', wl', hx', _, hxe', hwl', hwd', e'⟩ := h'.tokens
  rw [hx] at hx'
  obtain ⟨e1, rfl, rfl⟩ := last_token_unique (x := x ++ wd ++ ws₂) (x' := x' ++ wd' ++ ws₂') hx'
    (EndsWs.append_spaceRun _ h.ws₂_run) (EndsWs.append_spaceRun _ h'.ws₂_run) (digits_noWs h.digits_ok)
    (digits_noWs h'.digits_ok) h.digits_ne h'.digits_ne h.ws₃_run h'.ws₃_run
  obtain ⟨rfl, rfl, rfl⟩ := last_token_unique e1 hxe hxe' (CiWord_noWs hwl.wf.2 hwd) (CiWord_noWs hwl'.wf.2 hwd')
    (CiWord_ne_nil hwl.wf.1 hwd) (CiWord_ne_nil hwl'.wf.1 hwd') h.ws₂_run.wsRun h'.ws₂_run.wsRun
  exact ⟨rfl, rfl, rfl, e.trans e'.symm⟩

/-- hence all splits give the same serving count -/
theorem splits_same_count {t pre ws₁ phrase ws₂ digits ws₃ pre' ws₁' phrase' ws₂' digits' ws₃' : Str}
    (h : ServingSplit t pre ws₁ phrase ws₂ digits ws₃) (h' : ServingSplit t pre' ws₁' phrase' ws₂' digits' ws₃') :
    natOfDigitChars digits = natOfDigitChars digits' := by
  rw [(splits_agree h h').2.1]

/-- the count of a heading is the value of its last token, whichever split is considered -/
theorem servingHeading_count {t title : Str} {n : Nat} (hh : IsServingHeading t title n)
    {pre ws₁ phrase ws₂ digits ws₃ : Str} (h : ServingSplit t pre ws₁ phrase ws₂ digits ws₃) :
    n = natOfDigitChars digits := by
  obtain ⟨_, _, _, _, _, _, hs, _, _, hn⟩ := hh
  rw [hn]; exact splits_same_count hs h

theorem leftmost_iff_no_earlier (t pre : Str) : Leftmost t pre ↔ ∀ k, k < pre.length → ¬ SplitStart t k := by
  rw [leftmost_iff_splitStart]
  constructor
  · intro h k hk hs; have := h k hs; omega
  · intro h k hs
    rcases Nat.lt_or_ge k pre.length with hk | hk
    · exact absurd hs (h k hk)
    · exact hk

/-- in the split that is found, `ws₁` is the whole space run: `pre` does not end in whitespace -/
theorem leftmost_pre_not_endsWs {t pre ws₁ phrase ws₂ digits ws₃ : Str}
    (h : ServingSplit t pre ws₁ phrase ws₂ digits ws₃) (hl : Leftmost t pre) :
    ∀ c, pre.getLast? = some c → isReSpace c = false := by
  intro c hc
  cases hsp : isReSpace c with
  | false => rfl
  | true =>
    exfalso
    obtain ⟨pre₀, rfl⟩ : ∃ pre₀, pre = pre₀ ++ [c] := by
      have hne : pre ≠ [] := by intro e; rw [e] at hc; cases hc
      have hc' : pre.getLast hne = c := by
        rw [List.getLast?_eq_some_getLast hne] at hc; exact Option.some.inj hc
      exact ⟨pre.dropLast, by rw [← hc', List.dropLast_concat_getLast]⟩
    have h' : ServingSplit t pre₀ (c :: ws₁) phrase ws₂ digits ws₃ :=
      ⟨by rw [h.text_eq]; simp, ⟨by simp, fun d hd => by
          rcases List.mem_cons.mp hd with rfl | hd
          · exact hsp
          · exact h.ws₁_run.2 d hd⟩, h.phrase_ok, h.ws₂_run, h.digits_ne, h.digits_ok, h.ws₃_run⟩
    have := hl _ _ _ _ _ _ h'
    simp only [List.length_append, List.length_singleton] at this
    omega

/-- a split whose `pre` contains no whitespace is the one found (one-word titles) -/
theorem leftmost_of_noWs {t pre ws₁ phrase ws₂ digits ws₃ : Str}
    (h : ServingSplit t pre ws₁ phrase ws₂ digits ws₃) (hpre : NoWs pre) : Leftmost t pre := by
  intro pre' ws₁' phrase' ws₂' digits' ws₃' h'
  rcases Nat.lt_or_ge pre'.length pre.length with hlt | hge
  · exfalso
    have he := h.text_eq
    rw [h'.text_eq] at he
    simp only [List.append_assoc] at he
    rcases List.append_eq_append_iff.mp he with ⟨a, e1, e2⟩ | ⟨c, e1, e2⟩
    · cases a with
      | nil => simp at e1; rw [e1] at hlt; omega
      | cons x a =>
        obtain ⟨y, ys, hy⟩ := List.exists_cons_of_ne_nil h'.ws₁_run.1
        rw [hy] at e2
        simp only [List.cons_append, List.cons.injEq] at e2
        have h1 := hpre x (by rw [e1]; simp)
        have h2 := h'.ws₁_run.2 y (by rw [hy]; simp)
        rw [e2.1, h1] at h2; cases h2
    · have := congrArg List.length e1
      simp only [List.length_append] at this
      omega
  · exact hge


/-! ## the left-most split, explicitly -/

/-- a phrase text of `u ++ v` is a phrase text of `u`, a space run, a phrase text of `v` -/
theorem phraseText_append_iff {u v : List String} (hu : u ≠ []) (hv : v ≠ []) (s : Str) :
    PhraseText (u ++ v) s ↔ ∃ z sp r, s = z ++ sp ++ r ∧ PhraseText u z ∧ SpaceRun sp ∧ PhraseText v r := by
  induction u generalizing s with
  | nil => exact absurd rfl hu
  | cons w us ih =>
    obtain ⟨v0, vs, rfl⟩ := List.exists_cons_of_ne_nil hv
    cases us with
    | nil => exact Iff.rfl
    | cons w' us' =>
      constructor
      · rintro ⟨a, sp, r, rfl, ha, hsp, hr⟩
        obtain ⟨z', sp', r', rfl, hz', hsp', hr'⟩ := (ih (by simp) r).mp hr
        exact ⟨a ++ sp ++ z', sp', r', by simp, ⟨a, sp, z', rfl, ha, hsp, hz'⟩, hsp', hr'⟩
      · rintro ⟨z, sp', r', rfl, ⟨a, sp, z', rfl, ha, hsp, hz'⟩, hsp', hr'⟩
        exact ⟨a, sp, z' ++ sp' ++ r', by simp, ha, hsp, (ih (by simp) _).mpr ⟨z', sp', r', rfl, hz', hsp', hr'⟩⟩

theorem list_snoc_cases {α} (p : List α) (h : p ≠ []) : (∃ w, p = [w]) ∨ (∃ u w, u ≠ [] ∧ p = u ++ [w]) := by
  have e := (List.dropLast_concat_getLast h).symm
  cases hd : p.dropLast with
  | nil => rw [hd] at e; exact Or.inl ⟨_, e⟩
  | cons x xs => exact Or.inr ⟨p.dropLast, p.getLast h, by simp [hd], e⟩

theorem phraseText_getLast {p : List String} (hp : WfPhrase p) {ph : Str} (h : PhraseText p ph) :
    ∃ c, ph.getLast? = some c ∧ isReSpace c = false := by
  obtain ⟨w, hw, y, wd, rfl, hwd, _⟩ := PhraseText_last h
  have hwf := hp w (List.mem_of_getLast? hw)
  have hne := CiWord_ne_nil hwf.1 hwd
  obtain ⟨c, hc⟩ := Option.isSome_iff_exists.mp (List.getLast?_isSome.mpr hne)
  exact ⟨c, by rw [getLast?_append_ne _ hne]; exact hc, CiWord_noWs hwf.2 hwd c (List.mem_of_getLast? hc)⟩

/-- cutting off the trailing space run -/
theorem suffix_run_unique {a s a' s' : Str} (h : a ++ s = a' ++ s') (hs : WsRun s) (hs' : WsRun s')
    (ha : ∀ c, a.getLast? = some c → isReSpace c = false) (ha' : ∀ c, a'.getLast? = some c → isReSpace c = false) :
    a = a' ∧ s = s' := by
  have hr := congrArg List.reverse h
  simp only [List.reverse_append] at hr
  obtain ⟨e1, e2⟩ := prefix_split_unique isReSpace hr
    (fun c hc => hs c (List.mem_reverse.mp hc)) (fun c hc => hs' c (List.mem_reverse.mp hc))
    (fun c hc => ha c (by rwa [List.head?_reverse] at hc)) (fun c hc => ha' c (by rwa [List.head?_reverse] at hc))
  exact ⟨List.reverse_inj.mp e2, List.reverse_inj.mp e1⟩

/-- two phrase texts ending at the same place in a text, each preceded by whitespace (or the start): they are the
    same, or the words of one are the last words of the other -/
theorem phrase_align (n : Nat) : ∀ {p q : List String} {X X' ph ph' : Str}, p.length ≤ n → WfPhrase p → WfPhrase q →
    X ++ ph = X' ++ ph' → EndsWs X → EndsWs X' → PhraseText p ph → PhraseText q ph' →
    (p = q ∧ X = X' ∧ ph = ph') ∨
    (∃ u, u ≠ [] ∧ q = u ++ p ∧ ∃ z s, PhraseText u z ∧ SpaceRun s ∧ X = X' ++ z ++ s ∧ ph' = z ++ s ++ ph) ∨
    (∃ u, u ≠ [] ∧ p = u ++ q ∧ ∃ z s, PhraseText u z ∧ SpaceRun s ∧ X' = X ++ z ++ s ∧ ph = z ++ s ++ ph') := by
  induction n with
  | zero =>
    intro p q X X' ph ph' hn _ _ _ _ _ hp _
    have : p = [] := List.eq_nil_of_length_eq_zero (by omega)
    subst this
    exact absurd hp (by simp [PhraseText])
  | succ n ih =>
    intro p q X X' ph ph' hn hwp hwq he hX hX' hp hq
    have hpne : p ≠ [] := by intro e; subst e; exact absurd hp (by simp [PhraseText])
    have hqne : q ≠ [] := by intro e; subst e; exact absurd hq (by simp [PhraseText])
    -- the last words are the same token
    have key : ∀ {w w' : String} {A A' wd wd' : Str}, (w.toList ≠ [] ∧ ∀ l ∈ w.toList, IsLower l) →
        (w'.toList ≠ [] ∧ ∀ l ∈ w'.toList, IsLower l) → A ++ wd = A' ++ wd' → EndsWs A → EndsWs A' →
        CiWord w.toList wd → CiWord w'.toList wd' → A = A' ∧ wd = wd' ∧ w = w' := by
      intro w w' A A' wd wd' hw hw' h hA hA' hwd hwd'
      obtain ⟨e1, e2, _⟩ := last_token_unique (s := []) (s' := []) (by simpa using h) hA hA'
        (CiWord_noWs hw.2 hwd) (CiWord_noWs hw'.2 hwd') (CiWord_ne_nil hw.1 hwd) (CiWord_ne_nil hw'.1 hwd')
        (by intro c hc; cases hc) (by intro c hc; cases hc)
      subst e2
      exact ⟨e1, rfl, String.toList_inj.mp (CiWord_inj hw.2 hw'.2 hwd hwd')⟩
    rcases list_snoc_cases p hpne with ⟨w, rfl⟩ | ⟨u, w, hu, rfl⟩ <;>
      rcases list_snoc_cases q hqne with ⟨w', rfl⟩ | ⟨u', w', hu', rfl⟩
    · -- one word each
      obtain ⟨e1, e2, e3⟩ := key (hwp w (by simp)) (hwq w' (by simp)) he hX hX' hp hq
      exact Or.inl ⟨by rw [e3], e1, e2⟩
    · -- `q` has more words
      obtain ⟨z, sp, a, rfl, hz, hsp, ha⟩ := (phraseText_append_iff hu' (by simp) ph').mp hq
      have he' : X ++ ph = (X' ++ z ++ sp) ++ a := by rw [he]; simp
      obtain ⟨e1, e2, e3⟩ := key (hwp w (by simp)) (hwq w' (by simp)) he' hX (EndsWs.append_spaceRun _ hsp) hp ha
      subst e2 e3
      exact Or.inr (Or.inl ⟨u', hu', rfl, z, sp, hz, hsp, e1, rfl⟩)
    · -- `p` has more words
      obtain ⟨z, sp, a, rfl, hz, hsp, ha⟩ := (phraseText_append_iff hu (by simp) ph).mp hp
      have he' : (X ++ z ++ sp) ++ a = X' ++ ph' := by rw [← he]; simp
      obtain ⟨e1, e2, e3⟩ := key (hwp w (by simp)) (hwq w' (by simp)) he' (EndsWs.append_spaceRun _ hsp) hX' ha hq
      subst e2 e3
      exact Or.inr (Or.inr ⟨u, hu, rfl, z, sp, hz, hsp, e1.symm, rfl⟩)
    · -- both have more words: peel the last word and the space run before it, recurse
      obtain ⟨z, sp, a, rfl, hz, hsp, ha⟩ := (phraseText_append_iff hu (by simp) ph).mp hp
      obtain ⟨z', sp', a', rfl, hz', hsp', ha'⟩ := (phraseText_append_iff hu' (by simp) ph').mp hq
      have he' : (X ++ z ++ sp) ++ a = (X' ++ z' ++ sp') ++ a' := by simpa [List.append_assoc] using he
      obtain ⟨e1, e2, e3⟩ := key (hwp w (by simp)) (hwq w' (by simp)) he' (EndsWs.append_spaceRun _ hsp)
        (EndsWs.append_spaceRun _ hsp') ha ha'
      subst e2 e3
      have hwu : WfPhrase u := fun x hx => hwp x (by simp [hx])
      have hwu' : WfPhrase u' := fun x hx => hwq x (by simp [hx])
      obtain ⟨c, hc, hcs⟩ := phraseText_getLast hwu hz
      obtain ⟨c', hc', hcs'⟩ := phraseText_getLast hwu' hz'
      have hzne : z ≠ [] := by intro e; rw [e] at hc; cases hc
      have hzne' : z' ≠ [] := by intro e; rw [e] at hc'; cases hc'
      obtain ⟨e4, e5⟩ := suffix_run_unique e1 hsp.wsRun hsp'.wsRun
        (fun d hd => by rw [getLast?_append_ne _ hzne, hc] at hd; cases hd; exact hcs)
        (fun d hd => by rw [getLast?_append_ne _ hzne', hc'] at hd; cases hd; exact hcs')
      subst e5
      have hlen : u.length ≤ n := by simp at hn; omega
      rcases ih hlen hwu hwu' e4 hX hX' hz hz' with ⟨rfl, rfl, rfl⟩ | ⟨v, hv, rfl, zz, s, hzz, hs, rfl, rfl⟩ |
          ⟨v, hv, rfl, zz, s, hzz, hs, rfl, rfl⟩
      · exact Or.inl ⟨rfl, rfl, rfl⟩
      · exact Or.inr (Or.inl ⟨v, hv, by simp, zz, s, hzz, hs, rfl, by simp⟩)
      · exact Or.inr (Or.inr ⟨v, hv, by simp, zz, s, hzz, hs, rfl, by simp⟩)


/-- the title `pre` ends in the text of extra leading phrase words `u` (preceded by a space run) that, put in front
    of `p`, give another accepted phrase: e.g. `p = ["serve"]`, `pre = "Food to"`, `u = ["to"]` -/
def EndsInPhraseWords (p : List String) (pre : Str) : Prop :=
  ∃ u, u ≠ [] ∧ u ++ p ∈ Gen.servingPhrases ∧ ∃ pre₀ ws₀ z, pre = pre₀ ++ ws₀ ++ z ∧ SpaceRun ws₀ ∧ PhraseText u z

/-- **which split the search finds, explicitly.**  A split (with phrase `p`) is the left-most one iff
    (1) `ws₁` is the whole space run — `pre` does not end in whitespace — and
    (2) `pre` does not end in words that extend `p` to a longer accepted phrase ("… to" before "serve 4"). -/
theorem leftmost_iff_explicit {t pre ws₁ phrase ws₂ digits ws₃ : Str} {p : List String}
    (h : ServingSplit t pre ws₁ phrase ws₂ digits ws₃) (hp : p ∈ Gen.servingPhrases) (hph : PhraseText p phrase) :
    Leftmost t pre ↔ (∀ c, pre.getLast? = some c → isReSpace c = false) ∧ ¬ EndsInPhraseWords p pre := by
  have hwp := (servingPhrases_wf p hp).2
  have hpne := (servingPhrases_wf p hp).1
  constructor
  · intro hl
    refine ⟨leftmost_pre_not_endsWs h hl, ?_⟩
    rintro ⟨u, hu, hup, pre₀, ws₀, z, rfl, hws₀, hz⟩
    have h' : ServingSplit t pre₀ ws₀ (z ++ ws₁ ++ phrase) ws₂ digits ws₃ :=
      ⟨by rw [h.text_eq]; simp, hws₀, ⟨u ++ p, hup, (phraseText_append_iff hu hpne _).mpr ⟨z, ws₁, phrase, rfl, hz, h.ws₁_run, hph⟩⟩,
        h.ws₂_run, h.digits_ne, h.digits_ok, h.ws₃_run⟩
    have := hl _ _ _ _ _ _ h'
    have := List.length_pos_iff.mpr hws₀.1
    simp only [List.length_append] at *
    omega
  · rintro ⟨hnows, hnoext⟩ pre' ws₁' phrase' ws₂' digits' ws₃' h'
    rcases Nat.lt_or_ge pre'.length pre.length with hlt | hge
    · exfalso
      obtain ⟨q, hq, hqph⟩ := h'.phrase_ok
      have hwq := (servingPhrases_wf q hq).2
      have he : (pre ++ ws₁) ++ phrase = (pre' ++ ws₁') ++ phrase' := (splits_agree h h').2.2.2
      rcases phrase_align p.length (Nat.le_refl _) hwp hwq he (EndsWs.append_spaceRun _ h.ws₁_run)
          (EndsWs.append_spaceRun _ h'.ws₁_run) hph hqph with
        ⟨_, e, _⟩ | ⟨u, hu, rfl, z, s, hz, hs, e, _⟩ | ⟨u, hu, rfl, z, s, hz, hs, e, _⟩
      · -- same phrase: `ws₁'` starts earlier, so `pre` ends in whitespace
        rcases List.append_eq_append_iff.mp e with ⟨a, e1, e2⟩ | ⟨c, e1, e2⟩
        · have := congrArg List.length e1
          simp only [List.length_append] at this
          omega
        · have hcne : c ≠ [] := by
            intro hc; subst hc
            simp at e1; rw [e1] at hlt; omega
          obtain ⟨d, hd⟩ := Option.isSome_iff_exists.mp (List.getLast?_isSome.mpr hcne)
          have h1 := hnows d (by rw [e1, getLast?_append_ne _ hcne]; exact hd)
          have h2 := h'.ws₁_run.2 d (by rw [e2]; exact List.mem_append_left _ (List.mem_of_getLast? hd))
          rw [h1] at h2; cases h2
      · -- the other phrase has extra leading words: they are the end of `pre`
        obtain ⟨c, hc, hcs⟩ := phraseText_getLast (fun x hx => hwq x (by simp [hx])) hz
        have hzne : z ≠ [] := by intro e; rw [e] at hc; cases hc
        have e' : pre ++ ws₁ = (pre' ++ ws₁' ++ z) ++ s := by rw [e]
        obtain ⟨e1, _⟩ := suffix_run_unique e' h.ws₁_run.wsRun hs.wsRun hnows
          (fun d hd => by rw [getLast?_append_ne _ hzne, hc] at hd; cases hd; exact hcs)
        exact hnoext ⟨u, hu, hq, pre', ws₁', z, e1, h'.ws₁_run, hz⟩
      · -- this phrase has extra leading words: then `pre'` is longer
        obtain ⟨c, hc, hcs⟩ := phraseText_getLast (fun x hx => hwp x (by simp [hx])) hz
        have hzne : z ≠ [] := by intro e; rw [e] at hc; cases hc
        have e' : pre' ++ ws₁' = (pre ++ ws₁ ++ z) ++ s := e
        rcases List.append_eq_append_iff.mp e' with ⟨a, e1, e2⟩ | ⟨a, e1, e2⟩
        · -- `pre ++ ws₁ ++ z = pre' ++ a`, `ws₁' = a ++ s`
          cases a with
          | nil =>
            have := congrArg List.length e1
            simp only [List.length_append, List.length_nil] at this
            omega
          | cons x a =>
            have hl := congrArg List.getLast? e1
            rw [getLast?_append_ne _ hzne, getLast?_append_ne _ (by simp : x :: a ≠ []), hc] at hl
            have h2 := h'.ws₁_run.2 c (by rw [e2]; exact List.mem_append_left _ (List.mem_of_getLast? hl.symm))
            rw [hcs] at h2; cases h2
        · have := congrArg List.length e1
          simp only [List.length_append] at this
          omega
    · exact hge


/-- in the current pattern the only such extension is a leading "to" (decided on the regenerated table) -/
theorem phrase_extensions_are_to : ∀ q ∈ Gen.servingPhrases, ∀ p ∈ Gen.servingPhrases, p.length < q.length →
    q.drop (q.length - p.length) = p → q.take (q.length - p.length) = ["to"] := by decide

theorem endsInPhraseWords_iff_to {p : List String} (hp : p ∈ Gen.servingPhrases) (pre : Str) :
    EndsInPhraseWords p pre ↔
      "to" :: p ∈ Gen.servingPhrases ∧ ∃ pre₀ ws₀ z, pre = pre₀ ++ ws₀ ++ z ∧ SpaceRun ws₀ ∧ CiWord "to".toList z := by
  constructor
  · rintro ⟨u, hu, hup, pre₀, ws₀, z, e, hws, hz⟩
    have hlen : 0 < u.length := List.length_pos_iff.mpr hu
    have := phrase_extensions_are_to (u ++ p) hup p hp (by simp; omega) (by simp)
    have hu' : u = ["to"] := by simpa using this
    subst hu'
    exact ⟨hup, pre₀, ws₀, z, e, hws, hz⟩
  · rintro ⟨hto, pre₀, ws₀, z, e, hws, hz⟩
    exact ⟨["to"], by simp, hto, pre₀, ws₀, z, e, hws, hz⟩

/-- **the disambiguation, in words**: the split found is the one whose space run `ws₁` is maximal and whose phrase
    includes a preceding "to" whenever "to <phrase>" is accepted ("Food to serve 4" is "Food" + "to serve 4") -/
theorem leftmost_iff_explicit_to {t pre ws₁ phrase ws₂ digits ws₃ : Str} {p : List String}
    (h : ServingSplit t pre ws₁ phrase ws₂ digits ws₃) (hp : p ∈ Gen.servingPhrases) (hph : PhraseText p phrase) :
    Leftmost t pre ↔ (∀ c, pre.getLast? = some c → isReSpace c = false) ∧
      ¬ ("to" :: p ∈ Gen.servingPhrases ∧
          ∃ pre₀ ws₀ z, pre = pre₀ ++ ws₀ ++ z ∧ SpaceRun ws₀ ∧ CiWord "to".toList z) := by
  rw [leftmost_iff_explicit h hp hph, endsInPhraseWords_iff_to hp]

-- "Food to serve 4": the split "Food to" + "serve 4" exists but is not the one found
example : ServingSplit "Food to serve 4".toList "Food to".toList " ".toList "serve".toList " ".toList "4".toList [] ∧
    ¬ Leftmost "Food to serve 4".toList "Food to".toList := by
  have hs : ServingSplit "Food to serve 4".toList "Food to".toList " ".toList "serve".toList " ".toList "4".toList [] :=
    ⟨by decide, by decide, ⟨["serve"], by decide, by show CiWord _ _; decide⟩, by decide, by decide, by decide, by decide⟩
  refine ⟨hs, fun hl => ?_⟩
  have := ((leftmost_iff_explicit_to hs (p := ["serve"]) (by decide) (by show CiWord _ _; decide)).mp hl).2
  exact this ⟨by decide, "Food".toList, " ".toList, "to".toList, by decide, by decide, by decide⟩

/-! ## examples (kernel-evaluated on the model) -/

-- the documented forms
example : readHeading "Stew for 2".toList = ("Stew".toList, some 2) := by decide +kernel
example : readHeading "Stew serves 4".toList = ("Stew".toList, some 4) := by decide +kernel
example : readHeading "Stew to serve 4".toList = ("Stew".toList, some 4) := by decide +kernel
example : readHeading "Stew makes 12".toList = ("Stew".toList, some 12) := by decide +kernel
example : readHeading "Stew to make 12".toList = ("Stew".toList, some 12) := by decide +kernel
example : readHeading "Stew serving 3".toList = ("Stew".toList, some 3) := by decide +kernel
-- accepted by the pattern although not documented
example : readHeading "Stew serve 4".toList = ("Stew".toList, some 4) := by decide +kernel
example : readHeading "Stew to makes 4".toList = ("Stew".toList, some 4) := by decide +kernel
-- letter case, space runs (including non-ASCII `\s`), trailing whitespace, entities in the title
example : readHeading "Beef  Stew \t TO   sErVe  007 \n".toList = ("Beef  Stew".toList, some 7) := by decide +kernel
example : readHeading "Stew for 2".toList = ("Stew".toList, some 2) := by decide +kernel
example : readHeading "Fish &amp; Chips for 2".toList = ("Fish & Chips".toList, some 2) := by decide +kernel
-- `(?i)` also folds the Kelvin sign onto `k` and the long s onto `s`
example : readHeading "Jam maKes 3".toList = ("Jam".toList, some 3) := by decide +kernel
example : readHeading "Jam ſerves 3".toList = ("Jam".toList, some 3) := by decide +kernel
-- several candidate places: the digits are the LAST token; the phrase starts as far left as possible
example : readHeading "Tea for 2 for 4".toList = ("Tea for 2".toList, some 4) := by decide +kernel
example : readHeading "Food to serve 4".toList = ("Food".toList, some 4) := by decide +kernel
example : readHeading "Food for to serve 4".toList = ("Food for".toList, some 4) := by decide +kernel
example : readHeading "What to make 4".toList = ("What".toList, some 4) := by decide +kernel
example : readHeading "Things to  for 4".toList = ("Things to".toList, some 4) := by decide +kernel
-- negative: last token not a digit run
example : readHeading "Stew for two".toList = ("Stew for two".toList, none) := by decide +kernel
example : readHeading "Stew for 2x".toList = ("Stew for 2x".toList, none) := by decide +kernel
example : readHeading "Stew for 2.".toList = ("Stew for 2.".toList, none) := by decide +kernel
example : readHeading "Stew for ٢".toList = ("Stew for ٢".toList, none) := by decide +kernel  -- `[0-9]` is ASCII only
example : readHeading "Stew for2".toList = ("Stew for2".toList, none) := by decide +kernel
example : readHeading "Stew 2".toList = ("Stew 2".toList, none) := by decide +kernel
-- negative: a word merely ENDING in a serving word
example : readHeading "Plum Preserves 2".toList = ("Plum Preserves 2".toList, none) := by decide +kernel
example : readHeading "Cake remakes 2".toList = ("Cake remakes 2".toList, none) := by decide +kernel
-- negative: phrase and number only — there is no whitespace before the phrase
example : readHeading "Serves 2".toList = ("Serves 2".toList, none) := by decide +kernel
example : readHeading "for 2".toList = ("for 2".toList, none) := by decide +kernel
-- … but a two-word phrase alone loses its first word to the title, and a leading space makes the title empty
example : readHeading "to serve 2".toList = ("to".toList, some 2) := by decide +kernel
example : readHeading " for 2".toList = ([], some 2) := by decide +kernel
example : readHeading " to serve 2".toList = ([], some 2) := by decide +kernel

-- the same through `headingInfo`, with all four outputs
example : headingInfo true 1 "Stew  to serve 4 ".toList [] =
    .scalable "Stew".toList 4 "Stew  ".toList "to serve ".toList := by rfl
example : headingInfo true 1 "Plum Preserves 2".toList [] = .unscalable "Plum Preserves 2".toList := by rfl

-- the specification itself, instantiated
example : IsServingHeading "Tea for 2 for 4".toList "Tea for 2".toList 4 :=
  (readHeading_spec _ _ _).mp (by decide +kernel)
example : ¬ HasServingSplit "Serves 2".toList :=
  no_servings_single_token (tok := "Serves".toList) (sp := " ".toList) (ds := "2".toList) (w := [])
    (by decide) (by decide) (by decide) (by decide) (by decide) (by decide) (by decide)
example : ¬ HasServingSplit "Plum Preserves 2".toList :=
  phrase_needs_preceding_space (a := "Plum ".toList) (x := "Pre".toList) (word := "serves".toList) (sp := " ".toList)
    (ds := "2".toList) (w := []) (wl := "serves") (by decide) (by decide) (by decide) (by decide)
    ⟨["serves"], by decide, rfl⟩ (by show CiWord _ _; decide) (by decide) (by decide) (by decide) (by decide)
example : ¬ HasServingSplit "Stew for two".toList :=
  no_servings_of_last_token (a := "Stew for ".toList) (tok := "two".toList) (w := []) (by decide) (by decide) (by decide)
    (by decide) ⟨'t', by decide, by decide⟩
example : IsBareServing "to serve 2".toList 2 :=
  (isBareServing_iff _ _).mpr ⟨"to serve".toList, " ".toList, "2".toList, [], by decide,
    ⟨["to", "serve"], by decide, "to".toList, " ".toList, "serve".toList, by decide, by show CiWord _ _; decide, by decide,
      by show CiWord _ _; decide⟩, by decide, by decide, by decide, by decide, by decide⟩
-- case invariance, instantiated: "Stew for 2" ~ "Stew FOR 2"
example : CaseRel "to serve".toList "To SERVE".toList := by decide

end RG.C18
