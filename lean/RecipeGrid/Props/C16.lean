import RecipeGrid.Model.Links
/-! C16 — local files are never taken from outside the source root. -/
namespace RG.C16

/-- C16.1 a URL is returned unchanged iff it has a scheme, a network location or an empty path -/
theorem untouched_iff (scheme netloc path : Str) (canon root : List Str) (isFile : Bool) (lookup : Option (Str × Bool)) (fromPath assets : Str) :
    rewriteDecision scheme netloc path canon root isFile lookup fromPath assets = .untouched ↔ (scheme ≠ [] ∨ netloc ≠ [] ∨ path = []) := by
  unfold rewriteDecision
  cases scheme with
  | cons c cs => simp
  | nil =>
    cases netloc with
    | cons c cs => simp
    | nil =>
      cases path with
      | nil => simp
      | cons c cs =>
        simp only [List.isEmpty_nil, List.isEmpty_cons, Bool.not_true, Bool.not_false, Bool.or_self, Bool.false_eq_true, if_false]
        constructor
        · intro hh
          split at hh
          · simp at hh
          · split at hh
            · simp at hh
            · split at hh <;> simp at hh
        · simp

/-- C16.2 an asset is produced only for an existing file whose canonical path lies below the canonical root -/
theorem asset_contained (scheme netloc path : Str) (canon root : List Str) (isFile : Bool) (lookup : Option (Str × Bool)) (fromPath assets w h : Str)
    (hr : rewriteDecision scheme netloc path canon root isFile lookup fromPath assets = .asset w h) :
    isPrefixParts root canon = true ∧ isFile = true ∧ w = assets ++ '/' :: joinSlash (canon.drop root.length) := by
  unfold rewriteDecision at hr
  split at hr
  · simp at hr
  · split at hr
    · simp at hr
    · split at hr
      · simp at hr
      · split at hr
        · simp at hr
        · rename_i h1 h2
          simp at hr
          simp at h1 h2
          exact ⟨h1, h2, hr.1.symm⟩

/-- C16.2 a link that resolves outside the root and is no page of the site is refused, whatever spelled it -/
theorem escape_refused (scheme netloc path : Str) (canon root : List Str) (isFile : Bool) (fromPath assets : Str)
    (hlocal : scheme = [] ∧ netloc = [] ∧ path ≠ []) (hout : isPrefixParts root canon = false) :
    rewriteDecision scheme netloc path canon root isFile none fromPath assets = .externalFileError := by
  obtain ⟨h1, h2, h3⟩ := hlocal
  simp [rewriteDecision, h1, h2, h3, hout]

/-- a file that does not exist inside the root is refused with the other error -/
theorem missing_refused (scheme netloc path : Str) (canon root : List Str) (fromPath assets : Str)
    (hlocal : scheme = [] ∧ netloc = [] ∧ path ≠ []) (hin : isPrefixParts root canon = true) :
    rewriteDecision scheme netloc path canon root false none fromPath assets = .nonExistentFileError := by
  obtain ⟨h1, h2, h3⟩ := hlocal
  simp [rewriteDecision, h1, h2, h3, hin]

/-- the same containment rule guards the standalone page's embedding -/
theorem embed_contained (scheme netloc path : Str) (canon root : List Str) (isFile : Bool) (w h : Str)
    (hr : embedDecision scheme netloc path canon root isFile = .asset w h) : isPrefixParts root canon = true ∧ isFile = true := by
  unfold embedDecision at hr
  split at hr
  · simp at hr
  · split at hr
    · simp at hr
    · split at hr
      · simp at hr
      · rename_i h1 h2; simp at h1 h2; exact ⟨h1, h2⟩

end RG.C16
