import RecipeGrid.Lemmas.Shift
import RecipeGrid.Props.C19
/-! C13.2 — the padding that the Markdown front end puts in front of each recipe block (`k` newlines, so that line
    numbers in error messages are document line numbers) is irrelevant to the result: compiling the padded sources
    gives the recipe, or the error, that compiling the block texts gives; only the offset reported with a
    `NameRedefinedError` / `ProportionGivenForIngredientError` moves, by the length of the padding of its block.
    Helper lemmas (shift invariance of every grammar rule, `parse_pad`, `compileBlocks_shift`) are in
    `Lemmas/Shift.lean`. -/
namespace RG.C13

open RG.C19 (pad)

/-- parsing the padded sources gives the ASTs of the block texts with the offsets of block `b` moved by `ks[b]`,
    or the same error -/
theorem parseAll_pad : ∀ (srcs : List Str) (ks : List Nat) (i : Nat), ks.length = srcs.length →
    parseAll i (List.zipWith pad ks srcs) =
      (match parseAll i srcs with
       | .ok asts => .ok (shiftBlocks ks asts)
       | .error e => .error e)
  | [], ks, i, _ => by rw [List.zipWith_nil_right, parseAll_nil]; simp [shiftBlocks]
  | s :: ss, [], i, h => by simp at h
  | s :: ss, k :: ks, i, h => by
    rw [List.zipWith_cons_cons, parseAll_cons, parseAll_cons, pad, parse_pad]
    cases parse s with
    | ok stmts =>
      simp only []
      rw [parseAll_pad ss ks (i + 1) (by simpa using h)]
      cases parseAll (i + 1) ss with
      | ok rest => rfl
      | error e => rfl
    | syntaxError => rfl
    | zeroDivision => rfl

/-- what `compile` does after elaboration: the inlining pass and the validity check; it reports no position -/
def finish (r : List Block × CState) : CompileResult :=
  match foldAll r.2.outputs.length 0 r.1 r.2.outputs with
  | .error why => .internal why
  | .ok (blocks, _) => if checkBlocks [] blocks then .ok blocks else .internal "ReferenceToInvalidSubRecipeError"

theorem compile_eq_finish (srcs : List Str) :
    compile srcs = (match elabBlocks srcs with
      | .error e => e
      | .ok r => finish r) := by
  unfold compile
  cases elabBlocks srcs with
  | error e => rfl
  | ok r => obtain ⟨bs, st⟩ := r; rfl

theorem shiftResult_finish (ks : List Nat) (r : List Block × CState) : shiftResult ks (finish r) = finish r := by
  unfold finish
  cases foldAll r.2.outputs.length 0 r.1 r.2.outputs with
  | error why => rfl
  | ok q =>
    obtain ⟨blocks, outs⟩ := q
    simp only []
    split <;> rfl

/-- elaboration of the padded sources: the same trees and table, or the same error with its offset moved -/
theorem elabBlocks_pad (ks : List Nat) (srcs : List Str) (h : ks.length = srcs.length) :
    elabBlocks (List.zipWith pad ks srcs) =
      (match elabBlocks srcs with
       | .ok r => .ok r
       | .error e => .error (shiftResult ks e)) := by
  unfold elabBlocks
  rw [parseAll_pad srcs ks 0 h]
  cases hp : parseAll 0 srcs with
  | error e =>
    obtain ⟨b, hb, _⟩ := parseAll_error_syntax srcs 0 e hp
    subst hb; rfl
  | ok asts =>
    obtain ⟨hlen, hk⟩ := parseAll_ok srcs 0 asts hp
    have hne : ∀ b ∈ asts, ∀ s ∈ b, AStmt.OutputsNE s := by
      intro b hb
      obtain ⟨j, hj, rfl⟩ := List.mem_iff_getElem.mp hb
      have hjs : j < srcs.length := by omega
      obtain ⟨a, ha, hpa⟩ := hk j _ (List.getElem?_eq_getElem hjs)
      rw [List.getElem?_eq_getElem hj] at ha
      cases ha
      exact parse_outputs_ne _ _ hpa
    have := compileBlocks_shift ks asts 0 {} hne (by omega)
    rw [List.drop_zero] at this
    exact this

/-- **C13.2** compiling the padded sources equals compiling the block texts, up to the offsets of the located
    errors: the same recipe, the same syntax error, or the same located error `ks[b]` characters further on -/
theorem compile_pad (ks : List Nat) (srcs : List Str) (h : ks.length = srcs.length) :
    compile (List.zipWith pad ks srcs) = shiftResult ks (compile srcs) := by
  rw [compile_eq_finish, compile_eq_finish, elabBlocks_pad ks srcs h]
  cases elabBlocks srcs with
  | error e => rfl
  | ok r => exact (shiftResult_finish ks r).symm

/-- in particular the recipe (or the failure to parse) does not depend on the padding -/
theorem compile_pad_ok (ks : List Nat) (srcs : List Str) (h : ks.length = srcs.length) (bs : List Block) :
    compile (List.zipWith pad ks srcs) = .ok bs ↔ compile srcs = .ok bs := by
  rw [compile_pad ks srcs h]
  cases compile srcs <;> simp [shiftResult]

theorem compile_pad_syntaxError (ks : List Nat) (srcs : List Str) (h : ks.length = srcs.length) (b : Nat) :
    compile (List.zipWith pad ks srcs) = .syntaxError b ↔ compile srcs = .syntaxError b := by
  rw [compile_pad ks srcs h]
  cases compile srcs <;> simp [shiftResult]

/-- non-vacuity: a recipe, a redefinition in the second block (padded by 5), a proportion error (padded by 2), and
    a syntax error -/
example : compile (List.zipWith pad [3, 5] ["x".toList, "a = f(x)\n a = g(y)".toList]) = .redefined 1 (10 + 5) ∧
    compile ["x".toList, "a = f(x)\n a = g(y)".toList] = .redefined 1 10 := by decide +kernel
example : compile (List.zipWith pad [2] ["f(1/2 of x)".toList]) = .proportion 0 (2 + 2) ∧
    compile ["f(1/2 of x)".toList] = .proportion 0 2 := by decide +kernel
example : compile (List.zipWith pad [4] ["f(".toList]) = .syntaxError 0 := by decide +kernel
example : compile (List.zipWith pad [1, 7] ["sauce = mix(1 egg, oil)".toList, "fry(1/2 of the sauce, 2 eggs)".toList]) =
      compile ["sauce = mix(1 egg, oil)".toList, "fry(1/2 of the sauce, 2 eggs)".toList] ∧
    (match compile ["sauce = mix(1 egg, oil)".toList, "fry(1/2 of the sauce, 2 eggs)".toList] with
     | .ok _ => true
     | _ => false) = true := by decide +kernel

end RG.C13
