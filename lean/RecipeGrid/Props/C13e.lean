import RecipeGrid.Props.C13d
import RecipeGrid.Props.C19e
/-! C13, from the document text, with containers: the grouping of a document's code blocks into independent recipes, with
    the blocks computed by the container-aware scanner model (`scanBlocks2`: top level, block quotes, list items) — the
    statements of `Props/C13d.lean` for the sub-language **D2**. -/
namespace RG.C13

/-- the kinds of the code blocks of a document, in order — what `render_fenced_code` / `render_code_block` see -/
def docKinds2 (doc : Str) : List CodeBlockKind := (scanBlocks2 doc).map (·.kind)

/-- on the container-free sub-language these are the kinds of `Props/C13d.lean` -/
theorem docKinds2_conservative (doc : Str) (hD : inDoc doc = true) : docKinds2 doc = docKinds doc := by
  rw [docKinds2, (C19.scan2_conservative doc hD).2]; rfl

/-- **`scan2_group`**: block `i` of the document — wherever it sits — heads an independent recipe iff it is the document's
    first recipe block or a fenced block whose language is exactly `new-recipe` -/
theorem scan2_group (doc : Str) (i : Nat) :
    (∃ g ∈ groupBlocks (docKinds2 doc), g.head? = some i) ↔
      ∃ n, (recipeIndices (docKinds2 doc))[n]? = some i ∧
        (n = 0 ∨ ∃ b, (scanBlocks2 doc)[i]? = some b ∧ b.kind = .fenced "new-recipe".toList) := by
  rw [group_head_iff]
  constructor
  · rintro ⟨n, hn, h⟩
    refine ⟨n, hn, h.imp id ?_⟩
    intro h
    simp only [docKinds2, List.getElem?_map, Option.map_map] at h
    cases hb : (scanBlocks2 doc)[i]? with
    | none => rw [hb] at h; cases h
    | some b =>
      rw [hb] at h
      simp only [Option.map_some, Function.comp, Option.some.injEq] at h
      refine ⟨b, rfl, ?_⟩
      cases hk : b.kind with
      | indented => rw [hk] at h; cases h
      | fenced l =>
        rw [hk] at h
        simp only [CodeBlockKind.startsNew, beq_iff_eq] at h
        rw [h]
  · rintro ⟨n, hn, h⟩
    refine ⟨n, hn, h.imp id ?_⟩
    rintro ⟨b, hb, hk⟩
    simp [docKinds2, List.getElem?_map, hb, hk, CodeBlockKind.startsNew]

/-- … and that language is read off the document: the first word of the info string of the fence behind the container
    prefix (`line.take q`) of the line at `pos` -/
theorem scan2_group_new (doc : Str) (b : MdBlock) (hb : b ∈ scanBlocks2 doc) :
    b.kind.startsNew = true ↔
      ∃ line tail q f, (normaliseCrLf doc).drop b.pos = line ++ tail ∧ fenceOpen? (line.drop q) = some f ∧
        b.kind = .fenced f.lang ∧ stripBackslash (firstWord f.info) = "new-recipe".toList := by
  constructor
  · intro h
    cases hk : b.kind with
    | indented => rw [hk] at h; cases h
    | fenced l =>
      rw [hk] at h
      simp only [CodeBlockKind.startsNew, beq_iff_eq] at h
      obtain ⟨line, tail, q, f, h1, _, h3, h4⟩ := C19.scan2_fenced_lang doc b hb l hk
      exact ⟨line, tail, q, f, h1, h3, by rw [h4]; rfl, by rw [← h4, h]⟩
  · rintro ⟨line, tail, q, f, _, _, hk, hl⟩
    rw [hk]
    simp only [CodeBlockKind.startsNew, FenceInfo.lang, hl, beq_self_eq_true]

/-- the members of a group are indices of recipe blocks of the document (indented, or fenced `recipe` / `new-recipe`) -/
theorem scan2_group_members (doc : Str) (g : List Nat) (hg : g ∈ groupBlocks (docKinds2 doc)) (i : Nat) (hi : i ∈ g) :
    ∃ b, (scanBlocks2 doc)[i]? = some b ∧ b.kind.isRecipe = true := by
  have hmem : i ∈ recipeIndices (docKinds2 doc) := by
    rw [← group_flatten]; exact List.mem_flatten.2 ⟨g, hg, hi⟩
  simp only [recipeIndices, List.mem_map, List.mem_filter] at hmem
  obtain ⟨⟨k, i'⟩, ⟨hz, hr⟩, rfl⟩ := hmem
  have hk : (docKinds2 doc)[i']? = some k := by simpa using List.mem_zipIdx_iff_getElem?.mp hz
  simp only [docKinds2, List.getElem?_map] at hk
  cases hb : (scanBlocks2 doc)[i']? with
  | none => rw [hb] at hk; cases hk
  | some b =>
    rw [hb] at hk
    simp only [Option.map_some, Option.some.injEq] at hk
    exact ⟨b, rfl, by rw [hk]; exact hr⟩

/-- the blocks of one independent recipe: what `render_document` compiles together -/
def groupOf2 (doc : Str) (g : List Nat) : List MdBlock := g.filterMap fun i => (scanBlocks2 doc)[i]?

theorem groupOf2_mem (doc : Str) (g : List Nat) : ∀ b ∈ groupOf2 doc g, b ∈ scanBlocks2 doc := by
  intro b hb
  simp only [groupOf2, List.mem_filterMap] at hb
  obtain ⟨i, _, hi⟩ := hb
  exact List.mem_of_getElem? hi

/-- **C19 for the groups `markdown.py` compiles, with containers**: `doc2_error_line` applied to an independent recipe `g`
    of the document (a member of `groupBlocks`): a located error in its `i`-th block is reported on the document line
    that holds the offending text, which is the quoted line behind a container prefix and at most 3 / 4 spaces -/
theorem scan2_group_error_line (doc : Str) (hD : inDoc2 doc = true) (g : List Nat) (_hg : g ∈ groupBlocks (docKinds2 doc))
    (i off : Nat)
    (hc : compile ((groupOf2 doc g).map fun b => crToLf b.source) = .redefined i off ∨
          compile ((groupOf2 doc g).map fun b => crToLf b.source) = .proportion i off) :
    ∃ b, (groupOf2 doc g)[i]? = some b ∧ b ∈ scanBlocks2 doc ∧
      (compile (C19.mdSources doc ((groupOf2 doc g).map fun b => (b.pos, b.kind.isFenced, b.source))) =
          .redefined i (off + (b.startLine - 1)) ∨
       compile (C19.mdSources doc ((groupOf2 doc g).map fun b => (b.pos, b.kind.isFenced, b.source))) =
          .proportion i (off + (b.startLine - 1))) ∧
      (offsetToLineCol (paddedSource doc b.pos b.kind.isFenced b.source) (off + (b.startLine - 1))).1 =
        b.startLine + ((offsetToLineCol (crToLf b.source) off).1 - 1) ∧
      ∃ q, extractLine (paddedSource doc b.pos b.kind.isFenced b.source)
          (b.startLine + ((offsetToLineCol (crToLf b.source) off).1 - 1)) = some q ∧
        ((∃ d qc p, extractLine (crToLf (normaliseCrLf doc))
              (b.startLine + ((offsetToLineCol (crToLf b.source) off).1 - 1)) = some d ∧
            isCPrefix (d.take qc) = true ∧ p ≤ (if b.kind.isFenced then 3 else 4) ∧
            (∀ c ∈ (d.drop qc).take p, c = ' ') ∧ q = d.drop (qc + p)) ∨ q = []) := by
  obtain ⟨b, hb, hmem, h1, h2, h3, q, _, hq, hrel⟩ :=
    C19.doc2_error_line doc hD (groupOf2 doc g) (groupOf2_mem doc g) i off hc
  refine ⟨b, hb, hmem, ?_, by rw [h3], q, hq, ?_⟩
  · rcases hc with hc | hc
    · exact Or.inl (h1 hc)
    · exact Or.inr (h2 hc)
  · rcases hrel with ⟨d, qc, p, hd, h5, h6, h7, h8, _⟩ | ⟨_, hq0, _⟩
    · exact Or.inl ⟨d, qc, p, hd, h5, h6, h7, h8⟩
    · exact Or.inr hq0

/-- the example document of `Props/C19e.lean`: the quoted ```` ```recipe ```` block is one recipe, the `~~~new-recipe`
    block inside the list item starts another -/
example : groupBlocks (docKinds2 C19.exDoc2) = [[0], [1]] ∧
    (groupOf2 C19.exDoc2 [1]).map (·.startLine) = [13] := by decide +kernel

/-- a recipe continued across containers: a top-level indented block, a ```` ```recipe ```` fence in a quote and an
    indented block in a list item form one recipe; `~~~new-recipe` in a second item starts the next -/
example :
    groupBlocks (docKinds2 "    a = 1 egg\n\n> ```recipe\n> b = fry(a)\n> ```\n\n- then\n\n      c = boil(b)\n- ~~~new-recipe\n  d = 2 eggs\n".toList) =
      [[0, 1, 2], [3]] ∧
    inDoc2 "    a = 1 egg\n\n> ```recipe\n> b = fry(a)\n> ```\n\n- then\n\n      c = boil(b)\n- ~~~new-recipe\n  d = 2 eggs\n".toList = true := by
  decide +kernel

end RG.C13
