import RecipeGrid.Props.C12b
/-! C12c — the comparison made between exact-factor units is the comparison of the physical amounts. -/
namespace RG.C12
/-- with an exact factor `rb / ra` the comparison made is the comparison of the physical amounts `x·ra` and `y·rb` -/
theorem exact_comparison_is_physical (x y : Rat) {sc ra rb : Rat} (hra : ra ≠ 0) (hsc : sc = rb / ra) :
    relDiff x (y * sc) = relDiff (x * ra) (y * rb) := by
  rw [← rho_scale x (y * sc) hra, hsc]
  have : y * (rb / ra) * ra = y * rb := by
    rw [Rat.div_def, Rat.mul_assoc, Rat.mul_assoc, Rat.inv_mul_cancel _ hra, Rat.mul_one]
  rw [this]
end RG.C12
