import RecipeGrid.Props.C12
import RecipeGrid.Lemmas.Stable
/-! C12b — units: "two quantities are treated as equal amounts exactly when they denote the same physical amount
    (to within rounding error)".  `Quantity.has_equal_value_to` (model: `Quantity.hasEqualValueTo`) for every pair of
    quantities: which factor it compares with (the unit table's, decided over the regenerated table), when it refuses,
    and - by the binary64 error analysis of `Lemmas/Stable.lean` - that its answer is the exact rational comparison
    at relative tolerance `10⁻⁹` off a guard band of `2⁻²¹` around that tolerance. -/
namespace RG.C12

-- ================================================================ facts of the regenerated table
/-- the names of the table are lower case already (the code lower-cases the written unit before the lookup) -/
theorem names_lower_fixed : ∀ a ∈ allNames, lowerStr a = a := by decide +kernel

/-- between different kinds the table has no factor, in either direction, and the names differ -/
theorem table_kinds_differ : ∀ a ∈ allNames, ∀ b ∈ allNames, sameKind a b = false →
    ((convertBetween false b a).isNone && !(a == b)) = true := by decide +kernel

/-- between names of one kind the table has a factor -/
theorem table_same_kind_factor : ∀ a ∈ allNames, ∀ b ∈ allNames, sameKind a b = true →
    (convertBetween false b a).isSome = true := by decide +kernel

/-- a name converts to itself, and to every alias of its unit, with an exact 1 -/
theorem table_alias_factor_one : ∀ ks ∈ Gen.unitSets, ∀ u ∈ ks.2, ∀ a ∈ u.names, ∀ b ∈ u.names,
    (match convertBetween false b.toList a.toList with
     | some sc => sc.val == 1 && !sc.isFlt
     | none => false) = true := by decide +kernel

/-- `sameKind` is symmetric on the table -/
theorem sameKind_symm : ∀ a ∈ allNames, ∀ b ∈ allNames, sameKind a b = sameKind b a := by decide +kernel

/-- where the table's factor is exact (an `int` or a `Fraction`: 506 of the 794 ordered pairs of different names of one
    kind), it *is* the ratio of the hand-written physical reference values - so for those pairs the comparison of
    `equal_amount_decided_by_factor` is the comparison of the two physical amounts themselves -/
theorem exact_factors_are_reference_ratios : ∀ a ∈ allNames, ∀ b ∈ allNames, sameKind a b = true →
    (match convertBetween false b a, refValue a, refValue b with
     | some sc, some ra, some rb => sc.isFlt || sc.val == rb / ra
     | _, _, _ => false) = true := by decide +kernel

/-- non-vacuity of the exact case: g → kg is the exact 1/1000 -/
example : (convertBetween false "g".toList "kg".toList).map (fun sc => (sc.isFlt, sc.val)) = some (false, 1 / 1000) := by
  decide +kernel

-- ================================================================ refusals
/-- a quantity with a unit and one without are never equal amounts -/
theorem equal_amount_unit_vs_none {q iq : Quantity} (h : q.unit.isSome ≠ iq.unit.isSome) :
    q.hasEqualValueTo iq = false := by
  apply hev_none
  unfold Quantity.hevFactor
  cases hq : q.unit <;> cases hi : iq.unit <;> simp_all

/-- quantities in known units of different kinds (in any letter case) are never equal amounts, whatever their values -/
theorem equal_amount_refused_across_kinds {q iq : Quantity} {su ou : Str}
    (hq : q.unit = some su) (hiq : iq.unit = some ou)
    (ha : lowerStr su ∈ allNames) (hb : lowerStr ou ∈ allNames)
    (hk : sameKind (lowerStr su) (lowerStr ou) = false) :
    q.hasEqualValueTo iq = false := by
  apply hev_none
  unfold Quantity.hevFactor
  rw [hq, hiq]
  have h := table_kinds_differ _ ha _ hb hk
  simp only [Bool.and_eq_true, Option.isNone_iff_eq_none, Bool.not_eq_true', beq_eq_false_iff_ne] at h
  simp [h.1, h.2]

-- ================================================================ the comparison that is made
/-- known units of one kind (any letter case), exact values: the test compares the first value with the second
    times the table's factor from the second unit to the first (the factor `physical_constants`, `convert_recip_spec`
    and `convert_float_refines` characterise) and answers the exact comparison at relative tolerance `10⁻⁹`, off the
    guard band -/
theorem equal_amount_decided_by_factor {q iq : Quantity} {su ou : Str}
    (hq : q.unit = some su) (hiq : iq.unit = some ou)
    (ha : lowerStr su ∈ allNames) (hb : lowerStr ou ∈ allNames)
    (hk : sameKind (lowerStr su) (lowerStr ou) = true)
    (hqe : q.value.kind ≠ .flt) (hiqe : iq.value.kind ≠ .flt) :
    ∃ sc, convertBetween false (lowerStr ou) (lowerStr su) = some sc ∧
      (relDiff q.value.val (iq.value.val * sc.val) ≤ tolQ * (1 - edgeEps) → q.hasEqualValueTo iq = true) ∧
      (tolQ * (1 + edgeEps) ≤ relDiff q.value.val (iq.value.val * sc.val) → q.hasEqualValueTo iq = false) := by
  have h := table_same_kind_factor _ ha _ hb hk
  obtain ⟨sc, hsc⟩ := Option.isSome_iff_exists.mp h
  refine ⟨sc, hsc, ?_⟩
  have hf : q.hevFactor iq = some sc := by
    unfold Quantity.hevFactor
    rw [hq, hiq]
    simp [hsc]
  exact hev_off_edge hqe hiqe hf

/-- without units the values themselves are compared -/
theorem equal_amount_unitless {q iq : Quantity} (hq : q.unit = none) (hiq : iq.unit = none)
    (hqe : q.value.kind ≠ .flt) (hiqe : iq.value.kind ≠ .flt) :
    (relDiff q.value.val iq.value.val ≤ tolQ * (1 - edgeEps) → q.hasEqualValueTo iq = true) ∧
    (tolQ * (1 + edgeEps) ≤ relDiff q.value.val iq.value.val → q.hasEqualValueTo iq = false) := by
  have hf : q.hevFactor iq = some ⟨1, .int⟩ := by
    unfold Quantity.hevFactor
    rw [hq, hiq]
  have := hev_off_edge hqe hiqe hf
  simpa [Rat.mul_one] using this

/-- units the table does not know: equal amounts need the same unit name (ignoring letter case); then the values are
    compared -/
theorem equal_amount_unknown_units {q iq : Quantity} {su ou : Str}
    (hq : q.unit = some su) (hiq : iq.unit = some ou)
    (hun : findUnitSet (lowerStr ou) = none) :
    (lowerStr su ≠ lowerStr ou → q.hasEqualValueTo iq = false) ∧
    (lowerStr su = lowerStr ou → q.value.kind ≠ .flt → iq.value.kind ≠ .flt →
      (relDiff q.value.val iq.value.val ≤ tolQ * (1 - edgeEps) → q.hasEqualValueTo iq = true) ∧
      (tolQ * (1 + edgeEps) ≤ relDiff q.value.val iq.value.val → q.hasEqualValueTo iq = false)) := by
  have hc : convertBetween false (lowerStr ou) (lowerStr su) = none := by
    unfold convertBetween
    simp [hun]
  constructor
  · intro hne
    apply hev_none
    unfold Quantity.hevFactor
    rw [hq, hiq]
    simp [hc, hne]
  · intro he hqe hiqe
    have hf : q.hevFactor iq = some ⟨1, .int⟩ := by
      unfold Quantity.hevFactor
      rw [hq, hiq]
      rw [he] at hc
      simp only [he, hc]
      simp
    have := hev_off_edge hqe hiqe hf
    simpa [Rat.mul_one] using this

-- ================================================================ the same amount is an equal amount
/-- the same exact value under two names of one unit (aliases, any letter case; in particular the same name) is an
    equal amount, and stays one under every exact scaling -/
theorem equal_amount_aliases {k : Num} (hk : k.kind ≠ .flt) {q iq : Quantity} {su ou : Str}
    {ks : String × List Gen.UnitDef} {u : Gen.UnitDef} {a b : String}
    (hks : ks ∈ Gen.unitSets) (hu : u ∈ ks.2) (ha : a ∈ u.names) (hb : b ∈ u.names)
    (hq : q.unit = some su) (hiq : iq.unit = some ou)
    (hsu : lowerStr su = a.toList) (hou : lowerStr ou = b.toList)
    (hqe : q.value.kind ≠ .flt) (hiqe : iq.value.kind ≠ .flt) (hv : q.value.val = iq.value.val) :
    (q.scale k).hasEqualValueTo (iq.scale k) = true ∧ q.hasEqualValueTo iq = true := by
  have h := table_alias_factor_one ks hks u hu a ha b hb
  apply hasEqualValueTo_scale_of_eq hk hqe hiqe hv
  refine Or.inr ⟨su, ou, hq, hiq, ?_, ?_⟩
  · intro sc hsc
    rw [hsu, hou] at hsc
    rw [hsc] at h
    simp only [Bool.and_eq_true, beq_iff_eq, Bool.not_eq_true'] at h
    refine ⟨?_, h.1⟩
    intro hflt
    simp [Num.isFlt, hflt] at h
  · intro hn
    rw [hsu, hou] at hn
    rw [hn] at h
    simp at h

/-- a unit-less exact quantity is an equal amount to itself -/
theorem equal_amount_self_unitless {q : Quantity} (hq : q.unit = none) (hqe : q.value.kind ≠ .flt) :
    q.hasEqualValueTo q = true :=
  (hasEqualValueTo_scale_of_eq (k := ⟨1, .int⟩) (by simp) hqe hqe rfl (Or.inl ⟨hq, hq⟩)).2

-- ================================================================ the premises are met
example : lowerStr "KG".toList ∈ allNames ∧ lowerStr "g".toList ∈ allNames ∧
    sameKind (lowerStr "KG".toList) (lowerStr "g".toList) = true := by decide +kernel
example : sameKind "kg".toList "cup".toList = false ∧ "kg".toList ∈ allNames ∧ "cup".toList ∈ allNames := by decide +kernel
example : findUnitSet (lowerStr "Handful".toList) = none := by decide +kernel
/-- 1 kg and 1000 g: an equal amount; 1 kg and 1001 g: not -/
example : (Quantity.mk ⟨1, .int⟩ (some "kg".toList) [] []).hasEqualValueTo (Quantity.mk ⟨1000, .int⟩ (some "g".toList) [] []) = true ∧
    (Quantity.mk ⟨1, .int⟩ (some "kg".toList) [] []).hasEqualValueTo (Quantity.mk ⟨1001, .int⟩ (some "g".toList) [] []) = false := by
  decide +kernel

end RG.C12
