import RecipeGrid.Lemmas.FloatErr
import RecipeGrid.Props.C03
/-! C03.3 for float factors: scaling by a float is the exact product rounded once, so it is within one unit
    roundoff (`2^-53`, relative) of the exact product, and scaling twice is within 6 units roundoff of scaling
    once by the (rounded) product of the factors. `toDouble` has an unbounded exponent, so no range condition
    appears; for binary64 proper the statements apply while no intermediate leaves the normal range. -/
namespace RG.C03

/-- what scaling by a float computes: `float(q) * k`, rounded -/
theorem mul_float_val (q k : Num) (hk : k.kind = .flt) :
    (q.mul k).val = toDouble (q.toFlt * k.val) ∧ (q.mul k).kind = .flt := by
  have : k.isFlt = true := by simp [Num.isFlt, hk]
  simp [Num.mul, Num.toFlt, this]

theorem toFlt_of_flt {q : Num} (hq : q.kind = .flt) : q.toFlt = q.val := by simp [Num.toFlt, Num.isFlt, hq]

/-- C03.3 (float factor): a float quantity scaled by a float factor is the exact product within `2^-53` relative -/
theorem scale_float_err (q k : Num) (hq : q.kind = .flt) (hk : k.kind = .flt) :
    ((q.mul k).val - q.val * k.val).abs ≤ (q.val * k.val).abs / 9007199254740992 := by
  rw [(mul_float_val q k hk).1, toFlt_of_flt hq]
  exact toDouble_err _

/-- an approximation of one factor carries over to the product -/
theorem mul_close {x q k c : Rat} (h : (x - q).abs ≤ c * q.abs) : (x * k - q * k).abs ≤ c * (q * k).abs := by
  have e : x * k - q * k = (x - q) * k := by grind
  rw [e, abs_mul, abs_mul]
  have := Rat.mul_le_mul_of_nonneg_right h (@Rat.abs_nonneg k)
  grind

theorem toFlt_err (q : Num) : (q.toFlt - q.val).abs ≤ (1 / 9007199254740992) * q.val.abs := by
  unfold Num.toFlt
  split
  · have : q.val - q.val = 0 := by grind
    rw [this, Rat.abs_zero]
    have := @Rat.abs_nonneg q.val
    grind
  · have := toDouble_err_mul q.val; grind

/-- any quantity scaled by a float factor: the quantity is converted (one rounding), the product rounded -/
theorem scale_float_err_any (q k : Num) (hk : k.kind = .flt) :
    ((q.mul k).val - q.val * k.val).abs ≤ 3 * (q.val * k.val).abs / 9007199254740992 := by
  rw [(mul_float_val q k hk).1]
  have := round_after (mul_close (k := k.val) (toFlt_err q))
  have hp := @Rat.abs_nonneg (q.val * k.val)
  simp only [Rat.div_def] at *
  grind

/-- `(1 + 2^-53)^2 - 1 = 2·2^-53 + 2^-106`, a little under 3 units roundoff -/
def twoRoundings : Rat := 18014398509481985 / 81129638414606681695789005144064

theorem twoRoundings_lt : twoRoundings < 3 / 9007199254740992 := by decide +kernel

/-- scaling by `a` then by `b` (floats): two roundings after `float(q)·a·b` -/
theorem scale_twice_err (q a b : Num) (ha : a.kind = .flt) (hb : b.kind = .flt) :
    (((q.mul a).mul b).val - q.toFlt * a.val * b.val).abs ≤ twoRoundings * (q.toFlt * a.val * b.val).abs := by
  obtain ⟨v1, k1⟩ := mul_float_val q a ha
  rw [(mul_float_val (q.mul a) b hb).1, toFlt_of_flt k1, v1]
  have h1 : (toDouble (q.toFlt * a.val) - q.toFlt * a.val).abs ≤ (1 / 9007199254740992) * (q.toFlt * a.val).abs := by
    have := toDouble_err_mul (q.toFlt * a.val); grind
  have := round_after (mul_close (k := b.val) h1)
  have hp := @Rat.abs_nonneg (q.toFlt * a.val * b.val)
  simp only [twoRoundings, Rat.div_def] at *
  grind

/-- scaling once by the float product `a·b`: two roundings after `float(q)·a·b` -/
theorem scale_once_err (q a b : Num) (ha : a.kind = .flt) (hb : b.kind = .flt) :
    ((q.mul (a.mul b)).val - q.toFlt * a.val * b.val).abs ≤ twoRoundings * (q.toFlt * a.val * b.val).abs := by
  obtain ⟨v1, k1⟩ := mul_float_val a b hb
  rw [(mul_float_val q (a.mul b) k1).1, v1, toFlt_of_flt ha]
  have h1 : (toDouble (a.val * b.val) - a.val * b.val).abs ≤ (1 / 9007199254740992) * (a.val * b.val).abs := by
    have := toDouble_err_mul (a.val * b.val); grind
  have h2 := mul_close (k := q.toFlt) h1
  have e1 : toDouble (a.val * b.val) * q.toFlt = q.toFlt * toDouble (a.val * b.val) := Rat.mul_comm _ _
  have e2 : a.val * b.val * q.toFlt = q.toFlt * a.val * b.val := by grind
  rw [e1, e2] at h2
  have := round_after h2
  have hp := @Rat.abs_nonneg (q.toFlt * a.val * b.val)
  simp only [twoRoundings, Rat.div_def] at *
  grind

/-- C03.3 (float factors): scaling twice is within 6 units roundoff (relative to either result) of scaling once
    by the product; binary64 ulps are at least one unit roundoff, so a 6 ulp tolerance covers it -/
theorem scale_twice_close (q a b : Num) (ha : a.kind = .flt) (hb : b.kind = .flt) :
    (((q.mul a).mul b).val - (q.mul (a.mul b)).val).abs ≤ 6 * (q.mul (a.mul b)).val.abs / 9007199254740992 ∧
    (((q.mul a).mul b).val - (q.mul (a.mul b)).val).abs ≤ 6 * ((q.mul a).mul b).val.abs / 9007199254740992 := by
  have h1 := scale_twice_err q a b ha hb
  have h2 := scale_once_err q a b ha hb
  generalize ((q.mul a).mul b).val = X at *
  generalize (q.mul (a.mul b)).val = Y at *
  generalize q.toFlt * a.val * b.val = P at *
  have hP := self_le_abs P
  have hX := self_le_abs X
  have hY := self_le_abs Y
  rw [abs_le_iff] at h1 h2
  have hp := @Rat.abs_nonneg P
  simp only [twoRoundings] at h1 h2
  have hPX : P.abs ≤ X.abs + 18014398509481985 / 81129638414606681695789005144064 * P.abs := by
    by_cases h : 0 ≤ P
    · rw [Rat.abs_of_nonneg h] at *; grind
    · rw [Rat.abs_of_nonpos (show P ≤ 0 by grind)] at *; grind
  have hPY : P.abs ≤ Y.abs + 18014398509481985 / 81129638414606681695789005144064 * P.abs := by
    by_cases h : 0 ≤ P
    · rw [Rat.abs_of_nonneg h] at *; grind
    · rw [Rat.abs_of_nonpos (show P ≤ 0 by grind)] at *; grind
  constructor <;> rw [abs_le_iff] <;> simp only [Rat.div_def] at * <;> grind

/-- against the exact product, for a float quantity: under 3 units roundoff either way -/
theorem scale_twice_exact_close (q a b : Num) (hq : q.kind = .flt) (ha : a.kind = .flt) (hb : b.kind = .flt) :
    (((q.mul a).mul b).val - q.val * a.val * b.val).abs ≤ 3 * (q.val * a.val * b.val).abs / 9007199254740992 ∧
    ((q.mul (a.mul b)).val - q.val * a.val * b.val).abs ≤ 3 * (q.val * a.val * b.val).abs / 9007199254740992 := by
  have h1 := scale_twice_err q a b ha hb
  have h2 := scale_once_err q a b ha hb
  rw [toFlt_of_flt hq] at h1 h2
  have hp := @Rat.abs_nonneg (q.val * a.val * b.val)
  have := twoRoundings_lt
  have := Rat.mul_le_mul_of_nonneg_right (Rat.le_of_lt this) hp
  simp only [Rat.div_def] at *
  constructor <;> grind

/-- the same for every scalable number of a tree: `scale b (scale a t)` against `scale (a·b) t` -/
theorem scale_twice_close_tree (a b : Num) (ha : a.kind = .flt) (hb : b.kind = .flt) (t : Tree) :
    (nums (Tree.scale b (Tree.scale a t))).length = (nums (Tree.scale (a.mul b) t)).length ∧
    ∀ p ∈ List.zip (nums (Tree.scale b (Tree.scale a t))) (nums (Tree.scale (a.mul b) t)),
      (p.1.val - p.2.val).abs ≤ 6 * p.2.val.abs / 9007199254740992 := by
  rw [scale_numbers, scale_numbers, scale_numbers]
  refine ⟨by simp, ?_⟩
  intro p hp
  rw [List.map_map, List.zip_map'] at hp
  obtain ⟨q, _, rfl⟩ := List.mem_map.1 hp
  exact (scale_twice_close q a b ha hb).1

-- ================================================================ sanity examples
example : toDouble (1 / 10) = 3602879701896397 / 36028797018963968 := by decide +kernel
example : toDouble (mkRat 2 100) = 5764607523034235 / 288230376151711744 := by decide +kernel
/-- `0.1 * 3` then `* 7` against `0.1 * 21`: the two results differ (by one ulp), within the bound -/
example :
    let q : Num := ⟨toDouble (1 / 10), .flt⟩
    ((q.mul ⟨3, .flt⟩).mul ⟨7, .flt⟩).val ≠ (q.mul (Num.mul ⟨3, .flt⟩ ⟨7, .flt⟩)).val := by decide +kernel

end RG.C03
