import RecipeGrid.Lemmas.Recipe
/-! C08.4: the constructors refuse exactly the invalid recipe structures, and following references
    terminates. (C08.2, validity is preserved by scaling, is `RG.C03.scale_valid`.)
    Only specification definitions and property theorems; helper lemmas are in `Lemmas/Recipe.lean`. -/
namespace RG.C08

-- ================================================================ Step
/-- a step refuses exactly when some input is a sub recipe with more than one output -/
theorem mkStep_refuses_iff (d : SVS) (inputs : List Tree) :
    mkStep d inputs = .error .multiOutputNonRoot ↔ ∃ t ∈ inputs, 1 < t.numOutputs := by
  unfold mkStep
  split
  · rename_i h
    simp only [List.all_eq_true, Tree.canBeChild_iff] at h
    simp only [reduceCtorEq, false_iff, not_exists, not_and]
    intro t ht
    exact Nat.not_lt.2 (h t ht)
  · rename_i h
    simp only [List.all_eq_true, Tree.canBeChild_iff] at h
    simp only [true_iff]
    apply Classical.byContradiction
    intro hne
    apply h
    intro t ht
    apply Nat.le_of_not_lt
    intro hlt
    exact hne ⟨t, ht, hlt⟩

theorem mkStep_ok_iff (d : SVS) (inputs : List Tree) :
    mkStep d inputs = .ok (.step d inputs) ↔ ∀ t ∈ inputs, t.numOutputs ≤ 1 := by
  unfold mkStep
  split
  · rename_i h
    simp only [List.all_eq_true, Tree.canBeChild_iff] at h
    simpa using h
  · rename_i h
    simp only [List.all_eq_true, Tree.canBeChild_iff] at h
    simpa using h

/-- the only two outcomes -/
theorem mkStep_total (d : SVS) (inputs : List Tree) :
    mkStep d inputs = .ok (.step d inputs) ∨ mkStep d inputs = .error .multiOutputNonRoot := by
  unfold mkStep; split <;> simp

example : mkStep [.text "mix".toList, .num ⟨2, .int⟩]
    [.sub (.ingredient [] none) [[.text ['a']], [.text ['b']]] false] = .error .multiOutputNonRoot := rfl
example : ∃ t, mkStep [.text "mix".toList, .num ⟨2, .int⟩]
    [.ingredient [.text "flour".toList] (some ⟨⟨3 / 2, .frac⟩, some "kg".toList, " ".toList, []⟩)] = .ok t :=
  ⟨_, rfl⟩

-- ================================================================ SubRecipe
theorem mkSub_refuses_iff (body : Tree) (names : List SVS) (showNames : Bool) :
    (mkSub body names showNames = .error .multiOutputNonRoot ↔ 1 < body.numOutputs) ∧
    (mkSub body names showNames = .error .zeroOutput ↔ body.numOutputs ≤ 1 ∧ names = []) ∧
    (mkSub body names showNames = .ok (.sub body names showNames) ↔ body.numOutputs ≤ 1 ∧ names ≠ []) := by
  unfold mkSub
  cases hc : body.canBeChild with
  | false =>
    have : ¬ body.numOutputs ≤ 1 := fun h => by simp [(Tree.canBeChild_iff body).2 h] at hc
    simp [this, Nat.lt_of_not_le this]
  | true =>
    have : body.numOutputs ≤ 1 := (Tree.canBeChild_iff body).1 hc
    cases names with
    | nil => simp [this, Nat.not_lt.2 this]
    | cons n ns => simp [this, Nat.not_lt.2 this]

example : mkSub (.ingredient [] none) [] true = .error .zeroOutput := rfl
example : mkSub (.sub (.ingredient [] none) [[], []] true) [[]] true = .error .multiOutputNonRoot := rfl

-- ================================================================ Reference
theorem mkReference_refuses_iff (sub : Tree) (idx : Nat) (a : Amount) :
    mkReference sub idx a = .error .outputIndex ↔ sub.numOutputs ≤ idx := by
  unfold mkReference
  split <;> simp_all

theorem mkReference_ok_iff (sub : Tree) (idx : Nat) (a : Amount) :
    mkReference sub idx a = .ok (.reference sub idx a) ↔ idx < sub.numOutputs := by
  unfold mkReference
  split <;> simp_all [Nat.not_lt]

example : mkReference (.sub (.ingredient [] none) [[.text ['a']]] false) 1
    (.quantity ⟨⟨200, .int⟩, some ['g'], [], []⟩) = .error .outputIndex := rfl
example : ∃ t, mkReference (.sub (.ingredient [] none) [[.text ['a']]] false) 0
    (.quantity ⟨⟨200, .int⟩, some ['g'], [], []⟩) = .ok t := ⟨_, rfl⟩

-- ================================================================ Recipe (reference resolution)
/-- `RefTarget t s`: walking `t` (into step inputs, sub recipe bodies and the embedded copies held by
    references) meets a reference whose target is `s` -/
inductive RefTarget : Tree → Tree → Prop
  | here {s : Tree} {i : Nat} {a : Amount} : RefTarget (.reference s i a) s
  | inRef {s s' : Tree} {i : Nat} {a : Amount} : RefTarget s s' → RefTarget (.reference s i a) s'
  | inStep {t s : Tree} {d : SVS} {inputs : List Tree} : t ∈ inputs → RefTarget t s → RefTarget (.step d inputs) s
  | inSub {b s : Tree} {ns : List SVS} {sh : Bool} : RefTarget b s → RefTarget (.sub b ns sh) s

/-- the tree at position (block `bi`, index `ti`) -/
def treeAt (bs : List Block) (bi ti : Nat) : Option Tree := bs[bi]?.bind (·[ti]?)

/-- position (bj, tj) is in an earlier block than (bi, ti), or earlier in the same block -/
def Before (bj tj bi ti : Nat) : Prop := bj < bi ∨ (bj = bi ∧ tj < ti)

/-- every reference target met while walking each tree is `==` to a sub recipe root at an earlier position -/
def RefsResolve (bs : List Block) : Prop :=
  ∀ (bi ti : Nat) (t s : Tree), treeAt bs bi ti = some t → RefTarget t s →
    ∃ (bj tj : Nat) (r : Tree), Before bj tj bi ti ∧ treeAt bs bj tj = some r ∧ r.isSub = true ∧ Tree.beq s r = true

mutual
theorem refTarget_of_mem : ∀ (t s : Tree), s ∈ Tree.refTargets t → RefTarget t s
  | .ingredient .., _, h => by simp [Tree.refTargets] at h
  | .step d i, s, h => by
    simp only [Tree.refTargets] at h
    obtain ⟨t, ht, hs⟩ := refTarget_of_mem_list i s h
    exact .inStep ht hs
  | .reference s' n a, s, h => by
    simp only [Tree.refTargets, List.mem_cons] at h
    rcases h with rfl | h
    · exact .here
    · exact .inRef (refTarget_of_mem s' s h)
  | .sub b ns sh, s, h => by
    simp only [Tree.refTargets] at h
    exact .inSub (refTarget_of_mem b s h)
theorem refTarget_of_mem_list : ∀ (ts : List Tree) (s : Tree), s ∈ Tree.refTargetsList ts →
    ∃ t ∈ ts, RefTarget t s
  | [], _, h => by simp [Tree.refTargetsList] at h
  | t :: ts, s, h => by
    simp only [Tree.refTargetsList, List.mem_append] at h
    rcases h with h | h
    · exact ⟨t, List.mem_cons_self, refTarget_of_mem t s h⟩
    · obtain ⟨t', ht', hs⟩ := refTarget_of_mem_list ts s h
      exact ⟨t', List.mem_cons_of_mem _ ht', hs⟩
end

/-- the model's walk (`iter_children`) meets exactly the specified targets -/
theorem mem_refTargets_iff (t s : Tree) : s ∈ Tree.refTargets t ↔ RefTarget t s := by
  refine ⟨refTarget_of_mem t s, ?_⟩
  intro h
  induction h with
  | here => simp [Tree.refTargets]
  | inRef _ ih => simp [Tree.refTargets, ih]
  | inStep ht _ ih => simpa [Tree.refTargets] using Tree.mem_refTargetsList ht ih
  | inSub _ ih => simpa [Tree.refTargets] using ih

theorem mkRecipes_ok_iff (bs : List Block) : mkRecipes bs = .ok bs ↔ RefsResolve bs := by
  have h := checkBlocks_iff bs []
  simp only [List.not_mem_nil, false_and, exists_false, false_or] at h
  unfold mkRecipes
  have h' : checkBlocks [] bs = true ↔ RefsResolve bs := by
    rw [h]
    unfold RefsResolve treeAt Before
    constructor
    · intro hh bi ti t s ht hs
      exact hh bi ti t ht s ((mem_refTargets_iff t s).2 hs)
    · intro hh bi ti t ht s hs
      exact hh bi ti t s ht ((mem_refTargets_iff t s).1 hs)
  split
  · rename_i hc; simp [h'.1 hc]
  · rename_i hc; simpa using fun hr => hc (h'.2 hr)

/-- C08.4 the recipe list is refused exactly when some reference does not resolve -/
theorem mkRecipes_refuses_iff (bs : List Block) :
    mkRecipes bs = .error .referenceToInvalid ↔ ¬ RefsResolve bs := by
  rw [← mkRecipes_ok_iff]
  unfold mkRecipes
  split <;> simp

def exSub : Tree := .sub (.ingredient [.text "sauce".toList] none) [[.text "sauce".toList]] false
def exRef : Tree := .reference exSub 0 (.quantity ⟨⟨200, .int⟩, some ['g'], [], []⟩)
/-- defined first, then referenced: accepted -/
example : mkRecipes [[exSub], [.step [.text "add ".toList, .num ⟨2, .int⟩] [exRef]]] =
    .ok [[exSub], [.step [.text "add ".toList, .num ⟨2, .int⟩] [exRef]]] := by
  have : checkBlocks [] [[exSub], [.step [.text "add ".toList, .num ⟨2, .int⟩] [exRef]]] = true := by
    decide +kernel
  unfold mkRecipes
  rw [if_pos this]
/-- referenced before its definition: refused -/
theorem ex_refused : mkRecipes [[exRef], [exSub]] = .error .referenceToInvalid := by
  have : checkBlocks [] [[exRef], [exSub]] = false := by decide +kernel
  simp [mkRecipes, this]
example : ¬ RefsResolve [[exRef], [exSub]] := (mkRecipes_refuses_iff _).1 ex_refused
example : RefsResolve [[exSub, exRef]] := (mkRecipes_ok_iff _).1 (by
  have : checkBlocks [] [[exSub, exRef]] = true := by decide +kernel
  simp [mkRecipes, this])

-- ================================================================ following references terminates
mutual
/-- nesting depth of embedded copies -/
def refDepth : Tree → Nat
  | .ingredient .. => 0
  | .step _ i => refDepthList i
  | .reference s _ _ => refDepth s + 1
  | .sub b _ _ => refDepth b
def refDepthList : List Tree → Nat
  | [] => 0
  | t :: ts => max (refDepth t) (refDepthList ts)
end

/-- following references terminates: depth of embedded copies is a structural measure -/
theorem refDepth_embedded_lt (s : Tree) (i : Nat) (a : Amount) : refDepth s < refDepth (.reference s i a) := by
  simp [refDepth]

theorem refDepth_le_list {t : Tree} : ∀ {ts : List Tree}, t ∈ ts → refDepth t ≤ refDepthList ts
  | _ :: ts, h => by
    simp only [refDepthList]
    cases h with
    | head => exact Nat.le_max_left _ _
    | tail _ h => exact Nat.le_trans (refDepth_le_list h) (Nat.le_max_right _ _)

/-- every reference target met anywhere in a tree is strictly shallower than the tree -/
theorem refDepth_target_lt (t s : Tree) (h : RefTarget t s) : refDepth s < refDepth t := by
  induction h with
  | here => simp [refDepth]
  | inRef _ ih => simp only [refDepth]; omega
  | inStep ht _ ih => simp only [refDepth]; exact Nat.lt_of_lt_of_le ih (refDepth_le_list ht)
  | inSub _ ih => simpa [refDepth] using ih

example : refDepth (.step [] [exRef]) = 1 := by decide +kernel

end RG.C08
