import RecipeGrid.Lemmas.MdCompile
/-! C19.5 — `compile_markdown` end to end: from the document text to the error the user sees.

    `Model/MdCompile.lean` puts the pieces together: `mdCompile doc` scans the document (`scanBlocks2`), groups the recipe
    blocks into independent recipes (`groupBlocks`), pads each block (`paddedSource`), compiles group after group
    (`compile`) and reports what the first failing group raises, with the line, column and quoted line the exception carries
    (`offsetToLineCol` / `extractLine` on the padded source of the block `compile` names; for a syntax error peggie's
    furthest failure, `parseE`).  It is compared exactly with the real `compile_markdown` by `corr_L22.py`.

    Here, for every document of the sub-language **D2** (`inDoc2`):

    * `mdCompile_error_line` — every error names the document line that holds the offending text and quotes that line's
      recipe text (the line less its container prefix and at most 3 / 4 spaces), with two exceptions that are stated
      exactly: the empty fenced recipe block (reported on the line of its opening fence, column 2, quoting nothing) and
      the indented block at the very end of a document that ends in a line-break character other than the newline (reported
      one line below the last line of the document, quoting nothing);
    * `mdCompile_first_group` — the error is that of the first independent recipe that does not compile; earlier ones
      compile; what follows is not looked at;
    * `mdCompile_ok_iff` — success iff every independent recipe compiles, and the number of recipes. -/
namespace RG.C19

/-- line, column and quoted line of the three located errors -/
def located : MdOutcome → Option (Nat × Nat × Str)
  | .syntaxError l c q => some (l, c, q)
  | .redefined l c q => some (l, c, q)
  | .proportion l c q => some (l, c, q)
  | _ => none

/-- the document as marko and `get_line_number_corrected_source` read it: `"\r\n"` and a lone `"\r"` are `"\n"`; its
    lines are the lines of the document (`docLines_eq`) -/
def docLines (doc : Str) : List Str := splitLines (crToLf (normaliseCrLf doc))

/-- the lines of the document as the front end reads it are the lines of the document (`str.splitlines()`) -/
theorem docLines_eq (doc : Str) : docLines doc = splitLines doc := splitLines_norm doc

/-- **line `L` of the document holds the quoted text `q`** behind `qc` characters of container prefix (`isCPrefix`:
    nothing, or the spaces of a list item's indentation, or up to 3 spaces, `>` and at most one space) and `p ≤ 4` spaces
    of indentation; the `i`-th character of the quoted text is character `qc + p + i` of the document line -/
def QuotesLine (doc : Str) (L : Nat) (q : Str) : Prop :=
  ∃ d qc p, 1 ≤ L ∧ (docLines doc)[L - 1]? = some d ∧ isCPrefix (d.take qc) = true ∧ p ≤ 4 ∧
    (∀ x ∈ (d.drop qc).take p, x = ' ') ∧ d = d.take (qc + p) ++ q ∧ ∀ i, q[i]? = d[qc + p + i]?

theorem QuotesLine.line_le {doc : Str} {L : Nat} {q : Str} (h : QuotesLine doc L q) :
    1 ≤ L ∧ L ≤ (docLines doc).length := by
  obtain ⟨d, qc, p, h1, hd, _⟩ := h
  have := (List.getElem?_eq_some_iff.1 hd).1
  omega

/-! ## a line of a block's padded source, in the document -/

theorem norm_ne_nil_of_block (doc : Str) (b : MdBlock) (hb : b ∈ scanBlocks2 doc) : crToLf (normaliseCrLf doc) ≠ [] := by
  have := scanBlocks2_pos_lt doc b hb
  intro e
  rw [crToLf_eq_nil] at e
  rw [e] at this
  simp at this

theorem extractLine_docLines (doc : Str) (hne : crToLf (normaliseCrLf doc) ≠ []) (L : Nat) (hL : 1 ≤ L) :
    extractLine (crToLf (normaliseCrLf doc)) L = (docLines doc)[L - 1]? := by
  unfold extractLine docLines
  rw [if_neg (by simpa using hne), if_neg (by omega)]

theorem startLine_pos (doc : Str) (hD : inDoc2 doc = true) (b : MdBlock) (hb : b ∈ scanBlocks2 doc) : 1 ≤ b.startLine := by
  have := scan2_padding doc hD b hb
  omega

/-- the first line of an indented block is a line of the document -/
theorem startLine_le (doc : Str) (hD : inDoc2 doc = true) (b : MdBlock) (hb : b ∈ scanBlocks2 doc) (hk : b.kind.isFenced = false) :
    b.startLine ≤ (docLines doc).length := by
  have hpad := scan2_padding doc hD b hb
  have hne := norm_ne_nil_of_block doc b hb
  have hloc := (C07.offset_located (crToLf (normaliseCrLf doc)) b.pos).2.1
  have hlen : 0 < (splitLinesKeep (crToLf (normaliseCrLf doc))).length :=
    List.length_pos_iff.2 (by rwa [Ne, splitLinesKeep_eq_nil])
  simp only [mdPadding, hk, Bool.false_eq_true, if_false, Nat.add_zero] at hpad
  simp only [docLines, splitLines, List.length_map]
  omega

/-- **the line of a block's padded source is the document's line** (`scan2_block_lines`, read on the lines of the
    document), or — an indented block at the very end of a document that ends in a line-break character other than the
    newline — the empty line that `CodeBlock` appends, one line below the last line of the document -/
theorem block_line (doc : Str) (hD : inDoc2 doc = true) (b : MdBlock) (hb : b ∈ scanBlocks2 doc) (j : Nat) (q : Str)
    (hq : extractLine (paddedSource doc b.pos b.kind.isFenced b.source) (b.startLine + j) = some q) :
    QuotesLine doc (b.startLine + j) q ∨
      (b.kind.isFenced = false ∧ q = [] ∧ b.startLine + j = (docLines doc).length + 1) := by
  have hne := norm_ne_nil_of_block doc b hb
  have h1 := startLine_pos doc hD b hb
  rcases scan2_block_lines doc hD b hb j q hq with ⟨d, qc, p, hd, hc, hp, hsp, hqd, hlen⟩ | ⟨hk, hq0, hlast, hnone⟩
  · left
    rw [extractLine_docLines doc hne _ (by omega)] at hd
    refine ⟨d, qc, p, by omega, hd, hc, ?_, hsp, ?_, ?_⟩
    · split at hp <;> omega
    · rw [hqd, List.take_append_drop]
    · intro i; rw [hqd, List.getElem?_drop]
  · right
    refine ⟨hk, hq0, ?_⟩
    rw [extractLine_docLines doc hne _ (by omega)] at hnone
    have hge : (docLines doc).length ≤ b.startLine + j - 1 := by simpa using hnone
    cases j with
    | zero =>
      have := startLine_le doc hD b hb hk
      omega
    | succ j =>
      -- the line above exists in the padded source, hence (it is not the last one) in the document
      have hpne : paddedSource doc b.pos b.kind.isFenced b.source ≠ [] := by
        rw [paddedSource_eq]
        have := scan2_indented_source_ne_nil doc b hb hk
        simp [crToLf_eq_nil, this]
      have hidx : b.startLine + (j + 1) - 1 < (splitLines (paddedSource doc b.pos b.kind.isFenced b.source)).length := by
        unfold extractLine at hq
        rw [if_neg (by simpa using hpne), if_neg (by omega)] at hq
        exact (List.getElem?_eq_some_iff.1 hq).1
      obtain ⟨s', hs'⟩ : ∃ s', extractLine (paddedSource doc b.pos b.kind.isFenced b.source) (b.startLine + j) = some s' := by
        unfold extractLine
        rw [if_neg (by simpa using hpne), if_neg (by omega)]
        exact ⟨_, List.getElem?_eq_getElem (by omega)⟩
      rcases scan2_block_lines doc hD b hb j s' hs' with ⟨d, _, _, hd, _⟩ | ⟨_, _, hlast', _⟩
      · rw [extractLine_docLines doc hne _ (by omega)] at hd
        have := (List.getElem?_eq_some_iff.1 hd).1
        omega
      · omega

/-! ## the error of one independent recipe -/

/-- the empty fenced recipe block: `compile_markdown` raises a `ParseError` at the line of the block's opening fence,
    column 2, quoting the empty string (the padded source is `k` newlines — the last of them stands for the fence line —
    and peggie reports the end of the text on the last line, behind its newline) -/
def EmptyBlockError (doc : Str) (e : MdOutcome) (L c : Nat) (q : Str) : Prop :=
  ∃ b ∈ scanBlocks2 doc, b.kind.isRecipe = true ∧ b.kind.isFenced = true ∧ b.source = [] ∧
    e = .syntaxError L c q ∧ L + 1 = b.startLine ∧ c = 2 ∧ q = [] ∧ 1 ≤ L ∧ L ≤ (docLines doc).length

/-- the indented block at the very end of a document that ends in a line-break character other than the newline: the
    error is reported one line below the last line of the document, quoting the empty string -/
def BeyondEndError (doc : Str) (L : Nat) (q : Str) : Prop :=
  ∃ b ∈ scanBlocks2 doc, b.kind = .indented ∧ q = [] ∧ L = (docLines doc).length + 1

/-- the line of the opening fence of a fenced block is a line of the document -/
theorem fenceLine_le (doc : Str) (hD : inDoc2 doc = true) (b : MdBlock) (hb : b ∈ scanBlocks2 doc) (hk : b.kind.isFenced = true) :
    2 ≤ b.startLine ∧ b.startLine - 1 ≤ (docLines doc).length := by
  have hpad := scan2_padding doc hD b hb
  have hne := norm_ne_nil_of_block doc b hb
  have hloc := C07.offset_located (crToLf (normaliseCrLf doc)) b.pos
  have hlen : 0 < (splitLinesKeep (crToLf (normaliseCrLf doc))).length :=
    List.length_pos_iff.2 (by rwa [Ne, splitLinesKeep_eq_nil])
  simp only [mdPadding, hk, if_true] at hpad
  simp only [docLines, splitLines, List.length_map]
  omega

/-- `compile` names block `i` in what it raises -/
def NamesBlock (r : CompileResult) (i : Nat) : Prop :=
  r = .syntaxError i ∨ ∃ off, r = .redefined i off ∨ r = .proportion i off

/-- **the error of a group of blocks of the document**: whatever `compile` raises on the padded sources of blocks found by
    the scanner is located on the document line of the offending text -/
theorem group_error_line (doc : Str) (hD : inDoc2 doc = true) (g : List MdBlock) (hg : ∀ b ∈ g, b ∈ scanBlocks2 doc)
    (hr : ∀ b ∈ g, b.kind.isRecipe = true)
    (e : MdOutcome) (he : compileOutcome (mdGroupSources doc g) = some e) :
    ∃ i b L c q, g[i]? = some b ∧ NamesBlock (compile (mdGroupSources doc g)) i ∧
      located e = some (L, c, q) ∧ 1 ≤ c ∧ c ≤ q.length + 2 ∧
      b.startLine ≤ L + 1 ∧ L < b.startLine + max 1 (splitLines (crToLf b.source)).length ∧
      (QuotesLine doc L q ∨ EmptyBlockError doc e L c q ∨ BeyondEndError doc L q) := by
  rcases compileOutcome_some _ e he with ⟨i, s, off', q, hc, hs, hp, hq, rfl⟩ | ⟨i, s, off', q, hc, hs, hq, rfl⟩ |
      ⟨i, s, off', q, hc, hs, hq, rfl⟩
  · -- a syntax error in block `i`
    rw [mdGroupSources_getElem?] at hs
    cases hgi : g[i]? with
    | none => rw [hgi] at hs; cases hs
    | some b =>
      rw [hgi] at hs
      simp only [Option.map_some, Option.some.injEq] at hs
      subst hs
      have hb : b ∈ scanBlocks2 doc := hg b (List.mem_of_getElem? hgi)
      have hpad := scan2_padding doc hD b hb
      refine ⟨i, b, _, _, q, hgi, Or.inl hc, rfl, (C07.offset_located _ off').2.2.1,
        col_le_of_no_cr _ (not_cr_mem_paddedSource _ _ _ _) off' q hq, ?_⟩
      have hmax : 1 ≤ max 1 (splitLines (crToLf b.source)).length := Nat.le_max_left _ _
      rw [paddedSource_is_pad] at hp
      change parseE (pad (mdPadding doc b.pos b.kind.isFenced) (crToLf b.source)) = _ at hp
      rw [parseE_pad] at hp
      cases hp0 : parseE (crToLf b.source) with
      | ok l => rw [hp0] at hp; cases hp
      | syntaxError off =>
        rw [hp0] at hp
        simp only [ParseResultE.syntaxError.injEq] at hp
        subst hp
        by_cases hsrc : b.source = []
        · -- the empty block
          have hk : b.kind.isFenced = true := by
            cases hk : b.kind.isFenced with
            | true => rfl
            | false => exact absurd hsrc (scan2_indented_source_ne_nil doc b hb hk)
          obtain ⟨h2, hle⟩ := fenceLine_le doc hD b hb hk
          have hoff : off = 0 := by
            have := parseE_nil
            rw [hsrc] at hp0
            simp only [crToLf, List.map_nil] at hp0
            rw [this] at hp0
            cases hp0; rfl
          have hpd : paddedSource doc b.pos b.kind.isFenced b.source =
              List.replicate (mdPadding doc b.pos b.kind.isFenced) '\n' := by
            rw [paddedSource_eq, hsrc]; simp [crToLf]
          have hk0 : 0 < mdPadding doc b.pos b.kind.isFenced := by omega
          have hlc := offsetToLineCol_replicate_nl _ hk0
          subst hoff
          simp only [syntaxErrorLineCol, syntaxErrorSnippet, hpd, Nat.zero_add, hlc] at hq ⊢
          rw [extractLine_replicate_nl _ hk0] at hq
          simp only [Option.some.injEq] at hq
          exact ⟨by omega, by omega, Or.inr (Or.inl ⟨b, hb, hr b (List.mem_of_getElem? hgi), hk, hsrc, by rw [← hq], by omega,
            rfl, hq.symm, by omega, by omega⟩)⟩
        · obtain ⟨_, h2, h3⟩ := markdown_syntax_error_line doc b.pos b.kind.isFenced b.source off hsrc hp0
          have hl1 : 1 ≤ (syntaxErrorLineCol (crToLf b.source) off).1 := (C07.offset_located (crToLf b.source) off).1
          have hl2 : (syntaxErrorLineCol (crToLf b.source) off).1 ≤ max 1 (splitLines (crToLf b.source)).length := by
            have := (C07.offset_located (crToLf b.source) off).2.1
            simp only [splitLines, List.length_map]
            exact this
          rw [Nat.add_comm] at h2 h3
          have hline : (syntaxErrorLineCol (paddedSource doc b.pos b.kind.isFenced b.source)
              (off + mdPadding doc b.pos b.kind.isFenced)).1 =
              b.startLine + ((syntaxErrorLineCol (crToLf b.source) off).1 - 1) := by
            rw [h2]; show _ + _ = _; omega
          have hq' : extractLine (paddedSource doc b.pos b.kind.isFenced b.source)
              (b.startLine + ((syntaxErrorLineCol (crToLf b.source) off).1 - 1)) = some q := by
            rw [← hline]; exact hq
          rw [hline]
          refine ⟨by omega, by omega, ?_⟩
          rcases block_line doc hD b hb _ q hq' with h | ⟨hk, hq0, hL⟩
          · exact Or.inl h
          · exact Or.inr (Or.inr ⟨b, hb, (isFenced_false_iff _).1 hk, hq0, hL⟩)
  all_goals
    -- a redefinition / a proportion of an unknown name in block `i`
    rw [mdGroupSources_getElem?] at hs
    have hc0 := hc
    rw [mdGroupSources_eq, markdown_compile] at hc
    have hmap : ((g.map fun b => (b.pos, b.kind.isFenced, b.source)).map fun x => crToLf x.2.2) =
        g.map fun b => crToLf b.source := by
      rw [List.map_map]; rfl
    rw [hmap] at hc
    cases hraw : compile (g.map fun b => crToLf b.source) with
    | ok bs => rw [hraw] at hc; cases hc
    | syntaxError b => rw [hraw] at hc; cases hc
    | zeroDivision b => rw [hraw] at hc; cases hc
    | internal why => rw [hraw] at hc; cases hc
    | redefined i' off =>
      rw [hraw] at hc
      first
      | (cases hc; done)
      | (simp only [shiftResult, CompileResult.redefined.injEq] at hc
         obtain ⟨rfl, hoff⟩ := hc
         obtain ⟨b, hgi, hb, h1, _, h3, q', _, hq', _⟩ := doc2_error_line doc hD g hg i' off (Or.inl hraw)
         have h1' := h1 hraw
         rw [markdown_compile, hmap, hraw] at h1'
         simp only [shiftResult, CompileResult.redefined.injEq, true_and] at h1'
         rw [hgi] at hs
         simp only [Option.map_some, Option.some.injEq] at hs
         subst hs
         have hcol := col_le_of_no_cr _ (not_cr_mem_paddedSource _ _ _ _) off' q hq
         rw [← hoff, h1'] at hq hcol ⊢
         rw [h3] at hq hcol ⊢
         have hl1 := (C07.offset_located (crToLf b.source) off).1
         have hl2 : (offsetToLineCol (crToLf b.source) off).1 ≤ max 1 (splitLines (crToLf b.source)).length := by
           have := (C07.offset_located (crToLf b.source) off).2.1
           simpa [splitLines] using this
         refine ⟨i', b, _, _, q, hgi, Or.inr ⟨_, Or.inl hc0⟩, rfl, (C07.offset_located _ off).2.2.1, hcol, by omega,
           by omega, ?_⟩
         rcases block_line doc hD b hb _ q hq with h | ⟨hk, hq0, hL⟩
         · exact Or.inl h
         · exact Or.inr (Or.inr ⟨b, hb, (isFenced_false_iff _).1 hk, hq0, hL⟩))
    | proportion i' off =>
      rw [hraw] at hc
      first
      | (cases hc; done)
      | (simp only [shiftResult, CompileResult.proportion.injEq] at hc
         obtain ⟨rfl, hoff⟩ := hc
         obtain ⟨b, hgi, hb, _, h1, h3, q', _, hq', _⟩ := doc2_error_line doc hD g hg i' off (Or.inr hraw)
         have h1' := h1 hraw
         rw [markdown_compile, hmap, hraw] at h1'
         simp only [shiftResult, CompileResult.proportion.injEq, true_and] at h1'
         rw [hgi] at hs
         simp only [Option.map_some, Option.some.injEq] at hs
         subst hs
         have hcol := col_le_of_no_cr _ (not_cr_mem_paddedSource _ _ _ _) off' q hq
         rw [← hoff, h1'] at hq hcol ⊢
         rw [h3] at hq hcol ⊢
         have hl1 := (C07.offset_located (crToLf b.source) off).1
         have hl2 : (offsetToLineCol (crToLf b.source) off).1 ≤ max 1 (splitLines (crToLf b.source)).length := by
           have := (C07.offset_located (crToLf b.source) off).2.1
           simpa [splitLines] using this
         refine ⟨i', b, _, _, q, hgi, Or.inr ⟨_, Or.inr hc0⟩, rfl, (C07.offset_located _ off).2.2.1, hcol, by omega,
           by omega, ?_⟩
         rcases block_line doc hD b hb _ q hq with h | ⟨hk, hq0, hL⟩
         · exact Or.inl h
         · exact Or.inr (Or.inr ⟨b, hb, (isFenced_false_iff _).1 hk, hq0, hL⟩))

/-! ## the whole document -/

theorem mdGroups_recipe (doc : Str) (g : List MdBlock) (hg : g ∈ mdGroups doc) : ∀ b ∈ g, b.kind.isRecipe = true := by
  rw [mdGroups_eq] at hg
  obtain ⟨ix, hix, rfl⟩ := List.mem_map.1 hg
  intro b hb
  simp only [C13.groupOf2, List.mem_filterMap] at hb
  obtain ⟨i, hi, hbi⟩ := hb
  obtain ⟨b', hb', hr⟩ := C13.scan2_group_members doc ix hix i hi
  rw [hbi] at hb'
  cases hb'
  exact hr

theorem mdCompile_of_inDoc2 (doc : Str) (hD : inDoc2 doc = true) : mdCompile doc = mdRun doc (mdGroups doc) 0 := by
  simp [mdCompile, hD]

theorem mdCompile_outside_iff (doc : Str) : mdCompile doc = .outside ↔ inDoc2 doc = false := by
  constructor
  · intro h
    cases hD : inDoc2 doc with
    | false => rfl
    | true =>
      rw [mdCompile_of_inDoc2 doc hD] at h
      rcases mdRun_cases doc (mdGroups doc) 0 with ⟨_, hok⟩ | ⟨pre, g, post, e, _, _, hg, hrun⟩
      · rw [hok] at h; cases h
      · rw [hrun] at h
        subst h
        rcases compileOutcome_some _ _ hg with ⟨_, _, _, _, _, _, _, _, h⟩ | ⟨_, _, _, _, _, _, _, h⟩ |
          ⟨_, _, _, _, _, _, _, h⟩ <;> cases h
  · intro h; simp [mdCompile, h]

/-- **`mdCompile_first_group`**: when `compile_markdown` raises, the exception is what `compile` raises on the first
    independent recipe (in document order) whose blocks do not compile: every earlier recipe compiles, this one does not,
    and the outcome is the same whatever recipes follow (they are not looked at) -/
theorem mdCompile_first_group (doc : Str) (L c : Nat) (q : Str) (h : located (mdCompile doc) = some (L, c, q)) :
    inDoc2 doc = true ∧
    ∃ pre g post, mdGroups doc = pre ++ g :: post ∧
      (∀ g' ∈ pre, ∃ bs, compile (mdGroupSources doc g') = .ok bs) ∧
      (∀ bs, compile (mdGroupSources doc g) ≠ .ok bs) ∧
      compileOutcome (mdGroupSources doc g) = some (mdCompile doc) ∧
      ∀ post', mdRun doc (pre ++ g :: post') 0 = mdCompile doc := by
  have hD : inDoc2 doc = true := by
    cases hD : inDoc2 doc with
    | true => rfl
    | false => rw [(mdCompile_outside_iff doc).2 hD] at h; cases h
  refine ⟨hD, ?_⟩
  rw [mdCompile_of_inDoc2 doc hD] at h ⊢
  rcases mdRun_cases doc (mdGroups doc) 0 with ⟨_, hok⟩ | ⟨pre, g, post, e, hgs, hpre, hg, hrun⟩
  · rw [hok] at h; cases h
  · refine ⟨pre, g, post, hgs, ?_, ?_, by rw [hrun]; exact hg, ?_⟩
    · intro g' hg'
      exact (compileOutcome_none_iff _).1 (hpre g' hg')
    · intro bs hbs
      have := (compileOutcome_none_iff _).2 ⟨bs, hbs⟩
      rw [this] at hg; cases hg
    · intro post'
      rw [mdRun_append_of_none doc pre _ 0 hpre, mdRun_cons, hg, hrun]

/-- **`mdCompile_error_line`** (main): for every document of **D2** — blocks at top level, in block quotes, in list
    items; LF, CRLF — every error `compile_markdown` raises (syntax error, redefinition, proportion of an unknown name)
    carries a line number `L`, a column `c` with `1 ≤ c ≤ |q| + 2` (under a character of the quoted line, or just behind
    it) and a quoted line `q` such that `1 ≤ L ≤` number of lines of the
    document, line `L` of the document is `pre ++ q` with `pre` a container prefix followed by at most 4 spaces, and the
    `i`-th character of `q` (in particular the one under the column marker, `i = c - 1`) is character `pre.length + i` of
    that document line (`QuotesLine`).  The two exceptions, exactly:

    * an EMPTY fenced recipe block (```` ```recipe ```` directly followed by the closing fence, or by the end of its
      container or of the document) is a `ParseError` reported on the line of its opening fence, column 2, quoting the
      empty string (`EmptyBlockError`);
    * an error at the end of an indented block that ends the document, when the document ends in a line-break character
      other than the newline (form feed, U+2028, …), is reported on the line after the last line of the document,
      quoting the empty string (`BeyondEndError`). -/
theorem mdCompile_error_line (doc : Str) (L c : Nat) (q : Str) (h : located (mdCompile doc) = some (L, c, q)) :
    1 ≤ c ∧ c ≤ q.length + 2 ∧
      (QuotesLine doc L q ∨ EmptyBlockError doc (mdCompile doc) L c q ∨ BeyondEndError doc L q) := by
  obtain ⟨hD, pre, g, post, hgs, _, _, hg, _⟩ := mdCompile_first_group doc L c q h
  have hmem : g ∈ mdGroups doc := by rw [hgs]; simp
  obtain ⟨_, _, L', c', q', _, _, hloc, hc, hc2, _, _, hres⟩ :=
    group_error_line doc hD g (mdGroups_mem doc g hmem) (mdGroups_recipe doc g hmem) _ hg
  rw [h] at hloc
  simp only [Option.some.injEq, Prod.mk.injEq] at hloc
  obtain ⟨rfl, rfl, rfl⟩ := hloc
  exact ⟨hc, hc2, hres⟩

/-- in the regular case the reported line is a line of the document; in every case it is at most one line below -/
theorem mdCompile_error_line_bounds (doc : Str) (L c : Nat) (q : Str) (h : located (mdCompile doc) = some (L, c, q)) :
    1 ≤ L ∧ L ≤ (docLines doc).length + 1 ∧ (q ≠ [] → L ≤ (docLines doc).length) := by
  rcases (mdCompile_error_line doc L c q h).2.2 with hq | ⟨b, _, _, _, _, _, _, _, hq0, h1, h2⟩ | ⟨b, _, _, hq0, hL⟩
  · have := hq.line_le
    exact ⟨this.1, by omega, fun _ => this.2⟩
  · exact ⟨h1, by omega, fun _ => h2⟩
  · exact ⟨by omega, by omega, fun hne => absurd hq0 hne⟩

/-! ## success -/

/-- the number of independent recipes of a list of code blocks: one for the first recipe block, one more for every later
    `new-recipe` fence -/
def recipeCount (ks : List CodeBlockKind) : Nat :=
  match ks.filter (·.isRecipe) with
  | [] => 0
  | _ :: rest => 1 + (rest.filter (·.startsNew)).length

theorem groupBlocks_length (ks : List CodeBlockKind) : (groupBlocks ks).length = recipeCount ks := by
  have h := congrArg List.length (groupBlocksAux_heads_nil ks.zipIdx)
  rw [List.length_map] at h
  unfold groupBlocks
  rw [h]
  have hf := filter_zipIdx_fst (fun k : CodeBlockKind => k.isRecipe) ks 0
  unfold recipeCount
  rw [← hf]
  cases hz : ks.zipIdx.filter (fun x => x.1.isRecipe) with
  | nil => simp
  | cons p rest =>
    simp only [List.map_cons, List.length_cons, List.length_map]
    rw [List.filter_map, List.length_map]
    simp only [Nat.add_comm 1]
    rfl

theorem mdGroups_length (doc : Str) : (mdGroups doc).length = recipeCount ((scanBlocks2 doc).map (·.kind)) := by
  rw [mdGroups, List.length_map, groupBlocks_length]

/-- **`mdCompile_ok_iff`**: `compile_markdown` returns — with `n` independent recipes — iff the document is in **D2**
    (otherwise the model makes no claim), every independent recipe compiles, and `n` is the number of recipe blocks that
    start a recipe: the first recipe block and every later `new-recipe` fence (`0` without recipe blocks) -/
theorem mdCompile_ok_iff (doc : Str) (n : Nat) :
    mdCompile doc = .ok n ↔
      inDoc2 doc = true ∧ (∀ g ∈ mdGroups doc, ∃ bs, compile (mdGroupSources doc g) = .ok bs) ∧
        n = recipeCount ((scanBlocks2 doc).map (·.kind)) := by
  constructor
  · intro h
    have hD : inDoc2 doc = true := by
      cases hD : inDoc2 doc with
      | true => rfl
      | false => rw [(mdCompile_outside_iff doc).2 hD] at h; cases h
    rw [mdCompile_of_inDoc2 doc hD] at h
    rcases mdRun_cases doc (mdGroups doc) 0 with ⟨hall, hok⟩ | ⟨pre, g, post, e, _, _, hg, hrun⟩
    · rw [hok] at h
      simp only [MdOutcome.ok.injEq, Nat.zero_add] at h
      exact ⟨hD, fun g hg => (compileOutcome_none_iff _).1 (hall g hg), by rw [← h, mdGroups_length]⟩
    · rw [hrun] at h
      subst h
      rcases compileOutcome_some _ _ hg with ⟨_, _, _, _, _, _, _, _, h⟩ | ⟨_, _, _, _, _, _, _, h⟩ |
        ⟨_, _, _, _, _, _, _, h⟩ <;> cases h
  · rintro ⟨hD, hall, rfl⟩
    rw [mdCompile_of_inDoc2 doc hD]
    have := mdRun_append_of_none doc (mdGroups doc) [] 0 (fun g hg => (compileOutcome_none_iff _).2 (hall g hg))
    rw [List.append_nil, mdRun_nil, Nat.zero_add, mdGroups_length] at this
    exact this

/-- the padding plays no part in success: an independent recipe compiles iff the texts of its blocks (as marko captured
    them, carriage returns read as line feeds) compile, to the same recipe (`C13.compile_pad`) -/
theorem group_compile_ok_iff (doc : Str) (g : List MdBlock) (bs : List Block) :
    compile (mdGroupSources doc g) = .ok bs ↔ compile (g.map fun b => crToLf b.source) = .ok bs := by
  have hmap : ((g.map fun b => (b.pos, b.kind.isFenced, b.source)).map fun x => crToLf x.2.2) =
      g.map fun b => crToLf b.source := by
    rw [List.map_map]; rfl
  rw [mdGroupSources_eq, markdown_compile, hmap]
  cases compile (g.map fun b => crToLf b.source) <;> simp [shiftResult]

/-- which blocks start an independent recipe (`scan2_group`): block `i` of the document heads one of the `n` recipes iff
    it is the document's first recipe block or a fenced block whose language is exactly `new-recipe` -/
theorem mdCompile_recipe_starts (doc : Str) (i : Nat) :
    (∃ g ∈ groupBlocks ((scanBlocks2 doc).map (·.kind)), g.head? = some i) ↔
      ∃ n, (C13.recipeIndices ((scanBlocks2 doc).map (·.kind)))[n]? = some i ∧
        (n = 0 ∨ ∃ b, (scanBlocks2 doc)[i]? = some b ∧ b.kind = .fenced "new-recipe".toList) :=
  C13.scan2_group doc i

/-! ## document order, and which fault wins -/

/-- **the independent recipes are the recipe blocks of the document, in document order**: every recipe block (indented,
    or fenced `recipe` / `new-recipe`) is compiled in exactly one group, the groups follow each other as the blocks do -/
theorem mdGroups_flatten (doc : Str) : (mdGroups doc).flatten = (scanBlocks2 doc).filter (·.kind.isRecipe) := by
  rw [mdGroups]
  have h1 : ((groupBlocks ((scanBlocks2 doc).map (·.kind))).map
      fun g => g.filterMap fun i => (scanBlocks2 doc)[i]?).flatten =
      (groupBlocks ((scanBlocks2 doc).map (·.kind))).flatten.filterMap fun i => (scanBlocks2 doc)[i]? := by
    rw [List.filterMap_flatten]
  rw [h1, C13.group_flatten, C13.recipeIndices]
  have := recipeIndices_filterMap_aux (scanBlocks2 doc) []
  simpa using this

/-- **`mdCompile_error_block`** — which fault is reported, and where it lies.  When `compile_markdown` raises, there is a
    first independent recipe `g` that does not compile (the recipes before it compile) and a block `b = g[i]` of it such
    that:

    * for a syntax error, `b` is the FIRST block of `g` that the grammar rejects — the blocks of `g` before it parse,
      whatever compile errors they hold (`compile` parses all blocks before it compiles any);
    * for a redefinition / a proportion of an unknown name, EVERY block of `g` parses, and `b` holds the offending name;
    * the reported line lies in `b`: between the line before its first content line (the opening fence, for the empty
      block) and its last content line. -/
theorem mdCompile_error_block (doc : Str) (L c : Nat) (q : Str) (h : located (mdCompile doc) = some (L, c, q)) :
    ∃ pre g post i b, mdGroups doc = pre ++ g :: post ∧
      (∀ g' ∈ pre, ∃ bs, compile (mdGroupSources doc g') = .ok bs) ∧
      g[i]? = some b ∧ b ∈ scanBlocks2 doc ∧ b.kind.isRecipe = true ∧
      b.startLine ≤ L + 1 ∧ L < b.startLine + max 1 (splitLines (crToLf b.source)).length ∧
      ((∃ l' c' q', mdCompile doc = .syntaxError l' c' q') →
          parse (paddedSource doc b.pos b.kind.isFenced b.source) = .syntaxError ∧
          ∀ (j : Nat) (b' : MdBlock), j < i → g[j]? = some b' →
            ∃ stmts, parse (paddedSource doc b'.pos b'.kind.isFenced b'.source) = .ok stmts) ∧
      ((∀ l' c' q', mdCompile doc ≠ .syntaxError l' c' q') →
          ∀ b' ∈ g, ∃ stmts, parse (paddedSource doc b'.pos b'.kind.isFenced b'.source) = .ok stmts) := by
  obtain ⟨hD, pre, g, post, hgs, hpre, _, hg, _⟩ := mdCompile_first_group doc L c q h
  have hmem : g ∈ mdGroups doc := by rw [hgs]; simp
  obtain ⟨i, b, L', c', q', hgi, hname, hloc, _, _, hb1, hb2, _⟩ :=
    group_error_line doc hD g (mdGroups_mem doc g hmem) (mdGroups_recipe doc g hmem) _ hg
  rw [h] at hloc
  simp only [Option.some.injEq, Prod.mk.injEq] at hloc
  obtain ⟨rfl, rfl, rfl⟩ := hloc
  have hbg : b ∈ g := List.mem_of_getElem? hgi
  refine ⟨pre, g, post, i, b, hgs, hpre, hgi, mdGroups_mem doc g hmem b hbg, mdGroups_recipe doc g hmem b hbg, hb1, hb2,
    ?_, ?_⟩
  · rintro ⟨l', c', q', hs⟩
    rcases hname with hsyn | ⟨off, hloc' | hloc'⟩
    · obtain ⟨⟨s, hs1, hs2⟩, hfirst⟩ := compile_syntaxError_first _ i hsyn
      rw [mdGroupSources_getElem?, hgi] at hs1
      simp only [Option.map_some, Option.some.injEq] at hs1
      subst hs1
      refine ⟨hs2, ?_⟩
      intro j b' hj hgj
      exact hfirst j hj _ (by rw [mdGroupSources_getElem?, hgj]; rfl)
    all_goals
      exfalso
      rcases compileOutcome_some _ _ hg with ⟨_, _, _, _, hc', _, _, _, _⟩ | ⟨_, _, _, _, _, _, _, he⟩ |
        ⟨_, _, _, _, _, _, _, he⟩
      · rw [hc'] at hloc'; cases hloc'
      · rw [hs] at he; cases he
      · rw [hs] at he; cases he
  · intro hns b' hb'
    rcases hname with hsyn | ⟨off, hloc'⟩
    · exfalso
      rcases compileOutcome_some _ _ hg with ⟨_, _, _, _, _, _, _, _, he⟩ | ⟨_, _, _, _, hc', _, _, _⟩ |
        ⟨_, _, _, _, hc', _, _, _⟩
      · exact hns _ _ _ he
      · rw [hc'] at hsyn; cases hsyn
      · rw [hc'] at hsyn; cases hsyn
    · exact compile_located_all_parse _ i off hloc' _ (List.mem_map.2 ⟨b', hb', rfl⟩)

/-! ## non-vacuity -/

/-- a two-recipe document, CRLF line endings, both recipes inside block quotes; the second recipe (a `new-recipe` fence)
    redefines `b` on document line 9 (`">   b = 3 g z"`: quote prefix `"> "`, then the recipe text `"  b = 3 g z"`) -/
def exRedefined : Str :=
  "Stew\r\n\r\n> ```recipe\r\n> a = 1 g x\r\n> ```\r\n\r\n> ```new-recipe\r\n>  b = 2 g y\r\n>   b = 3 g z\r\n> ```\r\n".toList

/-- the same with a proportion of an unknown name, and with a stray `)`, on line 9 -/
def exProportion : Str :=
  "Stew\r\n\r\n> ```recipe\r\n> a = 1 g x\r\n> ```\r\n\r\n> ```new-recipe\r\n>  b = 2 g y\r\n>   c = f(b, 1/3 of d)\r\n> ```\r\n".toList
def exSyntax : Str :=
  "Stew\r\n\r\n> ```recipe\r\n> a = 1 g x\r\n> ```\r\n\r\n> ```new-recipe\r\n>  b = 2 g y\r\n>   c = f(b))\r\n> ```\r\n".toList

example : mdCompile exRedefined = .redefined 9 3 "  b = 3 g z".toList := by decide +kernel
example : mdCompile exProportion = .proportion 9 12 "  c = f(b, 1/3 of d)".toList := by decide +kernel
example : mdCompile exSyntax = .syntaxError 9 11 "  c = f(b))".toList := by decide +kernel

/-- the hypothesis of `mdCompile_error_line` / `mdCompile_first_group` is met, and the conclusion reads: line 9 of the
    document is `"> "` (a container prefix) followed by the quoted text; the character under the column marker (column 3)
    is the `b` at index 2 + 2 of the document line -/
example : located (mdCompile exRedefined) = some (9, 3, "  b = 3 g z".toList) ∧
    (docLines exRedefined)[9 - 1]? = some ">   b = 3 g z".toList ∧
    isCPrefix (">   b = 3 g z".toList.take 2) = true ∧
    ">   b = 3 g z".toList = ">   b = 3 g z".toList.take (2 + 0) ++ "  b = 3 g z".toList ∧
    "  b = 3 g z".toList[3 - 1]? = some 'b' ∧ ">   b = 3 g z".toList[2 + 0 + (3 - 1)]? = some 'b' ∧
    (docLines exRedefined).length = 10 := by decide +kernel

/-- the groups: the first recipe compiles, the second is the one at fault -/
example : (mdGroups exRedefined).length = 2 ∧
    compileOutcome (mdGroupSources exRedefined ((mdGroups exRedefined)[0]?.getD [])) = none ∧
    compileOutcome (mdGroupSources exRedefined ((mdGroups exRedefined)[1]?.getD [])) =
      some (.redefined 9 3 "  b = 3 g z".toList) := by decide +kernel

/-- without the fault the document compiles: two independent recipes (`a` may be defined in both) -/
example : mdCompile "Stew\r\n\r\n> ```recipe\r\n> a = 1 g x\r\n> ```\r\n\r\n> ```new-recipe\r\n>  a = 2 g y\r\n> ```\r\n".toList = .ok 2 := by
  decide +kernel

/-- which fault wins: inside one recipe `compile` parses every block before it compiles any, so the syntax error of the
    second block is reported although the first block redefines `a`; when the second block starts a new recipe the first
    recipe fails first -/
example : mdCompile "```recipe\na = 1 g x\na = 2 g y\n```\n\n```recipe\nf(\n```\n".toList = .syntaxError 7 4 "f(".toList ∧
    mdCompile "```recipe\na = 1 g x\na = 2 g y\n```\n\n```new-recipe\nf(\n```\n".toList = .redefined 3 1 "a = 2 g y".toList := by
  decide +kernel

/-- the two exceptional cases of `mdCompile_error_line` happen: the empty recipe block (in a quote, after a paragraph:
    the fence is on line 3) and the indented block at the end of a document that ends in a form feed (the document has
    one line, the error is reported on line 2) -/
example : mdCompile "a\r\n\r\n> ```recipe\r\n> ```\r\n".toList = .syntaxError 3 2 [] ∧
    (docLines "a\r\n\r\n> ```recipe\r\n> ```\r\n".toList)[3 - 1]? = some "> ```recipe".toList ∧
    mdCompile "    f(x\x0c".toList = .syntaxError 2 2 [] ∧ (docLines "    f(x\x0c".toList).length = 1 := by decide +kernel

/-- documents outside **D2** are answered `outside` -/
example : mdCompile ">> ```recipe\n>> f(\n".toList = .outside := by decide +kernel

end RG.C19
