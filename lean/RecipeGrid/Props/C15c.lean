import RecipeGrid.Model.Enumerate
/-! C15 (first clause: "exactly … one category page per directory … one page … for every recipe"): which entries of a directory are taken as
    sub directories, readme and recipes by `enumerate_recipe_directory` - the step before the page hierarchy of `Model/Site.lean`. -/
namespace RG.C15
open RG

def readmeFiles (es : List DirEntry) : List Str := (es.filter fun e => !e.isDir && isReadmeName e.name).map (·.name)
def recipeFiles (es : List DirEntry) : List Str :=
  (es.filter fun e => !e.isDir && !isReadmeName e.name && isRecipeName e.name).map (·.name)
def subDirs (es : List DirEntry) : List Str := (es.filter (·.isDir)).map (·.name)

/-- the loop, started from any accumulated listing without error and run over entries with at most `1 - (readme already seen)` readme files -/
theorem foldl_enumStep_ok (es : List DirEntry) (l : Listing)
    (h : (readmeFiles es).length + (if l.readme.isSome then 1 else 0) ≤ 1) :
    es.foldl enumStep (.ok l) = .ok ⟨(match l.readme with | some r => some r | none => (readmeFiles es).head?),
                                     l.subdirs ++ subDirs es, l.recipes ++ recipeFiles es⟩ := by
  induction es generalizing l with
  | nil => cases l with | mk r sd rc => cases r <;> simp [readmeFiles, subDirs, recipeFiles]
  | cons e es ih =>
    simp only [List.foldl_cons, enumStep]
    by_cases hd : e.isDir = true
    · have hrf : readmeFiles (e :: es) = readmeFiles es := by simp [readmeFiles, List.filter_cons, hd]
      rw [if_pos hd, ih _ (by simpa [hrf] using h)]
      simp [subDirs, recipeFiles, readmeFiles, List.filter_cons, hd]
    · have hd' : e.isDir = false := by simpa using hd
      rw [if_neg hd]
      by_cases hr : isReadmeName e.name = true
      · rw [if_pos hr]
        have hrf : readmeFiles (e :: es) = e.name :: readmeFiles es := by simp [readmeFiles, List.filter_cons, hd', hr]
        cases hl : l.readme with
        | some first => simp [hrf, hl] at h
        | none =>
          simp only
          rw [ih _ (by simp [hrf, hl] at h ⊢; omega)]
          simp [subDirs, recipeFiles, readmeFiles, List.filter_cons, hd', hr]
      · have hr' : isReadmeName e.name = false := by simpa using hr
        have hrf : readmeFiles (e :: es) = readmeFiles es := by simp [readmeFiles, List.filter_cons, hd', hr']
        rw [if_neg hr]
        by_cases hm : isRecipeName e.name = true
        · rw [if_pos hm, ih _ (by simpa [hrf] using h)]
          simp [subDirs, recipeFiles, readmeFiles, List.filter_cons, hd', hr', hm]
        · have hm' : isRecipeName e.name = false := by simpa using hm
          rw [if_neg hm, ih _ (by simpa [hrf] using h)]
          simp [subDirs, recipeFiles, readmeFiles, List.filter_cons, hd', hr', hm']

/-- **what is taken**: with at most one readme file the listing is - in listing order - all directories, the readme, and every other file
    whose suffix is `.md` in any letter case; nothing else, nothing twice -/
theorem enumerate_spec (es : List DirEntry) (h : (readmeFiles es).length ≤ 1) :
    enumerateDir es = .ok ⟨(readmeFiles es).head?, subDirs es, recipeFiles es⟩ := by
  unfold enumerateDir
  rw [foldl_enumStep_ok es ⟨none, [], []⟩ (by simpa using h)]
  simp

/-- once two readme files have been met the result is the error, whatever follows -/
theorem foldl_enumStep_err (es : List DirEntry) (a b : Str) : es.foldl enumStep (.multipleReadme a b) = .multipleReadme a b := by
  induction es with
  | nil => rfl
  | cons e es ih => simpa [List.foldl_cons, enumStep] using ih

/-- the loop with a readme already seen and at least one more to come reports the two first -/
theorem foldl_enumStep_second (es : List DirEntry) (l : Listing) (first : Str) (hl : l.readme = some first) (h : readmeFiles es ≠ []) :
    ∃ second, (readmeFiles es).head? = some second ∧ es.foldl enumStep (.ok l) = .multipleReadme first second := by
  induction es generalizing l with
  | nil => simp [readmeFiles] at h
  | cons e es ih =>
    simp only [List.foldl_cons, enumStep]
    by_cases hd : e.isDir = true
    · have hrf : readmeFiles (e :: es) = readmeFiles es := by simp [readmeFiles, List.filter_cons, hd]
      rw [if_pos hd, hrf]
      exact ih _ (by simpa using hl) (by simpa [hrf] using h)
    · have hd' : e.isDir = false := by simpa using hd
      rw [if_neg hd]
      by_cases hr : isReadmeName e.name = true
      · have hrf : readmeFiles (e :: es) = e.name :: readmeFiles es := by simp [readmeFiles, List.filter_cons, hd', hr]
        rw [if_pos hr, hl]
        exact ⟨e.name, by simp [hrf], foldl_enumStep_err es first e.name⟩
      · have hr' : isReadmeName e.name = false := by simpa using hr
        have hrf : readmeFiles (e :: es) = readmeFiles es := by simp [readmeFiles, List.filter_cons, hd', hr']
        rw [if_neg hr, hrf]
        by_cases hm : isRecipeName e.name = true
        · rw [if_pos hm]; exact ih _ (by simpa using hl) (by simpa [hrf] using h)
        · rw [if_neg hm]; exact ih _ hl (by simpa [hrf] using h)

/-- **the error**: refused exactly when the directory holds two or more files named `readme.md` / `index.md` in any letter case, naming the
    first two in listing order -/
theorem enumerate_error_iff (es : List DirEntry) :
    (∃ a b, enumerateDir es = .multipleReadme a b) ↔ 2 ≤ (readmeFiles es).length := by
  constructor
  · intro ⟨a, b, hab⟩
    by_cases h : (readmeFiles es).length ≤ 1
    · rw [enumerate_spec es h] at hab; cases hab
    · omega
  · intro h
    -- split the listing at the first readme file
    unfold enumerateDir
    suffices H : ∀ (es : List DirEntry) (l : Listing), l.readme = none → 2 ≤ (readmeFiles es).length →
        ∃ a b, es.foldl enumStep (.ok l) = .multipleReadme a b from H es _ rfl h
    intro es
    induction es with
    | nil => intro l _ h; simp [readmeFiles] at h
    | cons e es ih =>
      intro l hl h
      simp only [List.foldl_cons, enumStep]
      by_cases hd : e.isDir = true
      · have hrf : readmeFiles (e :: es) = readmeFiles es := by simp [readmeFiles, List.filter_cons, hd]
        rw [if_pos hd]; exact ih _ (by simpa using hl) (by simpa [hrf] using h)
      · have hd' : e.isDir = false := by simpa using hd
        rw [if_neg hd]
        by_cases hr : isReadmeName e.name = true
        · have hrf : readmeFiles (e :: es) = e.name :: readmeFiles es := by simp [readmeFiles, List.filter_cons, hd', hr]
          rw [if_pos hr, hl]
          simp only
          have hne : readmeFiles es ≠ [] := by
            intro hnil; rw [hrf, hnil] at h; simp at h
          obtain ⟨second, _, hs⟩ := foldl_enumStep_second es { l with readme := some e.name } e.name rfl hne
          exact ⟨e.name, second, hs⟩
        · have hr' : isReadmeName e.name = false := by simpa using hr
          have hrf : readmeFiles (e :: es) = readmeFiles es := by simp [readmeFiles, List.filter_cons, hd', hr']
          rw [if_neg hr]
          by_cases hm : isRecipeName e.name = true
          · rw [if_pos hm]; exact ih _ (by simpa using hl) (by simpa [hrf] using h)
          · rw [if_neg hm]; exact ih _ hl (by simpa [hrf] using h)

/-- every entry is taken in exactly one way or ignored: the three lists are disjoint by construction -/
theorem enumerate_classes_disjoint (e : DirEntry) :
    ((e.isDir : Bool) && (!e.isDir && isReadmeName e.name)) = false ∧
    ((!e.isDir && isReadmeName e.name) && (!e.isDir && !isReadmeName e.name && isRecipeName e.name)) = false ∧
    ((e.isDir : Bool) && (!e.isDir && !isReadmeName e.name && isRecipeName e.name)) = false := by
  cases e.isDir <;> cases isReadmeName e.name <;> cases isRecipeName e.name <;> simp

-- the suffix rule: hidden files and names ending in a dot have no suffix; a directory is a directory whatever its name
example : isRecipeName "soup.md".toList = true ∧ isRecipeName "Soup.MD".toList = true ∧ isRecipeName "a.b.Md".toList = true ∧
    isRecipeName ".md".toList = false ∧ isRecipeName "soup.md.".toList = false ∧ isRecipeName "soup.markdown".toList = false ∧
    isRecipeName "md".toList = false ∧ isRecipeName "..md".toList = true := by decide +kernel
example : isReadmeName "ReadMe.md".toList = true ∧ isReadmeName "INDEX.MD".toList = true ∧ isReadmeName "readme.markdown".toList = false := by
  decide +kernel
example : enumerateDir [⟨"b.md".toList, false⟩, ⟨"x.md".toList, true⟩, ⟨"README.md".toList, false⟩, ⟨"notes.txt".toList, false⟩, ⟨"a.MD".toList, false⟩]
    = .ok ⟨some "README.md".toList, ["x.md".toList], ["b.md".toList, "a.MD".toList]⟩ := by decide +kernel
example : enumerateDir [⟨"index.md".toList, false⟩, ⟨"a.md".toList, false⟩, ⟨"Readme.MD".toList, false⟩, ⟨"README.md".toList, false⟩]
    = .multipleReadme "index.md".toList "Readme.MD".toList := by decide +kernel

end RG.C15
